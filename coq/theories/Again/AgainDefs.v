(* C16 — deferred tasks (PARSEC_HOOK_RETURN_AGAIN) and the chunked generation of the
   startup tasks.  Definitions only (proofs: AgainProofs.v).

   (1) `progress`: parsec/scheduling.c __parsec_task_progress + __parsec_execute as a
       function of the task (status, priority) and of what prepare_input / the hook return
       in this call:
         if status <= PREPARE_INPUT  rc = prepare_input()            else rc = DONE
         DONE : if status <= HOOK    rc = hook()  (status = COMPLETE unless ASYNC)
                DONE  -> complete_execution (prepare_output, release_deps, task freed)
                AGAIN -> status = HOOK; demote; singleton; __parsec_schedule(distance + 1)
                ASYNC -> nothing
         ASYNC: nothing
         AGAIN: demote; singleton; __parsec_schedule(distance + 1)      (status unchanged)
       so an AGAIN of prepare_input re-runs prepare_input, an AGAIN of the hook does not.
       demote: priority 0 becomes SET_LOWEST_PRIORITY = 0xffffffff = -1 (HIGHER_IS_BETTER),
       anything else is divided by 10 (C division, int32).
   (2) `astep`: C01's dataflow engine with the events Again t / Rerun t: a running task whose
       body returns AGAIN goes back to the scheduler and is invoked again later; its
       dependencies are released by the End that follows the invocation returning DONE.
   (3) the generated startup function (jdf2c.c jdf_generate_startup_tasks) as a resumable
       enumerator over the loop nest of the class: the loop variables live in the pseudo
       task (`first_env`, `next_env`: the odometer the `restore_context` labels implement),
       and the batching rule of one invocation (`invocation`): flush when more than
       `reserved` tasks are pending, `reserved` doubles while below task_startup_iter, return
       AGAIN once more than task_startup_chunk tasks were flushed; `reserved` restarts at 1. *)
From Coq Require Import ZArith List Bool Arith.
From PV Require Import PTG.PTGDefs PTG.Engine PTG.PTGProofs PTGVal.PTGValDefs.
Import ListNotations.

(* ------------------------------------------------------------------ (1) task progress *)
(* PARSEC_TASK_STATUS_NONE 0, PREPARE_INPUT 1, EVAL 2, HOOK 3, PREPARE_OUTPUT 4, COMPLETE 5 *)
Definition ST_PREPARE_INPUT : nat := 1.
Definition ST_HOOK : nat := 3.
Definition ST_COMPLETE : nat := 5.
Inductive hret := RDone | RAgain | RAsync.
Record ptask := { t_status : nat; t_prio : Z }.
Record pcall := { pi_ret : hret; hk_ret : hret }.
Record presult := { r_task : ptask;
                    r_pi : bool;             (* prepare_input was called *)
                    r_hook : bool;           (* the hook was called *)
                    r_complete : bool;       (* complete_execution: release_deps ran, the task is gone *)
                    r_resched : option nat }. (* __parsec_schedule(es, task, d) *)

Definition demote (p : Z) : Z := if (p =? 0)%Z then (-1)%Z else Z.quot p 10.

Definition progress (t : ptask) (distance : nat) (c : pcall) : presult :=
  let pi := Nat.leb (t_status t) ST_PREPARE_INPUT in
  let rc := if pi then pi_ret c else RDone in
  match rc with
  | RDone =>
      if Nat.leb (t_status t) ST_HOOK then
        match hk_ret c with
        | RDone => {| r_task := {| t_status := ST_COMPLETE; t_prio := t_prio t |};
                      r_pi := pi; r_hook := true; r_complete := true; r_resched := None |}
        | RAgain => {| r_task := {| t_status := ST_HOOK; t_prio := demote (t_prio t) |};
                       r_pi := pi; r_hook := true; r_complete := false; r_resched := Some (S distance) |}
        | RAsync => {| r_task := t; r_pi := pi; r_hook := true; r_complete := false; r_resched := None |}
        end
      else {| r_task := t; r_pi := pi; r_hook := false; r_complete := true; r_resched := None |}
  | RAsync => {| r_task := t; r_pi := pi; r_hook := false; r_complete := false; r_resched := None |}
  | RAgain => {| r_task := {| t_status := t_status t; t_prio := demote (t_prio t) |};
                 r_pi := pi; r_hook := false; r_complete := false; r_resched := Some (S distance) |}
  end.

(* a task whose prepare_input returns AGAIN `a` times and whose hook returns AGAIN `k` times *)
Record tstate := { ts_task : ptask;
                   ts_pi : nat;              (* calls of prepare_input *)
                   ts_hook : nat;            (* calls of the hook *)
                   ts_rel : nat;             (* calls of release_deps *)
                   ts_queued : bool;         (* the task is in the scheduler *)
                   ts_prios : list Z }.      (* priority at every hook invocation, most recent first *)
Definition tinit (p : Z) : tstate :=
  {| ts_task := {| t_status := 0; t_prio := p |}; ts_pi := 0; ts_hook := 0; ts_rel := 0; ts_queued := true; ts_prios := [] |}.
Definition call_for (a k : nat) (s : tstate) : pcall :=
  {| pi_ret := if Nat.ltb (ts_pi s) a then RAgain else RDone;
     hk_ret := if Nat.ltb (ts_hook s) k then RAgain else RDone |}.
(* the scheduler hands the task to a thread (any distance) *)
Definition tstep (a k : nat) (s : tstate) (distance : nat) : tstate :=
  if ts_queued s then
    let r := progress (ts_task s) distance (call_for a k s) in
    {| ts_task := r_task r;
       ts_pi := if r_pi r then S (ts_pi s) else ts_pi s;
       ts_hook := if r_hook r then S (ts_hook s) else ts_hook s;
       ts_rel := if r_complete r then S (ts_rel s) else ts_rel s;
       ts_queued := match r_resched r with Some _ => true | None => false end;
       ts_prios := if r_hook r then t_prio (ts_task s) :: ts_prios s else ts_prios s |}
  else s.
Definition trun (a k : nat) (p : Z) (ds : list nat) : tstate := fold_left (tstep a k) ds (tinit p).

(* several tasks and a scheduler that keeps what it is given (the conservation property of C08):
   the ready set is a list of task numbers, `select` takes any of them out *)
Record sys := { sy_tasks : list tstate; sy_ready : list nat }.
Fixpoint take_nth {A} (i : nat) (l : list A) : option (A * list A) :=
  match l, i with
  | [], _ => None
  | x :: r, O => Some (x, r)
  | x :: r, S j => match take_nth j r with Some (y, r') => Some (y, x :: r') | None => None end
  end.
Fixpoint set_nth {A} (i : nat) (v : A) (l : list A) : list A :=
  match l, i with
  | [], _ => []
  | _ :: r, O => v :: r
  | x :: r, S j => x :: set_nth j v r
  end.
(* one scheduling decision: the choice c picks a ready task (mod the number of ready tasks) *)
Definition sys_step (scripts : list (nat * nat)) (s : sys) (c : nat) : sys :=
  match sy_ready s with
  | [] => s
  | _ => match take_nth (Nat.modulo c (length (sy_ready s))) (sy_ready s) with
         | Some (j, rest) =>
             match nth_error (sy_tasks s) j, nth_error scripts j with
             | Some ts, Some (a, k) =>
                 let ts' := tstep a k ts c in
                 {| sy_tasks := set_nth j ts' (sy_tasks s);
                    sy_ready := if ts_queued ts' then rest ++ [j] else rest |}
             | _, _ => {| sy_tasks := sy_tasks s; sy_ready := rest |}
             end
         | None => s
         end
  end.
Definition sys_init (prios : list Z) : sys :=
  {| sy_tasks := map tinit prios; sy_ready := seq 0 (length prios) |}.
Definition sys_run (scripts : list (nat * nat)) (prios : list Z) (cs : list nat) : sys :=
  fold_left (sys_step scripts) cs (sys_init prios).

(* what the harness observes for one instance: number of invocations, priority of each *)
Fixpoint iter_demote (n : nat) (p : Z) : list Z :=
  match n with O => [] | S m => p :: iter_demote m (demote p) end.

(* ------------------------------------------------------------------ (2) the engine with AGAIN *)
Section AgainEngine.
  Variable task : Type.
  Variable teq : forall a b : task, {a = b} + {a <> b}.
  Variable tasks : list task.
  Variable preds succs : task -> list task.
  Variable kagain : task -> nat.           (* the body of t returns AGAIN kagain t times, then DONE *)

  Inductive aevent := AE (e : event task) | Again (t : task) | Rerun (t : task).
  Inductive alogev := AInvoke (t : task) | AAgain (t : task) | ARelease (t : task).
  Record astate := { acore : state task;
                     asub : task -> bool;      (* true: returned AGAIN, waiting in the scheduler *)
                     ainv : task -> nat;       (* invocations of the body so far *)
                     alog : list alogev }.     (* most recent first *)
  Definition fupd {B} (f : task -> B) (t : task) (v : B) : task -> B := fun x => if teq x t then v else f x.
  Definition ainit : astate :=
    {| acore := init task teq tasks preds; asub := fun _ => false; ainv := fun _ => 0; alog := [] |}.
  Definition astep (s : astate) (e : aevent) : astate :=
    match e with
    | AE (Begin t) =>
        match st task (acore s) t with
        | Ready => {| acore := step task teq tasks succs (acore s) (Begin t);
                      asub := fupd (asub s) t false; ainv := fupd (ainv s) t 1; alog := AInvoke t :: alog s |}
        | _ => s
        end
    | AE (End t) =>
        match st task (acore s) t with
        | Running => if negb (asub s t) && Nat.eqb (ainv s t) (S (kagain t))
                     then {| acore := step task teq tasks succs (acore s) (End t);
                             asub := asub s; ainv := ainv s; alog := ARelease t :: alog s |}
                     else s
        | _ => s
        end
    | AE ev => {| acore := step task teq tasks succs (acore s) ev; asub := asub s; ainv := ainv s; alog := alog s |}
    | Again t =>
        match st task (acore s) t with
        | Running => if negb (asub s t) && Nat.leb (ainv s t) (kagain t)
                     then {| acore := acore s; asub := fupd (asub s) t true; ainv := ainv s; alog := AAgain t :: alog s |}
                     else s
        | _ => s
        end
    | Rerun t =>
        match st task (acore s) t with
        | Running => if asub s t
                     then {| acore := acore s; asub := fupd (asub s) t false; ainv := fupd (ainv s) t (S (ainv s t));
                             alog := AInvoke t :: alog s |}
                     else s
        | _ => s
        end
    end.
  Definition arun (evs : list aevent) : astate := fold_left astep evs ainit.

  Definition invokes (l : list alogev) : list task :=
    flat_map (fun e => match e with AInvoke t => [t] | _ => [] end) l.
  Definition releases (l : list alogev) : list task :=
    flat_map (fun e => match e with ARelease t => [t] | _ => [] end) l.
  (* nothing can happen any more *)
  Definition aquiescent (s : astate) : Prop :=
    forall t, In t tasks -> st task (acore s) t <> Ready /\ st task (acore s) t <> Running /\ st task (acore s) t <> Waiting 0.
End AgainEngine.

Arguments AE {task} e.
Arguments Again {task} t.
Arguments Rerun {task} t.
Arguments AInvoke {task} t.
Arguments AAgain {task} t.
Arguments ARelease {task} t.

(* ------------------------------------------------------------------ (3) chunked startup *)
Fixpoint find_some {A B} (f : A -> option B) (l : list A) : option B :=
  match l with
  | [] => None
  | x :: r => match f x with Some y => Some y | None => find_some f r end
  end.

(* first iteration of the loop nest `ls` below the values `pre` of the enclosing locals *)
Fixpoint first_env (G : list Z) (ls : list local) (pre : list Z) : option (list Z) :=
  match ls with
  | [] => Some pre
  | Ldef e :: r => first_env G r (pre ++ [eval G pre e])
  | Lrange lo hi st :: r =>
      find_some (fun v => first_env G r (pre ++ [v])) (zrange (eval G pre lo) (eval G pre hi) (eval G pre st))
  end.
(* the iteration that follows the one whose locals (for `ls`) are `cur`: the innermost loop advances;
   a loop that is exhausted hands over to the enclosing one, whose next value re-enters the inner loops
   at their lower bounds (possibly empty: the search goes on) *)
Fixpoint next_env (G : list Z) (ls : list local) (pre cur : list Z) : option (list Z) :=
  match ls, cur with
  | Ldef _ :: r, v :: cur' => next_env G r (pre ++ [v]) cur'
  | Lrange lo hi st :: r, v :: cur' =>
      match next_env G r (pre ++ [v]) cur' with
      | Some e => Some e
      | None => find_some (fun v' => first_env G r (pre ++ [v']))
                          (zrange (v + eval G pre st) (eval G pre hi) (eval G pre st))
      end
  | _, _ => None
  end.
(* the sequence of iterations obtained by resuming from the saved locals, `fuel` times at most *)
Fixpoint walk_from (G : list Z) (ls : list local) (fuel : nat) (cur : option (list Z)) : list (list Z) :=
  match fuel, cur with
  | S n, Some e => e :: walk_from G ls n (next_env G ls [] e)
  | _, _ => []
  end.
Definition walk (G : list Z) (ls : list local) (fuel : nat) : list (list Z) :=
  walk_from G ls fuel (first_env G ls []).

(* one invocation of the startup function on the instances still to create: (created, left, AGAIN?) *)
Fixpoint invocation {A} (iter chunk r nb total : nat) (l : list A) (acc : list A) : list A * list A * bool :=
  match l with
  | [] => (rev acc, [], false)
  | x :: l' =>
      let nb' := S nb in
      if Nat.ltb r nb' then
        let r' := if Nat.ltb r iter then 2 * r else r in
        let total' := total + nb' in
        if Nat.ltb chunk total' then (rev (x :: acc), l', true)
        else invocation iter chunk r' 0 total' l' (x :: acc)
      else invocation iter chunk r nb' total l' (x :: acc)
  end.
Fixpoint chunks {A} (fuel iter chunk : nat) (l : list A) : list (list A) :=
  match fuel with
  | O => []
  | S f => let '(c, rest, again) := invocation iter chunk 1 0 0 l [] in
           if again then c :: chunks f iter chunk rest else [c]
  end.

(* startup instances of a class: those without predecessor *)
Definition is_startup (P : program) (ci : nat) (c : tclass) (env : list Z) : bool :=
  match preds P (ci, params_of c env) with [] => true | _ => false end.
Definition startup_space (P : program) (ci : nat) (c : tclass) : list (list Z) :=
  filter (is_startup P ci c) (instances_of (p_globals P) c).
(* what the successive invocations of the generated startup function create *)
Definition startup_chunks (P : program) (ci : nat) (c : tclass) (iter chunk : nat) : list (list (list Z)) :=
  let space := walk (p_globals P) (c_locals c) (S (length (instances_of (p_globals P) c))) in
  let l := filter (is_startup P ci c) space in
  chunks (S (length l)) iter chunk l.

(* ------------------------------------------------------------------ what the harness observes *)
(* priority of an instance when it is created (taskpool priority 0 + the class' priority expression) *)
Definition inst_prio (P : program) (t : tid) : Z :=
  match env_of P t with
  | Some (c, env) => match c_prio c with Some e => eval (p_globals P) env e | None => 0%Z end
  | None => 0%Z
  end.
(* number of AGAIN returns of the body of an instance under `--again seed amax` (harness/ptg_driver.c) *)
Definition inst_again (names : list (list Z)) (P : program) (seed amax : Z) (t : tid) : nat :=
  match env_of P t with
  | Some (_, env) => Z.to_nat (again_count seed amax (nth (fst t) names []) env)
  | None => O
  end.
(* the priorities seen by the successive invocations of the body: the task-progress machine is run until
   the task is no longer in the scheduler (generated data_lookup never returns AGAIN here: a = 0) *)
Definition inst_invocations (names : list (list Z)) (P : program) (seed amax : Z) (t : tid) : list Z :=
  let k := inst_again names P seed amax t in
  rev (ts_prios (trun 0 k (inst_prio P t) (repeat O (S k)))).

(* the engine with AGAIN on the instances of a program *)
Definition ptg_arun (P : program) (kagain : tid -> nat) (evs : list (aevent tid)) : astate tid :=
  arun tid tid_eq_dec (instances P) (preds P) (succs P) kagain evs.
Definition ptg_aquiescent (P : program) (s : astate tid) : Prop := aquiescent tid (instances P) s.
