(* C32 (3): concurrent insert / find / remove at critical-section granularity.

   The state is the sequential model's table (HashT/HashTDefs.v) plus one program counter per
   thread.  One step = one lock-protected section of the code:

     LIdle -> LRd      parsec_atomic_rwlock_rdlock            (always possible: the write section is one step)
     LRd   -> LTop     parsec_atomic_lock(newest table's bucket of k)   (enabled iff no thread holds that bucket)
     LTop  -> ...      the search of the newest bucket (insert: the insertion and the resize decision)
     LWalk c           one old table per step: lock its bucket of k, search, unlink the item, --cur_len,
                       fetch_dec(used_buckets), unlink the emptied table, (find) re-insert in the newest
                       table, unlock the old bucket.  c = nb_bits of the table visited last.
     LEnd  -> LRel     parsec_atomic_unlock(newest bucket)
     LRel  -> ...      parsec_atomic_rwlock_rdunlock; an insert that decided to resize goes to LResize
     LResize           wrlock; if( cur_head == ht->rw_hash ) resize; wrunlock   (enabled iff there is no reader)

   Locks held when an older table is touched: the table's rw-lock in read mode, the bucket lock of k in the
   NEWEST table, and the bucket lock of k in that older table -- one older table at a time, released
   before the next one is taken; used_buckets and prev->next are updated with atomic operations under no
   further lock.  Bucket locks and the rw-lock are primitives here (a lock is held by the threads whose
   program counter is inside the section); the rw-lock implementation is C33's subject.
   Compared with the atomic-step model that is tested against the code (HashT/HashTConcDefs.v) the chain
   of tables is the list of tables that are still linked: a table emptied through a stale prev pointer
   stays linked (empty) in the code and is dropped here; this changes no lookup.

   Ghost state: [l_log] receives (thread, operation, result) at the step where the result is determined
   (the linearization point); [l_bad] records that an insert found its key present (the API's
   precondition was violated by the client). *)
From Coq Require Import ZArith NArith List Bool.
From PV Require Import Base.ListX HashT.HashTDefs HashT.HashTConcDefs.
Import ListNotations.

Inductive lpc :=
| LIdle | LRd | LTop
| LWalk (c : nat)
| LEnd (rz : bool)
| LRel (rz : bool)
| LResize (tb : nat).

Record lthread := { lt_pc : lpc; lt_ops : list cop }.
Record lcfg := { l_h : ht; l_thr : list lthread;
                 l_log : list (nat * cop * option N);       (* latest first *)
                 l_bad : bool }.

Definition top_bits (h : ht) : nat := match h_tabs h with t :: _ => t_bits t | [] => 0%nat end.
Definition lt_key (th : lthread) : N := match lt_ops th with o :: _ => cop_key o | [] => 0%N end.
Definition in_cs (th : lthread) : bool :=
  match lt_pc th with LTop | LWalk _ | LEnd _ => true | _ => false end.
Definition is_reader (th : lthread) : bool :=
  match lt_pc th with LRd | LTop | LWalk _ | LEnd _ | LRel _ => true | _ => false end.
(* thread th holds the lock of bucket i of the newest table (of tb bits) *)
Definition holds (tb i : nat) (th : lthread) : bool := in_cs th && Nat.eqb (bidx tb (lt_key th)) i.

(* one old table: the first one (in chain order) with fewer than c bits *)
Inductive wres := WEnd | WCont (c : nat) | WFound (v : N) (olds : list table).
Fixpoint old_step (c : nat) (k : N) (olds : list table) : wres :=
  match olds with
  | [] => WEnd
  | t :: r =>
      if Nat.ltb (t_bits t) c then
        match old_sec k t with
        | None => WCont (t_bits t)
        | Some (v, Some t') => WFound v (t' :: r)
        | Some (v, None) => WFound v r
        end
      else match old_step c k r with
           | WFound v r' => WFound v (t :: r')
           | x => x
           end
  end.

Definition is_some {A} (o : option A) : bool := match o with Some _ => true | None => false end.

Definition mk (c : lcfg) (h : ht) (t : nat) (th : lthread) : lcfg :=
  {| l_h := h; l_thr := upd (l_thr c) t th; l_log := l_log c; l_bad := l_bad c |}.
Definition mk_log (c : lcfg) (h : ht) (t : nat) (th : lthread) (o : cop) (r : option N) (bad : bool) : lcfg :=
  {| l_h := h; l_thr := upd (l_thr c) t th; l_log := (t, o, r) :: l_log c; l_bad := l_bad c || bad |}.

Definition lstep (c : lcfg) (t : nat) : lcfg :=
  match nth_error (l_thr c) t with
  | None => c
  | Some th =>
    match lt_ops th with
    | [] => c
    | o :: rest =>
      let k := cop_key o in
      let h := l_h c in
      let at_pc p := {| lt_pc := p; lt_ops := lt_ops th |} in
      let finished := {| lt_pc := LIdle; lt_ops := rest |} in
      match lt_pc th with
      | LIdle => mk c h t (at_pc LRd)
      | LRd => if existsb (holds (top_bits h) (bidx (top_bits h) k)) (l_thr c) then c
               else mk c h t (at_pc LTop)
      | LTop =>
          match h_tabs h with
          | [] => c
          | top :: _ =>
            match o with
            | CIns _ v =>
                let h1 := nolock_insert k v h in
                mk_log c h1 t (at_pc (LEnd (want_resize k h1))) o None (is_some (bfind k (all_items h)))
            | CFind _ =>
                match bfind k (b_items (get_bkt top (idx k top))) with
                | Some v => mk_log c h t (at_pc (LEnd false)) o (Some v) false
                | None => mk c h t (at_pc (LWalk (t_bits top)))
                end
            | CRem _ =>
                match bfind k (b_items (get_bkt top (idx k top))) with
                | Some v => mk_log c (snd (nolock_remove k h)) t (at_pc (LEnd false)) o (Some v) false
                                   (* found in the newest bucket: nolock_remove touches nothing else *)
                | None => mk c h t (at_pc (LWalk (t_bits top)))
                end
            end
          end
      | LWalk cur =>
          match h_tabs h with
          | [] => c
          | top :: olds =>
            match old_step cur k olds with
            | WEnd => mk_log c h t (at_pc (LEnd false)) o None false
            | WCont c' => mk c h t (at_pc (LWalk c'))
            | WFound v olds' =>
                let top' := match o with CFind _ => t_push k v top | _ => top end in
                mk_log c (set_tabs h (top' :: olds')) t (at_pc (LEnd false)) o (Some v) false
            end
          end
      | LEnd rz => mk c h t (at_pc (LRel rz))
      | LRel rz => if rz then mk c h t (at_pc (LResize (top_bits h))) else mk c h t finished
      | LResize tb =>
          if existsb is_reader (l_thr c) then c
          else mk c (if Nat.eqb tb (top_bits h) then resize h else h) t finished
      end
    end
  end.

Definition lrun (c : lcfg) (sched : list nat) : lcfg := fold_left lstep sched c.
Definition linit (bits : nat) (hint maxbits : Z) (progs : list (list cop)) : lcfg :=
  {| l_h := ht_init bits hint maxbits;
     l_thr := map (fun p => {| lt_pc := LIdle; lt_ops := p |}) progs;
     l_log := []; l_bad := false |}.
Definition quiescent (c : lcfg) : Prop := forall th, In th (l_thr c) -> lt_pc th = LIdle.

(* the logged operation as an operation of the sequential specification *)
Definition op_of (o : cop) : op := match o with CIns k v => OIns k v | CFind k => OFind k | CRem k => ORem k end.
Definition res_of (o : cop) (r : option N) : res := match o with CIns _ _ => RUnit | _ => RVal r end.
Definition log_ops (l : list (nat * cop * option N)) : list op := rev (map (fun e => op_of (snd (fst e))) l).
Definition log_res (l : list (nat * cop * option N)) : list res := rev (map (fun e => res_of (snd (fst e)) (snd e)) l).
