(* C32 — sequential refinement of the hash-table model (HashT/HashTDefs.v) to a finite map.
   Every operation permutes / extends / shrinks the list of stored items ([all_items], the
   order in which parsec_hash_table_for_all visits them) in the way the map operation
   prescribes, and keeps the structural invariant [Inv]. *)
From Coq Require Import ZArith NArith List Bool Lia Permutation.
From PV Require Import Base.Tac Base.ListX HashT.HashTDefs HashT.HashTHashProofs.
Import ListNotations.
Local Open Scope Z_scope.

(* ---------- lists of items as association lists -------------------------------- *)
Lemma bfind_some_in : forall k l v, bfind k l = Some v -> In (k, v) l.
Proof.
  induction l as [|[k' v'] l IH]; intros v H; cbn [bfind] in H; [discriminate|].
  destruct (N.eqb k' k) eqn:E.
  - apply N.eqb_eq in E. inv H. now left.
  - right. auto.
Qed.
Lemma bfind_none_notin : forall k l, bfind k l = None -> ~ In k (map fst l).
Proof.
  induction l as [|[k' v'] l IH]; intros H; cbn [bfind] in H; [intros []|].
  destruct (N.eqb k' k) eqn:E; [discriminate|].
  apply N.eqb_neq in E. cbn. intros [A|A]; [congruence|]. now apply IH.
Qed.
Lemma in_keys : forall (k v : N) (l : list item), In (k, v) l -> In k (map fst l).
Proof. intros k v l H. change k with (fst (k, v)). now apply in_map. Qed.
Lemma bfind_in_nodup : forall k v l, NoDup (map fst l) -> In (k, v) l -> bfind k l = Some v.
Proof.
  induction l as [|[k' v'] l IH]; intros Hnd Hin; [destruct Hin|].
  cbn [map fst] in Hnd. inv Hnd. cbn [bfind]. destruct Hin as [A|A].
  - inv A. now rewrite N.eqb_refl.
  - destruct (N.eqb k' k) eqn:E; [|auto].
    apply N.eqb_eq in E. subst k'. exfalso. apply H1. eapply in_keys; eauto.
Qed.
Lemma bfind_notin_none : forall k l, ~ In k (map fst l) -> bfind k l = None.
Proof.
  intros k l H. destruct (bfind k l) as [v|] eqn:E; [|reflexivity].
  exfalso. apply H. eapply in_keys. eapply bfind_some_in; eauto.
Qed.
(* two duplicate-free association lists with the same elements are the same map *)
Lemma bfind_ext : forall l l', NoDup (map fst l) -> NoDup (map fst l') ->
  (forall x, In x l <-> In x l') -> forall k, bfind k l = bfind k l'.
Proof.
  intros l l' Hl Hl' Hx k. destruct (bfind k l) as [v|] eqn:E.
  - symmetry. apply bfind_in_nodup; [assumption|]. apply Hx. now apply bfind_some_in.
  - symmetry. apply bfind_notin_none. intros Hin.
    apply in_map_iff in Hin. destruct Hin as ([k' v] & Hk & Hin). cbn in Hk. subst k'.
    apply Hx in Hin. apply (bfind_none_notin _ _ E). eapply in_keys; eauto.
Qed.
Lemma bdel_perm : forall k l v, bfind k l = Some v -> Permutation l ((k, v) :: bdel k l).
Proof.
  induction l as [|[k' v'] l IH]; intros v H; cbn [bfind] in H; [discriminate|].
  cbn [bdel]. destruct (N.eqb k' k) eqn:E.
  - apply N.eqb_eq in E. inv H. reflexivity.
  - etransitivity; [apply perm_skip, IH, H|]. apply perm_swap.
Qed.
Lemma bdel_length : forall k l v, bfind k l = Some v -> length l = S (length (bdel k l)).
Proof. intros k l v H. apply bdel_perm in H. apply Permutation_length in H. exact H. Qed.

(* ---------- flat_map over a bucket / table array and [upd] ---------------------- *)
Section FlatUpd.
Context {A B : Type} (f : A -> list B).
Definition others (l : list A) (i : nat) : list A := firstn i l ++ skipn (S i) l.
Lemma flat_map_split : forall l i a, nth_error l i = Some a ->
  Permutation (flat_map f l) (f a ++ flat_map f (others l i)).
Proof.
  intros l i a H. rewrite (split_nth l i a H) at 1. unfold others.
  rewrite !flat_map_app. cbn [flat_map]. rewrite app_assoc.
  rewrite (app_assoc (f a)). apply Permutation_app_tail. apply Permutation_app_comm.
Qed.
Lemma flat_map_upd : forall l i a b, nth_error l i = Some a ->
  Permutation (flat_map f (upd l i b)) (f b ++ flat_map f (others l i)).
Proof.
  intros l i a b H. unfold upd, others.
  rewrite !flat_map_app. cbn [flat_map]. rewrite app_assoc.
  rewrite (app_assoc (f b)). apply Permutation_app_tail. apply Permutation_app_comm.
Qed.
End FlatUpd.

Lemma nth_error_get : forall t i b, nth_error (t_bkts t) i = Some b -> get_bkt t i = b.
Proof. intros t i b H. unfold get_bkt. now apply nth_error_nth. Qed.

(* ---------- invariants ------------------------------------------------------------- *)
(* a bucket at index i of a table of [bits] bits: the counter is the length of the list and
   every item hashes to i *)
Definition Bok (bits i : nat) (b : bucket) : Prop :=
  b_len b = Z.of_nat (length (b_items b)) /\
  forall k v, In (k, v) (b_items b) -> N.to_nat (rehash k (N.of_nat bits)) = i.
Definition Tok (t : table) : Prop :=
  length (t_bkts t) = (2 ^ t_bits t)%nat /\
  forall i b, nth_error (t_bkts t) i = Some b -> Bok (t_bits t) i b.
(* an old table: used_buckets is the number of non-empty buckets *)
Definition Oldok (t : table) : Prop := t_used t = cnt nonempty (t_bkts t).
Definition keys_of (l : list item) : list N := map fst l.
Definition Inv (h : ht) : Prop :=
  exists t olds, h_tabs h = t :: olds /\ Tok t /\ Forall (fun o => Tok o /\ Oldok o) olds /\
                 NoDup (keys_of (all_items h)).

Lemma idx_lt : forall k t, Tok t -> (idx k t < length (t_bkts t))%nat.
Proof. intros k t [Hl _]. rewrite Hl. apply idx_range. Qed.
Lemma idx_bkt : forall k t, Tok t -> nth_error (t_bkts t) (idx k t) = Some (get_bkt t (idx k t)).
Proof.
  intros k t Ht. pose proof (idx_lt k t Ht) as Hlt.
  destruct (nth_error (t_bkts t) (idx k t)) as [b|] eqn:E.
  - now rewrite (nth_error_get _ _ _ E).
  - apply nth_error_None in E. lia.
Qed.

(* an item of a table is in the bucket its key hashes to *)
Lemma t_items_in_bucket : forall t k v, Tok t -> In (k, v) (t_items t) ->
  In (k, v) (b_items (get_bkt t (idx k t))).
Proof.
  intros t k v Ht Hin. unfold t_items in Hin. apply in_flat_map in Hin.
  destruct Hin as (b & Hb & Hin). apply In_nth_error in Hb. destruct Hb as (i & Hi).
  destruct Ht as [_ Hb]. destruct (Hb i b Hi) as [_ Hp]. specialize (Hp k v Hin).
  unfold idx. rewrite Hp. now rewrite (nth_error_get _ _ _ Hi).
Qed.
Lemma bucket_in_t_items : forall t i x, (i < length (t_bkts t))%nat -> In x (b_items (get_bkt t i)) -> In x (t_items t).
Proof.
  intros t i x Hi Hin. unfold t_items. apply in_flat_map. exists (get_bkt t i). split; [|assumption].
  unfold get_bkt. now apply nth_In.
Qed.
Lemma t_notin_bucket_notin : forall t k, Tok t -> bfind k (b_items (get_bkt t (idx k t))) = None ->
  ~ In k (keys_of (t_items t)).
Proof.
  intros t k Ht Hf Hin. unfold keys_of in Hin. apply in_map_iff in Hin.
  destruct Hin as ([k' v] & Hk & Hin). cbn in Hk. subst k'.
  apply (bfind_none_notin _ _ Hf). eapply in_keys. eapply t_items_in_bucket; eauto.
Qed.

(* replacing bucket i *)
Lemma Tok_set_bkt : forall t i b, Tok t -> (i < length (t_bkts t))%nat -> Bok (t_bits t) i b -> Tok (set_bkt t i b).
Proof.
  intros t i b [Hl Hb] Hi Hbok.
  destruct (nth_error (t_bkts t) i) as [a|] eqn:Ea; [|apply nth_error_None in Ea; lia].
  split; cbn [set_bkt t_bkts t_bits].
  - rewrite (len_upd _ _ _ _ Ea). exact Hl.
  - intros j c Hj. destruct (Nat.eq_dec j i) as [->|Hne].
    + rewrite (nth_upd_same _ _ _ _ Ea) in Hj. inv Hj. exact Hbok.
    + rewrite (nth_upd_other _ _ _ _ _ Ea Hne) in Hj. now apply Hb.
Qed.
Lemma t_items_set_bkt : forall t i b, (i < length (t_bkts t))%nat ->
  Permutation (t_items (set_bkt t i b)) (b_items b ++ flat_map b_items (others (t_bkts t) i)).
Proof.
  intros t i b Hi. destruct (nth_error (t_bkts t) i) as [a|] eqn:Ea; [|apply nth_error_None in Ea; lia].
  unfold t_items. cbn [set_bkt t_bkts]. eapply flat_map_upd; eauto.
Qed.
Lemma t_items_split : forall t i, (i < length (t_bkts t))%nat ->
  Permutation (t_items t) (b_items (get_bkt t i) ++ flat_map b_items (others (t_bkts t) i)).
Proof.
  intros t i Hi. destruct (nth_error (t_bkts t) i) as [a|] eqn:Ea; [|apply nth_error_None in Ea; lia].
  unfold t_items. rewrite (nth_error_get _ _ _ Ea). now apply flat_map_split.
Qed.

(* ---------- insertion at the head of the newest table --------------------------------- *)
Lemma Tok_t_push : forall k v t, Tok t -> Tok (t_push k v t).
Proof.
  intros k v t Ht. unfold t_push. apply Tok_set_bkt; [assumption|now apply idx_lt|].
  destruct Ht as [Hl Hb]. pose proof (idx_bkt k t (conj Hl Hb)) as E.
  destruct (Hb _ _ E) as [Hlen Hp]. split; cbn [b_push b_len b_items].
  - cbn [length]. lia.
  - intros k' v' [A|A]; [inv A; reflexivity|eauto].
Qed.
Lemma t_push_items : forall k v t, Tok t -> Permutation (t_items (t_push k v t)) ((k, v) :: t_items t).
Proof.
  intros k v t Ht. unfold t_push. pose proof (idx_lt k t Ht) as Hi.
  rewrite (t_items_set_bkt _ _ _ Hi). cbn [b_push b_items]. cbn [app].
  apply perm_skip. symmetry. now apply t_items_split.
Qed.

(* ---------- one old table ---------------------------------------------------------------- *)
Lemma cnt_nonempty_zero : forall l, cnt nonempty l = 0 -> flat_map b_items l = [].
Proof.
  induction l as [|b l IH]; intros H; [reflexivity|].
  rewrite cnt_cons in H. pose proof (cnt_nonneg nonempty l).
  unfold nonempty in H at 1. cbn [flat_map]. destruct (b_items b) eqn:E; [|lia]. cbn. apply IH. lia.
Qed.
Lemma cnt_others : forall (l : list bucket) i a, nth_error l i = Some a ->
  cnt nonempty l = (if nonempty a then 1 else 0) + cnt nonempty (others l i).
Proof.
  intros l i a H. rewrite (split_nth l i a H) at 1. unfold others. rewrite !cnt_app, cnt_cons. lia.
Qed.
Lemma cnt_upd_others : forall (l : list bucket) i a b, nth_error l i = Some a ->
  cnt nonempty (upd l i b) = (if nonempty b then 1 else 0) + cnt nonempty (others l i).
Proof.
  intros l i a b H. unfold upd, others. rewrite !cnt_app, cnt_cons. lia.
Qed.

Lemma old_sec_none : forall k t, Tok t -> old_sec k t = None -> ~ In k (keys_of (t_items t)).
Proof.
  intros k t Ht H. unfold old_sec in H. cbv zeta in H.
  destruct (bfind k (b_items (get_bkt t (idx k t)))) as [v|] eqn:E.
  - destruct (b_len (b_del k (get_bkt t (idx k t))) =? 0); [destruct (t_used t =? 1)|]; discriminate.
  - now apply t_notin_bucket_notin.
Qed.

Lemma Bok_b_del : forall bits i k b v, Bok bits i b -> bfind k (b_items b) = Some v -> Bok bits i (b_del k b).
Proof.
  intros bits i k b v [Hl Hp] Hf. split; cbn [b_del b_len b_items].
  - rewrite Hl, (bdel_length _ _ _ Hf). lia.
  - intros k' v' Hin. apply (Hp k' v').
    eapply Permutation_in; [symmetry; apply (bdel_perm _ _ _ Hf)|]. now right.
Qed.

Lemma old_sec_keep : forall k t v t', Tok t -> Oldok t -> old_sec k t = Some (v, Some t') ->
  Tok t' /\ Oldok t' /\ Permutation (t_items t) ((k, v) :: t_items t').
Proof.
  intros k t v t' Ht Ho H. unfold old_sec in H. cbv zeta in H.
  pose proof (idx_lt k t Ht) as Hi. pose proof (idx_bkt k t Ht) as Eb.
  set (i := idx k t) in *. set (b := get_bkt t i) in *.
  destruct (bfind k (b_items b)) as [v0|] eqn:Ef; [|discriminate].
  assert (Hbok : Bok (t_bits t) i b) by (destruct Ht as [_ Hb]; now apply Hb).
  pose proof (Bok_b_del _ _ _ _ _ Hbok Ef) as Hbok'.
  assert (Ht1 : Tok (set_bkt t i (b_del k b))) by (apply Tok_set_bkt; assumption).
  assert (Hperm : Permutation (t_items t) ((k, v0) :: t_items (set_bkt t i (b_del k b)))).
  { rewrite (t_items_split t i Hi), (t_items_set_bkt t i _ Hi). fold b. cbn [b_del b_items].
    rewrite (bdel_perm _ _ _ Ef) at 1. reflexivity. }
  assert (Hne : nonempty b = true).
  { unfold nonempty. apply bfind_some_in in Ef. destruct (b_items b); [destruct Ef|reflexivity]. }
  assert (Hcnt : cnt nonempty (t_bkts (set_bkt t i (b_del k b))) =
                 t_used t - 1 + (if nonempty (b_del k b) then 1 else 0)).
  { cbn [set_bkt t_bkts]. rewrite (cnt_upd_others _ _ _ _ Eb). unfold Oldok in Ho.
    rewrite Ho, (cnt_others _ _ _ Eb), Hne. lia. }
  assert (Hz : b_len (b_del k b) = 0 <-> nonempty (b_del k b) = false).
  { destruct Hbok' as [Hl _]. rewrite Hl. unfold nonempty. destruct (b_items (b_del k b)); cbn [length]; split; intros; try lia; try reflexivity; discriminate. }
  destruct (b_len (b_del k b) =? 0) eqn:Ez.
  - destruct (t_used t =? 1) eqn:Eu; [discriminate|]. inv H.
    split; [|split].
    + destruct Ht1 as [A B]. split; assumption.
    + unfold Oldok. cbn [set_used t_used t_bkts]. rewrite Hcnt.
      apply Z.eqb_eq in Ez. apply Hz in Ez. rewrite Ez. lia.
    + exact Hperm.
  - inv H. split; [assumption|split; [|assumption]].
    unfold Oldok. cbn [set_bkt t_used]. rewrite Hcnt.
    apply Z.eqb_neq in Ez. destruct (nonempty (b_del k b)) eqn:En; [lia|]. exfalso. apply Ez, Hz. reflexivity.
Qed.

(* the decrement of used_buckets that reaches 0: the table held nothing but the item *)
Lemma old_sec_unlink : forall k t v, Tok t -> Oldok t -> old_sec k t = Some (v, None) ->
  Permutation (t_items t) [(k, v)].
Proof.
  intros k t v Ht Ho H. unfold old_sec in H. cbv zeta in H.
  pose proof (idx_lt k t Ht) as Hi. pose proof (idx_bkt k t Ht) as Eb.
  set (i := idx k t) in *. set (b := get_bkt t i) in *.
  destruct (bfind k (b_items b)) as [v0|] eqn:Ef; [|discriminate].
  assert (Hbok : Bok (t_bits t) i b) by (destruct Ht as [_ Hb]; now apply Hb).
  pose proof (Bok_b_del _ _ _ _ _ Hbok Ef) as [Hl' _].
  destruct (b_len (b_del k b) =? 0) eqn:Ez; [|discriminate].
  destruct (t_used t =? 1) eqn:Eu; [|discriminate]. inv H.
  apply Z.eqb_eq in Ez, Eu.
  assert (Hne : nonempty b = true).
  { unfold nonempty. apply bfind_some_in in Ef. destruct (b_items b); [destruct Ef|reflexivity]. }
  unfold Oldok in Ho. rewrite (cnt_others _ _ _ Eb), Hne in Ho.
  rewrite (t_items_split t i Hi). fold b.
  rewrite (cnt_nonempty_zero (others (t_bkts t) i)) by lia. rewrite app_nil_r.
  rewrite (bdel_perm _ _ _ Ef). cbn [b_del b_items b_len] in Hl', Ez.
  destruct (bdel k (b_items b)); [reflexivity|cbn [length] in Hl'; lia].
Qed.

(* ---------- the walk over the old tables --------------------------------------------------- *)
Definition items_of (l : list table) : list item := flat_map t_items l.
Lemma old_take_none : forall k olds, Forall (fun o => Tok o /\ Oldok o) olds ->
  old_take k olds = None -> ~ In k (keys_of (items_of olds)).
Proof.
  induction olds as [|t r IH]; intros Hf H; [intros []|].
  inv Hf. destruct H2 as [Ht Ho]. cbn [old_take] in H.
  destruct (old_sec k t) as [[v [t'|]]|] eqn:Es; try discriminate.
  destruct (old_take k r) as [[v r']|] eqn:Er; [discriminate|].
  unfold keys_of, items_of. cbn [flat_map]. rewrite map_app. intros Hin. apply in_app_or in Hin.
  destruct Hin as [A|A]; [eapply old_sec_none; eauto|eapply IH; eauto].
Qed.
Lemma old_take_some : forall k olds v olds', Forall (fun o => Tok o /\ Oldok o) olds ->
  old_take k olds = Some (v, olds') ->
  Forall (fun o => Tok o /\ Oldok o) olds' /\ Permutation (items_of olds) ((k, v) :: items_of olds').
Proof.
  induction olds as [|t r IH]; intros v olds' Hf H; [discriminate|].
  inv Hf. destruct H2 as [Ht Ho]. cbn [old_take] in H. unfold items_of. cbn [flat_map].
  destruct (old_sec k t) as [[v0 [t'|]]|] eqn:Es.
  - inv H. destruct (old_sec_keep _ _ _ _ Ht Ho Es) as (A & B & C).
    split; [constructor; auto|]. cbn [flat_map]. rewrite C. reflexivity.
  - inv H. split; [assumption|]. rewrite (old_sec_unlink _ _ _ Ht Ho Es). reflexivity.
  - destruct (old_take k r) as [[v1 r']|] eqn:Er; [|discriminate]. inv H.
    destruct (IH _ _ H3 eq_refl) as [A B]. split; [constructor; auto|].
    cbn [flat_map]. fold (items_of r) (items_of r'). rewrite B. symmetry. apply Permutation_middle.
Qed.

(* ---------- the operations -------------------------------------------------------------------- *)
Definition lookup (h : ht) (k : N) : option N := bfind k (all_items h).

Lemma nodup_keys_perm : forall l l' : list item, Permutation l l' -> NoDup (keys_of l) -> NoDup (keys_of l').
Proof. intros l l' P H. eapply Permutation_NoDup; [|exact H]. unfold keys_of. now apply Permutation_map. Qed.

Lemma nodup_keys_cons : forall (l l' : list item) k v, Permutation l ((k, v) :: l') -> NoDup (keys_of l) ->
  ~ In k (keys_of l') /\ NoDup (keys_of l').
Proof.
  intros l l' k v P H. pose proof (nodup_keys_perm _ _ P H) as Hn.
  unfold keys_of in Hn. cbn [map fst] in Hn. inv Hn. split; assumption.
Qed.

Lemma all_items_cons : forall h t olds, h_tabs h = t :: olds -> all_items h = t_items t ++ items_of olds.
Proof. intros h t olds E. unfold all_items. rewrite E. reflexivity. Qed.

Lemma Inv_intro : forall h t olds, h_tabs h = t :: olds -> Tok t -> Forall (fun o => Tok o /\ Oldok o) olds ->
  NoDup (keys_of (all_items h)) -> Inv h.
Proof. intros. exists t, olds. auto. Qed.

Lemma new_table_items : forall bits, t_items (new_table bits) = [].
Proof.
  intros bits. unfold t_items, new_table. cbn [t_bkts].
  induction (2 ^ bits)%nat as [|n IH]; [reflexivity|]. cbn [repeat flat_map]. exact IH.
Qed.
Lemma Tok_new_table : forall bits, Tok (new_table bits).
Proof.
  intros bits. split; cbn [new_table t_bkts t_bits].
  - apply repeat_length.
  - intros i b H. apply nth_error_In in H. apply repeat_spec in H. subst b.
    split; cbn; [reflexivity|intros k v []].
Qed.

Lemma Inv_init : forall bits hint maxbits, Inv (ht_init bits hint maxbits) /\ all_items (ht_init bits hint maxbits) = [].
Proof.
  intros. assert (E : all_items (ht_init bits hint maxbits) = []).
  { unfold all_items, ht_init. cbn [h_tabs flat_map]. rewrite new_table_items. reflexivity. }
  split; [|exact E]. eapply Inv_intro; [reflexivity|apply Tok_new_table|constructor|]. rewrite E. constructor.
Qed.

Lemma nolock_insert_ok : forall k v h, Inv h -> ~ In k (keys_of (all_items h)) ->
  Inv (nolock_insert k v h) /\ Permutation (all_items (nolock_insert k v h)) ((k, v) :: all_items h).
Proof.
  intros k v h (t & olds & E & Ht & Ho & Hnd) Hk. unfold nolock_insert. rewrite E.
  assert (P : Permutation (all_items (set_tabs h (t_push k v t :: olds))) ((k, v) :: all_items h)).
  { rewrite (all_items_cons h t olds E). erewrite all_items_cons by reflexivity.
    rewrite (t_push_items k v t Ht). reflexivity. }
  split; [|exact P].
  eapply Inv_intro; [reflexivity|now apply Tok_t_push|exact Ho|].
  eapply nodup_keys_perm; [symmetry; exact P|]. unfold keys_of. cbn [map fst]. constructor; assumption.
Qed.

Lemma nolock_find_ok : forall k h, Inv h ->
  Inv (snd (nolock_find k h)) /\ Permutation (all_items (snd (nolock_find k h))) (all_items h) /\
  fst (nolock_find k h) = lookup h k.
Proof.
  intros k h Hinv. pose proof Hinv as (t & olds & E & Ht & Ho & Hnd).
  unfold nolock_find, lookup. rewrite E. pose proof (all_items_cons h t olds E) as Ea.
  destruct (bfind k (b_items (get_bkt t (idx k t)))) as [v|] eqn:Ef.
  - cbn [fst snd]. split; [assumption|split; [reflexivity|]]. symmetry.
    apply bfind_in_nodup; [assumption|]. rewrite Ea. apply in_or_app. left.
    apply (bucket_in_t_items t (idx k t)); [now apply idx_lt|]. now apply bfind_some_in.
  - destruct (old_take k olds) as [[v olds']|] eqn:Eo; cbn [fst snd].
    + destruct (old_take_some _ _ _ _ Ho Eo) as [Ho' P].
      assert (P2 : Permutation (all_items (set_tabs h (t_push k v t :: olds'))) (all_items h)).
      { rewrite Ea. erewrite all_items_cons by reflexivity. rewrite (t_push_items k v t Ht), P.
        cbn [app]. apply Permutation_middle. }
      split; [|split; [exact P2|]].
      * eapply Inv_intro; [reflexivity|now apply Tok_t_push|exact Ho'|].
        eapply nodup_keys_perm; [symmetry; exact P2|assumption].
      * symmetry. apply bfind_in_nodup; [assumption|]. rewrite Ea. apply in_or_app. right.
        eapply Permutation_in; [symmetry; exact P|]. now left.
    + split; [assumption|split; [reflexivity|]]. symmetry. apply bfind_notin_none.
      rewrite Ea. unfold keys_of. rewrite map_app. intros Hin. apply in_app_or in Hin.
      destruct Hin as [A|A]; [eapply t_notin_bucket_notin; eauto|eapply old_take_none; eauto].
Qed.

Lemma nolock_remove_ok : forall k h, Inv h ->
  Inv (snd (nolock_remove k h)) /\ fst (nolock_remove k h) = lookup h k /\
  match fst (nolock_remove k h) with
  | Some v => Permutation (all_items h) ((k, v) :: all_items (snd (nolock_remove k h)))
  | None => snd (nolock_remove k h) = h
  end.
Proof.
  intros k h Hinv. pose proof Hinv as (t & olds & E & Ht & Ho & Hnd).
  unfold nolock_remove, lookup. rewrite E. cbv zeta. pose proof (all_items_cons h t olds E) as Ea.
  pose proof (idx_lt k t Ht) as Hi.
  destruct (bfind k (b_items (get_bkt t (idx k t)))) as [v|] eqn:Ef; cbn [fst snd].
  - assert (P : Permutation (all_items h) ((k, v) :: all_items (set_tabs h (set_bkt t (idx k t) (b_del k (get_bkt t (idx k t))) :: olds)))).
    { rewrite Ea. erewrite all_items_cons by reflexivity.
      rewrite (t_items_split t _ Hi), (t_items_set_bkt t _ _ Hi). cbn [b_del b_items].
      rewrite (bdel_perm _ _ _ Ef) at 1. reflexivity. }
    split; [|split; [|exact P]].
    + eapply Inv_intro; [reflexivity| |exact Ho|].
      * apply Tok_set_bkt; [assumption|assumption|].
        eapply Bok_b_del; [|exact Ef]. pose proof (idx_bkt k t Ht) as Eb. destruct Ht as [_ Hb]. now apply Hb.
      * apply (nodup_keys_cons _ _ _ _ P Hnd).
    + symmetry. apply bfind_in_nodup; [assumption|]. eapply Permutation_in; [symmetry; exact P|]. now left.
  - destruct (old_take k olds) as [[v olds']|] eqn:Eo; cbn [fst snd].
    + destruct (old_take_some _ _ _ _ Ho Eo) as [Ho' P].
      assert (P2 : Permutation (all_items h) ((k, v) :: all_items (set_tabs h (t :: olds')))).
      { rewrite Ea. erewrite all_items_cons by reflexivity. rewrite P. symmetry. apply Permutation_middle. }
      split; [|split; [|exact P2]].
      * eapply Inv_intro; [reflexivity|assumption|exact Ho'|].
        apply (nodup_keys_cons _ _ _ _ P2 Hnd).
      * symmetry. apply bfind_in_nodup; [assumption|]. eapply Permutation_in; [symmetry; exact P2|]. now left.
    + split; [assumption|split; [|reflexivity]]. symmetry. apply bfind_notin_none.
      rewrite Ea. unfold keys_of. rewrite map_app. intros Hin. apply in_app_or in Hin.
      destruct Hin as [A|A]; [eapply t_notin_bucket_notin; eauto|eapply old_take_none; eauto].
Qed.

(* a resize moves nothing: the old table keeps its items and only gets its used_buckets count *)
Lemma resize_ok : forall h, Inv h -> Inv (resize h) /\ all_items (resize h) = all_items h.
Proof.
  intros h (t & olds & E & Ht & Ho & Hnd). unfold resize. rewrite E.
  assert (Ea : all_items (set_tabs h (new_table (S (t_bits t)) :: set_used t (cnt nonempty (t_bkts t)) :: olds)) = all_items h).
  { unfold all_items. rewrite E. cbn [set_tabs h_tabs flat_map]. rewrite new_table_items. reflexivity. }
  split; [|exact Ea].
  eapply Inv_intro; [reflexivity|apply Tok_new_table| |rewrite Ea; assumption].
  constructor; [|assumption]. split; [|reflexivity]. destruct Ht as [A B]. split; assumption.
Qed.
Lemma maybe_resize_ok : forall k h, Inv h -> Inv (maybe_resize k h) /\ all_items (maybe_resize k h) = all_items h.
Proof. intros k h H. unfold maybe_resize. destruct (want_resize k h); [now apply resize_ok|auto]. Qed.

(* ---------- refinement to a finite map ------------------------------------------------------- *)
Definition fmap := N -> option N.
Definition fempty : fmap := fun _ => None.
Definition fupd (m : fmap) (k : N) (o : option N) : fmap := fun k' => if N.eqb k' k then o else m k'.
(* the table represents the map m: structural invariant, and for_all order looked up by key gives m *)
Definition Rep (h : ht) (m : fmap) : Prop := Inv h /\ forall k, lookup h k = m k.

(* what the map specification says of one operation *)
Definition spec_next (m : fmap) (o : op) : fmap :=
  match o with
  | OIns k v | ONIns k v => fupd m k (Some v)
  | ORem k | ONRem k => fupd m k None
  | _ => m
  end.
Definition spec_res (m : fmap) (o : op) (r : res) : Prop :=
  match o with
  | OIns _ _ | ONIns _ _ | OLock _ | OUnlock _ => r = RUnit
  | OFind k | ONFind k | ORem k | ONRem k => r = RVal (m k)
  | OAll => exists l, r = RItems l /\ NoDup (keys_of l) /\ forall k v, In (k, v) l <-> m k = Some v
  end.
(* the API's precondition: an inserted key is not in the table *)
Definition spec_pre (m : fmap) (o : op) : Prop :=
  match o with OIns k _ | ONIns k _ => m k = None | _ => True end.

Lemma lookup_cons : forall l l' k v, NoDup (keys_of l') -> Permutation l' ((k, v) :: l) ->
  forall k', bfind k' l' = if N.eqb k' k then Some v else bfind k' l.
Proof.
  intros l l' k v Hnd P k'.
  rewrite (bfind_ext l' ((k, v) :: l) Hnd).
  - cbn [bfind]. rewrite N.eqb_sym. reflexivity.
  - eapply nodup_keys_perm; eauto.
  - intros x. split; apply Permutation_in; [assumption|now symmetry].
Qed.
Lemma lookup_perm : forall l l', NoDup (keys_of l) -> Permutation l' l -> forall k, bfind k l' = bfind k l.
Proof.
  intros l l' Hnd P k. apply bfind_ext.
  - eapply nodup_keys_perm; [symmetry|]; eauto.
  - assumption.
  - intros x. split; apply Permutation_in; [assumption|now symmetry].
Qed.
Lemma Inv_nodup : forall h, Inv h -> NoDup (keys_of (all_items h)).
Proof. intros h (t & olds & _ & _ & _ & H). exact H. Qed.

Lemma Rep_insert : forall k v h m, Rep h m -> m k = None -> Rep (nolock_insert k v h) (fupd m k (Some v)).
Proof.
  intros k v h m [Hinv Hl] Hk.
  assert (Hnk : ~ In k (keys_of (all_items h))).
  { apply bfind_none_notin. rewrite <- Hk. apply Hl. }
  destruct (nolock_insert_ok k v h Hinv Hnk) as [Hinv' P]. split; [assumption|].
  intros k'. unfold lookup, fupd. rewrite (lookup_cons _ _ _ _ (Inv_nodup _ Hinv') P). rewrite <- Hl. reflexivity.
Qed.
Lemma Rep_find : forall k h m, Rep h m -> fst (nolock_find k h) = m k /\ Rep (snd (nolock_find k h)) m.
Proof.
  intros k h m [Hinv Hl]. destruct (nolock_find_ok k h Hinv) as (Hinv' & P & Hr).
  split; [rewrite Hr; apply Hl|]. split; [assumption|].
  intros k'. rewrite <- Hl. unfold lookup. apply lookup_perm; [now apply Inv_nodup|assumption].
Qed.
Lemma Rep_remove : forall k h m, Rep h m ->
  fst (nolock_remove k h) = m k /\ Rep (snd (nolock_remove k h)) (fupd m k None).
Proof.
  intros k h m [Hinv Hl]. destruct (nolock_remove_ok k h Hinv) as (Hinv' & Hr & Hc).
  split; [rewrite Hr; apply Hl|]. split; [assumption|].
  intros k'. unfold fupd. destruct (fst (nolock_remove k h)) as [v|] eqn:Ev.
  - pose proof (lookup_cons _ _ _ _ (Inv_nodup _ Hinv) Hc k') as H. fold (lookup h k') in H.
    rewrite <- Hl, H. destruct (N.eqb k' k) eqn:E; [|reflexivity].
    apply N.eqb_eq in E. subst k'. unfold lookup. apply bfind_notin_none.
    apply (nodup_keys_cons _ _ _ _ Hc (Inv_nodup _ Hinv)).
  - rewrite Hc. destruct (N.eqb k' k) eqn:E; [|apply Hl].
    apply N.eqb_eq in E. subst k'. rewrite <- Hr. reflexivity.
Qed.
Lemma Rep_maybe_resize : forall k h m, Rep h m -> Rep (maybe_resize k h) m.
Proof.
  intros k h m [Hinv Hl]. destruct (maybe_resize_ok k h Hinv) as [Hinv' E].
  split; [assumption|]. intros k'. unfold lookup. rewrite E. apply Hl.
Qed.

(* one operation *)
Lemma step_refines : forall h m o, Rep h m -> spec_pre m o ->
  spec_res m o (fst (step_op h o)) /\ Rep (snd (step_op h o)) (spec_next m o).
Proof.
  intros h m o HR Hpre. destruct o as [k v|k|k|k|k|k v|k|k|]; cbn [step_op spec_res spec_next spec_pre] in *.
  - cbn [fst snd]. split; [reflexivity|]. unfold ht_insert. apply Rep_maybe_resize. now apply Rep_insert.
  - unfold ht_find. destruct (Rep_find k h m HR) as [A B]. destruct (nolock_find k h) as [r h']. cbn [fst snd] in *. now subst r.
  - unfold ht_remove. destruct (Rep_remove k h m HR) as [A B]. destruct (nolock_remove k h) as [r h']. cbn [fst snd] in *. now subst r.
  - cbn [fst snd]. auto.
  - cbn [fst snd]. split; [reflexivity|]. unfold ht_unlock. now apply Rep_maybe_resize.
  - cbn [fst snd]. split; [reflexivity|]. now apply Rep_insert.
  - destruct (Rep_find k h m HR) as [A B]. destruct (nolock_find k h) as [r h']. cbn [fst snd] in *. now subst r.
  - destruct (Rep_remove k h m HR) as [A B]. destruct (nolock_remove k h) as [r h']. cbn [fst snd] in *. now subst r.
  - cbn [fst snd]. split; [|assumption]. destruct HR as [Hinv Hl].
    exists (all_items h). split; [reflexivity|]. split; [now apply Inv_nodup|].
    intros k v. rewrite <- Hl. unfold lookup. split; intros H.
    + apply bfind_in_nodup; [now apply Inv_nodup|assumption].
    + now apply bfind_some_in.
Qed.

(* sequences *)
Fixpoint spec_run (m : fmap) (ops : list op) (rs : list res) : Prop :=
  match ops, rs with
  | [], [] => True
  | o :: ops', r :: rs' => spec_res m o r /\ spec_run (spec_next m o) ops' rs'
  | _, _ => False
  end.
Fixpoint spec_pre_run (m : fmap) (ops : list op) : Prop :=
  match ops with
  | [] => True
  | o :: ops' => spec_pre m o /\ spec_pre_run (spec_next m o) ops'
  end.
Definition spec_final (m : fmap) (ops : list op) : fmap := fold_left spec_next ops m.

Lemma run_refines : forall ops h m, Rep h m -> spec_pre_run m ops ->
  spec_run m ops (fst (run_ops h ops)) /\ Rep (snd (run_ops h ops)) (spec_final m ops).
Proof.
  induction ops as [|o ops IH]; intros h m HR Hpre; cbn [run_ops spec_run spec_final fold_left fst snd].
  - auto.
  - destruct Hpre as [Hp Hps]. destruct (step_refines h m o HR Hp) as [A B].
    destruct (step_op h o) as [x h1]. cbn [fst snd] in *.
    destruct (IH h1 _ B Hps) as [C D]. destruct (run_ops h1 ops) as [xs h2]. cbn [fst snd] in *.
    split; [split; assumption|exact D].
Qed.

Lemma Rep_init : forall bits hint maxbits, Rep (ht_init bits hint maxbits) fempty.
Proof.
  intros. destruct (Inv_init bits hint maxbits) as [A B]. split; [assumption|].
  intros k. unfold lookup. rewrite B. reflexivity.
Qed.

(* (1) for every initial size, collision hint, size limit and operation sequence that respects the
   precondition of insert: the results are those of the finite map, the final table represents
   the final map *)
Theorem seq_refinement : forall bits hint maxbits ops, spec_pre_run fempty ops ->
  spec_run fempty ops (fst (run_ops (ht_init bits hint maxbits) ops)) /\
  Rep (snd (run_ops (ht_init bits hint maxbits) ops)) (spec_final fempty ops).
Proof. intros. apply run_refines; [apply Rep_init|assumption]. Qed.

(* what [Rep] means for the stored items: each live binding is stored exactly once, in the bucket
   its key hashes to in the one table that holds it, and nothing else is stored *)
Theorem rep_exactly_once : forall h m, Rep h m ->
  NoDup (keys_of (all_items h)) /\ (forall k v, In (k, v) (all_items h) <-> m k = Some v) /\
  (forall t k v, In t (h_tabs h) -> In (k, v) (t_items t) -> In (k, v) (b_items (get_bkt t (idx k t))) /\
                                                           (idx k t < 2 ^ t_bits t)%nat).
Proof.
  intros h m [Hinv Hl]. split; [now apply Inv_nodup|]. split.
  - intros k v. rewrite <- Hl. unfold lookup. split; intros H.
    + apply bfind_in_nodup; [now apply Inv_nodup|assumption].
    + now apply bfind_some_in.
  - intros t k v Ht Hin. destruct Hinv as (t0 & olds & E & Ht0 & Ho & _). rewrite E in Ht.
    assert (Tok t) as Htok.
    { destruct Ht as [<-|Ht]; [assumption|]. rewrite Forall_forall in Ho. now apply Ho. }
    split; [now apply t_items_in_bucket|apply idx_range].
Qed.
