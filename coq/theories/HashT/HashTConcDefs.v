(* Atomic-step model of concurrent parsec_hash_table_insert / _find / _remove (C32, T-sched).

   One model step = the code a thread runs between two scheduling points of the harness
   (harness/h_hasht.c: interpose.h yields before every bucket lock attempt, every bucket
   unlock, the atomic decrement of used_buckets, the CAS on prev->next, and every atomic
   operation of the TICKET read-write lock of parsec_rwlock.c; the rw-lock wait loops yield
   once per re-evaluation of their condition).  A program counter names the atomic action
   the thread is parked in front of.  A thread that cannot take a lock or leave a wait loop
   takes a stutter step.

   Tables are identified by their nb_bits (each resize adds one bit, so it is unique);
   [ct_next] is head->next.  [g_tabs] holds every table ever allocated (the next_to_free
   chain); the tables in use are those reachable from [g_top] through ct_next.  A table
   unlinked from the chain keeps its own next pointer, as in the code, so a thread standing
   on it continues its walk. *)
From Coq Require Import ZArith NArith List Bool.
From PV Require Import Base.ListX HashT.HashTDefs.
Import ListNotations.
Local Open Scope Z_scope.

Record ctab := { ct_tab : table; ct_next : option nat }.
Record rwl := { rin : Z; rout : Z; win : Z; wout : Z }.       (* parsec_atomic_rwlock_t, TICKET implementation *)

Inductive cop := CIns (k v : N) | CFind (k : N) | CRem (k : N).
Definition cop_key (o : cop) : N := match o with CIns k _ => k | CFind k => k | CRem k => k end.

Inductive pc :=
| PIdle                                  (* not started / between two operations *)
| PRdLock                                (* rdlock: before fetch_add(&rin, RINC) *)
| PRdWait (w : Z)                        (* rdlock: in  while( w == (rin & WBITS) ) *)
| PLockTop                               (* before / spinning in parsec_atomic_lock(newest table's bucket) *)
| PLockOld (prev head : nat)             (* before / spinning in parsec_atomic_lock(head's bucket) *)
| PDecUsed (prev head : nat) (v : N)     (* item unlinked, bucket now empty: before fetch_dec(&head->used_buckets) *)
| PCas (prev head : nat) (v : N)         (* before cas_ptr(&prev->next, head, head->next) *)
| PUnlockOldF (head : nat) (v : N)       (* found: before parsec_atomic_unlock(head's bucket), then return *)
| PUnlockOldN (head : nat)               (* not found here: before the unlock, then head = head->next *)
| PUnlockTop (r : option N)              (* before parsec_atomic_unlock(newest table's bucket) *)
| PRdUnlock (r : option N)               (* rdunlock: before fetch_add(&rout, RINC) *)
| PWrTicket                              (* wrlock: before fetch_inc(&win) *)
| PWrWait1 (ticket : Z)                  (* wrlock: in  while( wout != ticket ) *)
| PWrRin (ticket : Z)                    (* wrlock: before fetch_add(&rin, PRES | (ticket & PHID)) *)
| PWrWait2 (t2 : Z)                      (* wrlock: in  while( rout != t2 ) *)
| PWrUnlock.                             (* resize done (or skipped): before fetch_and(&rin, 0xFFFFFF00) *)

Record thread := { th_pc : pc;
                   th_ops : list cop;                            (* current operation first *)
                   th_tb : nat;                                  (* ht->rw_hash->nb_bits read after the rdlock (cur_head) *)
                   th_resize : bool;                             (* insert: the resize decision *)
                   th_inv : nat;                                 (* step at which the current operation was invoked *)
                   th_done : list (cop * option N * nat * nat) } (* finished operations, latest first: result, inv, resp *).

Record cfg := { g_hint : Z; g_maxbits : Z;
                g_top : nat;                                     (* ht->rw_hash *)
                g_tabs : list ctab;                              (* newest first *)
                g_locks : list (nat * nat);                      (* bucket locks held: (table, bucket) *)
                g_rw : rwl;
                g_clock : nat;                                   (* scheduler steps started so far *)
                g_thr : list thread }.

(* ---- small accessors ------------------------------------------------------------ *)
Definition bidx (bits : nat) (k : N) : nat := N.to_nat (rehash k (N.of_nat bits)).
Definition is_tab (b : nat) (c : ctab) : bool := Nat.eqb (t_bits (ct_tab c)) b.
Definition get_tab (b : nat) (l : list ctab) : option ctab := find (is_tab b) l.
Fixpoint map_tab (b : nat) (f : ctab -> ctab) (l : list ctab) : list ctab :=
  match l with
  | [] => []
  | c :: r => if is_tab b c then f c :: r else c :: map_tab b f r
  end.
Definition on_table (f : table -> table) (c : ctab) : ctab := {| ct_tab := f (ct_tab c); ct_next := ct_next c |}.
Definition set_next (n : option nat) (c : ctab) : ctab := {| ct_tab := ct_tab c; ct_next := n |}.
Definition next_of (b : nat) (l : list ctab) : option nat :=
  match get_tab b l with Some c => ct_next c | None => None end.
Definition bucket_of (b i : nat) (l : list ctab) : bucket :=
  match get_tab b l with Some c => get_bkt (ct_tab c) i | None => empty_bucket end.

Definition lock_eqb (a b : nat * nat) : bool := Nat.eqb (fst a) (fst b) && Nat.eqb (snd a) (snd b).
Definition locked (l : list (nat * nat)) (x : nat * nat) : bool := existsb (lock_eqb x) l.
Definition unlock (l : list (nat * nat)) (x : nat * nat) : list (nat * nat) := filter (fun y => negb (lock_eqb x y)) l.

Definition set_thr (c : cfg) (t : nat) (th : thread) : cfg :=
  {| g_hint := g_hint c; g_maxbits := g_maxbits c; g_top := g_top c; g_tabs := g_tabs c;
     g_locks := g_locks c; g_rw := g_rw c; g_clock := g_clock c; g_thr := upd (g_thr c) t th |}.
Definition set_tabs_c (c : cfg) (l : list ctab) : cfg :=
  {| g_hint := g_hint c; g_maxbits := g_maxbits c; g_top := g_top c; g_tabs := l;
     g_locks := g_locks c; g_rw := g_rw c; g_clock := g_clock c; g_thr := g_thr c |}.
Definition set_locks (c : cfg) (l : list (nat * nat)) : cfg :=
  {| g_hint := g_hint c; g_maxbits := g_maxbits c; g_top := g_top c; g_tabs := g_tabs c;
     g_locks := l; g_rw := g_rw c; g_clock := g_clock c; g_thr := g_thr c |}.
Definition set_rw (c : cfg) (r : rwl) : cfg :=
  {| g_hint := g_hint c; g_maxbits := g_maxbits c; g_top := g_top c; g_tabs := g_tabs c;
     g_locks := g_locks c; g_rw := r; g_clock := g_clock c; g_thr := g_thr c |}.
Definition tick (c : cfg) : cfg :=
  {| g_hint := g_hint c; g_maxbits := g_maxbits c; g_top := g_top c; g_tabs := g_tabs c;
     g_locks := g_locks c; g_rw := g_rw c; g_clock := S (g_clock c); g_thr := g_thr c |}.

Definition with_pc (th : thread) (p : pc) : thread :=
  {| th_pc := p; th_ops := th_ops th; th_tb := th_tb th; th_resize := th_resize th;
     th_inv := th_inv th; th_done := th_done th |}.
(* the current operation returns r at step [now] *)
Definition finish (th : thread) (r : option N) (now : nat) : thread :=
  match th_ops th with
  | [] => with_pc th PIdle
  | o :: rest => {| th_pc := PIdle; th_ops := rest; th_tb := th_tb th; th_resize := false;
                    th_inv := th_inv th; th_done := (o, r, th_inv th, now) :: th_done th |}
  end.
Definition th_finished (th : thread) : bool :=
  match th_pc th, th_ops th with PIdle, [] => true | _, _ => false end.

(* ---- pieces of the hash-table code ---------------------------------------------------- *)
(* parsec_hash_table_nolock_insert into the newest table (the one this thread read: th_tb) *)
Definition push_top (tb : nat) (k v : N) (l : list ctab) : list ctab :=
  map_tab tb (on_table (t_push k v)) l.
(* unlink k from bucket (b, bidx b k) and decrement its cur_len *)
Definition del_in (b : nat) (k : N) (l : list ctab) : list ctab :=
  map_tab b (on_table (fun t => set_bkt t (bidx b k) (b_del k (get_bkt t (bidx b k))))) l.
(* parsec_hash_table_resize under the write lock, if nobody resized since cur_head was read *)
Definition do_resize (cur_head : nat) (c : cfg) : cfg :=
  if Nat.eqb cur_head (g_top c) then
    let l := map_tab (g_top c) (on_table (fun t => set_used t (cnt nonempty (t_bkts t)))) (g_tabs c) in
    {| g_hint := g_hint c; g_maxbits := g_maxbits c; g_top := S (g_top c);
       g_tabs := {| ct_tab := new_table (S (g_top c)); ct_next := Some (g_top c) |} :: l;
       g_locks := g_locks c; g_rw := g_rw c; g_clock := g_clock c; g_thr := g_thr c |}
  else c.

(* what follows the acquisition of the read lock: read ht->rw_hash, go and lock the bucket *)
Definition after_rdlock (c : cfg) (th : thread) : thread :=
  {| th_pc := PLockTop; th_ops := th_ops th; th_tb := g_top c; th_resize := false;
     th_inv := th_inv th; th_done := th_done th |}.

(* the walk continues on table h (or ends) *)
Definition walk_to (th : thread) (prev : nat) (h : option nat) : thread :=
  match h with
  | Some hb => with_pc th (PLockOld prev hb)
  | None => with_pc th (PUnlockTop None)
  end.

(* after the item (k,v) left its old bucket and the bookkeeping of the old table is done:
   find re-inserts it in the newest table, remove does not; then the old bucket is unlocked *)
Definition after_unlink (c : cfg) (th : thread) (head : nat) (k v : N) : cfg * thread :=
  match th_ops th with
  | CFind _ :: _ => (set_tabs_c c (push_top (th_tb th) k v (g_tabs c)), with_pc th (PUnlockOldF head v))
  | _ => (c, with_pc th (PUnlockOldF head v))
  end.

(* ---- one step of thread t ------------------------------------------------------------------ *)
Definition cstep (c0 : cfg) (t : nat) : cfg :=
  match nth_error (g_thr c0) t with
  | None => c0
  | Some th =>
    if th_finished th then c0 else
    let c := tick c0 in
    let now := g_clock c in
    match th_ops th with
    | [] => c
    | o :: _ =>
      let k := cop_key o in
      let rw := g_rw c in
      match th_pc th with
      | PIdle =>
          set_thr c t {| th_pc := PRdLock; th_ops := th_ops th; th_tb := th_tb th; th_resize := false;
                         th_inv := now; th_done := th_done th |}
      | PRdLock =>
          let w := Z.land (rin rw) 3 in
          let c1 := set_rw c {| rin := rin rw + 256; rout := rout rw; win := win rw; wout := wout rw |} in
          if w =? 0 then set_thr c1 t (after_rdlock c1 th) else set_thr c1 t (with_pc th (PRdWait w))
      | PRdWait w =>
          if Z.land (rin rw) 3 =? w then c else set_thr c t (after_rdlock c th)
      | PLockTop =>
          let tb := th_tb th in
          let lk := (tb, bidx tb k) in
          if locked (g_locks c) lk then c else
          let c1 := set_locks c (lk :: g_locks c) in
          match o with
          | CIns _ v =>
              let l := push_top tb k v (g_tabs c1) in
              let want := (b_len (bucket_of tb (bidx tb k) l) >? g_hint c) && (Z.of_nat tb + 1 <? g_maxbits c) in
              set_thr (set_tabs_c c1 l) t
                {| th_pc := PUnlockTop None; th_ops := th_ops th; th_tb := tb; th_resize := want;
                   th_inv := th_inv th; th_done := th_done th |}
          | CFind _ =>
              match bfind k (b_items (bucket_of tb (bidx tb k) (g_tabs c1))) with
              | Some v => set_thr c1 t (with_pc th (PUnlockTop (Some v)))
              | None => set_thr c1 t (walk_to th tb (next_of tb (g_tabs c1)))
              end
          | CRem _ =>
              match bfind k (b_items (bucket_of tb (bidx tb k) (g_tabs c1))) with
              | Some v => set_thr (set_tabs_c c1 (del_in tb k (g_tabs c1))) t (with_pc th (PUnlockTop (Some v)))
              | None => set_thr c1 t (walk_to th tb (next_of tb (g_tabs c1)))
              end
          end
      | PLockOld prev head =>
          let lk := (head, bidx head k) in
          if locked (g_locks c) lk then c else
          let c1 := set_locks c (lk :: g_locks c) in
          match bfind k (b_items (bucket_of head (bidx head k) (g_tabs c1))) with
          | None => set_thr c1 t (with_pc th (PUnlockOldN head))
          | Some v =>
              let l := del_in head k (g_tabs c1) in
              let c2 := set_tabs_c c1 l in
              if b_len (bucket_of head (bidx head k) l) =? 0
              then set_thr c2 t (with_pc th (PDecUsed prev head v))
              else let (c3, th') := after_unlink c2 th head k v in set_thr c3 t th'
          end
      | PDecUsed prev head v =>
          let old := match get_tab head (g_tabs c) with Some x => t_used (ct_tab x) | None => 0 end in
          let c1 := set_tabs_c c (map_tab head (on_table (fun x => set_used x (t_used x - 1))) (g_tabs c)) in
          if old =? 1 then set_thr c1 t (with_pc th (PCas prev head v))
          else let (c2, th') := after_unlink c1 th head k v in set_thr c2 t th'
      | PCas prev head v =>
          let c1 := match next_of prev (g_tabs c) with
                    | Some x => if Nat.eqb x head
                                then set_tabs_c c (map_tab prev (set_next (next_of head (g_tabs c))) (g_tabs c))
                                else c
                    | None => c
                    end in
          let (c2, th') := after_unlink c1 th head k v in set_thr c2 t th'
      | PUnlockOldF head v =>
          set_thr (set_locks c (unlock (g_locks c) (head, bidx head k))) t (with_pc th (PUnlockTop (Some v)))
      | PUnlockOldN head =>
          let c1 := set_locks c (unlock (g_locks c) (head, bidx head k)) in
          set_thr c1 t (walk_to th head (next_of head (g_tabs c1)))
      | PUnlockTop r =>
          set_thr (set_locks c (unlock (g_locks c) (th_tb th, bidx (th_tb th) k))) t (with_pc th (PRdUnlock r))
      | PRdUnlock r =>
          let c1 := set_rw c {| rin := rin rw; rout := rout rw + 256; win := win rw; wout := wout rw |} in
          if th_resize th then set_thr c1 t (with_pc th PWrTicket)
          else set_thr c1 t (finish th r now)
      | PWrTicket =>
          let ticket := win rw in
          let c1 := set_rw c {| rin := rin rw; rout := rout rw; win := win rw + 1; wout := wout rw |} in
          if wout rw =? ticket then set_thr c1 t (with_pc th (PWrRin ticket))
          else set_thr c1 t (with_pc th (PWrWait1 ticket))
      | PWrWait1 ticket =>
          if wout rw =? ticket then set_thr c t (with_pc th (PWrRin ticket)) else c
      | PWrRin ticket =>
          let w := Z.lor 2 (Z.land ticket 1) in
          let t2 := rin rw in
          let c1 := set_rw c {| rin := rin rw + w; rout := rout rw; win := win rw; wout := wout rw |} in
          if rout rw =? t2 then set_thr (do_resize (th_tb th) c1) t (with_pc th PWrUnlock)
          else set_thr c1 t (with_pc th (PWrWait2 t2))
      | PWrWait2 t2 =>
          if rout rw =? t2 then set_thr (do_resize (th_tb th) c) t (with_pc th PWrUnlock) else c
      | PWrUnlock =>
          let c1 := set_rw c {| rin := rin rw - Z.land (rin rw) 255; rout := rout rw; win := win rw; wout := wout rw + 1 |} in
          set_thr c1 t (finish th None now)
      end
    end
  end.

Definition crun (c : cfg) (sched : list nat) : cfg := fold_left cstep sched c.

Definition new_thread (ops : list cop) : thread :=
  {| th_pc := PIdle; th_ops := ops; th_tb := 0%nat; th_resize := false; th_inv := 0%nat; th_done := [] |}.
Definition cinit (bits : nat) (hint maxbits : Z) (thr : list (list cop)) : cfg :=
  {| g_hint := hint; g_maxbits := maxbits; g_top := bits;
     g_tabs := [ {| ct_tab := new_table bits; ct_next := None |} ];
     g_locks := []; g_rw := {| rin := 0; rout := 0; win := 0; wout := 0 |};
     g_clock := 0%nat; g_thr := map new_thread thr |}.
(* a new set of threads on the state reached (the harness runs the preparation operations first) *)
Definition restart (c : cfg) (thr : list (list cop)) : cfg :=
  {| g_hint := g_hint c; g_maxbits := g_maxbits c; g_top := g_top c; g_tabs := g_tabs c;
     g_locks := g_locks c; g_rw := g_rw c; g_clock := 0%nat; g_thr := map new_thread thr |}.

(* the tables in use: follow next from the newest one (fuel = number of tables allocated) *)
Fixpoint chain_from (fuel : nat) (b : option nat) (l : list ctab) : list table :=
  match fuel, b with
  | S f, Some x => match get_tab x l with
                   | Some c => ct_tab c :: chain_from f (ct_next c) l
                   | None => []
                   end
  | _, _ => []
  end.
Definition chain (c : cfg) : list table := chain_from (length (g_tabs c)) (Some (g_top c)) (g_tabs c).
Definition all_done (c : cfg) : bool := forallb th_finished (g_thr c).
