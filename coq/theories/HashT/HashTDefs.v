(* Executable sequential model of parsec/class/parsec_hash_table.c (C32).

   A hash table is the chain ht->rw_hash -> next -> next ... of sub-tables,
   newest (largest) first.  Each sub-table has 2^nb_bits buckets; a bucket is the
   singly linked list of items headed by first_item (insertion at the head) and
   the counter cur_len that the code keeps next to it.  used_buckets of a table
   is written by parsec_hash_table_resize when the table becomes an old one and
   decremented when one of its buckets becomes empty; the decrement that takes
   it from 1 to 0 unlinks the table from the chain.

   Items are (key, value): the key is item->key, the value stands for the
   identity of the user's structure (what find / remove return).  The key
   functions are the generic ones (key_hash = identity, keys compared with ==).
   Assertions are compiled out (-DNDEBUG); nothing here depends on them. *)
From Coq Require Import ZArith NArith List Bool.
From PV Require Import Base.ListX.
Import ListNotations.

(* ---------- parsec_hash_table_universal_rehash ----------------------------
   const uint64_t k32 = (k>>32) ^ k;
   return (((a*k32)+b) % (1<<(32+nb_bits))) / (1<<32);          in uint64_t  *)
Local Open Scope N_scope.
Definition two64 : N := 2 ^ 64.
Definition HA : N := 0xaa88564915a.
Definition HB : N := 0x165e44f1fc94.
Definition rehash (key : N) (nb_bits : N) : N :=
  let k    := key mod two64 in
  let wm2  := 2 ^ (32 + nb_bits) in          (* no wrap: nb_bits < 32 in every table *)
  let w2   := 2 ^ 32 in
  let k32  := N.lxor (N.shiftr k 32) k in
  let m    := (HA * k32) mod two64 in         (* a*k32 wraps *)
  let s    := (m + HB) mod two64 in           (* +b wraps *)
  (s mod wm2) / w2.

(* ---------- data ------------------------------------------------------------ *)
Definition item := (N * N)%type.              (* key, value *)
Record bucket := { b_len : Z; b_items : list item }.
Record table := { t_bits : nat; t_used : Z; t_bkts : list bucket }.
Record ht := { h_hint : Z;                    (* ht->max_collisions_hint *)
               h_maxbits : Z;                 (* ht->max_table_nb_bits   *)
               h_tabs : list table }.         (* rw_hash, rw_hash->next, ... *)

Definition empty_bucket : bucket := {| b_len := 0; b_items := [] |}.
Definition new_table (bits : nat) : table :=
  {| t_bits := bits; t_used := 0; t_bkts := repeat empty_bucket (2 ^ bits)%nat |}.
Definition ht_init (bits : nat) (hint maxbits : Z) : ht :=
  {| h_hint := hint; h_maxbits := maxbits; h_tabs := [new_table bits] |}.

Definition idx (k : N) (t : table) : nat := N.to_nat (rehash k (N.of_nat (t_bits t))).
Definition get_bkt (t : table) (i : nat) : bucket := nth i (t_bkts t) empty_bucket.
Definition set_bkt (t : table) (i : nat) (b : bucket) : table :=
  {| t_bits := t_bits t; t_used := t_used t; t_bkts := upd (t_bkts t) i b |}.
Definition set_used (t : table) (u : Z) : table :=
  {| t_bits := t_bits t; t_used := u; t_bkts := t_bkts t |}.
Definition set_tabs (h : ht) (l : list table) : ht :=
  {| h_hint := h_hint h; h_maxbits := h_maxbits h; h_tabs := l |}.

(* ---------- one bucket ------------------------------------------------------ *)
(* the scan loops: first item whose key matches *)
Fixpoint bfind (k : N) (l : list item) : option N :=
  match l with
  | [] => None
  | (k', v) :: r => if N.eqb k' k then Some v else bfind k r
  end.
(* unlink the first item whose key matches *)
Fixpoint bdel (k : N) (l : list item) : list item :=
  match l with
  | [] => []
  | (k', v) :: r => if N.eqb k' k then r else (k', v) :: bdel k r
  end.
Local Open Scope Z_scope.
(* item->next_item = first_item; first_item = item; cur_len++ *)
Definition b_push (it : item) (b : bucket) : bucket :=
  {| b_len := b_len b + 1; b_items := it :: b_items b |}.
(* unlink + --cur_len *)
Definition b_del (k : N) (b : bucket) : bucket :=
  {| b_len := b_len b - 1; b_items := bdel k (b_items b) |}.

(* parsec_hash_table_nolock_insert on the table t = ht->rw_hash *)
Definition t_push (k v : N) (t : table) : table :=
  let i := idx k t in set_bkt t i (b_push (k, v) (get_bkt t i)).

(* ---------- one old table ---------------------------------------------------
   body of the for loop of _find_in_old_tables / _remove_from_old_tables for the
   table [t], up to (not including) the re-insertion into the newest table:
     None              key not in its bucket
     Some (v, Some t') found, unlinked from the bucket, table stays in the chain
     Some (v, None)    found, and this emptied the table: it is unlinked
                       (res = fetch_dec(used_buckets) == 1 -> CAS(prev->next, head, head->next)) *)
Definition old_sec (k : N) (t : table) : option (N * option table) :=
  let i := idx k t in
  let b := get_bkt t i in
  match bfind k (b_items b) with
  | None => None
  | Some v =>
      let b' := b_del k b in
      let t1 := set_bkt t i b' in
      if b_len b' =? 0
      then if t_used t =? 1 then Some (v, None)
           else Some (v, Some (set_used t1 (t_used t - 1)))
      else Some (v, Some t1)
  end.

(* the whole walk over ht->rw_hash->next ...; returns the value and the new chain *)
Fixpoint old_take (k : N) (olds : list table) : option (N * list table) :=
  match olds with
  | [] => None
  | t :: r =>
      match old_sec k t with
      | Some (v, Some t') => Some (v, t' :: r)
      | Some (v, None) => Some (v, r)
      | None => match old_take k r with
                | Some (v, r') => Some (v, t :: r')
                | None => None
                end
      end
  end.

(* ---------- the nolock operations ------------------------------------------- *)
Definition nolock_insert (k v : N) (h : ht) : ht :=
  match h_tabs h with
  | [] => h
  | t :: olds => set_tabs h (t_push k v t :: olds)
  end.

(* parsec_hash_table_nolock_find: newest bucket first; otherwise the old tables,
   and an item found there is moved to the newest table *)
Definition nolock_find (k : N) (h : ht) : option N * ht :=
  match h_tabs h with
  | [] => (None, h)
  | t :: olds =>
      match bfind k (b_items (get_bkt t (idx k t))) with
      | Some v => (Some v, h)
      | None =>
          match old_take k olds with
          | Some (v, olds') => (Some v, set_tabs h (t_push k v t :: olds'))
          | None => (None, h)
          end
      end
  end.

Definition nolock_remove (k : N) (h : ht) : option N * ht :=
  match h_tabs h with
  | [] => (None, h)
  | t :: olds =>
      let i := idx k t in
      match bfind k (b_items (get_bkt t i)) with
      | Some v => (Some v, set_tabs h (set_bkt t i (b_del k (get_bkt t i)) :: olds))
      | None =>
          match old_take k olds with
          | Some (v, olds') => (Some v, set_tabs h (t :: olds'))
          | None => (None, h)
          end
      end
  end.

(* ---------- resize ------------------------------------------------------------ *)
Definition nonempty (b : bucket) : bool := match b_items b with [] => false | _ => true end.
(* parsec_hash_table_resize: count the used buckets of the current table, push a
   table twice as large in front of it *)
Definition resize (h : ht) : ht :=
  match h_tabs h with
  | [] => h
  | t :: olds =>
      set_tabs h (new_table (S (t_bits t)) :: set_used t (cnt nonempty (t_bkts t)) :: olds)
  end.
(* the test made (under the bucket lock) by insert_impl and unlock_bucket_handle_impl:
   cur_len > max_collisions_hint  &&  nb_bits + 1 < max_table_nb_bits *)
Definition want_resize (k : N) (h : ht) : bool :=
  match h_tabs h with
  | [] => false
  | t :: _ => (b_len (get_bkt t (idx k t)) >? h_hint h) && (Z.of_nat (t_bits t) + 1 <? h_maxbits h)
  end.
Definition maybe_resize (k : N) (h : ht) : ht := if want_resize k h then resize h else h.

(* ---------- the locking API, run by one thread -------------------------------- *)
Definition ht_insert (k v : N) (h : ht) : ht := maybe_resize k (nolock_insert k v h).
Definition ht_find (k : N) (h : ht) : option N * ht := nolock_find k h.
Definition ht_remove (k : N) (h : ht) : option N * ht := nolock_remove k h.
(* lock_bucket changes nothing that a single thread can see; unlock_bucket is where a
   resize asked for by the nolock insertions of the critical section happens *)
Definition ht_unlock (k : N) (h : ht) : ht := maybe_resize k h.

(* parsec_hash_table_for_all: every table of the chain, buckets 0 .. 2^bits-1, each list in order *)
Definition t_items (t : table) : list item := flat_map b_items (t_bkts t).
Definition all_items (h : ht) : list item := flat_map t_items (h_tabs h).

Inductive op :=
| OIns (k v : N) | OFind (k : N) | ORem (k : N)             (* parsec_hash_table_insert / _find / _remove *)
| OLock (k : N) | OUnlock (k : N)                           (* _lock_bucket / _unlock_bucket *)
| ONIns (k v : N) | ONFind (k : N) | ONRem (k : N)          (* the _nolock_ variants *)
| OAll.                                                     (* _for_all *)
Inductive res := RUnit | RVal (o : option N) | RItems (l : list item).

Definition step_op (h : ht) (o : op) : res * ht :=
  match o with
  | OIns k v => (RUnit, ht_insert k v h)
  | OFind k => let (r, h') := ht_find k h in (RVal r, h')
  | ORem k => let (r, h') := ht_remove k h in (RVal r, h')
  | OLock k => (RUnit, h)
  | OUnlock k => (RUnit, ht_unlock k h)
  | ONIns k v => (RUnit, nolock_insert k v h)
  | ONFind k => let (r, h') := nolock_find k h in (RVal r, h')
  | ONRem k => let (r, h') := nolock_remove k h in (RVal r, h')
  | OAll => (RItems (all_items h), h)
  end.

(* run a sequence, collecting the results *)
Fixpoint run_ops (h : ht) (l : list op) : list res * ht :=
  match l with
  | [] => ([], h)
  | o :: r => let (x, h1) := step_op h o in
              let (xs, h2) := run_ops h1 r in (x :: xs, h2)
  end.
