(* C32 (3) — every interleaving of the critical sections of HashT/HashTLinDefs.v is linearizable:
   the log written at the linearization points replays on the finite-map specification with the
   same results, and the table always represents the map reached by the log. *)
From Coq Require Import ZArith NArith List Bool Lia Permutation.
From PV Require Import Base.Tac Base.ListX HashT.HashTDefs HashT.HashTHashProofs HashT.HashTSeqProofs
  HashT.HashTConcDefs HashT.HashTLinDefs.
Import ListNotations.

Definition OldsOk (olds : list table) : Prop := Forall (fun o => Tok o /\ Oldok o) olds.

(* ---------- relations between two generations of the table list ------------------------------ *)
(* every table of l' is a table of l (same size) that gained at most items of key kt *)
Definition Gain (kt : N) (l l' : list table) : Prop :=
  forall t', In t' l' -> exists t, In t l /\ t_bits t' = t_bits t /\
     forall k v, In (k, v) (t_items t') -> k = kt \/ In (k, v) (t_items t).
Lemma Gain_refl : forall kt l, Gain kt l l.
Proof. intros kt l t' H. exists t'. auto. Qed.
Lemma Gain_cons : forall kt a a' l l', t_bits a' = t_bits a ->
  (forall k v, In (k, v) (t_items a') -> k = kt \/ In (k, v) (t_items a)) ->
  Gain kt l l' -> Gain kt (a :: l) (a' :: l').
Proof.
  intros kt a a' l l' Hb Hi Hg t' [<-|H].
  - exists a. split; [now left|]. auto.
  - destruct (Hg t' H) as (t & A & B & C). exists t. split; [now right|]. auto.
Qed.
Lemma Gain_drop : forall kt a l l', Gain kt l l' -> Gain kt (a :: l) l'.
Proof. intros kt a l l' Hg t' H. destruct (Hg t' H) as (t & A & B). exists t. split; [now right|exact B]. Qed.

Fixpoint desc (l : list table) : Prop :=
  match l with
  | [] => True
  | t :: r => Forall (fun x => (t_bits x < t_bits t)%nat) r /\ desc r
  end.
Lemma Gain_below : forall kt b l l', Gain kt l l' -> Forall (fun x => (t_bits x < b)%nat) l ->
  Forall (fun x => (t_bits x < b)%nat) l'.
Proof.
  intros kt b l l' Hg Hf. apply Forall_forall. intros t' H.
  destruct (Hg t' H) as (t & A & B & _). rewrite Forall_forall in Hf. rewrite B. now apply Hf.
Qed.

(* ---------- one old table at a time ------------------------------------------------------------- *)
Lemma old_sec_bits : forall k t v t', old_sec k t = Some (v, Some t') -> t_bits t' = t_bits t.
Proof.
  intros k t v t' H. unfold old_sec in H. cbv zeta in H.
  destruct (bfind k (b_items (get_bkt t (idx k t)))); [|discriminate].
  destruct (b_len (b_del k (get_bkt t (idx k t))) =? 0)%Z; [destruct (t_used t =? 1)%Z; [discriminate|]|]; inv H; reflexivity.
Qed.

Lemma old_step_found : forall c k olds v olds', OldsOk olds -> desc olds -> old_step c k olds = WFound v olds' ->
  OldsOk olds' /\ desc olds' /\ Permutation (items_of olds) ((k, v) :: items_of olds') /\ Gain k olds olds'.
Proof.
  induction olds as [|t r IH]; intros v olds' Hok Hd H; [discriminate|].
  inv Hok. destruct H2 as [Ht Ho]. destruct Hd as [Hb Hd]. cbn [old_step] in H.
  unfold items_of. cbn [flat_map].
  destruct (Nat.ltb (t_bits t) c).
  - destruct (old_sec k t) as [[v0 [t'|]]|] eqn:Es; inv H.
    + destruct (old_sec_keep _ _ _ _ Ht Ho Es) as (A & B & C). pose proof (old_sec_bits _ _ _ _ Es) as Eb.
      split; [constructor; auto|]. split; [cbn [desc]; rewrite Eb; auto|].
      split; [cbn [flat_map]; rewrite C; reflexivity|].
      apply Gain_cons; [assumption| |apply Gain_refl].
      intros k' v' Hin. right. eapply Permutation_in; [symmetry; exact C|]. now right.
    + split; [assumption|]. split; [assumption|].
      split; [rewrite (old_sec_unlink _ _ _ Ht Ho Es); reflexivity|].
      apply Gain_drop, Gain_refl.
  - destruct (old_step c k r) as [|c'|v1 r'] eqn:Er; inv H.
    destruct (IH _ _ H3 Hd eq_refl) as (A & B & C & D).
    split; [constructor; auto|]. split; [cbn [desc]; split; [eapply Gain_below; eauto|assumption]|].
    split.
    + cbn [flat_map]. fold (items_of r) (items_of r'). rewrite C. symmetry. apply Permutation_middle.
    + apply Gain_cons; auto.
Qed.

(* the walk moved on: the tables between the two cursors do not hold k *)
Lemma old_step_cont : forall c k olds c', OldsOk olds -> desc olds -> old_step c k olds = WCont c' ->
  (c' < c)%nat /\ forall t, In t olds -> (c' <= t_bits t)%nat -> (t_bits t < c)%nat -> ~ In k (keys_of (t_items t)).
Proof.
  induction olds as [|t r IH]; intros c' Hok Hd H; [discriminate|].
  inv Hok. destruct H2 as [Ht Ho]. destruct Hd as [Hb Hd]. cbn [old_step] in H.
  destruct (Nat.ltb (t_bits t) c) eqn:El.
  - apply Nat.ltb_lt in El. destruct (old_sec k t) as [[v0 [t'|]]|] eqn:Es; inv H.
    split; [assumption|]. intros t2 [<-|Hin] Hge Hlt; [now apply old_sec_none|].
    rewrite Forall_forall in Hb. specialize (Hb t2 Hin). lia.
  - apply Nat.ltb_ge in El. destruct (old_step c k r) as [|c1|v1 r'] eqn:Er; inv H.
    destruct (IH _ H3 Hd eq_refl) as [A B]. split; [assumption|].
    intros t2 [<-|Hin] Hge Hlt; [lia|]. now apply B.
Qed.
(* the walk ended: no table is left below the cursor *)
Lemma old_step_end : forall c k olds, old_step c k olds = WEnd -> forall t, In t olds -> (c <= t_bits t)%nat.
Proof.
  induction olds as [|t r IH]; intros H t2 Hin; [destruct Hin|]. cbn [old_step] in H.
  destruct (Nat.ltb (t_bits t) c) eqn:El.
  - destruct (old_sec k t) as [[v0 [t'|]]|]; discriminate.
  - apply Nat.ltb_ge in El. destruct (old_step c k r) as [|c1|v1 r'] eqn:Er; try discriminate.
    destruct Hin as [<-|Hin]; [assumption|]. now apply IH.
Qed.

(* ---------- the map represented, when an item moves to the newest table / is taken out ---------- *)
Lemma Rep_parts : forall h m, Rep h m -> exists t olds, h_tabs h = t :: olds /\ Tok t /\ OldsOk olds /\
  NoDup (keys_of (all_items h)).
Proof. intros h m [Hinv _]. exact Hinv. Qed.

Lemma Rep_move : forall h m t olds olds' k v, Rep h m -> h_tabs h = t :: olds -> OldsOk olds' ->
  Permutation (items_of olds) ((k, v) :: items_of olds') ->
  Rep (set_tabs h (t_push k v t :: olds')) m /\ m k = Some v.
Proof.
  intros h m t olds olds' k v HR E Ho' P. pose proof HR as [Hinv Hl].
  destruct Hinv as (t0 & olds0 & E0 & Ht & Ho & Hnd). rewrite E in E0. inv E0.
  pose proof (all_items_cons h t0 olds0 E) as Ea.
  assert (P2 : Permutation (all_items (set_tabs h (t_push k v t0 :: olds'))) (all_items h)).
  { rewrite Ea. erewrite all_items_cons by reflexivity. rewrite (t_push_items k v t0 Ht), P.
    cbn [app]. apply Permutation_middle. }
  assert (Hinv' : Inv (set_tabs h (t_push k v t0 :: olds'))).
  { eapply Inv_intro; [reflexivity|now apply Tok_t_push|exact Ho'|].
    eapply nodup_keys_perm; [symmetry; exact P2|assumption]. }
  split; [split; [assumption|]|].
  - intros k'. rewrite <- Hl. unfold lookup. apply lookup_perm; assumption.
  - rewrite <- Hl. unfold lookup. apply bfind_in_nodup; [assumption|]. rewrite Ea. apply in_or_app. right.
    eapply Permutation_in; [symmetry; exact P|]. now left.
Qed.

Lemma Rep_take : forall h m t olds olds' k v, Rep h m -> h_tabs h = t :: olds -> OldsOk olds' ->
  Permutation (items_of olds) ((k, v) :: items_of olds') ->
  Rep (set_tabs h (t :: olds')) (fupd m k None) /\ m k = Some v.
Proof.
  intros h m t olds olds' k v HR E Ho' P. pose proof HR as [Hinv Hl].
  destruct Hinv as (t0 & olds0 & E0 & Ht & Ho & Hnd). rewrite E in E0. inv E0.
  pose proof (all_items_cons h t0 olds0 E) as Ea.
  assert (P2 : Permutation (all_items h) ((k, v) :: all_items (set_tabs h (t0 :: olds')))).
  { rewrite Ea. erewrite all_items_cons by reflexivity. rewrite P. symmetry. apply Permutation_middle. }
  destruct (nodup_keys_cons _ _ _ _ P2 Hnd) as [Hnk Hnd'].
  assert (Hinv' : Inv (set_tabs h (t0 :: olds'))) by (eapply Inv_intro; [reflexivity|assumption|exact Ho'|assumption]).
  split; [split; [assumption|]|].
  - intros k'. unfold fupd. pose proof (lookup_cons _ _ _ _ Hnd P2 k') as H. fold (lookup h k') in H.
    rewrite <- Hl, H. destruct (N.eqb k' k) eqn:Ek; [|reflexivity].
    apply N.eqb_eq in Ek. subst k'. unfold lookup. now apply bfind_notin_none.
  - rewrite <- Hl. unfold lookup. apply bfind_in_nodup; [assumption|].
    eapply Permutation_in; [symmetry; exact P2|]. now left.
Qed.

(* the key is in no table: the map does not hold it *)
Lemma Rep_absent : forall h m k, Rep h m -> (forall t, In t (h_tabs h) -> ~ In k (keys_of (t_items t))) -> m k = None.
Proof.
  intros h m k [_ Hl] H. rewrite <- Hl. unfold lookup. apply bfind_notin_none.
  unfold keys_of, all_items. intros Hin. apply in_map_iff in Hin. destruct Hin as ([k' v] & Ek & Hin).
  cbn in Ek. subst k'. apply in_flat_map in Hin. destruct Hin as (t & Ht & Hin).
  apply (H t Ht). eapply in_keys; eauto.
Qed.

Lemma nolock_find_top : forall h top olds k v, h_tabs h = top :: olds ->
  bfind k (b_items (get_bkt top (idx k top))) = Some v -> nolock_find k h = (Some v, h).
Proof. intros h top olds k v E Ef. unfold nolock_find. rewrite E, Ef. reflexivity. Qed.
Lemma nolock_remove_top : forall h top olds k v, h_tabs h = top :: olds ->
  bfind k (b_items (get_bkt top (idx k top))) = Some v ->
  nolock_remove k h = (Some v, set_tabs h (set_bkt top (idx k top) (b_del k (get_bkt top (idx k top))) :: olds)).
Proof. intros h top olds k v E Ef. unfold nolock_remove. rewrite E. cbv zeta. rewrite Ef. reflexivity. Qed.

(* ---------- the log ---------------------------------------------------------------------------------- *)
Inductive Lin : list (nat * cop * option N) -> fmap -> Prop :=
| Lin_nil : Lin [] fempty
| Lin_cons : forall l m t o r, Lin l m -> spec_pre m (op_of o) -> spec_res m (op_of o) (res_of o r) ->
    Lin ((t, o, r) :: l) (spec_next m (op_of o)).

Lemma spec_run_app : forall ops rs m o r, spec_run m ops rs -> spec_res (spec_final m ops) o r ->
  spec_run m (ops ++ [o]) (rs ++ [r]).
Proof.
  induction ops as [|a ops IH]; intros rs m o r H Hr; destruct rs as [|x rs]; cbn [spec_run app] in *; try contradiction.
  - auto.
  - destruct H as [A B]. split; [assumption|]. apply IH; assumption.
Qed.
Lemma spec_pre_run_app : forall ops m o, spec_pre_run m ops -> spec_pre (spec_final m ops) o -> spec_pre_run m (ops ++ [o]).
Proof.
  induction ops as [|a ops IH]; intros m o H Hp; cbn [spec_pre_run app] in *; [auto|].
  destruct H as [A B]. split; [assumption|]. apply IH; assumption.
Qed.
Lemma Lin_spec : forall l m, Lin l m ->
  spec_pre_run fempty (log_ops l) /\ spec_run fempty (log_ops l) (log_res l) /\ m = spec_final fempty (log_ops l).
Proof.
  induction 1 as [|l m t o r HL IH Hp Hr]; [cbn; auto|].
  destruct IH as (A & B & C). unfold log_ops, log_res. cbn [map rev fst snd].
  fold (log_ops l) (log_res l). split; [|split].
  - apply spec_pre_run_app; [assumption|]. now rewrite <- C.
  - apply spec_run_app; [assumption|]. now rewrite <- C.
  - unfold spec_final. rewrite fold_left_app. cbn [fold_left]. fold (spec_final fempty (log_ops l)). now rewrite <- C.
Qed.

(* ---------- the invariant ----------------------------------------------------------------------------- *)
(* two threads inside critical sections hold different buckets of the newest table *)
Definition Excl (c : lcfg) : Prop := forall t u a b, t <> u ->
  nth_error (l_thr c) t = Some a -> nth_error (l_thr c) u = Some b ->
  in_cs a = true -> in_cs b = true ->
  bidx (top_bits (l_h c)) (lt_key a) <> bidx (top_bits (l_h c)) (lt_key b).
(* a thread that walks the old tables: its key is in no table of at least c bits *)
Definition WalkOk (h : ht) (th : lthread) : Prop :=
  match lt_pc th with
  | LWalk c => (c <= top_bits h)%nat /\
               match lt_ops th with CFind _ :: _ | CRem _ :: _ => True | _ => False end /\
               forall t, In t (h_tabs h) -> (c <= t_bits t)%nat -> ~ In (lt_key th) (keys_of (t_items t))
  | _ => True
  end.
Record Good (c : lcfg) : Prop := {
  g_rep : exists m, Lin (l_log c) m /\ Rep (l_h c) m;
  g_desc : desc (h_tabs (l_h c));
  g_excl : Excl c;
  g_walk : forall t th, nth_error (l_thr c) t = Some th -> WalkOk (l_h c) th }.

Lemma WalkOk_gain : forall h h' th kt, WalkOk h th -> Gain kt (h_tabs h) (h_tabs h') ->
  top_bits h' = top_bits h -> (in_cs th = true -> lt_key th <> kt) -> WalkOk h' th.
Proof.
  intros h h' th kt HW HG Etb Hk. unfold WalkOk in *. destruct (lt_pc th) eqn:Ep; auto.
  destruct HW as (A & B & C). split; [now rewrite Etb|]. split; [assumption|].
  intros t' Hin Hge Hk'. destruct (HG t' Hin) as (t & Ht & Eb & Hsub).
  apply in_map_iff in Hk'. destruct Hk' as ([k' v] & Ek & Hin'). cbn in Ek. subst k'.
  destruct (Hsub _ _ Hin') as [E|Hin2].
  - apply Hk; [unfold in_cs; now rewrite Ep|assumption].
  - apply (C t Ht); [now rewrite <- Eb|]. eapply in_keys; eauto.
Qed.

(* generic re-establishment after thread t moved from th to th' without entering a critical section *)
Lemma Good_upd : forall c t th th' h' log' bad',
  Good c -> nth_error (l_thr c) t = Some th ->
  (exists m, Lin log' m /\ Rep h' m) -> desc (h_tabs h') -> top_bits h' = top_bits (l_h c) ->
  (in_cs th' = true -> in_cs th = true /\ lt_key th' = lt_key th) ->
  WalkOk h' th' ->
  (forall u thu, u <> t -> nth_error (l_thr c) u = Some thu -> WalkOk h' thu) ->
  Good {| l_h := h'; l_thr := upd (l_thr c) t th'; l_log := log'; l_bad := bad' |}.
Proof.
  intros c t th th' h' log' bad' HG Ht Hrep Hd Etb Hcs HW Hoth.
  constructor; cbn [l_h l_thr l_log]; auto.
  - intros x y a b Hne Ha Hb Ia Ib. cbn [l_h l_thr] in *. rewrite Etb.
    destruct (Nat.eq_dec x t) as [->|Hx]; destruct (Nat.eq_dec y t) as [->|Hy]; try congruence.
    + rewrite (nth_upd_same _ _ _ _ Ht) in Ha. inv Ha. rewrite (nth_upd_other _ _ _ _ _ Ht Hy) in Hb.
      destruct (Hcs Ia) as [Ia' Ek]. rewrite Ek. eapply (g_excl c HG t y); eauto.
    + rewrite (nth_upd_same _ _ _ _ Ht) in Hb. inv Hb. rewrite (nth_upd_other _ _ _ _ _ Ht Hx) in Ha.
      destruct (Hcs Ib) as [Ib' Ek]. rewrite Ek. eapply (g_excl c HG x t); eauto.
    + rewrite (nth_upd_other _ _ _ _ _ Ht Hx) in Ha. rewrite (nth_upd_other _ _ _ _ _ Ht Hy) in Hb.
      eapply (g_excl c HG x y); eauto.
  - intros u thu Hu. destruct (Nat.eq_dec u t) as [->|Hne].
    + rewrite (nth_upd_same _ _ _ _ Ht) in Hu. inv Hu. assumption.
    + rewrite (nth_upd_other _ _ _ _ _ Ht Hne) in Hu. eapply Hoth; eauto.
Qed.

(* the other threads' walks are not disturbed by a section of thread t on its own key *)
Lemma others_walk : forall c t th h', Good c -> nth_error (l_thr c) t = Some th -> in_cs th = true ->
  Gain (lt_key th) (h_tabs (l_h c)) (h_tabs h') -> top_bits h' = top_bits (l_h c) ->
  forall u thu, u <> t -> nth_error (l_thr c) u = Some thu -> WalkOk h' thu.
Proof.
  intros c t th h' HG Ht Hcs Hg Etb u thu Hne Hu.
  eapply WalkOk_gain; [eapply (g_walk c HG); eauto|eassumption|assumption|].
  intros Hcu E. eapply (g_excl c HG u t); eauto. now rewrite E.
Qed.
Lemma others_walk_same : forall c t, Good c ->
  forall u thu, u <> t -> nth_error (l_thr c) u = Some thu -> WalkOk (l_h c) thu.
Proof. intros c t HG u thu _ Hu. eapply (g_walk c HG); eauto. Qed.

Lemma existsb_false_nth : forall {A} (f : A -> bool) l i x, existsb f l = false -> nth_error l i = Some x -> f x = false.
Proof.
  intros A f l i x H Hx. destruct (f x) eqn:E; [|reflexivity].
  assert (existsb f l = true) by (apply existsb_exists; exists x; split; [eapply nth_error_In; eauto|assumption]). congruence.
Qed.

Lemma top_bits_set : forall h t l, top_bits (set_tabs h (t :: l)) = t_bits t.
Proof. reflexivity. Qed.
Lemma t_push_bits : forall k v t, t_bits (t_push k v t) = t_bits t.
Proof. reflexivity. Qed.

Lemma Rep_fupd_none : forall h m k, Rep h m -> m k = None -> Rep h (fupd m k None).
Proof.
  intros h m k [Hi Hl] Hk. split; [assumption|]. intros k'. unfold fupd.
  destruct (N.eqb k' k) eqn:E; [|apply Hl]. apply N.eqb_eq in E. subst k'. rewrite Hl. exact Hk.
Qed.
Lemma Rep_resize : forall h m, Rep h m -> Rep (resize h) m.
Proof.
  intros h m [Hi Hl]. destruct (resize_ok h Hi) as [Hi' E]. split; [assumption|].
  intros k. unfold lookup. rewrite E. apply Hl.
Qed.

Lemma gain_push : forall k v t, Tok t -> forall k' v', In (k', v') (t_items (t_push k v t)) -> k' = k \/ In (k', v') (t_items t).
Proof.
  intros k v t Ht k' v' Hin. pose proof (t_push_items k v t Ht) as P.
  pose proof (Permutation_in (k', v') P Hin) as H. cbn [In] in H.
  destruct H as [E|H]; [injection E as E1 E2; left; congruence|right; exact H].
Qed.
Lemma gain_del : forall k t, Tok t -> forall k' v', In (k', v') (t_items (set_bkt t (idx k t) (b_del k (get_bkt t (idx k t))))) ->
  In (k', v') (t_items t).
Proof.
  intros k t Ht k' v' Hin. pose proof (idx_lt k t Ht) as Hi.
  pose proof (Permutation_in _ (t_items_set_bkt t _ _ Hi) Hin) as H.
  eapply Permutation_in; [symmetry; apply (t_items_split t _ Hi)|].
  apply in_app_or in H. apply in_or_app. destruct H as [H|H]; [left|right; exact H].
  cbn [b_del b_items] in H. revert H. generalize (b_items (get_bkt t (idx k t))). clear.
  induction l as [|[a b] l IH]; intros H; [destruct H|].
  cbn [bdel] in H. destruct (N.eqb a k); [right; exact H|]. destruct H as [H|H]; [left; exact H|right; auto].
Qed.

(* ---------- preservation -------------------------------------------------------------------------------- *)
Lemma lstep_bad_mono : forall c t, l_bad c = true -> l_bad (lstep c t) = true.
Proof.
  intros c t H. unfold lstep. cbv zeta.
  repeat match goal with
         | |- context[match ?x with _ => _ end] => destruct x
         end; cbn [l_bad mk mk_log]; rewrite ?H; reflexivity.
Qed.

(* taking the lock of a free bucket of the newest table *)
Lemma Good_enter : forall c t th, Good c -> nth_error (l_thr c) t = Some th -> lt_pc th = LRd ->
  existsb (holds (top_bits (l_h c)) (bidx (top_bits (l_h c)) (lt_key th))) (l_thr c) = false ->
  Good (mk c (l_h c) t {| lt_pc := LTop; lt_ops := lt_ops th |}).
Proof.
  intros c t th HG Ht Ep Hex. unfold mk.
  assert (Hfree : forall u b, nth_error (l_thr c) u = Some b -> in_cs b = true ->
                    bidx (top_bits (l_h c)) (lt_key b) <> bidx (top_bits (l_h c)) (lt_key th)).
  { intros u b Hu Hcs E. pose proof (existsb_false_nth _ _ _ _ Hex Hu) as Hh. unfold holds in Hh.
    rewrite Hcs, E, Nat.eqb_refl in Hh. discriminate. }
  constructor; cbn [l_h l_thr l_log].
  - exact (g_rep c HG).
  - exact (g_desc c HG).
  - intros x y a b Hne Ha Hb Ia Ib. cbn [l_h l_thr] in *.
    destruct (Nat.eq_dec x t) as [->|Hx]; destruct (Nat.eq_dec y t) as [->|Hy]; try congruence.
    + rewrite (nth_upd_same _ _ _ _ Ht) in Ha. inv Ha. rewrite (nth_upd_other _ _ _ _ _ Ht Hy) in Hb.
      intros E. apply (Hfree y b Hb Ib). symmetry. exact E.
    + rewrite (nth_upd_same _ _ _ _ Ht) in Hb. inv Hb. rewrite (nth_upd_other _ _ _ _ _ Ht Hx) in Ha.
      exact (Hfree x a Ha Ia).
    + rewrite (nth_upd_other _ _ _ _ _ Ht Hx) in Ha. rewrite (nth_upd_other _ _ _ _ _ Ht Hy) in Hb.
      eapply (g_excl c HG x y); eauto.
  - intros u thu Hu. destruct (Nat.eq_dec u t) as [->|Hne].
    + rewrite (nth_upd_same _ _ _ _ Ht) in Hu. inv Hu. exact I.
    + rewrite (nth_upd_other _ _ _ _ _ Ht Hne) in Hu. eapply (g_walk c HG); eauto.
Qed.

(* the write section: nobody reads, so nobody is inside a critical section or a walk *)
Lemma Good_quiet : forall c t th h' rest, Good c -> nth_error (l_thr c) t = Some th ->
  existsb is_reader (l_thr c) = false ->
  (exists m, Lin (l_log c) m /\ Rep h' m) -> desc (h_tabs h') ->
  Good (mk c h' t {| lt_pc := LIdle; lt_ops := rest |}).
Proof.
  intros c t th h' rest HG Ht Hex Hrep Hd. unfold mk.
  assert (Hq : forall u b, nth_error (upd (l_thr c) t {| lt_pc := LIdle; lt_ops := rest |}) u = Some b -> is_reader b = false).
  { intros u b Hu. destruct (Nat.eq_dec u t) as [->|Hne].
    - rewrite (nth_upd_same _ _ _ _ Ht) in Hu. inv Hu. reflexivity.
    - rewrite (nth_upd_other _ _ _ _ _ Ht Hne) in Hu. eapply existsb_false_nth; eauto. }
  constructor; cbn [l_h l_thr l_log]; auto.
  - intros x y a b _ Ha _ Ia _. apply Hq in Ha. unfold is_reader in Ha. unfold in_cs in Ia.
    destruct (lt_pc a); discriminate.
  - intros u thu Hu. apply Hq in Hu. unfold is_reader in Hu. unfold WalkOk. destruct (lt_pc thu); try exact I; discriminate.
Qed.

Ltac not_cs := let Hx := fresh in intros Hx; unfold in_cs in Hx; cbn [lt_pc] in Hx; discriminate Hx.

(* Good_upd with the table unchanged: leaves  the log/representation, the critical-section side condition,
   and the walk invariant of the moved thread *)
Ltac upd_same c t th HG Et Eh Hbelow Hdo :=
  eapply (Good_upd c t th);
  [exact HG | exact Et | | rewrite Eh; split; [exact Hbelow|exact Hdo] | reflexivity | | | apply others_walk_same; exact HG].

Lemma lstep_good : forall c t, Good c -> l_bad (lstep c t) = false -> Good (lstep c t).
Proof.
  intros c t HG Hb. unfold lstep in *. cbv zeta in *.
  destruct (nth_error (l_thr c) t) as [th|] eqn:Et; [|assumption].
  destruct (lt_ops th) as [|o rest] eqn:Eo; [assumption|].
  destruct (g_rep c HG) as (m & HL & HR).
  pose proof (Rep_parts _ _ HR) as (top & olds & Eh & Htop & Holds & Hnd).
  pose proof (g_desc c HG) as Hd. rewrite Eh in Hd. destruct Hd as [Hbelow Hdo].
  assert (Ekey : lt_key th = cop_key o) by (unfold lt_key; rewrite Eo; reflexivity).
  assert (Etb : top_bits (l_h c) = t_bits top) by (unfold top_bits; rewrite Eh; reflexivity).
  assert (Hsame : forall p, in_cs th = true -> in_cs {| lt_pc := p; lt_ops := o :: rest |} = true ->
                            in_cs th = true /\ lt_key {| lt_pc := p; lt_ops := o :: rest |} = lt_key th).
  { intros p A _. split; [exact A|]. unfold lt_key. cbn [lt_ops]. rewrite Eo. reflexivity. }
  assert (Hrep0 : exists m0, Lin (l_log c) m0 /\ Rep (l_h c) m0) by (exists m; split; assumption).
  destruct (lt_pc th) eqn:Ep.
  - (* LIdle: rdlock *)
    unfold mk. upd_same c t th HG Et Eh Hbelow Hdo; [exact Hrep0|not_cs|exact I].
  - (* LRd: the bucket lock of the newest table *)
    destruct (existsb (holds (top_bits (l_h c)) (bidx (top_bits (l_h c)) (cop_key o))) (l_thr c)) eqn:Ex; [assumption|].
    rewrite <- Eo. apply Good_enter; [exact HG|exact Et|exact Ep|]. rewrite Ekey. exact Ex.
  - (* LTop: the newest bucket *)
    rewrite Eh in *.
    assert (Hcs : in_cs th = true) by (unfold in_cs; rewrite Ep; reflexivity).
    destruct o as [k v|k|k]; cbn [cop_key] in *.
    + (* insert *)
      cbn [l_bad mk_log] in Hb. apply orb_false_iff in Hb. destruct Hb as [_ Hb].
      assert (Hmk : m k = None).
      { destruct HR as [_ Hl]. rewrite <- Hl. unfold lookup. destruct (bfind k (all_items (l_h c))); [discriminate|reflexivity]. }
      pose proof (Rep_insert k v _ _ HR Hmk) as HR'.
      assert (Eh1 : h_tabs (nolock_insert k v (l_h c)) = t_push k v top :: olds) by (unfold nolock_insert; rewrite Eh; reflexivity).
      assert (Etb1 : top_bits (nolock_insert k v (l_h c)) = top_bits (l_h c)) by (unfold top_bits; rewrite Eh1, Eh; reflexivity).
      unfold mk_log. eapply (Good_upd c t th); [exact HG|exact Et| | |exact Etb1| | |].
      * exists (spec_next m (op_of (CIns k v))). split; [|exact HR'].
        constructor; [assumption|exact Hmk|reflexivity].
      * rewrite Eh1. cbn [desc]. rewrite t_push_bits. split; assumption.
      * apply Hsame; assumption.
      * exact I.
      * eapply (others_walk c t th); [exact HG|exact Et|exact Hcs| |exact Etb1].
        rewrite Ekey, Eh, Eh1. apply Gain_cons; [reflexivity|apply gain_push; assumption|apply Gain_refl].
    + (* find *)
      destruct (bfind k (b_items (get_bkt top (idx k top)))) as [v|] eqn:Ef.
      * unfold mk_log. upd_same c t th HG Et Eh Hbelow Hdo; [|apply Hsame; assumption|exact I].
        exists (spec_next m (op_of (CFind k))). split; [|exact HR].
        constructor; [assumption|exact I|]. cbn [op_of res_of spec_res].
        destruct (Rep_find k _ _ HR) as [A _]. rewrite (nolock_find_top _ _ _ _ _ Eh Ef) in A. cbn [fst] in A.
        rewrite A. reflexivity.
      * unfold mk. upd_same c t th HG Et Eh Hbelow Hdo; [exact Hrep0|apply Hsame; assumption|].
        unfold WalkOk. cbn [lt_pc lt_ops]. split; [rewrite Etb; apply le_n|]. split; [exact I|].
        unfold lt_key. cbn [lt_ops cop_key]. rewrite Eh. intros t0 [<-|Hin] Hge.
        -- apply t_notin_bucket_notin; assumption.
        -- rewrite Forall_forall in Hbelow. specialize (Hbelow t0 Hin). lia.
    + (* remove *)
      destruct (bfind k (b_items (get_bkt top (idx k top)))) as [v|] eqn:Ef.
      * destruct (Rep_remove k _ _ HR) as [A B].
        rewrite (nolock_remove_top _ _ _ _ _ Eh Ef) in A, B. rewrite (nolock_remove_top _ _ _ _ _ Eh Ef).
        cbn [fst snd] in A, B. cbn [fst snd].
        assert (Etb1 : top_bits (set_tabs (l_h c) (set_bkt top (idx k top) (b_del k (get_bkt top (idx k top))) :: olds)) = top_bits (l_h c))
          by (unfold top_bits; cbn [set_tabs h_tabs]; rewrite Eh; reflexivity).
        unfold mk_log. eapply (Good_upd c t th); [exact HG|exact Et| | |exact Etb1| | |].
        -- exists (spec_next m (op_of (CRem k))). split; [|exact B].
           constructor; [assumption|exact I|]. cbn [op_of res_of spec_res]. rewrite A. reflexivity.
        -- cbn [set_tabs h_tabs desc]. split; assumption.
        -- apply Hsame; assumption.
        -- exact I.
        -- eapply (others_walk c t th); [exact HG|exact Et|exact Hcs| |exact Etb1].
           rewrite Ekey, Eh. cbn [set_tabs h_tabs]. apply Gain_cons; [reflexivity| |apply Gain_refl].
           intros k' v' Hin. right. exact (gain_del k top Htop k' v' Hin).
      * unfold mk. upd_same c t th HG Et Eh Hbelow Hdo; [exact Hrep0|apply Hsame; assumption|].
        unfold WalkOk. cbn [lt_pc lt_ops]. split; [rewrite Etb; apply le_n|]. split; [exact I|].
        unfold lt_key. cbn [lt_ops cop_key]. rewrite Eh. intros t0 [<-|Hin] Hge.
        -- apply t_notin_bucket_notin; assumption.
        -- rewrite Forall_forall in Hbelow. specialize (Hbelow t0 Hin). lia.
  - (* LWalk: one old table *)
    rewrite Eh in *.
    assert (Hcs : in_cs th = true) by (unfold in_cs; rewrite Ep; reflexivity).
    pose proof (g_walk c HG t th Et) as HW. unfold WalkOk in HW. rewrite Ep, Eo, Ekey, Eh, Etb in HW.
    destruct HW as (Hc & Hop & Hw).
    destruct (old_step c0 (cop_key o) olds) as [|c'|v olds'] eqn:Es.
    + (* nothing left below the cursor: the key is nowhere *)
      assert (Hmk : m (cop_key o) = None).
      { eapply Rep_absent; [exact HR|]. rewrite Eh. intros t0 [<-|Hin].
        - apply Hw; [left; reflexivity|assumption].
        - apply Hw; [right; assumption|]. eapply old_step_end; eauto. }
      unfold mk_log. upd_same c t th HG Et Eh Hbelow Hdo; [|apply Hsame; assumption|exact I].
      destruct o as [k v|k|k]; [destruct Hop| |]; cbn [cop_key] in *.
      * exists (spec_next m (op_of (CFind k))). split; [|exact HR].
        constructor; [assumption|exact I|]. cbn [op_of res_of spec_res]. rewrite Hmk. reflexivity.
      * exists (spec_next m (op_of (CRem k))). split; [|apply Rep_fupd_none; assumption].
        constructor; [assumption|exact I|]. cbn [op_of res_of spec_res]. rewrite Hmk. reflexivity.
    + (* not in this table: move the cursor *)
      destruct (old_step_cont _ _ _ _ Holds Hdo Es) as [Hlt Hbetween].
      unfold mk. upd_same c t th HG Et Eh Hbelow Hdo; [exact Hrep0|apply Hsame; assumption|].
      unfold WalkOk. cbn [lt_pc lt_ops]. split; [rewrite Etb; lia|]. split; [exact Hop|].
      unfold lt_key. cbn [lt_ops]. rewrite Eh. intros t0 Hin Hge.
      destruct (le_lt_dec c0 (t_bits t0)) as [Hhi|Hlo]; [apply Hw; assumption|].
      destruct Hin as [<-|Hin]; [lia|]. apply Hbetween; assumption.
    + (* found: unlinked from the old table (and that table from the chain if it became empty) *)
      destruct (old_step_found _ _ _ _ _ Holds Hdo Es) as (Ho' & Hd' & P & Gn).
      assert (Hbelow' : Forall (fun x => (t_bits x < t_bits top)%nat) olds') by (eapply Gain_below; eauto).
      destruct o as [k v0|k|k]; [destruct Hop| |]; cbn [cop_key] in *.
      * destruct (Rep_move _ _ _ _ _ _ _ HR Eh Ho' P) as [HR' Hmk].
        assert (Etb1 : top_bits (set_tabs (l_h c) (t_push k v top :: olds')) = top_bits (l_h c))
          by (unfold top_bits; cbn [set_tabs h_tabs]; rewrite Eh; reflexivity).
        unfold mk_log. eapply (Good_upd c t th); [exact HG|exact Et| | |exact Etb1| | |].
        -- exists (spec_next m (op_of (CFind k))). split; [|exact HR'].
           constructor; [assumption|exact I|]. cbn [op_of res_of spec_res]. rewrite Hmk. reflexivity.
        -- cbn [set_tabs h_tabs desc]. rewrite t_push_bits. split; assumption.
        -- apply Hsame; assumption.
        -- exact I.
        -- eapply (others_walk c t th); [exact HG|exact Et|exact Hcs| |exact Etb1].
           rewrite Ekey, Eh. cbn [set_tabs h_tabs cop_key]. apply Gain_cons; [reflexivity|apply gain_push; assumption|exact Gn].
      * destruct (Rep_take _ _ _ _ _ _ _ HR Eh Ho' P) as [HR' Hmk].
        assert (Etb1 : top_bits (set_tabs (l_h c) (top :: olds')) = top_bits (l_h c))
          by (unfold top_bits; cbn [set_tabs h_tabs]; rewrite Eh; reflexivity).
        unfold mk_log. eapply (Good_upd c t th); [exact HG|exact Et| | |exact Etb1| | |].
        -- exists (spec_next m (op_of (CRem k))). split; [|exact HR'].
           constructor; [assumption|exact I|]. cbn [op_of res_of spec_res]. rewrite Hmk. reflexivity.
        -- cbn [set_tabs h_tabs desc]. split; assumption.
        -- apply Hsame; assumption.
        -- exact I.
        -- eapply (others_walk c t th); [exact HG|exact Et|exact Hcs| |exact Etb1].
           rewrite Ekey, Eh. cbn [set_tabs h_tabs cop_key]. apply Gain_cons; [reflexivity|intros; right; assumption|exact Gn].
  - (* LEnd: unlock the newest bucket *)
    unfold mk. upd_same c t th HG Et Eh Hbelow Hdo; [exact Hrep0|not_cs|exact I].
  - (* LRel: rdunlock *)
    destruct rz; unfold mk; upd_same c t th HG Et Eh Hbelow Hdo; try exact Hrep0; try not_cs; exact I.
  - (* LResize: the write section *)
    destruct (existsb is_reader (l_thr c)) eqn:Er; [assumption|].
    eapply (Good_quiet c t th); [exact HG|exact Et|exact Er| |].
    + destruct (Nat.eqb tb (top_bits (l_h c))); [|exact Hrep0]. exists m. split; [assumption|apply Rep_resize; assumption].
    + destruct (Nat.eqb tb (top_bits (l_h c))); [|rewrite Eh; split; assumption].
      unfold resize. rewrite Eh. cbn [set_tabs h_tabs desc new_table set_used t_bits].
      split; [|split; assumption]. constructor; [unfold set_used; cbn [t_bits]; lia|].
      eapply Forall_impl; [|exact Hbelow]. cbn beta. intros; lia.
Qed.

Lemma Good_init : forall bits hint maxbits progs, Good (linit bits hint maxbits progs).
Proof.
  intros. assert (Hidle : forall u b, nth_error (l_thr (linit bits hint maxbits progs)) u = Some b -> lt_pc b = LIdle).
  { intros u b H. cbn [linit l_thr] in H. apply nth_error_In in H. apply in_map_iff in H.
    destruct H as (p & <- & _). reflexivity. }
  constructor.
  - exists fempty. split; [constructor|apply Rep_init].
  - cbn. split; [constructor|exact I].
  - intros x y a b _ Ha _ Ia _. apply Hidle in Ha. unfold in_cs in Ia. rewrite Ha in Ia. discriminate.
  - intros u thu Hu. apply Hidle in Hu. unfold WalkOk. rewrite Hu. exact I.
Qed.

Lemma lrun_good : forall sched c, Good c -> l_bad (lrun c sched) = false -> Good (lrun c sched).
Proof.
  induction sched as [|t s IH]; intros c HG Hb; cbn [lrun fold_left] in *; [assumption|].
  apply IH; [|assumption]. apply lstep_good; [assumption|].
  destruct (l_bad (lstep c t)) eqn:E; [|reflexivity].
  exfalso. assert (H : l_bad (fold_left lstep s (lstep c t)) = true).
  { clear - E. revert E. generalize (lstep c t). induction s as [|a s IHs]; intros c0 E; cbn [fold_left]; [assumption|].
    apply IHs. now apply lstep_bad_mono. }
  unfold lrun in Hb. congruence.
Qed.

(* (3) every interleaving of the critical sections, any number of threads and operations: if no insert
   found its key present (the clients respected the precondition), the operations, taken in the order of
   their linearization points with the results they returned, form a legal run of the finite map, and
   the table represents the map reached *)
Theorem linearizable : forall bits hint maxbits progs sched,
  let c := lrun (linit bits hint maxbits progs) sched in
  l_bad c = false ->
  spec_pre_run fempty (log_ops (l_log c)) /\
  spec_run fempty (log_ops (l_log c)) (log_res (l_log c)) /\
  Rep (l_h c) (spec_final fempty (log_ops (l_log c))).
Proof.
  intros bits hint maxbits progs sched c Hb. subst c.
  pose proof (lrun_good sched _ (Good_init bits hint maxbits progs) Hb) as HG.
  destruct (g_rep _ HG) as (m & HL & HR). destruct (Lin_spec _ _ HL) as (A & B & C).
  split; [assumption|]. split; [assumption|]. rewrite <- C. exact HR.
Qed.

(* ownership: in every reachable state two threads inside critical sections work on different buckets of
   the newest table, hence on different keys *)
Theorem owners_distinct : forall bits hint maxbits progs sched,
  let c := lrun (linit bits hint maxbits progs) sched in
  l_bad c = false ->
  forall t u a b, t <> u -> nth_error (l_thr c) t = Some a -> nth_error (l_thr c) u = Some b ->
  in_cs a = true -> in_cs b = true ->
  bidx (top_bits (l_h c)) (lt_key a) <> bidx (top_bits (l_h c)) (lt_key b) /\ lt_key a <> lt_key b.
Proof.
  intros bits hint maxbits progs sched c Hb t u a b Hne Ha Hb' Ia Ib. subst c.
  pose proof (lrun_good sched _ (Good_init bits hint maxbits progs) Hb) as HG.
  pose proof (g_excl _ HG t u a b Hne Ha Hb' Ia Ib) as H. split; [exact H|]. intros E. apply H. now rewrite E.
Qed.

(* a step of thread u writes at most one log entry, for u's current operation *)
Lemma lstep_log : forall c u th, nth_error (l_thr c) u = Some th ->
  l_log (lstep c u) = l_log c \/
  exists o rest r, lt_ops th = o :: rest /\ l_log (lstep c u) = (u, o, r) :: l_log c.
Proof.
  intros c u th Hu. unfold lstep. cbv zeta. rewrite Hu.
  destruct (lt_ops th) as [|o rest]; [left; reflexivity|].
  repeat match goal with
         | |- context[match ?x with _ => _ end] => destruct x
         end; cbn [l_log mk mk_log]; try (left; reflexivity); right; eexists _, _, _; split; reflexivity.
Qed.

(* a step of thread u leaves every key other than the one of u's current operation as it is:
   together with [owners_distinct], nobody but the holder of the newest bucket lock of k changes
   the binding of k, in whatever table it is stored *)
Theorem step_keeps_other_keys : forall c u th, Good c -> l_bad (lstep c u) = false ->
  nth_error (l_thr c) u = Some th ->
  forall k, k <> lt_key th -> lookup (l_h (lstep c u)) k = lookup (l_h c) k.
Proof.
  intros c u th HG Hb Hu k Hk.
  pose proof (lstep_good c u HG Hb) as HG'.
  destruct (g_rep _ HG) as (m & HL & [_ Hl]). destruct (g_rep _ HG') as (m' & HL' & [_ Hl']).
  rewrite Hl, Hl'. destruct (Lin_spec _ _ HL) as (_ & _ & ->). destruct (Lin_spec _ _ HL') as (_ & _ & ->).
  destruct (lstep_log c u th Hu) as [E|(o & rest & r & Eo & E)]; rewrite E; [reflexivity|].
  unfold log_ops. cbn [map rev fst snd]. unfold spec_final. rewrite fold_left_app. cbn [fold_left].
  assert (Ek : lt_key th = cop_key o) by (unfold lt_key; rewrite Eo; reflexivity). rewrite Ek in Hk.
  destruct o as [k0 v|k0|k0]; cbn [op_of spec_next cop_key] in *; try reflexivity;
    unfold fupd; destruct (N.eqb k k0) eqn:En; try reflexivity; apply N.eqb_eq in En; congruence.
Qed.

(* at every reachable state -- in particular the quiescent ones, where parsec_hash_table_for_all may
   run -- the traversal order [all_items] lists every binding of the linearized map exactly once *)
Theorem reachable_for_all : forall bits hint maxbits progs sched,
  let c := lrun (linit bits hint maxbits progs) sched in
  l_bad c = false ->
  NoDup (keys_of (all_items (l_h c))) /\
  forall k v, In (k, v) (all_items (l_h c)) <-> spec_final fempty (log_ops (l_log c)) k = Some v.
Proof.
  intros bits hint maxbits progs sched c Hb.
  destruct (linearizable bits hint maxbits progs sched Hb) as (_ & _ & HR).
  destruct (rep_exactly_once _ _ HR) as (A & B & _). split; assumption.
Qed.
