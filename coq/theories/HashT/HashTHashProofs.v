(* C32 — properties of parsec_hash_table_universal_rehash (HashT/HashTDefs.v, [rehash]). *)
From Coq Require Import ZArith NArith List Bool Lia.
From PV Require Import HashT.HashTDefs.
Local Open Scope N_scope.

(* the value is always a valid bucket index of a table of nb_bits bits *)
Lemma rehash_range : forall k b, rehash k b < 2 ^ b.
Proof.
  intros k b. unfold rehash. cbv zeta.
  set (s := (HA * N.lxor (N.shiftr (k mod two64) 32) (k mod two64) mod two64 + HB) mod two64).
  apply N.div_lt_upper_bound; [apply N.pow_nonzero; lia|].
  rewrite <- N.pow_add_r. apply N.mod_lt. apply N.pow_nonzero; lia.
Qed.

(* the index in a smaller table is the low part of the index in a larger one: two keys
   that share a bucket of a table share a bucket in every smaller (older) table *)
Lemma rehash_low_bits : forall k b c, c <= b -> rehash k b mod 2 ^ c = rehash k c.
Proof.
  intros k b c Hcb. unfold rehash. cbv zeta.
  set (s := (HA * N.lxor (N.shiftr (k mod two64) 32) (k mod two64) mod two64 + HB) mod two64).
  apply N.bits_inj. intros n.
  destruct (N.lt_ge_cases n c) as [Hn|Hn].
  - rewrite N.mod_pow2_bits_low by assumption.
    rewrite <- !N.shiftr_div_pow2, !N.shiftr_spec'.
    rewrite !N.mod_pow2_bits_low by lia. reflexivity.
  - rewrite N.mod_pow2_bits_high by assumption.
    rewrite <- N.shiftr_div_pow2, N.shiftr_spec'.
    rewrite N.mod_pow2_bits_high by lia. reflexivity.
Qed.

Lemma rehash_same_bucket_older : forall k1 k2 b c, c <= b ->
  rehash k1 b = rehash k2 b -> rehash k1 c = rehash k2 c.
Proof. intros k1 k2 b c H E. rewrite <- (rehash_low_bits k1 b c H), <- (rehash_low_bits k2 b c H), E. reflexivity. Qed.

(* only the low 64 bits of the key matter (parsec_key_t is a uintptr_t) *)
Lemma rehash_key_mod : forall k b, rehash (k mod two64) b = rehash k b.
Proof. intros. unfold rehash. cbv zeta. rewrite N.mod_mod by (unfold two64; apply N.pow_nonzero; lia). reflexivity. Qed.

Lemma pow2_of_nat : forall n, N.of_nat (2 ^ n) = 2 ^ N.of_nat n.
Proof.
  induction n as [|n IH]; [reflexivity|].
  replace (N.of_nat (S n)) with (N.succ (N.of_nat n)) by (symmetry; apply Nat2N.inj_succ).
  rewrite Nat.pow_succ_r', Nat2N.inj_mul, IH, N.pow_succ_r by apply N.le_0_l. reflexivity.
Qed.

(* as a list index *)
Lemma idx_range : forall k t, (idx k t < 2 ^ t_bits t)%nat.
Proof.
  intros k t. unfold idx.
  pose proof (rehash_range k (N.of_nat (t_bits t))) as H.
  pose proof (pow2_of_nat (t_bits t)) as E.
  rewrite <- E in H. lia.
Qed.
