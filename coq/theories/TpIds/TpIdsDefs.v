(* Executable model of the taskpool identifier table of parsec/parsec.c:
     static parsec_taskpool_t** taskpool_array = NULL;
     static uint32_t taskpool_array_size = 1, taskpool_array_pos = 0;
     #define NOTASKPOOL ((void * )-1)
   parsec_taskpool_lookup / _reserve_id / _register / _unregister /
   _sync_ids_context, every one of them a critical section of the single
   taskpool_array_lock (one model step = one critical section).

   No proofs here.  Pools are small integers (the harness maps its dummy
   parsec_taskpool_t objects to them); tp->taskpool_id of a calloc'd pool is 0.
   Counters live in Z: the uint32 wrap of taskpool_array_pos / _size (and the
   (int) casts of the sync) is outside the model, see the check's assumptions. *)
From Coq Require Import ZArith List Bool.
Import ListNotations.
Local Open Scope Z_scope.

(* one slot of taskpool_array: NOTASKPOOL, a pool, or memory that realloc
   handed out and nobody wrote (slot 0 is never initialised by the code) *)
Inductive cell := Empty | Pool (p : Z) | Junk.

Record st := mk {
  arr  : option (list cell);      (* None = the NULL pointer *)
  size : Z;                       (* taskpool_array_size *)
  pos  : Z;                       (* taskpool_array_pos *)
  tpid : list (Z * Z);            (* tp->taskpool_id of the pools, most recent first; absent = 0 *)
  dead : bool                     (* the process took a SIGSEGV *)
}.
Definition init : st := mk None 1 0 [] false.

Inductive op := Reserve (p : Z) | Register (p : Z) | Unregister (p : Z) | Lookup (i : Z)
              | Sync (m : Z).     (* m = result of MPI_Allreduce(MAX) over the ranks' pos *)
Inductive res := RId (i : Z) | RUnit | RPool (p : option Z) | RJunk | RCrash | RSkip.

Fixpoint assoc (k : Z) (l : list (Z * Z)) : Z :=
  match l with [] => 0 | (a, b) :: t => if a =? k then b else assoc k t end.

Fixpoint set_nth (i : nat) (c : cell) (l : list cell) : list cell :=
  match l, i with
  | [], _ => []
  | _ :: t, O => c :: t
  | x :: t, S j => x :: set_nth j c t
  end.

(* realloc(a, n * sizeof(void* )): the old prefix is kept, new slots are unspecified *)
Definition realloc (a : option (list cell)) (n : Z) : list cell :=
  let old := match a with Some l => l | None => [] end in
  firstn (Z.to_nat n) old ++ repeat Junk (Z.to_nat n - length old).

(* for (i = lo; i < lo + k; a[i++] = NOTASKPOOL); *)
Fixpoint fill (k : nat) (lo : nat) (l : list cell) : list cell :=
  match k with O => l | S k' => fill k' (S lo) (set_nth lo Empty l) end.

(* realloc to n slots, then NOTASKPOOL into [old, n) *)
Definition extend (a : option (list cell)) (old n : Z) : list cell :=
  fill (Z.to_nat (n - old)) (Z.to_nat old) (realloc a n).

(* the growth block shared by reserve_id and register:
     taskpool_array_size <<= 1; realloc; fill [size>>1, size) *)
Definition grow (s : st) : st :=
  let n := 2 * size s in
  mk (Some (extend (arr s) (size s) n)) n (pos s) (tpid s) (dead s).
Definition need_grow (s : st) (idx : Z) : bool :=
  match arr s with None => true | Some _ => size s <=? idx end.

(* while (idx >= msz) msz <<= 1; *)
Fixpoint grow_to (fuel : nat) (idx msz : Z) : Z :=
  match fuel with
  | O => msz
  | S f => if msz <=? idx then grow_to f idx (2 * msz) else msz
  end.

Definition cell_res (c : cell) : res :=
  match c with Empty => RPool None | Pool p => RPool (Some p) | Junk => RJunk end.

Definition crash (s : st) : st * res := (mk (arr s) (size s) (pos s) (tpid s) true, RCrash).

Definition step (s : st) (o : op) : st * res :=
  if dead s then (s, RSkip) else
  match o with
  | Lookup i =>
      (* if (id <= pos) r = taskpool_array[id];  -- NULL array: fault *)
      if i <=? pos s then
        match arr s with
        | None => crash s
        | Some l => (s, cell_res (nth (Z.to_nat i) l Junk))
        end
      else (s, RPool None)
  | Reserve p =>
      let idx := pos s + 1 in
      let s1 := mk (arr s) (size s) idx (tpid s) false in
      let s2 := if need_grow s1 idx then grow s1 else s1 in
      (mk (arr s2) (size s2) (pos s2) ((p, idx) :: tpid s2) false, RId idx)
  | Register p =>
      let idx := assoc p (tpid s) in
      let s2 := if need_grow s idx then grow s else s in
      match arr s2 with
      | Some l => if idx <? size s2
                  then (mk (Some (set_nth (Z.to_nat idx) (Pool p) l)) (size s2) (pos s2) (tpid s2) false, RId idx)
                  else crash s2       (* store past the end of the array: undefined, never generated *)
      | None => crash s2
      end
  | Unregister p =>
      let idx := assoc p (tpid s) in
      match arr s with
      | Some l => if idx <? size s
                  then (mk (Some (set_nth (Z.to_nat idx) Empty l)) (size s) (pos s) (tpid s) false, RUnit)
                  else crash s        (* store past the end: undefined, never generated *)
      | None => crash s               (* store through the NULL array *)
      end
  | Sync m =>
      let msz := grow_to (S (Z.to_nat m)) m (size s) in
      (* if (msz > size) { realloc; fill [size, msz) } *)
      let a := if size s <? msz then Some (extend (arr s) (size s) msz) else arr s in
      (mk a msz m (tpid s) false, RUnit)
  end.

Definition lookup (s : st) (i : Z) : res := snd (step s (Lookup i)).

(* ---- several processes ------------------------------------------------ *)
Inductive event := At (r : nat) (o : op) | SyncAll.

Fixpoint upd {A} (r : nat) (x : A) (l : list A) : list A :=
  match l, r with
  | [], _ => []
  | _ :: t, O => x :: t
  | y :: t, S k => y :: upd k x t
  end.

(* MPI_Allreduce(MPI_MAX) over the processes that are still there *)
Definition max_pos (ss : list st) : Z :=
  fold_right (fun s m => if dead s then m else Z.max (pos s) m) 0 ss.

Definition sys_step (ss : list st) (e : event) : list st * res :=
  match e with
  | At r o => match nth_error ss r with
              | Some s => let '(s', x) := step s o in (upd r s' ss, x)
              | None => (ss, RSkip)
              end
  | SyncAll => let m := max_pos ss in (map (fun s => fst (step s (Sync m))) ss, RUnit)
  end.

Fixpoint sys_run (ss : list st) (h : list event) : list st * list res :=
  match h with
  | [] => (ss, [])
  | e :: t => let '(ss1, x) := sys_step ss e in
              let '(ss2, xs) := sys_run ss1 t in (ss2, x :: xs)
  end.

Definition sys_init (n : nat) : list st := repeat init n.

(* ---- the specification: a finite map id -> pool per process ------------ *)
Record spec := mks {
  s_next : Z;                 (* last identifier handed out *)
  s_idof : Z -> Z;            (* identifier of a pool, 0 = none *)
  s_map  : Z -> option Z      (* registered pools *)
}.
Definition spec_init : spec := mks 0 (fun _ => 0) (fun _ => None).
Definition fupd {B} (f : Z -> B) (k : Z) (v : B) : Z -> B := fun x => if x =? k then v else f x.

Definition spec_step (a : spec) (o : op) : spec * res :=
  match o with
  | Lookup i => (a, RPool (s_map a i))
  | Reserve p => let i := s_next a + 1 in (mks i (fupd (s_idof a) p i) (s_map a), RId i)
  | Register p => (mks (s_next a) (s_idof a) (fupd (s_map a) (s_idof a p) (Some p)), RId (s_idof a p))
  | Unregister p => (mks (s_next a) (s_idof a) (fupd (s_map a) (s_idof a p) None), RUnit)
  | Sync m => (mks m (s_idof a) (s_map a), RUnit)
  end.

Definition spec_max (aa : list spec) : Z := fold_right (fun a m => Z.max (s_next a) m) 0 aa.
Definition spec_sys_step (aa : list spec) (e : event) : list spec * res :=
  match e with
  | At r o => match nth_error aa r with
              | Some a => let '(a', x) := spec_step a o in (upd r a' aa, x)
              | None => (aa, RSkip)
              end
  | SyncAll => let m := spec_max aa in (map (fun a => fst (spec_step a (Sync m))) aa, RUnit)
  end.
Fixpoint spec_sys_run (aa : list spec) (h : list event) : list spec * list res :=
  match h with
  | [] => (aa, [])
  | e :: t => let '(aa1, x) := spec_sys_step aa e in
              let '(aa2, xs) := spec_sys_run aa1 t in (aa2, x :: xs)
  end.

(* ---- the discipline of the callers (parsec_taskpool_enable, the generated
   constructors/destructors), stated on the specification's state: a pool is
   given an identifier once, before it is registered or unregistered;
   identifiers looked up are >= 1 (0 is never handed out); the
   synchronisation is the collective, never a local call. *)
Definition ok_op (a : spec) (o : op) : bool :=
  match o with
  | Reserve p => s_idof a p =? 0
  | Register p | Unregister p => 1 <=? s_idof a p
  | Lookup i => 1 <=? i
  | Sync _ => false
  end.
Definition ok_event (aa : list spec) (e : event) : bool :=
  match e with
  | At r o => match nth_error aa r with Some a => ok_op a o | None => false end
  | SyncAll => true
  end.
Fixpoint wf_run (aa : list spec) (h : list event) : bool :=
  match h with
  | [] => true
  | e :: t => ok_event aa e && wf_run (fst (spec_sys_step aa e)) t
  end.
Definition spec_sys_init (n : nat) : list spec := repeat spec_init n.
Definition wf (n : nat) (h : list event) : bool := wf_run (spec_sys_init n) h.

(* identifiers handed out to process r, in order *)
Fixpoint reserved_ids (r : nat) (h : list event) (xs : list res) : list Z :=
  match h, xs with
  | At r' (Reserve _) :: t, RId i :: xt => if (r' =? r)%nat then i :: reserved_ids r t xt else reserved_ids r t xt
  | _ :: t, _ :: xt => reserved_ids r t xt
  | _, _ => []
  end.
