(* Proofs about the taskpool identifier table (model in TpIdsDefs.v). *)
From PV Require Import Base.Tac TpIds.TpIdsDefs.
Local Open Scope Z_scope.

(* ---------------------------------------------------------------------- *)
(* lists *)
Lemma set_nth_length : forall l i c, length (set_nth i c l) = length l.
Proof. induction l as [|x l IH]; intros [|i] c; cbn; auto. Qed.

Lemma nth_set_nth : forall l i j c d,
  nth j (set_nth i c l) d = if (i =? j)%nat && (i <? length l)%nat then c else nth j l d.
Proof.
  induction l as [|x l IH]; intros i j c d.
  - destruct i, j; cbn; try rewrite andb_false_r; auto.
  - destruct i as [|i], j as [|j]; cbn [set_nth nth length]; auto.
    exact (IH i j c d).
Qed.

Lemma fill_length : forall k lo l, length (fill k lo l) = length l.
Proof. induction k as [|k IH]; intros lo l; cbn [fill]; auto. rewrite IH. apply set_nth_length. Qed.

Lemma nth_fill : forall k lo l j d,
  nth j (fill k lo l) d =
  if (lo <=? j)%nat && (j <? lo + k)%nat && (j <? length l)%nat then Empty else nth j l d.
Proof.
  induction k as [|k IH]; intros lo l j d; cbn [fill].
  - replace ((lo <=? j)%nat && (j <? lo + 0)%nat) with false; auto.
    symmetry. apply andb_false_iff. destruct (lo <=? j)%nat eqn:E; auto. right.
    apply Nat.ltb_ge. apply Nat.leb_le in E. lia.
  - rewrite IH, set_nth_length, nth_set_nth.
    destruct (S lo <=? j)%nat eqn:E1; destruct (j <? S lo + k)%nat eqn:E2;
    destruct (lo <=? j)%nat eqn:E3; destruct (j <? lo + S k)%nat eqn:E4;
    destruct (j <? length l)%nat eqn:E5; destruct (lo =? j)%nat eqn:E6;
    destruct (lo <? length l)%nat eqn:E7; cbn; auto; exfalso; lia.
Qed.

Lemma nth_app_repeat_junk : forall (l : list cell) k j, nth j (l ++ repeat Junk k) Junk = nth j l Junk.
Proof.
  intros l k j. destruct (Nat.lt_ge_cases j (length l)) as [H|H].
  - apply app_nth1; auto.
  - rewrite app_nth2 by auto. rewrite (nth_overflow l) by auto.
    destruct (Nat.lt_ge_cases (j - length l) k) as [H1|H1].
    + apply nth_repeat.
    + apply nth_overflow. rewrite repeat_length. auto.
Qed.

Definition old_of (a : option (list cell)) : list cell := match a with Some l => l | None => [] end.

Lemma extend_length : forall a old n, 0 <= n -> length (extend a old n) = Z.to_nat n.
Proof.
  intros a old n Hn. unfold extend, realloc. rewrite fill_length, app_length, firstn_length, repeat_length. lia.
Qed.

Lemma nth_extend : forall a old n j,
  (length (old_of a) <= Z.to_nat old)%nat -> 0 <= old < n -> (j < Z.to_nat n)%nat ->
  nth j (extend a old n) Junk = if (j <? Z.to_nat old)%nat then nth j (old_of a) Junk else Empty.
Proof.
  intros a old n j Hl Hn Hj. unfold extend. rewrite nth_fill.
  assert (Hlen : length (realloc a n) = Z.to_nat n).
  { unfold realloc. rewrite app_length, firstn_length, repeat_length. lia. }
  rewrite Hlen.
  assert (Hre : nth j (realloc a n) Junk = nth j (old_of a) Junk).
  { unfold realloc. fold (old_of a). rewrite firstn_all2 by lia. apply nth_app_repeat_junk. }
  rewrite Hre.
  destruct (Z.to_nat old <=? j)%nat eqn:E1; destruct (j <? Z.to_nat old + Z.to_nat (n - old))%nat eqn:E2;
  destruct (j <? Z.to_nat n)%nat eqn:E3; destruct (j <? Z.to_nat old)%nat eqn:E4; cbn; auto; exfalso; lia.
Qed.

Lemma grow_to_gt : forall fuel idx msz, 1 <= msz -> idx < msz + Z.of_nat fuel -> idx < grow_to fuel idx msz.
Proof.
  induction fuel as [|f IH]; intros idx msz H1 H2; cbn [grow_to].
  - lia.
  - destruct (msz <=? idx) eqn:E; [apply IH|]; lia.
Qed.
Lemma grow_to_ge : forall fuel idx msz, 1 <= msz -> msz <= grow_to fuel idx msz.
Proof.
  induction fuel as [|f IH]; intros idx msz H1; cbn [grow_to]; [lia|].
  destruct (msz <=? idx) eqn:E; [|lia]. specialize (IH idx (2 * msz)). lia.
Qed.

Lemma nth_error_upd_same : forall {A} (l : list A) r x y, nth_error l r = Some y -> nth_error (upd r x l) r = Some x.
Proof. induction l as [|z l IH]; intros [|r] x y H; cbn in *; try discriminate; eauto. Qed.
Lemma nth_error_upd_other : forall {A} (l : list A) r r' x, r <> r' -> nth_error (upd r x l) r' = nth_error l r'.
Proof. induction l as [|z l IH]; intros [|r] [|r'] x H; cbn; auto; try congruence. Qed.
Lemma upd_length : forall {A} (l : list A) r x, length (upd r x l) = length l.
Proof. induction l as [|z l IH]; intros [|r] x; cbn; auto. Qed.

(* ---------------------------------------------------------------------- *)
(* refinement relation between a process and its finite map *)
Definition cellat0 (a : option (list cell)) (sz i : Z) : cell :=
  match a with
  | None => Empty
  | Some l => if i <? sz then nth (Z.to_nat i) l Junk else Empty
  end.
Definition cellat (s : st) (i : Z) : cell := cellat0 (arr s) (size s) i.
Definition enc (x : option Z) : cell := match x with None => Empty | Some p => Pool p end.

Definition ArrOK (a : option (list cell)) (sz : Z) : Prop :=
  match a with None => sz = 1 | Some l => Z.of_nat (length l) = sz /\ 1 <= sz end.

Definition Shape (s : st) : Prop :=
  dead s = false /\ ArrOK (arr s) (size s) /\ 0 <= pos s < size s /\ (arr s = None -> pos s = 0).

Lemma Shape_intro : forall s, dead s = false -> ArrOK (arr s) (size s) -> 0 <= pos s < size s ->
  (arr s = None -> pos s = 0) -> Shape s.
Proof. intros s H1 H2 H3 H4. exact (conj H1 (conj H2 (conj H3 H4))). Qed.

Definition J (a : spec) : Prop :=
  (forall p, 0 <= s_idof a p <= s_next a) /\
  (forall i p, s_map a i = Some p -> s_idof a p = i /\ 1 <= i) /\
  (forall p q, s_idof a p = s_idof a q -> s_idof a p <> 0 -> p = q).

Definition R (s : st) (a : spec) : Prop :=
  J a /\ Shape s /\ pos s = s_next a /\ (forall p, assoc p (tpid s) = s_idof a p) /\
  (forall i, 1 <= i -> cellat s i = enc (s_map a i)).

Lemma R_init : R init spec_init.
Proof.
  unfold R, J, Shape, ArrOK, init, spec_init, cellat, cellat0; cbn.
  repeat split; intros; try lia; try discriminate; auto.
Qed.

Lemma J_step : forall a o, J a -> (ok_op a o = true \/ exists m, o = Sync m /\ s_next a <= m) ->
  J (fst (spec_step a o)).
Proof.
  intros a o (Hr & Hm & Hi) Hok. destruct o as [p|p|p|i|m]; cbn [spec_step fst].
  - (* Reserve *) destruct Hok as [Hok|(m & Hm' & _)]; [|discriminate]. cbn in Hok.
    assert (H0 : s_idof a p = 0) by lia. unfold J, fupd; cbn. repeat split.
    + destruct (p0 =? p); specialize (Hr p0); lia.
    + destruct (p0 =? p); specialize (Hr p0); lia.
    + destruct (Hm _ _ H) as [H1 H2]. destruct (p0 =? p) eqn:E; [|auto]. assert (p0 = p) by lia. subst. lia.
    + apply (Hm _ _ H).
    + intros p1 q. destruct (p1 =? p) eqn:E1; destruct (q =? p) eqn:E2; intros H1 H2.
      * lia.
      * specialize (Hr q). lia.
      * specialize (Hr p1). lia.
      * auto.
  - (* Register *) destruct Hok as [Hok|(m & Hm' & _)]; [|discriminate]. cbn in Hok.
    unfold J, fupd; cbn. repeat split; try apply Hr; auto.
    + destruct (i =? s_idof a p) eqn:E; [|apply (Hm _ _ H)]. inv H. lia.
    + destruct (i =? s_idof a p) eqn:E; [|apply (Hm _ _ H)]. lia.
  - (* Unregister *) unfold J, fupd; cbn. repeat split; try apply Hr; auto.
    + destruct (i =? s_idof a p) eqn:E; [discriminate|apply (Hm _ _ H)].
    + destruct (i =? s_idof a p) eqn:E; [discriminate|apply (Hm _ _ H)].
  - (* Lookup *) exact (conj Hr (conj Hm Hi)).
  - (* Sync *) destruct Hok as [Hok|(m' & Hm' & Hle)]; [discriminate|]. inv Hm'.
    unfold J; cbn. split; [|split; auto]. intros p. specialize (Hr p). lia.
Qed.

(* growing keeps the shape and every slot from 1 on *)
Lemma extend_ok : forall a sz n, ArrOK a sz -> sz < n ->
  ArrOK (Some (extend a sz n)) n /\ forall i, 1 <= i -> cellat0 (Some (extend a sz n)) n i = cellat0 a sz i.
Proof.
  intros a sz n Hs Hn.
  assert (Hold : (length (old_of a) <= Z.to_nat sz)%nat /\ 1 <= sz).
  { unfold ArrOK in Hs. destruct a; cbn; lia. }
  destruct Hold as (Hold & H1). split.
  - unfold ArrOK. rewrite extend_length by lia. lia.
  - intros i Hi. unfold cellat0. destruct (i <? n) eqn:E.
    + rewrite nth_extend by lia. destruct (Z.to_nat i <? Z.to_nat sz)%nat eqn:E2.
      * destruct a as [l|]; cbn [old_of].
        -- replace (i <? sz) with true by lia. auto.
        -- exfalso. unfold ArrOK in Hs. lia.
      * destruct a; auto. replace (i <? sz) with false by lia. auto.
    + destruct a; auto. replace (i <? sz) with false by lia. auto.
Qed.

Lemma cellat0_set : forall l sz i c j, Z.of_nat (length l) = sz -> 0 <= i < sz -> 0 <= j ->
  cellat0 (Some (set_nth (Z.to_nat i) c l)) sz j = if j =? i then c else cellat0 (Some l) sz j.
Proof.
  intros l sz i c j Hl Hi Hj. unfold cellat0.
  destruct (j <? sz) eqn:E.
  - rewrite nth_set_nth. destruct (j =? i) eqn:E2.
    + replace (Z.to_nat i =? Z.to_nat j)%nat with true by lia.
      replace (Z.to_nat i <? length l)%nat with true by lia. auto.
    + replace (Z.to_nat i =? Z.to_nat j)%nat with false by lia. auto.
  - replace (j =? i) with false by lia. auto.
Qed.

Lemma lookup_R : forall s a i, R s a -> 1 <= i -> step s (Lookup i) = (s, RPool (s_map a i)).
Proof.
  intros s a i (HJ & (Hd & Ha & Hps & Hn) & Hp & Ht & Hc) Hi. unfold step. rewrite Hd.
  destruct HJ as (Hr & Hm & _).
  destruct (i <=? pos s) eqn:E.
  - destruct (arr s) as [l|] eqn:Ea; [|exfalso; specialize (Hn eq_refl); lia].
    specialize (Hc i Hi). unfold cellat, cellat0 in Hc. rewrite Ea in Hc.
    replace (i <? size s) with true in Hc by lia. rewrite Hc. destruct (s_map a i); auto.
  - destruct (s_map a i) as [p|] eqn:Em; auto. destruct (Hm _ _ Em) as [H1 _]. specialize (Hr p). lia.
Qed.

(* the growth test of reserve_id / register *)
Lemma maybe_grow_ok : forall a sz idx, ArrOK a sz -> 0 <= idx <= sz -> (a = None -> idx <= 1) ->
  let g := match a with None => true | Some _ => sz <=? idx end in
  let a' := if g then Some (extend a sz (2 * sz)) else a in
  let sz' := if g then 2 * sz else sz in
  ArrOK a' sz' /\ idx < sz' /\ a' <> None /\ forall i, 1 <= i -> cellat0 a' sz' i = cellat0 a sz i.
Proof.
  intros a sz idx Ha Hi Hn g a' sz'.
  assert (H1 : 1 <= sz) by (unfold ArrOK in Ha; destruct a; lia).
  destruct (extend_ok a sz (2 * sz) Ha) as [H2 H3]; [lia|].
  unfold a', sz', g. destruct a as [l|].
  - destruct (sz <=? idx) eqn:E.
    + split; [exact H2|split; [lia|split; [discriminate|exact H3]]].
    + split; [exact Ha|split; [lia|split; [discriminate|auto]]].
  - specialize (Hn eq_refl). unfold ArrOK in Ha.
    split; [exact H2|split; [lia|split; [discriminate|exact H3]]].
Qed.

Lemma step_R : forall s a o, R s a -> (ok_op a o = true \/ exists m, o = Sync m /\ s_next a <= m) ->
  R (fst (step s o)) (fst (spec_step a o)) /\ snd (step s o) = snd (spec_step a o).
Proof.
  intros s a o HR Hok. pose proof (J_step a o (proj1 HR) Hok) as HJ'.
  destruct HR as (HJ & HS & Hp & Ht & Hc). pose proof HS as (Hd & Ha & Hps & Hn).
  pose proof HJ as (Hr & _ & _).
  destruct o as [p|p|p|i|m].
  - (* Reserve *)
    unfold step. rewrite Hd. cbn [spec_step fst snd]. rewrite Hp. split; [|auto].
    unfold need_grow, grow. cbn [arr size pos tpid dead].
    destruct (maybe_grow_ok (arr s) (size s) (s_next a + 1) Ha) as (G1 & G2 & G3 & G4);
      [lia|intros Hnone; specialize (Hn Hnone); lia|].
    cbn zeta in G1, G2, G3, G4.
    set (g := match arr s with None => true | Some _ => size s <=? s_next a + 1 end) in *.
    unfold R. cbn [fst s_next s_idof s_map]. split; [exact HJ'|].
    destruct g.
    + cbn [arr size pos tpid]. split; [|split; [auto|split]].
      * apply Shape_intro; cbn [arr size pos dead]; auto; try lia; intros; discriminate.
      * intros q. cbn [assoc]. unfold fupd. rewrite Ht, Z.eqb_sym. destruct (q =? p); auto.
      * intros i Hi. rewrite <- Hc by auto. unfold cellat. cbn [arr size]. auto.
    + cbn [arr size pos tpid]. split; [|split; [auto|split]].
      * apply Shape_intro; cbn [arr size pos dead]; auto; try lia; intros E; contradiction.
      * intros q. cbn [assoc]. unfold fupd. rewrite Ht, Z.eqb_sym. destruct (q =? p); auto.
      * intros i Hi. rewrite <- Hc by auto. unfold cellat. cbn [arr size]. auto.
  - (* Register *)
    destruct Hok as [Hok|(m & Hm' & _)]; [|discriminate]. cbn in Hok.
    unfold step. rewrite Hd. cbn [spec_step fst snd]. rewrite Ht.
    assert (Hlt : 1 <= s_idof a p <= pos s) by (specialize (Hr p); lia).
    unfold need_grow. destruct (arr s) as [l|] eqn:Ea; [|exfalso; specialize (Hn eq_refl); lia].
    destruct Ha as (Hl & H1). replace (size s <=? s_idof a p) with false by lia.
    rewrite Ea. replace (s_idof a p <? size s) with true by lia. cbn [fst snd]. split; [|auto].
    unfold R. cbn [s_next s_idof s_map pos tpid]. split; [exact HJ'|]. split; [|split; [auto|split; [auto|]]].
    + apply Shape_intro; cbn [arr size pos dead]; auto; try lia; [unfold ArrOK; rewrite set_nth_length; lia|intros; discriminate].
    + intros i Hi. unfold cellat. cbn [arr size]. rewrite cellat0_set by (auto; lia).
      specialize (Hc i Hi). unfold cellat in Hc. rewrite Ea in Hc. rewrite Hc. unfold fupd.
      destruct (i =? s_idof a p); auto.
  - (* Unregister *)
    destruct Hok as [Hok|(m & Hm' & _)]; [|discriminate]. cbn in Hok.
    unfold step. rewrite Hd. cbn [spec_step fst snd]. rewrite Ht.
    assert (Hlt : 1 <= s_idof a p <= pos s) by (specialize (Hr p); lia).
    destruct (arr s) as [l|] eqn:Ea; [|exfalso; specialize (Hn eq_refl); lia].
    destruct Ha as (Hl & H1). replace (s_idof a p <? size s) with true by lia. cbn [fst snd]. split; [|auto].
    unfold R. cbn [s_next s_idof s_map pos tpid]. split; [exact HJ'|]. split; [|split; [auto|split; [auto|]]].
    + apply Shape_intro; cbn [arr size pos dead]; auto; try lia; [unfold ArrOK; rewrite set_nth_length; lia|intros; discriminate].
    + intros i Hi. unfold cellat. cbn [arr size]. rewrite cellat0_set by (auto; lia).
      specialize (Hc i Hi). unfold cellat in Hc. rewrite Ea in Hc. rewrite Hc. unfold fupd.
      destruct (i =? s_idof a p); auto.
  - (* Lookup *)
    destruct Hok as [Hok|(m & Hm' & _)]; [|discriminate]. cbn in Hok.
    assert (HR : R s a) by (unfold R; auto).
    rewrite (lookup_R s a i HR) by lia. cbn. auto.
  - (* Sync *)
    destruct Hok as [Hok|(m' & Hm' & Hle)]; [discriminate|]. inv Hm'.
    unfold step. rewrite Hd. cbn [spec_step fst snd]. split; [|auto].
    assert (H1 : 1 <= size s) by (unfold ArrOK in Ha; destruct (arr s); lia).
    set (msz := grow_to (S (Z.to_nat m')) m' (size s)).
    assert (Hgt : m' < msz) by (apply grow_to_gt; lia).
    assert (Hge : size s <= msz) by (apply grow_to_ge; lia).
    unfold R. cbn [s_next s_idof s_map pos tpid]. split; [exact HJ'|].
    destruct (size s <? msz) eqn:E.
    + destruct (extend_ok (arr s) (size s) msz Ha) as [H2 H3]; [lia|].
      split; [|split; [auto|split; [auto|]]].
      * apply Shape_intro; cbn [arr size pos dead]; auto; try lia; intros; discriminate.
      * intros i Hi. rewrite <- Hc by auto. unfold cellat. cbn [arr size]. auto.
    + assert (Hm : msz = size s) by lia.
      split; [|split; [auto|split; [auto|]]].
      * apply Shape_intro; cbn [arr size pos dead]; rewrite ?Hm; auto; try lia.
        intros E0. rewrite E0 in Ha. unfold ArrOK in Ha. lia.
      * intros i Hi. rewrite <- Hc by auto. unfold cellat. cbn [arr size]. rewrite Hm. auto.
Qed.

(* ---------------------------------------------------------------------- *)
(* several processes *)
Lemma spec_max_ge : forall aa r a, nth_error aa r = Some a -> s_next a <= spec_max aa.
Proof.
  induction aa as [|b aa IH]; intros [|r] a H; cbn in *; try discriminate.
  - inv H. lia.
  - specialize (IH _ _ H). fold (spec_max aa). lia.
Qed.
Lemma max_pos_ge : forall ss r s, nth_error ss r = Some s -> dead s = false -> pos s <= max_pos ss.
Proof.
  induction ss as [|b ss IH]; intros [|r] s H Hd; cbn in *; try discriminate.
  - inv H. rewrite Hd. lia.
  - specialize (IH _ _ H Hd). fold (max_pos ss). destruct (dead b); lia.
Qed.
Lemma max_pos_spec : forall ss aa, Forall2 R ss aa -> max_pos ss = spec_max aa.
Proof.
  induction 1 as [|s a ss aa HR _ IH]; cbn; auto.
  destruct HR as (_ & (Hd & _) & Hp & _). fold (max_pos ss). fold (spec_max aa). rewrite Hd, Hp, IH. auto.
Qed.

Lemma Forall2_upd : forall {A B} (P : A -> B -> Prop) l l' r x y,
  Forall2 P l l' -> P x y -> Forall2 P (upd r x l) (upd r y l').
Proof.
  intros A B P l l' r x y H. revert r. induction H; intros [|r] Hxy; cbn; constructor; auto.
Qed.
Lemma Forall2_nth : forall {A B} (P : A -> B -> Prop) l l' r x,
  Forall2 P l l' -> nth_error l' r = Some x -> exists y, nth_error l r = Some y /\ P y x.
Proof.
  intros A B P l l' r x H. revert r. induction H; intros [|r] Hn; cbn in *; try discriminate; eauto.
  inv Hn. eauto.
Qed.
Lemma Forall2_nth_l : forall {A B} (P : A -> B -> Prop) l l' r y,
  Forall2 P l l' -> nth_error l r = Some y -> exists x, nth_error l' r = Some x /\ P y x.
Proof.
  intros A B P l l' r x H. revert r. induction H; intros [|r] Hn; cbn in *; try discriminate; eauto.
  inv Hn. eauto.
Qed.

Lemma sys_step_R : forall ss aa e, Forall2 R ss aa -> ok_event aa e = true ->
  Forall2 R (fst (sys_step ss e)) (fst (spec_sys_step aa e)) /\ snd (sys_step ss e) = snd (spec_sys_step aa e).
Proof.
  intros ss aa e HF Hok. destruct e as [r o|]; cbn [sys_step spec_sys_step ok_event] in *.
  - destruct (nth_error aa r) as [a|] eqn:Ea; [|discriminate].
    destruct (Forall2_nth _ _ _ _ _ HF Ea) as (s & Es & HR). rewrite Es.
    destruct (step_R s a o HR (or_introl Hok)) as [H1 H2].
    destruct (step s o) as [s' x]; destruct (spec_step a o) as [a' y]. cbn in *. split; auto.
    apply Forall2_upd; auto.
  - cbn [fst snd]. split; auto. rewrite (max_pos_spec _ _ HF).
    assert (Hall : forall aa0 ss0, Forall2 R ss0 aa0 -> forall m, (forall r a, nth_error aa0 r = Some a -> s_next a <= m) ->
              Forall2 R (map (fun s => fst (step s (Sync m))) ss0) (map (fun a => fst (spec_step a (Sync m))) aa0)).
    { induction 1 as [|s a ss0 aa0 HR _ IH]; intros m Hm; cbn [map]; constructor.
      - apply step_R; auto. right. exists m. split; auto. apply (Hm 0%nat). reflexivity.
      - apply IH. intros r a0 Hn. apply (Hm (S r)). exact Hn. }
    apply Hall; auto. intros r a Hn. eapply spec_max_ge; eauto.
Qed.

Lemma sys_run_R : forall h ss aa, Forall2 R ss aa -> wf_run aa h = true ->
  Forall2 R (fst (sys_run ss h)) (fst (spec_sys_run aa h)) /\ snd (sys_run ss h) = snd (spec_sys_run aa h).
Proof.
  induction h as [|e h IH]; intros ss aa HF Hwf; cbn [sys_run spec_sys_run wf_run] in *.
  - auto.
  - apply andb_true_iff in Hwf. destruct Hwf as [Hok Hwf].
    destruct (sys_step_R ss aa e HF Hok) as [H1 H2].
    destruct (sys_step ss e) as [ss1 x]; destruct (spec_sys_step aa e) as [aa1 y]. cbn [fst snd] in *.
    destruct (IH ss1 aa1 H1 Hwf) as [H3 H4].
    destruct (sys_run ss1 h) as [ss2 xs]; destruct (spec_sys_run aa1 h) as [aa2 ys]. cbn [fst snd] in *.
    split; auto. congruence.
Qed.

Lemma sys_init_R : forall n, Forall2 R (sys_init n) (spec_sys_init n).
Proof. induction n; cbn; constructor; auto. apply R_init. Qed.

(* trace refinement: for every number of processes and every history that
   follows the discipline, the real table answers exactly like the finite maps *)
Theorem refines_finite_map : forall n h, wf n h = true ->
  snd (sys_run (sys_init n) h) = snd (spec_sys_run (spec_sys_init n) h).
Proof. intros n h Hwf. apply sys_run_R; auto. apply sys_init_R. Qed.

(* state refinement: at any time the lookup of any identifier >= 1 is the finite map *)
Theorem lookup_is_map : forall n h r s a i, wf n h = true ->
  nth_error (fst (sys_run (sys_init n) h)) r = Some s ->
  nth_error (fst (spec_sys_run (spec_sys_init n) h)) r = Some a ->
  1 <= i -> lookup s i = RPool (s_map a i) /\ dead s = false.
Proof.
  intros n h r s a i Hwf Hs Ha Hi.
  destruct (sys_run_R h _ _ (sys_init_R n) Hwf) as [HF _].
  destruct (Forall2_nth _ _ _ _ _ HF Ha) as (s' & Hs' & HR). rewrite Hs in Hs'. inv Hs'.
  unfold lookup. rewrite (lookup_R _ _ _ HR Hi). split; auto. apply HR.
Qed.

(* growth preserves the entries: a reservation (the only operation of the
   discipline that can grow the array) changes no lookup *)
Theorem reserve_preserves_lookups : forall s a p i, R s a -> ok_op a (Reserve p) = true -> 1 <= i ->
  lookup (fst (step s (Reserve p))) i = lookup s i.
Proof.
  intros s a p i HR Hok Hi. destruct (step_R s a (Reserve p) HR (or_introl Hok)) as [H1 _].
  unfold lookup. rewrite (lookup_R _ _ _ H1 Hi), (lookup_R _ _ _ HR Hi). reflexivity.
Qed.
Theorem sync_preserves_lookups : forall s a m i, R s a -> s_next a <= m -> 1 <= i ->
  lookup (fst (step s (Sync m))) i = lookup s i.
Proof.
  intros s a m i HR Hm Hi.
  destruct (step_R s a (Sync m) HR) as [H1 _]; [right; eauto|].
  unfold lookup. rewrite (lookup_R _ _ _ H1 Hi), (lookup_R _ _ _ HR Hi). reflexivity.
Qed.
