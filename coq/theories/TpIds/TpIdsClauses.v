(* The clauses of C37 read off the refinement (TpIdsProofs.v): registered pools
   resolve, unregistered and never-registered identifiers resolve to nothing,
   reserved identifiers are distinct, the synchronisation makes the next
   identifier common. *)
From Coq Require Import Sorted.
From PV Require Import Base.Tac TpIds.TpIdsDefs TpIds.TpIdsProofs.
Local Open Scope Z_scope.

(* ---------------------------------------------------------------------- *)
(* runs over concatenated histories *)
Lemma sys_run_app : forall h1 h2 ss,
  fst (sys_run ss (h1 ++ h2)) = fst (sys_run (fst (sys_run ss h1)) h2) /\
  snd (sys_run ss (h1 ++ h2)) = snd (sys_run ss h1) ++ snd (sys_run (fst (sys_run ss h1)) h2).
Proof.
  induction h1 as [|e h1 IH]; intros h2 ss; cbn [app sys_run]; auto.
  destruct (sys_step ss e) as [ss1 x]. specialize (IH h2 ss1).
  destruct (sys_run ss1 (h1 ++ h2)) as [ss2 xs]. destruct (sys_run ss1 h1) as [ss3 ys].
  cbn [fst snd] in *. destruct IH as [H1 H2]. rewrite H1, H2. auto.
Qed.
Lemma spec_sys_run_app : forall h1 h2 aa,
  fst (spec_sys_run aa (h1 ++ h2)) = fst (spec_sys_run (fst (spec_sys_run aa h1)) h2).
Proof.
  induction h1 as [|e h1 IH]; intros h2 aa; cbn [app spec_sys_run]; auto.
  destruct (spec_sys_step aa e) as [aa1 x]. specialize (IH h2 aa1).
  destruct (spec_sys_run aa1 (h1 ++ h2)) as [aa2 xs]. destruct (spec_sys_run aa1 h1) as [aa3 ys].
  cbn [fst snd] in *. auto.
Qed.
Lemma wf_run_app : forall h1 h2 aa,
  wf_run aa (h1 ++ h2) = wf_run aa h1 && wf_run (fst (spec_sys_run aa h1)) h2.
Proof.
  induction h1 as [|e h1 IH]; intros h2 aa; cbn [app wf_run spec_sys_run]; auto.
  rewrite IH. destruct (spec_sys_step aa e) as [aa1 x]. cbn [fst].
  destruct (spec_sys_run aa1 h1) as [aa3 ys]. cbn [fst]. rewrite andb_assoc. auto.
Qed.


Lemma nth_error_Some_lt : forall {A} (l : list A) r x, nth_error l r = Some x -> (r < length l)%nat.
Proof. intros A l r x H. apply nth_error_Some. congruence. Qed.

Lemma spec_sys_run_length : forall h aa, length (fst (spec_sys_run aa h)) = length aa.
Proof.
  induction h as [|e h IH]; intros aa; cbn [spec_sys_run]; auto.
  destruct (spec_sys_step aa e) as [aa1 x] eqn:E. specialize (IH aa1).
  destruct (spec_sys_run aa1 h) as [aa2 xs]. cbn [fst] in *. rewrite IH.
  destruct e as [r' o|]; cbn [spec_sys_step] in E.
  - destruct (nth_error aa r'); [destruct (spec_step s o); inv E; apply upd_length|inv E; auto].
  - inv E. apply map_length.
Qed.
Lemma sys_run_length : forall h ss, length (fst (sys_run ss h)) = length ss.
Proof.
  induction h as [|e h IH]; intros ss; cbn [sys_run]; auto.
  destruct (sys_step ss e) as [ss1 x] eqn:E. specialize (IH ss1).
  destruct (sys_run ss1 h) as [ss2 xs]. cbn [fst] in *. rewrite IH.
  destruct e as [r' o|]; cbn [sys_step] in E.
  - destruct (nth_error ss r'); [destruct (step s o); inv E; apply upd_length|inv E; auto].
  - inv E. apply map_length.
Qed.
Lemma reserved_ids_none : forall r h ss, nth_error ss r = None -> reserved_ids r h (snd (sys_run ss h)) = [].
Proof.
  intros r. induction h as [|e h IH]; intros ss Hn; cbn [sys_run]; auto.
  destruct (sys_step ss e) as [ss1 x] eqn:E.
  assert (Hn1 : nth_error ss1 r = None).
  { destruct e as [r' o|]; cbn [sys_step] in E.
    - destruct (nth_error ss r') as [b|] eqn:Eb; [destruct (step b o); inv E|inv E; auto].
      apply nth_error_None. rewrite upd_length. apply nth_error_None; auto.
    - inv E. apply nth_error_None. rewrite map_length. apply nth_error_None; auto. }
  specialize (IH ss1 Hn1). destruct (sys_run ss1 h) as [ss2 xs]. cbn [snd] in *.
  destruct e as [r' o|]; cbn [reserved_ids]; auto.
  destruct o; auto. destruct x; auto.
  destruct (r' =? r)%nat eqn:Er; auto. apply Nat.eqb_eq in Er. subst r'.
  cbn [sys_step] in E. rewrite Hn in E. inv E.
Qed.

(* what one event does to the map of process r *)
Lemma spec_sys_step_nth : forall aa e r a, nth_error aa r = Some a -> ok_event aa e = true ->
  exists a', nth_error (fst (spec_sys_step aa e)) r = Some a' /\
    ((exists o, e = At r o /\ ok_op a o = true /\ a' = fst (spec_step a o)) \/
     (exists r' o, e = At r' o /\ r' <> r /\ a' = a) \/
     (e = SyncAll /\ s_next a <= spec_max aa /\ a' = fst (spec_step a (Sync (spec_max aa))))).
Proof.
  intros aa e r a Hn Hok. destruct e as [r' o|]; cbn [spec_sys_step ok_event] in *.
  - destruct (nth_error aa r') as [b|] eqn:Eb; [|discriminate].
    destruct (spec_step b o) as [b' x] eqn:Es. cbn [fst].
    destruct (Nat.eq_dec r' r) as [->|Hne].
    + rewrite Hn in Eb. inv Eb. exists b'. split; [eapply nth_error_upd_same; eauto|].
      left. exists o. rewrite Es. auto.
    + exists a. rewrite nth_error_upd_other by auto. split; auto. right; left. eauto.
  - cbn [fst]. exists (fst (spec_step a (Sync (spec_max aa)))). split.
    + rewrite nth_error_map, Hn. reflexivity.
    + right; right. split; auto. split; auto. eapply spec_max_ge; eauto.
Qed.

(* ---------------------------------------------------------------------- *)
Definition Reg (a : spec) (p : Z) : Prop := s_map a (s_idof a p) = Some p.
Definition Unreg (a : spec) (p : Z) : Prop := s_map a (s_idof a p) = None.

Lemma reg_local : forall a o p, J a -> (ok_op a o = true \/ exists m, o = Sync m /\ s_next a <= m) ->
  1 <= s_idof a p -> Reg a p -> o <> Unregister p ->
  Reg (fst (spec_step a o)) p /\ s_idof (fst (spec_step a o)) p = s_idof a p.
Proof.
  intros a o p (Hr & Hm & Hi) Hok H1 HR Hne. unfold Reg in *.
  destruct o as [q|q|q|i|m]; cbn [spec_step fst s_map s_idof]; auto.
  - destruct Hok as [Hok|(m & Hm' & _)]; [|discriminate]. cbn in Hok. unfold fupd.
    destruct (p =? q) eqn:E; [exfalso; assert (p = q) by lia; subst; lia|]. auto.
  - destruct Hok as [Hok|(m & Hm' & _)]; [|discriminate]. cbn in Hok. unfold fupd. split; auto.
    destruct (s_idof a p =? s_idof a q) eqn:E; auto.
    assert (p = q) by (apply Hi; lia). subst. auto.
  - destruct Hok as [Hok|(m & Hm' & _)]; [|discriminate]. cbn in Hok. unfold fupd. split; auto.
    destruct (s_idof a p =? s_idof a q) eqn:E; auto.
    assert (p = q) by (apply Hi; lia). subst. congruence.
Qed.

Lemma unreg_local : forall a o p, J a -> (ok_op a o = true \/ exists m, o = Sync m /\ s_next a <= m) ->
  1 <= s_idof a p -> Unreg a p -> o <> Register p ->
  Unreg (fst (spec_step a o)) p /\ s_idof (fst (spec_step a o)) p = s_idof a p.
Proof.
  intros a o p (Hr & Hm & Hi) Hok H1 HR Hne. unfold Unreg in *.
  destruct o as [q|q|q|i|m]; cbn [spec_step fst s_map s_idof]; auto.
  - destruct Hok as [Hok|(m & Hm' & _)]; [|discriminate]. cbn in Hok. unfold fupd.
    destruct (p =? q) eqn:E; [exfalso; assert (p = q) by lia; subst; lia|]. auto.
  - destruct Hok as [Hok|(m & Hm' & _)]; [|discriminate]. cbn in Hok. unfold fupd. split; auto.
    destruct (s_idof a p =? s_idof a q) eqn:E; auto.
    assert (p = q) by (apply Hi; lia). subst. congruence.
  - unfold fupd. split; auto. destruct (s_idof a p =? s_idof a q); auto.
Qed.

Section Stable.
  Variable r : nat.
  Variable p : Z.

  Lemma reg_stable_sys : forall h aa a, wf_run aa h = true -> nth_error aa r = Some a -> J a ->
    1 <= s_idof a p -> Reg a p -> ~ In (At r (Unregister p)) h ->
    exists a', nth_error (fst (spec_sys_run aa h)) r = Some a' /\ Reg a' p /\ s_idof a' p = s_idof a p.
  Proof.
    induction h as [|e h IH]; intros aa a Hwf Hn HJ H1 HR Hno; cbn [spec_sys_run wf_run] in *.
    - exists a. auto.
    - apply andb_true_iff in Hwf. destruct Hwf as [Hok Hwf].
      destruct (spec_sys_step_nth aa e r a Hn Hok) as (a1 & Hn1 & Hcase).
      destruct (spec_sys_step aa e) as [aa1 x]. cbn [fst] in *.
      assert (Hstep : J a1 /\ Reg a1 p /\ s_idof a1 p = s_idof a p).
      { destruct Hcase as [(o & -> & Hoo & ->)|[(r' & o & -> & Hne & ->)|(-> & Hle & ->)]].
        - assert (Hne : o <> Unregister p) by (intros ->; apply Hno; left; auto).
          destruct (reg_local a o p HJ (or_introl Hoo) H1 HR Hne). split; auto. apply J_step; auto.
        - auto.
        - assert (Hs : ok_op a (Sync (spec_max aa)) = true \/ exists m, Sync (spec_max aa) = Sync m /\ s_next a <= m)
            by (right; eauto).
          destruct (reg_local a _ p HJ Hs H1 HR) as [H2 H3]; [discriminate|]. split; auto. apply J_step; auto. }
      destruct Hstep as (HJ1 & HR1 & Hid1).
      destruct (IH aa1 a1 Hwf Hn1 HJ1) as (a' & Hn' & HR' & Hid'); auto; try lia.
      { intros Hin. apply Hno. right. auto. }
      destruct (spec_sys_run aa1 h) as [aa2 xs]. cbn [fst] in *. exists a'. split; auto. split; auto. lia.
  Qed.

  Lemma unreg_stable_sys : forall h aa a, wf_run aa h = true -> nth_error aa r = Some a -> J a ->
    1 <= s_idof a p -> Unreg a p -> ~ In (At r (Register p)) h ->
    exists a', nth_error (fst (spec_sys_run aa h)) r = Some a' /\ Unreg a' p /\ s_idof a' p = s_idof a p.
  Proof.
    induction h as [|e h IH]; intros aa a Hwf Hn HJ H1 HR Hno; cbn [spec_sys_run wf_run] in *.
    - exists a. auto.
    - apply andb_true_iff in Hwf. destruct Hwf as [Hok Hwf].
      destruct (spec_sys_step_nth aa e r a Hn Hok) as (a1 & Hn1 & Hcase).
      destruct (spec_sys_step aa e) as [aa1 x]. cbn [fst] in *.
      assert (Hstep : J a1 /\ Unreg a1 p /\ s_idof a1 p = s_idof a p).
      { destruct Hcase as [(o & -> & Hoo & ->)|[(r' & o & -> & Hne & ->)|(-> & Hle & ->)]].
        - assert (Hne : o <> Register p) by (intros ->; apply Hno; left; auto).
          destruct (unreg_local a o p HJ (or_introl Hoo) H1 HR Hne). split; auto. apply J_step; auto.
        - auto.
        - assert (Hs : ok_op a (Sync (spec_max aa)) = true \/ exists m, Sync (spec_max aa) = Sync m /\ s_next a <= m)
            by (right; eauto).
          destruct (unreg_local a _ p HJ Hs H1 HR) as [H2 H3]; [discriminate|]. split; auto. apply J_step; auto. }
      destruct Hstep as (HJ1 & HR1 & Hid1).
      destruct (IH aa1 a1 Hwf Hn1 HJ1) as (a' & Hn' & HR' & Hid'); auto; try lia.
      { intros Hin. apply Hno. right. auto. }
      destruct (spec_sys_run aa1 h) as [aa2 xs]. cbn [fst] in *. exists a'. split; auto. split; auto. lia.
  Qed.

  (* every entry of the map of process r comes from a Register event of r *)
  Lemma map_origin_sys : forall h aa a, wf_run aa h = true -> nth_error aa r = Some a ->
    exists a', nth_error (fst (spec_sys_run aa h)) r = Some a' /\
      forall i q, s_map a' i = Some q -> s_map a i = Some q \/ In (At r (Register q)) h.
  Proof.
    induction h as [|e h IH]; intros aa a Hwf Hn; cbn [spec_sys_run wf_run] in *.
    - exists a. auto.
    - apply andb_true_iff in Hwf. destruct Hwf as [Hok Hwf].
      destruct (spec_sys_step_nth aa e r a Hn Hok) as (a1 & Hn1 & Hcase).
      destruct (spec_sys_step aa e) as [aa1 x]. cbn [fst] in *.
      destruct (IH aa1 a1 Hwf Hn1) as (a' & Hn' & Ho).
      destruct (spec_sys_run aa1 h) as [aa2 xs]. cbn [fst] in *. exists a'. split; auto.
      intros i q Hq. destruct (Ho i q Hq) as [H1|H1]; [|right; right; auto].
      destruct Hcase as [(o & -> & Hoo & ->)|[(r' & o & -> & Hne & ->)|(-> & Hle & ->)]]; auto.
      destruct o as [q'|q'|q'|i'|m]; cbn [spec_step fst s_map] in H1; auto.
      + unfold fupd in H1. destruct (i =? s_idof a q'); auto. inv H1. right; left; auto.
      + unfold fupd in H1. destruct (i =? s_idof a q'); auto. discriminate.
  Qed.
End Stable.

(* ---------------------------------------------------------------------- *)
(* the clauses, on the implementation model *)
Lemma final_R : forall n h, wf n h = true ->
  Forall2 R (fst (sys_run (sys_init n) h)) (fst (spec_sys_run (spec_sys_init n) h)).
Proof. intros n h Hwf. apply sys_run_R; auto. apply sys_init_R. Qed.

(* while a pool is registered, looking up its identifier returns it *)
Theorem registered_resolves : forall n h1 h2 r p,
  wf n (h1 ++ At r (Register p) :: h2) = true -> ~ In (At r (Unregister p)) h2 ->
  exists s i, nth_error (fst (sys_run (sys_init n) (h1 ++ At r (Register p) :: h2))) r = Some s /\
    1 <= i /\ assoc p (tpid s) = i /\ lookup s i = RPool (Some p).
Proof.
  intros n h1 h2 r p Hwf Hno. pose proof (final_R n _ Hwf) as HF.
  unfold wf in Hwf. rewrite wf_run_app in Hwf. apply andb_true_iff in Hwf. destruct Hwf as [Hwf1 Hwf2].
  pose proof (final_R n h1 Hwf1) as HF1.
  rewrite spec_sys_run_app in HF.
  set (aa1 := fst (spec_sys_run (spec_sys_init n) h1)) in *.
  cbn [wf_run] in Hwf2. apply andb_true_iff in Hwf2. destruct Hwf2 as [Hok Hwf2].
  cbn [ok_event] in Hok. destruct (nth_error aa1 r) as [a1|] eqn:Ea1; [|discriminate]. cbn in Hok.
  destruct (Forall2_nth _ _ _ _ _ HF1 Ea1) as (s1 & _ & HR1).
  assert (HJ1 : J a1) by apply HR1.
  cbn [spec_sys_run] in HF. cbn [spec_sys_step] in HF, Hwf2. rewrite Ea1 in HF, Hwf2. cbn [spec_step fst] in HF, Hwf2.
  set (a2 := mks (s_next a1) (s_idof a1) (fupd (s_map a1) (s_idof a1 p) (Some p))) in *.
  assert (HJ2 : J a2) by (apply (J_step a1 (Register p) HJ1); left; auto).
  assert (HR2 : Reg a2 p) by (unfold Reg, a2, fupd; cbn; rewrite Z.eqb_refl; auto).
  destruct (reg_stable_sys r p h2 (upd r a2 aa1) a2 Hwf2) as (a' & Hn' & HR' & Hid'); auto.
  { eapply nth_error_upd_same; eauto. }
  { cbn. lia. }
  destruct (spec_sys_run (upd r a2 aa1) h2) as [aa2 xs]. cbn [fst] in *.
  destruct (Forall2_nth _ _ _ _ _ HF Hn') as (s & Hs & HR).
  exists s, (s_idof a' p). split; auto.
  assert (H1 : 1 <= s_idof a' p) by (rewrite Hid'; cbn; lia).
  split; auto. split; [apply HR|].
  unfold lookup. rewrite (lookup_R _ _ _ HR H1). cbn. rewrite HR'. auto.
Qed.

(* after unregistration the lookup of its identifier returns nothing *)
Theorem unregistered_resolves_to_nothing : forall n h1 h2 r p,
  wf n (h1 ++ At r (Unregister p) :: h2) = true -> ~ In (At r (Register p)) h2 ->
  exists s i, nth_error (fst (sys_run (sys_init n) (h1 ++ At r (Unregister p) :: h2))) r = Some s /\
    1 <= i /\ assoc p (tpid s) = i /\ lookup s i = RPool None.
Proof.
  intros n h1 h2 r p Hwf Hno. pose proof (final_R n _ Hwf) as HF.
  unfold wf in Hwf. rewrite wf_run_app in Hwf. apply andb_true_iff in Hwf. destruct Hwf as [Hwf1 Hwf2].
  pose proof (final_R n h1 Hwf1) as HF1.
  rewrite spec_sys_run_app in HF.
  set (aa1 := fst (spec_sys_run (spec_sys_init n) h1)) in *.
  cbn [wf_run] in Hwf2. apply andb_true_iff in Hwf2. destruct Hwf2 as [Hok Hwf2].
  cbn [ok_event] in Hok. destruct (nth_error aa1 r) as [a1|] eqn:Ea1; [|discriminate]. cbn in Hok.
  destruct (Forall2_nth _ _ _ _ _ HF1 Ea1) as (s1 & _ & HR1).
  assert (HJ1 : J a1) by apply HR1.
  cbn [spec_sys_run] in HF. cbn [spec_sys_step] in HF, Hwf2. rewrite Ea1 in HF, Hwf2. cbn [spec_step fst] in HF, Hwf2.
  set (a2 := mks (s_next a1) (s_idof a1) (fupd (s_map a1) (s_idof a1 p) None)) in *.
  assert (HJ2 : J a2) by (apply (J_step a1 (Unregister p) HJ1); left; auto).
  assert (HR2 : Unreg a2 p) by (unfold Unreg, a2, fupd; cbn; rewrite Z.eqb_refl; auto).
  destruct (unreg_stable_sys r p h2 (upd r a2 aa1) a2 Hwf2) as (a' & Hn' & HR' & Hid'); auto.
  { eapply nth_error_upd_same; eauto. }
  { cbn. lia. }
  destruct (spec_sys_run (upd r a2 aa1) h2) as [aa2 xs]. cbn [fst] in *.
  destruct (Forall2_nth _ _ _ _ _ HF Hn') as (s & Hs & HR).
  exists s, (s_idof a' p). split; auto.
  assert (H1 : 1 <= s_idof a' p) by (rewrite Hid'; cbn; lia).
  split; auto. split; [apply HR|].
  unfold lookup. rewrite (lookup_R _ _ _ HR H1). cbn. rewrite HR'. auto.
Qed.

Lemma nth_error_repeat : forall {A} (x : A) n r y, nth_error (repeat x n) r = Some y -> y = x.
Proof. induction n; intros [|r] y H; cbn in *; try discriminate; [inv H; auto|eauto]. Qed.
Lemma nth_error_repeat_lt : forall {A} (x : A) n r, (r < n)%nat -> nth_error (repeat x n) r = Some x.
Proof. induction n; intros [|r] H; cbn; try lia; auto. apply IHn. lia. Qed.

(* an identifier under which no pool was ever registered resolves to nothing
   (reserved but not registered, or beyond every identifier handed out) *)
Theorem never_registered_is_null : forall n h r s i, wf n h = true ->
  nth_error (fst (sys_run (sys_init n) h)) r = Some s -> 1 <= i ->
  (forall p, In (At r (Register p)) h -> assoc p (tpid s) <> i) ->
  lookup s i = RPool None.
Proof.
  intros n h r s i Hwf Hs Hi Hno. pose proof (final_R n _ Hwf) as HF.
  destruct (Forall2_nth_l _ _ _ _ _ HF Hs) as (a & Ha & HR).
  unfold lookup. rewrite (lookup_R _ _ _ HR Hi). cbn.
  destruct (s_map a i) as [q|] eqn:Eq; auto. exfalso.
  assert (Hlen : (r < n)%nat).
  { apply nth_error_Some_lt in Ha. rewrite spec_sys_run_length in Ha.
    unfold spec_sys_init in Ha. rewrite repeat_length in Ha. auto. }
  destruct (map_origin_sys r h (spec_sys_init n) spec_init Hwf) as (a' & Ha' & Ho).
  { apply nth_error_repeat_lt; auto. }
  rewrite Ha in Ha'. inv Ha'. destruct (Ho _ _ Eq) as [H1|H1]; [discriminate|].
  apply (Hno q H1). destruct HR as ((_ & Hm & _) & _ & _ & Ht & _). rewrite Ht. apply (Hm _ _ Eq).
Qed.


(* growth preserves the entries: a reservation (the only operation of the
   discipline that reallocates outside the synchronisation) changes no lookup,
   at any point of any history *)
Theorem growth_preserves_entries : forall n h r p s i, wf n (h ++ [At r (Reserve p)]) = true ->
  nth_error (fst (sys_run (sys_init n) h)) r = Some s -> 1 <= i ->
  lookup (fst (step s (Reserve p))) i = lookup s i.
Proof.
  intros n h r p s i Hwf Hs Hi. unfold wf in Hwf. rewrite wf_run_app in Hwf.
  apply andb_true_iff in Hwf. destruct Hwf as [Hwf1 Hwf2]. pose proof (final_R n h Hwf1) as HF.
  destruct (Forall2_nth_l _ _ _ _ _ HF Hs) as (a & Ha & HR).
  cbn [wf_run ok_event] in Hwf2. rewrite Ha in Hwf2. apply andb_true_iff in Hwf2.
  eapply reserve_preserves_lookups; eauto. apply Hwf2.
Qed.

(* ---------------------------------------------------------------------- *)
(* identifiers handed out to one process are strictly increasing, whatever the
   callers do (no discipline needed beyond: the synchronisation is the collective) *)
Definition collective (h : list event) : Prop := forall r m, ~ In (At r (Sync m)) h.

Lemma step_dead : forall s o, dead s = true -> step s o = (s, RSkip).
Proof. intros s o H. unfold step. rewrite H. auto. Qed.

Lemma step_pos_mono : forall s o, (forall m, o <> Sync m) -> pos s <= pos (fst (step s o)).
Proof.
  intros [a sz ps tp d] o Hns. unfold step, need_grow, grow, crash. cbn [dead arr size pos tpid].
  destruct d; [cbn; lia|].
  destruct o as [p|p|p|i|m].
  - destruct a; [destruct (sz <=? ps + 1)|]; cbn; lia.
  - destruct a; [destruct (sz <=? assoc p tp)|]; cbn [arr size pos fst];
    try (destruct (assoc p tp <? _)); cbn [fst pos]; lia.
  - destruct a; [destruct (assoc p tp <? sz)|]; cbn; lia.
  - destruct (i <=? ps); [destruct a|]; cbn; lia.
  - exfalso. apply (Hns m). auto.
Qed.

Lemma step_reserve_res : forall s p, dead s = false ->
  snd (step s (Reserve p)) = RId (pos s + 1) /\ pos (fst (step s (Reserve p))) = pos s + 1.
Proof.
  intros s p Hd. unfold step. rewrite Hd. cbn [fst snd pos]. split; auto.
  destruct (need_grow _ _); cbn; auto.
Qed.

Lemma sys_step_nth : forall ss e r s, nth_error ss r = Some s ->
  exists s', nth_error (fst (sys_step ss e)) r = Some s' /\
    ((exists o, e = At r o /\ s' = fst (step s o) /\ snd (sys_step ss e) = snd (step s o)) \/
     (exists r' o, e = At r' o /\ r' <> r /\ s' = s) \/
     (e = SyncAll /\ s' = fst (step s (Sync (max_pos ss))))).
Proof.
  intros ss e r s Hn. destruct e as [r' o|]; cbn [sys_step].
  - destruct (Nat.eq_dec r' r) as [->|Hne].
    + rewrite Hn. destruct (step s o) as [s' x] eqn:Es. cbn [fst snd]. exists s'.
      split; [eapply nth_error_upd_same; eauto|]. left. exists o. rewrite Es. auto.
    + exists s. destruct (nth_error ss r') as [b|]; [destruct (step b o) as [b' x]|]; cbn [fst].
      * rewrite nth_error_upd_other by auto. split; auto. right; left; eauto.
      * split; auto. right; left; eauto.
  - cbn [fst]. exists (fst (step s (Sync (max_pos ss)))). split; [rewrite nth_error_map, Hn; auto|].
    right; right; auto.
Qed.

Lemma sync_pos : forall s m, dead s = false -> pos (fst (step s (Sync m))) = m /\ dead (fst (step s (Sync m))) = false.
Proof. intros s m Hd. unfold step. rewrite Hd. cbn. auto. Qed.

Lemma reserved_ids_sorted : forall h ss r s, collective h -> nth_error ss r = Some s ->
  StronglySorted Z.lt (reserved_ids r h (snd (sys_run ss h))) /\
  Forall (fun i => pos s < i) (reserved_ids r h (snd (sys_run ss h))).
Proof.
  induction h as [|e h IH]; intros ss r s Hc Hn; cbn [sys_run].
  - cbn. split; constructor.
  - destruct (sys_step_nth ss e r s Hn) as (s' & Hn' & Hcase).
    destruct (sys_step ss e) as [ss1 x] eqn:Es. cbn [fst snd] in *.
    assert (Hc' : collective h) by (intros r0 m Hin; apply (Hc r0 m); right; auto).
    destruct (IH ss1 r s' Hc' Hn') as [IH1 IH2].
    destruct (sys_run ss1 h) as [ss2 xs]. cbn [fst snd] in *.
    assert (Hmono : pos s <= pos s').
    { destruct Hcase as [(o & -> & -> & _)|[(r' & o & -> & _ & ->)|(-> & ->)]]; try lia.
      - apply step_pos_mono. intros m ->. apply (Hc r m). left; auto.
      - destruct (dead s) eqn:Hd; [rewrite step_dead by auto; cbn; lia|].
        destruct (sync_pos s (max_pos ss) Hd) as [-> _]. eapply max_pos_ge; eauto. }
    assert (Htail : Forall (fun i => pos s < i) (reserved_ids r h xs)).
    { eapply Forall_impl; [|exact IH2]. cbn. intros; lia. }
    destruct e as [r' o|]; cbn [reserved_ids]; [|auto].
    destruct o as [p|p|p|i|m]; auto.
    destruct x as [i| | | | |]; auto.
    destruct (r' =? r)%nat eqn:Er; auto. apply Nat.eqb_eq in Er. subst r'.
    destruct Hcase as [(o & Ho & -> & Hx)|[(r' & o & Ho & Hne & _)|(Ho & _)]]; try discriminate.
    + inv Ho. destruct (dead s) eqn:Hd; [rewrite step_dead in Hx by auto; discriminate|].
      destruct (step_reserve_res s p Hd) as [H1 H2]. rewrite H1 in Hx. inv Hx.
      split; constructor; auto; try lia. rewrite H2 in IH2. exact IH2.
    + inv Ho. congruence.
Qed.

Theorem reserved_ids_distinct : forall n h r, collective h ->
  StronglySorted Z.lt (reserved_ids r h (snd (sys_run (sys_init n) h))) /\
  NoDup (reserved_ids r h (snd (sys_run (sys_init n) h))) /\
  Forall (fun i => 1 <= i) (reserved_ids r h (snd (sys_run (sys_init n) h))).
Proof.
  intros n h r Hc.
  destruct (nth_error (sys_init n) r) as [s|] eqn:Es.
  - destruct (reserved_ids_sorted h _ r s Hc Es) as [H1 H2].
    assert (s = init) by (eapply nth_error_repeat; eauto). subst s.
    split; auto. split.
    + clear H2. induction H1 as [|x l Hs IH Hf]; constructor; auto.
      intros Hin. rewrite Forall_forall in Hf. specialize (Hf _ Hin). lia.
    + eapply Forall_impl; [|exact H2]. cbn. intros; lia.
  - (* r is not a process: nothing is reserved there *)
    rewrite reserved_ids_none by auto. repeat split; constructor.
Qed.

(* ---------------------------------------------------------------------- *)
(* after the synchronisation every process hands out the same next identifier,
   larger than every identifier handed out before anywhere *)
Lemma reserved_ids_le_pos : forall h ss r s, collective h -> nth_error ss r = Some s ->
  forall s', nth_error (fst (sys_run ss h)) r = Some s' ->
  Forall (fun i => i <= pos s') (reserved_ids r h (snd (sys_run ss h))) /\ pos s <= pos s'.
Proof.
  induction h as [|e h IH]; intros ss r s Hc Hn s' Hn'; cbn [sys_run] in *.
  - cbn in *. rewrite Hn in Hn'. inv Hn'. split; [constructor|lia].
  - destruct (sys_step_nth ss e r s Hn) as (s1 & Hn1 & Hcase).
    destruct (sys_step ss e) as [ss1 x] eqn:Es. cbn [fst snd] in *.
    assert (Hc' : collective h) by (intros r0 m Hin; apply (Hc r0 m); right; auto).
    specialize (IH ss1 r s1 Hc' Hn1).
    destruct (sys_run ss1 h) as [ss2 xs]. cbn [fst snd] in *.
    destruct (IH s' Hn') as [IH1 IH2].
    assert (Hmono : pos s <= pos s1).
    { destruct Hcase as [(o & -> & -> & _)|[(r' & o & -> & _ & ->)|(-> & ->)]]; try lia.
      - apply step_pos_mono. intros m ->. apply (Hc r m). left; auto.
      - destruct (dead s) eqn:Hd; [rewrite step_dead by auto; cbn; lia|].
        destruct (sync_pos s (max_pos ss) Hd) as [-> _]. eapply max_pos_ge; eauto. }
    split; [|lia].
    destruct e as [r' o|]; cbn [reserved_ids]; [|auto].
    destruct o as [p|p|p|i|m]; auto.
    destruct x as [i| | | | |]; auto.
    destruct (r' =? r)%nat eqn:Er; auto. apply Nat.eqb_eq in Er. subst r'.
    destruct Hcase as [(o & Ho & -> & Hx)|[(r' & o & Ho & Hne & _)|(Ho & _)]]; try discriminate.
    + inv Ho. destruct (dead s) eqn:Hd; [rewrite step_dead in Hx by auto; discriminate|].
      destruct (step_reserve_res s p Hd) as [H1 H2]. rewrite H1 in Hx. inv Hx.
      constructor; auto. lia.
    + inv Ho. congruence.
Qed.

Theorem sync_common_next : forall n h r1 r2 s1 s2 p1 p2, wf n h = true -> collective h ->
  let ss := fst (sys_run (sys_init n) (h ++ [SyncAll])) in
  nth_error ss r1 = Some s1 -> nth_error ss r2 = Some s2 ->
  exists i, snd (step s1 (Reserve p1)) = RId i /\ snd (step s2 (Reserve p2)) = RId i /\
    forall r, Forall (fun j => j < i) (reserved_ids r h (snd (sys_run (sys_init n) h))).
Proof.
  intros n h r1 r2 s1 s2 p1 p2 Hwf Hc ss Hn1 Hn2.
  pose proof (final_R n h Hwf) as HF.
  unfold ss in *. destruct (sys_run_app h [SyncAll] (sys_init n)) as [Hrun _]. rewrite Hrun in Hn1, Hn2.
  set (ss0 := fst (sys_run (sys_init n) h)) in *. cbn [sys_run sys_step fst] in Hn1, Hn2.
  set (m := max_pos ss0) in *.
  assert (Hall : forall r s, nth_error (map (fun s0 => fst (step s0 (Sync m))) ss0) r = Some s ->
                             pos s = m /\ dead s = false).
  { intros r s Hn. rewrite nth_error_map in Hn. destruct (nth_error ss0 r) as [s0|] eqn:E0; [|discriminate].
    inv Hn. destruct (Forall2_nth_l _ _ _ _ _ HF E0) as (a & _ & HR). apply sync_pos. apply HR. }
  destruct (Hall _ _ Hn1) as [P1 D1]. destruct (Hall _ _ Hn2) as [P2 D2].
  exists (m + 1). destruct (step_reserve_res s1 p1 D1) as [-> _]. destruct (step_reserve_res s2 p2 D2) as [-> _].
  rewrite P1, P2. split; auto. split; auto.
  intros r. destruct (nth_error (sys_init n) r) as [s|] eqn:Es.
  - destruct (nth_error ss0 r) as [s'|] eqn:Es'.
    + destruct (reserved_ids_le_pos h _ r s Hc Es s' Es') as [H1 _].
      eapply Forall_impl; [|exact H1]. cbn. intros j Hj.
      destruct (Forall2_nth_l _ _ _ _ _ HF Es') as (a & _ & HR).
      assert (pos s' <= m) by (eapply max_pos_ge; eauto; apply HR). lia.
    + exfalso. apply nth_error_None in Es'. apply nth_error_Some_lt in Es.
      unfold ss0 in Es'. rewrite sys_run_length in Es'. lia.
  - rewrite reserved_ids_none by auto. constructor.
Qed.


(* ---------------------------------------------------------------------- *)
(* the synchronisation is ONE critical section (counter read, collective,
   write-back under the same hold of taskpool_array_lock): no reservation of
   the process can fall between the read and the write-back, the maximum that
   is written back is at least the current counter, and the counter of a
   process never decreases.  A reservation attempted by another thread during
   the collective is therefore an event before or after SyncAll, and
   reserved_ids_distinct covers both orders. *)
Theorem sync_never_lowers_a_counter : forall ss r s s', nth_error ss r = Some s -> dead s = false ->
  nth_error (fst (sys_step ss SyncAll)) r = Some s' -> pos s <= pos s' /\ pos s' = max_pos ss.
Proof.
  intros ss r s s' Hn Hd Hn'. cbn [sys_step fst] in Hn'. rewrite nth_error_map, Hn in Hn'. inv Hn'.
  destruct (sync_pos s (max_pos ss) Hd) as [-> _]. split; auto. eapply max_pos_ge; eauto.
Qed.

(* why it has to be one: writing back a maximum computed from a counter that
   was read before a reservation ([Sync m] with m below the current counter)
   makes the next reservation hand out the same identifier again *)
Lemma stale_write_back_repeats_an_identifier :
  let s1 := fst (step init (Reserve 1)) in
  let s2 := fst (step s1 (Sync 0)) in
  snd (step init (Reserve 1)) = RId 1 /\ snd (step s2 (Reserve 2)) = RId 1.
Proof. vm_compute. auto. Qed.

(* identifier 0 is never handed out and is outside the property; the code
   does not tolerate its lookup on a fresh table (NULL array, 0 <= pos) and
   reads a slot nobody wrote afterwards *)
Lemma lookup_zero_fresh : lookup init 0 = RCrash.
Proof. reflexivity. Qed.
Lemma lookup_zero_after_reserve : forall p, lookup (fst (step init (Reserve p))) 0 = RJunk.
Proof. reflexivity. Qed.
