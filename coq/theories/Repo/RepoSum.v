(* Sums of an integer measure over the thread list, and how one step (which replaces the
   record of the scheduled thread) changes them. *)
From PV Require Import Base.Tac Base.ListX.
Local Open Scope Z_scope.

Section Sum.
Context {A : Type}.

Definition sumZ (f : A -> Z) (l : list A) : Z := fold_right (fun x s => f x + s) 0 l.

Lemma sumZ_nil f : sumZ f [] = 0. Proof. reflexivity. Qed.
Lemma sumZ_cons f x l : sumZ f (x :: l) = f x + sumZ f l. Proof. reflexivity. Qed.
Lemma sumZ_app f a b : sumZ f (a ++ b) = sumZ f a + sumZ f b.
Proof. induction a as [|x a IH]; [reflexivity|]. cbn [app]. rewrite !sumZ_cons, IH. lia. Qed.

Lemma sumZ_upd f l t p q : nth_error l t = Some p ->
  sumZ f (upd l t q) = sumZ f l - f p + f q.
Proof.
  intros H. unfold upd. rewrite (split_nth l t p H) at 3.
  rewrite !sumZ_app, !sumZ_cons. lia.
Qed.

Lemma sumZ_nonneg f l : (forall x, In x l -> 0 <= f x) -> 0 <= sumZ f l.
Proof.
  induction l as [|x l IH]; intros H; [cbn; lia|]. rewrite sumZ_cons.
  pose proof (H x (or_introl eq_refl)). assert (0 <= sumZ f l) by (apply IH; intros; apply H; now right). lia.
Qed.

Lemma sumZ_ge_nth f l t p : (forall x, In x l -> 0 <= f x) -> nth_error l t = Some p -> f p <= sumZ f l.
Proof.
  intros Hn H. rewrite (split_nth l t p H), sumZ_app, sumZ_cons.
  assert (0 <= sumZ f (firstn t l)).
  { apply sumZ_nonneg. intros x Hx. apply Hn. rewrite <- (firstn_skipn t l). apply in_or_app. now left. }
  assert (0 <= sumZ f (skipn (S t) l)).
  { apply sumZ_nonneg. intros x Hx. apply Hn. rewrite <- (firstn_skipn (S t) l). apply in_or_app. now right. }
  lia.
Qed.

(* when a non-negative measure sums to 0, a measure that vanishes with it sums to 0 too *)
Lemma sumZ_zero_transfer f g l :
  (forall x, In x l -> 0 <= f x) -> (forall x, In x l -> f x = 0 -> g x = 0) ->
  sumZ f l = 0 -> sumZ g l = 0.
Proof.
  induction l as [|x l IH]; intros Hn Hz H; [reflexivity|].
  rewrite sumZ_cons in *.
  pose proof (Hn x (or_introl eq_refl)).
  assert (0 <= sumZ f l) by (apply sumZ_nonneg; intros; apply Hn; now right).
  rewrite (Hz x (or_introl eq_refl)) by lia.
  rewrite IH; [lia| | |lia]; intros; [apply Hn|apply Hz]; auto; now right.
Qed.

Lemma sumZ_zero_all f l : (forall x, In x l -> f x = 0) -> sumZ f l = 0.
Proof. induction l as [|x l IH]; intros H; [reflexivity|]. rewrite sumZ_cons, IH, (H x); [lia|now left|].
  intros; apply H; now right. Qed.

Lemma sumZ_map {B} (g : B -> A) f l : sumZ f (map g l) = fold_right (fun x s => f (g x) + s) 0 l.
Proof. induction l as [|x l IH]; [reflexivity|]. cbn [map]. rewrite sumZ_cons, IH. reflexivity. Qed.

Lemma Forall_upd (P : A -> Prop) l t q : Forall P l -> P q -> Forall P (upd l t q).
Proof.
  intros Hl Hq. unfold upd. apply Forall_app. split.
  - apply Forall_forall. intros x Hx. rewrite Forall_forall in Hl. apply Hl.
    rewrite <- (firstn_skipn t l). apply in_or_app. now left.
  - constructor; [exact Hq|]. apply Forall_forall. intros x Hx. rewrite Forall_forall in Hl. apply Hl.
    rewrite <- (firstn_skipn (S t) l). apply in_or_app. now right.
Qed.

Lemma Forall_nth (P : A -> Prop) l t p : Forall P l -> nth_error l t = Some p -> P p.
Proof. intros Hl H. rewrite Forall_forall in Hl. apply Hl. eapply nth_error_In; eauto. Qed.

Lemma upd_upd (l : list A) t (p q r : A) : nth_error l t = Some p -> upd (upd l t q) t r = upd l t r.
Proof.
  intros H. unfold upd.
  assert (Hl : length (firstn t l) = t).
  { apply firstn_length_le. apply Nat.lt_le_incl. apply nth_error_Some. congruence. }
  rewrite firstn_app, Hl, Nat.sub_diag. cbn [firstn]. rewrite app_nil_r, firstn_firstn, Nat.min_id.
  f_equal. f_equal.
  replace (S t) with (length (firstn t l) + 1)%nat at 1 by lia.
  rewrite skipn_app. rewrite skipn_all2 by lia. cbn [app].
  replace (length (firstn t l) + 1 - length (firstn t l))%nat with 1%nat by lia. reflexivity.
Qed.
End Sum.
