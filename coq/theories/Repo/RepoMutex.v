(* The multi-access segments of the model are critical sections: at any time, for any programs and
   any schedule, at most one thread is inside a critical section of a given bucket.  (This is what
   makes "one step = the code between two scheduling points" an honest atomicity assumption: the
   plain accesses of a segment are protected by the bucket lock.) *)
From PV Require Import Base.Tac Base.ListX Repo.RepoDefs Repo.RepoSum.

Definition cs_bucket (nb : N) (th : thread) : option N := option_map (rehash nb) (cs_key (t_pc th)).

Definition Mutex (nb : N) (c : cfg) : Prop :=
  forall u v x y b, nth_error (c_thr c) u = Some x -> nth_error (c_thr c) v = Some y ->
    cs_bucket nb x = Some b -> cs_bucket nb y = Some b -> u = v.

Lemma busy_false nb thr b : busy nb thr b = false ->
  forall u x, nth_error thr u = Some x -> cs_bucket nb x <> Some b.
Proof.
  unfold busy. intros Hb u x Hu Hx.
  assert (Hin : In x thr) by (eapply nth_error_In; eauto).
  assert (Hh : holds_bucket nb b x = true).
  { unfold holds_bucket. unfold cs_bucket in Hx. destruct (cs_key (t_pc x)) as [k|]; cbn in Hx; [|discriminate].
    inversion Hx. apply N.eqb_refl. }
  assert (existsb (holds_bucket nb b) thr = true) by (apply existsb_exists; eauto). congruence.
Qed.

Lemma mutex_same nb c c' : c_thr c' = c_thr c -> Mutex nb c -> Mutex nb c'.
Proof. intros H HM. unfold Mutex. rewrite H. exact HM. Qed.

Lemma mutex_eff nb c c' t th th' :
  nth_error (c_thr c) t = Some th -> c_thr c' = upd (c_thr c) t th' -> Mutex nb c ->
  (cs_bucket nb th' = None \/ cs_bucket nb th' = cs_bucket nb th \/
   exists b, cs_bucket nb th' = Some b /\ busy nb (c_thr c) b = false) ->
  Mutex nb c'.
Proof.
  intros Hn Hthr HM Hk u v x y b Hu Hv Hx Hy. rewrite Hthr in Hu, Hv.
  destruct (Nat.eq_dec u t) as [->|Hut]; destruct (Nat.eq_dec v t) as [->|Hvt]; auto.
  - rewrite (nth_upd_same _ _ _ _ Hn) in Hu. inversion Hu; subst x.
    rewrite (nth_upd_other _ _ _ _ _ Hn Hvt) in Hv.
    destruct Hk as [Hk|[Hk|(b' & Hk & Hb)]].
    + congruence.
    + rewrite Hk in Hx. apply (HM t v th y b Hn Hv Hx Hy).
    + rewrite Hk in Hx. inversion Hx; subst b'. exfalso. apply (busy_false _ _ _ Hb v y Hv Hy).
  - rewrite (nth_upd_same _ _ _ _ Hn) in Hv. inversion Hv; subst y.
    rewrite (nth_upd_other _ _ _ _ _ Hn Hut) in Hu.
    destruct Hk as [Hk|[Hk|(b' & Hk & Hb)]].
    + congruence.
    + rewrite Hk in Hy. apply (HM u t x th b Hu Hn Hx Hy).
    + rewrite Hk in Hy. inversion Hy; subst b'. exfalso. apply (busy_false _ _ _ Hb u x Hu Hx).
  - rewrite (nth_upd_other _ _ _ _ _ Hn Hut) in Hu. rewrite (nth_upd_other _ _ _ _ _ Hn Hvt) in Hv.
    apply (HM u v x y b Hu Hv Hx Hy).
Qed.

Ltac mtx Hn HM :=
  first [ exact HM
        | apply mutex_same with (2 := HM); reflexivity
        | eapply mutex_eff with (1 := Hn) (3 := HM);
          [ reflexivity
          | first [ left; reflexivity | right; left; reflexivity
                  | right; right; eexists; split; [reflexivity|assumption] ] ] ].

Lemma mutex_step nb c t : Mutex nb c -> Mutex nb (step nb c t).
Proof.
  intros HM. unfold step. destruct (c_crash c); [exact HM|].
  destruct (nth_error (c_thr c) t) as [th|] eqn:Hn; [|exact HM].
  destruct th as [p ops held]. unfold step_thread. cbn [t_pc t_ops t_held].
  destruct p.
  - destruct ops as [|o r]; [exact HM|]. destruct o as [k|k p|k n|k]; try mtx Hn HM.
    destruct (0 <? c_bud c k)%Z; mtx Hn HM.
  - destruct (busy nb (c_thr c) (rehash nb k)) eqn:Eb; cbn [negb]; mtx Hn HM.
  - mtx Hn HM.
  - destruct (busy nb (c_thr c) (rehash nb k)) eqn:Eb; cbn [negb]; [mtx Hn HM|].
    destruct (c_tab c k); mtx Hn HM.
  - mtx Hn HM.
  - mtx Hn HM.
  - destruct (busy nb (c_thr c) (rehash nb k)) eqn:Eb; cbn [negb]; [mtx Hn HM|].
    destruct (c_tab c k); mtx Hn HM.
  - mtx Hn HM.
  - destruct (busy nb (c_thr c) (rehash nb k)) eqn:Eb; cbn [negb]; [mtx Hn HM|].
    destruct (c_tab c k); mtx Hn HM.
  - destruct (c_tab c k) as [e|]; [|mtx Hn HM]. destruct (e_lmt e =? ov)%Z; mtx Hn HM.
  - mtx Hn HM.
  - destruct (busy nb (c_thr c) (rehash nb k)) eqn:Eb; cbn [negb]; mtx Hn HM.
  - destruct f; mtx Hn HM.
  - destruct (busy nb (c_thr c) (rehash nb k)) eqn:Eb; cbn [negb]; mtx Hn HM.
  - destruct f; [|mtx Hn HM]. destruct (c_tab c k); mtx Hn HM.
  - mtx Hn HM.
Qed.

Lemma mutex_init nb progs : Mutex nb (init progs).
Proof.
  intros u v x y b Hu _ Hx. cbn in Hu. apply nth_error_In, in_map_iff in Hu. destruct Hu as (o & <- & _). discriminate.
Qed.

Theorem mutex_run nb progs sched : Mutex nb (run nb progs sched).
Proof. unfold run. apply fold_left_inv; [intros a b; apply mutex_step|apply mutex_init]. Qed.
