(* Consequences of the interleaving invariant (RepoInv.v) for every run of the model:
   any number of threads, any protocol-respecting programs, any schedule. *)
From PV Require Import Base.Tac Base.ListX Repo.RepoDefs Repo.RepoSum Repo.RepoInv.
Local Open Scope Z_scope.

(* announced-and-granted uses minus uses, over the whole programs *)
Definition total_promised (progs : list (list op)) (q : N) : Z := sumZ (fprom q) progs.
Definition total_uses (progs : list (list op)) (q : N) : Z := sumZ (fuse q) progs.
Definition surplus (progs : list (list op)) (q : N) : Z := total_promised progs q - total_uses progs q.

Definition protocol (progs : list (list op)) : Prop := Forall (wf_prog []) progs.

(* the client-level reason for an entry to exist: a creator holds it (between the retained++ of its
   create and the retained-- of its addto), or a use that was granted has not been counted yet *)
Definition needed (c : cfg) (q : N) : Prop := 0 < holders c q \/ 0 < inflight c q \/ 0 < c_bud c q.

Lemma sumZ_map_eq {A B} (g : B -> A) (f : A -> Z) l : sumZ f (map g l) = sumZ (fun x => f (g x)) l.
Proof. induction l as [|x l IH]; [reflexivity|]. cbn [map]. rewrite !sumZ_cons, IH. reflexivity. Qed.

Lemma inv_init progs : protocol progs -> Inv (surplus progs) (init progs).
Proof.
  intros Hp. unfold init.
  assert (Hz : forall (m : N -> thread -> Z) q, (forall o, m q (mk PIdle o []) = 0) ->
               sumZ (m q) (map (fun o => mk PIdle o []) progs) = 0).
  { intros m q Hm. apply sumZ_zero_all. intros x Hx. apply in_map_iff in Hx. destruct Hx as (o & <- & _). apply Hm. }
  constructor; cbn [c_crash c_log c_thr c_tab c_bud]; try reflexivity.
  - apply Forall_forall. intros x Hx. apply in_map_iff in Hx. destruct Hx as (o & <- & Ho).
    unfold protocol in Hp. rewrite Forall_forall in Hp. split; [constructor|]. cbn. apply Hp, Ho.
  - intros q. unfold holders. cbn [c_thr fld]. rewrite Hz; reflexivity.
  - intros q. unfold inflight, ungranted, promised. cbn [c_thr fld]. rewrite !Hz; reflexivity.
  - intros q e H; discriminate.
  - intros q. rewrite Hz by reflexivity. rewrite !sumZ_map_eq. unfold surplus, total_promised, total_uses.
    unfold m_fprom, m_fuse. cbn [t_ops mk].
    change (fun x : list op => fprom q x) with (fprom q). change (fun x : list op => fuse q x) with (fuse q). lia.
Qed.

Theorem inv_run nb progs sched : protocol progs -> Inv (surplus progs) (run nb progs sched).
Proof.
  intros Hp. unfold run. apply fold_left_inv.
  - intros a b Ha. apply inv_step, Ha.
  - apply inv_init, Hp.
Qed.

Section Consequences.
Variable D : N -> Z.
Variable c : cfg.
Hypothesis HI : Inv D c.

Lemma no_holder_no_ungranted q : holders c q = 0 -> ungranted c q = 0.
Proof.
  apply sumZ_zero_transfer.
  - intros; apply m_hcnt_nonneg.
  - intros x Hx. apply m_gpend_held. apply (wf_in D c HI), Hx.
Qed.

Lemma present_iff_needed q : c_tab c q <> None <-> needed c q.
Proof.
  split.
  - intros Hp. destruct (c_tab c q) as [e|] eqn:Eq; [|congruence].
    pose proof (i_ret D c HI q) as Hr. pose proof (i_acc D c HI q) as Ha.
    pose proof (i_live D c HI q e Eq) as Hl. rewrite Eq in Hr, Ha. cbn [fld] in Hr, Ha.
    pose proof (holders_nonneg c q). pose proof (inflight_nonneg c q). pose proof (i_bud D c HI q).
    unfold needed.
    destruct (Z.eq_dec (holders c q) 0) as [Hz|Hz]; [|lia].
    pose proof (no_holder_no_promise c q Hz). pose proof (no_holder_no_ungranted q Hz). lia.
  - intros Hn Habs. destruct (absent_unused D c HI q Habs) as (A1 & _ & A3 & A4 & _).
    unfold needed in Hn. lia.
Qed.

(* retained counts the holders; usagecnt plus what is outstanding equals usagelmt plus what
   the holders still have to announce *)
Lemma fields_account q e : c_tab c q = Some e ->
  e_ret e = holders c q /\
  e_cnt e + inflight c q + c_bud c q + ungranted c q = e_lmt e + promised c q.
Proof.
  intros Eq. pose proof (i_ret D c HI q) as Hr. pose proof (i_acc D c HI q) as Ha.
  rewrite Eq in Hr, Ha. cbn [fld] in Hr, Ha. split; assumption.
Qed.

Lemma present_while q e : c_tab c q = Some e -> 0 < e_ret e \/ e_cnt e < e_lmt e.
Proof.
  intros Eq. destruct (fields_account q e Eq) as [Hr Ha]. pose proof (i_live D c HI q e Eq) as Hl.
  pose proof (holders_nonneg c q). pose proof (inflight_nonneg c q). pose proof (i_bud D c HI q).
  pose proof (ungranted_nonneg D c HI q).
  destruct (Z.eq_dec (holders c q) 0) as [Hz|Hz]; [|lia].
  pose proof (no_holder_no_promise c q Hz). lia.
Qed.

Lemma done_thread th : t_done th = true -> wf_thread th ->
  forall q, m_hcnt q th = 0 /\ m_uinf q th = 0 /\ m_qpend q th = 0 /\ m_fprom q th = 0 /\ m_fuse q th = 0.
Proof.
  destruct th as [p ops held]. unfold t_done, wf_thread. cbn [t_pc t_ops t_held].
  destruct p; try discriminate. destruct ops; try discriminate. intros _ [_ Hh] q. cbn in Hh. subst held.
  repeat split.
Qed.

Lemma quiescent q : all_done c = true -> (c_tab c q <> None <-> 0 < D q).
Proof.
  intros Hd. unfold all_done in Hd. rewrite forallb_forall in Hd.
  assert (Hz : forall m : N -> thread -> Z,
             (forall th, t_done th = true -> wf_thread th -> m q th = 0) -> sumZ (m q) (c_thr c) = 0).
  { intros m Hm. apply sumZ_zero_all. intros x Hx. apply Hm; [apply Hd, Hx|apply (wf_in D c HI), Hx]. }
  pose proof (i_tot D c HI q) as Ht.
  rewrite (Hz m_qpend), (Hz m_fprom), (Hz m_fuse) in Ht by (intros th H1 H2; apply (done_thread th H1 H2 q)).
  rewrite present_iff_needed. unfold needed, holders, inflight.
  rewrite (Hz m_hcnt), (Hz m_uinf) by (intros th H1 H2; apply (done_thread th H1 H2 q)).
  split; [intros [H|[H|H]]; lia|intros; right; right; lia].
Qed.
End Consequences.

(* ---- the statements over runs ---- *)
Section Runs.
Variables (nb : N) (progs : list (list op)) (sched : list nat).
Hypothesis Hp : protocol progs.
Let c := run nb progs sched.

Theorem run_present_iff_needed q : c_tab c q <> None <-> needed c q.
Proof. apply (present_iff_needed _ _ (inv_run nb progs sched Hp)). Qed.

Theorem run_fields_account q e : c_tab c q = Some e ->
  e_ret e = holders c q /\
  e_cnt e + inflight c q + c_bud c q + ungranted c q = e_lmt e + promised c q.
Proof. apply (fields_account _ _ (inv_run nb progs sched Hp)). Qed.

Theorem run_present_while q e : c_tab c q = Some e -> 0 < e_ret e \/ e_cnt e < e_lmt e.
Proof. apply (present_while _ _ (inv_run nb progs sched Hp)). Qed.

(* whatever thread moves next: the entry disappears in that very step exactly when the step makes
   it unneeded (last holder gone and last granted use counted) *)
Theorem run_reclaimed_in_the_step t q :
  (c_tab c q <> None -> ~ needed (step nb c t) q -> c_tab (step nb c t) q = None) /\
  (c_tab c q <> None -> c_tab (step nb c t) q = None -> needed c q /\ ~ needed (step nb c t) q).
Proof.
  assert (H1 : Inv (surplus progs) c) by apply (inv_run nb progs sched Hp).
  assert (H2 : Inv (surplus progs) (step nb c t)) by apply inv_step, H1.
  pose proof (present_iff_needed _ _ H1 q) as P1. pose proof (present_iff_needed _ _ H2 q) as P2.
  split.
  - intros Hpre Hnn. destruct (c_tab (step nb c t) q) eqn:E; [|reflexivity].
    exfalso. apply Hnn, P2. congruence.
  - intros Hpre Habs. split; [apply P1, Hpre|]. intros Hn. apply P2 in Hn. congruence.
Qed.

Theorem run_no_missing : bad c = false /\ c_crash c = false.
Proof. pose proof (inv_run nb progs sched Hp) as H. split; [apply (i_bad _ _ H)|apply (i_crash _ _ H)]. Qed.

Theorem run_quiescent q : all_done c = true -> (c_tab c q <> None <-> 0 < surplus progs q).
Proof. apply (quiescent _ _ (inv_run nb progs sched Hp)). Qed.

Theorem run_quiescent_empty : all_done c = true -> (forall q, total_uses progs q = total_promised progs q) ->
  forall q, c_tab c q = None.
Proof.
  intros Hd Hall q. destruct (c_tab c q) eqn:E; [|reflexivity]. exfalso.
  assert (H : c_tab c q <> None) by congruence. apply (run_quiescent q Hd) in H.
  unfold surplus in H. rewrite Hall in H. lia.
Qed.
End Runs.
