(* Executable atomic-step model of the data repository of parsec/datarepo.c
     data_repo_lookup_entry, __data_repo_lookup_entry_and_create,
     __data_repo_entry_addto_usage_limit, __data_repo_entry_used_once
   on top of the bucket locks of parsec/class/parsec_hash_table.c, together with the
   client protocol of the generated code (jdf2c.c) as ghost state.  NO proofs here.

   A configuration holds the table  key -> entry (id, usagecnt, usagelmt, retained),
   the ghost grant budget per key, the next incarnation id, the event log, and one record
   per thread (program counter, remaining operations, ghost list of the sessions it holds).
   One step = the code of one thread between two scheduling points, and the scheduling
   points are exactly where the C takes or drops a bucket lock or performs an atomic
   read-modify-write:

     lookup_entry            | lock ; find | unlock
     lookup_entry_and_create | lock ; find ; (retained++) | unlock ; [allocate ; init |
                               lock ; find again ; (free own ; retained++  or  insert) | unlock]
     addto_usage_limit       | lock ; find ; read usagelmt | CAS usagelmt ; retained-- ;
                               test ; (remove) | unlock ; (mempool free)
     used_once               | lock ; find | fetch_inc usagecnt ; test ; (remove) |
                               unlock ; (mempool free)

   A thread that finds the bucket lock taken stutters (the configuration is unchanged).
   A bucket is locked exactly when some thread's program counter is inside one of the
   critical sections of a key hashing to it, so the lock word itself is not stored.

   Client protocol (ghost, not in datarepo.c): a creator that will announce p uses carries
   p in its create operation; when create has returned it may enable up to p consumers
   (budget += p); a use starts by taking one grant (it waits while there is none), then
   looks the entry up and calls used_once, as the generated code does.                    *)
From Coq Require Import ZArith NArith List Bool.
From PV Require Import Base.ListX.
Import ListNotations.
Local Open Scope Z_scope.

Record entry := { e_id : nat; e_cnt : Z; e_lmt : Z; e_ret : Z }.

Inductive op :=
| OLook   (k : N)             (* data_repo_lookup_entry *)
| OCreate (k : N) (p : Z)     (* data_repo_lookup_entry_and_create; p = uses this creator will announce (ghost) *)
| OAddto  (k : N) (n : Z)     (* data_repo_entry_addto_usage_limit(k, n) *)
| OUse    (k : N).            (* take a grant; data_repo_lookup_entry; data_repo_entry_used_once *)

Inductive pc :=
| PIdle                                           (* between two operations *)
| PLk1 (k : N) | PLk2 (k : N) (r : option entry)
| PCr1 (k : N) (p : Z)                            (* about to take the bucket lock (first time) *)
| PCr2f (k : N) (p : Z) (id : nat)                (* found, retained++ done, about to unlock *)
| PCr2m (k : N) (p : Z)                           (* not found, about to unlock and allocate *)
| PCr3 (k : N) (p : Z) (id : nat)                 (* own entry id allocated, about to lock again *)
| PCr4 (k : N) (p : Z) (id : nat) (fresh : bool)  (* inserted own (fresh) or found e2, about to unlock *)
| PAd1 (k : N) (n : Z)
| PAd2 (k : N) (n : Z) (ov : Z)                   (* holds the lock, about to CAS usagelmt from ov *)
| PAd3 (k : N) (n : Z) (fr : option nat)          (* about to unlock (and free entry fr) *)
| PUs1 (k : N) | PUs2 (k : N) (f : bool)          (* lookup_entry part of a use *)
| PUs3 (k : N) | PUs4 (k : N) (f : bool)          (* used_once: about to lock / about to fetch_inc *)
| PUs5 (k : N) (fr : option nat).

Inductive event :=
| EvCreate  (t : nat) (k : N) (id : nat) (fresh : bool)
| EvDiscard (t : nat) (id : nat)
| EvAddto   (t : nat) (k : N) (n : Z)
| EvReclaim (t : nat) (k : N) (id : nat)
| EvUse     (t : nat) (k : N)
| EvMiss    (t : nat) (k : N)
| EvLook    (t : nat) (k : N) (r : option entry)
| EvCrash   (t : nat).

Record thread := { t_pc : pc; t_ops : list op; t_held : list (N * Z) }.

Record cfg := {
  c_tab   : N -> option entry;    (* the hash table *)
  c_bud   : N -> Z;               (* ghost: grants not yet taken *)
  c_next  : nat;                  (* next incarnation id (allocation order) *)
  c_log   : list event;           (* newest first *)
  c_crash : bool;                 (* a NULL entry was dereferenced: nothing runs any more *)
  c_thr   : list thread }.

Definition fupd {A} (f : N -> A) (k : N) (v : A) : N -> A :=
  fun x => if N.eqb x k then v else f x.

(* parsec_hash_table_universal_rehash with the generic 64-bit key hash (identity) *)
Local Open Scope N_scope.
Definition rehash (nb k : N) : N :=
  let k32 := N.lxor (N.shiftr k 32) k in
  ((11718908744026 * k32 + 24594139446420) mod (N.shiftl 1 (32 + nb))) / (N.shiftl 1 32).
Local Open Scope Z_scope.

(* the key whose bucket lock a thread holds *)
Definition cs_key (p : pc) : option N :=
  match p with
  | PLk2 k _ | PCr2f k _ _ | PCr2m k _ | PCr4 k _ _ _ | PAd2 k _ _ | PAd3 k _ _
  | PUs2 k _ | PUs4 k _ | PUs5 k _ => Some k
  | _ => None
  end.
Definition holds_bucket (nb b : N) (th : thread) : bool :=
  match cs_key (t_pc th) with Some k => N.eqb (rehash nb k) b | None => false end.
Definition busy (nb : N) (thr : list thread) (b : N) : bool := existsb (holds_bucket nb b) thr.

Definition pair_eqb (a b : N * Z) : bool := N.eqb (fst a) (fst b) && Z.eqb (snd a) (snd b).
Fixpoint rm1 (x : N * Z) (l : list (N * Z)) : list (N * Z) :=
  match l with
  | [] => []
  | y :: r => if pair_eqb x y then r else y :: rm1 x r
  end.

Definition is_some {A} (o : option A) : bool := match o with Some _ => true | None => false end.
Definition reclaim_ev (t : nat) (k : N) (fr : option nat) : list event :=
  match fr with Some id => [EvReclaim t k id] | None => [] end.

Definition set_thr (c : cfg) (t : nat) (th : thread) : list thread := upd (c_thr c) t th.
Definition crash (c : cfg) (t : nat) : cfg :=
  {| c_tab := c_tab c; c_bud := c_bud c; c_next := c_next c; c_log := EvCrash t :: c_log c;
     c_crash := true; c_thr := c_thr c |}.
(* only the thread record changes *)
Definition move (c : cfg) (t : nat) (th : thread) : cfg :=
  {| c_tab := c_tab c; c_bud := c_bud c; c_next := c_next c; c_log := c_log c;
     c_crash := c_crash c; c_thr := set_thr c t th |}.
Definition mk (p : pc) (o : list op) (h : list (N * Z)) : thread := {| t_pc := p; t_ops := o; t_held := h |}.

Definition step_thread (nb : N) (c : cfg) (t : nat) (th : thread) : cfg :=
  let ops := t_ops th in let held := t_held th in
  let free b := negb (busy nb (c_thr c) (rehash nb b)) in
  match t_pc th with
  | PIdle =>
      match ops with
      | [] => c
      | OLook k :: r => move c t (mk (PLk1 k) r held)
      | OCreate k p :: r => move c t (mk (PCr1 k p) r held)
      | OAddto k n :: r => move c t (mk (PAd1 k n) r held)
      | OUse k :: r =>
          if 0 <? c_bud c k
          then {| c_tab := c_tab c; c_bud := fupd (c_bud c) k (c_bud c k - 1); c_next := c_next c;
                  c_log := c_log c; c_crash := c_crash c; c_thr := set_thr c t (mk (PUs1 k) r held) |}
          else c
      end
  (* ---- data_repo_lookup_entry ---- *)
  | PLk1 k => if free k then move c t (mk (PLk2 k (c_tab c k)) ops held) else c
  | PLk2 k r =>
      {| c_tab := c_tab c; c_bud := c_bud c; c_next := c_next c; c_log := EvLook t k r :: c_log c;
         c_crash := c_crash c; c_thr := set_thr c t (mk PIdle ops held) |}
  (* ---- __data_repo_lookup_entry_and_create ---- *)
  | PCr1 k p =>
      if free k then
        match c_tab c k with
        | Some e =>
            {| c_tab := fupd (c_tab c) k (Some {| e_id := e_id e; e_cnt := e_cnt e; e_lmt := e_lmt e; e_ret := e_ret e + 1 |});
               c_bud := c_bud c; c_next := c_next c; c_log := c_log c; c_crash := c_crash c;
               c_thr := set_thr c t (mk (PCr2f k p (e_id e)) ops ((k, p) :: held)) |}
        | None => move c t (mk (PCr2m k p) ops held)
        end
      else c
  | PCr2f k p id =>
      {| c_tab := c_tab c; c_bud := fupd (c_bud c) k (c_bud c k + p); c_next := c_next c;
         c_log := EvCreate t k id false :: c_log c; c_crash := c_crash c;
         c_thr := set_thr c t (mk PIdle ops held) |}
  | PCr2m k p =>
      {| c_tab := c_tab c; c_bud := c_bud c; c_next := S (c_next c); c_log := c_log c;
         c_crash := c_crash c; c_thr := set_thr c t (mk (PCr3 k p (c_next c)) ops held) |}
  | PCr3 k p id =>
      if free k then
        match c_tab c k with
        | Some e =>
            {| c_tab := fupd (c_tab c) k (Some {| e_id := e_id e; e_cnt := e_cnt e; e_lmt := e_lmt e; e_ret := e_ret e + 1 |});
               c_bud := c_bud c; c_next := c_next c; c_log := EvDiscard t id :: c_log c; c_crash := c_crash c;
               c_thr := set_thr c t (mk (PCr4 k p (e_id e) false) ops ((k, p) :: held)) |}
        | None =>
            {| c_tab := fupd (c_tab c) k (Some {| e_id := id; e_cnt := 0; e_lmt := 0; e_ret := 1 |});
               c_bud := c_bud c; c_next := c_next c; c_log := c_log c; c_crash := c_crash c;
               c_thr := set_thr c t (mk (PCr4 k p id true) ops ((k, p) :: held)) |}
        end
      else c
  | PCr4 k p id fresh =>
      {| c_tab := c_tab c; c_bud := fupd (c_bud c) k (c_bud c k + p); c_next := c_next c;
         c_log := EvCreate t k id fresh :: c_log c; c_crash := c_crash c;
         c_thr := set_thr c t (mk PIdle ops held) |}
  (* ---- __data_repo_entry_addto_usage_limit ---- *)
  | PAd1 k n =>
      if free k then
        match c_tab c k with
        | Some e => move c t (mk (PAd2 k n (e_lmt e)) ops held)
        | None => crash c t                      (* assert compiled out: e->usagelmt on NULL *)
        end
      else c
  | PAd2 k n ov =>
      match c_tab c k with
      | None => crash c t
      | Some e =>
          if e_lmt e =? ov then
            let lmt := ov + n in let ret := e_ret e - 1 in
            let gone := (lmt =? e_cnt e) && (ret =? 0) in
            {| c_tab := fupd (c_tab c) k
                          (if gone then None
                           else Some {| e_id := e_id e; e_cnt := e_cnt e; e_lmt := lmt; e_ret := ret |});
               c_bud := c_bud c; c_next := c_next c; c_log := c_log c; c_crash := c_crash c;
               c_thr := set_thr c t (mk (PAd3 k n (if gone then Some (e_id e) else None)) ops (rm1 (k, n) held)) |}
          else move c t (mk (PAd2 k n (e_lmt e)) ops held)
      end
  | PAd3 k n fr =>
      {| c_tab := c_tab c; c_bud := c_bud c; c_next := c_next c;
         c_log := EvAddto t k n :: reclaim_ev t k fr ++ c_log c; c_crash := c_crash c;
         c_thr := set_thr c t (mk PIdle ops held) |}
  (* ---- a use: data_repo_lookup_entry, then __data_repo_entry_used_once ---- *)
  | PUs1 k => if free k then move c t (mk (PUs2 k (is_some (c_tab c k))) ops held) else c
  | PUs2 k f =>
      if f then move c t (mk (PUs3 k) ops held)
      else {| c_tab := c_tab c; c_bud := c_bud c; c_next := c_next c; c_log := EvMiss t k :: c_log c;
              c_crash := c_crash c; c_thr := set_thr c t (mk PIdle ops held) |}
  | PUs3 k => if free k then move c t (mk (PUs4 k (is_some (c_tab c k))) ops held) else c
  | PUs4 k f =>
      match f, c_tab c k with
      | true, Some e =>
          let cnt := e_cnt e + 1 in
          let gone := (e_lmt e =? cnt) && (e_ret e =? 0) in
          {| c_tab := fupd (c_tab c) k
                        (if gone then None
                         else Some {| e_id := e_id e; e_cnt := cnt; e_lmt := e_lmt e; e_ret := e_ret e |});
             c_bud := c_bud c; c_next := c_next c; c_log := c_log c; c_crash := c_crash c;
             c_thr := set_thr c t (mk (PUs5 k (if gone then Some (e_id e) else None)) ops held) |}
      | _, _ => crash c t                        (* assert compiled out: &e->usagecnt on NULL *)
      end
  | PUs5 k fr =>
      {| c_tab := c_tab c; c_bud := c_bud c; c_next := c_next c;
         c_log := EvUse t k :: reclaim_ev t k fr ++ c_log c; c_crash := c_crash c;
         c_thr := set_thr c t (mk PIdle ops held) |}
  end.

Definition step (nb : N) (c : cfg) (t : nat) : cfg :=
  if c_crash c then c
  else match nth_error (c_thr c) t with
       | None => c
       | Some th => step_thread nb c t th
       end.

Definition init (progs : list (list op)) : cfg :=
  {| c_tab := fun _ => None; c_bud := fun _ => 0; c_next := 0%nat; c_log := []; c_crash := false;
     c_thr := map (fun o => mk PIdle o []) progs |}.
Definition run (nb : N) (progs : list (list op)) (sched : list nat) : cfg :=
  fold_left (step nb) sched (init progs).

Definition t_done (th : thread) : bool :=
  match t_pc th, t_ops th with PIdle, [] => true | _, _ => false end.
Definition all_done (c : cfg) : bool := forallb t_done (c_thr c).

(* ---- observations ---- *)
Definition ev_bad (e : event) : bool :=
  match e with EvMiss _ _ | EvCrash _ => true | _ => false end.
Definition ev_freed (e : event) : list nat :=
  match e with EvReclaim _ _ id => [id] | EvDiscard _ id => [id] | _ => [] end.
Definition freed (c : cfg) : list nat := flat_map ev_freed (c_log c).
Definition bad (c : cfg) : bool := existsb ev_bad (c_log c).

(* ---- the sequential specification: one operation executed atomically ---- *)
Definition seq_create (tab : N -> option entry) (next : nat) (k : N) : (N -> option entry) * nat * nat * bool :=
  match tab k with
  | Some e => (fupd tab k (Some {| e_id := e_id e; e_cnt := e_cnt e; e_lmt := e_lmt e; e_ret := e_ret e + 1 |}),
               next, e_id e, false)
  | None => (fupd tab k (Some {| e_id := next; e_cnt := 0; e_lmt := 0; e_ret := 1 |}), S next, next, true)
  end.
Definition seq_addto (tab : N -> option entry) (k : N) (n : Z) : option ((N -> option entry) * option nat) :=
  match tab k with
  | None => None
  | Some e =>
      let lmt := e_lmt e + n in let ret := e_ret e - 1 in
      if (lmt =? e_cnt e) && (ret =? 0) then Some (fupd tab k None, Some (e_id e))
      else Some (fupd tab k (Some {| e_id := e_id e; e_cnt := e_cnt e; e_lmt := lmt; e_ret := ret |}), None)
  end.
Definition seq_use (tab : N -> option entry) (k : N) : option ((N -> option entry) * option nat) :=
  match tab k with
  | None => None
  | Some e =>
      let cnt := e_cnt e + 1 in
      if (e_lmt e =? cnt) && (e_ret e =? 0) then Some (fupd tab k None, Some (e_id e))
      else Some (fupd tab k (Some {| e_id := e_id e; e_cnt := cnt; e_lmt := e_lmt e; e_ret := e_ret e |}), None)
  end.
