(* The interleaving invariant of the data repository model: for programs obeying the client
   protocol, every step of every thread preserves the accounting that ties the entry fields
   (usagecnt, usagelmt, retained) to the ghost client state (sessions held, grants, uses in
   flight).  Lifted to every schedule with fold_left_inv. *)
From PV Require Import Base.Tac Base.ListX Repo.RepoDefs Repo.RepoSum.
Local Open Scope Z_scope.

Definition ind (b : bool) (v : Z) : Z := if b then v else 0.

(* ---- measures of the ghost list of held sessions ---- *)
Fixpoint hcount (q : N) (l : list (N * Z)) : Z :=
  match l with [] => 0 | (k, _) :: r => ind (N.eqb q k) 1 + hcount q r end.
Fixpoint hsum (q : N) (l : list (N * Z)) : Z :=
  match l with [] => 0 | (k, p) :: r => ind (N.eqb q k) p + hsum q r end.
Definition hnonneg (l : list (N * Z)) : Prop := Forall (fun kp => 0 <= snd kp) l.

Lemma hcount_nonneg q l : 0 <= hcount q l.
Proof. induction l as [|[k p] l IH]; cbn [hcount]; [lia|]. unfold ind. destruct (N.eqb q k); lia. Qed.
Lemma hsum_nonneg q l : hnonneg l -> 0 <= hsum q l.
Proof. induction 1 as [|[k p] l Hp _ IH]; cbn [hsum]; [lia|]. cbn in Hp. unfold ind. destruct (N.eqb q k); lia. Qed.
Lemma hcount0_hsum0 q l : hcount q l = 0 -> hsum q l = 0.
Proof.
  induction l as [|[k p] l IH]; cbn [hcount hsum]; [reflexivity|].
  pose proof (hcount_nonneg q l). unfold ind. destruct (N.eqb q k); intros; [lia|]. rewrite IH; lia.
Qed.
Lemma hcount_in k n l : In (k, n) l -> 1 <= hcount k l.
Proof.
  induction l as [|[k' p] l IH]; [intros []|]. intros [H|H]; cbn [hcount].
  - inversion H; subst. rewrite N.eqb_refl. unfold ind. pose proof (hcount_nonneg k l). lia.
  - pose proof (IH H). unfold ind. destruct (N.eqb k k'); lia.
Qed.
Lemma pair_eqb_spec x y : pair_eqb x y = true <-> x = y.
Proof.
  destruct x as [a b], y as [c d]. unfold pair_eqb. cbn [fst snd].
  rewrite andb_true_iff, N.eqb_eq, Z.eqb_eq. split; [intros [-> ->]; reflexivity|intros H; inversion H; auto].
Qed.
Lemma rm1_measures q k n l : In (k, n) l ->
  hcount q (rm1 (k, n) l) = hcount q l - ind (N.eqb q k) 1 /\
  hsum q (rm1 (k, n) l) = hsum q l - ind (N.eqb q k) n.
Proof.
  induction l as [|[k' p] l IH]; [intros []|]. intros Hin. cbn [rm1].
  destruct (pair_eqb (k, n) (k', p)) eqn:E.
  - apply pair_eqb_spec in E. inversion E; subst. cbn [hcount hsum]. lia.
  - destruct Hin as [H|H]; [inversion H; subst; rewrite (proj2 (pair_eqb_spec _ _) eq_refl) in E; discriminate|].
    destruct (IH H) as [A B]. cbn [hcount hsum]. lia.
Qed.
Lemma rm1_nonneg x l : hnonneg l -> hnonneg (rm1 x l).
Proof.
  induction 1 as [|y l Hy Hl IH]; cbn [rm1]; [constructor|].
  destruct (pair_eqb x y); [exact Hl|constructor; assumption].
Qed.

(* ---- measures of the remaining program ---- *)
Fixpoint fprom (q : N) (ops : list op) : Z :=
  match ops with [] => 0 | OCreate k p :: r => ind (N.eqb q k) p + fprom q r | _ :: r => fprom q r end.
Fixpoint fuse (q : N) (ops : list op) : Z :=
  match ops with [] => 0 | OUse k :: r => ind (N.eqb q k) 1 + fuse q r | _ :: r => fuse q r end.

(* the client protocol of one thread: every addto closes a session this thread opened with the
   announced amount; promises are not negative; nothing stays open at the end *)
Fixpoint wf_prog (held : list (N * Z)) (ops : list op) : Prop :=
  match ops with
  | [] => held = []
  | OCreate k p :: r => 0 <= p /\ wf_prog ((k, p) :: held) r
  | OAddto k n :: r => In (k, n) held /\ wf_prog (rm1 (k, n) held) r
  | _ :: r => wf_prog held r
  end.

Definition wf_thread (th : thread) : Prop :=
  let held := t_held th in let ops := t_ops th in
  hnonneg held /\
  match t_pc th with
  | PUs2 _ f | PUs4 _ f => f = true /\ wf_prog held ops
  | PCr1 k p | PCr2m k p | PCr3 k p _ => 0 <= p /\ wf_prog ((k, p) :: held) ops
  | PCr2f k p _ | PCr4 k p _ _ => 0 <= p /\ In (k, p) held /\ wf_prog held ops
  | PAd1 k n | PAd2 k n _ => In (k, n) held /\ wf_prog (rm1 (k, n) held) ops
  | _ => wf_prog held ops
  end.

(* ---- per-thread measures for a key q ---- *)
Definition m_hcnt (q : N) (th : thread) : Z := hcount q (t_held th).
Definition m_hsum (q : N) (th : thread) : Z := hsum q (t_held th).
(* a use that took its grant and has not incremented usagecnt yet *)
Definition m_uinf (q : N) (th : thread) : Z :=
  match t_pc th with PUs1 k | PUs2 k _ | PUs3 k | PUs4 k _ => ind (N.eqb q k) 1 | _ => 0 end.
(* a creator that retains the entry but has not returned (its grants are not out yet) *)
Definition m_gpend (q : N) (th : thread) : Z :=
  match t_pc th with PCr2f k p _ | PCr4 k p _ _ => ind (N.eqb q k) p | _ => 0 end.
Definition m_qpend (q : N) (th : thread) : Z :=
  match t_pc th with
  | PCr1 k p | PCr2f k p _ | PCr2m k p | PCr3 k p _ | PCr4 k p _ _ => ind (N.eqb q k) p
  | _ => 0 end.
Definition m_fprom (q : N) (th : thread) : Z := fprom q (t_ops th).
Definition m_fuse (q : N) (th : thread) : Z := fuse q (t_ops th).

Definition fld (f : entry -> Z) (o : option entry) : Z := match o with Some e => f e | None => 0 end.

Definition holders (c : cfg) (q : N) : Z := sumZ (m_hcnt q) (c_thr c).
Definition promised (c : cfg) (q : N) : Z := sumZ (m_hsum q) (c_thr c).
Definition inflight (c : cfg) (q : N) : Z := sumZ (m_uinf q) (c_thr c).
Definition ungranted (c : cfg) (q : N) : Z := sumZ (m_gpend q) (c_thr c).

Record Inv (D : N -> Z) (c : cfg) : Prop := {
  i_crash : c_crash c = false;
  i_bad   : bad c = false;
  i_wf    : Forall wf_thread (c_thr c);
  i_bud   : forall q, 0 <= c_bud c q;
  i_ret   : forall q, fld e_ret (c_tab c q) = holders c q;
  i_acc   : forall q, fld e_cnt (c_tab c q) + inflight c q + c_bud c q + ungranted c q
                      = fld e_lmt (c_tab c q) + promised c q;
  i_live  : forall q e, c_tab c q = Some e -> ~ (e_ret e = 0 /\ e_cnt e = e_lmt e);
  i_tot   : forall q, c_bud c q + sumZ (m_qpend q) (c_thr c) + sumZ (m_fprom q) (c_thr c)
                      - sumZ (m_fuse q) (c_thr c) = D q }.

(* ---- non-negativity of the measures under wf_thread ---- *)
Lemma m_hcnt_nonneg q th : 0 <= m_hcnt q th. Proof. apply hcount_nonneg. Qed.
Lemma m_hsum_nonneg q th : wf_thread th -> 0 <= m_hsum q th.
Proof. intros [H _]. apply hsum_nonneg, H. Qed.
Lemma m_uinf_nonneg q th : 0 <= m_uinf q th.
Proof. unfold m_uinf, ind. destruct (t_pc th); try lia; destruct (N.eqb q k); lia. Qed.
Lemma m_gpend_nonneg q th : wf_thread th -> 0 <= m_gpend q th.
Proof. unfold wf_thread, m_gpend, ind. intros [_ H]. destruct (t_pc th); try lia; destruct (N.eqb q k); lia. Qed.
Lemma m_gpend_held q th : wf_thread th -> m_hcnt q th = 0 -> m_gpend q th = 0.
Proof.
  unfold wf_thread, m_gpend, m_hcnt, ind. intros [_ H] H0.
  destruct (t_pc th); try reflexivity; destruct (N.eqb_spec q k) as [->|]; try reflexivity;
    destruct H as (_ & Hin & _); pose proof (hcount_in _ _ _ Hin); lia.
Qed.

Section Facts.
Variable D : N -> Z.
Variable c : cfg.
Hypothesis HI : Inv D c.

Lemma wf_in th : In th (c_thr c) -> wf_thread th.
Proof. pose proof (i_wf D c HI) as H. rewrite Forall_forall in H. apply H. Qed.

Lemma holders_nonneg q : 0 <= holders c q.
Proof. apply sumZ_nonneg. intros; apply m_hcnt_nonneg. Qed.
Lemma promised_nonneg q : 0 <= promised c q.
Proof. apply sumZ_nonneg. intros x Hx. apply m_hsum_nonneg, wf_in, Hx. Qed.
Lemma inflight_nonneg q : 0 <= inflight c q.
Proof. apply sumZ_nonneg. intros; apply m_uinf_nonneg. Qed.
Lemma ungranted_nonneg q : 0 <= ungranted c q.
Proof. apply sumZ_nonneg. intros x Hx. apply m_gpend_nonneg, wf_in, Hx. Qed.

Lemma no_holder_no_promise q : holders c q = 0 -> promised c q = 0.
Proof.
  apply sumZ_zero_transfer.
  - intros; apply m_hcnt_nonneg.
  - intros x _. apply hcount0_hsum0.
Qed.

(* an absent key has no holder, no use in flight, no grant *)
Lemma absent_unused q : c_tab c q = None ->
  holders c q = 0 /\ promised c q = 0 /\ inflight c q = 0 /\ c_bud c q = 0 /\ ungranted c q = 0.
Proof.
  intros Hn. pose proof (i_ret D c HI q) as Hr. pose proof (i_acc D c HI q) as Ha.
  rewrite Hn in Hr, Ha. cbn [fld] in Hr, Ha.
  assert (Hp : promised c q = 0) by (apply no_holder_no_promise; lia).
  pose proof (inflight_nonneg q). pose proof (ungranted_nonneg q). pose proof (i_bud D c HI q).
  repeat split; lia.
Qed.

Lemma present_of_holder q t th : nth_error (c_thr c) t = Some th -> 1 <= m_hcnt q th -> c_tab c q <> None.
Proof.
  intros Hn Hh Habs. destruct (absent_unused q Habs) as (H0 & _).
  pose proof (sumZ_ge_nth (m_hcnt q) (c_thr c) t th (fun x _ => m_hcnt_nonneg q x) Hn).
  unfold holders in H0. lia.
Qed.

Lemma present_of_user q t th : nth_error (c_thr c) t = Some th -> 1 <= m_uinf q th -> c_tab c q <> None.
Proof.
  intros Hn Hh Habs. destruct (absent_unused q Habs) as (_ & _ & H0 & _).
  pose proof (sumZ_ge_nth (m_uinf q) (c_thr c) t th (fun x _ => m_uinf_nonneg q x) Hn).
  unfold inflight in H0. lia.
Qed.
End Facts.

(* ---- one step preserves the invariant ---- *)
Lemma bad_cons e log : existsb ev_bad (e :: log) = ev_bad e || existsb ev_bad log.
Proof. reflexivity. Qed.

Ltac sums Hn :=
  unfold holders, promised, inflight, ungranted in *; cbn [move c_thr c_tab c_bud] in *; unfold set_thr in *;
  rewrite ?(sumZ_upd _ _ _ _ _ Hn);
  cbn [m_hcnt m_hsum m_uinf m_gpend m_qpend m_fprom m_fuse t_pc t_ops t_held mk hcount hsum fprom fuse].

Ltac simp := cbv iota beta in *; cbn [e_id e_cnt e_lmt e_ret] in *.
Ltac keysplit q k :=
  unfold fupd, fld, ind in *; cbn [e_id e_cnt e_lmt e_ret] in *;
  destruct (N.eqb_spec q k) as [->|?].

Section Step.
Variable D : N -> Z.
Variable nb : N.

Lemma inv_step c t : Inv D c -> Inv D (step nb c t).
Proof.
  intros HI. unfold step. rewrite (i_crash D c HI).
  destruct (nth_error (c_thr c) t) as [th|] eqn:Hn; [|exact HI].
  pose proof (Forall_nth _ _ _ _ (i_wf D c HI) Hn) as Hwf.
  pose proof (i_crash D c HI) as Hcr. pose proof (i_bad D c HI) as Hbad.
  pose proof (i_wf D c HI) as HW. pose proof (i_bud D c HI) as HB.
  pose proof (i_ret D c HI) as HR. pose proof (i_acc D c HI) as HA.
  pose proof (i_live D c HI) as HL. pose proof (i_tot D c HI) as HT.
  destruct th as [p ops held]. unfold step_thread. cbn [t_pc t_ops t_held].
  destruct Hwf as [Hnn Hwf]. cbn [t_pc t_ops t_held] in Hnn, Hwf.
  destruct p.
  - (* PIdle: start the next operation *)
    destruct ops as [|o r]; [exact HI|].
    destruct o as [k|k p|k n|k]; cbn [wf_prog] in Hwf.
    + constructor; cbn [move c_crash c_log c_thr c_tab c_bud]; auto.
      * apply Forall_upd; [exact HW|]. split; assumption.
      * intros q. specialize (HR q). sums Hn. lia.
      * intros q. specialize (HA q). sums Hn. lia.
      * intros q. specialize (HT q). sums Hn. lia.
    + constructor; cbn [move c_crash c_log c_thr c_tab c_bud]; auto.
      * apply Forall_upd; [exact HW|]. split; [assumption|]. cbn [t_pc mk]. exact Hwf.
      * intros q. specialize (HR q). sums Hn. lia.
      * intros q. specialize (HA q). sums Hn. lia.
      * intros q. specialize (HT q). sums Hn. lia.
    + constructor; cbn [move c_crash c_log c_thr c_tab c_bud]; auto.
      * apply Forall_upd; [exact HW|]. split; [assumption|]. cbn [t_pc mk]. exact Hwf.
      * intros q. specialize (HR q). sums Hn. lia.
      * intros q. specialize (HA q). sums Hn. lia.
      * intros q. specialize (HT q). sums Hn. lia.
    + destruct (0 <? c_bud c k) eqn:Eg; [|exact HI].
      constructor; cbn [c_crash c_log c_thr c_tab c_bud]; auto.
      * apply Forall_upd; [exact HW|]. split; assumption.
      * intros q. specialize (HB q). keysplit q k; lia.
      * intros q. specialize (HR q). sums Hn. lia.
      * intros q. specialize (HA q). sums Hn. keysplit q k; lia.
      * intros q. specialize (HT q). sums Hn. keysplit q k; lia.
  - (* PLk1 *)
    destruct (negb _); [|exact HI].
    constructor; cbn [move c_crash c_log c_thr c_tab c_bud]; auto.
    + apply Forall_upd; [exact HW|]. split; assumption.
    + intros q. specialize (HR q). sums Hn. lia.
    + intros q. specialize (HA q). sums Hn. lia.
    + intros q. specialize (HT q). sums Hn. lia.
  - (* PLk2 *)
    constructor; cbn [c_crash c_log c_thr c_tab c_bud]; auto.
    + apply Forall_upd; [exact HW|]. split; assumption.
    + intros q. specialize (HR q). sums Hn. lia.
    + intros q. specialize (HA q). sums Hn. lia.
    + intros q. specialize (HT q). sums Hn. lia.
  - (* PCr1: lock, find *)
    destruct (negb _); [|exact HI]. destruct Hwf as [Hp Hwf].
    destruct (c_tab c k) as [e|] eqn:Ek.
    + constructor; cbn [c_crash c_log c_thr c_tab c_bud]; auto.
      * apply Forall_upd; [exact HW|]. split; [constructor; assumption|]. cbn [t_pc t_held t_ops mk].
        repeat split; try assumption. left; reflexivity.
      * intros q. specialize (HR q). sums Hn. keysplit q k; [rewrite Ek in HR|]; simp; lia.
      * intros q. specialize (HA q). sums Hn. keysplit q k; [rewrite Ek in HA|]; simp; lia.
      * intros q e'. specialize (HL q). specialize (HR q). keysplit q k.
        -- intros He; inversion He; subst e'; clear He. cbn. rewrite Ek in HR. cbn in HR.
           pose proof (holders_nonneg c k). unfold holders in *. lia.
        -- apply HL.
      * intros q. specialize (HT q). sums Hn. lia.
    + constructor; cbn [move c_crash c_log c_thr c_tab c_bud]; auto.
      * apply Forall_upd; [exact HW|]. split; [assumption|]. cbn [t_pc mk]. split; assumption.
      * intros q. specialize (HR q). sums Hn. lia.
      * intros q. specialize (HA q). sums Hn. lia.
      * intros q. specialize (HT q). sums Hn. lia.
  - (* PCr2f: unlock, return, grant *)
    destruct Hwf as (Hp & Hin & Hwf).
    constructor; cbn [c_crash c_log c_thr c_tab c_bud]; auto.
    + apply Forall_upd; [exact HW|]. split; assumption.
    + intros q. specialize (HB q). keysplit q k; lia.
    + intros q. specialize (HR q). sums Hn. lia.
    + intros q. specialize (HA q). sums Hn. keysplit q k; lia.
    + intros q. specialize (HT q). sums Hn. keysplit q k; lia.
  - (* PCr2m: unlock, allocate *)
    destruct Hwf as [Hp Hwf].
    constructor; cbn [c_crash c_log c_thr c_tab c_bud]; auto.
    + apply Forall_upd; [exact HW|]. split; [assumption|]. cbn [t_pc mk]. split; assumption.
    + intros q. specialize (HR q). sums Hn. lia.
    + intros q. specialize (HA q). sums Hn. lia.
    + intros q. specialize (HT q). sums Hn. lia.
  - (* PCr3: lock again, find again, insert or give own entry back *)
    destruct (negb _); [|exact HI]. destruct Hwf as [Hp Hwf].
    destruct (c_tab c k) as [e|] eqn:Ek.
    + constructor; cbn [c_crash c_log c_thr c_tab c_bud]; auto.
      * apply Forall_upd; [exact HW|]. split; [constructor; assumption|]. cbn [t_pc t_held t_ops mk].
        repeat split; try assumption. left; reflexivity.
      * intros q. specialize (HR q). sums Hn. keysplit q k; [rewrite Ek in HR|]; simp; lia.
      * intros q. specialize (HA q). sums Hn. keysplit q k; [rewrite Ek in HA|]; simp; lia.
      * intros q e'. specialize (HL q). specialize (HR q). keysplit q k.
        -- intros He; inversion He; subst e'; clear He. cbn. rewrite Ek in HR. cbn in HR.
           pose proof (holders_nonneg c k). unfold holders in *. lia.
        -- apply HL.
      * intros q. specialize (HT q). sums Hn. lia.
    + destruct (absent_unused D c HI k Ek) as (A1 & A2 & A3 & A4 & A5).
      constructor; cbn [c_crash c_log c_thr c_tab c_bud]; auto.
      * apply Forall_upd; [exact HW|]. split; [constructor; assumption|]. cbn [t_pc t_held t_ops mk].
        repeat split; try assumption. left; reflexivity.
      * intros q. specialize (HR q). sums Hn. keysplit q k; [rewrite Ek in HR|]; simp; lia.
      * intros q. specialize (HA q). sums Hn. keysplit q k; [rewrite Ek in HA|]; simp; lia.
      * intros q e'. specialize (HL q). keysplit q k.
        -- intros He; inversion He; subst e'; clear He. cbn. lia.
        -- apply HL.
      * intros q. specialize (HT q). sums Hn. lia.
  - (* PCr4: unlock, return, grant *)
    destruct Hwf as (Hp & Hin & Hwf).
    constructor; cbn [c_crash c_log c_thr c_tab c_bud]; auto.
    + apply Forall_upd; [exact HW|]. split; assumption.
    + intros q. specialize (HB q). keysplit q k; lia.
    + intros q. specialize (HR q). sums Hn. lia.
    + intros q. specialize (HA q). sums Hn. keysplit q k; lia.
    + intros q. specialize (HT q). sums Hn. keysplit q k; lia.
  - (* PAd1: lock, find, read usagelmt *)
    destruct (negb _); [|exact HI]. destruct Hwf as [Hin Hwf].
    destruct (c_tab c k) as [e|] eqn:Ek.
    + constructor; cbn [move c_crash c_log c_thr c_tab c_bud]; auto.
      * apply Forall_upd; [exact HW|]. split; [assumption|]. cbn [t_pc mk]. split; assumption.
      * intros q. specialize (HR q). sums Hn. lia.
      * intros q. specialize (HA q). sums Hn. lia.
      * intros q. specialize (HT q). sums Hn. lia.
    + exfalso. apply (present_of_holder D c HI k t _ Hn); [|exact Ek].
      cbn [m_hcnt t_held]. apply (hcount_in _ _ _ Hin).
  - (* PAd2: CAS, retained--, test, remove *)
    destruct Hwf as [Hin Hwf].
    destruct (c_tab c k) as [e|] eqn:Ek.
    2:{ exfalso. apply (present_of_holder D c HI k t _ Hn); [|exact Ek].
        cbn [m_hcnt t_held]. apply (hcount_in _ _ _ Hin). }
    destruct (e_lmt e =? ov) eqn:Eov.
    + assert (Hrm : forall q, hcount q (rm1 (k, n) held) = hcount q held - ind (N.eqb q k) 1 /\
                              hsum q (rm1 (k, n) held) = hsum q held - ind (N.eqb q k) n)
        by (intros q; apply rm1_measures, Hin).
      constructor; cbn [c_crash c_log c_thr c_tab c_bud]; auto.
      * apply Forall_upd; [exact HW|]. split; [apply rm1_nonneg; assumption|]. cbn [t_pc mk]. exact Hwf.
      * intros q. specialize (HR q). destruct (Hrm q) as [R1 R2]. sums Hn. rewrite R1.
        destruct ((ov + n =? e_cnt e) && (e_ret e - 1 =? 0)) eqn:Eg;
          keysplit q k; try rewrite Ek in HR; simp; lia.
      * intros q. specialize (HA q). destruct (Hrm q) as [R1 R2]. sums Hn. rewrite R2.
        destruct ((ov + n =? e_cnt e) && (e_ret e - 1 =? 0)) eqn:Eg;
          keysplit q k; try rewrite Ek in HA; simp; lia.
      * intros q e'. specialize (HL q).
        destruct ((ov + n =? e_cnt e) && (e_ret e - 1 =? 0)) eqn:Eg; keysplit q k; try apply HL; try discriminate.
        intros He; inversion He; subst e'; clear He. cbn. lia.
      * intros q. specialize (HT q). sums Hn. lia.
    + constructor; cbn [move c_crash c_log c_thr c_tab c_bud]; auto.
      * apply Forall_upd; [exact HW|]. split; [assumption|]. cbn [t_pc mk]. split; assumption.
      * intros q. specialize (HR q). sums Hn. lia.
      * intros q. specialize (HA q). sums Hn. lia.
      * intros q. specialize (HT q). sums Hn. lia.
  - (* PAd3: unlock, free, return *)
    constructor; cbn [c_crash c_log c_thr c_tab c_bud]; auto.
    + unfold bad in *. cbn [c_log]. rewrite bad_cons. cbn [ev_bad orb]. rewrite existsb_app, Hbad.
      destruct fr; reflexivity.
    + apply Forall_upd; [exact HW|]. split; assumption.
    + intros q. specialize (HR q). sums Hn. lia.
    + intros q. specialize (HA q). sums Hn. lia.
    + intros q. specialize (HT q). sums Hn. lia.
  - (* PUs1: lookup part, lock + find *)
    destruct (negb _); [|exact HI].
    assert (Hpres : c_tab c k <> None).
    { apply (present_of_user D c HI k t _ Hn). cbn [m_uinf t_pc]. rewrite N.eqb_refl. cbn. lia. }
    constructor; cbn [move c_crash c_log c_thr c_tab c_bud]; auto.
    + apply Forall_upd; [exact HW|]. split; [assumption|]. cbn [t_pc mk]. split; [|assumption].
      destruct (c_tab c k); [reflexivity|congruence].
    + intros q. specialize (HR q). sums Hn. lia.
    + intros q. specialize (HA q). sums Hn. lia.
    + intros q. specialize (HT q). sums Hn. lia.
  - (* PUs2: unlock of the lookup *)
    destruct Hwf as [-> Hwf].
    constructor; cbn [move c_crash c_log c_thr c_tab c_bud]; auto.
    + apply Forall_upd; [exact HW|]. split; assumption.
    + intros q. specialize (HR q). sums Hn. lia.
    + intros q. specialize (HA q). sums Hn. lia.
    + intros q. specialize (HT q). sums Hn. lia.
  - (* PUs3: used_once lock + find *)
    destruct (negb _); [|exact HI].
    assert (Hpres : c_tab c k <> None).
    { apply (present_of_user D c HI k t _ Hn). cbn [m_uinf t_pc]. rewrite N.eqb_refl. cbn. lia. }
    constructor; cbn [move c_crash c_log c_thr c_tab c_bud]; auto.
    + apply Forall_upd; [exact HW|]. split; [assumption|]. cbn [t_pc mk]. split; [|assumption].
      destruct (c_tab c k); [reflexivity|congruence].
    + intros q. specialize (HR q). sums Hn. lia.
    + intros q. specialize (HA q). sums Hn. lia.
    + intros q. specialize (HT q). sums Hn. lia.
  - (* PUs4: fetch_inc, test, remove *)
    destruct Hwf as [-> Hwf].
    assert (Hpres : c_tab c k <> None).
    { apply (present_of_user D c HI k t _ Hn). cbn [m_uinf t_pc]. rewrite N.eqb_refl. cbn. lia. }
    destruct (c_tab c k) as [e|] eqn:Ek; [|congruence].
    constructor; cbn [c_crash c_log c_thr c_tab c_bud]; auto.
    + apply Forall_upd; [exact HW|]. split; assumption.
    + intros q. specialize (HR q). sums Hn.
      destruct ((e_lmt e =? e_cnt e + 1) && (e_ret e =? 0)) eqn:Eg;
        keysplit q k; try rewrite Ek in HR; simp; lia.
    + intros q. specialize (HA q). sums Hn.
      destruct ((e_lmt e =? e_cnt e + 1) && (e_ret e =? 0)) eqn:Eg;
        keysplit q k; try rewrite Ek in HA; simp; lia.
    + intros q e'. specialize (HL q).
      destruct ((e_lmt e =? e_cnt e + 1) && (e_ret e =? 0)) eqn:Eg; keysplit q k; try apply HL; try discriminate.
      intros He; inversion He; subst e'; clear He. cbn. lia.
    + intros q. specialize (HT q). sums Hn. lia.
  - (* PUs5: unlock, free, return *)
    constructor; cbn [c_crash c_log c_thr c_tab c_bud]; auto.
    + unfold bad in *. cbn [c_log]. rewrite bad_cons. cbn [ev_bad orb]. rewrite existsb_app, Hbad.
      destruct fr; reflexivity.
    + apply Forall_upd; [exact HW|]. split; assumption.
    + intros q. specialize (HR q). sums Hn. lia.
    + intros q. specialize (HA q). sums Hn. lia.
    + intros q. specialize (HT q). sums Hn. lia.
Qed.
End Step.
