(* Incarnations: every entry handed out by the mempool carries an id (allocation order).  For any
   programs and any schedule, an id is at any time at most one of: in the table (under one key),
   private to one thread (allocated and not yet published, or removed and not yet given back),
   or given back to the mempool - and it is given back at most once. *)
From PV Require Import Base.Tac Base.ListX Repo.RepoDefs Repo.RepoSum.

Definition t_priv (th : thread) : option nat :=
  match t_pc th with
  | PCr3 _ _ id => Some id
  | PAd3 _ _ fr => fr
  | PUs5 _ fr => fr
  | _ => None
  end.
Definition tid (o : option entry) : option nat := option_map e_id o.

Record IdInv (c : cfg) : Prop := {
  d_tab  : forall q e, c_tab c q = Some e ->
             (e_id e < c_next c)%nat /\ ~ In (e_id e) (freed c) /\
             (forall u th, nth_error (c_thr c) u = Some th -> t_priv th <> Some (e_id e));
  d_inj  : forall q q' e e', c_tab c q = Some e -> c_tab c q' = Some e' -> e_id e = e_id e' -> q = q';
  d_priv : forall u th i, nth_error (c_thr c) u = Some th -> t_priv th = Some i ->
             (i < c_next c)%nat /\ ~ In i (freed c);
  d_one  : forall u v th1 th2 i, nth_error (c_thr c) u = Some th1 -> nth_error (c_thr c) v = Some th2 ->
             t_priv th1 = Some i -> t_priv th2 = Some i -> u = v;
  d_free : NoDup (freed c) /\ forall i, In i (freed c) -> (i < c_next c)%nat }.

Section Effects.
Variables (c c' : cfg) (t : nat) (th th' : thread).
Hypothesis Hn : nth_error (c_thr c) t = Some th.
Hypothesis Hthr : c_thr c' = upd (c_thr c) t th'.
Hypothesis HI : IdInv c.

Lemma nth_cases u x : nth_error (c_thr c') u = Some x ->
  (u = t /\ x = th') \/ (u <> t /\ nth_error (c_thr c) u = Some x).
Proof.
  rewrite Hthr. destruct (Nat.eq_dec u t) as [->|Hne].
  - rewrite (nth_upd_same _ _ _ _ Hn). intros H; inversion H; auto.
  - rewrite (nth_upd_other _ _ _ _ _ Hn Hne). auto.
Qed.

Lemma tid_some o o' e' : tid o' = tid o -> o' = Some e' -> exists e, o = Some e /\ e_id e = e_id e'.
Proof. intros H ->. destruct o as [e|]; cbn in H; [inversion H; eauto|discriminate]. Qed.

(* nothing happens to the ids *)
Lemma eff_neutral : c_next c' = c_next c -> freed c' = freed c ->
  (forall q, tid (c_tab c' q) = tid (c_tab c q)) -> t_priv th' = t_priv th -> IdInv c'.
Proof.
  intros Hx Hf Ht Hp. constructor; rewrite ?Hx, ?Hf.
  - intros q e' He'. destruct (tid_some _ _ _ (Ht q) He') as (e & He & <-).
    destruct (d_tab c HI q e He) as (A & B & C). repeat split; auto.
    intros u x Hu. destruct (nth_cases u x Hu) as [[-> ->]|[_ Hu']]; [rewrite Hp; apply (C t th Hn)|apply (C u x Hu')].
  - intros q q' e1 e2 H1 H2 Heq.
    destruct (tid_some _ _ _ (Ht q) H1) as (a & Ha & Ea). destruct (tid_some _ _ _ (Ht q') H2) as (b & Hb & Eb).
    apply (d_inj c HI q q' a b Ha Hb). congruence.
  - intros u x i Hu Hi. destruct (nth_cases u x Hu) as [[-> ->]|[_ Hu']].
    + rewrite Hp in Hi. apply (d_priv c HI t th i Hn Hi).
    + apply (d_priv c HI u x i Hu' Hi).
  - intros u v x y i Hu Hv Hx' Hy.
    destruct (nth_cases u x Hu) as [[-> ->]|[Hne Hu']]; destruct (nth_cases v y Hv) as [[-> ->]|[Hne' Hv']]; auto.
    + rewrite Hp in Hx'. apply (d_one c HI t v th y i Hn Hv' Hx' Hy).
    + rewrite Hp in Hy. apply (d_one c HI u t x th i Hu' Hn Hx' Hy).
    + apply (d_one c HI u v x y i Hu' Hv' Hx' Hy).
  - apply (d_free c HI).
Qed.

(* allocation: the next id becomes private to t *)
Lemma eff_alloc : c_next c' = S (c_next c) -> freed c' = freed c -> c_tab c' = c_tab c ->
  t_priv th = None -> t_priv th' = Some (c_next c) -> IdInv c'.
Proof.
  intros Hx Hf Ht Hp Hp'. constructor; rewrite ?Hx, ?Hf, ?Ht.
  - intros q e He. destruct (d_tab c HI q e He) as (A & B & C). repeat split; auto.
    intros u x Hu. destruct (nth_cases u x Hu) as [[-> ->]|[_ Hu']]; [|apply (C u x Hu')].
    rewrite Hp'. intros H; inversion H. lia.
  - apply (d_inj c HI).
  - intros u x i Hu Hi. destruct (nth_cases u x Hu) as [[-> ->]|[_ Hu']].
    + rewrite Hp' in Hi. inversion Hi; subst i. split; [lia|].
      intros Hin. pose proof (proj2 (d_free c HI) _ Hin). lia.
    + destruct (d_priv c HI u x i Hu' Hi). split; [lia|assumption].
  - intros u v x y i Hu Hv Hx' Hy.
    destruct (nth_cases u x Hu) as [[-> ->]|[Hne Hu']]; destruct (nth_cases v y Hv) as [[-> ->]|[Hne' Hv']]; auto.
    + rewrite Hp' in Hx'. inversion Hx'; subst i. destruct (d_priv c HI v y _ Hv' Hy). lia.
    + rewrite Hp' in Hy. inversion Hy; subst i. destruct (d_priv c HI u x _ Hu' Hx'). lia.
    + apply (d_one c HI u v x y i Hu' Hv' Hx' Hy).
  - destruct (d_free c HI) as [A B]. split; [exact A|]. intros i Hi. pose proof (B i Hi). lia.
Qed.

(* publication: the private id of t goes into the table under a key that had no entry *)
Lemma eff_publish k e i : c_next c' = c_next c -> freed c' = freed c ->
  c_tab c k = None -> c_tab c' = fupd (c_tab c) k (Some e) -> e_id e = i ->
  t_priv th = Some i -> t_priv th' = None -> IdInv c'.
Proof.
  intros Hx Hf Hk Ht He Hp Hp'. destruct (d_priv c HI t th i Hn Hp) as [Pi Pf].
  constructor; rewrite ?Hx, ?Hf, ?Ht.
  - intros q e1. unfold fupd. destruct (N.eqb_spec q k) as [->|Hne].
    + intros H; inversion H; subst e1. rewrite He. repeat split; auto.
      intros u x Hu. destruct (nth_cases u x Hu) as [[-> ->]|[Hne Hu']]; [rewrite Hp'; discriminate|].
      intros Hxi. apply Hne. apply (d_one c HI u t x th i Hu' Hn Hxi Hp).
    + intros H1. destruct (d_tab c HI q e1 H1) as (A & B & C). repeat split; auto.
      intros u x Hu. destruct (nth_cases u x Hu) as [[-> ->]|[_ Hu']]; [rewrite Hp'; discriminate|apply (C u x Hu')].
  - intros q q' e1 e2. unfold fupd.
    destruct (N.eqb_spec q k) as [->|Hne]; destruct (N.eqb_spec q' k) as [->|Hne']; auto.
    + intros H1 H2 Heq. inversion H1; subst e1. destruct (d_tab c HI q' e2 H2) as (_ & _ & C).
      exfalso. apply (C t th Hn). congruence.
    + intros H1 H2 Heq. inversion H2; subst e2. destruct (d_tab c HI q e1 H1) as (_ & _ & C).
      exfalso. apply (C t th Hn). congruence.
    + apply (d_inj c HI).
  - intros u x j Hu Hj. destruct (nth_cases u x Hu) as [[-> ->]|[_ Hu']].
    + rewrite Hp' in Hj; discriminate.
    + apply (d_priv c HI u x j Hu' Hj).
  - intros u v x y j Hu Hv Hx' Hy.
    destruct (nth_cases u x Hu) as [[-> ->]|[Hne Hu']]; destruct (nth_cases v y Hv) as [[-> ->]|[Hne' Hv']]; auto.
    + rewrite Hp' in Hx'; discriminate.
    + rewrite Hp' in Hy; discriminate.
    + apply (d_one c HI u v x y j Hu' Hv' Hx' Hy).
  - apply (d_free c HI).
Qed.

(* the private id of t goes back to the mempool *)
Lemma eff_free i : c_next c' = c_next c -> freed c' = i :: freed c ->
  (forall q, tid (c_tab c' q) = tid (c_tab c q)) ->
  t_priv th = Some i -> t_priv th' = None -> IdInv c'.
Proof.
  intros Hx Hf Ht Hp Hp'. destruct (d_priv c HI t th i Hn Hp) as [Pi Pf].
  constructor; rewrite ?Hx, ?Hf.
  - intros q e' He'. destruct (tid_some _ _ _ (Ht q) He') as (e & He & <-).
    destruct (d_tab c HI q e He) as (A & B & C). repeat split; auto.
    + intros [Hi|Hi]; [|auto]. apply (C t th Hn). congruence.
    + intros u x Hu. destruct (nth_cases u x Hu) as [[-> ->]|[_ Hu']]; [rewrite Hp'; discriminate|apply (C u x Hu')].
  - intros q q' e1 e2 H1 H2 Heq.
    destruct (tid_some _ _ _ (Ht q) H1) as (a & Ha & Ea). destruct (tid_some _ _ _ (Ht q') H2) as (b & Hb & Eb).
    apply (d_inj c HI q q' a b Ha Hb). congruence.
  - intros u x j Hu Hj. destruct (nth_cases u x Hu) as [[-> ->]|[Hne Hu']].
    + rewrite Hp' in Hj; discriminate.
    + destruct (d_priv c HI u x j Hu' Hj) as [A B]. split; [exact A|].
      intros [Hi|Hi]; [|auto]. subst j. apply Hne. apply (d_one c HI u t x th i Hu' Hn Hj Hp).
  - intros u v x y j Hu Hv Hx' Hy.
    destruct (nth_cases u x Hu) as [[-> ->]|[Hne Hu']]; destruct (nth_cases v y Hv) as [[-> ->]|[Hne' Hv']]; auto.
    + rewrite Hp' in Hx'; discriminate.
    + rewrite Hp' in Hy; discriminate.
    + apply (d_one c HI u v x y j Hu' Hv' Hx' Hy).
  - destruct (d_free c HI) as [A B]. split; [constructor; assumption|].
    intros j [<-|Hj]; [exact Pi|apply B, Hj].
Qed.

(* removal from the table: the id becomes private to t until the free *)
Lemma eff_remove k e : c_next c' = c_next c -> freed c' = freed c ->
  c_tab c k = Some e -> c_tab c' = fupd (c_tab c) k None ->
  t_priv th = None -> t_priv th' = Some (e_id e) -> IdInv c'.
Proof.
  intros Hx Hf Hk Ht Hp Hp'. destruct (d_tab c HI k e Hk) as (Ka & Kb & Kc).
  constructor; rewrite ?Hx, ?Hf, ?Ht.
  - intros q e1. unfold fupd. destruct (N.eqb_spec q k) as [->|Hne]; [discriminate|].
    intros H1. destruct (d_tab c HI q e1 H1) as (A & B & C). repeat split; auto.
    intros u x Hu. destruct (nth_cases u x Hu) as [[-> ->]|[_ Hu']]; [|apply (C u x Hu')].
    rewrite Hp'. intros H; inversion H. apply Hne. apply (d_inj c HI q k e1 e H1 Hk). congruence.
  - intros q q' e1 e2. unfold fupd.
    destruct (N.eqb_spec q k) as [->|Hne]; [discriminate|]. destruct (N.eqb_spec q' k) as [->|Hne']; [discriminate|].
    apply (d_inj c HI).
  - intros u x j Hu Hj. destruct (nth_cases u x Hu) as [[-> ->]|[_ Hu']].
    + rewrite Hp' in Hj. inversion Hj; subst j. auto.
    + apply (d_priv c HI u x j Hu' Hj).
  - intros u v x y j Hu Hv Hx' Hy.
    destruct (nth_cases u x Hu) as [[-> ->]|[Hne Hu']]; destruct (nth_cases v y Hv) as [[-> ->]|[Hne' Hv']]; auto.
    + rewrite Hp' in Hx'. inversion Hx'; subst j. exfalso. apply (Kc v y Hv' Hy).
    + rewrite Hp' in Hy. inversion Hy; subst j. exfalso. apply (Kc u x Hu' Hx').
    + apply (d_one c HI u v x y j Hu' Hv' Hx' Hy).
  - apply (d_free c HI).
Qed.
End Effects.

Lemma tid_fupd_same (tab : N -> option entry) k e e' : tab k = Some e -> e_id e' = e_id e ->
  forall q, tid (fupd tab k (Some e') q) = tid (tab q).
Proof. intros Hk He q. unfold fupd. destruct (N.eqb_spec q k) as [->|]; [|reflexivity]. rewrite Hk. cbn. congruence. Qed.

Lemma freed_cons e log : flat_map ev_freed (e :: log) = ev_freed e ++ flat_map ev_freed log.
Proof. reflexivity. Qed.

Lemma id_crash c t : IdInv c -> IdInv (crash c t).
Proof. intros [A B C D E]. constructor; assumption. Qed.

Lemma id_step nb c t : IdInv c -> IdInv (step nb c t).
Proof.
  intros HI. unfold step. destruct (c_crash c); [exact HI|].
  destruct (nth_error (c_thr c) t) as [th|] eqn:Hn; [|exact HI].
  destruct th as [p ops held]. unfold step_thread. cbn [t_pc t_ops t_held].
  destruct p.
  - destruct ops as [|o r]; [exact HI|].
    destruct o as [k|k p|k n|k]; try (eapply (eff_neutral c _ t _ _ Hn); [reflexivity|exact HI|reflexivity..]).
    destruct (0 <? c_bud c k)%Z; [|exact HI].
    eapply (eff_neutral c _ t _ _ Hn); [reflexivity|exact HI|reflexivity..].
  - destruct (negb _); [|exact HI]. eapply (eff_neutral c _ t _ _ Hn); [reflexivity|exact HI|reflexivity..].
  - eapply (eff_neutral c _ t _ _ Hn); [reflexivity|exact HI|reflexivity..].
  - destruct (negb _); [|exact HI]. destruct (c_tab c k) as [e|] eqn:Ek.
    + eapply (eff_neutral c _ t _ _ Hn); [reflexivity|exact HI|reflexivity|reflexivity| |reflexivity].
      cbn [c_tab]. apply (tid_fupd_same _ _ e); [exact Ek|reflexivity].
    + eapply (eff_neutral c _ t _ _ Hn); [reflexivity|exact HI|reflexivity..].
  - eapply (eff_neutral c _ t _ _ Hn); [reflexivity|exact HI|reflexivity..].
  - eapply (eff_alloc c _ t _ _ Hn); [reflexivity|exact HI|reflexivity..].
  - destruct (negb _); [|exact HI]. destruct (c_tab c k) as [e|] eqn:Ek.
    + eapply (eff_free c _ t _ _ Hn); [reflexivity|exact HI|reflexivity|reflexivity| |reflexivity|reflexivity].
      cbn [c_tab]. apply (tid_fupd_same _ _ e); [exact Ek|reflexivity].
    + eapply (eff_publish c _ t _ _ Hn); [reflexivity|exact HI|reflexivity|reflexivity|exact Ek|reflexivity..].
  - eapply (eff_neutral c _ t _ _ Hn); [reflexivity|exact HI|reflexivity..].
  - destruct (negb _); [|exact HI]. destruct (c_tab c k) as [e|] eqn:Ek.
    + eapply (eff_neutral c _ t _ _ Hn); [reflexivity|exact HI|reflexivity..].
    + apply id_crash, HI.
  - destruct (c_tab c k) as [e|] eqn:Ek; [|apply id_crash, HI].
    destruct (e_lmt e =? ov)%Z.
    + destruct ((ov + n =? e_cnt e) && (e_ret e - 1 =? 0))%Z.
      * eapply (eff_remove c _ t _ _ Hn); [reflexivity|exact HI|reflexivity|reflexivity|exact Ek|reflexivity..].
      * eapply (eff_neutral c _ t _ _ Hn); [reflexivity|exact HI|reflexivity|reflexivity| |reflexivity].
        cbn [c_tab]. apply (tid_fupd_same _ _ e); [exact Ek|reflexivity].
    + eapply (eff_neutral c _ t _ _ Hn); [reflexivity|exact HI|reflexivity..].
  - destruct fr as [i|].
    + eapply (eff_free c _ t _ _ Hn); [reflexivity|exact HI|reflexivity..].
    + eapply (eff_neutral c _ t _ _ Hn); [reflexivity|exact HI|reflexivity..].
  - destruct (negb _); [|exact HI]. eapply (eff_neutral c _ t _ _ Hn); [reflexivity|exact HI|reflexivity..].
  - destruct f; (eapply (eff_neutral c _ t _ _ Hn); [reflexivity|exact HI|reflexivity..]).
  - destruct (negb _); [|exact HI]. eapply (eff_neutral c _ t _ _ Hn); [reflexivity|exact HI|reflexivity..].
  - destruct f; [|apply id_crash, HI]. destruct (c_tab c k) as [e|] eqn:Ek; [|apply id_crash, HI].
    destruct ((e_lmt e =? e_cnt e + 1) && (e_ret e =? 0))%Z.
    + eapply (eff_remove c _ t _ _ Hn); [reflexivity|exact HI|reflexivity|reflexivity|exact Ek|reflexivity..].
    + eapply (eff_neutral c _ t _ _ Hn); [reflexivity|exact HI|reflexivity|reflexivity| |reflexivity].
      cbn [c_tab]. apply (tid_fupd_same _ _ e); [exact Ek|reflexivity].
  - destruct fr as [i|].
    + eapply (eff_free c _ t _ _ Hn); [reflexivity|exact HI|reflexivity..].
    + eapply (eff_neutral c _ t _ _ Hn); [reflexivity|exact HI|reflexivity..].
Qed.

Lemma id_init progs : IdInv (init progs).
Proof.
  constructor; cbn.
  - intros q e H; discriminate.
  - intros q q' e e' H; discriminate.
  - intros u th i Hu Hi. apply nth_error_In, in_map_iff in Hu. destruct Hu as (o & <- & _). discriminate.
  - intros u v th1 th2 i Hu _ Hi. apply nth_error_In, in_map_iff in Hu. destruct Hu as (o & <- & _). discriminate.
  - split; [constructor|intros i []].
Qed.

Theorem id_run nb progs sched : IdInv (run nb progs sched).
Proof. unfold run. apply fold_left_inv; [intros a b; apply id_step|apply id_init]. Qed.

(* no incarnation is given back to the mempool twice; one that is in the table has not been given back *)
Theorem freed_once nb progs sched :
  NoDup (freed (run nb progs sched)) /\
  forall q e, c_tab (run nb progs sched) q = Some e -> ~ In (e_id e) (freed (run nb progs sched)).
Proof.
  pose proof (id_run nb progs sched) as H. split; [apply (d_free _ H)|].
  intros q e He. apply (d_tab _ H q e He).
Qed.
