(* Sequential refinement: one thread alone executes each operation, through its atomic steps,
   exactly as the sequential specification (seq_create / seq_addto / seq_use of RepoDefs.v)
   applied in one go, from any table contents. *)
From PV Require Import Base.Tac Base.ListX Repo.RepoDefs.
Local Open Scope Z_scope.

Definition solo_run (nb : N) (c : cfg) (n : nat) : cfg := fold_left (step nb) (repeat 0%nat n) c.

(* the configuration after operation o of the only thread, taken atomically *)
Definition seq_apply (c : cfg) (o : op) (r : list op) (held : list (N * Z)) : cfg :=
  match o with
  | OLook k =>
      {| c_tab := c_tab c; c_bud := c_bud c; c_next := c_next c;
         c_log := EvLook 0 k (c_tab c k) :: c_log c; c_crash := false; c_thr := [mk PIdle r held] |}
  | OCreate k p =>
      let '(tab, next, id, fresh) := seq_create (c_tab c) (c_next c) k in
      {| c_tab := tab; c_bud := fupd (c_bud c) k (c_bud c k + p); c_next := next;
         c_log := EvCreate 0 k id fresh :: c_log c; c_crash := false;
         c_thr := [mk PIdle r ((k, p) :: held)] |}
  | OAddto k n =>
      match seq_addto (c_tab c) k n with
      | Some (tab, fr) =>
          {| c_tab := tab; c_bud := c_bud c; c_next := c_next c;
             c_log := EvAddto 0 k n :: reclaim_ev 0 k fr ++ c_log c; c_crash := false;
             c_thr := [mk PIdle r (rm1 (k, n) held)] |}
      | None =>                                  (* NULL dereference *)
          {| c_tab := c_tab c; c_bud := c_bud c; c_next := c_next c; c_log := EvCrash 0 :: c_log c;
             c_crash := true; c_thr := [mk (PAd1 k n) r held] |}
      end
  | OUse k =>
      if 0 <? c_bud c k then
        match seq_use (c_tab c) k with
        | Some (tab, fr) =>
            {| c_tab := tab; c_bud := fupd (c_bud c) k (c_bud c k - 1); c_next := c_next c;
               c_log := EvUse 0 k :: reclaim_ev 0 k fr ++ c_log c; c_crash := false;
               c_thr := [mk PIdle r held] |}
        | None =>                                (* the lookup finds nothing: the use is skipped *)
            {| c_tab := c_tab c; c_bud := fupd (c_bud c) k (c_bud c k - 1); c_next := c_next c;
               c_log := EvMiss 0 k :: c_log c; c_crash := false; c_thr := [mk PIdle r held] |}
        end
      else c                                     (* no grant: the thread waits *)
  end.

Lemma step_solo nb c th : c_crash c = false -> c_thr c = [th] -> step nb c 0 = step_thread nb c 0 th.
Proof. intros Hc Ht. unfold step. rewrite Hc, Ht. reflexivity. Qed.

Ltac simp_cfg :=
  cbn [t_pc t_ops t_held mk move set_thr c_thr c_tab c_bud c_next c_log c_crash upd firstn skipn app
       busy existsb holds_bucket cs_key negb orb is_some].
(* execute the innermost pending step of the only thread *)
Ltac adv Hc Ht :=
  match goal with
  | |- context [step ?nb ?x 0%nat] =>
      lazymatch x with step _ _ _ => fail | _ => idtac end;
      erewrite (step_solo nb x);
      [ | cbn [c_crash]; first [exact Hc | reflexivity]
        | cbn [c_thr]; first [exact Ht | reflexivity] ]
  end;
  unfold step_thread, move, set_thr; rewrite ?Ht; simp_cfg.

Theorem seq_refinement nb c o r held :
  c_crash c = false -> c_thr c = [mk PIdle (o :: r) held] ->
  exists n, (n <= 6)%nat /\ solo_run nb c n = seq_apply c o r held.
Proof.
  intros Hc Ht. destruct o as [k|k p|k n|k]; unfold seq_apply.
  - exists 3%nat. split; [lia|]. unfold solo_run. cbn [repeat fold_left].
    adv Hc Ht. adv Hc Ht. adv Hc Ht. rewrite Hc. reflexivity.
  - unfold seq_create. destruct (c_tab c k) as [e|] eqn:Ek.
    + exists 3%nat. split; [lia|]. unfold solo_run. cbn [repeat fold_left].
      adv Hc Ht. adv Hc Ht. rewrite Ek. simp_cfg. adv Hc Ht. rewrite Hc. reflexivity.
    + exists 5%nat. split; [lia|]. unfold solo_run. cbn [repeat fold_left].
      adv Hc Ht. adv Hc Ht. rewrite Ek. simp_cfg. adv Hc Ht. adv Hc Ht. rewrite Ek. simp_cfg. adv Hc Ht.
      rewrite Hc. reflexivity.
  - unfold seq_addto. destruct (c_tab c k) as [e|] eqn:Ek.
    + exists 4%nat. split; [lia|]. unfold solo_run. cbn [repeat fold_left].
      adv Hc Ht. adv Hc Ht. rewrite Ek. simp_cfg. adv Hc Ht. rewrite Ek, Z.eqb_refl.
      destruct ((e_lmt e + n =? e_cnt e) && (e_ret e - 1 =? 0)); simp_cfg; adv Hc Ht; rewrite Hc; reflexivity.
    + exists 2%nat. split; [lia|]. unfold solo_run. cbn [repeat fold_left].
      adv Hc Ht. adv Hc Ht. rewrite Ek. unfold crash. simp_cfg. reflexivity.
  - destruct (0 <? c_bud c k) eqn:Eg.
    2:{ exists 0%nat. split; [lia|]. reflexivity. }
    unfold seq_use. destruct (c_tab c k) as [e|] eqn:Ek.
    + exists 6%nat. split; [lia|]. unfold solo_run. cbn [repeat fold_left].
      adv Hc Ht. rewrite Eg. simp_cfg. adv Hc Ht. rewrite Ek. simp_cfg. adv Hc Ht. adv Hc Ht. rewrite Ek. simp_cfg.
      adv Hc Ht. rewrite Ek.
      destruct ((e_lmt e =? e_cnt e + 1) && (e_ret e =? 0)); simp_cfg; adv Hc Ht; rewrite Hc; reflexivity.
    + exists 3%nat. split; [lia|]. unfold solo_run. cbn [repeat fold_left].
      adv Hc Ht. rewrite Eg. simp_cfg. adv Hc Ht. rewrite Ek. simp_cfg. adv Hc Ht. rewrite Hc. reflexivity.
Qed.
