(* Executable model of the DTD data flush (parsec/interfaces/dtd/parsec_dtd_data_flush.c)
   on top of the DTD model of DTD/DTDDefs.v.  NO proofs here.

   - tiles have an owner rank ([owner]); a task has an execution rank (the first
     PARSEC_AFFINITY parameter of parsec_dtd_insert_task: a rank value, or a tile, in
     which case the task runs on the tile's owner);
   - what ends up in the taskpool is a list of [ftask]: user tasks and tasks of the
     flush class (body parsec_dtd_data_flush_sndrcv) that parsec_dtd_data_flush /
     parsec_dtd_data_flush_all insert: PARSEC_INOUT on the tile, so they are chained
     behind every earlier access of the tile; one on the rank of the tile's last
     writer when that is not the owner (the send side) followed by one on the owner
     (the receive side), or only the latter;
   - a tile's current version lives either in the owner's storage (the collection's
     memory: tile->data_copy) or in a floating copy: a task placed on another rank
     writes into a copy on its rank, and a task of the owner that comes after it
     receives a new copy (data_in != tile->data_copy) and writes there.  Whether the
     version after the first k tasks is the owner's storage is a function of the
     insertion sequence only ([inpl]);
   - the receive-side flush task copies its input into the owner's storage when the
     two differ (parsec_remote_dep_memcpy(tile->data_copy, data_in)); the flush then
     drops the tile from the collection's hash table (tile->flushed, parsec_dtd_tile_remove):
     a later PARSEC_DTD_TILE_OF creates a new tile whose copy is the owner's storage and
     which is chained behind nothing ([rdep]: no task waits for a receive-side flush task);
   - parsec_taskpool_wait is a gate of the inserting thread ([wait_gate]).
   The engine is the one of DTDDefs ([step]); [fstep] adds the owner's storage [home]. *)
From Coq Require Import Arith List Bool NArith.
From PV Require Import DTD.DTDDefs.
Import ListNotations.

Definition rank := nat.

Inductive ftask :=
| FUser (r : rank) (t : task)        (* user task executed by rank r *)
| FFlush (r : rank) (d : datum).     (* flush-class task on tile d executed by rank r *)
Definition fprog := list ftask.

Definition acc_of (f : ftask) : task := match f with FUser _ t => t | FFlush _ d => [(d, RW)] end.
Definition rank_of (f : ftask) : rank := match f with FUser r _ => r | FFlush r _ => r end.
Definition is_user (f : ftask) : bool := match f with FUser _ _ => true | FFlush _ _ => false end.
Definition fnone : ftask := FUser 0 [].
Definition ftask_at (fp : fprog) (k : tid) : ftask := nth k fp fnone.
Definition prog_of (fp : fprog) : prog := map acc_of fp.
(* the user tasks alone, in insertion order: what the application wrote *)
Definition uprog (fp : fprog) : prog := flat_map (fun f => match f with FUser _ t => [t] | FFlush _ _ => [] end) fp.
(* number of the user task at position k among the user tasks *)
Definition uid (fp : fprog) (k : tid) : tid := length (uprog (firstn k fp)).

(* the per-task list of a run over all tasks, restricted to the user tasks *)
Fixpoint users (fp : fprog) (l : list (list value)) : list (list value) :=
  match fp, l with
  | FUser _ _ :: fp', x :: l' => x :: users fp' l'
  | FFlush _ _ :: fp', _ :: l' => users fp' l'
  | _, _ => []
  end.

Section Model.
Variable owner : datum -> rank.

(* receive side: "if(tile->rank == current_task->rank)" in parsec_dtd_data_flush_sndrcv *)
Definition is_recv (f : ftask) : bool := match f with FFlush r d => Nat.eqb r (owner d) | FUser _ _ => false end.

(* bodies: a user task computes [body uid inputs]; a flush task leaves the value as it is *)
Definition fbody_of (body : tid -> list value -> value) (fp : fprog) (k : tid) (ins : list value) : value :=
  match ftask_at fp k with
  | FUser _ _ => body (uid fp k) ins
  | FFlush _ _ => hd 0%N ins
  end.

(* dependencies: the chain of DTDDefs over all tasks, except that nothing is chained behind a
   receive-side flush task (the tile it was chained on is forgotten) *)
Definition rdep (fp : fprog) (k : tid) : list tid :=
  filter (fun j => negb (is_recv (ftask_at fp j))) (dep_fn (prog_of fp) k).

(* is the version of d after the first k tasks the owner's storage? *)
Definition inpl_step (ip : datum -> bool) (f : ftask) : datum -> bool :=
  match f with
  | FUser r t => fun d => if writes t d && negb (Nat.eqb r (owner d)) then false else ip d
  | FFlush r d0 => fun d => if Nat.eqb d d0 then Nat.eqb r (owner d0) else ip d
  end.
Definition inpl (fp : fprog) (k : nat) : datum -> bool :=
  fold_left inpl_step (firstn k fp) (fun _ => true).

(* what the end of task k does to the owner's storage, v being the value the body leaves *)
Definition home_update (fp : fprog) (k : tid) (v : value) (h : mem) : mem :=
  match ftask_at fp k with
  | FUser r t => fun d => if writes t d && Nat.eqb r (owner d) && inpl fp k d then v else h d
  | FFlush r d0 => fun d => if Nat.eqb d d0 && Nat.eqb r (owner d0) && negb (inpl fp k d0) then v else h d
  end.

(* parsec_taskpool_wait called when w tasks are inserted: the next insertion waits for all of them *)
Definition wait_gate (waits : list nat) (g : nat -> nat -> bool) (inserted ended : nat) : bool :=
  g inserted ended && (negb (existsb (Nat.eqb inserted) waits) || Nat.eqb ended inserted).

Record fstate := { eng : state; home : mem }.

Section Engine.
Variable body : tid -> list value -> value.
Variable fp : fprog.
Variable waits : list nat.
Variable g : nat -> nat -> bool.

(* [dep] is a parameter only so that the driver can tabulate [rdep fp] *)
Definition fstep_with (dep : tid -> list tid) (s : fstate) (e : event) : fstate :=
  {| eng := step (fbody_of body fp) (prog_of fp) dep (wait_gate waits g) (eng s) e;
     home := match e with
             | End t => if can_end (eng s) t
                        then home_update fp t (fbody_of body fp t (match obs (eng s) t with Some i => i | None => [] end)) (home s)
                        else home s
             | _ => home s
             end |}.
Definition fstep : fstate -> event -> fstate := fstep_with (rdep fp).
Definition finit (m0 : mem) : fstate := {| eng := init m0; home := m0 |}.
Definition frun (m0 : mem) (es : list event) : fstate := fold_left fstep es (finit m0).
End Engine.

(* the API contract of parsec_dtd_data_flush ("users must wait on the taskpool before inserting new
   tasks using this data"): a task that names tile d after a receive-side flush task of d is inserted
   after a wait that follows that flush *)
Definition wfb (fp : fprog) (waits : list nat) : bool :=
  forallb (fun f =>
    match ftask_at fp f with
    | FFlush r d =>
        negb (Nat.eqb r (owner d)) ||
        forallb (fun k => negb (touches (acc_of (ftask_at fp k)) d) ||
                          existsb (fun w => Nat.ltb f w && Nat.leb w k) waits)
                (seq (S f) (length fp - S f))
    | FUser _ _ => true
    end) (seq 0 (length fp)).

(* ---- the API calls and what they insert ------------------------------------------- *)
Inductive op :=
| OTask (r : rank) (t : task)      (* parsec_dtd_insert_task, placed on rank r *)
| OFlush (d : datum)               (* parsec_dtd_data_flush(tp, PARSEC_DTD_TILE_OF(d)) *)
| OFlushAll                        (* parsec_dtd_data_flush_all *)
| OWait.                           (* parsec_taskpool_wait *)

(* c_lw d: rank of tile->last_writer.task, None when the tile has no user since it was created
   (a first reader, or a first writer placed away from the owner, is preceded by a fake writer on
   the owner); c_live: the tiles in the collection's hash table that have a user *)
Record cst := { c_out : fprog; c_waits : list nat; c_lw : datum -> option rank; c_live : list datum }.
Definition cst0 : cst := {| c_out := []; c_waits := []; c_lw := fun _ => None; c_live := [] |}.

Definition lw_upd (f : datum -> option rank) (d : datum) (v : option rank) : datum -> option rank :=
  fun x => if Nat.eqb x d then v else f x.
Definition live_add (l : list datum) (d : datum) : list datum := if existsb (Nat.eqb d) l then l else l ++ [d].
Definition live_del (l : list datum) (d : datum) : list datum := filter (fun x => negb (Nat.eqb x d)) l.

Definition touch (r : rank) (st : (datum -> option rank) * list datum) (a : access)
  : (datum -> option rank) * list datum :=
  let d := fst a in
  (match snd a with
   | R => match fst st d with None => lw_upd (fst st) d (Some (owner d)) | Some _ => fst st end
   | _ => lw_upd (fst st) d (Some r)
   end, live_add (snd st) d).

(* parsec_dtd_insert_flush_task_pair + parsec_internal_dtd_data_flush *)
Definition flush_one (c : cst) (d : datum) : cst :=
  match c_lw c d with
  | None => {| c_out := c_out c; c_waits := c_waits c; c_lw := c_lw c; c_live := live_del (c_live c) d |}
  | Some r =>
      {| c_out := c_out c ++ (if Nat.eqb r (owner d) then [] else [FFlush r d]) ++ [FFlush (owner d) d];
         c_waits := c_waits c; c_lw := lw_upd (c_lw c) d None; c_live := live_del (c_live c) d |}
  end.

Definition cstep (c : cst) (o : op) : cst :=
  match o with
  | OTask r t =>
      let st := fold_left (touch r) t (c_lw c, c_live c) in
      {| c_out := c_out c ++ [FUser r t]; c_waits := c_waits c; c_lw := fst st; c_live := snd st |}
  | OFlush d => flush_one c d
  | OFlushAll => fold_left flush_one (c_live c) c
  | OWait => {| c_out := c_out c; c_waits := length (c_out c) :: c_waits c; c_lw := c_lw c; c_live := c_live c |}
  end.
Definition compile (ops : list op) : cst := fold_left cstep ops cst0.
End Model.

(* the tasks the application inserted *)
Definition utasks (ops : list op) : prog :=
  flat_map (fun o => match o with OTask _ t => [t] | _ => [] end) ops.

(* ---- what the driver prints --------------------------------------------------------- *)
(* values observed by the user tasks / final values: sequential execution of the user tasks *)
Definition fmodel_inputs (ops : list op) (owner : datum -> rank) : list (list value) :=
  fst (seq_dtd fbody (uprog (c_out (compile owner ops))) mem0).
Definition fmodel_final (ops : list op) (owner : datum -> rank) (ndata : nat) : list value :=
  map (snd (seq_dtd fbody (uprog (c_out (compile owner ops))) mem0)) (seq 0 ndata).
