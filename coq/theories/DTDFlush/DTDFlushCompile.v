(* What the API calls insert ([compile]): after parsec_dtd_data_flush of a tile, and for every tile
   after parsec_dtd_data_flush_all, the tile's current version is the owner's storage; the user
   tasks of the compiled sequence are the tasks the application inserted. *)
From PV Require Import Base.Tac DTD.DTDDefs DTD.DTDChain DTDFlush.DTDFlushDefs DTDFlush.DTDFlushSeq.

Section Compile.
Variable owner : datum -> rank.
Notation inpl_all l := (fold_left (inpl_step owner) l (fun _ => true)).

Lemma inpl_full fp : inpl owner fp (length fp) = inpl_all fp.
Proof. unfold inpl. now rewrite firstn_all. Qed.

Lemma lw_upd_same f d v : lw_upd f d v d = v.
Proof. unfold lw_upd. now rewrite Nat.eqb_refl. Qed.
Lemma lw_upd_other f d v x : x <> d -> lw_upd f d v x = f x.
Proof. unfold lw_upd. intros H. apply Nat.eqb_neq in H. now rewrite H. Qed.

Lemma live_add_in l d x : In x (live_add l d) <-> In x l \/ x = d.
Proof.
  unfold live_add. destruct (existsb (Nat.eqb d) l) eqn:E.
  - split; [tauto|]. intros [H| ->]; [exact H|]. apply existsb_exists in E. destruct E as (y & Hy & Hd).
    apply Nat.eqb_eq in Hd. now subst.
  - rewrite in_app_iff. cbn. split; intros [H|H]; auto; try tauto. destruct H as [<-|[]]. now right.
Qed.
Lemma live_del_in l d x : In x (live_del l d) <-> In x l /\ x <> d.
Proof.
  unfold live_del. rewrite filter_In. split; intros [H1 H2]; split; auto.
  - intros ->. now rewrite Nat.eqb_refl in H2.
  - apply negb_true_iff. now apply Nat.eqb_neq.
Qed.

(* the flows of one task *)
Lemma touch_fold r : forall t lw live,
  let st := fold_left (touch owner r) t (lw, live) in
  (forall d, fst st d = None -> lw d = None /\ touches t d = false) /\
  (forall d, fst st d <> None -> lw d <> None \/ touches t d = true) /\
  (forall d, In d (snd st) <-> In d live \/ touches t d = true).
Proof.
  induction t as [|a t IH]; intros lw live; cbn [fold_left].
  - cbn. split; [|split]; [intros d Hd; now split|intros d Hd; now left|].
    intros d. split; [now left|]. intros [H|H]; [exact H|discriminate].
  - set (st1 := touch owner r (lw, live) a).
    destruct (IH (fst st1) (snd st1)) as (H1 & H2 & H3).
    replace (fold_left (touch owner r) t st1) with (fold_left (touch owner r) t (fst st1, snd st1))
      by (now destruct st1).
    assert (Hto : forall d, touches (a :: t) d = Nat.eqb (fst a) d || touches t d) by reflexivity.
    assert (Hlw : forall d, d <> fst a -> fst st1 d = lw d).
    { intros d Hd. unfold st1, touch. cbn [fst snd]. destruct (snd a); [destruct (lw (fst a))|..];
        try reflexivity; now apply lw_upd_other. }
    assert (Hsome : fst st1 (fst a) <> None).
    { unfold st1, touch. cbn [fst snd]. destruct (snd a); [destruct (lw (fst a)) eqn:E|..];
        rewrite ?lw_upd_same; congruence. }
    assert (Hlive : forall d, In d (snd st1) <-> In d live \/ d = fst a).
    { intros d. unfold st1, touch. cbn [fst snd]. apply live_add_in. }
    split; [|split].
    + intros d Hd. destruct (H1 d Hd) as [Ha Hb]. destruct (Nat.eq_dec d (fst a)) as [->|Hne]; [congruence|].
      rewrite Hlw in Ha by exact Hne. split; [exact Ha|]. rewrite Hto, Hb.
      assert (Nat.eqb (fst a) d = false) by (apply Nat.eqb_neq; congruence). now rewrite H.
    + intros d Hd. rewrite Hto. destruct (Nat.eq_dec d (fst a)) as [->|Hne]; [right; now rewrite Nat.eqb_refl|].
      destruct (H2 d Hd) as [Ha|Ha]; [left; now rewrite <- Hlw|right; rewrite Ha; apply orb_true_r].
    + intros d. split.
      * intros Hd. apply H3 in Hd. rewrite Hto. destruct Hd as [Hd|Hd]; [|right; rewrite Hd; apply orb_true_r].
        apply Hlive in Hd. destruct Hd as [Hd| ->]; [now left|right; now rewrite Nat.eqb_refl].
      * intros Hd. apply H3. rewrite Hto in Hd. destruct Hd as [Hd|Hd]; [left; apply Hlive; now left|].
        apply orb_true_iff in Hd. destruct Hd as [Hd|Hd]; [|now right]. apply Nat.eqb_eq in Hd. left. apply Hlive. now right.
Qed.

Record CI (c : cst) : Prop := {
  J1 : forall d, c_lw c d = None -> inpl_all (c_out c) d = true;
  J2 : forall d, c_lw c d <> None -> In d (c_live c) }.

Lemma ci0 : CI cst0.
Proof. constructor; cbn; [reflexivity|congruence]. Qed.

Lemma inpl_step_flush_other x r d0 d : d <> d0 -> inpl_step owner x (FFlush r d0) d = x d.
Proof. intros H. cbn [inpl_step]. apply Nat.eqb_neq in H. now rewrite H. Qed.

Lemma ci_flush_one c d0 : CI c -> CI (flush_one owner c d0) /\ c_lw (flush_one owner c d0) d0 = None /\
  (forall d, c_lw (flush_one owner c d0) d <> None -> c_lw c d <> None /\ d <> d0) /\
  uprog (c_out (flush_one owner c d0)) = uprog (c_out c) /\ c_waits (flush_one owner c d0) = c_waits c.
Proof.
  intros [H1 H2]. unfold flush_one. destruct (c_lw c d0) as [r|] eqn:El.
  - split; [constructor|split; [|split; [|split]]]; cbn [c_out c_lw c_live c_waits].
    + intros d Hd. rewrite fold_left_app. destruct (Nat.eq_dec d d0) as [->|Hne].
      * rewrite fold_left_app. cbn [fold_left inpl_step]. now rewrite !Nat.eqb_refl.
      * rewrite lw_upd_other in Hd by exact Hne.
        destruct (Nat.eqb r (owner d0)); cbn [app fold_left]; rewrite !inpl_step_flush_other by exact Hne; now apply H1.
    + intros d Hd. destruct (Nat.eq_dec d d0) as [->|Hne]; [rewrite lw_upd_same in Hd; congruence|].
      rewrite lw_upd_other in Hd by exact Hne. apply live_del_in. split; [now apply H2|exact Hne].
    + apply lw_upd_same.
    + intros d Hd. destruct (Nat.eq_dec d d0) as [->|Hne]; [rewrite lw_upd_same in Hd; congruence|].
      rewrite lw_upd_other in Hd by exact Hne. now split.
    + rewrite uprog_app. destruct (Nat.eqb r (owner d0)); cbn; now rewrite app_nil_r.
    + reflexivity.
  - split; [constructor|split; [|split; [|split]]]; cbn [c_out c_lw c_live c_waits]; auto.
    + intros d Hd. apply live_del_in. split; [now apply H2|]. intros ->. congruence.
    + intros d Hd. split; [exact Hd|]. intros ->. congruence.
Qed.

Lemma ci_flush_all : forall l c, CI c -> (forall d, c_lw c d <> None -> In d l) ->
  let c' := fold_left (flush_one owner) l c in
  CI c' /\ (forall d, c_lw c' d = None) /\ uprog (c_out c') = uprog (c_out c) /\ c_waits c' = c_waits c.
Proof.
  induction l as [|a l IH]; intros c HC Hl; cbn [fold_left].
  - split; [exact HC|split; [|split; reflexivity]].
    intros d. destruct (c_lw c d) eqn:E; [|reflexivity]. exfalso. apply (Hl d). congruence.
  - destruct (ci_flush_one c a HC) as (HC' & Hn & Hk & Hu & Hw).
    destruct (IH (flush_one owner c a) HC') as (Ha & Hb & Hc & Hd).
    + intros d Hd. destruct (Hk d Hd) as [H1 H2]. destruct (Hl d H1) as [<-|H]; [congruence|exact H].
    + split; [exact Ha|split; [exact Hb|split; congruence]].
Qed.

Lemma ci_step c o : CI c -> CI (cstep owner c o) /\
  uprog (c_out (cstep owner c o)) = uprog (c_out c) ++ utasks [o].
Proof.
  intros HC. pose proof HC as [H1 H2]. destruct o as [r t|d| |]; cbn [cstep utasks flat_map app].
  - destruct (touch_fold r t (c_lw c) (c_live c)) as (Ha & Hb & Hc). split; [|cbn [c_out]; now rewrite uprog_app].
    constructor; cbn [c_out c_lw c_live].
    + intros d Hd. destruct (Ha d Hd) as [Hl Ht]. rewrite fold_left_app. cbn [fold_left inpl_step].
      assert (Hw : writes t d = false).
      { destruct (writes t d) eqn:E; [|reflexivity]. apply writes_touches in E. congruence. }
      rewrite Hw. cbn [andb]. now apply H1.
    + intros d Hd. apply Hc. destruct (Hb d Hd) as [H|H]; [left; now apply H2|now right].
  - destruct (ci_flush_one c d HC) as (HC' & _ & _ & Hu & _). split; [exact HC'|now rewrite Hu, app_nil_r].
  - destruct (ci_flush_all (c_live c) c HC H2) as (HC' & _ & Hu & _). split; [exact HC'|now rewrite Hu, app_nil_r].
  - split; [constructor; cbn [c_out c_lw c_live]; auto|cbn [c_out]; now rewrite app_nil_r].
Qed.

Lemma ci_compile_from : forall ops c, CI c ->
  CI (fold_left (cstep owner) ops c) /\ uprog (c_out (fold_left (cstep owner) ops c)) = uprog (c_out c) ++ utasks ops.
Proof.
  induction ops as [|o ops IH]; intros c HC; cbn [fold_left].
  - split; [exact HC|]. cbn. now rewrite app_nil_r.
  - destruct (ci_step c o HC) as [HC' Hu]. destruct (IH _ HC') as [Ha Hb]. split; [exact Ha|].
    rewrite Hb, Hu, <- app_assoc. f_equal. unfold utasks. cbn [flat_map]. now rewrite app_nil_r.
Qed.

Theorem compile_ci ops : CI (compile owner ops).
Proof. apply ci_compile_from. apply ci0. Qed.

(* the user tasks of what is inserted are the tasks of the application, in order *)
Theorem compile_uprog ops : uprog (c_out (compile owner ops)) = utasks ops.
Proof. unfold compile. destruct (ci_compile_from ops cst0 ci0) as [_ H]. exact H. Qed.

(* after parsec_dtd_data_flush(d): the version of d is the owner's storage *)
Theorem compile_flush_clean ops d :
  let c := compile owner (ops ++ [OFlush d]) in inpl owner (c_out c) (length (c_out c)) d = true.
Proof.
  cbv zeta. rewrite inpl_full. unfold compile. rewrite fold_left_app. cbn [fold_left cstep].
  destruct (ci_flush_one (fold_left (cstep owner) ops cst0) d (compile_ci ops)) as ([H1 _] & Hn & _).
  now apply H1.
Qed.

(* after parsec_dtd_data_flush_all (and a wait): every tile's version is the owner's storage *)
Theorem compile_flush_all_clean ops tail : (forall o, In o tail -> o = OWait) -> forall d,
  let c := compile owner (ops ++ OFlushAll :: tail) in inpl owner (c_out c) (length (c_out c)) d = true.
Proof.
  intros Ht d. cbv zeta. rewrite inpl_full. unfold compile. rewrite fold_left_app. cbn [fold_left cstep].
  pose proof (compile_ci ops) as HC. unfold compile in HC.
  destruct (ci_flush_all (c_live (fold_left (cstep owner) ops cst0)) _ HC (J2 _ HC)) as ([H1 _] & Hn & _).
  set (c1 := fold_left (flush_one owner) (c_live (fold_left (cstep owner) ops cst0)) (fold_left (cstep owner) ops cst0)) in *.
  assert (Hw : forall tl c, (forall o, In o tl -> o = OWait) -> c_out (fold_left (cstep owner) tl c) = c_out c).
  { induction tl as [|o tl IH]; intros c Hall; cbn [fold_left]; [reflexivity|].
    rewrite IH by (intros; apply Hall; now right). rewrite (Hall o (or_introl eq_refl)). reflexivity. }
  rewrite (Hw tail c1 Ht). apply H1. apply Hn.
Qed.
End Compile.
