(* The flush model: under the API contract ([wf]: a tile is not named again before a wait
   that follows its flush) the engine of DTDFlushDefs is an instance of the generic engine of
   DTD/DTDEngine.v, and the owner's storage of a tile holds the sequential value whenever
   the tile's current version is the owner's storage ([home_inv]). *)
From PV Require Import Base.Tac DTD.DTDDefs DTD.DTDSeq DTD.DTDChain DTD.DTDEngine DTD.DTDProofs
  DTDFlush.DTDFlushDefs.

Lemma firstn_snoc {A} (x0 : A) : forall (l : list A) k, k < length l -> firstn (S k) l = firstn k l ++ [nth k l x0].
Proof.
  induction l as [|a l IH]; intros k Hk; cbn [length] in Hk; [lia|].
  destruct k as [|k]; [reflexivity|].
  change (firstn (S (S k)) (a :: l)) with (a :: firstn (S k) l). rewrite (IH k) by lia. reflexivity.
Qed.

Lemma filter_full {A} (f : A -> bool) : forall l, length (filter f l) = length l -> forall x, In x l -> f x = true.
Proof.
  induction l as [|a l IH]; intros Hl x Hx; [destruct Hx|].
  assert (Hle : forall l', length (filter f l') <= length l').
  { induction l' as [|b l' IH']; cbn [filter length]; [lia|]. destruct (f b); cbn [length]; lia. }
  cbn [filter] in Hl. destruct (f a) eqn:Ea; cbn [length] in Hl.
  - destruct Hx as [<-|Hx]; [exact Ea|]. apply IH; [lia|exact Hx].
  - specialize (Hle l). lia.
Qed.

Lemma dpath_lt p i k : dpath (dep_fn p) i k -> i < k.
Proof.
  induction 1 as [i k Hi|i j k _ IH Hj].
  - exact (dtd_back p k i Hi).
  - pose proof (dtd_back p k j Hj). lia.
Qed.

Section Flush.
Variable owner : datum -> rank.
Variable body : tid -> list value -> value.
Variable fp : fprog.
Variable waits : list nat.
Variable g : nat -> nat -> bool.
Variable m0 : mem.

Notation p := (prog_of fp).
Notation body' := (fbody_of body fp).
Notation gate := (wait_gate waits g).
Notation dep := (rdep owner fp).
Notation T k := (task_at p k).
Notation F k := (ftask_at fp k).
Notation pm := (prefix_mem body' p m0).
Notation ip := (inpl owner fp).

Lemma task_at_prog k : T k = acc_of (F k).
Proof. exact (map_nth acc_of fp fnone k). Qed.
Lemma prog_length : length p = length fp.
Proof. apply map_length. Qed.

(* ---- the API contract ---- *)
Definition wf : Prop := forall f k d, f < k -> k < length fp -> F f = FFlush (owner d) d ->
  touches (T k) d = true -> exists w, In w waits /\ f < w /\ w <= k.

Lemma wfb_wf : wfb owner fp waits = true -> wf.
Proof.
  intros H f k d Hfk Hk HF Ht. unfold wfb in H. rewrite forallb_forall in H.
  specialize (H f). rewrite HF in H. rewrite Nat.eqb_refl in H. cbn [negb orb] in H.
  assert (Hin : In f (seq 0 (length fp))) by (apply in_seq; lia).
  specialize (H Hin). rewrite forallb_forall in H. specialize (H k).
  assert (Hink : In k (seq (S f) (length fp - S f))) by (apply in_seq; lia).
  specialize (H Hink). rewrite <- task_at_prog, Ht in H. cbn [negb orb] in H.
  apply existsb_exists in H. destruct H as (w & Hw & Hc). apply andb_true_iff in Hc. destruct Hc as [Ha Hb].
  apply Nat.ltb_lt in Ha. apply Nat.leb_le in Hb. exists w. auto.
Qed.

(* ---- the last wait point at or before k ---- *)
Definition lastwait (k : nat) : nat := fold_right (fun w acc => if w <=? k then Nat.max w acc else acc) 0 waits.
Lemma lastwait_gen k : forall l, let r := fold_right (fun w acc => if w <=? k then Nat.max w acc else acc) 0 l in
  r <= k /\ (forall w, In w l -> w <= k -> w <= r) /\ (r = 0 \/ In r l).
Proof.
  induction l as [|a l (IH1 & IH2 & IH3)]; cbn [fold_right].
  - repeat split; [lia| |now left]. intros w [].
  - destruct (a <=? k) eqn:Ea.
    + apply Nat.leb_le in Ea. repeat split.
      * lia.
      * intros w [<-|Hw] Hle; [lia|]. specialize (IH2 w Hw Hle). lia.
      * destruct (Nat.max_spec a (fold_right (fun w acc => if w <=? k then Nat.max w acc else acc) 0 l)) as [[_ ->]|[_ ->]].
        -- destruct IH3 as [->|H]; [now left|right; now right].
        -- right. now left.
    + apply Nat.leb_gt in Ea. repeat split.
      * exact IH1.
      * intros w [<-|Hw] Hle; [lia|]. now apply IH2.
      * destruct IH3 as [->|H]; [now left|right; now right].
Qed.
Lemma lastwait_le k : lastwait k <= k.
Proof. apply (lastwait_gen k waits). Qed.
Lemma lastwait_ge k w : In w waits -> w <= k -> w <= lastwait k.
Proof. apply (lastwait_gen k waits). Qed.
Lemma lastwait_in k : lastwait k = 0 \/ In (lastwait k) waits.
Proof. apply (lastwait_gen k waits). Qed.

(* the dependencies of the proof: those of the model plus "everything before the last wait" *)
Definition dep' (k : tid) : list tid := dep k ++ seq 0 (lastwait k).

Lemma back' k j : In j (dep' k) -> j < k.
Proof.
  intros H. apply in_app_or in H. destruct H as [H|H].
  - unfold rdep in H. apply filter_In in H. exact (dtd_back p k j (proj1 H)).
  - apply in_seq in H. pose proof (lastwait_le k). lia.
Qed.

Lemma recv_shape j : is_recv owner (F j) = true -> exists d, F j = FFlush (owner d) d.
Proof.
  destruct (F j) as [r t|r d] eqn:E; cbn [is_recv]; intros H; [discriminate|].
  apply Nat.eqb_eq in H. subst r. now exists d.
Qed.

Lemma edge' : wf -> forall k j, k < length fp -> In j (dep_fn p k) -> In j (dep' k) \/ forall i, i <= j -> In i (dep' k).
Proof.
  intros Hwf k j Hk Hj. destruct (is_recv owner (F j)) eqn:Er.
  - right. destruct (recv_shape j Er) as (d & HF).
    pose proof (dtd_back p k j Hj) as Hlt.
    assert (Ht : touches (T k) d = true).
    { destruct (dtd_sound p k j Hj) as (d' & Ha & Hb & _). rewrite task_at_prog, HF in Ha. cbn [acc_of] in Ha.
      rewrite touches_one in Ha. cbn [fst] in Ha. apply Nat.eqb_eq in Ha. now subst d'. }
    destruct (Hwf j k d Hlt Hk HF Ht) as (w & Hw & Hjw & Hwk).
    pose proof (lastwait_ge k w Hw Hwk). intros i Hi. apply in_or_app. right. apply in_seq. lia.
  - left. apply in_or_app. left. unfold rdep. apply filter_In. split; [exact Hj|]. now rewrite Er.
Qed.

Lemma path' : wf -> forall i k, dpath (dep_fn p) i k -> k < length fp -> dpath dep' i k.
Proof.
  intros Hwf i k H. induction H as [i k Hi|i j k Hp IH Hj]; intros Hk.
  - destruct (edge' Hwf k i Hk Hi) as [H|H]; apply dp_edge; [exact H|apply H; lia].
  - pose proof (dtd_back p k j Hj) as Hjk. pose proof (dpath_lt p i j Hp) as Hij.
    destruct (edge' Hwf k j Hk Hj) as [H|H].
    + apply dp_trans with j; [apply IH; lia|exact H].
    + apply dp_edge. apply H. lia.
Qed.

Lemma cover' : wf -> forall k i, k < length p -> i < k -> conflict (T i) (T k) -> dpath dep' i k.
Proof.
  intros Hwf k i Hk Hi Hc. apply path'; [exact Hwf| |now rewrite <- prog_length].
  now apply chain_edges_complete.
Qed.

(* ---- waits: everything before a passed wait point is done ---- *)
Definition Wt (s : state) : Prop := forall w, In w waits -> w < ins s -> forall j, j < w -> st s j = Done.

Lemma count_done_full s : count_done s = ins s -> forall j, j < ins s -> st s j = Done.
Proof.
  unfold count_done. intros H j Hj. apply is_done_iff.
  apply (filter_full (fun j => is_done (st s j)) (seq 0 (ins s))); [now rewrite seq_length|apply in_seq; lia].
Qed.

Lemma Wt_step dep0 s e : Wt s -> Wt (step body' p dep0 gate s e).
Proof.
  intros HW. destruct e as [|t|t]; unfold step.
  - destruct (can_insert p gate s) eqn:Eg; [|exact HW].
    intros w Hw Hlt j Hj. cbn [ins st] in *.
    destruct (Nat.eq_dec w (ins s)) as [->|Hne]; [|apply (HW w Hw); lia].
    unfold can_insert in Eg. apply andb_true_iff in Eg. destruct Eg as [_ Eg].
    unfold wait_gate in Eg. apply andb_true_iff in Eg. destruct Eg as [_ Eg].
    assert (Hex : existsb (Nat.eqb (ins s)) waits = true).
    { apply existsb_exists. exists (ins s). split; [exact Hw|apply Nat.eqb_refl]. }
    rewrite Hex in Eg. cbn [negb orb] in Eg. apply Nat.eqb_eq in Eg. now apply count_done_full.
  - destruct (can_begin dep0 s t) eqn:Eg; [|exact HW].
    intros w Hw Hlt j Hj. cbn [ins st] in *.
    unfold can_begin in Eg. apply andb_true_iff in Eg. destruct Eg as [Eg _].
    apply andb_true_iff in Eg. destruct Eg as [_ Hidle]. apply is_idle_iff in Hidle.
    specialize (HW w Hw Hlt j Hj). rewrite fupd_other; [exact HW|]. intros ->. congruence.
  - destruct (can_end s t) eqn:Eg; [|exact HW].
    intros w Hw Hlt j Hj. cbn [ins st] in *. specialize (HW w Hw Hlt j Hj).
    destruct (Nat.eq_dec j t) as [->|Hne]; [apply fupd_same|now rewrite fupd_other].
Qed.

Lemma can_begin_eq s t : Wt s -> can_begin dep' s t = can_begin dep s t.
Proof.
  intros HW. unfold can_begin, dep'. rewrite forallb_app.
  destruct (t <? ins s) eqn:Et; [|reflexivity]. apply Nat.ltb_lt in Et.
  assert (H : forallb (fun j => is_done (st s j)) (seq 0 (lastwait t)) = true).
  { apply forallb_forall. intros j Hj. apply in_seq in Hj. apply is_done_iff.
    destruct (lastwait_in t) as [H0|Hin]; [lia|]. pose proof (lastwait_le t).
    apply (HW (lastwait t) Hin); lia. }
  now rewrite H, andb_true_r.
Qed.

Lemma step_eq s e : Wt s -> step body' p dep' gate s e = step body' p dep gate s e.
Proof. intros HW. destruct e as [|t|t]; unfold step; [reflexivity| |reflexivity]. now rewrite can_begin_eq. Qed.

Lemma fold_eq : forall es s, Wt s ->
  fold_left (step body' p dep' gate) es s = fold_left (step body' p dep gate) es s /\
  Wt (fold_left (step body' p dep gate) es s).
Proof.
  induction es as [|e es IH]; intros s HW; cbn [fold_left]; [now split|].
  rewrite step_eq by exact HW. apply IH. now apply Wt_step.
Qed.

Lemma Wt_init : Wt (init m0).
Proof. intros w _ H. cbn in H. lia. Qed.

Lemma run_eq es : run body' p dep gate m0 es = run body' p dep' gate m0 es.
Proof. unfold run. symmetry. apply fold_eq. apply Wt_init. Qed.
Lemma run_Wt es : Wt (run body' p dep gate m0 es).
Proof. unfold run. apply fold_eq. apply Wt_init. Qed.

Lemma eng_fold : forall es s, eng (fold_left (fstep owner body fp waits g) es s) =
  fold_left (step body' p dep gate) es (eng s).
Proof. induction es as [|e es IH]; intros s; cbn [fold_left]; [reflexivity|]. now rewrite IH. Qed.
Lemma eng_frun es : eng (frun owner body fp waits g m0 es) = run body' p dep gate m0 es.
Proof. unfold frun, run. now rewrite eng_fold. Qed.

Hypothesis Hwf : wf.

Lemma inv_eng es : Inv body' p dep' m0 (eng (frun owner body fp waits g m0 es)).
Proof. rewrite eng_frun, run_eq. apply inv_run; [apply back'|now apply cover']. Qed.

(* ---- the owner's storage ---- *)
Lemma inpl_S k : k < length fp -> ip (S k) = inpl_step owner (ip k) (F k).
Proof.
  intros Hk. unfold inpl. rewrite (firstn_snoc fnone fp k Hk), fold_left_app. reflexivity.
Qed.
Lemma inpl_over k : length fp <= k -> ip (S k) = ip k.
Proof. intros Hk. unfold inpl. rewrite !firstn_all2 by lia. reflexivity. Qed.

Lemma inpl_step_other f d x : writes (acc_of f) d = false -> inpl_step owner x f d = x d.
Proof.
  destruct f as [r t|r d0]; cbn [acc_of inpl_step]; intros H.
  - now rewrite H.
  - rewrite writes_one in H. cbn [fst snd is_write] in H. rewrite andb_true_r in H.
    rewrite Nat.eqb_sym. now rewrite H.
Qed.

Lemma inpl_stable d a : forall b, a <= b -> (forall j, a <= j < b -> writes (T j) d = false) -> ip b d = ip a d.
Proof.
  induction b as [|b IH]; intros Hle Hw.
  - now replace a with 0 by lia.
  - destruct (Nat.eq_dec a (S b)) as [->|Hne]; [reflexivity|].
    rewrite <- IH by (try lia; intros j Hj; apply Hw; lia).
    destruct (Nat.lt_ge_cases b (length fp)) as [Hb|Hb].
    + rewrite (inpl_S b Hb). apply inpl_step_other. rewrite <- task_at_prog. apply Hw. lia.
    + now rewrite (inpl_over b Hb).
Qed.

Definition HI (s : fstate) : Prop := forall d k,
  (forall i, i < k -> writes (T i) d = true -> st (eng s) i = Done) ->
  (forall i, k <= i -> writes (T i) d = true -> st (eng s) i <> Done) ->
  ip k d = true -> home s d = pm k d.

Lemma HI_init : HI (finit m0).
Proof.
  intros d k Ha _ _. cbn [finit home]. symmetry.
  apply (prefix_mem_stable body' p m0 d 0 k); [lia|].
  intros j Hj. destruct (writes (T j) d) eqn:E; [|reflexivity].
  specialize (Ha j (proj2 Hj) E). cbn in Ha. discriminate.
Qed.

Lemma flush_value k r d : F k = FFlush r d -> body' k (inputs (T k) (pm k)) = pm k d.
Proof.
  intros HF. unfold fbody_of. rewrite HF, task_at_prog, HF. reflexivity.
Qed.

Lemma HI_step s e : Inv body' p dep' m0 (eng s) -> HI s -> HI (fstep owner body fp waits g s e).
Proof.
  intros HInv HH. pose proof HInv as [H0 H1 H2 H3 H3n H4 H5].
  destruct e as [|t|t].
  - (* Insert: no status changes *)
    intros d k Ha Hb Hi. cbn [fstep fstep_with home eng] in *. unfold step in Ha, Hb.
    destruct (can_insert p gate (eng s)); cbn [st] in Ha, Hb; now apply HH.
  - (* Begin: Idle -> Running *)
    intros d k Ha Hb Hi. cbn [fstep fstep_with home eng] in *. unfold step in Ha, Hb.
    destruct (can_begin dep (eng s) t) eqn:Eg; cbn [st] in Ha, Hb; [|now apply HH].
    unfold can_begin in Eg. apply andb_true_iff in Eg. destruct Eg as [Eg _].
    apply andb_true_iff in Eg. destruct Eg as [_ Hidle]. apply is_idle_iff in Hidle.
    apply HH; [| |exact Hi].
    + intros i Hik Hw. specialize (Ha i Hik Hw). destruct (Nat.eq_dec i t) as [->|Hne].
      * rewrite fupd_same in Ha. discriminate.
      * now rewrite fupd_other in Ha.
    + intros i Hik Hw. specialize (Hb i Hik Hw). destruct (Nat.eq_dec i t) as [->|Hne]; [congruence|].
      now rewrite fupd_other in Hb.
  - (* End *)
    intros d k Ha Hb Hi. cbn [fstep fstep_with home eng] in *. unfold step in Ha, Hb.
    destruct (can_end (eng s) t) eqn:Eg; cbn [st] in Ha, Hb; [|now apply HH].
    unfold can_end in Eg. apply is_running_iff in Eg.
    assert (Hnid : st (eng s) t <> Idle) by congruence.
    rewrite (H3 t Hnid).
    assert (Hlen : t < length fp) by (specialize (H1 t Hnid); rewrite prog_length in H0; lia).
    destruct (writes (T t) d) eqn:Ew.
    + (* t is the latest finished writer of d *)
      pose proof Ew as Ewt.
      assert (Htk : t < k).
      { destruct (Nat.lt_ge_cases t k) as [Hl|Hg]; [exact Hl|]. specialize (Hb t Hg Ew). rewrite fupd_same in Hb. congruence. }
      assert (Hnone : forall j, t < j < k -> writes (T j) d = false).
      { intros j Hj. destruct (writes (T j) d) eqn:Ewj; [|reflexivity]. exfalso.
        assert (Hjd : st (eng s) j = Done).
        { specialize (Ha j (proj2 Hj) Ewj). rewrite fupd_other in Ha by lia. exact Ha. }
        assert (Hc : conflict (T t) (T j)).
        { exists d. repeat split; auto; now apply writes_touches. }
        assert (Hjn : st (eng s) j <> Idle) by congruence.
        pose proof (begun_after body' p dep' m0 (cover' Hwf) (eng s) HInv j t Hjn (proj1 Hj) Hc). congruence. }
      assert (Hpm : pm k d = body' t (inputs (T t) (pm t))).
      { rewrite (prefix_mem_stable body' p m0 d (S t) k); [|lia|intros j Hj; apply Hnone; lia].
        now apply prefix_mem_written. }
      assert (Hip : ip (S t) d = true).
      { rewrite <- (inpl_stable d (S t) k); [exact Hi|lia|intros j Hj; apply Hnone; lia]. }
      rewrite Hpm. rewrite (inpl_S t Hlen) in Hip.
      unfold home_update. pose proof (task_at_prog t) as HT.
      destruct (F t) as [r tk|r d0] eqn:EF; cbn [acc_of] in HT; cbn [inpl_step] in Hip.
      * rewrite HT in Ew. rewrite Ew in Hip |- *. cbn [andb] in Hip |- *.
        destruct (Nat.eqb r (owner d)); cbn [negb andb] in Hip |- *; [|discriminate]. now rewrite Hip.
      * rewrite HT, writes_one in Ew. cbn [fst snd is_write] in Ew. rewrite andb_true_r in Ew.
        apply Nat.eqb_eq in Ew. subst d0. rewrite Nat.eqb_refl in Hip |- *. rewrite Hip. cbn [andb].
        destruct (ip t d) eqn:Eit; cbn [negb]; [|reflexivity].
        (* the input already is the owner's storage: nothing is copied *)
        rewrite (flush_value t r d EF). apply HH; [| |exact Eit].
        -- intros i Hit Hw. apply (begun_after body' p dep' m0 (cover' Hwf) (eng s) HInv t i Hnid Hit).
           exists d. split; [now apply writes_touches|]. split; [apply writes_touches; exact Ewt|]. left. exact Hw.
        -- intros i Hit Hw. destruct (Nat.eq_dec i t) as [->|Hne]; [congruence|].
           destruct (Nat.lt_ge_cases i k) as [Hl|Hg].
           ++ rewrite Hnone in Hw by lia. discriminate.
           ++ specialize (Hb i Hg Hw). now rewrite fupd_other in Hb.
    + (* t does not write d *)
      assert (Hsame : home_update owner fp t (body' t (inputs (T t) (pm t))) (home s) d = home s d).
      { unfold home_update. pose proof (task_at_prog t) as HT.
        destruct (F t) as [r tk|r d0]; cbn [acc_of] in HT.
        - rewrite HT in Ew. now rewrite Ew.
        - rewrite HT, writes_one in Ew. cbn [fst snd is_write] in Ew. rewrite andb_true_r in Ew.
          rewrite Nat.eqb_sym, Ew. reflexivity. }
      rewrite Hsame. apply HH; [| |exact Hi].
      * intros i Hik Hw. specialize (Ha i Hik Hw). destruct (Nat.eq_dec i t) as [->|Hne]; [congruence|].
        now rewrite fupd_other in Ha.
      * intros i Hik Hw. specialize (Hb i Hik Hw). destruct (Nat.eq_dec i t) as [->|Hne]; [congruence|].
        now rewrite fupd_other in Hb.
Qed.

Lemma frun_snoc es e : frun owner body fp waits g m0 (es ++ [e]) =
  fstep owner body fp waits g (frun owner body fp waits g m0 es) e.
Proof. unfold frun. now rewrite fold_left_app. Qed.

Theorem home_inv es : HI (frun owner body fp waits g m0 es).
Proof.
  induction es as [|e es IH] using rev_ind; [apply HI_init|].
  rewrite frun_snoc. apply HI_step; [apply inv_eng|exact IH].
Qed.

(* ---- consequences ---- *)
(* a quiescent state with w tasks inserted (what parsec_taskpool_wait returns in) *)
Definition quiescent (s : fstate) (w : nat) : Prop := ins (eng s) = w /\ forall j, j < w -> st (eng s) j = Done.

Theorem owner_copy_after_wait es w d :
  quiescent (frun owner body fp waits g m0 es) w -> ip w d = true ->
  home (frun owner body fp waits g m0 es) d = pm w d.
Proof.
  intros [Hins Hd] Hi. apply (home_inv es); [intros i Hiw _; now apply Hd| |exact Hi].
  intros i Hiw _ Hdone. pose proof (inv_eng es) as [_ H1 _ _ _ _ _].
  assert (i < ins (eng (frun owner body fp waits g m0 es))) by (apply H1; congruence). lia.
Qed.

Theorem owner_copy_final es d :
  all_done p (eng (frun owner body fp waits g m0 es)) = true -> ip (length fp) d = true ->
  home (frun owner body fp waits g m0 es) d = snd (seq_dtd body' p m0) d.
Proof.
  intros Hd Hi. rewrite seq_final, prog_length. apply owner_copy_after_wait; [|exact Hi].
  unfold all_done in Hd. apply andb_true_iff in Hd. destruct Hd as [Hn Hd]. apply Nat.eqb_eq in Hn.
  rewrite forallb_forall in Hd. rewrite prog_length in Hn, Hd. split; [exact Hn|].
  intros j Hj. apply is_done_iff. apply Hd. apply in_seq. lia.
Qed.

(* what every task observes, and the current versions at the end: the sequential values *)
Theorem flush_observations es :
  let s := eng (frun owner body fp waits g m0 es) in
  (forall t i, obs s t = Some i -> t < length p /\ i = nth t (fst (seq_dtd body' p m0)) []) /\
  (all_done p s = true -> forall d, memo s d = snd (seq_dtd body' p m0) d).
Proof.
  cbv zeta. rewrite eng_frun, run_eq. apply dag_serialisable; [apply back'|now apply cover'].
Qed.

(* no reachable state is stuck before everything is done *)
Theorem flush_progress : (forall i, g i i = true) -> forall es,
  all_done p (eng (frun owner body fp waits g m0 es)) = false ->
  exists e, enabled p dep gate (eng (frun owner body fp waits g m0 es)) e = true.
Proof.
  intros Hg es Hnd. rewrite eng_frun in *. pose proof (run_Wt es) as HW. rewrite run_eq in *.
  assert (Hgate : forall i, gate i i = true).
  { intros i. unfold wait_gate. now rewrite Hg, Nat.eqb_refl, orb_true_r. }
  destruct (progress body' p dep' gate m0 back' (cover' Hwf) Hgate es Hnd) as (e & He).
  exists e. destruct e as [|t|t]; cbn [enabled] in *; [exact He| |exact He].
  now rewrite <- can_begin_eq.
Qed.
End Flush.

(* ---- a receive-side flush makes the owner's storage current, and it stays so until a task placed
   on another rank writes the tile ---- *)
Lemma inpl_after_flush owner fp f d : f < length fp -> ftask_at fp f = FFlush (owner d) d ->
  forall w, f < w ->
  (forall j r t, f < j < w -> ftask_at fp j = FUser r t -> writes t d = true -> r = owner d) ->
  (forall j r, f < j < w -> ftask_at fp j = FFlush r d -> r = owner d) ->
  inpl owner fp w d = true.
Proof.
  intros Hf HF. induction w as [|w IH]; intros Hw Hu Hfl; [lia|].
  destruct (Nat.lt_ge_cases w (length fp)) as [Hl|Hg].
  - rewrite (inpl_S owner fp w Hl). destruct (Nat.eq_dec w f) as [->|Hne].
    + rewrite HF. cbn [inpl_step]. now rewrite !Nat.eqb_refl.
    + assert (Hprev : inpl owner fp w d = true).
      { apply IH; [lia| |]; intros; [eapply Hu|eapply Hfl]; eauto; lia. }
      destruct (ftask_at fp w) as [r t|r d0] eqn:E; cbn [inpl_step].
      * destruct (writes t d) eqn:Ewr; cbn [andb]; [|exact Hprev].
        rewrite (Hu w r t) by (auto; lia). now rewrite Nat.eqb_refl.
      * destruct (Nat.eqb d d0) eqn:Ed; [|exact Hprev]. apply Nat.eqb_eq in Ed. subst d0.
        rewrite (Hfl w r) by (auto; lia). apply Nat.eqb_refl.
  - rewrite (inpl_over owner fp w Hg). apply IH; [lia| |]; intros; [eapply Hu|eapply Hfl]; eauto; lia.
Qed.
