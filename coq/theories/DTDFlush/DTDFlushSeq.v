(* Sequential facts: flush tasks are transparent for the sequential reference (the run over
   all tasks restricted to the user tasks is the run of the user tasks alone), and the final
   value of a datum is the output of the last task that writes it. *)
From PV Require Import Base.Tac DTD.DTDDefs DTD.DTDSeq DTD.DTDChain DTDFlush.DTDFlushDefs.

Lemma exec_task_ext b k t m1 m2 : (forall d, m1 d = m2 d) -> forall d, exec_task b k t m1 d = exec_task b k t m2 d.
Proof.
  intros H d. unfold exec_task, write_back. rewrite (inputs_ext t m1 m2) by (intros; apply H).
  destruct (writes t d); [reflexivity|apply H].
Qed.

Lemma seq_run_ext b : forall p k m1 m2, (forall d, m1 d = m2 d) ->
  fst (seq_run b k p m1) = fst (seq_run b k p m2) /\ forall d, snd (seq_run b k p m1) d = snd (seq_run b k p m2) d.
Proof.
  induction p as [|t p IH]; intros k m1 m2 H; cbn [seq_run fst snd]; [split; [reflexivity|exact H]|].
  destruct (IH (S k) (exec_task b k t m1) (exec_task b k t m2) (exec_task_ext b k t m1 m2 H)) as [Ha Hb].
  split; [|exact Hb]. rewrite Ha. f_equal. apply inputs_ext. intros d _. apply H.
Qed.

Lemma uprog_app a b : uprog (a ++ b) = uprog a ++ uprog b.
Proof. unfold uprog. apply flat_map_app. Qed.

Section Erase.
Variable body : tid -> list value -> value.
Variable fp : fprog.
Notation body' := (fbody_of body fp).

Lemma ftask_at_mid pre f suf : fp = pre ++ f :: suf -> ftask_at fp (length pre) = f.
Proof. intros ->. unfold ftask_at. rewrite app_nth2 by lia. now rewrite Nat.sub_diag. Qed.
Lemma uid_mid pre suf : fp = pre ++ suf -> uid fp (length pre) = length (uprog pre).
Proof.
  intros ->. unfold uid. rewrite firstn_app, Nat.sub_diag, firstn_all. cbn [firstn]. now rewrite app_nil_r.
Qed.

Lemma flush_exec k r d m : ftask_at fp k = FFlush r d -> forall x, exec_task body' k [(d, RW)] m x = m x.
Proof.
  intros HF x. unfold exec_task, write_back, fbody_of. rewrite HF. rewrite writes_one. cbn [fst snd is_write inputs filter is_read map hd].
  rewrite andb_true_r. destruct (Nat.eqb d x) eqn:E; [|reflexivity]. apply Nat.eqb_eq in E. now subst.
Qed.

Lemma erase_run : forall suf pre m, fp = pre ++ suf ->
  users suf (fst (seq_run body' (length pre) (prog_of suf) m)) = fst (seq_run body (length (uprog pre)) (uprog suf) m) /\
  forall d, snd (seq_run body' (length pre) (prog_of suf) m) d = snd (seq_run body (length (uprog pre)) (uprog suf) m) d.
Proof.
  induction suf as [|f suf IH]; intros pre m Hfp; [split; reflexivity|].
  assert (Hfp' : fp = (pre ++ [f]) ++ suf) by (rewrite <- app_assoc; exact Hfp).
  specialize (IH (pre ++ [f])). rewrite app_length in IH. cbn [length] in IH. rewrite Nat.add_1_r in IH.
  pose proof (ftask_at_mid pre f suf Hfp) as HF.
  destruct f as [r t|r d0].
  - (* user task: same body, same number *)
    change (prog_of (FUser r t :: suf)) with (t :: prog_of suf).
    change (uprog (FUser r t :: suf)) with (t :: uprog suf).
    cbn [seq_run fst snd users].
    assert (He : exec_task body' (length pre) t m = exec_task body (length (uprog pre)) t m).
    { unfold exec_task, fbody_of. rewrite HF. now rewrite (uid_mid pre (FUser r t :: suf) Hfp). }
    rewrite He. rewrite uprog_app, app_length in IH. cbn [uprog flat_map app length] in IH. rewrite Nat.add_1_r in IH.
    destruct (IH (exec_task body (length (uprog pre)) t m) Hfp') as [Ha Hb].
    split; [now rewrite Ha|exact Hb].
  - (* flush task: the memory is unchanged *)
    change (prog_of (FFlush r d0 :: suf)) with ([(d0, RW)] :: prog_of suf).
    change (uprog (FFlush r d0 :: suf)) with (uprog suf).
    cbn [seq_run fst snd users].
    rewrite uprog_app in IH. cbn [uprog flat_map app] in IH. rewrite app_nil_r in IH.
    destruct (IH (exec_task body' (length pre) [(d0, RW)] m) Hfp') as [Ha Hb].
    destruct (seq_run_ext body (uprog suf) (length (uprog pre)) (exec_task body' (length pre) [(d0, RW)] m) m
                (flush_exec (length pre) r d0 m HF)) as [Hc Hd].
    split; [now rewrite Ha, Hc|]. intros d. now rewrite Hb, Hd.
Qed.
End Erase.

(* flushes (any number, anywhere, of any tile) change neither what the tasks observe nor the values *)
Theorem flush_transparent body fp m0 :
  users fp (fst (seq_dtd (fbody_of body fp) (prog_of fp) m0)) = fst (seq_dtd body (uprog fp) m0) /\
  forall d, snd (seq_dtd (fbody_of body fp) (prog_of fp) m0) d = snd (seq_dtd body (uprog fp) m0) d.
Proof. exact (erase_run body fp fp [] m0 eq_refl). Qed.

(* the final value of a datum: the output of the last task that writes it, or the initial value *)
Theorem seq_final_unwritten b p m0 d :
  (forall j, j < length p -> writes (task_at p j) d = false) -> snd (seq_dtd b p m0) d = m0 d.
Proof.
  intros H. rewrite seq_final. apply (prefix_mem_stable b p m0 d 0 (length p)); [lia|]. intros j Hj. apply H. lia.
Qed.
Theorem seq_final_last_writer b p m0 d j : j < length p -> writes (task_at p j) d = true ->
  (forall i, j < i < length p -> writes (task_at p i) d = false) ->
  snd (seq_dtd b p m0) d = b j (nth j (fst (seq_dtd b p m0)) []).
Proof.
  intros Hj Hw Hn. rewrite seq_final, seq_inputs_nth by exact Hj.
  rewrite (prefix_mem_stable b p m0 d (S j) (length p)); [now apply prefix_mem_written|lia|].
  intros i Hi. apply Hn. lia.
Qed.

(* a task that only reads (whatever part of the tiles it looks at) changes no value, does not move the
   version of any tile and leaves the owner's storage alone: what a later flush returns does not depend on it *)
Lemma read_only_transparent owner b k r t : (forall d, writes t d = false) ->
  (forall m d, exec_task b k t m d = m d) /\
  (forall ip d, inpl_step owner ip (FUser r t) d = ip d) /\
  (forall fp j v h d, ftask_at fp j = FUser r t -> home_update owner fp j v h d = h d).
Proof.
  intros H. split; [|split].
  - intros m d. unfold exec_task, write_back. now rewrite H.
  - intros ip d. cbn [inpl_step]. now rewrite H.
  - intros fp j v h d HF. unfold home_update. rewrite HF. now rewrite H.
Qed.
