(* Multiset reasoning on lists of tasks by counting occurrences: a goal
   [Permutation l l'] built from [++], [::] and hypotheses of the same form
   becomes linear arithmetic over occurrence counts ([perm]). *)
From PV Require Import Base.Tac HeapBuf.HeapBufDefs.
From Coq Require Export Permutation.

Lemma task_eq_dec (a b : task) : {a = b} + {a <> b}.
Proof. decide equality; apply Z.eq_dec. Qed.

Definition opt {A} (o : option A) : list A := match o with Some t => [t] | None => [] end.

Definition occ (z : task) (l : list task) : nat := count_occ task_eq_dec l z.

Lemma occ_nil z : occ z [] = 0%nat.
Proof. reflexivity. Qed.
Lemma occ_cons z a l : occ z (a :: l) = (occ z [a] + occ z l)%nat.
Proof. unfold occ. cbn [count_occ]. destruct (task_eq_dec a z); reflexivity. Qed.
Lemma occ_app z l1 l2 : occ z (l1 ++ l2) = (occ z l1 + occ z l2)%nat.
Proof. unfold occ. apply count_occ_app. Qed.
Lemma perm_occ l1 l2 : Permutation l1 l2 <-> forall z, occ z l1 = occ z l2.
Proof. unfold occ. apply Permutation_count_occ. Qed.

(* rewrite every [occ z (a :: l)] with non-empty tail, [occ z (l1 ++ l2)], [occ z []] *)
Ltac occ_norm :=
  repeat match goal with
  | |- context[occ ?z (?l1 ++ ?l2)] => rewrite (occ_app z l1 l2)
  | |- context[occ ?z (?a :: ?l)] => lazymatch l with [] => fail | _ => rewrite (occ_cons z a l) end
  | |- context[occ ?z []] => rewrite (occ_nil z)
  | H : context[occ ?z (?l1 ++ ?l2)] |- _ => rewrite (occ_app z l1 l2) in H
  | H : context[occ ?z (?a :: ?l)] |- _ => lazymatch l with [] => fail | _ => rewrite (occ_cons z a l) in H end
  | H : context[occ ?z []] |- _ => rewrite (occ_nil z) in H
  end.

Ltac perm :=
  repeat match goal with H : Permutation _ _ |- _ => rewrite perm_occ in H end;
  apply perm_occ; let z := fresh "z" in intro z;
  repeat match goal with H : forall y, occ y _ = occ y _ |- _ => specialize (H z) end;
  cbn [app opt] in *; occ_norm; lia.
