(* Bit-level facts behind the index arithmetic of maxheap.c: the walk along
   the binary digits of [size] (most significant first), its successor, the
   value of a digit list, hiBit, and the sub-heap sizes of the split. *)
From PV Require Import Base.Tac HeapBuf.HeapBufDefs.
From Coq Require Import NArith.
Local Open Scope N_scope.

(* ---- digits after the leading 1, most significant first ---- *)
(* ripple-carry increment seen from the head of the list; the flag is the
   carry out of the digits (all digits were 1) *)
Fixpoint inc (l : list bool) : list bool * bool :=
  match l with
  | [] => ([], true)
  | b :: r =>
      let (r', c) := inc r in
      if c then (if b then (false :: r', true) else (true :: r', false)) else (b :: r', false)
  end.
Definition succ_bits (l : list bool) : list bool :=
  let (l', c) := inc l in if c then false :: l' else l'.

Lemma inc_snoc_false l : inc (l ++ [false]) = (l ++ [true], false).
Proof. induction l as [|b l IH]; [reflexivity|]. cbn [app inc]. now rewrite IH. Qed.

Lemma inc_snoc_true l : inc (l ++ [true]) = (fst (inc l) ++ [false], snd (inc l)).
Proof.
  induction l as [|b l IH]; [reflexivity|]. cbn [app inc]. rewrite IH.
  destruct (inc l) as [l' c]. cbn [fst snd]. destruct c, b; reflexivity.
Qed.

Lemma path_succ p : path_pos (Pos.succ p) = succ_bits (path_pos p).
Proof.
  induction p as [p IH|p IH|]; cbn [Pos.succ path_pos].
  - rewrite IH. unfold succ_bits. rewrite inc_snoc_true.
    destruct (inc (path_pos p)) as [l' c]. cbn [fst snd]. now destruct c.
  - unfold succ_bits. now rewrite inc_snoc_false.
  - reflexivity.
Qed.

Lemma inc_length l : length (fst (inc l)) = length l.
Proof.
  induction l as [|b l IH]; [reflexivity|]. cbn [inc]. destruct (inc l) as [l' c].
  cbn [fst] in IH. destruct c, b; cbn [fst length]; now rewrite IH.
Qed.

Lemma inc_carry l l' : inc l = (l', true) ->
  l = repeat true (length l) /\ l' = repeat false (length l).
Proof.
  revert l'; induction l as [|b l IH]; intros l' H; cbn [inc] in H.
  - inv H. split; reflexivity.
  - destruct (inc l) as [r' c]. destruct c; [|discriminate]. destruct b; [|discriminate]. inv H.
    destruct (IH _ eq_refl) as [H1 H2]. cbn [length repeat]. split; f_equal; assumption.
Qed.

(* ---- value of a digit list ---- *)
Fixpoint val0 (l : list bool) : N :=
  match l with
  | [] => 0
  | b :: r => (if b then 2 ^ N.of_nat (length r) else 0) + val0 r
  end.
Definition val (l : list bool) : N := 2 ^ N.of_nat (length l) + val0 l.

Lemma pow2_S (k : nat) : 2 ^ N.of_nat (S k) = 2 * 2 ^ N.of_nat k.
Proof. rewrite Nat2N.inj_succ. apply N.pow_succ_r'. Qed.
Lemma pow2_pos (k : N) : 0 < 2 ^ k.
Proof. apply N.neq_0_lt_0. apply N.pow_nonzero. discriminate. Qed.

Lemma val0_lt l : val0 l < 2 ^ N.of_nat (length l).
Proof.
  induction l as [|b l IH]; cbn [val0 length].
  - reflexivity.
  - rewrite pow2_S. destruct b; lia.
Qed.

Lemma val_cons b r : val (b :: r) =
  2 * 2 ^ N.of_nat (length r) + (if b then 2 ^ N.of_nat (length r) else 0) + val0 r.
Proof. unfold val. cbn [length val0]. rewrite pow2_S. lia. Qed.

Lemma val0_snoc l b : val0 (l ++ [b]) = 2 * val0 l + (if b then 1 else 0).
Proof.
  induction l as [|a l IH]; cbn [app val0 length].
  - destruct b; reflexivity.
  - rewrite IH, app_length. cbn [length]. rewrite Nat.add_1_r, pow2_S. destruct a; lia.
Qed.

Lemma val_snoc l b : val (l ++ [b]) = 2 * val l + (if b then 1 else 0).
Proof. unfold val. rewrite val0_snoc, app_length. cbn [length]. rewrite Nat.add_1_r, pow2_S. lia. Qed.

Lemma val_path p : val (path_pos p) = Npos p.
Proof.
  induction p as [p IH|p IH|]; cbn [path_pos].
  - rewrite val_snoc, IH. reflexivity.
  - rewrite val_snoc, IH. reflexivity.
  - reflexivity.
Qed.

Lemma path_val l : path (val l) = l.
Proof.
  induction l as [|b l IH] using rev_ind; [reflexivity|].
  rewrite val_snoc. destruct (val l) as [|q] eqn:E.
  - unfold val in E. pose proof (pow2_pos (N.of_nat (length l))). lia.
  - cbn [path] in IH. destruct b; cbn; now rewrite IH.
Qed.

Lemma val_ones k : val (repeat true k) + 1 = 2 * 2 ^ N.of_nat k.
Proof.
  unfold val. rewrite repeat_length. induction k as [|k IH]; [reflexivity|].
  cbn [repeat val0]. rewrite repeat_length, pow2_S. lia.
Qed.

Lemma log2_val l : N.log2 (val l) = N.of_nat (length l).
Proof.
  apply N.log2_unique; [lia|]. unfold val. pose proof (val0_lt l).
  rewrite N.pow_succ_r'. lia.
Qed.

(* ---- single bits of a number with a known top part ---- *)
Lemma testbit_split q c m : c < 2 ^ m -> N.testbit (q * 2 ^ m + c) m = N.odd q.
Proof.
  intros Hc. pose proof (N.testbit_spec' (q * 2 ^ m + c) m) as H.
  assert (Hd : (q * 2 ^ m + c) / 2 ^ m = q).
  { symmetry. apply (N.div_unique _ _ q c); [exact Hc|lia]. }
  rewrite Hd in H. rewrite <- N.bit0_mod in H. rewrite N.bit0_odd in H.
  destruct (N.testbit (q * 2 ^ m + c) m), (N.odd q); cbn in H; congruence.
Qed.

Lemma land_pow2 a m : N.land (2 ^ m) a = if N.testbit a m then 2 ^ m else 0.
Proof.
  apply N.bits_inj. intros i. rewrite N.land_spec, N.pow2_bits_eqb.
  destruct (N.eqb_spec m i) as [->|Hne].
  - destruct (N.testbit a i); [now rewrite N.pow2_bits_true|now rewrite N.bits_0].
  - destruct (N.testbit a m); [now rewrite N.pow2_bits_false|now rewrite N.bits_0].
Qed.

Lemma ldiff_pow2 a m : N.testbit a m = true -> N.ldiff a (2 ^ m) = a - 2 ^ m.
Proof.
  intros H. symmetry. apply N.sub_nocarry_ldiff.
  apply N.bits_inj. intros i. rewrite N.ldiff_spec, N.pow2_bits_eqb, N.bits_0.
  destruct (N.eqb_spec m i) as [->|Hne]; [now rewrite H|reflexivity].
Qed.

(* ---- hiBit ---- *)
Definition smear (s x : N) : N := N.lor x (N.shiftr x s).

Lemma smear_bits s x i : N.testbit (smear s x) i = N.testbit x i || N.testbit x (i + s).
Proof. unfold smear. now rewrite N.lor_spec, N.shiftr_spec'. Qed.

Section HiBit.
  Variable K : N.
  Definition hi (x : N) : Prop := forall i, K < i -> N.testbit x i = false.
  Definition lo (d x : N) : Prop := forall i, i <= K -> K < i + d -> N.testbit x i = true.

  Lemma smear_hi s x : hi x -> hi (smear s x).
  Proof. intros H i Hi. rewrite smear_bits, (H i Hi), (H (i + s)) by lia. reflexivity. Qed.

  Lemma smear_lo s d x : lo d x -> s <= d -> lo (d + s) (smear s x).
  Proof.
    intros H Hs i Hi Hk. rewrite smear_bits. destruct (N.ltb_spec K (i + d)) as [Hlt|Hge].
    - now rewrite (H i Hi Hlt).
    - rewrite (H (i + s)) by lia. apply orb_true_r.
  Qed.
End HiBit.

Lemma hiBit_spec n : 0 < n -> n < 2 ^ 32 -> hiBit n = 2 ^ N.log2 n.
Proof.
  intros Hpos Hlt. set (K := N.log2 n).
  assert (HK : K < 32) by (apply N.log2_lt_pow2; assumption).
  unfold hiBit. fold (smear 1 n). fold (smear 2 (smear 1 n)).
  fold (smear 4 (smear 2 (smear 1 n))). fold (smear 8 (smear 4 (smear 2 (smear 1 n)))).
  fold (smear 16 (smear 8 (smear 4 (smear 2 (smear 1 n))))).
  set (x := smear 16 _).
  assert (Hhi : hi K x).
  { unfold x. do 5 apply smear_hi. intros i Hi. apply N.bits_above_log2. exact Hi. }
  assert (Hlo : lo K 32 x).
  { unfold x. change 32 with (16 + 16). apply smear_lo; [|lia].
    change 16 with (8 + 8) at 1. apply smear_lo; [|lia].
    change 8 with (4 + 4) at 1. apply smear_lo; [|lia].
    change 4 with (2 + 2) at 1. apply smear_lo; [|lia].
    change 2 with (1 + 1) at 1. apply smear_lo; [|lia].
    intros i Hi Hk. assert (i = K) as -> by lia. apply N.bit_log2. lia. }
  assert (Hx : x = N.ones (K + 1)).
  { apply N.bits_inj. intros i. destruct (N.ltb_spec i (K + 1)) as [Hi|Hi].
    - rewrite N.ones_spec_low by exact Hi. apply Hlo; lia.
    - rewrite N.ones_spec_high by exact Hi. apply Hhi. lia. }
  rewrite Hx. rewrite N.shiftr_div_pow2. change (2 ^ 1) with 2.
  assert (Hd : N.ones (K + 1) / 2 = N.ones K).
  { change 2 with (2 ^ 1) at 1. rewrite N.ones_div_pow2 by lia. f_equal. lia. }
  rewrite Hd. rewrite !N.ones_equiv, !N.pred_sub.
  replace (K + 1) with (N.succ K) by lia. rewrite N.pow_succ_r'.
  pose proof (pow2_pos K). lia.
Qed.

(* ---- the sizes computed by heap_split_and_steal ---- *)
(* size = val (b :: rest): b tells on which side the last node is *)
Lemma split_sizes b rest : val (b :: rest) < 2 ^ 32 ->
  let size := val (b :: rest) in
  let highBit := hiBit size in
  let twoBit := N.shiftr highBit 1 in
  highBit = 2 * 2 ^ N.of_nat (length rest) /\
  twoBit = 2 ^ N.of_nat (length rest) /\
  negb (N.land twoBit size =? 0) = b /\
  N.ldiff size highBit = (if b then 2 ^ N.of_nat (length rest) else 0) + val0 rest.
Proof.
  intros Hlt size highBit twoBit.
  set (k := N.of_nat (length rest)).
  assert (Hsz : size = 2 * 2 ^ k + (if b then 2 ^ k else 0) + val0 rest) by apply val_cons.
  pose proof (val0_lt rest) as Hv. fold k in Hv. pose proof (pow2_pos k) as Hp.
  assert (Hhb : highBit = 2 * 2 ^ k).
  { unfold highBit. rewrite hiBit_spec; [|lia|exact Hlt].
    unfold size. rewrite log2_val. cbn [length]. rewrite pow2_S. reflexivity. }
  assert (Htb : twoBit = 2 ^ k).
  { unfold twoBit. rewrite Hhb, N.shiftr_div_pow2. change (2 ^ 1) with 2.
    rewrite N.mul_comm. apply N.div_mul. discriminate. }
  assert (Hbitk : N.testbit size k = b).
  { rewrite Hsz. destruct b.
    - replace (2 * 2 ^ k + 2 ^ k + val0 rest) with (3 * 2 ^ k + val0 rest) by lia.
      now rewrite testbit_split.
    - replace (2 * 2 ^ k + 0 + val0 rest) with (2 * 2 ^ k + val0 rest) by lia.
      now rewrite testbit_split. }
  assert (Hbitk1 : N.testbit size (N.succ k) = true).
  { rewrite Hsz. rewrite <- N.pow_succ_r'.
    replace (2 ^ N.succ k + (if b then 2 ^ k else 0) + val0 rest)
      with (1 * 2 ^ N.succ k + ((if b then 2 ^ k else 0) + val0 rest)) by lia.
    rewrite testbit_split; [reflexivity|]. rewrite N.pow_succ_r'. destruct b; lia. }
  repeat split; auto.
  - rewrite Htb, land_pow2, Hbitk. destruct b; [|reflexivity].
    destruct (N.eqb_spec (2 ^ k) 0); [lia|reflexivity].
  - rewrite Hhb, <- N.pow_succ_r'. rewrite ldiff_pow2 by exact Hbitk1.
    rewrite N.pow_succ_r'. lia.
Qed.
