(* Proofs about the hbbuffer model: conservation of the multiset of tasks,
   capacity, pop_best returns a maximum, push_all_by_priority keeps the best. *)
From PV Require Import Base.Tac HeapBuf.HeapBufDefs HeapBuf.HeapBufPerm.
From Coq Require Import Sorted.
Local Open Scope Z_scope.

(* the tasks a buffer holds, in slot order *)
Definition held (b : slots) : list task := flat_map opt b.
Definition held_all (bufs : list slots) : list task := flat_map held bufs.
(* the tasks handed to the top-most parent store *)
Definition sent (q : list pcall) : list task := flat_map fst q.
Definition pushed (o : bop) : list task :=
  match o with BPushAll e _ => e | BPushPrio e _ => e | BPop _ => [] end.

Lemma held_cons s b : held (s :: b) = opt s ++ held b.
Proof. reflexivity. Qed.
Lemma held_app a b : held (a ++ b) = held a ++ held b.
Proof. unfold held. apply flat_map_app. Qed.
Lemma held_all_cons b bufs : held_all (b :: bufs) = held b ++ held_all bufs.
Proof. reflexivity. Qed.
Lemma sent_app a b : sent (a ++ b) = sent a ++ sent b.
Proof. unfold sent. apply flat_map_app. Qed.

(* ---- set_nth ---- *)
Lemma set_nth_length {A} i (v : A) l : length (set_nth i v l) = length l.
Proof. revert i; induction l as [|x l IH]; intros [|i]; cbn [set_nth length]; auto. Qed.

Lemma set_nth_held i s s' b : nth_error b i = Some s ->
  Permutation (opt s ++ held (set_nth i s' b)) (opt s' ++ held b).
Proof.
  revert i; induction b as [|x b IH]; intros [|i] H; cbn [nth_error] in H; try discriminate.
  - inv H. cbn [set_nth]. rewrite !held_cons. perm.
  - cbn [set_nth]. rewrite !held_cons. specialize (IH i H). perm.
Qed.

Lemma set_nth_held_all j b b' bufs : nth_error bufs j = Some b ->
  Permutation (held b ++ held_all (set_nth j b' bufs)) (held b' ++ held_all bufs).
Proof.
  revert j; induction bufs as [|x bufs IH]; intros [|j] H; cbn [nth_error] in H; try discriminate.
  - inv H. cbn [set_nth]. rewrite !held_all_cons. perm.
  - cbn [set_nth]. rewrite !held_all_cons. specialize (IH j H). perm.
Qed.

Lemma set_nth_map_length j (b b' : slots) bufs : nth_error bufs j = Some b -> length b' = length b ->
  map (@length _) (set_nth j b' bufs) = map (@length _) bufs.
Proof.
  revert j; induction bufs as [|x bufs IH]; intros [|j] H Hl; cbn [nth_error] in H; try discriminate.
  - inv H. cbn [set_nth map]. now rewrite Hl.
  - cbn [set_nth map]. f_equal. now apply IH.
Qed.

(* ---- push_all ---- *)
Lemma fill_spec b : forall elts b' left, fill b elts = (b', left) ->
  Permutation (held b' ++ left) (held b ++ elts) /\ length b' = length b.
Proof.
  induction b as [|s b IH]; intros elts b' left H; cbn [fill] in H.
  - inv H. split; reflexivity.
  - destruct elts as [|e es].
    + inv H. split; reflexivity.
    + destruct s as [t|].
      * destruct (fill b (e :: es)) as [r l] eqn:E. inv H.
        destruct (IH _ _ _ E) as [HP HL]. split; [|cbn [length]; now rewrite HL].
        rewrite !held_cons. perm.
      * destruct (fill b es) as [r l] eqn:E. inv H.
        destruct (IH _ _ _ E) as [HP HL]. split; [|cbn [length]; now rewrite HL].
        rewrite !held_cons. perm.
Qed.

Lemma push_all_spec bufs : forall elts d bufs' q, push_all bufs elts d = (bufs', q) ->
  Permutation (held_all bufs' ++ sent q) (held_all bufs ++ elts) /\
  map (@length _) bufs' = map (@length _) bufs.
Proof.
  induction bufs as [|b up IH]; intros elts d bufs' q H; cbn [push_all] in H.
  - inv H. cbn. rewrite app_nil_r. split; reflexivity.
  - destruct (d =? 0) eqn:Ed.
    + destruct (fill b elts) as [b' left] eqn:Ef.
      destruct (fill_spec _ _ _ _ Ef) as [HP HL].
      destruct left as [|l0 left].
      * inv H. split; [|cbn [map]; now rewrite HL].
        cbn [sent flat_map]. rewrite !held_all_cons. perm.
      * destruct (push_all up (l0 :: left) (d - 1)) as [up' q'] eqn:Eu. inv H.
        destruct (IH _ _ _ _ Eu) as [HP' HL']. split; [|cbn [map]; now rewrite HL, HL'].
        rewrite !held_all_cons. perm.
    + destruct (push_all up elts (d - 1)) as [up' q'] eqn:Eu. inv H.
      destruct (IH _ _ _ _ Eu) as [HP' HL']. split; [|cbn [map]; now rewrite HL'].
      rewrite !held_all_cons. perm.
Qed.

(* ---- push_all_by_priority ---- *)
Definition full (b : slots) : Prop := forall s, In s b -> s <> None.

Lemma held_in b x : In x (held b) <-> In (Some x) b.
Proof.
  unfold held. rewrite in_flat_map. split.
  - intros ([t|] & Hi & Ho); cbn in Ho; [destruct Ho as [->|[]]; auto|destruct Ho].
  - intros H. exists (Some x). split; [auto|now left].
Qed.

(* scan invariant: [pre] is the part of the array already visited *)
Lemma find_slot_spec b : forall pre acc p p0 res,
  find_slot b (length pre) acc p = res ->
  full pre ->
  (forall x, In x (held pre) -> p <= prio x) ->
  match acc with
  | None => p = p0
  | Some (k, c) => nth_error (pre ++ b) k = Some (Some c) /\ prio c = p /\ p < p0
  end ->
  match res with
  | None => full (pre ++ b) /\ forall x, In x (held (pre ++ b)) -> p0 <= prio x
  | Some (i, None) => nth_error (pre ++ b) i = Some None
  | Some (i, Some c) => nth_error (pre ++ b) i = Some (Some c) /\ prio c < p0 /\
                        full (pre ++ b) /\ forall x, In x (held (pre ++ b)) -> prio c <= prio x
  end.
Proof.
  induction b as [|s b IH]; intros pre acc p p0 res H Hfull Hmin Hacc; cbn [find_slot] in H.
  - rewrite app_nil_r in *. destruct acc as [[k c]|]; subst res.
    + destruct Hacc as (Hn & Hc & Hlt). repeat split; auto; try lia.
      intros x Hx. specialize (Hmin x Hx). lia.
    + subst p. split; auto.
  - destruct s as [c|].
    + assert (Hpre : pre ++ Some c :: b = (pre ++ [Some c]) ++ b) by now rewrite <- app_assoc.
      assert (Hlen : S (length pre) = length (pre ++ [Some c])) by (rewrite app_length; cbn; lia).
      assert (Hfull' : full (pre ++ [Some c])).
      { intros s Hs. apply in_app_or in Hs. destruct Hs as [Hs|[<-|[]]]; [now apply Hfull|discriminate]. }
      rewrite Hpre. rewrite Hlen in H.
      destruct (prio c <? p) eqn:E.
      * apply (IH (pre ++ [Some c]) _ (prio c) p0 res H Hfull').
        -- intros x Hx. rewrite held_app in Hx. apply in_app_or in Hx. destruct Hx as [Hx|Hx].
           ++ specialize (Hmin x Hx). lia.
           ++ cbn in Hx. destruct Hx as [<-|[]]. lia.
        -- split; [|split; [reflexivity|]].
           ++ rewrite <- Hpre. rewrite nth_error_app2 by lia. now rewrite Nat.sub_diag.
           ++ destruct acc as [[k c']|]; [destruct Hacc as (_ & ? & ?)|]; lia.
      * apply (IH (pre ++ [Some c]) acc p p0 res H Hfull').
        -- intros x Hx. rewrite held_app in Hx. apply in_app_or in Hx. destruct Hx as [Hx|Hx].
           ++ now apply Hmin.
           ++ cbn in Hx. destruct Hx as [<-|[]]. lia.
        -- destruct acc as [[k c']|]; [|exact Hacc]. rewrite <- Hpre. exact Hacc.
    + subst res. rewrite nth_error_app2 by lia. now rewrite Nat.sub_diag.
Qed.

Lemma find_slot_top b t :
  match find_slot b 0 None (prio t) with
  | None => full b /\ forall x, In x (held b) -> prio t <= prio x
  | Some (i, None) => nth_error b i = Some None
  | Some (i, Some c) => nth_error b i = Some (Some c) /\ prio c < prio t /\
                        full b /\ forall x, In x (held b) -> prio c <= prio x
  end.
Proof.
  apply (find_slot_spec b [] None (prio t) (prio t) _ eq_refl).
  - intros s [].
  - intros x [].
  - reflexivity.
Qed.

Lemma pbp_spec rest : forall b topush ejected b' ej, pbp b topush rest ejected = (b', ej) ->
  Permutation (held b' ++ ej) (held b ++ topush :: rest ++ ejected) /\ length b' = length b.
Proof.
  induction rest as [|t r IH]; intros b topush ejected b' ej H; cbn [pbp] in H;
    pose proof (find_slot_top b topush) as Hf;
    destruct (find_slot b 0 None (prio topush)) as [[i victim]|].
  - inv H. rewrite set_nth_length. split; [|reflexivity].
    destruct victim as [v|].
    + destruct Hf as (Hn & _). pose proof (set_nth_held i _ (Some topush) b Hn) as HP. perm.
    + pose proof (set_nth_held i _ (Some topush) b Hf) as HP. perm.
  - inv H. split; [|reflexivity]. perm.
  - destruct (IH _ _ _ _ _ H) as [HP HL]. rewrite set_nth_length in HL. split; [|exact HL].
    destruct victim as [v|].
    + destruct Hf as (Hn & _). pose proof (set_nth_held i _ (Some topush) b Hn) as HP2. perm.
    + pose proof (set_nth_held i _ (Some topush) b Hf) as HP2. perm.
  - inv H. split; [|reflexivity]. perm.
Qed.

Lemma push_prio_spec bufs elts d bufs' q : push_prio bufs elts d = (bufs', q) ->
  Permutation (held_all bufs' ++ sent q) (held_all bufs ++ elts) /\
  map (@length _) bufs' = map (@length _) bufs.
Proof.
  intros H. unfold push_prio in H. destruct bufs as [|b up].
  - inv H. cbn. rewrite app_nil_r. split; reflexivity.
  - destruct elts as [|t rest].
    + inv H. cbn [sent flat_map]. split; reflexivity.
    + destruct (d =? 0) eqn:Ed.
      * destruct (pbp b t rest []) as [b' ej] eqn:Ep.
        destruct (pbp_spec _ _ _ _ _ _ Ep) as [HP HL].
        destruct ej as [|e0 ej].
        -- inv H. split; [|cbn [map]; now rewrite HL].
           cbn [sent flat_map]. rewrite !held_all_cons. perm.
        -- destruct (push_all up (e0 :: ej) (d - 1)) as [up' q'] eqn:Eu. inv H.
           destruct (push_all_spec _ _ _ _ _ Eu) as [HP' HL']. split; [|cbn [map]; now rewrite HL, HL'].
           rewrite !held_all_cons. perm.
      * destruct (push_all up (t :: rest) (d - 1)) as [up' q'] eqn:Eu. inv H.
        destruct (push_all_spec _ _ _ _ _ Eu) as [HP' HL']. split; [|cbn [map]; now rewrite HL'].
        rewrite !held_all_cons. perm.
Qed.

(* "prefer the best" at push time: when the ring is sorted by non-increasing
   priority (the callers' convention), nothing handed to the parent is better
   than anything kept *)
Definition below (ej : list task) (b : slots) : Prop :=
  forall e x, In e ej -> In x (held b) -> prio e <= prio x.

Lemma set_nth_in {A} i (v : A) l x : In x (set_nth i v l) -> x = v \/ In x l.
Proof.
  revert i; induction l as [|y l IH]; intros [|i] H; cbn [set_nth] in H; auto.
  - destruct H as [<-|H]; [now left|right; now right].
  - destruct H as [<-|H]; [right; now left|]. destruct (IH i H); [now left|right; now right].
Qed.

Lemma full_set_nth i t b : full b -> full (set_nth i (Some t) b).
Proof. intros Hf s Hs. apply set_nth_in in Hs. destruct Hs as [->|Hs]; [discriminate|now apply Hf]. Qed.

Lemma pbp_keeps_best rest : forall b topush ejected b' ej,
  pbp b topush rest ejected = (b', ej) ->
  (forall y, In y rest -> prio y <= prio topush) ->
  StronglySorted (fun a c => prio c <= prio a) rest ->
  below ejected b -> (ejected <> [] -> full b) ->
  below ej b'.
Proof.
  induction rest as [|t r IH]; intros b topush ejected b' ej H Hle Hsorted Hbelow Hfull; cbn [pbp] in H;
    pose proof (find_slot_top b topush) as Hf;
    destruct (find_slot b 0 None (prio topush)) as [[i victim]|].
  - inv H. destruct victim as [v|].
    + destruct Hf as (Hn & Hlt & Hfb & Hmin).
      intros e x He Hx. apply held_in in Hx. apply set_nth_in in Hx.
      assert (Hv : In v (held b)) by (apply held_in; eapply nth_error_In; eauto).
      destruct He as [<-|He].
      * destruct Hx as [Hx|Hx]; [inv Hx; lia|]. apply Hmin. now apply held_in.
      * destruct Hx as [Hx|Hx]; [inv Hx; specialize (Hbelow e v He Hv); lia|].
        apply Hbelow; auto. now apply held_in.
    + destruct ejected as [|e0 ejected]; [intros e x []|].
      exfalso. assert (Hfb : full b) by (apply Hfull; discriminate).
      apply (Hfb None); [eapply nth_error_In; eauto|reflexivity].
  - inv H. intros e x He Hx. rewrite app_nil_r in He. destruct Hf as (Hfb & Hmin).
    destruct He as [<-|He]; [now apply Hmin|now apply Hbelow].
  - inv Hsorted. rename H2 into Hs1, H3 into Hs2. rewrite Forall_forall in Hs2.
    eapply IH; [exact H|exact Hs2|exact Hs1| |].
    + destruct victim as [v|].
      * destruct Hf as (Hn & Hlt & Hfb & Hmin).
        intros e x He Hx. apply held_in in Hx. apply set_nth_in in Hx.
        assert (Hv : In v (held b)) by (apply held_in; eapply nth_error_In; eauto).
        destruct He as [<-|He].
        -- destruct Hx as [Hx|Hx]; [inv Hx; lia|]. apply Hmin. now apply held_in.
        -- destruct Hx as [Hx|Hx]; [inv Hx; specialize (Hbelow e v He Hv); lia|].
           apply Hbelow; auto. now apply held_in.
      * destruct ejected as [|e0 ejected]; [intros e x []|].
        exfalso. assert (Hfb : full b) by (apply Hfull; discriminate).
        apply (Hfb None); [eapply nth_error_In; eauto|reflexivity].
    + intros Hne. destruct victim as [v|].
      * destruct Hf as (_ & _ & Hfb & _). now apply full_set_nth.
      * apply full_set_nth. apply Hfull. intros ->. now apply Hne.
  - inv H. destruct Hf as (Hfb & Hmin). intros e x He Hx.
    cbn [app] in He. destruct He as [<-|He]; [now apply Hmin|].
    apply in_app_or in He. destruct He as [He|He].
    + now apply Hbelow.
    + specialize (Hle e He). specialize (Hmin x Hx). lia.
Qed.

Theorem push_prio_keeps_best b up t rest bufs' q :
  StronglySorted (fun a c => prio c <= prio a) (t :: rest) ->
  push_prio (b :: up) (t :: rest) 0 = (bufs', q) ->
  exists b' up' ej, bufs' = b' :: up' /\ pbp b t rest [] = (b', ej) /\ below ej b'.
Proof.
  intros Hs H. cbn [push_prio] in H. change (0 =? 0) with true in H. cbn iota in H.
  destruct (pbp b t rest []) as [b' ej] eqn:Ep.
  assert (Hb : below ej b').
  { inv Hs. rewrite Forall_forall in H3. eapply pbp_keeps_best; eauto.
    - intros e x [].
    - intros Hne. now elim Hne. }
  destruct ej as [|e0 ej].
  - inv H. exists b', up, []. auto.
  - destruct (push_all up (e0 :: ej) (0 - 1)) as [up' q'] eqn:Eu. inv H. exists b', up', (e0 :: ej). auto.
Qed.

(* ---- pop_best ---- *)
Lemma best_scan_spec b : forall pre acc,
  match acc with
  | None => held pre = []
  | Some (k, c) => nth_error (pre ++ b) k = Some (Some c) /\ forall x, In x (held pre) -> prio x <= prio c
  end ->
  match best_scan b (length pre) acc with
  | None => held (pre ++ b) = []
  | Some (j, t) => nth_error (pre ++ b) j = Some (Some t) /\ forall x, In x (held (pre ++ b)) -> prio x <= prio t
  end.
Proof.
  induction b as [|s b IH]; intros pre acc Hacc; cbn [best_scan].
  - rewrite app_nil_r in *. destruct acc as [[k c]|]; exact Hacc.
  - assert (Hpre : pre ++ s :: b = (pre ++ [s]) ++ b) by now rewrite <- app_assoc.
    assert (Hlen : S (length pre) = length (pre ++ [s])) by (rewrite app_length; cbn; lia).
    rewrite Hpre, Hlen. destruct s as [c|].
    + destruct acc as [[k best]|].
      * destruct Hacc as [Hn Hmax]. destruct (prio best <? prio c) eqn:E.
        -- apply IH. split.
           ++ rewrite <- Hpre. rewrite nth_error_app2 by lia. now rewrite Nat.sub_diag.
           ++ intros x Hx. rewrite held_app in Hx. apply in_app_or in Hx. destruct Hx as [Hx|Hx].
              ** specialize (Hmax x Hx). lia.
              ** cbn in Hx. destruct Hx as [<-|[]]. lia.
        -- apply IH. split; [now rewrite <- Hpre|].
           intros x Hx. rewrite held_app in Hx. apply in_app_or in Hx. destruct Hx as [Hx|Hx].
           ++ now apply Hmax.
           ++ cbn in Hx. destruct Hx as [<-|[]]. lia.
      * apply IH. split.
        -- rewrite <- Hpre. rewrite nth_error_app2 by lia. now rewrite Nat.sub_diag.
        -- intros x Hx. rewrite held_app, Hacc in Hx. cbn in Hx. destruct Hx as [<-|[]]. lia.
    + apply IH. destruct acc as [[k best]|].
      * destruct Hacc as [Hn Hmax]. split; [now rewrite <- Hpre|].
        intros x Hx. rewrite held_app in Hx. cbn in Hx. rewrite app_nil_r in Hx. now apply Hmax.
      * rewrite held_app, Hacc. reflexivity.
Qed.

Theorem pop_best_spec b b' r : pop_best b = (b', r) ->
  length b' = length b /\
  match r with
  | None => held b = [] /\ b' = b
  | Some t => In t (held b) /\ (forall x, In x (held b) -> prio x <= prio t) /\
              Permutation (t :: held b') (held b)
  end.
Proof.
  unfold pop_best. pose proof (best_scan_spec b [] None eq_refl) as Hs. cbn [length app] in Hs.
  destruct (best_scan b 0 None) as [[j t]|]; intros H; inv H.
  - destruct Hs as [Hn Hmax]. rewrite set_nth_length. split; [reflexivity|]. repeat split; auto.
    + apply held_in. eapply nth_error_In; eauto.
    + pose proof (set_nth_held j _ None b Hn) as HP. exact HP.
  - split; auto.
Qed.

(* ---- histories ---- *)
Theorem bstep_conserves bufs o bufs' r q : bstep bufs o = (bufs', (r, q)) ->
  Permutation (held_all bufs' ++ opt r ++ sent q) (held_all bufs ++ pushed o) /\
  map (@length _) bufs' = map (@length _) bufs.
Proof.
  destruct o as [elts d|elts d|j]; cbn [bstep pushed]; intros H.
  - destruct (push_all bufs elts d) as [b1 q1] eqn:E. inv H. cbn [opt app]. now apply push_all_spec in E.
  - destruct (push_prio bufs elts d) as [b1 q1] eqn:E. inv H. cbn [opt app]. now apply push_prio_spec in E.
  - destruct (nth_error bufs j) as [b|] eqn:En.
    + destruct (pop_best b) as [b1 r1] eqn:E. inv H.
      destruct (pop_best_spec _ _ _ E) as [HL Hr]. split; [|now apply set_nth_map_length with (b := b)].
      cbn [sent flat_map].
      pose proof (set_nth_held_all j b b1 bufs En) as HP.
      destruct r as [t|].
      * destruct Hr as (_ & _ & Hp). perm.
      * destruct Hr as (_ & ->). perm.
    + inv H. cbn. rewrite !app_nil_r. split; reflexivity.
Qed.

Theorem brun_conserves ops : forall bufs bufs' rets q, brun bufs ops = (bufs', (rets, q)) ->
  Permutation (held_all bufs' ++ rets ++ sent q) (held_all bufs ++ flat_map pushed ops) /\
  map (@length _) bufs' = map (@length _) bufs.
Proof.
  induction ops as [|o os IH]; intros bufs bufs' rets q H; cbn [brun] in H.
  - inv H. cbn. split; reflexivity.
  - destruct (bstep bufs o) as [b1 [r1 q1]] eqn:E1.
    destruct (brun b1 os) as [b2 [rs qs]] eqn:E2. inv H.
    destruct (bstep_conserves _ _ _ _ _ E1) as [HP1 HL1].
    destruct (IH _ _ _ _ E2) as [HP2 HL2]. split; [|now rewrite HL2].
    cbn [flat_map]. rewrite sent_app.
    change (match r1 with Some t => [t] | None => [] end) with (opt r1).
    perm.
Qed.

Theorem pop_best_none_iff b : snd (pop_best b) = None <-> held b = [].
Proof.
  destruct (pop_best b) as [b' r] eqn:E. destruct (pop_best_spec _ _ _ E) as [_ Hr]. cbn [snd].
  destruct r as [t|]; split; intros H; try discriminate; try tauto.
  destruct Hr as (Hin & _). rewrite H in Hin. destruct Hin.
Qed.

(* a buffer of n slots never holds more than n tasks, and n never changes *)
Lemma held_le_size b : (length (held b) <= length b)%nat.
Proof. induction b as [|[t|] b IH]; [cbn; lia| |]; rewrite held_cons; cbn [opt app length]; lia. Qed.

Theorem brun_bounded ops bufs bufs' out : brun bufs ops = (bufs', out) ->
  map (@length _) bufs' = map (@length _) bufs /\
  Forall (fun b => (length (held b) <= length b)%nat) bufs'.
Proof.
  intros H. destruct out as [rets q]. split; [now apply brun_conserves in H|].
  apply Forall_forall. intros b _. apply held_le_size.
Qed.
