(* Proofs about the maxheap model: the complete-tree shape addressed by the
   bits of size, max-heap order, conservation of the multiset of tasks, for
   insert / remove / split and for every history over a table of heaps. *)
From PV Require Import Base.Tac HeapBuf.HeapBufDefs HeapBuf.HeapBufPerm HeapBuf.HeapBufBits.
Local Open Scope Z_scope.

(* ------------------------------------------------------------------------ *)
(* shape *)

(* all leaves at depth h *)
Fixpoint perfect (h : nat) (t : tree) : Prop :=
  match h, t with
  | O, Leaf => True
  | S h', Node l _ r => perfect h' l /\ perfect h' r
  | _, _ => False
  end.

(* nodes exactly at the positions 1..n of the level-order numbering, where the
   digits of n after the leading 1 are [bits]: if the next digit is 0 the last
   node is in the left subtree and the right subtree is perfect, one level
   shorter; if it is 1 the left subtree is perfect and the last node is on
   the right *)
Fixpoint complete (bits : list bool) (t : tree) {struct t} : Prop :=
  match t with
  | Leaf => False
  | Node l _ r =>
      match bits with
      | [] => l = Leaf /\ r = Leaf
      | false :: rest => complete rest l /\ perfect (length rest) r
      | true :: rest => perfect (S (length rest)) l /\ complete rest r
      end
  end.

Definition shape (n : N) (t : tree) : Prop :=
  match n with N0 => t = Leaf | Npos p => complete (path_pos p) t end.

Lemma shape_val l t : shape (val l) t <-> complete l t.
Proof.
  pose proof (path_val l) as H. unfold shape. destruct (val l) as [|p] eqn:E.
  - unfold val in E. pose proof (pow2_pos (N.of_nat (length l))). lia.
  - cbn [path] in H. now rewrite H.
Qed.

(* same shape, any tasks *)
Fixpoint sshape (a b : tree) : Prop :=
  match a, b with
  | Leaf, Leaf => True
  | Node l1 _ r1, Node l2 _ r2 => sshape l1 l2 /\ sshape r1 r2
  | _, _ => False
  end.

Lemma sshape_refl t : sshape t t.
Proof. induction t; cbn; auto. Qed.

Lemma sshape_sym a : forall b, sshape a b -> sshape b a.
Proof.
  induction a as [|l1 IHl x1 r1 IHr]; intros [|l2 x2 r2] H; cbn in *; try contradiction; auto.
  destruct H. split; auto.
Qed.

Lemma sshape_root l x y r t : sshape (Node l x r) t -> sshape (Node l y r) t.
Proof. destruct t; auto. Qed.

Lemma sshape_leaf t : sshape Leaf t -> t = Leaf.
Proof. destruct t; [reflexivity|intros []]. Qed.

Lemma perfect_sshape h : forall a b, sshape a b -> perfect h a -> perfect h b.
Proof.
  induction h as [|h IH]; intros [|l1 x1 r1] [|l2 x2 r2] Hs Hp; cbn in *; try contradiction; auto.
  destruct Hs, Hp. split; eapply IH; eauto.
Qed.

Lemma complete_sshape a : forall bits b, sshape a b -> complete bits a -> complete bits b.
Proof.
  induction a as [|l1 IHl x1 r1 IHr]; intros bits [|l2 x2 r2] Hs Hc; cbn [sshape complete] in *; try contradiction.
  destruct Hs as [Hl Hr]. destruct bits as [|[] rest].
  - destruct Hc as [-> ->]. split; now apply sshape_leaf.
  - destruct Hc. split; [eapply perfect_sshape; eauto|eapply IHr; eauto].
  - destruct Hc. split; [eapply IHl; eauto|eapply perfect_sshape; eauto].
Qed.

Lemma perfect_complete_ones k : forall t, perfect (S k) t <-> complete (repeat true k) t.
Proof.
  induction k as [|k IH]; intros [|l x r]; cbn [perfect complete repeat]; try tauto.
  - destruct l, r; cbn; intuition congruence.
  - rewrite repeat_length. rewrite <- IH. cbn [perfect]. tauto.
Qed.

(* hang a leaf at the end of a path *)
Fixpoint graft (p : list bool) (e : task) (t : tree) : tree :=
  match p with
  | [] => Node Leaf e Leaf
  | b :: p' =>
      match t with
      | Leaf => Leaf
      | Node l x r => if b then Node l x (graft p' e r) else Node (graft p' e l) x r
      end
  end.

Lemma graft_perfect k e : forall t, perfect k t ->
  complete (repeat false k) (graft (repeat false k) e t).
Proof.
  induction k as [|k IH]; intros [|l x r] H; cbn in H; try contradiction.
  - cbn. auto.
  - destruct H as [Hl Hr]. cbn [repeat graft complete]. rewrite repeat_length. auto.
Qed.

(* the digit list of n+1, and the tree with a leaf grafted at position n+1 *)
Lemma graft_complete e l : forall t, complete l t ->
  match inc l with
  | (l', false) => complete l' (graft l' e t)
  | (l', true) => perfect (S (length l)) t
  end.
Proof.
  induction l as [|b r IH]; intros [|tl x tr] H; cbn [complete] in H; try contradiction.
  - destruct H as [-> ->]. cbn. auto.
  - cbn [inc]. pose proof (inc_length r) as Hlen. pose proof (inc_carry r) as Hcar.
    destruct (inc r) as [r' c] eqn:E. cbn [fst] in Hlen. destruct b.
    + destruct H as [Hl Hr]. specialize (IH _ Hr). destruct c.
      * cbn [length perfect] in *. auto.
      * cbn [graft complete]. rewrite Hlen. auto.
    + destruct H as [Hl Hr]. specialize (IH _ Hl). destruct c.
      * cbn [graft complete]. rewrite Hlen. split; [exact IH|].
        destruct (Hcar _ eq_refl) as [_ ->]. now apply graft_perfect.
      * cbn [graft complete]. rewrite Hlen. auto.
Qed.

Lemma graft_shape e n t : shape n t -> shape (N.succ n) (graft (path (N.succ n)) e t).
Proof.
  destruct n as [|p]; cbn [shape N.succ path].
  - intros ->. cbn. auto.
  - intros H. rewrite path_succ. unfold succ_bits.
    pose proof (graft_complete e _ _ H) as Hg. pose proof (inc_carry (path_pos p)) as Hcar.
    destruct (inc (path_pos p)) as [l' c]. destruct c; [|exact Hg].
    destruct (Hcar _ eq_refl) as [_ ->].
    destruct t as [|tl x tr]; cbn [perfect] in Hg; [contradiction|]. destruct Hg as [Hl Hr].
    cbn [graft complete]. rewrite repeat_length. split; [|exact Hr]. now apply graft_perfect.
Qed.

(* the end of the path is a free place below existing nodes *)
Fixpoint fits (p : list bool) (t : tree) : Prop :=
  match p, t with
  | [], Leaf => True
  | b :: p', Node l _ r => fits p' (if b then r else l)
  | _, _ => False
  end.

Lemma fits_perfect k : forall t, perfect k t -> fits (repeat false k) t.
Proof. induction k as [|k IH]; intros [|l x r] H; cbn in *; try contradiction; auto. apply IH, H. Qed.

Lemma fits_complete l : forall t, complete l t ->
  match inc l with
  | (l', false) => fits l' t
  | (l', true) => True
  end.
Proof.
  induction l as [|b r IH]; intros [|tl x tr] H; cbn [complete] in H; try contradiction.
  - cbn. auto.
  - cbn [inc]. pose proof (inc_carry r) as Hcar. pose proof (graft_complete (mkTask 0 0) r) as Hg.
    destruct (inc r) as [r' c] eqn:E. destruct b.
    + destruct H as [Hl Hr]. specialize (IH _ Hr). destruct c; [auto|]. cbn [fits]. exact IH.
    + destruct H as [Hl Hr]. specialize (IH _ Hl). destruct c.
      * cbn [fits]. destruct (Hcar _ eq_refl) as [_ ->]. now apply fits_perfect.
      * cbn [fits]. exact IH.
Qed.

Lemma fits_shape n t : shape n t -> fits (path (N.succ n)) t.
Proof.
  destruct n as [|p]; cbn [shape N.succ path].
  - intros ->. cbn. auto.
  - intros H. rewrite path_succ. unfold succ_bits.
    pose proof (fits_complete _ _ H) as Hf. pose proof (graft_complete (mkTask 0 0) _ _ H) as Hg.
    pose proof (inc_carry (path_pos p)) as Hcar.
    destruct (inc (path_pos p)) as [l' c]. destruct c; [|exact Hf].
    destruct (Hcar _ eq_refl) as [_ ->].
    destruct t as [|tl x tr]; cbn [perfect] in Hg; [contradiction|]. destruct Hg as [Hl Hr].
    cbn [fits]. now apply fits_perfect.
Qed.

(* number of nodes = size *)
Lemma perfect_count h : forall t, perfect h t ->
  (N.of_nat (length (preorder t)) + 1 = 2 ^ N.of_nat h)%N.
Proof.
  induction h as [|h IH]; intros [|l x r] H; cbn in H; try contradiction.
  - reflexivity.
  - destruct H as [Hl Hr]. specialize (IH _ Hl) as H1. specialize (IH _ Hr) as H2.
    cbn [preorder length]. rewrite app_length, pow2_S. lia.
Qed.

Lemma complete_count l : forall t, complete l t -> N.of_nat (length (preorder t)) = val l.
Proof.
  induction l as [|b r IH]; intros [|tl x tr] H; cbn [complete] in H; try contradiction.
  - destruct H as [-> ->]. reflexivity.
  - rewrite val_cons. cbn [preorder length]. rewrite app_length. destruct b; destruct H as [Hl Hr].
    + apply perfect_count in Hl. rewrite pow2_S in Hl. specialize (IH _ Hr). unfold val in IH. lia.
    + apply perfect_count in Hr. specialize (IH _ Hl). unfold val in IH. lia.
Qed.

Lemma shape_count n t : shape n t -> N.of_nat (length (preorder t)) = n.
Proof.
  destruct n as [|p]; cbn [shape].
  - now intros ->.
  - intros H. rewrite (complete_count _ _ H). apply val_path.
Qed.

(* ------------------------------------------------------------------------ *)
(* order *)
Definition le_all (x : task) (l : list task) : Prop := Forall (fun y => prio y <= prio x) l.

Fixpoint hord (t : tree) : Prop :=
  match t with
  | Leaf => True
  | Node l x r => le_all x (preorder l) /\ le_all x (preorder r) /\ hord l /\ hord r
  end.

Definition root (t : tree) : option task := match t with Leaf => None | Node _ x _ => Some x end.

Lemma le_all_perm x l l' : Permutation l l' -> le_all x l -> le_all x l'.
Proof. intros HP H. unfold le_all in *. now rewrite <- HP. Qed.

Lemma le_all_trans x y l : prio x <= prio y -> le_all x l -> le_all y l.
Proof. intros Hxy H. unfold le_all in *. eapply Forall_impl; [|exact H]. cbn. intros; lia. Qed.

Lemma le_all_app x l1 l2 : le_all x (l1 ++ l2) <-> le_all x l1 /\ le_all x l2.
Proof. unfold le_all. apply Forall_app. Qed.

Lemma le_all_cons x y l : le_all x (y :: l) <-> prio y <= prio x /\ le_all x l.
Proof. unfold le_all. apply Forall_cons_iff. Qed.

Lemma hord_root_max l x r : hord (Node l x r) -> le_all x (preorder (Node l x r)).
Proof.
  intros (Hl & Hr & _). cbn [preorder]. apply le_all_cons. split; [lia|]. apply le_all_app. auto.
Qed.

(* ------------------------------------------------------------------------ *)
(* heap_insert *)
Lemma ins_sshape p e : forall t, sshape (fst (ins p e t)) (graft p e t).
Proof.
  induction p as [|b p IH]; intros t; cbn [ins graft].
  - cbn. auto.
  - destruct t as [|l x r]; [cbn; auto|].
    specialize (IH (if b then r else l)).
    destruct (ins p e (if b then r else l)) as [c up]. cbn [fst] in IH.
    destruct c as [|cl y cr].
    + destruct b; cbn [fst sshape]; auto using sshape_refl.
    + destruct (up && (prio x <? prio e)); destruct b; cbn [fst]; cbn [sshape];
        (split; [try apply sshape_refl|try apply sshape_refl]); try exact IH;
        eapply sshape_root; exact IH.
Qed.

Lemma ins_spec p e : forall t t' up, ins p e t = (t', up) -> fits p t -> hord t ->
  Permutation (preorder t') (e :: preorder t) /\ hord t' /\
  root t' = (if up then Some e else root t).
Proof.
  induction p as [|b p IH]; intros t t' up H Hfit Hord; cbn [ins] in H.
  - destruct t; cbn in Hfit; [|contradiction]. inv H. cbn. repeat split; auto; constructor.
  - destruct t as [|l x r]; cbn [fits] in Hfit; [contradiction|].
    destruct Hord as (Hlx & Hrx & Hl & Hr).
    destruct (ins p e (if b then r else l)) as [c up'] eqn:E.
    assert (Hc : hord (if b then r else l)) by (destruct b; assumption).
    destruct (IH _ _ _ E Hfit Hc) as (HP & Hoc & Hroot).
    destruct c as [|cl y cr].
    { exfalso. cbn in HP. eapply Permutation_nil_cons; exact HP. }
    assert (Hmax : le_all y (preorder (Node cl y cr))) by now apply hord_root_max.
    cbn [preorder] in HP, Hmax. cbn [root] in Hroot.
    destruct Hoc as (Hcl & Hcr & Hocl & Hocr).
    destruct (up' && (prio x <? prio e)) eqn:Esw.
    + (* e swaps with its parent x *)
      apply andb_prop in Esw. destruct Esw as [-> Hlt]. inv Hroot.
      assert (Hxe : prio x < prio e) by lia.
      assert (HP' : Permutation (preorder cl ++ preorder cr) (preorder (if b then r else l)))
        by now apply Permutation_cons_inv in HP.
      assert (Hsub : le_all x (preorder cl ++ preorder cr)).
      { eapply le_all_perm; [symmetry; exact HP'|]. destruct b; assumption. }
      apply le_all_app in Hsub. destruct Hsub as [Hsl Hsr].
      destruct b; inv H; cbn [preorder root hord]; (split; [|split; [|reflexivity]]).
      * perm.
      * repeat split; auto.
        -- eapply le_all_trans; [|exact Hlx]. lia.
        -- apply le_all_cons. split; [lia|]. apply le_all_app. auto.
      * perm.
      * repeat split; auto.
        -- apply le_all_cons. split; [lia|]. apply le_all_app. auto.
        -- eapply le_all_trans; [|exact Hrx]. lia.
    + (* e stays below x *)
      assert (Hex : prio e <= prio x).
      { destruct up'; cbn [andb] in Esw; [lia|].
        assert (Hey : prio e <= prio y).
        { unfold le_all in Hmax. rewrite Forall_forall in Hmax. apply Hmax.
          eapply Permutation_in; [symmetry; exact HP|]. now left. }
        assert (Hyx : prio y <= prio x).
        { destruct b.
          - destruct r as [|rl ry rr]; cbn [root] in Hroot; inv Hroot.
            cbn [preorder] in Hrx. apply le_all_cons in Hrx. tauto.
          - destruct l as [|ll ly lr]; cbn [root] in Hroot; inv Hroot.
            cbn [preorder] in Hlx. apply le_all_cons in Hlx. tauto. }
        lia. }
      assert (Hcx : le_all x (y :: preorder cl ++ preorder cr)).
      { eapply le_all_perm; [symmetry; exact HP|]. apply le_all_cons. split; [exact Hex|].
        destruct b; assumption. }
      destruct b; inv H; cbn [preorder root hord]; (split; [|split; [|reflexivity]]).
      * perm.
      * repeat split; auto.
      * perm.
      * repeat split; auto.
Qed.

(* ------------------------------------------------------------------------ *)
(* heap_remove: detach the last node, put it at the root, bubble down *)

(* the path ends at a node without children *)
Fixpoint ends (p : list bool) (t : tree) {struct t} : Prop :=
  match t with
  | Leaf => False
  | Node l _ r =>
      match p with
      | [] => l = Leaf /\ r = Leaf
      | b :: p' => ends p' (if b then r else l)
      end
  end.

Lemma ends_complete l : forall t, complete l t -> ends l t.
Proof.
  induction l as [|b r IH]; intros [|tl x tr] H; cbn [complete] in H; try contradiction; cbn [ends].
  - exact H.
  - destruct b; destruct H; auto.
Qed.

Lemma take_last_spec p : forall t, ends p t ->
  exists y t', take_last p t = Some (y, t') /\
    Permutation (preorder t) (y :: preorder t') /\ (hord t -> hord t') /\
    (p <> [] -> exists l x r l' r', t = Node l x r /\ t' = Node l' x r').
Proof.
  induction p as [|b p IH]; intros [|l x r] H; cbn [ends] in H; try contradiction; cbn [take_last].
  - destruct H as [-> ->]. exists x, Leaf. repeat split; auto. intros Hne. now elim Hne.
  - destruct (IH _ H) as (y & c' & E & HP & Hh & _). rewrite E.
    exists y, (if b then Node l x c' else Node c' x r). split; [reflexivity|]. split; [|split].
    + destruct b; cbn [preorder]; perm.
    + intros (Hlx & Hrx & Hl & Hr). destruct b; cbn [hord]; repeat split; auto.
      * eapply le_all_perm in Hrx; [|exact HP]. apply le_all_cons in Hrx. tauto.
      * eapply le_all_perm in Hlx; [|exact HP]. apply le_all_cons in Hlx. tauto.
    + intros _. destruct b; eauto 10.
Qed.

Lemma take_last_zeros k : forall t y t', complete (repeat false k) t ->
  take_last (repeat false k) t = Some (y, t') -> perfect k t'.
Proof.
  induction k as [|k IH]; intros [|l x r] y t' Hc H; cbn [repeat complete] in Hc; try contradiction;
    cbn [repeat take_last] in H.
  - inv H. cbn. auto.
  - destruct Hc as [Hl Hr]. rewrite repeat_length in Hr.
    destruct (take_last (repeat false k) l) as [[y' c']|] eqn:E; [|discriminate]. inv H.
    cbn [perfect]. split; [eapply IH; eauto|exact Hr].
Qed.

Lemma take_last_complete l : forall t y t',
  match inc l with
  | (l', false) => complete l' t -> take_last l' t = Some (y, t') -> complete l t'
  | (l', true) => True
  end.
Proof.
  induction l as [|b r IH]; intros t y t'; cbn [inc]; [exact I|].
  pose proof (inc_length r) as Hlen. pose proof (inc_carry r) as Hcar.
  specialize (IH (match t with Leaf => Leaf | Node tl _ tr => if b then tr else tl end) y).
  destruct (inc r) as [r' c] eqn:E. cbn [fst] in Hlen. destruct c.
  - destruct (Hcar _ eq_refl) as [Hr1 Hr2]. destruct b; [exact I|].
    intros Hc H. destruct t as [|tl x tr]; cbn [complete] in Hc; [contradiction|].
    destruct Hc as [Hl Hr]. cbn [take_last] in H.
    destruct (take_last r' tr) as [[y' c']|] eqn:Et; [|discriminate]. inv H.
    cbn [complete]. rewrite Hlen in Hl. split.
    + rewrite Hr1. now apply perfect_complete_ones.
    + eapply take_last_zeros; eauto.
  - intros Hc H. destruct t as [|tl x tr]; cbn [complete] in Hc; [contradiction|].
    cbn [take_last] in H. destruct b; destruct Hc as [Hl Hr]; rewrite Hlen in *.
    + destruct (take_last r' tr) as [[y' c']|] eqn:Et; [|discriminate]. inv H.
      cbn [complete]. split; [exact Hl|]. now apply (IH c').
    + destruct (take_last r' tl) as [[y' c']|] eqn:Et; [|discriminate]. inv H.
      cbn [complete]. split; [|exact Hr]. now apply (IH c').
Qed.

(* removing position n+1 from a complete tree of n+1 nodes *)
Lemma take_last_shape p t y t' : complete (path_pos (Pos.succ p)) t ->
  take_last (path_pos (Pos.succ p)) t = Some (y, t') -> complete (path_pos p) t'.
Proof.
  rewrite path_succ. unfold succ_bits.
  pose proof (take_last_complete (path_pos p) t y t') as Hn.
  pose proof (inc_carry (path_pos p)) as Hcar.
  destruct (inc (path_pos p)) as [l' c]. destruct c; [|exact Hn].
  destruct (Hcar _ eq_refl) as [H1 H2]. intros Hc H.
  destruct t as [|tl x tr]; cbn [complete] in Hc; [contradiction|]. destruct Hc as [Hl Hr].
  cbn [take_last] in H. destruct (take_last l' tl) as [[y' c']|] eqn:Et; [|discriminate]. inv H.
  rewrite H1. apply perfect_complete_ones. cbn [perfect]. rewrite repeat_length in Hr.
  split; [|exact Hr]. eapply take_last_zeros; eauto.
Qed.

(* sift, one level *)
Lemma sift_node x l z r : sift x (Node l z r) =
  match l, r with
  | Leaf, Leaf => Node l x r
  | Node _ lx _, Leaf => if prio x <? prio lx then Node (sift x l) lx r else Node l x r
  | Leaf, Node _ rx _ => if prio x <? prio rx then Node l rx (sift x r) else Node l x r
  | Node _ lx _, Node _ rx _ =>
      if (prio x <? prio lx) && (prio rx <=? prio lx) then Node (sift x l) lx r
      else if (prio x <? prio rx) && (prio lx <? prio rx) then Node l rx (sift x r)
      else Node l x r
  end.
Proof. reflexivity. Qed.

Lemma sift_spec x t :
  match t with
  | Leaf => True
  | Node l _ r => hord l -> hord r ->
      Permutation (preorder (sift x t)) (x :: preorder l ++ preorder r) /\
      hord (sift x t) /\ sshape (sift x t) t
  end.
Proof.
  induction t as [|l IHl z r IHr]; [exact I|]. intros Hl Hr. rewrite sift_node.
  destruct l as [|ll lx lr], r as [|rl rx rr].
  - cbn. repeat split; auto; constructor.
  - destruct Hr as (H1 & H2 & H3 & H4). specialize (IHr H3 H4). destruct IHr as (HP & Ho & Hs).
    destruct (prio x <? prio rx) eqn:E.
    + cbn [preorder hord sshape app]. split; [perm|]. split; [|split; [exact I|exact Hs]].
      repeat split; auto; [constructor|].
      eapply le_all_perm; [symmetry; exact HP|]. apply le_all_cons. split; [lia|].
      apply le_all_app. auto.
    + cbn [preorder hord sshape app]. split; [reflexivity|]. split; [|split; [exact I|split; apply sshape_refl]].
      repeat split; auto; [constructor|].
      apply le_all_cons. split; [lia|]. apply le_all_app.
      split; (apply (le_all_trans rx); [lia|assumption]).
  - destruct Hl as (H1 & H2 & H3 & H4). specialize (IHl H3 H4). destruct IHl as (HP & Ho & Hs).
    destruct (prio x <? prio lx) eqn:E.
    + cbn [preorder hord sshape app]. split; [perm|]. split; [|split; [exact Hs|exact I]].
      repeat split; auto; [|constructor].
      eapply le_all_perm; [symmetry; exact HP|]. apply le_all_cons. split; [lia|].
      apply le_all_app. auto.
    + cbn [preorder hord sshape app]. split; [reflexivity|]. split; [|split; [split; apply sshape_refl|exact I]].
      repeat split; auto; [|constructor].
      apply le_all_cons. split; [lia|]. apply le_all_app.
      split; (apply (le_all_trans lx); [lia|assumption]).
  - pose proof Hl as (L1 & L2 & L3 & L4). pose proof Hr as (R1 & R2 & R3 & R4).
    specialize (IHl L3 L4). specialize (IHr R3 R4).
    destruct IHl as (HPl & Hol & Hsl). destruct IHr as (HPr & Hor & Hsr).
    destruct ((prio x <? prio lx) && (prio rx <=? prio lx)) eqn:E1;
      [|destruct ((prio x <? prio rx) && (prio lx <? prio rx)) eqn:E2].
    + apply andb_prop in E1. destruct E1 as [Ea Eb].
      cbn [preorder hord sshape app]. split; [perm|].
      split; [|split; [exact Hsl|split; apply sshape_refl]].
      repeat split; auto.
      * eapply le_all_perm; [symmetry; exact HPl|]. apply le_all_cons. split; [lia|].
        apply le_all_app. auto.
      * apply le_all_cons. split; [lia|]. apply le_all_app.
        split; (apply (le_all_trans rx); [lia|assumption]).
    + apply andb_prop in E2. destruct E2 as [Ea Eb].
      cbn [preorder hord sshape app]. split; [perm|].
      split; [|split; [split; apply sshape_refl|exact Hsr]].
      repeat split; auto.
      * apply le_all_cons. split; [lia|]. apply le_all_app.
        split; (apply (le_all_trans lx); [lia|assumption]).
      * eapply le_all_perm; [symmetry; exact HPr|]. apply le_all_cons. split; [lia|].
        apply le_all_app. auto.
    + assert (prio lx <= prio x /\ prio rx <= prio x) as [Hlx Hrx].
      { destruct (prio x <? prio lx) eqn:A, (prio rx <=? prio lx) eqn:B,
          (prio x <? prio rx) eqn:C, (prio lx <? prio rx) eqn:D; cbn in E1, E2; try discriminate; lia. }
      cbn [preorder hord sshape app]. split; [reflexivity|].
      split; [|split; split; apply sshape_refl].
      repeat split; auto.
      * apply le_all_cons. split; [lia|]. apply le_all_app.
        split; (apply (le_all_trans lx); [lia|assumption]).
      * apply le_all_cons. split; [lia|]. apply le_all_app.
        split; (apply (le_all_trans rx); [lia|assumption]).
Qed.

(* ------------------------------------------------------------------------ *)
(* the heap object *)
Definition helems (h : heap) : list task := preorder (htree h).
Definition oelems (oh : option heap) : list task := match oh with Some h => helems h | None => [] end.

(* complete shape for size, max-heap order, priority field = top's priority *)
Definition hinv (h : heap) : Prop :=
  shape (hsize h) (htree h) /\ hord (htree h) /\ hprio h = root_prio (htree h).
Definition oinv (oh : option heap) : Prop := match oh with Some h => hinv h | None => True end.

(* what a remove/steal must return: a maximum, or nothing from nothing *)
Definition best_of (l : list task) (r : option task) : Prop :=
  match r with
  | Some x => In x l /\ forall y, In y l -> prio y <= prio x
  | None => l = []
  end.

Lemma hinv_create : hinv heap_create.
Proof. unfold hinv, heap_create. cbn. auto. Qed.

Lemma hinv_count h : hinv h -> N.of_nat (length (helems h)) = hsize h.
Proof. intros (Hs & _). now apply shape_count. Qed.

Lemma hinv_top_max h : hinv h -> forall y, In y (helems h) -> prio y <= hprio h.
Proof.
  intros (_ & Ho & Hp) y Hy. unfold helems in Hy. destruct (htree h) as [|l x r]; [destruct Hy|].
  rewrite Hp. cbn [root_prio]. apply hord_root_max in Ho. unfold le_all in Ho.
  rewrite Forall_forall in Ho. now apply Ho.
Qed.

Theorem heap_insert_spec h e : hinv h ->
  hinv (heap_insert h e) /\ Permutation (helems (heap_insert h e)) (e :: helems h) /\
  hsize (heap_insert h e) = N.succ (hsize h).
Proof.
  intros (Hs & Ho & Hp). unfold heap_insert, hinv, helems. cbn [hsize htree hprio].
  destruct (ins (path (N.succ (hsize h))) e (htree h)) as [t' up] eqn:E. cbn [fst].
  destruct (ins_spec _ _ _ _ _ E (fits_shape _ _ Hs) Ho) as (HP & Ho' & _).
  repeat split; auto.
  pose proof (ins_sshape (path (N.succ (hsize h))) e (htree h)) as Hsh. rewrite E in Hsh. cbn [fst] in Hsh.
  pose proof (graft_shape e _ _ Hs) as Hg.
  destruct (N.succ (hsize h)) as [|q] eqn:En; [lia|]. cbn [shape path] in *.
  eapply complete_sshape; [|exact Hg]. now apply sshape_sym.
Qed.

Lemma hinv_insert h e : hinv h -> hinv (heap_insert h e).
Proof. intros H. now apply heap_insert_spec. Qed.

Lemma complete_cons b rest l x r : complete (b :: rest) (Node l x r) =
  if b then perfect (S (length rest)) l /\ complete rest r
  else complete rest l /\ perfect (length rest) r.
Proof. destruct b; reflexivity. Qed.

Lemma complete_left_leaf l x r : complete l (Node Leaf x r) -> l = [] /\ r = Leaf.
Proof.
  destruct l as [|[] rest]; cbn.
  - intros [_ ->]. auto.
  - intros [[] _].
  - intros [[] _].
Qed.

Lemma complete_right_leaf l ll lx lr x : complete l (Node (Node ll lx lr) x Leaf) ->
  l = [false] /\ ll = Leaf /\ lr = Leaf.
Proof.
  destruct l as [|[] rest]; cbn [complete].
  - intros [H _]. discriminate.
  - intros [_ []].
  - intros [Hc Hp]. destruct rest as [|b rest]; [|cbn in Hp; contradiction].
    cbn in Hc. destruct Hc as [-> ->]. auto.
Qed.

Lemma shape_pos_cases p : p = 1%positive \/ exists p0, p = Pos.succ p0.
Proof. destruct (Pos.succ_pred_or p) as [->|H]; [now left|right; eauto]. Qed.

Local Opaque sift N.sub.

Theorem heap_remove_spec oh oh' r : oinv oh -> heap_remove oh = (oh', r) ->
  oinv oh' /\ Permutation (oelems oh) (opt r ++ oelems oh') /\ best_of (oelems oh) r /\
  (forall h h', oh = Some h -> oh' = Some h' -> r <> None -> N.succ (hsize h') = hsize h).
Proof.
  destruct oh as [h|]; cbn [oinv heap_remove]; [|intros _ H; inv H; cbn; repeat split; auto; discriminate].
  intros (Hs & Ho & Hp). cbn [oelems]. unfold helems.
  destruct (htree h) as [|l x r0] eqn:Et.
  { intros H. inv H. cbn [oinv oelems opt app best_of]. unfold hinv, helems. rewrite Et.
    repeat split; auto. intros ? ? _ _ Hn. now elim Hn. }
  destruct (hsize h) as [|p] eqn:En; cbn [shape] in Hs; [discriminate|].
  assert (Hmax : le_all x (preorder (Node l x r0))) by now apply hord_root_max.
  assert (Hbest : best_of (preorder (Node l x r0)) (Some x)).
  { split; [now left|]. unfold le_all in Hmax. rewrite Forall_forall in Hmax. exact Hmax. }
  destruct l as [|ll lx lr].
  - (* only the top *)
    intros H. inv H. apply complete_left_leaf in Hs. destruct Hs as [_ ->].
    cbn [oinv oelems opt app preorder]. split; [exact I|]. split; [reflexivity|]. split; [exact Hbest|].
    intros ? ? _ Hn. discriminate.
  - destruct r0 as [|rl rx rr].
    + (* top and its left child *)
      apply complete_right_leaf in Hs. destruct Hs as (Hpath & -> & ->).
      assert (p = 2%positive) as ->.
      { assert (N.pos p = 2%N) by (rewrite <- val_path, Hpath; reflexivity). congruence. }
      intros H. inv H.
      cbn [oinv oelems opt app]. unfold hinv, helems. cbn [hsize htree hprio preorder app].
      replace (2 - 1)%N with 1%N by lia. cbn [shape path_pos complete root_prio].
      split; [repeat split; auto; constructor|]. split; [reflexivity|]. split; [exact Hbest|].
      intros ? ? Ha Hb _. inv Ha. inv Hb. cbn [hsize]. now rewrite En.
    + (* at least three nodes *)
      destruct (shape_pos_cases p) as [->|[p0 ->]]; [cbn in Hs; destruct Hs; discriminate|].
      cbn [path].
      destruct (take_last_spec _ _ (ends_complete _ _ Hs)) as (y & t' & E & HP & Hh & Hroot).
      rewrite E. intros H.
      destruct Hroot as (l0 & x0 & r1 & l' & r' & E1 & ->).
      { intros Hnil. rewrite Hnil in Hs. cbn in Hs. destruct Hs; discriminate. }
      inv E1. inv H.
      pose proof (take_last_shape _ _ _ _ Hs E) as Hs'.
      pose proof (Hh Ho) as Hh'. cbn [hord] in Hh'. destruct Hh' as (_ & _ & Hl' & Hr').
      pose proof (sift_spec y (Node l' y r')) as Hsift. cbn beta iota in Hsift.
      destruct (Hsift Hl' Hr') as (HPs & Hos & Hss).
      cbn [oinv oelems opt app]. unfold hinv, helems. cbn [hsize htree hprio].
      split; [|split; [|split]].
      * split; [|split; [exact Hos|reflexivity]].
        replace (N.pos (Pos.succ p0) - 1)%N with (N.pos p0) by lia. cbn [shape].
        eapply complete_sshape; [apply sshape_sym; exact Hss|].
        eapply complete_sshape; [|exact Hs']. cbn. split; apply sshape_refl.
      * cbn [preorder] in HP |- *. perm.
      * exact Hbest.
      * intros ? ? Ha Hb _. inv Ha. inv Hb. cbn [hsize]. rewrite En. lia.
Qed.

Local Opaque N.mul N.add N.pow.

Theorem heap_split_spec oh oh1 oh2 r : oinv oh ->
  (forall h, oh = Some h -> (hsize h < 2 ^ 32)%N) ->
  heap_split oh = ((oh1, oh2), r) ->
  oinv oh1 /\ oinv oh2 /\ Permutation (oelems oh) (opt r ++ oelems oh1 ++ oelems oh2) /\
  best_of (oelems oh) r.
Proof.
  destruct oh as [h|]; cbn [oinv heap_split]; [|intros _ _ H; inv H; cbn; repeat split; auto].
  intros (Hs & Ho & Hp) Hlt. specialize (Hlt h eq_refl). cbn [oelems]. unfold helems.
  destruct (htree h) as [|l x r0] eqn:Et.
  { intros H. inv H. cbn [oinv oelems opt app best_of]. unfold hinv, helems. rewrite Et.
    repeat split; auto. }
  destruct (hsize h) as [|p] eqn:En; cbn [shape] in Hs; [discriminate|].
  assert (Hmax : le_all x (preorder (Node l x r0))) by now apply hord_root_max.
  assert (Hbest : best_of (preorder (Node l x r0)) (Some x)).
  { split; [now left|]. unfold le_all in Hmax. rewrite Forall_forall in Hmax. exact Hmax. }
  destruct l as [|ll lx lr].
  - intros H. inv H. apply complete_left_leaf in Hs. destruct Hs as [_ ->].
    cbn [oinv oelems opt app preorder]. split; [exact I|]. split; [exact I|]. split; [reflexivity|exact Hbest].
  - destruct r0 as [|rl rx rr].
    + apply complete_right_leaf in Hs. destruct Hs as (Hpath & -> & ->).
      assert (p = 2%positive) as ->.
      { assert (N.pos p = 2%N) by (rewrite <- val_path, Hpath; vm_compute; reflexivity). congruence. }
      intros H. inv H.
      cbn [oinv oelems opt app]. unfold hinv, helems. cbn [hsize htree hprio preorder app].
      replace (2 - 1)%N with 1%N by lia. cbn [shape path_pos complete root_prio].
      split; [repeat split; auto; constructor|]. split; [exact I|]. split; [reflexivity|exact Hbest].
    + destruct Ho as (Hlx & Hrx & Hol & Hor).
      destruct (path_pos p) as [|b rest] eqn:Epath; [cbn in Hs; destruct Hs; discriminate|].
      assert (Hval : N.pos p = val (b :: rest)) by (rewrite <- Epath; symmetry; apply val_path).
      rewrite Hval in Hlt |- *.
      destruct (split_sizes b rest Hlt) as (Hhb & Htb & Htest & Hld). cbv zeta in *.
      rewrite Htest, Hld, Htb. rewrite val_cons.
      pose proof (val0_lt rest) as Hv0. pose proof (pow2_pos (N.of_nat (length rest))) as Hpp.
      set (K := (2 ^ N.of_nat (length rest))%N) in *. set (V := val0 rest) in *.
      rewrite complete_cons in Hs.
      destruct b; intros H; inv H; destruct Hs as [Hsl Hsr];
        cbn [oinv oelems opt app]; unfold hinv, helems; cbn [hsize htree hprio root_prio].
      * (* last node on the right: the left subtree is perfect *)
        assert (Hhs : (K + V)%N = val rest) by reflexivity.
        assert (Hns : (2 * K + K + V - (K + V) - 1)%N = val (repeat true (length rest))).
        { pose proof (val_ones (length rest)). fold K in H. lia. }
        rewrite Hns, Hhs. split; [|split; [|split]].
        -- split; [apply shape_val; exact Hsr|split; [exact Hor|reflexivity]].
        -- split; [apply shape_val; apply perfect_complete_ones; exact Hsl|split; [exact Hol|reflexivity]].
        -- cbn [preorder]. perm.
        -- exact Hbest.
      * (* last node on the left: the right subtree is perfect, one level shorter *)
        destruct rest as [|b' rest']; [cbn in Hsr; contradiction|].
        assert (Hns : (0 + V + K)%N = val (b' :: rest')) by (unfold val; fold K; fold V; lia).
        assert (Hhs : (2 * K + 0 + V - (0 + V + K) - 1)%N = val (repeat true (length rest'))).
        { pose proof (val_ones (length rest')). unfold K. cbn [length]. rewrite pow2_S. lia. }
        rewrite Hhs, Hns. split; [|split; [|split]].
        -- split; [apply shape_val; apply perfect_complete_ones; exact Hsr|split; [exact Hor|reflexivity]].
        -- split; [apply shape_val; exact Hsl|split; [exact Hol|reflexivity]].
        -- cbn [preorder]. perm.
        -- exact Hbest.
Qed.

(* ------------------------------------------------------------------------ *)
(* histories over a table of heaps *)
Definition all_elems (s : list (option heap)) : list task := flat_map oelems s.

Lemma all_elems_app a b : all_elems (a ++ b) = all_elems a ++ all_elems b.
Proof. unfold all_elems. apply flat_map_app. Qed.

Lemma set_nth_all_elems i oh oh' s : nth_error s i = Some oh ->
  Permutation (oelems oh ++ all_elems (set_nth i oh' s)) (oelems oh' ++ all_elems s).
Proof.
  revert i; induction s as [|x s IH]; intros [|i] H; cbn [nth_error] in H; try discriminate.
  - inv H. cbn [set_nth all_elems flat_map]. perm.
  - cbn [set_nth all_elems flat_map]. specialize (IH i H). unfold all_elems in IH. perm.
Qed.

Lemma set_nth_Forall {A} (P : A -> Prop) i v l : P v -> Forall P l -> Forall P (set_nth i v l).
Proof.
  intros Hv. revert i; induction l as [|x l IH]; intros [|i] H; cbn [set_nth]; auto; inv H; constructor; auto.
Qed.

Lemma elems_le_all s i oh : nth_error s i = Some oh ->
  (length (oelems oh) <= length (all_elems s))%nat.
Proof.
  revert i; induction s as [|x s IH]; intros [|i] H; cbn [nth_error] in H; try discriminate;
    cbn [all_elems flat_map]; rewrite app_length.
  - inv H. lia.
  - specialize (IH i H). unfold all_elems in IH. lia.
Qed.

Theorem hstep_spec s o s' r : Forall oinv s ->
  (N.of_nat (length (all_elems s)) < 2 ^ 32)%N ->
  hstep s o = (s', r) ->
  Forall oinv s' /\
  Permutation (all_elems s' ++ opt r) (all_elems s ++ hinserted s [o]) /\
  match o with
  | HRemove i | HSplit i => forall oh, nth_error s i = Some oh -> best_of (oelems oh) r
  | _ => r = None
  end.
Proof.
  intros Hinv Hbound H. destruct o as [|i e|i|i]; cbn [hstep hinserted] in *.
  - inv H. split; [|split; [|reflexivity]].
    + apply Forall_app. split; [exact Hinv|]. constructor; [apply hinv_create|constructor].
    + rewrite all_elems_app. cbn. rewrite !app_nil_r. reflexivity.
  - rewrite app_nil_r. destruct (nth_error s i) as [[h|]|] eqn:En; inv H.
    + assert (Hh : hinv h).
      { rewrite Forall_forall in Hinv. apply (Hinv (Some h)). eapply nth_error_In; eauto. }
      destruct (heap_insert_spec h e Hh) as (Hi & HP & _).
      split; [now apply set_nth_Forall|]. split; [|reflexivity].
      pose proof (set_nth_all_elems i _ (Some (heap_insert h e)) s En) as HPs. cbn [oelems] in HPs.
      cbn [opt]. perm.
    + destruct (heap_insert_spec heap_create e hinv_create) as (Hi & HP & _).
      split; [now apply set_nth_Forall|]. split; [|reflexivity].
      pose proof (set_nth_all_elems i _ (Some (heap_insert heap_create e)) s En) as HPs.
      unfold oelems in HPs. change (helems heap_create) with (@nil task) in HP. cbn [opt]. perm.
    + split; [exact Hinv|]. split; [|reflexivity]. cbn. rewrite !app_nil_r. reflexivity.
  - rewrite app_nil_r. destruct (nth_error s i) as [oh|] eqn:En.
    + destruct (heap_remove oh) as [oh' r'] eqn:Er. inv H.
      assert (Hh : oinv oh).
      { rewrite Forall_forall in Hinv. apply Hinv. eapply nth_error_In; eauto. }
      destruct (heap_remove_spec _ _ _ Hh Er) as (Hi & HP & Hb & _).
      split; [now apply set_nth_Forall|]. split.
      * pose proof (set_nth_all_elems i _ oh' s En) as HPs. perm.
      * intros oh0 Hoh0. inv Hoh0. exact Hb.
    + inv H. split; [exact Hinv|]. split; [perm|]. intros oh Hoh. discriminate.
  - rewrite app_nil_r. destruct (nth_error s i) as [oh|] eqn:En.
    + destruct (heap_split oh) as [[oh' nh] r'] eqn:Er. inv H.
      assert (Hh : oinv oh).
      { rewrite Forall_forall in Hinv. apply Hinv. eapply nth_error_In; eauto. }
      assert (Hlt : forall h, oh = Some h -> (hsize h < 2 ^ 32)%N).
      { intros h ->. cbn [oinv] in Hh. rewrite <- (hinv_count h Hh).
        pose proof (elems_le_all s i _ En) as Hle. cbn [oelems] in Hle. lia. }
      destruct (heap_split_spec _ _ _ _ Hh Hlt Er) as (Hi1 & Hi2 & HP & Hb).
      split; [|split].
      * apply Forall_app. split; [now apply set_nth_Forall|]. constructor; [exact Hi2|constructor].
      * pose proof (set_nth_all_elems i _ oh' s En) as HPs. rewrite all_elems_app.
        cbn [all_elems flat_map]. rewrite app_nil_r. perm.
      * intros oh0 Hoh0. inv Hoh0. exact Hb.
    + inv H. split; [exact Hinv|]. split; [perm|]. intros oh Hoh. discriminate.
Qed.

Lemma hinserted_cons s o os : hinserted s (o :: os) = hinserted s [o] ++ hinserted (fst (hstep s o)) os.
Proof. cbn [hinserted]. now rewrite app_nil_r. Qed.

Lemma hinserted_length s ops : (length (hinserted s ops) <= length ops)%nat.
Proof.
  revert s; induction ops as [|o os IH]; intros s; cbn [hinserted length]; [lia|].
  rewrite app_length. specialize (IH (fst (hstep s o))).
  destruct o as [|i e|i|i]; cbn [length]; try lia. destruct (nth_error s i); cbn [length]; lia.
Qed.

(* every history: the invariants hold in every heap at the end and the tasks
   still in the heaps plus the returned ones are exactly the inserted ones *)
Theorem hrun_spec ops : forall s s' rets, Forall oinv s ->
  (N.of_nat (length (all_elems s)) + N.of_nat (length ops) < 2 ^ 32)%N ->
  hrun s ops = (s', rets) ->
  Forall oinv s' /\ Permutation (all_elems s' ++ rets) (all_elems s ++ hinserted s ops).
Proof.
  induction ops as [|o os IH]; intros s s' rets Hinv Hbound H; cbn [hrun] in H.
  - inv H. cbn [hinserted]. split; [exact Hinv|reflexivity].
  - destruct (hstep s o) as [s1 r] eqn:E1. destruct (hrun s1 os) as [s2 rs] eqn:E2. inv H.
    cbn [length] in Hbound.
    destruct (hstep_spec _ _ _ _ Hinv ltac:(lia) E1) as (Hinv1 & HP1 & _).
    assert (Hb1 : (N.of_nat (length (all_elems s1)) + N.of_nat (length os) < 2 ^ 32)%N).
    { pose proof (Permutation_length HP1) as HL. rewrite !app_length in HL.
      pose proof (hinserted_length s [o]) as HI. cbn [length] in HI.
      destruct r; cbn [opt length] in HL; lia. }
    destruct (IH _ _ _ Hinv1 Hb1 E2) as (Hinv2 & HP2).
    split; [exact Hinv2|]. rewrite hinserted_cons, E1. cbn [fst].
    change (match r with Some t => [t] | None => [] end) with (opt r). perm.
Qed.

(* the priority field is the highest priority held, the size field the number of tasks *)
Theorem hinv_fields h : hinv h ->
  (forall y, In y (helems h) -> prio y <= hprio h) /\
  (forall l x r, htree h = Node l x r -> hprio h = prio x) /\
  N.of_nat (length (helems h)) = hsize h.
Proof.
  intros Hh. split; [now apply hinv_top_max|]. split; [|now apply hinv_count].
  intros l x r Et. destruct Hh as (_ & _ & Hp). now rewrite Hp, Et.
Qed.
