(* Executable models of the two task containers of the local-queue schedulers:

   (a) parsec/hbbuffer.c  — hierarchical bounded buffer: an array of task slots
       with a parent store that receives what does not fit;
   (b) parsec/maxheap.c   — max-heap of tasks kept as a pointer tree whose shape
       is the complete binary tree addressed by the bits of [size].

   Sequential semantics (one thread runs each call to completion, so every
   compare-and-swap of hbbuffer.c succeeds at the first attempt).  NO proofs
   here.  Tasks are (identity, priority); the C code only compares priorities
   (signed int, [COMPARISON_VAL]), so [Z] without wrap-around is exact.       *)
From Coq Require Import ZArith NArith List Bool.
Import ListNotations.

Record task := mkTask { tid : Z; prio : Z }.

(* ------------------------------------------------------------------------ *)
(* (a) hbbuffer                                                             *)

(* b->items[0..size-1]; NULL = None.  size = length. *)
Definition slots := list (option task).

Fixpoint set_nth {A} (i : nat) (v : A) (l : list A) : list A :=
  match l with
  | [] => []
  | x :: r => match i with O => v :: r | S j => x :: set_nth j v r end
  end.

(* The while/for loops of parsec_hbbuffer_push_all: the slot index [i] only
   moves forward; every element takes the next empty slot at or after [i];
   returns the new array and the elements that did not fit (in ring order). *)
Fixpoint fill (b : slots) (elts : list task) : slots * list task :=
  match b with
  | [] => ([], elts)
  | s :: rest =>
      match elts with
      | [] => (b, [])
      | e :: es =>
          match s with
          | Some _ => let (r, left) := fill rest elts in (s :: r, left)
          | None => let (r, left) := fill rest es in (Some e :: r, left)
          end
      end
  end.

(* one call of the top-most parent_push_fct (the system queue of the
   schedulers, a recorder in the harness): the ring in order + the distance *)
Definition pcall := (list task * Z)%type.

(* parsec_hbbuffer_push_all on buffer [b] whose ancestors are [up]; every
   ancestor's parent_push_fct is parsec_hbbuffer_push_all on the next one
   (parsec_mca_sched_push_in_buffer_wrapper), the last one's is the recorder.
     if (0 != distance && NULL != parent_push_fct) goto push_upstream;
     ... fill ...; if (NULL == elt) return;
     push_upstream: parent_push_fct(parent_store, elt, distance - 1)          *)
Fixpoint push_all (bufs : list slots) (elts : list task) (d : Z) : list slots * list pcall :=
  match bufs with
  | [] => ([], [(elts, d)])
  | b :: up =>
      if Z.eqb d 0 then
        let (b', left) := fill b elts in
        match left with
        | [] => (b' :: up, [])
        | _ :: _ => let (up', q) := push_all up left (d - 1) in (b' :: up', q)
        end
      else let (up', q) := push_all up elts (d - 1) in (b :: up', q)
  end.

(* the for loop of parsec_hbbuffer_push_all_by_priority: first empty slot wins
   (scan stops there); otherwise the first slot holding the lowest priority
   strictly below topush.  [p] is best_context's priority, [acc] the pair
   (best_index, best_context) when best_context is a buffer element.
   Result: None (best_index = -1) | Some (i, None) (empty slot i)
         | Some (i, Some c) (slot i holds c, to be ejected). *)
Fixpoint find_slot (b : slots) (i : nat) (acc : option (nat * task)) (p : Z)
  : option (nat * option task) :=
  match b with
  | [] => match acc with None => None | Some (k, c) => Some (k, Some c) end
  | None :: _ => Some (i, None)
  | Some c :: rest =>
      if Z.ltb (prio c) p then find_slot rest (S i) (Some (i, c)) (prio c)
      else find_slot rest (S i) acc p
  end.

(* the while(1) loop: [topush] is the current element, [rest] the remaining
   ring, [ejected] the ring of ejected elements (head first).  Returns the new
   array and the ring handed to the parent. *)
Fixpoint pbp (b : slots) (topush : task) (rest : list task) (ejected : list task)
  : slots * list task :=
  match find_slot b 0 None (prio topush) with
  | Some (i, victim) =>
      let b' := set_nth i (Some topush) b in
      let ej' := match victim with Some v => v :: ejected | None => ejected end in
      match rest with
      | [] => (b', ej')
      | t :: r => pbp b' t r ej'
      end
  | None => (b, (topush :: ejected) ++ rest)
  end.

Definition push_prio (bufs : list slots) (elts : list task) (d : Z) : list slots * list pcall :=
  match bufs with
  | [] => ([], [(elts, d)])
  | b :: up =>
      match elts with
      | [] => (bufs, [])    (* d<>0: ejected = NULL, nothing is sent; d=0: assert(NULL != list), not generated *)
      | t :: rest =>
          if Z.eqb d 0 then
            let (b', ej) := pbp b t rest [] in
            match ej with
            | [] => (b' :: up, [])
            | _ :: _ => let (up', q) := push_all up ej (d - 1) in (b' :: up', q)
            end
          else let (up', q) := push_all up elts (d - 1) in (b :: up', q)
      end
  end.

(* parsec_hbbuffer_pop_best: first slot among those of highest priority *)
Fixpoint best_scan (b : slots) (i : nat) (acc : option (nat * task)) : option (nat * task) :=
  match b with
  | [] => acc
  | None :: r => best_scan r (S i) acc
  | Some c :: r =>
      match acc with
      | None => best_scan r (S i) (Some (i, c))
      | Some (_, best) =>
          if Z.ltb (prio best) (prio c) then best_scan r (S i) (Some (i, c))
          else best_scan r (S i) acc
      end
  end.

Definition pop_best (b : slots) : slots * option task :=
  match best_scan b 0 None with
  | None => (b, None)
  | Some (i, t) => (set_nth i None b, Some t)
  end.

(* parsec_hbbuffer_is_empty / parsec_hbbuffer_approx_occupency *)
Definition is_empty (b : slots) : bool :=
  forallb (fun s => match s with None => true | Some _ => false end) b.
Definition occupancy (b : slots) : nat :=
  length (filter (fun s => match s with None => false | Some _ => true end) b).

(* histories on a chain of buffers (level 0 = the thread's own buffer) *)
Inductive bop :=
| BPushAll (elts : list task) (d : Z)
| BPushPrio (elts : list task) (d : Z)
| BPop (level : nat).

Definition bstep (bufs : list slots) (o : bop) : list slots * (option task * list pcall) :=
  match o with
  | BPushAll elts d => let (b', q) := push_all bufs elts d in (b', (None, q))
  | BPushPrio elts d => let (b', q) := push_prio bufs elts d in (b', (None, q))
  | BPop j =>
      match nth_error bufs j with
      | None => (bufs, (None, []))
      | Some b => let (b', r) := pop_best b in (set_nth j b' bufs, (r, []))
      end
  end.

(* run a history; returns the final buffers, every popped task and every
   call of the top-most parent, both in chronological order *)
Fixpoint brun (bufs : list slots) (ops : list bop) : list slots * (list task * list pcall) :=
  match ops with
  | [] => (bufs, ([], []))
  | o :: os =>
      let '(b1, (r, q)) := bstep bufs o in
      let '(b2, (rs, qs)) := brun b1 os in
      (b2, ((match r with Some t => [t] | None => [] end) ++ rs, q ++ qs))
  end.

(* ------------------------------------------------------------------------ *)
(* (b) maxheap                                                              *)

(* list_prev = left child, list_next = right child *)
Inductive tree := Leaf | Node (l : tree) (x : task) (r : tree).

(* heap->size (unsigned int, assumed < 2^31), heap->priority (read back as
   int), heap->top *)
Record heap := mkHeap { hsize : N; hprio : Z; htree : tree }.

(* The walk "bitmask & size ? list_next : list_prev" from the bit below the
   most significant one down to bit 0: the binary digits of size after the
   leading 1, most significant first; true = right (list_next). *)
Fixpoint path_pos (p : positive) : list bool :=
  match p with
  | xH => []
  | xO q => path_pos q ++ [false]
  | xI q => path_pos q ++ [true]
  end.
Definition path (n : N) : list bool := match n with N0 => [] | Npos p => path_pos p end.

Definition root_prio (t : tree) : Z := match t with Leaf => 0%Z | Node _ x _ => prio x end.

(* heap_insert below the root: hang [e] at the end of the path, then bubble it
   up while it is strictly greater than its parent.  The flag tells whether e
   is the root of the returned subtree (so that the caller's node is "parent").
   Swapping e with its parent x: x takes e's children; e takes x's place with
   x as the child on the side e came from. *)
Fixpoint ins (p : list bool) (e : task) (t : tree) : tree * bool :=
  match p with
  | [] => (Node Leaf e Leaf, true)
  | b :: p' =>
      match t with
      | Leaf => (Leaf, false)            (* NULL dereference in C; excluded by the shape invariant *)
      | Node l x r =>
          let (c, up) := ins p' e (if b then r else l) in
          match c with
          | Node cl _ cr =>
              if up && Z.ltb (prio x) (prio e) then
                (if b then Node l e (Node cl x cr) else Node (Node cl x cr) e r, true)
              else (if b then Node l x c else Node c x r, false)
          | Leaf => (if b then Node l x c else Node c x r, false)
          end
      end
  end.

Definition heap_create : heap := mkHeap 0 0 Leaf.

(* size++; size == 1 ? top = elem : walk + bubble;  priority = top->priority.
   ([path 1 = []] and [ins [] e _ = Node Leaf e Leaf]: the size == 1 branch is
   the empty walk.) *)
Definition heap_insert (h : heap) (e : task) : heap :=
  let n := N.succ (hsize h) in
  let t := fst (ins (path n) e (htree h)) in
  mkHeap n (root_prio t) t.

(* detach the node at the end of the path (the last node of the complete
   tree); returns its task and the tree without it *)
Fixpoint take_last (p : list bool) (t : tree) : option (task * tree) :=
  match t with
  | Leaf => None
  | Node l x r =>
      match p with
      | [] => Some (x, Leaf)
      | b :: p' =>
          match take_last p' (if b then r else l) with
          | None => None
          | Some (y, c) => Some (y, if b then Node l x c else Node c x r)
          end
      end
  end.

(* bubble down: the root of [t] is a hole to be filled by [x] or by the child
   that goes up.  prev goes up if prev > x and (no next or prev >= next);
   else next goes up if next > x and (no prev or next > prev). *)
Fixpoint sift (x : task) (t : tree) : tree :=
  match t with
  | Leaf => Leaf
  | Node l _ r =>
      match l, r with
      | Leaf, Leaf => Node l x r
      | Node _ lx _, Leaf =>
          if Z.ltb (prio x) (prio lx) then Node (sift x l) lx r else Node l x r
      | Leaf, Node _ rx _ =>
          if Z.ltb (prio x) (prio rx) then Node l rx (sift x r) else Node l x r
      | Node _ lx _, Node _ rx _ =>
          if Z.ltb (prio x) (prio lx) && Z.leb (prio rx) (prio lx) then Node (sift x l) lx r
          else if Z.ltb (prio x) (prio rx) && Z.ltb (prio lx) (prio rx) then Node l rx (sift x r)
          else Node l x r
      end
  end.

(* heap_remove(&heap): None = NULL heap pointer.  Result: the heap pointer
   after the call and the returned task. *)
Definition heap_remove (oh : option heap) : option heap * option task :=
  match oh with
  | None => (None, None)
  | Some h =>
      match htree h with
      | Leaf => (Some h, None)       (* heap->top == NULL is dereferenced in C (assert compiled out); the harness guards it *)
      | Node Leaf x _ => (None, Some x)                      (* no left child: heap destroyed *)
      | Node (Node ll lx lr) x Leaf =>                        (* left child only: it becomes the top *)
          (Some (mkHeap (hsize h - 1)%N (prio lx) (Node ll lx lr)), Some x)
      | Node l x r =>
          match take_last (path (hsize h)) (Node l x r) with
          | Some (y, Node l' _ r') =>
              let t := sift y (Node l' y r') in
              (Some (mkHeap (hsize h - 1)%N (root_prio t) t), Some x)
          | _ => (Some h, Some x)    (* broken shape: NULL dereference in C; excluded by the invariant *)
          end
      end
  end.

(* static inline int hiBit(unsigned int n): smear the top bit downwards *)
Definition hiBit (n : N) : N :=
  let n := N.lor n (N.shiftr n 1) in
  let n := N.lor n (N.shiftr n 2) in
  let n := N.lor n (N.shiftr n 4) in
  let n := N.lor n (N.shiftr n 8) in
  let n := N.lor n (N.shiftr n 16) in
  (n - N.shiftr n 1)%N.

(* heap_split_and_steal(&heap, &new_heap): the top is returned, the right
   subtree stays in *heap, the left subtree becomes *new_heap; the two sizes
   are computed from the bits of size ("~highBit & size" is [N.ldiff]).
   Unsigned subtractions do not wrap under the invariant (proved). *)
Definition heap_split (oh : option heap) : (option heap * option heap) * option task :=
  match oh with
  | None => ((None, None), None)
  | Some h =>
      match htree h with
      | Leaf => ((Some h, None), None)
      | Node Leaf x _ => ((None, None), Some x)
      | Node (Node ll lx lr) x Leaf =>
          ((Some (mkHeap (hsize h - 1)%N (prio lx) (Node ll lx lr)), None), Some x)
      | Node (Node ll lx lr) x (Node rl rx rr) =>
          let size := hsize h in
          let highBit := hiBit size in
          let twoBit := N.shiftr highBit 1 in
          let '(hs, ns) :=
            if negb (N.eqb (N.land twoBit size) 0)
            then let hs := N.ldiff size highBit in (hs, (size - hs - 1)%N)
            else let ns := (N.ldiff size highBit + twoBit)%N in ((size - ns - 1)%N, ns) in
          ((Some (mkHeap hs (prio rx) (Node rl rx rr)), Some (mkHeap ns (prio lx) (Node ll lx lr))), Some x)
      end
  end.

(* histories over a growing table of heap pointers *)
Inductive hop :=
| HCreate                          (* append heap_create() *)
| HInsert (i : nat) (e : task)     (* heap_insert(tab[i], e); a NULL tab[i] is first re-created *)
| HRemove (i : nat)                (* heap_remove(&tab[i]) *)
| HSplit (i : nat).                (* heap_split_and_steal(&tab[i], &new); new is appended *)

Definition hstep (s : list (option heap)) (o : hop) : list (option heap) * option task :=
  match o with
  | HCreate => (s ++ [Some heap_create], None)
  | HInsert i e =>
      match nth_error s i with
      | Some (Some h) => (set_nth i (Some (heap_insert h e)) s, None)
      | Some None => (set_nth i (Some (heap_insert heap_create e)) s, None)
      | None => (s, None)
      end
  | HRemove i =>
      match nth_error s i with
      | Some oh => let (oh', r) := heap_remove oh in (set_nth i oh' s, r)
      | None => (s, None)
      end
  | HSplit i =>
      match nth_error s i with
      | Some oh => let '((oh', nh), r) := heap_split oh in (set_nth i oh' s ++ [nh], r)
      | None => (s, None)
      end
  end.

Fixpoint hrun (s : list (option heap)) (ops : list hop) : list (option heap) * list task :=
  match ops with
  | [] => (s, [])
  | o :: os =>
      let (s1, r) := hstep s o in
      let (s2, rs) := hrun s1 os in
      (s2, (match r with Some t => [t] | None => [] end) ++ rs)
  end.

(* the tasks a history hands to the heaps (HInsert on an existing table entry) *)
Fixpoint hinserted (s : list (option heap)) (ops : list hop) : list task :=
  match ops with
  | [] => []
  | o :: os =>
      (match o with
       | HInsert i e => match nth_error s i with Some _ => [e] | None => [] end
       | _ => []
       end) ++ hinserted (fst (hstep s o)) os
  end.

(* observation helpers for the driver *)
Fixpoint preorder (t : tree) : list task :=
  match t with Leaf => [] | Node l x r => x :: preorder l ++ preorder r end.
