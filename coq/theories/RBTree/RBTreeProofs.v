(* C36, part 3: histories.  Every operation keeps the invariant
   (red-black + search order + distinct node identities); content of the tree
   after each operation; unique keys under the allocator's discipline. *)
From Coq Require Import Permutation Sorted.
From PV Require Import Base.Tac RBTree.RBTreeDefs RBTree.RBTreeOrder RBTree.RBTreeBalance.
Local Open Scope Z_scope.

Definition inv (t : tree) : Prop := is_rb t /\ bst t /\ NoDup (ids t).

Lemma inv_E : inv E.
Proof. repeat split; cbn; auto. constructor. Qed.

Lemma map_middle {A B} (f : A -> B) a x b : Permutation (map f (a ++ x :: b)) (f x :: map f (a ++ b)).
Proof. rewrite !map_app. cbn [map]. symmetry. apply Permutation_middle. Qed.

(* ---- insert ---- *)
Lemma insert_new_content id k t :
  bst t ->
  (In id (ids t) -> insert_new id k t = t) /\
  (~ In id (ids t) -> exists A B, nodes t = A ++ B /\ nodes (insert_new id k t) = A ++ (id, k) :: B /\
       (forall a, In a A -> nkey a <= k) /\ (forall b, In b B -> k < nkey b)).
Proof.
  intros Hb. unfold insert_new. destruct (locate id t []) as [z|] eqn:Hl.
  - split; [reflexivity|]. intros Hn. exfalso. apply Hn.
    destruct z as [[[[ctx c] l] n] r]. apply locate_spec in Hl as [Hp Hid]. cbn [plug] in Hp.
    unfold ids. rewrite <- Hp, nodes_zipper, map_app. cbn [map]. apply in_or_app. right. left. exact Hid.
  - split; [intros Hin; exfalso; eapply locate_none; eauto|]. intros _.
    apply bst_sorted in Hb. exact (insert_nodes (id, k) t Hb).
Qed.

Lemma insert_new_inv id k t : inv t -> inv (insert_new id k t).
Proof.
  intros (Hrb & Hb & Hid). destruct (insert_new_content id k t Hb) as [H1 H2].
  unfold insert_new in *. destruct (locate id t []) as [z|] eqn:Hl; [exact (conj Hrb (conj Hb Hid))|].
  pose proof (locate_none _ _ _ Hl) as Hn. destruct (H2 Hn) as (A & B & HAB & Hins & HA & HB).
  split; [apply insert_rb; auto|]. split.
  - apply bst_sorted. rewrite Hins. apply bst_sorted in Hb. rewrite HAB in Hb.
    apply sorted_insert; auto. intros b Hin. specialize (HB b Hin). cbn [nkey snd]. lia.
  - unfold ids in *. rewrite Hins. eapply Permutation_NoDup; [symmetry; apply map_middle|].
    cbn [nid fst]. constructor; rewrite <- HAB; auto.
Qed.

(* ---- remove ---- *)
Lemma locate_some id t : In id (ids t) -> locate id t [] <> None.
Proof. intros Hin Hn. eapply locate_none; eauto. Qed.

Lemma remove_content id t :
  (~ In id (ids t) -> remove id t = t) /\
  (In id (ids t) -> exists A n B, nodes t = A ++ n :: B /\ nid n = id /\ nodes (remove id t) = A ++ B).
Proof.
  unfold remove. destruct (locate id t []) as [[[[[ctx c] l] n] r]|] eqn:Hl.
  - apply locate_spec in Hl as [Hp Hid]. cbn [plug] in Hp. split.
    + intros Hn. exfalso. apply Hn. unfold ids. rewrite <- Hp, nodes_zipper, map_app. cbn [map].
      apply in_or_app. right. left. exact Hid.
    + intros _. exists (cbefore ctx ++ nodes l), n, (nodes r ++ cafter ctx).
      rewrite <- Hp, nodes_zipper, remove_at_nodes, <- !app_assoc. auto.
  - split; [reflexivity|]. intros Hin. exfalso. eapply locate_none; eauto.
Qed.

Lemma remove_inv id t : inv t -> inv (remove id t).
Proof.
  intros (Hrb & Hb & Hid). split; [apply remove_rb; auto|].
  destruct (remove_content id t) as [H1 H2].
  destruct (in_dec Z.eq_dec id (ids t)) as [Hin|Hn]; [|rewrite (H1 Hn); auto].
  destruct (H2 Hin) as (A & n & B & Ht & _ & Hr). split.
  - apply bst_sorted. rewrite Hr. apply bst_sorted in Hb. rewrite Ht in Hb. eapply sorted_remove; eauto.
  - unfold ids in *. rewrite Hr. rewrite Ht, map_app in Hid. cbn [map] in Hid.
    rewrite map_app. eapply NoDup_remove_1; eauto.
Qed.

(* ---- update_node ---- *)
Lemma update_content id k t :
  bst t ->
  (~ In id (ids t) -> update id k t = (t, false)) /\
  (In id (ids t) -> exists A n B, nodes t = A ++ n :: B /\ nid n = id /\
     (snd (update id k t) = false <-> exists m, In m (A ++ B) /\ nkey m = k) /\
     (snd (update id k t) = false -> fst (update id k t) = t) /\
     (snd (update id k t) = true -> sorted (nodes (fst (update id k t))) /\
        exists A' B', A ++ B = A' ++ B' /\ nodes (fst (update id k t)) = A' ++ (id, k) :: B')).
Proof.
  intros Hb. unfold update. destruct (locate id t []) as [[[[[ctx c] l] n] r]|] eqn:Hl.
  - apply locate_spec in Hl as [Hp Hid]. cbn [plug] in Hp. split.
    + intros Hn. exfalso. apply Hn. unfold ids. rewrite <- Hp, nodes_zipper, map_app. cbn [map].
      apply in_or_app. right. left. exact Hid.
    + intros _. exists (cbefore ctx ++ nodes l), n, (nodes r ++ cafter ctx).
      split; [rewrite <- Hp; apply nodes_zipper|]. split; [exact Hid|].
      rewrite <- Hid. apply (update_at_spec t ctx c l n r k Hb Hp); reflexivity.
  - split; [reflexivity|]. intros Hin. exfalso. eapply locate_none; eauto.
Qed.

Lemma update_inv id k t : inv t -> inv (fst (update id k t)).
Proof.
  intros (Hrb & Hb & Hid). split.
  { unfold update. destruct (locate id t []) as [[[[[ctx c] l] n] r]|] eqn:Hl; cbn [fst]; auto.
    apply locate_spec in Hl as [Hp _]. apply update_at_rb; auto. }
  destruct (update_content id k t Hb) as [H1 H2].
  destruct (in_dec Z.eq_dec id (ids t)) as [Hin|Hn]; [|rewrite (H1 Hn); cbn [fst]; auto].
  destruct (H2 Hin) as (A & n & B & Ht & Hnid & _ & Hf & Hok).
  destruct (snd (update id k t)) eqn:Hs.
  - destruct (Hok eq_refl) as (Hsort & A' & B' & HAB & Hnodes). split; [apply bst_sorted; auto|].
    unfold ids in *. rewrite Hnodes. eapply Permutation_NoDup; [symmetry; apply map_middle|].
    rewrite <- HAB. cbn [nid fst]. rewrite <- Hnid.
    eapply Permutation_NoDup; [apply map_middle|]. rewrite <- Ht. exact Hid.
  - rewrite (Hf eq_refl). auto.
Qed.

(* ---- histories ---- *)
Lemma step_inv t o : inv t -> inv (step t o).
Proof.
  destruct o as [id k|id|id k]; cbn [step]; [apply insert_new_inv|apply remove_inv|apply update_inv].
Qed.

Lemma run_inv ops : inv (run ops).
Proof. unfold run. apply fold_left_inv; [intros; apply step_inv; auto|apply inv_E]. Qed.

Lemma step_unique t o : inv t -> guarded t o -> NoDup (keys t) -> NoDup (keys (step t o)).
Proof.
  intros (Hrb & Hb & Hid) Hg Hk. unfold keys in *. destruct o as [id k|id|id k]; cbn [step guarded] in *.
  - destruct (insert_new_content id k t Hb) as [H1 H2].
    destruct (in_dec Z.eq_dec id (ids t)) as [Hin|Hn]; [rewrite (H1 Hin); auto|].
    destruct (H2 Hn) as (A & B & HAB & Hins & _). rewrite Hins.
    eapply Permutation_NoDup; [symmetry; apply map_middle|]. rewrite <- HAB. cbn [nkey snd].
    constructor; auto. intros Hin. apply in_map_iff in Hin as (m & Hm & Hin).
    exact (find_none k t Hb Hg m Hin Hm).
  - destruct (remove_content id t) as [H1 H2].
    destruct (in_dec Z.eq_dec id (ids t)) as [Hin|Hn]; [|rewrite (H1 Hn); auto].
    destruct (H2 Hin) as (A & n & B & Ht & _ & Hr). rewrite Hr. rewrite Ht, map_app in Hk. cbn [map] in Hk.
    rewrite map_app. eapply NoDup_remove_1; eauto.
  - destruct (update_content id k t Hb) as [H1 H2].
    destruct (in_dec Z.eq_dec id (ids t)) as [Hin|Hn]; [|rewrite (H1 Hn); auto].
    destruct (H2 Hin) as (A & n & B & Ht & Hnid & Hex & Hf & Hok).
    destruct (snd (update id k t)) eqn:Hs; [|rewrite (Hf eq_refl); auto].
    destruct (Hok eq_refl) as (_ & A' & B' & HAB & Hnodes). rewrite Hnodes.
    eapply Permutation_NoDup; [symmetry; apply map_middle|]. rewrite <- HAB. cbn [nkey snd].
    assert (HnAB : NoDup (map nkey (A ++ B))).
    { rewrite Ht, map_app in Hk. cbn [map] in Hk. rewrite map_app. eapply NoDup_remove_1; eauto. }
    constructor; auto. intros Hin'. apply in_map_iff in Hin' as (m & Hm & Hin').
    assert (true = false); [|discriminate]. apply Hex. exists m; auto.
Qed.

Lemma run_unique : forall ops t, inv t -> NoDup (keys t) -> all_guarded t ops -> NoDup (keys (fold_left step ops t)).
Proof.
  induction ops as [|o ops IH]; intros t Hi Hk Hg; cbn [fold_left]; auto.
  destruct Hg as [Hg Hgs]. apply IH; auto; [apply step_inv; auto|apply step_unique; auto].
Qed.

Lemma bst_strict_iff t : bst_strict t <-> bst t /\ NoDup (keys t).
Proof. rewrite bst_strict_sorted, bst_sorted. apply sorted_lt_iff. Qed.

Lemma sorted_StronglySorted l : sorted l -> StronglySorted Z.le (map nkey l).
Proof.
  induction l as [|x l IH]; cbn [map]; [constructor|]. intros [Hx Hl]. constructor; auto.
  apply Forall_forall. intros k Hk. apply in_map_iff in Hk as (y & <- & Hy). auto.
Qed.

(* ---- statements used by Properties_C36.v ---- *)
Lemma invariants_step t o :
  is_rb t -> bst t -> NoDup (ids t) -> is_rb (step t o) /\ bst (step t o) /\ NoDup (ids (step t o)).
Proof. intros H1 H2 H3. apply step_inv. repeat split; auto; apply H1. Qed.

Lemma invariants ops :
  col (run ops) = Black /\ nrr (run ops) /\ bal (run ops) /\ bst (run ops) /\ NoDup (ids (run ops)).
Proof. destruct (run_inv ops) as ((H1 & H2 & H3) & H4 & H5). auto. Qed.

Lemma find_correct ops q :
  match find q (run ops) with
  | Some n => In n (nodes (run ops)) /\ nkey n = q
  | None => ~ In q (keys (run ops))
  end.
Proof.
  destruct (run_inv ops) as (_ & Hb & _). destruct (find q (run ops)) as [n|] eqn:Hf.
  - apply find_some; auto.
  - intros Hin. apply in_map_iff in Hin as (m & Hk & Hin). exact (find_none q _ Hb Hf m Hin Hk).
Qed.

Lemma find_or_larger_correct ops q :
  match find_or_larger q (run ops) with
  | Some n => In n (nodes (run ops)) /\ q <= nkey n /\
              forall m, In m (nodes (run ops)) -> q <= nkey m -> nkey n <= nkey m
  | None => forall m, In m (nodes (run ops)) -> nkey m < q
  end.
Proof. destruct (run_inv ops) as (_ & Hb & _). exact (find_or_larger_spec q _ Hb). Qed.

Lemma insert_content ops id k :
  (In id (ids (run ops)) -> step (run ops) (Insert id k) = run ops) /\
  (~ In id (ids (run ops)) -> exists A B, nodes (run ops) = A ++ B /\
      nodes (step (run ops) (Insert id k)) = A ++ (id, k) :: B /\
      (forall a, In a A -> nkey a <= k) /\ (forall b, In b B -> k < nkey b)).
Proof. destruct (run_inv ops) as (_ & Hb & _). exact (insert_new_content id k _ Hb). Qed.

Lemma update_spec ops id k :
  In id (ids (run ops)) ->
  exists A n B, nodes (run ops) = A ++ n :: B /\ nid n = id /\
    (snd (update id k (run ops)) = false <-> exists m, In m (A ++ B) /\ nkey m = k) /\
    (snd (update id k (run ops)) = false -> fst (update id k (run ops)) = run ops) /\
    (snd (update id k (run ops)) = true ->
       exists A' B', A ++ B = A' ++ B' /\ nodes (fst (update id k (run ops))) = A' ++ (id, k) :: B').
Proof.
  intros Hin. destruct (run_inv ops) as (_ & Hb & _).
  destruct (update_content id k _ Hb) as [_ H]. destruct (H Hin) as (A & n & B & H1 & H2 & H3 & H4 & H5).
  exists A, n, B. repeat split; auto; try apply H3. intros Hs. destruct (H5 Hs) as [_ H6]. exact H6.
Qed.

Lemma unique_keys ops : all_guarded E ops -> bst_strict (run ops).
Proof.
  intros Hg. apply bst_strict_iff. split; [apply run_inv|].
  apply run_unique; auto; [apply inv_E|constructor].
Qed.

Lemma minimum_correct ops :
  match minimum (run ops) with
  | Some n => In n (nodes (run ops)) /\ forall m, In m (nodes (run ops)) -> nkey n <= nkey m
  | None => run ops = E
  end.
Proof. destruct (run_inv ops) as (_ & Hb & _). exact (minimum_spec _ Hb). Qed.

Lemma foreach_sorted ops : StronglySorted Z.le (keys (run ops)).
Proof. destruct (run_inv ops) as (_ & Hb & _). apply sorted_StronglySorted, bst_sorted, Hb. Qed.

Lemma paths_equal ops h1 h2 : In h1 (paths (run ops)) -> In h2 (paths (run ops)) -> h1 = h2.
Proof.
  destruct (run_inv ops) as ((_ & _ & Hb) & _). intros H1 H2.
  rewrite (paths_bh _ Hb h1 H1), (paths_bh _ Hb h2 H2). reflexivity.
Qed.

Lemma depth_logarithmic ops : (depth (run ops) <= 2 * Nat.log2 (size (run ops) + 1))%nat.
Proof. apply depth_log, run_inv. Qed.
