(* C36, part 2: the red-black invariants (black root, no red node with a red
   child, equal black heights) are kept by insert and remove, fix-ups included.
   The invariants of a tree with a hole (a zipper context) are stated relative
   to the black height and the root colour of what fills the hole. *)
From PV Require Import Base.Tac RBTree.RBTreeDefs RBTree.RBTreeOrder.

Definition fcol (f : frame) : color := match f with FL c _ _ | FR c _ _ => c end.
Definition fsib (f : frame) : tree := match f with FL _ _ r => r | FR _ l _ => l end.

(* the context is balanced when the hole receives a balanced tree of black height h *)
Fixpoint cbal (ctx : list frame) (h : nat) : Prop :=
  match ctx with
  | [] => True
  | f :: up => bal (fsib f) /\ bh (fsib f) = h /\ cbal up (h + bk (fcol f))
  end.
(* the context has no red-red pair when the hole receives a tree whose root has colour hc *)
Fixpoint cnrr (ctx : list frame) (hc : color) : Prop :=
  match ctx with
  | [] => True
  | f :: up => nrr (fsib f) /\ (fcol f = Red -> hc = Black /\ col (fsib f) = Black) /\ cnrr up (fcol f)
  end.
(* colour of the root of the plugged tree *)
Fixpoint croot (ctx : list frame) (hc : color) : color :=
  match ctx with [] => hc | f :: up => croot up (fcol f) end.

Lemma col_T c l n r : col (T c l n r) = c.
Proof. destruct c; reflexivity. Qed.
Lemma col_fill f t : col (fill f t) = fcol f.
Proof. destruct f; apply col_T. Qed.

Lemma plug_bal : forall ctx t, bal (plug ctx t) <-> bal t /\ cbal ctx (bh t).
Proof.
  induction ctx as [|f up IH]; intros t; cbn [plug cbal]; [tauto|].
  rewrite IH. destruct f as [c n r|c l n]; cbn [fill bal bh fsib fcol].
  - split.
    + intros ((Ht & Hr & He) & Hc). auto.
    + intros (Ht & Hr & He & Hc). auto.
  - split.
    + intros ((Hl & Ht & He) & Hc). rewrite He in Hc. auto.
    + intros (Ht & Hl & He & Hc). rewrite He. auto.
Qed.

Lemma plug_nrr : forall ctx t, nrr (plug ctx t) <-> nrr t /\ cnrr ctx (col t).
Proof.
  induction ctx as [|f up IH]; intros t; cbn [plug cnrr]; [tauto|].
  rewrite IH, col_fill. destruct f as [c n r|c l n]; cbn [fill nrr fsib fcol]; tauto.
Qed.

Lemma col_plug : forall ctx t, col (plug ctx t) = croot ctx (col t).
Proof.
  induction ctx as [|f up IH]; intros t; cbn [plug croot]; auto. rewrite IH, col_fill. reflexivity.
Qed.

Lemma plug_is_rb ctx t :
  is_rb (plug ctx t) <-> croot ctx (col t) = Black /\ (nrr t /\ cnrr ctx (col t)) /\ (bal t /\ cbal ctx (bh t)).
Proof. unfold is_rb. rewrite col_plug, plug_nrr, plug_bal. tauto. Qed.

Lemma cbal_eq ctx h h' : cbal ctx h -> h = h' -> cbal ctx h'.
Proof. intros H <-; exact H. Qed.

(* a black hole is always acceptable *)
Lemma cnrr_black ctx hc : cnrr ctx hc -> cnrr ctx Black.
Proof. destruct ctx as [|f up]; cbn [cnrr]; tauto. Qed.
Lemma cnrr_any ctx hc hc' : cnrr ctx hc -> match ctx with [] => True | f :: _ => fcol f = Black end -> cnrr ctx hc'.
Proof. destruct ctx as [|f up]; cbn [cnrr]; auto. intros (H1 & H2 & H3) Hf. rewrite Hf in *. repeat split; auto; discriminate. Qed.

Lemma croot_indep ctx hc hc' : ctx <> [] -> croot ctx hc = croot ctx hc'.
Proof. destruct ctx; [congruence|reflexivity]. Qed.

Lemma col_make_black t : col (make_black t) = Black.
Proof. destruct t; reflexivity. Qed.
Lemma bal_make_black t : bal (make_black t) <-> bal t.
Proof. destruct t; cbn; tauto. Qed.
Lemma nrr_make_black t : nrr t -> nrr (make_black t).
Proof. destruct t; cbn; auto. intros (H1 & H2 & _). repeat split; auto; discriminate. Qed.
Lemma make_black_id t : col t = Black -> make_black t = t.
Proof. destruct t as [|[|] l n r]; cbn; auto; discriminate. Qed.
Lemma bh_make_black t : col t = Black -> bh (make_black t) = bh t.
Proof. intros H; rewrite make_black_id; auto. Qed.

Lemma is_rb_make_black t : nrr t -> bal t -> is_rb (make_black t).
Proof.
  intros H1 H2. split; [apply col_make_black|]. split; [apply nrr_make_black|apply bal_make_black]; auto.
Qed.

(* hypotheses massage *)
Ltac rbcbn := cbn [nrr bal bh bk col fcol fsib cnrr cbal croot fill plug make_black Nat.add] in *.
Ltac rbhyp := repeat match goal with
  | H : _ /\ _ |- _ => destruct H
  | H : ?c = ?c -> _ |- _ => specialize (H eq_refl)
  | H : Black = Red -> _ |- _ => clear H
  | H : Red = Black -> _ |- _ => clear H
  | H : Red = Black |- _ => discriminate H
  | H : Black = Red |- _ => discriminate H
  end.
Ltac rbfin := rbcbn; repeat split; intros; rbhyp; rbcbn; auto; try discriminate; try congruence; try lia;
  try (eapply cbal_eq; [eassumption|cbn; lia]);
  try (eapply cnrr_black; eassumption).

(* ---- insert ---- *)
Lemma ins_fix_rb : forall ctx zl zn zr h,
  nrr zl -> nrr zr -> col zl = Black -> col zr = Black -> bal zl -> bal zr -> bh zl = h -> bh zr = h ->
  cnrr ctx Black -> cbal ctx h ->
  nrr (make_black (ins_fix zl zn zr ctx)) /\ bal (ins_fix zl zn zr ctx).
Proof.
  induction ctx as [|f|f g up IH] using ctx_ind2; intros zl zn zr h Hl Hr Hcl Hcr Hbl Hbr Hhl Hhr Hn Hb.
  - cbn. repeat split; auto; try discriminate; lia.
  - destruct f as [[|] pn pr|[|] pl pn]; rbcbn; rbhyp; rbfin.
  - destruct f as [[|] pn pr|[|] pl pn]; destruct g as [[|] gn u|[|] u gn]; destruct u as [|[|] ul un ur];
      rbcbn; rbhyp;
      (* the uncle is red: recolour and continue from the grand-parent *)
      try (cbn [ins_fix]; apply (IH _ _ _ (S h)); rbfin; fail);
      (* otherwise the loop ends here *)
      cbn [ins_fix]; (split; [apply nrr_make_black|]); rewrite ?plug_nrr, ?plug_bal; rbfin.
Qed.

Lemma insert_rb n t : is_rb t -> is_rb (insert n t).
Proof.
  intros Ht. unfold insert.
  pose proof (descend_plug (nkey n) t []) as Hp. cbn [plug] in Hp. rewrite <- Hp in Ht.
  apply plug_is_rb in Ht as (_ & (_ & Hn) & (_ & Hb)). cbn [col bh] in Hn, Hb.
  destruct (ins_fix_rb (descend (nkey n) t []) E n E 0%nat) as [H1 H2]; cbn; auto.
  split; [apply col_make_black|]. split; [auto|apply bal_make_black; auto].
Qed.

(* ---- remove ---- *)
Lemma del_left_rb x pc pn w h :
  nrr x -> bal x -> bh x = h -> nrr w -> bal w -> bh w = S h -> col w = Black ->
  match del_left x pc pn w with
  | Up t => nrr (make_black t) /\ bal t /\ bh t = (h + bk pc)%nat /\ col t = pc
  | Done t => nrr t /\ bal t /\ bh t = (S h + bk pc)%nat /\ col t = pc
  end.
Proof.
  intros Hx Hbx Hhx Hw Hbw Hhw Hcw.
  destruct w as [|[|] wl wn wr]; [discriminate|discriminate|].
  destruct wl as [|[|] a ln b]; destruct wr as [|[|] c rn d]; cbn [del_left]; rewrite ?col_T; rbfin.
Qed.
Lemma del_right_rb x pc pn w h :
  nrr x -> bal x -> bh x = h -> nrr w -> bal w -> bh w = S h -> col w = Black ->
  match del_right x pc pn w with
  | Up t => nrr (make_black t) /\ bal t /\ bh t = (h + bk pc)%nat /\ col t = pc
  | Done t => nrr t /\ bal t /\ bh t = (S h + bk pc)%nat /\ col t = pc
  end.
Proof.
  intros Hx Hbx Hhx Hw Hbw Hhw Hcw.
  destruct w as [|[|] wl wn wr]; [discriminate|discriminate|].
  destruct wl as [|[|] a ln b]; destruct wr as [|[|] c rn d]; cbn [del_right]; rewrite ?col_T; rbfin.
Qed.

Lemma bh_make_black_red x : col x = Red -> bh (make_black x) = S (bh x).
Proof. destruct x as [|[|] l n r]; cbn; try discriminate. intros _. lia. Qed.
Lemma croot_black ctx c : croot ctx c = Black -> croot ctx Black = Black.
Proof. destruct ctx; cbn; auto. Qed.

Ltac dfin := cbn [croot cnrr cbal fsib fcol bk] in *; repeat split; auto; try discriminate; try lia;
  try (eapply cbal_eq; [eassumption|lia]).

(* x is a sub-tree one black node short of what its place requires *)
Lemma del_fix_rb : forall ctx x,
  nrr (make_black x) -> bal x -> cnrr ctx Black -> cbal ctx (S (bh x)) -> croot ctx Black = Black ->
  is_rb (del_fix x ctx).
Proof.
  induction ctx as [|f up IH]; intros x Hx Hbx Hn Hb Hr; cbn [del_fix].
  - split; [apply col_make_black|]. split; [auto|apply bal_make_black; auto].
  - destruct (col x) eqn:Hcx.
    { apply plug_is_rb. rewrite col_make_black, bal_make_black, (bh_make_black_red x Hcx). auto. }
    rewrite (make_black_id x Hcx) in Hx.
    destruct f as [pc pn w|pc w pn]; cbn [cnrr cbal croot fsib fcol] in Hn, Hb, Hr;
      destruct Hn as (Hw & Hpc & Hn); destruct Hb as (Hbw & Hhw & Hb).
    + destruct w as [|[|] wl wn wr].
      * discriminate.
      * (* red sibling *)
        destruct pc; [destruct (Hpc eq_refl); discriminate|]. clear Hpc.
        cbn [nrr bal bh bk] in Hw, Hbw, Hhw. destruct Hw as (Hwl & Hwr & Hcw). destruct (Hcw eq_refl) as [Hcl Hcr].
        destruct Hbw as (Hbl & Hbr & Hlr).
        pose proof (del_left_rb x Red pn wl (bh x) Hx Hbx eq_refl Hwl Hbl ltac:(lia) Hcl) as Hd.
        destruct (del_left x Red pn wl) as [t|t]; destruct Hd as (Ht & Hbt & Hht & Hct).
        -- apply plug_is_rb. rewrite col_make_black, bal_make_black, (bh_make_black_red t Hct).
           dfin.
        -- rewrite make_black_id by (rewrite col_plug; cbn [croot fcol]; auto).
           apply plug_is_rb. dfin.
      * pose proof (del_left_rb x pc pn (T Black wl wn wr) (bh x) Hx Hbx eq_refl Hw Hbw Hhw eq_refl) as Hd.
        destruct (del_left x pc pn (T Black wl wn wr)) as [t|t]; destruct Hd as (Ht & Hbt & Hht & Hct).
        -- cbn [bk] in *. apply IH; auto; [eapply cnrr_black; eauto|eapply cbal_eq; [eassumption|lia]|eapply croot_black; eauto].
        -- rewrite make_black_id by (rewrite col_plug, Hct; auto).
           apply plug_is_rb. rewrite Hct. dfin.
    + destruct w as [|[|] wl wn wr].
      * discriminate.
      * destruct pc; [destruct (Hpc eq_refl); discriminate|]. clear Hpc.
        cbn [nrr bal bh bk] in Hw, Hbw, Hhw. destruct Hw as (Hwl & Hwr & Hcw). destruct (Hcw eq_refl) as [Hcl Hcr].
        destruct Hbw as (Hbl & Hbr & Hlr).
        pose proof (del_right_rb x Red pn wr (bh x) Hx Hbx eq_refl Hwr Hbr ltac:(lia) Hcr) as Hd.
        destruct (del_right x Red pn wr) as [t|t]; destruct Hd as (Ht & Hbt & Hht & Hct).
        -- apply plug_is_rb. rewrite col_make_black, bal_make_black, (bh_make_black_red t Hct).
           dfin.
        -- rewrite make_black_id by (rewrite col_plug; cbn [croot fcol]; auto).
           apply plug_is_rb. dfin.
      * pose proof (del_right_rb x pc pn (T Black wl wn wr) (bh x) Hx Hbx eq_refl Hw Hbw Hhw eq_refl) as Hd.
        destruct (del_right x pc pn (T Black wl wn wr)) as [t|t]; destruct Hd as (Ht & Hbt & Hht & Hct).
        -- cbn [bk] in *. apply IH; auto; [eapply cnrr_black; eauto|eapply cbal_eq; [eassumption|lia]|eapply croot_black; eauto].
        -- rewrite make_black_id by (rewrite col_plug, Hct; auto).
           apply plug_is_rb. rewrite Hct. dfin.
Qed.

(* unlinking a node that has no left (resp. no right) child *)
Lemma del_finish_rb_l ctx yc yn yr : is_rb (plug ctx (T yc E yn yr)) -> is_rb (del_finish yc yr ctx).
Proof.
  intros H. apply plug_is_rb in H as (Hr & (Hy & Hn) & (Hby & Hb)).
  rewrite col_T in *. cbn [nrr bal bh] in Hy, Hby, Hb. destruct Hy as (_ & Hyr & Hc). destruct Hby as (_ & Hbyr & Hh).
  destruct yc; cbn [del_finish bk] in *.
  - destruct (Hc eq_refl) as [_ Hcr]. apply plug_is_rb. rewrite Hcr.
    assert (ctx <> []) by (intros ->; discriminate).
    rewrite (croot_indep ctx Black Red) by auto. repeat split; auto; [eapply cnrr_black; eauto|].
    eapply cbal_eq; [eassumption|lia].
  - apply del_fix_rb; auto; [apply nrr_make_black; auto|eapply cbal_eq; [eassumption|lia]].
Qed.
Lemma del_finish_rb_r ctx yc yl yn : is_rb (plug ctx (T yc yl yn E)) -> is_rb (del_finish yc yl ctx).
Proof.
  intros H. apply plug_is_rb in H as (Hr & (Hy & Hn) & (Hby & Hb)).
  rewrite col_T in *. cbn [nrr bal bh] in Hy, Hby, Hb. destruct Hy as (Hyl & _ & Hc). destruct Hby as (Hbyl & _ & Hh).
  destruct yc; cbn [del_finish bk] in *.
  - destruct (Hc eq_refl) as [Hcl _]. apply plug_is_rb. rewrite Hcl.
    assert (ctx <> []) by (intros ->; discriminate).
    rewrite (croot_indep ctx Black Red) by auto. repeat split; auto; [eapply cnrr_black; eauto|].
    eapply cbal_eq; [eassumption|lia].
  - apply del_fix_rb; auto; [apply nrr_make_black; auto|eapply cbal_eq; [eassumption|lia]].
Qed.

(* the invariants do not look at the nodes *)
Lemma is_rb_frame_node a b c l n n' t :
  is_rb (plug (a ++ FR c l n :: b) t) <-> is_rb (plug (a ++ FR c l n' :: b) t).
Proof. rewrite !plug_app. cbn [plug fill]. rewrite !plug_is_rb. cbn [nrr bal bh]. rewrite !col_T. tauto. Qed.

Lemma remove_at_rb ctx zc zl zn zr : is_rb (plug ctx (T zc zl zn zr)) -> is_rb (remove_at ctx zc zl zn zr).
Proof.
  intros H. unfold remove_at. destruct zl as [|lc ll ln lr].
  - apply del_finish_rb_l with (yn := zn); auto.
  - destruct zr as [|rc rl rn rr].
    + apply del_finish_rb_r with (yn := zn); auto.
    + destruct (split_min rc rl rn rr []) as [[[fr yc] yn] yr] eqn:Hm.
      apply split_min_spec in Hm as (fr' & -> & Hp & _). rewrite app_nil_r.
      apply del_finish_rb_l with (yn := yn).
      apply (is_rb_frame_node fr' ctx zc _ zn yn). rewrite plug_app, Hp. exact H.
Qed.

Lemma remove_rb id t : is_rb t -> is_rb (remove id t).
Proof.
  intros H. unfold remove. destruct (locate id t []) as [[[[[ctx c] l] n] r]|] eqn:Hl; auto.
  apply locate_spec in Hl as [Hp _]. cbn [plug] in Hp. apply remove_at_rb. rewrite Hp. exact H.
Qed.

Lemma update_at_rb t ctx c l n r newk :
  is_rb t -> plug ctx (T c l n r) = t -> is_rb (fst (update_at t ctx c l n r newk)).
Proof.
  intros H Hp. unfold update_at. destruct (upd_decide _ _ _); cbn [fst]; auto.
  - destruct (find newk t); cbn [fst]; auto. apply insert_rb, remove_at_rb. rewrite Hp; auto.
  - rewrite <- Hp in H. rewrite plug_is_rb in *. cbn [nrr bal bh] in *. rewrite !col_T in *. exact H.
Qed.

(* ---- consequences of the invariants ---- *)
Lemma paths_bh t : bal t -> forall h, In h (paths t) -> h = bh t.
Proof.
  induction t as [|c l IHl n r IHr]; cbn [bal paths bh]; intros Hb h Hin.
  - destruct Hin as [<-|[]]. reflexivity.
  - destruct Hb as (Hl & Hr & He). apply in_map_iff in Hin as (h' & <- & Hin).
    apply in_app_or in Hin as [Hin|Hin]; [rewrite (IHl Hl h' Hin)|rewrite (IHr Hr h' Hin), He]; reflexivity.
Qed.

Lemma size_bh t : bal t -> 2 ^ bh t <= size t + 1.
Proof.
  induction t as [|c l IHl n r IHr]; cbn [bal bh size]; intros Hb; [cbn; lia|].
  destruct Hb as (Hl & Hr & He). specialize (IHl Hl). specialize (IHr Hr). rewrite <- He in IHr.
  destruct c; cbn [bk]; rewrite ?Nat.add_0_r, ?Nat.add_1_r, ?Nat.pow_succ_r'; lia.
Qed.

Lemma depth_bh t : nrr t -> bal t -> depth t <= 2 * bh t + match col t with Red => 1 | Black => 0 end.
Proof.
  induction t as [|c l IHl n r IHr]; cbn [nrr bal bh depth]; intros Hn Hb; [cbn; lia|].
  destruct Hn as (Hnl & Hnr & Hc). destruct Hb as (Hl & Hr & He).
  specialize (IHl Hnl Hl). specialize (IHr Hnr Hr). rewrite col_T.
  destruct c; cbn [bk].
  - destruct (Hc eq_refl) as [Hcl Hcr]. rewrite Hcl in IHl. rewrite Hcr in IHr. lia.
  - destruct (col l), (col r); lia.
Qed.

Lemma depth_log t : is_rb t -> depth t <= 2 * Nat.log2 (size t + 1).
Proof.
  intros (Hc & Hn & Hb). pose proof (depth_bh t Hn Hb) as H1. rewrite Hc in H1.
  pose proof (size_bh t Hb) as H2.
  assert (bh t <= Nat.log2 (size t + 1)).
  { rewrite <- (Nat.log2_pow2 (bh t)) by lia. apply Nat.log2_le_mono. exact H2. }
  lia.
Qed.
