(* C36, part 2: the red-black invariants (black root, no red node with a red
   child, equal black heights) are kept by insert and remove, fix-ups included.
   The invariants of a tree with a hole (a zipper context) are stated relative
   to the black height and the root colour of what fills the hole. *)
From PV Require Import Base.Tac RBTree.RBTreeDefs RBTree.RBTreeOrder.

Definition fcol (f : frame) : color := match f with FL c _ _ | FR c _ _ => c end.
Definition fsib (f : frame) : tree := match f with FL _ _ r => r | FR _ l _ => l end.

(* the context is balanced when the hole receives a balanced tree of black height h *)
Fixpoint cbal (ctx : list frame) (h : nat) : Prop :=
  match ctx with
  | [] => True
  | f :: up => bal (fsib f) /\ bh (fsib f) = h /\ cbal up (h + bk (fcol f))
  end.
(* the context has no red-red pair when the hole receives a tree whose root has colour hc *)
Fixpoint cnrr (ctx : list frame) (hc : color) : Prop :=
  match ctx with
  | [] => True
  | f :: up => nrr (fsib f) /\ (fcol f = Red -> hc = Black /\ col (fsib f) = Black) /\ cnrr up (fcol f)
  end.
(* colour of the root of the plugged tree *)
Fixpoint croot (ctx : list frame) (hc : color) : color :=
  match ctx with [] => hc | f :: up => croot up (fcol f) end.

Lemma col_T c l n r : col (T c l n r) = c.
Proof. destruct c; reflexivity. Qed.
Lemma col_fill f t : col (fill f t) = fcol f.
Proof. destruct f; apply col_T. Qed.

Lemma plug_bal : forall ctx t, bal (plug ctx t) <-> bal t /\ cbal ctx (bh t).
Proof.
  induction ctx as [|f up IH]; intros t; cbn [plug cbal]; [tauto|].
  rewrite IH. destruct f as [c n r|c l n]; cbn [fill bal bh fsib fcol].
  - split.
    + intros ((Ht & Hr & He) & Hc). auto.
    + intros (Ht & Hr & He & Hc). auto.
  - split.
    + intros ((Hl & Ht & He) & Hc). rewrite He in Hc. auto.
    + intros (Ht & Hl & He & Hc). rewrite He. auto.
Qed.

Lemma plug_nrr : forall ctx t, nrr (plug ctx t) <-> nrr t /\ cnrr ctx (col t).
Proof.
  induction ctx as [|f up IH]; intros t; cbn [plug cnrr]; [tauto|].
  rewrite IH, col_fill. destruct f as [c n r|c l n]; cbn [fill nrr fsib fcol]; tauto.
Qed.

Lemma col_plug : forall ctx t, col (plug ctx t) = croot ctx (col t).
Proof.
  induction ctx as [|f up IH]; intros t; cbn [plug croot]; auto. rewrite IH, col_fill. reflexivity.
Qed.

Lemma plug_is_rb ctx t :
  is_rb (plug ctx t) <-> croot ctx (col t) = Black /\ (nrr t /\ cnrr ctx (col t)) /\ (bal t /\ cbal ctx (bh t)).
Proof. unfold is_rb. rewrite col_plug, plug_nrr, plug_bal. tauto. Qed.

Lemma cbal_eq ctx h h' : cbal ctx h -> h = h' -> cbal ctx h'.
Proof. intros H <-; exact H. Qed.

(* a black hole is always acceptable *)
Lemma cnrr_black ctx hc : cnrr ctx hc -> cnrr ctx Black.
Proof. destruct ctx as [|f up]; cbn [cnrr]; tauto. Qed.
Lemma cnrr_any ctx hc hc' : cnrr ctx hc -> match ctx with [] => True | f :: _ => fcol f = Black end -> cnrr ctx hc'.
Proof. destruct ctx as [|f up]; cbn [cnrr]; auto. intros (H1 & H2 & H3) Hf. rewrite Hf in *. repeat split; auto; discriminate. Qed.

Lemma croot_indep ctx hc hc' : ctx <> [] -> croot ctx hc = croot ctx hc'.
Proof. destruct ctx; [congruence|reflexivity]. Qed.

Lemma col_make_black t : col (make_black t) = Black.
Proof. destruct t; reflexivity. Qed.
Lemma bal_make_black t : bal (make_black t) <-> bal t.
Proof. destruct t; cbn; tauto. Qed.
Lemma nrr_make_black t : nrr t -> nrr (make_black t).
Proof. destruct t; cbn; auto. intros (H1 & H2 & _). repeat split; auto; discriminate. Qed.
Lemma make_black_id t : col t = Black -> make_black t = t.
Proof. destruct t as [|[|] l n r]; cbn; auto; discriminate. Qed.
Lemma bh_make_black t : col t = Black -> bh (make_black t) = bh t.
Proof. intros H; rewrite make_black_id; auto. Qed.

Lemma is_rb_make_black t : nrr t -> bal t -> is_rb (make_black t).
Proof.
  intros H1 H2. split; [apply col_make_black|]. split; [apply nrr_make_black|apply bal_make_black]; auto.
Qed.

(* hypotheses massage *)
Ltac rbcbn := cbn [nrr bal bh bk col fcol fsib cnrr cbal croot fill plug make_black Nat.add] in *.
Ltac rbhyp := repeat match goal with
  | H : _ /\ _ |- _ => destruct H
  | H : ?c = ?c -> _ |- _ => specialize (H eq_refl)
  | H : Black = Red -> _ |- _ => clear H
  | H : Red = Black -> _ |- _ => clear H
  | H : Red = Black |- _ => discriminate H
  | H : Black = Red |- _ => discriminate H
  end.
Ltac rbfin := rbcbn; repeat split; intros; rbhyp; rbcbn; auto; try discriminate; try congruence; try lia;
  try (eapply cbal_eq; [eassumption|cbn; lia]);
  try (eapply cnrr_black; eassumption).

(* ---- insert ---- *)
Lemma ins_fix_rb : forall ctx zl zn zr h,
  nrr zl -> nrr zr -> col zl = Black -> col zr = Black -> bal zl -> bal zr -> bh zl = h -> bh zr = h ->
  cnrr ctx Black -> cbal ctx h ->
  nrr (make_black (ins_fix zl zn zr ctx)) /\ bal (ins_fix zl zn zr ctx).
Proof.
  induction ctx as [|f|f g up IH] using ctx_ind2; intros zl zn zr h Hl Hr Hcl Hcr Hbl Hbr Hhl Hhr Hn Hb.
  - cbn. repeat split; auto; try discriminate; lia.
  - destruct f as [[|] pn pr|[|] pl pn]; rbcbn; rbhyp; rbfin.
  - destruct f as [[|] pn pr|[|] pl pn]; destruct g as [[|] gn u|[|] u gn]; destruct u as [|[|] ul un ur];
      rbcbn; rbhyp;
      (* the uncle is red: recolour and continue from the grand-parent *)
      try (cbn [ins_fix]; apply (IH _ _ _ (S h)); rbfin; fail);
      (* otherwise the loop ends here *)
      cbn [ins_fix]; (split; [apply nrr_make_black|]); rewrite ?plug_nrr, ?plug_bal; rbfin.
Qed.
