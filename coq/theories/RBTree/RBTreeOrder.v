(* C36, part 1: what the operations do to the in-order sequence of nodes
   (fix-ups and rotations keep it, insert adds one node at a sorted place,
   remove deletes exactly the node), search-tree order, find, find_or_larger,
   update_node. *)
From PV Require Import Base.Tac RBTree.RBTreeDefs.
Local Open Scope Z_scope.

(* ------------------------------------------------------------------ *)
(* sorted lists of nodes, for a transitive relation on keys *)
Section Sorted.
  Variable R : Z -> Z -> Prop.
  Hypothesis R_trans : forall a b c, R a b -> R b c -> R a c.

  Fixpoint sortedR (l : list node) : Prop :=
    match l with
    | [] => True
    | x :: l' => (forall y, In y l' -> R (nkey x) (nkey y)) /\ sortedR l'
    end.

  Lemma sortedR_app : forall a b,
    sortedR (a ++ b) <-> sortedR a /\ sortedR b /\ (forall x y, In x a -> In y b -> R (nkey x) (nkey y)).
  Proof.
    induction a as [|x a IH]; intros b; cbn [app sortedR].
    - split; [intros H; repeat split; auto; intros ? ? []|intros (_ & H & _); exact H].
    - rewrite IH. split.
      + intros (Hx & Ha & Hb & Hab). repeat split; auto.
        * intros y Hy. apply Hx, in_or_app; auto.
        * intros u v [<-|Hu] Hv; [apply Hx, in_or_app; auto|auto].
      + intros ((Hx & Ha) & Hb & Hab). repeat split; auto.
        * intros y Hy. apply in_app_or in Hy as [Hy|Hy]; [auto|apply Hab; cbn; auto].
        * intros u v Hu Hv. apply Hab; cbn; auto.
  Qed.

  Fixpoint bstR (t : tree) : Prop :=
    match t with
    | E => True
    | T _ l n r => bstR l /\ bstR r /\ (forall m, In m (nodes l) -> R (nkey m) (nkey n))
                                 /\ (forall m, In m (nodes r) -> R (nkey n) (nkey m))
    end.

  Lemma bstR_sorted : forall t, bstR t <-> sortedR (nodes t).
  Proof.
    induction t as [|c l IHl n r IHr]; cbn [bstR nodes]; [tauto|].
    rewrite sortedR_app; cbn [sortedR]. rewrite IHl, IHr. split.
    - intros (Hl & Hr & Hln & Hnr). repeat split; auto.
      intros x y Hx [<-|Hy]; [auto|]. eapply R_trans; [apply Hln|apply Hnr]; auto.
    - intros (Hl & (Hnr & Hr) & Hc). repeat split; auto.
      intros m Hm. apply Hc; cbn; auto.
  Qed.
End Sorted.

Definition sorted := sortedR Z.le.
Definition sorted_lt := sortedR Z.lt.

Lemma bst_sorted t : bst t <-> sorted (nodes t).
Proof. apply (bstR_sorted Z.le Z.le_trans). Qed.
Lemma bst_strict_sorted t : bst_strict t <-> sorted_lt (nodes t).
Proof. apply (bstR_sorted Z.lt Z.lt_trans). Qed.

Lemma sorted_app a b :
  sorted (a ++ b) <-> sorted a /\ sorted b /\ (forall x y, In x a -> In y b -> nkey x <= nkey y).
Proof. apply sortedR_app. Qed.
Lemma sorted_lt_app a b :
  sorted_lt (a ++ b) <-> sorted_lt a /\ sorted_lt b /\ (forall x y, In x a -> In y b -> nkey x < nkey y).
Proof. apply sortedR_app. Qed.

Lemma sorted_lt_le l : sorted_lt l -> sorted l.
Proof.
  induction l as [|x l IH]; cbn; auto. intros [H1 H2]. split; auto.
  intros y Hy. apply Z.lt_le_incl; auto.
Qed.

(* strictly sorted = sorted without repeated keys *)
Lemma sorted_lt_iff l : sorted_lt l <-> sorted l /\ NoDup (map nkey l).
Proof.
  induction l as [|x l IH]; cbn [map].
  - split; [split; [exact I|constructor]|intros; exact I].
  - cbn. split.
    + intros [Hx Hl]. apply IH in Hl as [Hs Hn]. split; [split; auto; intros y Hy; apply Z.lt_le_incl; auto|].
      constructor; auto. intros Hin. apply in_map_iff in Hin as (y & Hk & Hy). specialize (Hx y Hy). lia.
    + intros [[Hx Hl] Hn]. inv Hn. split; [|apply IH; auto].
      intros y Hy. specialize (Hx y Hy).
      assert (nkey x <> nkey y) by (intros Heq; apply H1; rewrite Heq; apply in_map; auto). lia.
Qed.

(* ------------------------------------------------------------------ *)
(* zippers and in-order sequences *)
Fixpoint cbefore (ctx : list frame) : list node :=
  match ctx with [] => [] | FL _ _ _ :: up => cbefore up | FR _ l n :: up => cbefore up ++ nodes l ++ [n] end.
Fixpoint cafter (ctx : list frame) : list node :=
  match ctx with [] => [] | FL _ n r :: up => n :: nodes r ++ cafter up | FR _ _ _ :: up => cafter up end.

Lemma nodes_plug : forall ctx t, nodes (plug ctx t) = cbefore ctx ++ nodes t ++ cafter ctx.
Proof.
  induction ctx as [|[c n r|c l n] up IH]; intros t; cbn [plug cbefore cafter fill].
  - rewrite app_nil_r; reflexivity.
  - rewrite IH; cbn [nodes]. rewrite <- !app_assoc. reflexivity.
  - rewrite IH; cbn [nodes]. rewrite <- !app_assoc. reflexivity.
Qed.

Lemma plug_app : forall a b t, plug (a ++ b) t = plug b (plug a t).
Proof. induction a as [|f a IH]; intros; cbn [app plug]; auto. Qed.

Lemma nodes_make_black t : nodes (make_black t) = nodes t.
Proof. destruct t; reflexivity. Qed.

(* normalise an equation between concatenations *)
Ltac lnorm := cbn [nodes cbefore cafter app]; repeat (rewrite nodes_plug || rewrite nodes_make_black);
  cbn [nodes cbefore cafter app]; repeat (rewrite <- ?app_assoc; cbn [app]).
Ltac lsolve := lnorm; try reflexivity; repeat (f_equal; try reflexivity).

Lemma ctx_ind2 (P : list frame -> Prop) :
  P [] -> (forall f, P [f]) -> (forall f g up, P up -> P (f :: g :: up)) -> forall ctx, P ctx.
Proof.
  intros H0 H1 H2. fix IH 1. intros [|f [|g up]]; [exact H0|apply H1|apply H2, IH].
Qed.

(* ---- insert ---- *)
Lemma ins_fix_nodes : forall ctx zl zn zr,
  nodes (ins_fix zl zn zr ctx) = nodes (plug ctx (T Red zl zn zr)).
Proof.
  induction ctx as [|f|f g up IH] using ctx_ind2; intros zl zn zr.
  - reflexivity.
  - destruct f as [[|] pn pr|[|] pl pn]; reflexivity.
  - destruct f as [[|] pn pr|[|] pl pn]; try reflexivity;
      destruct g as [gc gn u|gc u gn]; destruct u as [|[|] ul un ur]; cbn [ins_fix];
      rewrite ?IH; lsolve.
Qed.

Lemma descend_plug : forall k t ctx, plug (descend k t ctx) E = plug ctx t.
Proof.
  induction t as [|c l IHl n r IHr]; intros ctx; cbn [descend]; auto.
  destruct (k <? nkey n); [rewrite IHl|rewrite IHr]; reflexivity.
Qed.

(* the place found by the descent: everything before is <= k, everything after is > k *)
Lemma descend_bounds : forall k t ctx,
  sorted (nodes (plug ctx t)) ->
  (forall a, In a (cbefore ctx) -> nkey a <= k) -> (forall b, In b (cafter ctx) -> k < nkey b) ->
  (forall a, In a (cbefore (descend k t ctx)) -> nkey a <= k) /\
  (forall b, In b (cafter (descend k t ctx)) -> k < nkey b).
Proof.
  induction t as [|c l IHl n r IHr]; intros ctx Hs Hb Ha; cbn [descend]; auto.
  assert (Hs' := Hs). rewrite nodes_plug in Hs'. cbn [nodes] in Hs'.
  apply sorted_app in Hs' as (_ & Hs' & _). apply sorted_app in Hs' as (Hs' & _ & _).
  apply sorted_app in Hs' as (_ & Hnr & Hln). cbn in Hnr. destruct Hnr as [Hnr _].
  destruct (k <? nkey n) eqn:Hk.
  - apply IHl; auto.
    cbn [cafter]. intros b [<-|Hb']; [lia|]. apply in_app_or in Hb' as [Hb'|Hb']; auto.
    specialize (Hnr b Hb'). lia.
  - apply IHr; auto.
    cbn [cbefore]. intros a Ha'. apply in_app_or in Ha' as [|Ha']; auto.
    apply in_app_or in Ha' as [Ha'|[<-|[]]]; [|lia].
    specialize (Hln a n Ha' (or_introl eq_refl)). lia.
Qed.

(* insert puts the node at a sorted place of the in-order sequence and keeps everything else *)
Lemma insert_nodes n t :
  sorted (nodes t) ->
  exists A B, nodes t = A ++ B /\ nodes (insert n t) = A ++ n :: B /\
              (forall a, In a A -> nkey a <= nkey n) /\ (forall b, In b B -> nkey n < nkey b).
Proof.
  intros Hs. unfold insert.
  exists (cbefore (descend (nkey n) t [])), (cafter (descend (nkey n) t [])).
  rewrite nodes_make_black, ins_fix_nodes, nodes_plug.
  pose proof (descend_plug (nkey n) t []) as Hp. cbn [plug] in Hp.
  pose proof (f_equal nodes Hp) as Hn. rewrite nodes_plug in Hn. cbn [nodes app] in Hn.
  split; [auto|]. split; [reflexivity|].
  apply descend_bounds; cbn; auto; intros ? [].
Qed.

(* ---- remove ---- *)
Lemma del_left_nodes x pc pn w :
  match del_left x pc pn w with Up t | Done t => nodes t = nodes x ++ pn :: nodes w end.
Proof.
  destruct w as [|wc wl wn wr]; cbn [del_left]; [reflexivity|].
  destruct wl as [|[|] a ln b]; destruct wr as [|[|] c rn d]; lsolve.
Qed.
Lemma del_right_nodes x pc pn w :
  match del_right x pc pn w with Up t | Done t => nodes t = nodes w ++ pn :: nodes x end.
Proof.
  destruct w as [|wc wl wn wr]; cbn [del_right]; [reflexivity|].
  destruct wl as [|[|] a ln b]; destruct wr as [|[|] c rn d]; lsolve.
Qed.

Lemma del_fix_nodes : forall ctx x, nodes (del_fix x ctx) = nodes (plug ctx x).
Proof.
  induction ctx as [|f up IH]; intros x; cbn [del_fix].
  - apply nodes_make_black.
  - destruct (col x) eqn:Hx; [lsolve|].
    destruct f as [pc pn w|pc w pn].
    + destruct w as [|[|] wl wn wr].
      * pose proof (del_left_nodes x pc pn E) as H. destruct (del_left x pc pn E); [rewrite IH|]; lnorm; rewrite H; lsolve.
      * pose proof (del_left_nodes x Red pn wl) as H. destruct (del_left x Red pn wl); lnorm; rewrite H; lsolve.
      * pose proof (del_left_nodes x pc pn (T Black wl wn wr)) as H.
        destruct (del_left x pc pn (T Black wl wn wr)); [rewrite IH|]; lnorm; rewrite H; lsolve.
    + destruct w as [|[|] wl wn wr].
      * pose proof (del_right_nodes x pc pn E) as H. destruct (del_right x pc pn E); [rewrite IH|]; lnorm; rewrite H; lsolve.
      * pose proof (del_right_nodes x Red pn wr) as H. destruct (del_right x Red pn wr); lnorm; rewrite H; lsolve.
      * pose proof (del_right_nodes x pc pn (T Black wl wn wr)) as H.
        destruct (del_right x pc pn (T Black wl wn wr)); [rewrite IH|]; lnorm; rewrite H; lsolve.
Qed.

Lemma del_finish_nodes yc x ctx : nodes (del_finish yc x ctx) = nodes (plug ctx x).
Proof. destruct yc; cbn [del_finish]; [reflexivity|apply del_fix_nodes]. Qed.

(* all frames of the walk to the minimum are left steps *)
Definition all_FL (fr : list frame) : Prop := forall f, In f fr -> match f with FL _ _ _ => True | FR _ _ _ => False end.

Lemma split_min_spec : forall l c n r acc fr yc yn yr,
  split_min c l n r acc = (fr, yc, yn, yr) ->
  exists fr', fr = fr' ++ acc /\ plug fr' (T yc E yn yr) = T c l n r /\ all_FL fr'.
Proof.
  induction l as [|c' l' IHl n' r' _]; intros c n r acc fr yc yn yr H; cbn [split_min] in H.
  - inv H. exists []. repeat split; auto. intros ? [].
  - apply IHl in H as (fr' & -> & Hp & Hall).
    exists (fr' ++ [FL c n r]). rewrite <- app_assoc. repeat split; auto.
    + rewrite plug_app, Hp. reflexivity.
    + intros f Hf. apply in_app_or in Hf as [Hf|[<-|[]]]; [apply Hall; exact Hf|exact I].
Qed.

Lemma all_FL_cbefore fr : all_FL fr -> cbefore fr = [].
Proof.
  induction fr as [|[c n r|c l n] fr IH]; intros H; cbn [cbefore]; auto.
  - apply IH. intros f Hf. apply H; cbn; auto.
  - exfalso. apply (H (FR c l n)); cbn; auto.
Qed.

Lemma cbefore_app a b : cbefore (a ++ b) = cbefore b ++ cbefore a.
Proof.
  induction a as [|[c n r|c l n] a IH]; cbn [app cbefore]; rewrite ?app_nil_r; auto.
  rewrite IH, <- !app_assoc. reflexivity.
Qed.
Lemma cafter_app a b : cafter (a ++ b) = cafter a ++ cafter b.
Proof.
  induction a as [|[c n r|c l n] a IH]; cbn [app cafter]; auto.
  rewrite IH, <- !app_assoc. reflexivity.
Qed.

(* remove deletes exactly the node at the zipper position *)
Lemma remove_at_nodes ctx zc zl zn zr :
  nodes (remove_at ctx zc zl zn zr) = cbefore ctx ++ nodes zl ++ nodes zr ++ cafter ctx.
Proof.
  unfold remove_at. destruct zl as [|lc ll ln lr].
  - rewrite del_finish_nodes, nodes_plug. reflexivity.
  - destruct zr as [|rc rl rn rr].
    + rewrite del_finish_nodes, nodes_plug, app_nil_l. reflexivity.
    + destruct (split_min rc rl rn rr []) as [[[fr yc] yn] yr] eqn:Hm.
      apply split_min_spec in Hm as (fr' & -> & Hp & Hall). rewrite app_nil_r.
      rewrite del_finish_nodes, nodes_plug, cbefore_app, cafter_app, (all_FL_cbefore _ Hall).
      rewrite <- Hp, nodes_plug, (all_FL_cbefore _ Hall). lsolve.
Qed.

Lemma locate_spec : forall id t ctx ctx' c l n r,
  locate id t ctx = Some (ctx', c, l, n, r) -> plug ctx' (T c l n r) = plug ctx t /\ nid n = id.
Proof.
  induction t as [|c0 l0 IHl n0 r0 IHr]; intros ctx ctx' c l n r H; cbn [locate] in H; [discriminate|].
  destruct (nid n0 =? id) eqn:Hid.
  - inv H. split; [reflexivity|lia].
  - destruct (locate id l0 (FL c0 n0 r0 :: ctx)) as [z|] eqn:Hl.
    + inv H. apply IHl in Hl. exact Hl.
    + apply IHr in H. exact H.
Qed.
Lemma locate_none : forall id t ctx, locate id t ctx = None -> ~ In id (ids t).
Proof.
  unfold ids. induction t as [|c0 l0 IHl n0 r0 IHr]; intros ctx H; cbn [locate] in H; [intros []|].
  destruct (nid n0 =? id) eqn:Hid; [discriminate|].
  destruct (locate id l0 (FL c0 n0 r0 :: ctx)) as [z|] eqn:Hl; [discriminate|].
  cbn [nodes]. rewrite map_app. cbn [map]. intros Hin.
  apply in_app_or in Hin as [Hin|[Hin|Hin]].
  - eapply IHl; eauto.
  - lia.
  - eapply IHr; eauto.
Qed.

(* ---- find ---- *)
Lemma find_some q t n : find q t = Some n -> In n (nodes t) /\ nkey n = q.
Proof.
  induction t as [|c l IHl m r IHr]; cbn [find nodes]; [discriminate|].
  destruct (nkey m =? q) eqn:H1.
  - intros H; inv H. split; [apply in_or_app; cbn; auto|lia].
  - destruct (nkey m <? q); intros H; [apply IHr in H|apply IHl in H];
      destruct H; split; auto; apply in_or_app; cbn; auto.
Qed.
Lemma find_none q t : bst t -> find q t = None -> forall m, In m (nodes t) -> nkey m <> q.
Proof.
  induction t as [|c l IHl n r IHr]; cbn [find nodes bst]; [intros _ _ m []|].
  intros (Hl & Hr & Hln & Hnr).
  destruct (nkey n =? q) eqn:H1; [discriminate|].
  destruct (nkey n <? q) eqn:H2; intros H m Hm; apply in_app_or in Hm as [Hm|[<-|Hm]]; try lia.
  - specialize (Hln m Hm). lia.
  - apply IHr; auto.
  - apply IHl; auto.
  - specialize (Hnr m Hm). lia.
Qed.

(* ---- find_or_larger ---- *)
Definition least_geq (q : Z) (l : list node) (n : node) : Prop :=
  In n l /\ q <= nkey n /\ forall m, In m l -> q <= nkey m -> nkey n <= nkey m.

Lemma fol_spec q : forall t acc, bst t ->
  match fol q t acc with
  | Some n => least_geq q (nodes t) n \/ (acc = Some n /\ forall m, In m (nodes t) -> nkey m < q)
  | None => acc = None /\ forall m, In m (nodes t) -> nkey m < q
  end.
Proof.
  induction t as [|c l IHl n r IHr]; intros acc Hb; cbn [fol nodes].
  - destruct acc; [right|]; split; auto; intros ? [].
  - cbn [bst] in Hb. destruct Hb as (Hl & Hr & Hln & Hnr).
    destruct (nkey n =? q) eqn:H1.
    { left. repeat split; [apply in_or_app; cbn; auto|lia|]. intros m Hm Hq.
      apply in_app_or in Hm as [Hm|[<-|Hm]]; [specialize (Hln m Hm)|lia|specialize (Hnr m Hm)]; lia. }
    destruct (nkey n <? q) eqn:H2.
    + specialize (IHr acc Hr). destruct (fol q r acc) as [x|].
      * destruct IHr as [(Hin & Hq & Hmin)|(-> & Hall)]; [left|right].
        -- repeat split; [apply in_or_app; cbn; auto|auto|]. intros m Hm Hqm.
           apply in_app_or in Hm as [Hm|[<-|Hm]]; [specialize (Hln m Hm); lia|lia|auto].
        -- split; auto. intros m Hm. apply in_app_or in Hm as [Hm|[<-|Hm]]; [specialize (Hln m Hm); lia|lia|auto].
      * destruct IHr as (-> & Hall). split; auto. intros m Hm.
        apply in_app_or in Hm as [Hm|[<-|Hm]]; [specialize (Hln m Hm); lia|lia|auto].
    + specialize (IHl (Some n) Hl). destruct (fol q l (Some n)) as [x|].
      * left. destruct IHl as [(Hin & Hq & Hmin)|(Heq & Hall)].
        -- repeat split; [apply in_or_app; auto|auto|]. intros m Hm Hqm.
           apply in_app_or in Hm as [Hm|[<-|Hm]]; [auto|specialize (Hln x Hin); lia|].
           specialize (Hln x Hin). specialize (Hnr m Hm). lia.
        -- inv Heq. repeat split; [apply in_or_app; cbn; auto|lia|]. intros m Hm Hqm.
           apply in_app_or in Hm as [Hm|[<-|Hm]]; [specialize (Hall m Hm); lia|lia|specialize (Hnr m Hm); lia].
      * destruct IHl as [Heq _]. discriminate.
Qed.

Lemma find_or_larger_spec q t : bst t ->
  match find_or_larger q t with
  | Some n => least_geq q (nodes t) n
  | None => forall m, In m (nodes t) -> nkey m < q
  end.
Proof.
  intros Hb. unfold find_or_larger. pose proof (fol_spec q t None Hb) as H.
  destruct (fol q t None) as [n|]; [destruct H as [H|[H _]]; [auto|discriminate]|tauto].
Qed.

(* ---- minimum ---- *)
Lemma leftmost_spec : forall l d, exists B, nodes l ++ [d] = leftmost l d :: B.
Proof.
  induction l as [|c l IHl n r _]; intros d; cbn [leftmost nodes].
  - exists []. reflexivity.
  - destruct (IHl n) as [B HB]. exists (B ++ nodes r ++ [d]).
    rewrite <- app_assoc. cbn [app]. change (n :: nodes r ++ [d]) with ([n] ++ nodes r ++ [d]).
    rewrite app_assoc, HB. reflexivity.
Qed.
Lemma rightmost_spec : forall r d, exists A, d :: nodes r = A ++ [rightmost r d].
Proof.
  induction r as [|c l _ n r IHr]; intros d; cbn [rightmost nodes].
  - exists []. reflexivity.
  - destruct (IHr n) as [A HA]. exists (d :: nodes l ++ A).
    rewrite HA. cbn [app]. rewrite <- app_assoc. reflexivity.
Qed.

Lemma minimum_spec t : bst t ->
  match minimum t with
  | Some n => In n (nodes t) /\ forall m, In m (nodes t) -> nkey n <= nkey m
  | None => t = E
  end.
Proof.
  destruct t as [|c l n r]; cbn [minimum]; auto. intros Hb. apply bst_sorted in Hb. cbn [nodes] in *.
  destruct (leftmost_spec l n) as [B HB].
  assert (Heq : nodes l ++ n :: nodes r = leftmost l n :: B ++ nodes r).
  { change (n :: nodes r) with ([n] ++ nodes r). rewrite app_assoc, HB. reflexivity. }
  rewrite Heq in *. cbn in Hb. destruct Hb as [Hmin _]. split; [cbn; auto|].
  intros m [<-|Hm]; [lia|auto].
Qed.

(* ---- update_node ---- *)
Lemma first_FR_spec ctx :
  match first_FR ctx with Some p => exists A, cbefore ctx = A ++ [p] | None => cbefore ctx = [] end.
Proof.
  induction ctx as [|[c n r|c l n] up IH]; cbn [first_FR cbefore]; auto.
  exists (cbefore up ++ nodes l). rewrite app_assoc. reflexivity.
Qed.
Lemma first_FL_spec ctx :
  match first_FL ctx with Some s => exists B, cafter ctx = s :: B | None => cafter ctx = [] end.
Proof.
  induction ctx as [|[c n r|c l n] up IH]; cbn [first_FL cafter]; auto.
  eexists; reflexivity.
Qed.
Lemma pred_of_spec l ctx :
  match pred_of l ctx with
  | Some p => exists A, cbefore ctx ++ nodes l = A ++ [p]
  | None => cbefore ctx ++ nodes l = [] end.
Proof.
  destruct l as [|c l n r]; cbn [pred_of nodes].
  - rewrite app_nil_r. apply first_FR_spec.
  - destruct (rightmost_spec r n) as [A HA]. exists (cbefore ctx ++ nodes l ++ A).
    rewrite HA, <- !app_assoc. reflexivity.
Qed.
Lemma succ_of_spec r ctx :
  match succ_of r ctx with
  | Some s => exists B, nodes r ++ cafter ctx = s :: B
  | None => nodes r ++ cafter ctx = [] end.
Proof.
  destruct r as [|c l n r]; cbn [succ_of nodes].
  - apply first_FL_spec.
  - destruct (leftmost_spec l n) as [B HB]. exists (B ++ nodes r ++ cafter ctx).
    change (n :: nodes r) with ([n] ++ nodes r). rewrite <- !app_assoc, (app_assoc (nodes l)), HB.
    reflexivity.
Qed.

Lemma upd_decide_spec Pre Post pred succ newk own :
  sorted (Pre ++ own :: Post) ->
  match pred with Some p => exists A, Pre = A ++ [p] | None => Pre = [] end ->
  match succ with Some s => exists B, Post = s :: B | None => Post = [] end ->
  match upd_decide pred succ newk with
  | UExists => exists m, In m (Pre ++ Post) /\ nkey m = newk
  | UInPlace => (forall a, In a Pre -> nkey a < newk) /\ (forall b, In b Post -> newk < nkey b)
  | UReinsert => nkey own <> newk
  end.
Proof.
  intros Hs Hp Hsu. apply sorted_app in Hs as (HsPre & HsPost & Hcross).
  cbn in HsPost. destruct HsPost as [Hown HsPost].
  assert (HP : match pred with Some p => In p Pre /\ nkey p <= nkey own /\ forall a, In a Pre -> nkey a <= nkey p
                          | None => Pre = [] end).
  { destruct pred as [p|]; auto. destruct Hp as [A ->].
    apply sorted_app in HsPre as (_ & _ & HA). repeat split.
    - apply in_or_app; cbn; auto.
    - apply Hcross; [apply in_or_app|]; cbn; auto.
    - intros a Ha. apply in_app_or in Ha as [Ha|[<-|[]]]; [apply HA; cbn; auto|lia]. }
  assert (HS : match succ with Some s => In s Post /\ nkey own <= nkey s /\ forall b, In b Post -> nkey s <= nkey b
                          | None => Post = [] end).
  { destruct succ as [s|]; auto. destruct Hsu as [B ->]. cbn in HsPost. destruct HsPost as [HB _].
    repeat split; [cbn; auto|apply Hown; cbn; auto|]. intros b [<-|Hb]; [lia|auto]. }
  clear Hp Hsu. unfold upd_decide.
  destruct pred as [p|].
  - destruct HP as (HpIn & Hpo & HpMax).
    destruct (nkey p =? newk) eqn:E1.
    { exists p. split; [apply in_or_app; auto|lia]. }
    destruct (nkey p >? newk) eqn:E2; [lia|].
    destruct succ as [s|].
    + destruct HS as (HsIn & Hso & HsMin).
      destruct (nkey s =? newk) eqn:E3.
      { exists s. split; [apply in_or_app; auto|lia]. }
      destruct (nkey s <? newk) eqn:E4; [lia|].
      split; [intros a Ha; specialize (HpMax a Ha); lia|intros b Hb; specialize (HsMin b Hb); lia].
    + subst Post. split; [intros a Ha; specialize (HpMax a Ha); lia|intros ? []].
  - subst Pre. destruct succ as [s|].
    + destruct HS as (HsIn & Hso & HsMin).
      destruct (nkey s =? newk) eqn:E3.
      { exists s. split; [cbn; auto|lia]. }
      destruct (nkey s <? newk) eqn:E4; [lia|].
      split; [intros ? []|intros b Hb; specialize (HsMin b Hb); lia].
    + subst Post. split; intros ? [].
Qed.

Lemma sorted_replace Pre Post own new :
  sorted (Pre ++ own :: Post) ->
  (forall a, In a Pre -> nkey a <= nkey new) -> (forall b, In b Post -> nkey new <= nkey b) ->
  sorted (Pre ++ new :: Post).
Proof.
  intros Hs Ha Hb. apply sorted_app in Hs as (HsPre & HsPost & Hcross). cbn in HsPost.
  apply sorted_app. repeat split; auto; [cbn; tauto|].
  intros x y Hx [<-|Hy]; [auto|]. specialize (Ha x Hx). specialize (Hb y Hy). lia.
Qed.

Lemma sorted_remove Pre Post own : sorted (Pre ++ own :: Post) -> sorted (Pre ++ Post).
Proof.
  intros Hs. apply sorted_app in Hs as (HsPre & HsPost & Hcross). cbn in HsPost.
  apply sorted_app. repeat split; try tauto. intros x y Hx Hy. apply Hcross; cbn; auto.
Qed.

Lemma sorted_insert A B n :
  sorted (A ++ B) -> (forall a, In a A -> nkey a <= nkey n) -> (forall b, In b B -> nkey n <= nkey b) ->
  sorted (A ++ n :: B).
Proof.
  intros Hs Ha Hb. apply sorted_app in Hs as (HsA & HsB & Hcross).
  apply sorted_app. split; [auto|]. split; [cbn; split; auto|].
  intros x y Hx [<-|Hy]; auto.
Qed.

(* the position of a zipper splits the in-order sequence *)
Lemma nodes_zipper ctx c l n r :
  nodes (plug ctx (T c l n r)) = (cbefore ctx ++ nodes l) ++ n :: (nodes r ++ cafter ctx).
Proof. lsolve. Qed.

Lemma update_at_spec t ctx c l n r newk :
  bst t -> plug ctx (T c l n r) = t ->
  forall Pre Post, Pre = cbefore ctx ++ nodes l -> Post = nodes r ++ cafter ctx ->
  (snd (update_at t ctx c l n r newk) = false <-> exists m, In m (Pre ++ Post) /\ nkey m = newk) /\
  (snd (update_at t ctx c l n r newk) = false -> fst (update_at t ctx c l n r newk) = t) /\
  (snd (update_at t ctx c l n r newk) = true ->
     sorted (nodes (fst (update_at t ctx c l n r newk))) /\
     exists A B, Pre ++ Post = A ++ B /\ nodes (fst (update_at t ctx c l n r newk)) = A ++ (nid n, newk) :: B).
Proof.
  intros Hb Hp Pre Post HPre HPost.
  assert (Hn : nodes t = Pre ++ n :: Post) by (subst t Pre Post; apply nodes_zipper).
  assert (Hs : sorted (Pre ++ n :: Post)) by (rewrite <- Hn; apply bst_sorted; auto).
  pose proof (upd_decide_spec Pre Post (pred_of l ctx) (succ_of r ctx) newk n Hs) as Hd.
  assert (H1 := pred_of_spec l ctx). assert (H2 := succ_of_spec r ctx).
  rewrite <- HPre in H1. rewrite <- HPost in H2. specialize (Hd H1 H2). clear H1 H2.
  unfold update_at. destruct (upd_decide (pred_of l ctx) (succ_of r ctx) newk).
  - cbn [fst snd]. repeat split; auto; discriminate.
  - destruct (find newk t) as [m|] eqn:Hf; cbn [fst snd].
    + apply find_some in Hf as [Hin Hk]. repeat split; auto; try discriminate.
      intros _. exists m. split; auto. rewrite Hn in Hin.
      apply in_app_or in Hin as [Hin|[<-|Hin]]; [apply in_or_app; auto|lia|apply in_or_app; auto].
    + pose proof (find_none newk t Hb Hf) as Hnone.
      split; [|split; [discriminate|]].
      * split; [discriminate|]. intros (m & Hin & Hk). exfalso. apply (Hnone m); auto.
        rewrite Hn. apply in_app_or in Hin as [Hin|Hin]; apply in_or_app; cbn; auto.
      * intros _.
        assert (Hr : nodes (remove_at ctx c l n r) = Pre ++ Post).
        { rewrite remove_at_nodes. subst Pre Post. rewrite <- !app_assoc. reflexivity. }
        assert (Hsr : sorted (nodes (remove_at ctx c l n r))) by (rewrite Hr; eapply sorted_remove; eauto).
        destruct (insert_nodes (nid n, newk) _ Hsr) as (A & B & HAB & Hins & HA & HB).
        rewrite Hr in HAB. split; [|exists A, B; auto].
        rewrite Hins. apply sorted_insert; [rewrite <- HAB, <- Hr; auto|auto|].
        intros b Hb'. specialize (HB b Hb'). lia.
  - cbn [fst snd]. destruct Hd as [Ha Hb'].
    split; [|split; [discriminate|]].
    + split; [discriminate|]. intros (m & Hin & Hk). exfalso.
      apply in_app_or in Hin as [Hin|Hin]; [specialize (Ha m Hin)|specialize (Hb' m Hin)]; lia.
    + intros _. rewrite nodes_zipper, <- HPre, <- HPost. split; [|exists Pre, Post; auto].
      eapply sorted_replace; eauto; [intros a Hin; specialize (Ha a Hin)|intros b Hin; specialize (Hb' b Hin)];
        cbn [nkey snd]; lia.
Qed.
