(* Executable model of the runtime red-black tree
   (parsec/class/parsec_rbtree.c, parsec/class/parsec_rbtree.h).

   The C tree is the CLRS pointer structure: nodes with left/right/parent
   pointers and a colour, one black sentinel [nil].  The model is a functional
   tree; a position inside the tree is a zipper (the sub-tree plus the list of
   frames up to the root, innermost first), which plays the role of the parent
   pointers.  Every function below mirrors one C function and produces the same
   shape and the same colours as the C code, so that a structural dump of both
   can be compared node for node.

   A node is (identity, key): the C code moves *nodes* (pointers), never keys,
   and [remove] / [update_node] receive a node pointer, so identities matter
   when keys repeat.  The key is the [int] at [comp_offset]; it is only ever
   compared ( < , == ), never computed with, so Z models it without wrap.

   The branches marked "not reached" are the places where the C code would read
   a child or the colour of the parent of the sentinel; the theorems show that
   no history leads there (every reachable tree satisfies the red-black
   invariants, and under them the proofs discharge these branches by
   contradiction). *)
From Coq Require Import ZArith List.
Import ListNotations.
Local Open Scope Z_scope.

Inductive color := Red | Black.
Definition node := (Z * Z)%type.
Definition nid (n : node) : Z := fst n.
Definition nkey (n : node) : Z := snd n.

(* E is the sentinel tree->nil (black, PARSEC_OBJ_CONSTRUCT colours it black) *)
Inductive tree := E | T (c : color) (l : tree) (n : node) (r : tree).

(* one step of a parent chain: FL = "I am the left child of a node coloured c,
   holding n, whose right sub-tree is r"; FR symmetrically *)
Inductive frame := FL (c : color) (n : node) (r : tree) | FR (c : color) (l : tree) (n : node).

Definition fill (f : frame) (t : tree) : tree :=
  match f with FL c n r => T c t n r | FR c l n => T c l n t end.
Fixpoint plug (ctx : list frame) (t : tree) : tree :=
  match ctx with [] => t | f :: up => plug up (fill f t) end.

Definition col (t : tree) : color := match t with T Red _ _ _ => Red | _ => Black end.
(* x->color = BLACK (harmless on the sentinel) *)
Definition make_black (t : tree) : tree := match t with E => E | T _ l n r => T Black l n r end.

(* ------------------------------------------------------------------ *)
(* parsec_rbtree_insert: the descent.
     while (x != nil) { y = x; if (key(z) < key(x)) x = LEFT(x); else x = RIGHT(x); }
   equal keys go right *)
Fixpoint descend (k : Z) (t : tree) (ctx : list frame) : list frame :=
  match t with
  | E => ctx
  | T c l n r => if k <? nkey n then descend k l (FL c n r :: ctx) else descend k r (FR c l n :: ctx)
  end.

(* parsec_rbtree_insert_fixup, the loop.  z = T Red zl zn zr is red on every
   iteration (the new node, then a grand-parent just recoloured red). *)
Fixpoint ins_fix (zl : tree) (zn : node) (zr : tree) (ctx : list frame) {struct ctx} : tree :=
  let z := T Red zl zn zr in
  match ctx with
  | [] => z                                         (* z->parent == nil, black: loop ends *)
  | p :: up =>
    match p with
    | FL Black _ _ => plug ctx z                    (* z->parent black: loop ends *)
    | FR Black _ _ => plug ctx z
    | FL Red pn pr =>                               (* z == LEFT(z->parent), parent red *)
      match up with
      | [] => plug ctx z                            (* red root: not reached *)
      | FL _ gn u :: up' =>                         (* parent == LEFT(grand-parent), uncle u *)
        match u with
        | T Red ul un ur => ins_fix (T Black z pn pr) gn (T Black ul un ur) up'
        | _ => plug up' (T Black z pn (T Red pr gn u))                  (* right_rotate(g) *)
        end
      | FR _ u gn :: up' =>                         (* parent == RIGHT(grand-parent) *)
        match u with
        | T Red ul un ur => ins_fix (T Black ul un ur) gn (T Black z pn pr) up'
        | _ => plug up' (T Black (T Red u gn zl) zn (T Red zr pn pr))   (* right_rotate(p); left_rotate(g) *)
        end
      end
    | FR Red pl pn =>                               (* z == RIGHT(z->parent), parent red *)
      match up with
      | [] => plug ctx z                            (* red root: not reached *)
      | FL _ gn u :: up' =>
        match u with
        | T Red ul un ur => ins_fix (T Black pl pn z) gn (T Black ul un ur) up'
        | _ => plug up' (T Black (T Red pl pn zl) zn (T Red zr gn u))   (* left_rotate(p); right_rotate(g) *)
        end
      | FR _ u gn :: up' =>
        match u with
        | T Red ul un ur => ins_fix (T Black ul un ur) gn (T Black pl pn z) up'
        | _ => plug up' (T Black (T Red u gn pl) pn z)                  (* left_rotate(g) *)
        end
      end
    end
  end.

(* parsec_rbtree_insert; the last line of the fix-up is tree->root->color = BLACK *)
Definition insert (n : node) (t : tree) : tree :=
  make_black (ins_fix E n E (descend (nkey n) t [])).

(* ------------------------------------------------------------------ *)
(* parsec_rbtree_delete_fixup.  One iteration for x == LEFT(x->parent), after
   the red-sibling rotation if any: parent colour pc, parent node pn, sibling w.
   [Up t]: w was recoloured red and x = x->parent (t is that parent);
   [Done t]: the rotations of cases 3/4 were done, t replaces the parent and
   x = tree->root. *)
Inductive dstep := Up (t : tree) | Done (t : tree).

Definition del_left (x : tree) (pc : color) (pn : node) (w : tree) : dstep :=
  match w with
  | E => Up (T pc x pn E)                           (* sibling is the sentinel: not reached *)
  | T _ wl wn wr =>
    match wl, wr with
    | _, T Red c rn d =>                            (* RIGHT(w) red: case 4 *)
        Done (T pc (T Black x pn wl) wn (T Black c rn d))
    | T Red a ln b, _ =>                            (* RIGHT(w) black, LEFT(w) red: case 3 then 4 *)
        Done (T pc (T Black x pn a) ln (T Black b wn wr))
    | _, _ => Up (T pc x pn (T Red wl wn wr))       (* both black: case 2 *)
    end
  end.

Definition del_right (x : tree) (pc : color) (pn : node) (w : tree) : dstep :=
  match w with
  | E => Up (T pc E pn x)                           (* not reached *)
  | T _ wl wn wr =>
    match wl, wr with
    | T Red c ln d, _ =>                            (* LEFT(w) red: case 4 *)
        Done (T pc (T Black c ln d) wn (T Black wr pn x))
    | _, T Red a rn b =>                            (* LEFT(w) black, RIGHT(w) red: case 3 then 4 *)
        Done (T pc (T Black wl wn a) rn (T Black b pn x))
    | _, _ => Up (T pc (T Red wl wn wr) pn x)
    end
  end.

(* the loop, then x->color = BLACK.  x is a sub-tree (possibly the sentinel,
   whose parent pointer the C code has set) at position ctx. *)
Fixpoint del_fix (x : tree) (ctx : list frame) {struct ctx} : tree :=
  match ctx with
  | [] => make_black x                              (* x == tree->root *)
  | f :: up =>
    match col x with
    | Red => plug ctx (make_black x)                (* x red: loop ends, x painted black *)
    | Black =>
      match f with
      | FL _ pn (T Red wl wn wr) =>
          (* case 1: w black, parent red, left_rotate(parent); the new sibling is wl
             and the parent (now red) hangs under w *)
          match del_left x Red pn wl with
          | Up t => plug (FL Black wn wr :: up) (make_black t)   (* x = parent, which is red: loop ends *)
          | Done t => make_black (plug (FL Black wn wr :: up) t) (* x = root; root painted black *)
          end
      | FL pc pn w =>
          match del_left x pc pn w with
          | Up t => del_fix t up
          | Done t => make_black (plug up t)
          end
      | FR _ (T Red wl wn wr) pn =>
          match del_right x Red pn wr with
          | Up t => plug (FR Black wl wn :: up) (make_black t)
          | Done t => make_black (plug (FR Black wl wn :: up) t)
          end
      | FR pc w pn =>
          match del_right x pc pn w with
          | Up t => del_fix t up
          | Done t => make_black (plug up t)
          end
      end
    end
  end.

(* parsec_rbtree_minimum inside parsec_rbtree_remove: walk left from the node
   (c,l,n,r), remembering the frames passed; returns the frames (innermost
   first), and the colour, node and right sub-tree of the minimum *)
Fixpoint split_min (c : color) (l : tree) (n : node) (r : tree) (acc : list frame) {struct l}
  : list frame * color * node * tree :=
  match l with
  | E => (acc, c, n, r)
  | T c' l' n' r' => split_min c' l' n' r' (FL c n r :: acc)
  end.

(* if (y_original_color == BLACK) delete_fixup(x) *)
Definition del_finish (yc : color) (x : tree) (ctx : list frame) : tree :=
  match yc with Black => del_fix x ctx | Red => plug ctx x end.

(* parsec_rbtree_remove of the node z = (zc,zl,zn,zr) found at position ctx *)
Definition remove_at (ctx : list frame) (zc : color) (zl : tree) (zn : node) (zr : tree) : tree :=
  match zl, zr with
  | E, _ => del_finish zc zr ctx                    (* x = RIGHT(z); transplant(z, RIGHT(z)) *)
  | _, E => del_finish zc zl ctx                    (* x = LEFT(z);  transplant(z, LEFT(z)) *)
  | _, T rc rl rn rr =>
      (* y = minimum(RIGHT(z)) takes z's place and colour; x = RIGHT(y) takes y's place *)
      match split_min rc rl rn rr [] with
      | (fr, yc, yn, yr) => del_finish yc yr (fr ++ FR zc zl yn :: ctx)
      end
  end.

(* a node pointer is turned into a position by looking for its identity *)
Definition zipper := (list frame * color * tree * node * tree)%type.
Fixpoint locate (id : Z) (t : tree) (ctx : list frame) : option zipper :=
  match t with
  | E => None
  | T c l n r =>
      if nid n =? id then Some (ctx, c, l, n, r)
      else match locate id l (FL c n r :: ctx) with
           | Some z => Some z
           | None => locate id r (FR c l n :: ctx)
           end
  end.

(* ------------------------------------------------------------------ *)
(* parsec_rbtree_find / parsec_rbtree_find_or_larger / parsec_rbtree_minimum / foreach *)
Fixpoint find (q : Z) (t : tree) : option node :=
  match t with
  | E => None
  | T _ l n r => if nkey n =? q then Some n else if nkey n <? q then find q r else find q l
  end.

Fixpoint fol (q : Z) (t : tree) (larger : option node) : option node :=
  match t with
  | E => larger
  | T _ l n r => if nkey n =? q then Some n else if nkey n <? q then fol q r larger else fol q l (Some n)
  end.
Definition find_or_larger (q : Z) (t : tree) : option node := fol q t None.

Fixpoint leftmost (l : tree) (d : node) : node := match l with E => d | T _ l' n _ => leftmost l' n end.
Fixpoint rightmost (r : tree) (d : node) : node := match r with E => d | T _ _ n r' => rightmost r' n end.
(* parsec_rbtree_minimum(tree, tree->root) on a non-empty tree *)
Definition minimum (t : tree) : option node :=
  match t with E => None | T _ l n _ => Some (leftmost l n) end.

(* visit order of parsec_rbtree_foreach *)
Fixpoint nodes (t : tree) : list node :=
  match t with E => [] | T _ l n r => nodes l ++ n :: nodes r end.
Definition keys (t : tree) : list Z := map nkey (nodes t).
Definition ids (t : tree) : list Z := map nid (nodes t).

(* ------------------------------------------------------------------ *)
(* parsec_rbtree_update_node *)
(* walking up while on a left-child path: the first ancestor of which we are in
   the right sub-tree *)
Fixpoint first_FR (ctx : list frame) : option node :=
  match ctx with [] => None | FR _ _ n :: _ => Some n | FL _ _ _ :: up => first_FR up end.
Fixpoint first_FL (ctx : list frame) : option node :=
  match ctx with [] => None | FL _ n _ :: _ => Some n | FR _ _ _ :: up => first_FL up end.
Definition pred_of (l : tree) (ctx : list frame) : option node :=
  match l with E => first_FR ctx | T _ _ n r => Some (rightmost r n) end.
Definition succ_of (r : tree) (ctx : list frame) : option node :=
  match r with E => first_FL ctx | T _ l n _ => Some (leftmost l n) end.

Inductive udecision := UExists | UReinsert | UInPlace.
Definition upd_decide (pred succ : option node) (newk : Z) : udecision :=
  let d1 := match pred with
            | Some p => if nkey p =? newk then UExists else if nkey p >? newk then UReinsert else UInPlace
            | None => UInPlace end in
  match d1 with
  | UInPlace =>
      match succ with
      | Some s => if nkey s =? newk then UExists else if nkey s <? newk then UReinsert else UInPlace
      | None => UInPlace end
  | d => d
  end.

(* result: the new tree and [true] for PARSEC_SUCCESS, [false] for PARSEC_ERR_EXISTS *)
Definition update_at (t : tree) (ctx : list frame) (c : color) (l : tree) (n : node) (r : tree) (newk : Z)
  : tree * bool :=
  match upd_decide (pred_of l ctx) (succ_of r ctx) newk with
  | UExists => (t, false)
  | UInPlace => (plug ctx (T c l (nid n, newk) r), true)
  | UReinsert =>
      match find newk t with
      | Some _ => (t, false)
      | None => (insert (nid n, newk) (remove_at ctx c l n r), true)
      end
  end.

(* ------------------------------------------------------------------ *)
(* histories.  The API contract: a node is inserted only while it is not in the
   tree, removed / updated only while it is (the harness and the model skip
   the other calls, which would be undefined behaviour in C). *)
Inductive op := Insert (id k : Z) | Remove (id : Z) | Update (id k : Z).

Definition remove (id : Z) (t : tree) : tree :=
  match locate id t [] with
  | Some (ctx, c, l, n, r) => remove_at ctx c l n r
  | None => t
  end.
Definition update (id newk : Z) (t : tree) : tree * bool :=
  match locate id t [] with
  | Some (ctx, c, l, n, r) => update_at t ctx c l n r newk
  | None => (t, false)
  end.
Definition insert_new (id k : Z) (t : tree) : tree :=
  match locate id t [] with Some _ => t | None => insert (id, k) t end.

Definition step (t : tree) (o : op) : tree :=
  match o with
  | Insert id k => insert_new id k t
  | Remove id => remove id t
  | Update id k => fst (update id k t)
  end.
Definition run (ops : list op) : tree := fold_left step ops E.

(* the zone allocator's discipline: a key is inserted only after find did not find it *)
Definition guarded (t : tree) (o : op) : Prop :=
  match o with Insert _ k => find k t = None | _ => True end.
Fixpoint all_guarded (t : tree) (ops : list op) : Prop :=
  match ops with [] => True | o :: ops' => guarded t o /\ all_guarded (step t o) ops' end.

(* ------------------------------------------------------------------ *)
(* specification predicates *)
Definition bk (c : color) : nat := match c with Black => 1%nat | Red => 0%nat end.
(* number of black nodes on the left-most path *)
Fixpoint bh (t : tree) : nat := match t with E => 0%nat | T c l _ _ => (bh l + bk c)%nat end.
(* every node: both sub-trees have the same black height (hence all root-to-nil paths do) *)
Fixpoint bal (t : tree) : Prop :=
  match t with E => True | T _ l _ r => bal l /\ bal r /\ bh l = bh r end.
(* no red node has a red child *)
Fixpoint nrr (t : tree) : Prop :=
  match t with E => True | T c l _ r => nrr l /\ nrr r /\ (c = Red -> col l = Black /\ col r = Black) end.
Definition is_rb (t : tree) : Prop := col t = Black /\ nrr t /\ bal t.

(* black-node counts of all root-to-nil paths *)
Fixpoint paths (t : tree) : list nat :=
  match t with E => [0%nat] | T c l _ r => map (fun h => (h + bk c)%nat) (paths l ++ paths r) end.

(* binary-search-tree order: at every node, nothing larger on the left, nothing smaller on the right *)
Fixpoint bst (t : tree) : Prop :=
  match t with
  | E => True
  | T _ l n r => bst l /\ bst r /\ (forall m, In m (nodes l) -> nkey m <= nkey n)
                               /\ (forall m, In m (nodes r) -> nkey n <= nkey m)
  end.
Fixpoint bst_strict (t : tree) : Prop :=
  match t with
  | E => True
  | T _ l n r => bst_strict l /\ bst_strict r /\ (forall m, In m (nodes l) -> nkey m < nkey n)
                                             /\ (forall m, In m (nodes r) -> nkey n < nkey m)
  end.

Fixpoint size (t : tree) : nat := match t with E => 0%nat | T _ l _ r => S (size l + size r) end.
Fixpoint depth (t : tree) : nat := match t with E => 0%nat | T _ l _ r => S (Nat.max (depth l) (depth r)) end.
