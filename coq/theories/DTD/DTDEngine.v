(* Execution engine: any run that begins a task only after its dependencies have
   ended, where the dependencies point backwards and cover the conflicts of the
   insertion order, is observation-equivalent to the sequential execution
   ([dag_serialisable]: independent of how the dependencies were obtained), never
   has two conflicting tasks running together, runs every task at most once and
   cannot get stuck before all tasks are done. *)
From PV Require Import Base.Tac DTD.DTDDefs DTD.DTDSeq DTD.DTDChain.

Lemma fupd_same {A} (f : tid -> A) t v : fupd f t v t = v.
Proof. unfold fupd. now rewrite Nat.eqb_refl. Qed.
Lemma fupd_other {A} (f : tid -> A) t v x : x <> t -> fupd f t v x = f x.
Proof. unfold fupd. intros H. apply Nat.eqb_neq in H. now rewrite H. Qed.

Lemma stat_dec (a b : stat) : {a = b} + {a <> b}.
Proof. decide equality. Qed.
Lemma is_done_iff x : is_done x = true <-> x = Done.
Proof. destruct x; cbn; split; congruence. Qed.
Lemma is_idle_iff x : is_idle x = true <-> x = Idle.
Proof. destruct x; cbn; split; congruence. Qed.
Lemma is_running_iff x : is_running x = true <-> x = Running.
Proof. destruct x; cbn; split; congruence. Qed.

Lemma prefix_done_dec (s : state) : forall n,
  (forall j, j < n -> st s j = Done) \/ (exists t, t < n /\ st s t <> Done).
Proof.
  induction n as [|n [IH|(t & Ht & Hs)]].
  - left. intros j Hj. lia.
  - destruct (stat_dec (st s n) Done) as [Hd|Hd].
    + left. intros j Hj. destruct (Nat.eq_dec j n) as [->|Hne]; [exact Hd|]. apply IH. lia.
    + right. exists n. split; [lia|exact Hd].
  - right. exists t. split; [lia|exact Hs].
Qed.

Section Engine.
Variable body : tid -> list value -> value.
Variable p : prog.
Variable dep : tid -> list tid.
Variable gate : nat -> nat -> bool.
Variable m0 : mem.
Hypothesis Hback : forall k j, In j (dep k) -> j < k.
Hypothesis Hcover : forall k i, k < length p -> i < k ->
  conflict (task_at p i) (task_at p k) -> dpath dep i k.

Notation step := (step body p dep gate).
Notation run := (run body p dep gate m0).
Notation pm := (prefix_mem body p m0).
Notation T k := (task_at p k).

Record Inv (s : state) : Prop := {
  E0 : ins s <= length p;
  E1 : forall t, st s t <> Idle -> t < ins s;
  E2 : forall t, st s t <> Idle -> forall j, In j (dep t) -> st s j = Done;
  E3 : forall t, st s t <> Idle -> obs s t = Some (inputs (T t) (pm t));
  E3n : forall t, st s t = Idle -> obs s t = None;
  E4 : forall d k, (forall i, i < k -> writes (T i) d = true -> st s i = Done) ->
                   (forall i, k <= i -> writes (T i) d = true -> st s i <> Done) ->
                   memo s d = pm k d;
  E5 : forall t, nruns s t = if is_idle (st s t) then 0 else 1 }.

(* everything on a dependency path into a task whose direct dependencies are done is done *)
Lemma path_done s : (forall t, st s t <> Idle -> forall j, In j (dep t) -> st s j = Done) ->
  forall i k, dpath dep i k -> (forall j, In j (dep k) -> st s j = Done) -> st s i = Done.
Proof.
  intros H2 i k Hp. induction Hp as [i k Hi|i j k Hp IH Hj]; intros Hd.
  - now apply Hd.
  - apply IH. intros x Hx. apply (H2 j); [|exact Hx]. rewrite (Hd j Hj). discriminate.
Qed.

(* a begun task has seen every earlier conflicting task end *)
Lemma begun_after s : Inv s -> forall t i, st s t <> Idle -> i < t ->
  conflict (T i) (T t) -> st s i = Done.
Proof.
  intros [H0 H1 H2 _ _ _ _] t i Ht Hi Hc.
  apply (path_done s H2 i t).
  - apply Hcover; [|exact Hi|exact Hc]. specialize (H1 t Ht). lia.
  - now apply H2.
Qed.

Lemma inv_init : Inv (init m0).
Proof.
  constructor; cbn; try congruence; try lia.
  - intros d k H _. symmetry. apply (prefix_mem_stable body p m0 d 0 k); [lia|].
    intros j Hj. destruct (writes (T j) d) eqn:E; [|reflexivity].
    specialize (H j (proj2 Hj) E). discriminate.
Qed.

Lemma forallb_done s l : forallb (fun j => is_done (st s j)) l = true <-> forall j, In j l -> st s j = Done.
Proof. rewrite forallb_forall. split; intros H j Hj; apply is_done_iff; now apply H. Qed.

Lemma inv_step s e : Inv s -> Inv (step s e).
Proof.
  intros HI. pose proof HI as [H0 H1 H2 H3 H3n H4 H5]. destruct e as [|t|t]; unfold DTDDefs.step.
  - (* Insert *)
    destruct (can_insert p gate s) eqn:Eg; [|exact HI].
    unfold can_insert in Eg. apply andb_true_iff in Eg. destruct Eg as [Eg _]. apply Nat.ltb_lt in Eg.
    constructor; cbn; auto. intros t Ht. specialize (H1 t Ht). lia.
  - (* Begin t *)
    destruct (can_begin dep s t) eqn:Eg; [|exact HI].
    unfold can_begin in Eg. apply andb_true_iff in Eg. destruct Eg as [Eg Hdeps].
    apply andb_true_iff in Eg. destruct Eg as [Hlt Hidle].
    apply Nat.ltb_lt in Hlt. apply is_idle_iff in Hidle. rewrite forallb_done in Hdeps.
    (* every earlier conflicting task is done, no later one has begun *)
    assert (Hearlier : forall i, i < t -> conflict (T i) (T t) -> st s i = Done).
    { intros i Hi Hc. apply (path_done s H2 i t); [|exact Hdeps]. apply Hcover; [lia|exact Hi|exact Hc]. }
    assert (Hlater : forall i, t < i -> conflict (T t) (T i) -> st s i = Idle).
    { intros i Hi Hc. destruct (stat_dec (st s i) Idle) as [Hs|Hs]; [exact Hs|].
      pose proof (begun_after s HI i t Hs Hi Hc). congruence. }
    constructor; cbn [ins st memo obs nruns].
    + exact H0.
    + intros x Hx. destruct (Nat.eq_dec x t) as [->|Hne]; [exact Hlt|].
      rewrite fupd_other in Hx by exact Hne. now apply H1.
    + intros x Hx j Hj. assert (Hjt : j <> t).
      { destruct (Nat.eq_dec x t) as [->|Hne].
        - specialize (Hback _ _ Hj). lia.
        - rewrite fupd_other in Hx by exact Hne. intros ->. specialize (H2 x Hx t Hj). congruence. }
      rewrite fupd_other by exact Hjt. destruct (Nat.eq_dec x t) as [->|Hne]; [now apply Hdeps|].
      rewrite fupd_other in Hx by exact Hne. now apply H2 with x.
    + intros x Hx. destruct (Nat.eq_dec x t) as [->|Hne].
      * rewrite fupd_same. f_equal. apply inputs_ext. intros d Hd. apply H4.
        -- intros i Hi Hw. apply Hearlier; [exact Hi|]. exists d. repeat split; auto. now apply writes_touches.
        -- intros i Hi Hw. destruct (Nat.eq_dec i t) as [->|Hne]; [congruence|].
           rewrite Hlater; [discriminate|lia|]. exists d. repeat split; auto. now apply writes_touches.
      * rewrite !fupd_other in * by exact Hne. now apply H3.
    + intros x Hx. destruct (Nat.eq_dec x t) as [->|Hne]; [rewrite fupd_same in Hx; discriminate|].
      rewrite !fupd_other in * by exact Hne. now apply H3n.
    + intros d k Ha Hb. apply H4.
      * intros i Hi Hw. specialize (Ha i Hi Hw). destruct (Nat.eq_dec i t) as [->|Hne].
        -- rewrite fupd_same in Ha. discriminate.
        -- now rewrite fupd_other in Ha by exact Hne.
      * intros i Hi Hw. specialize (Hb i Hi Hw). destruct (Nat.eq_dec i t) as [->|Hne]; [congruence|].
        now rewrite fupd_other in Hb by exact Hne.
    + intros x. destruct (Nat.eq_dec x t) as [->|Hne].
      * rewrite !fupd_same. rewrite H5, Hidle. reflexivity.
      * rewrite !fupd_other by exact Hne. apply H5.
  - (* End t *)
    destruct (can_end s t) eqn:Eg; [|exact HI].
    unfold can_end in Eg. apply is_running_iff in Eg.
    assert (Hnid : forall x, fupd (st s) t Done x <> Idle -> st s x <> Idle).
    { intros x Hx. destruct (Nat.eq_dec x t) as [->|Hne]; [congruence|]. now rewrite fupd_other in Hx by exact Hne. }
    constructor; cbn [ins st memo obs nruns].
    + exact H0.
    + intros x Hx. apply H1. now apply Hnid.
    + intros x Hx j Hj. destruct (Nat.eq_dec j t) as [->|Hne]; [now rewrite fupd_same|].
      rewrite fupd_other by exact Hne. apply H2 with x; [now apply Hnid|exact Hj].
    + intros x Hx. apply H3. now apply Hnid.
    + intros x Hx. apply H3n. destruct (Nat.eq_dec x t) as [->|Hne]; [rewrite fupd_same in Hx; discriminate|].
      now rewrite fupd_other in Hx by exact Hne.
    + intros d k Ha Hb. unfold write_back. rewrite (H3 t) by congruence.
      destruct (writes (T t) d) eqn:Ew.
      * (* t is the latest finished writer of d *)
        assert (Htk : t < k).
        { destruct (Nat.lt_ge_cases t k) as [Hl|Hg]; [exact Hl|]. specialize (Hb t Hg Ew). rewrite fupd_same in Hb. congruence. }
        rewrite (prefix_mem_stable body p m0 d (S t) k); [|lia|].
        -- symmetry. now apply prefix_mem_written.
        -- intros j Hj. destruct (writes (T j) d) eqn:Ewj; [|reflexivity]. exfalso.
           assert (Hjd : st s j = Done).
           { specialize (Ha j (proj2 Hj) Ewj). rewrite fupd_other in Ha by lia. exact Ha. }
           assert (Hc : conflict (T t) (T j)).
           { exists d. repeat split; auto; now apply writes_touches. }
           assert (Hjn : st s j <> Idle) by congruence.
           pose proof (begun_after s HI j t Hjn (proj1 Hj) Hc). congruence.
      * apply H4.
        -- intros i Hi Hw. specialize (Ha i Hi Hw). destruct (Nat.eq_dec i t) as [->|Hne]; [congruence|].
           now rewrite fupd_other in Ha by exact Hne.
        -- intros i Hi Hw. specialize (Hb i Hi Hw). destruct (Nat.eq_dec i t) as [->|Hne]; [congruence|].
           now rewrite fupd_other in Hb by exact Hne.
    + intros x. destruct (Nat.eq_dec x t) as [->|Hne].
      * rewrite fupd_same. rewrite H5, Eg. reflexivity.
      * rewrite fupd_other by exact Hne. apply H5.
Qed.

Lemma inv_run es : Inv (run es).
Proof. unfold DTDDefs.run. apply fold_left_inv; [intros; now apply inv_step|apply inv_init]. Qed.

(* ---- C03: observations equal the sequential ones ---- *)
Theorem dag_serialisable es :
  let s := run es in
  (forall t i, obs s t = Some i -> t < length p /\ i = nth t (fst (seq_dtd body p m0)) []) /\
  (all_done p s = true -> forall d, memo s d = snd (seq_dtd body p m0) d).
Proof.
  intros s. pose proof (inv_run es) as HI. fold s in HI. destruct HI as [H0 H1 H2 H3 H3n H4 H5]. split.
  - intros t i Ho. destruct (stat_dec (st s t) Idle) as [Hs|Hs]; [rewrite (H3n t Hs) in Ho; discriminate|].
    assert (Ht : t < length p) by (specialize (H1 t Hs); lia). split; [exact Ht|].
    rewrite (H3 t Hs) in Ho. inversion Ho. now rewrite seq_inputs_nth.
  - intros Hd d. unfold all_done in Hd. apply andb_true_iff in Hd. destruct Hd as [_ Hd].
    rewrite forallb_done in Hd. rewrite seq_final. apply H4.
    + intros i Hi _. apply Hd. apply in_seq. lia.
    + intros i Hi Hw. exfalso. unfold task_at in Hw. rewrite nth_overflow in Hw by exact Hi. discriminate.
Qed.

(* ---- every task runs at most once ---- *)
Theorem runs_at_most_once es t : nruns (run es) t <= 1 /\ (nruns (run es) t = 1 <-> st (run es) t <> Idle).
Proof.
  destruct (inv_run es) as [_ _ _ _ _ _ H5]. rewrite H5. destruct (st (run es) t); cbn; split; try lia; split; congruence.
Qed.

(* ---- C04 ---- *)
Theorem running_exclusive es t1 t2 :
  st (run es) t1 = Running -> st (run es) t2 = Running -> t1 <> t2 -> ~ conflict (T t1) (T t2).
Proof.
  intros Hr1 Hr2 Hne Hc. pose proof (inv_run es) as HI.
  destruct (Nat.lt_total t1 t2) as [Hl|[He|Hg]]; [|contradiction|].
  - assert (st (run es) t1 = Done) by (apply (begun_after _ HI t2 t1); [congruence|exact Hl|exact Hc]). congruence.
  - assert (Hc' : conflict (T t2) (T t1)).
    { destruct Hc as (d & Ha & Hb & Hw). exists d. repeat split; auto. tauto. }
    assert (st (run es) t2 = Done) by (apply (begun_after _ HI t1 t2); [congruence|exact Hg|exact Hc']). congruence.
Qed.

Theorem begun_after_conflicts es t i :
  st (run es) t <> Idle -> i < t -> conflict (T i) (T t) -> st (run es) i = Done.
Proof. intros. eapply begun_after; eauto. apply inv_run. Qed.

(* the moment of Begin: it is enabled only when every earlier conflicting task has ended *)
Theorem begin_waits es t i :
  can_begin dep (run es) t = true -> i < t -> conflict (T i) (T t) -> st (run es) i = Done.
Proof.
  intros Hb Hi Hc. pose proof (inv_run es) as [H0 H1 H2 _ _ _ _].
  unfold can_begin in Hb. apply andb_true_iff in Hb. destruct Hb as [Hb Hd].
  apply andb_true_iff in Hb. destruct Hb as [Hlt _]. apply Nat.ltb_lt in Hlt. rewrite forallb_done in Hd.
  apply (path_done _ H2 i t); [|exact Hd]. apply Hcover; [lia|exact Hi|exact Hc].
Qed.

(* ---- progress: the engine is never stuck before every task is done ---- *)
Lemma least_not_done s : forall n, (exists t, t < n /\ st s t <> Done) ->
  exists t, t < n /\ st s t <> Done /\ forall j, j < t -> st s j = Done.
Proof.
  induction n as [|n IH]; intros (t & Ht & Hs); [lia|].
  destruct (prefix_done_dec s n) as [Hall|Hex].
  - exists n. split; [lia|]. split; [|exact Hall].
    destruct (Nat.eq_dec t n) as [->|Hne]; [exact Hs|]. rewrite Hall in Hs by lia. congruence.
  - destruct (IH Hex) as (u & Hu & Hsu & Hmin). exists u. split; [lia|]. now split.
Qed.

Lemma filter_all_true {A} (f : A -> bool) l : (forall x, In x l -> f x = true) -> filter f l = l.
Proof.
  induction l as [|x l IH]; intros H; cbn [filter]; [reflexivity|].
  rewrite (H x (or_introl eq_refl)). f_equal. apply IH. intros y Hy. apply H. now right.
Qed.
Lemma count_done_all s : (forall j, j < ins s -> st s j = Done) -> count_done s = ins s.
Proof.
  intros H. unfold count_done. rewrite filter_all_true.
  - apply seq_length.
  - intros j Hj. apply in_seq in Hj. apply is_done_iff. apply H. lia.
Qed.

Hypothesis Hgate : forall i, gate i i = true.    (* nothing pending: insertion is allowed *)

Theorem progress es : all_done p (run es) = false -> exists e, enabled p dep gate (run es) e = true.
Proof.
  intros Hnd. set (s := run es) in *. pose proof (inv_run es) as HI. fold s in HI.
  pose proof HI as [H0 H1 H2 _ _ _ _].
  destruct (prefix_done_dec s (ins s)) as [Hall|Hex].
  - (* every inserted task is done: the next one can be inserted *)
    exists Insert. cbn. unfold can_insert. rewrite (count_done_all s Hall), Hgate, andb_true_r.
    apply Nat.ltb_lt. destruct (Nat.eq_dec (ins s) (length p)) as [He|Hne]; [|lia].
    exfalso. unfold all_done in Hnd. rewrite He, Nat.eqb_refl in Hnd. cbn in Hnd.
    assert (forallb (fun j => is_done (st s j)) (seq 0 (length p)) = true); [|congruence].
    apply forallb_done. intros j Hj. apply in_seq in Hj. apply Hall. lia.
  - destruct (least_not_done s (ins s) Hex) as (t & Ht & Hs & Hmin).
    destruct (st s t) eqn:Est; [| |congruence].
    + exists (Begin t). cbn. unfold can_begin. rewrite Est. cbn.
      apply andb_true_iff. split; [apply andb_true_iff; split; [now apply Nat.ltb_lt|reflexivity]|].
      apply forallb_done. intros j Hj. apply Hmin. exact (Hback t j Hj).
    + exists (End t). cbn. unfold can_end. now rewrite Est.
Qed.

Corollary stuck_means_done es : (forall e, enabled p dep gate (run es) e = false) -> all_done p (run es) = true.
Proof.
  intros H. destruct (all_done p (run es)) eqn:E; [reflexivity|].
  destruct (progress es E) as (e & He). rewrite H in He. discriminate.
Qed.

(* ---- maximal concurrency: tasks whose dependencies are done can all be running ---- *)
Lemma begin_many : forall ts s, NoDup ts ->
  (forall t, In t ts -> t < ins s /\ st s t = Idle /\ forall j, In j (dep t) -> st s j = Done) ->
  let s' := fold_left step (map Begin ts) s in
  (forall t, In t ts -> st s' t = Running) /\ (forall x, ~ In x ts -> st s' x = st s x) /\ ins s' = ins s.
Proof.
  induction ts as [|t ts IH]; intros s Hnd H; cbn [map fold_left].
  - cbn. repeat split; intros; try reflexivity; contradiction.
  - inversion Hnd as [|? ? Hnt Hnd']; subst.
    destruct (H t (or_introl eq_refl)) as (Hlt & Hid & Hd).
    assert (Hcb : can_begin dep s t = true).
    { unfold can_begin. rewrite Hid. cbn. rewrite andb_true_r. apply andb_true_iff. split; [now apply Nat.ltb_lt|].
      now apply forallb_done. }
    assert (Hst : forall x, st (step s (Begin t)) x = fupd (st s) t Running x).
    { intros x. unfold DTDDefs.step. now rewrite Hcb. }
    assert (Hins : ins (step s (Begin t)) = ins s).
    { unfold DTDDefs.step. now rewrite Hcb. }
    destruct (IH (step s (Begin t)) Hnd') as (Ha & Hb & Hc).
    { intros u Hu. destruct (H u (or_intror Hu)) as (Hlu & Hiu & Hdu).
      assert (Hut : u <> t) by (intros ->; contradiction).
      rewrite Hins, Hst, fupd_other by exact Hut. repeat split; auto.
      intros j Hj. rewrite Hst. rewrite fupd_other; [now apply Hdu|]. intros ->. specialize (Hdu t Hj). congruence. }
    repeat split.
    + intros u [<-|Hu]; [|now apply Ha]. rewrite Hb by exact Hnt. rewrite Hst. apply fupd_same.
    + intros x Hx. rewrite Hb by (intros Hi; apply Hx; now right). rewrite Hst. apply fupd_other.
      intros ->. apply Hx. now left.
    + now rewrite Hc.
Qed.

Hypothesis Hsound : forall k j, In j (dep k) -> conflict (T j) (T k).

Theorem concurrent_set es ts : NoDup ts ->
  (forall t, In t ts -> t < ins (run es) /\ st (run es) t = Idle /\
                        forall i, i < t -> conflict (T i) (T t) -> st (run es) i = Done) ->
  forall t, In t ts -> st (run (es ++ map Begin ts)) t = Running.
Proof.
  intros Hnd H. unfold DTDDefs.run. rewrite fold_left_app.
  apply (begin_many ts (run es) Hnd). intros t Ht. destruct (H t Ht) as (Ha & Hb & Hc).
  split; [exact Ha|]. split; [exact Hb|].
  intros j Hj. apply Hc; [exact (Hback t j Hj)|exact (Hsound t j Hj)].
Qed.
End Engine.
