(* Facts about the sequential reference [seq_dtd]: it is the list of the inputs
   each task finds in the prefix memory, and the last prefix memory. *)
From PV Require Import Base.Tac DTD.DTDDefs.

Section Seq.
Variable body : tid -> list value -> value.
Notation prefix_mem := (prefix_mem body).
Notation seq_run := (seq_run body).

Lemma task_at_app (pre : prog) t p' : task_at (pre ++ t :: p') (length pre) = t.
Proof. unfold task_at. rewrite app_nth2 by lia. now rewrite Nat.sub_diag. Qed.

Lemma seq_run_spec p m0 : forall p' pre, p = pre ++ p' ->
  seq_run (length pre) p' (prefix_mem p m0 (length pre)) =
  (map (fun j => inputs (task_at p j) (prefix_mem p m0 j)) (seq (length pre) (length p')),
   prefix_mem p m0 (length pre + length p')).
Proof.
  induction p' as [|t p' IH]; intros pre Hp; cbn [DTDDefs.seq_run length seq map].
  - now rewrite Nat.add_0_r.
  - assert (Ht : task_at p (length pre) = t) by (subst p; apply task_at_app).
    specialize (IH (pre ++ [t])). rewrite app_length in IH. cbn [length] in IH.
    rewrite Nat.add_1_r in IH.
    assert (Hm : exec_task body (length pre) t (prefix_mem p m0 (length pre)) = prefix_mem p m0 (S (length pre))).
    { cbn [DTDDefs.prefix_mem]. now rewrite Ht. }
    rewrite Hm, IH by (rewrite <- app_assoc; exact Hp).
    cbn [fst snd]. rewrite Ht. f_equal. f_equal. lia.
Qed.

Lemma seq_dtd_spec p m0 :
  seq_dtd body p m0 =
  (map (fun j => inputs (task_at p j) (prefix_mem p m0 j)) (seq 0 (length p)), prefix_mem p m0 (length p)).
Proof. unfold seq_dtd. exact (seq_run_spec p m0 p [] eq_refl). Qed.

Lemma seq_inputs_nth p m0 t : t < length p ->
  nth t (fst (seq_dtd body p m0)) [] = inputs (task_at p t) (prefix_mem p m0 t).
Proof.
  intros Ht. rewrite seq_dtd_spec. cbn [fst].
  rewrite (nth_indep _ [] (inputs (task_at p 0) (prefix_mem p m0 0))) by (rewrite map_length, seq_length; exact Ht).
  rewrite (map_nth (fun j => inputs (task_at p j) (prefix_mem p m0 j))), seq_nth by exact Ht. reflexivity.
Qed.

Lemma seq_final p m0 : snd (seq_dtd body p m0) = prefix_mem p m0 (length p).
Proof. now rewrite seq_dtd_spec. Qed.

(* a datum keeps its value across tasks that do not write it *)
Lemma prefix_mem_stable p m0 d k : forall k', k <= k' ->
  (forall j, k <= j < k' -> writes (task_at p j) d = false) ->
  prefix_mem p m0 k' d = prefix_mem p m0 k d.
Proof.
  induction k' as [|k' IH]; intros Hle Hw.
  - now replace k with 0 by lia.
  - destruct (Nat.eq_dec k (S k')) as [->|Hne]; [reflexivity|].
    cbn [DTDDefs.prefix_mem]. unfold exec_task, write_back.
    rewrite (Hw k') by lia. apply IH; [lia|]. intros j Hj. apply Hw. lia.
Qed.

Lemma prefix_mem_written p m0 d k : writes (task_at p k) d = true ->
  prefix_mem p m0 (S k) d = body k (inputs (task_at p k) (prefix_mem p m0 k)).
Proof. intros Hw. cbn [DTDDefs.prefix_mem]. unfold exec_task, write_back. now rewrite Hw. Qed.

(* inputs depend only on the data the task reads *)
Lemma inputs_ext t m1 m2 : (forall d, touches t d = true -> m1 d = m2 d) -> inputs t m1 = inputs t m2.
Proof.
  intros H. unfold inputs. apply map_ext_in. intros a Ha. apply H.
  apply filter_In in Ha. destruct Ha as [Ha _]. unfold touches. apply existsb_exists.
  exists a. split; [exact Ha|]. apply Nat.eqb_refl.
Qed.
End Seq.
