(* The dependencies built by insertion ([deps_of]) are exactly the conflicts of
   the insertion order: every edge points backwards to a conflicting task
   ([deps_sound]) and every pair of conflicting tasks is connected by a path of
   edges ([chain_edges_complete]). *)
From PV Require Import Base.Tac DTD.DTDDefs.

(* i must have ended before k may begin, through a chain of dependencies *)
Inductive dpath (dep : tid -> list tid) : tid -> tid -> Prop :=
| dp_edge i k : In i (dep k) -> dpath dep i k
| dp_trans i j k : dpath dep i j -> In j (dep k) -> dpath dep i k.

(* ---- small facts on touches / writes ---- *)
Lemma writes_touches t d : writes t d = true -> touches t d = true.
Proof.
  unfold writes, touches. rewrite !existsb_exists. intros (a & Ha & Hb).
  exists a. split; [exact Ha|]. now apply andb_true_iff in Hb.
Qed.
Lemma touches_app t1 t2 d : touches (t1 ++ t2) d = touches t1 d || touches t2 d.
Proof. apply existsb_app. Qed.
Lemma writes_app t1 t2 d : writes (t1 ++ t2) d = writes t1 d || writes t2 d.
Proof. apply existsb_app. Qed.
Lemma touches_one a d : touches [a] d = Nat.eqb (fst a) d.
Proof. unfold touches. cbn. now rewrite orb_false_r. Qed.
Lemma writes_one a d : writes [a] d = Nat.eqb (fst a) d && is_write (snd a).
Proof. unfold writes. cbn. now rewrite orb_false_r. Qed.
Lemma in_others k l j : In j (others k l) <-> In j l /\ j <> k.
Proof.
  unfold others. rewrite filter_In. split; intros [H1 H2]; split; auto.
  - intros ->. now rewrite Nat.eqb_refl in H2.
  - apply negb_true_iff. now apply Nat.eqb_neq.
Qed.
Lemma in_opt_list o j : In j (opt_list o) <-> o = Some j.
Proof. destruct o as [x|]; cbn; split; intros H; try congruence; try tauto.
  - destruct H as [->|[]]. reflexivity.
  - left. congruence. Qed.

(* ---- what the flows of one task do to the chains ---- *)
Section Flows.
Variable k : tid.
Variable cs0 : cstate.

Record Mid (done : task) (cs : cstate) (ds : list tid) : Prop := {
  M1 : forall d, writes done d = true -> lw (cs d) = Some k /\ (forall j, In j (rds (cs d)) -> j = k);
  M2 : forall d, writes done d = false -> lw (cs d) = lw (cs0 d) /\
         (forall j, In j (rds (cs d)) <-> (j = k /\ touches done d = true) \/ In j (rds (cs0 d)));
  M3 : forall j, In j ds -> j <> k /\ exists d, touches done d = true /\
         ((In j (rds (cs0 d)) /\ writes done d = true) \/ lw (cs0 d) = Some j);
  M4 : forall d, touches done d = true -> forall w, lw (cs0 d) = Some w -> w <> k -> In w ds;
  M5 : forall d, writes done d = true -> forall j, In j (rds (cs0 d)) -> j <> k -> In j ds }.

Lemma mid_nil : Mid [] cs0 [].
Proof.
  constructor; cbn; try discriminate; try tauto.
  intros d _. split; [reflexivity|]. intros j. split; [tauto|]. intros [[_ H]|H]; [discriminate|exact H].
Qed.

Lemma cupd_same cs d c : cupd cs d c d = c.
Proof. unfold cupd. now rewrite Nat.eqb_refl. Qed.
Lemma cupd_other cs d c x : x <> d -> cupd cs d c x = cs x.
Proof. unfold cupd. intros H. apply Nat.eqb_neq in H. now rewrite H. Qed.

Lemma mid_step done cs ds a : Mid done cs ds ->
  Mid (done ++ [a]) (fst (acc_step k (cs, ds) a)) (snd (acc_step k (cs, ds) a)).
Proof.
  intros [H1 H2 H3 H4 H5]. destruct a as [d0 m].
  assert (Hto : forall d, touches (done ++ [(d0, m)]) d = touches done d || Nat.eqb d0 d).
  { intros d. now rewrite touches_app, touches_one. }
  assert (Hwr : forall d, writes (done ++ [(d0, m)]) d = writes done d || (Nat.eqb d0 d && is_write m)).
  { intros d. now rewrite writes_app, writes_one. }
  destruct (is_write m) eqn:Em.
  - (* write flow *)
    assert (Hstep : acc_step k (cs, ds) (d0, m) =
              (cupd cs d0 {| lw := Some k; rds := [] |}, ds ++ others k (rds (cs d0) ++ opt_list (lw (cs d0))))).
    { unfold acc_step. cbn [fst snd]. destruct m; [discriminate| |]; reflexivity. }
    rewrite Hstep. cbn [fst snd]. constructor.
    + intros d Hd. rewrite Hwr in Hd. destruct (Nat.eq_dec d0 d) as [<-|Hne].
      * rewrite cupd_same. cbn. split; [reflexivity|tauto].
      * rewrite cupd_other by congruence. apply Nat.eqb_neq in Hne. rewrite Hne in Hd. cbn in Hd.
        rewrite orb_false_r in Hd. now apply H1.
    + intros d Hd. rewrite Hwr in Hd. apply orb_false_iff in Hd. destruct Hd as [Hd Hd2].
      rewrite andb_true_r in Hd2. apply Nat.eqb_neq in Hd2.
      rewrite cupd_other by congruence. rewrite Hto. apply Nat.eqb_neq in Hd2. rewrite Hd2, orb_false_r.
      now apply H2.
    + intros j Hj. apply in_app_or in Hj. destruct Hj as [Hj|Hj].
      * destruct (H3 j Hj) as (Hne & d & Hd & Hc). split; [exact Hne|]. exists d. rewrite Hto, Hwr, Hd. cbn.
        split; [reflexivity|]. destruct Hc as [[Hc1 Hc2]|Hc]; [left|right; exact Hc]. rewrite Hc2. cbn. tauto.
      * apply in_others in Hj. destruct Hj as [Hj Hne]. split; [exact Hne|].
        exists d0. rewrite Hto, Hwr, !Nat.eqb_refl. rewrite !orb_true_r. split; [reflexivity|].
        destruct (writes done d0) eqn:Ew.
        -- destruct (H1 d0 Ew) as [Hl Hr]. apply in_app_or in Hj. destruct Hj as [Hj|Hj].
           ++ elim Hne. now apply Hr.
           ++ apply in_opt_list in Hj. congruence.
        -- destruct (H2 d0 Ew) as [Hl Hr]. apply in_app_or in Hj. destruct Hj as [Hj|Hj].
           ++ apply Hr in Hj. destruct Hj as [[Hj _]|Hj]; [congruence|]. left. split; [exact Hj|reflexivity].
           ++ apply in_opt_list in Hj. right. congruence.
    + intros d Hd w Hw Hne. rewrite Hto in Hd. apply in_or_app.
      destruct (touches done d) eqn:Et; [left; eapply H4; eauto|].
      cbn in Hd. apply Nat.eqb_eq in Hd. subst d0. right.
      assert (Ew : writes done d = false).
      { destruct (writes done d) eqn:E; [|reflexivity]. apply writes_touches in E. congruence. }
      destruct (H2 d Ew) as [Hl _]. apply in_others. split; [|exact Hne].
      apply in_or_app. right. apply in_opt_list. congruence.
    + intros d Hd j Hj Hne. rewrite Hwr in Hd. apply in_or_app.
      destruct (writes done d) eqn:Ew; [left; eapply H5; eauto|].
      cbn in Hd. apply andb_true_iff in Hd. destruct Hd as [Hd _]. apply Nat.eqb_eq in Hd. subst d0. right.
      destruct (H2 d Ew) as [_ Hr]. apply in_others. split; [|exact Hne].
      apply in_or_app. left. apply Hr. now right.
  - (* read flow *)
    assert (Hstep : acc_step k (cs, ds) (d0, m) =
              (cupd cs d0 {| lw := lw (cs d0); rds := k :: rds (cs d0) |}, ds ++ others k (opt_list (lw (cs d0))))).
    { unfold acc_step. cbn [fst snd]. destruct m; [reflexivity|discriminate|discriminate]. }
    rewrite Hstep. cbn [fst snd].
    assert (Hwr' : forall d, writes (done ++ [(d0, m)]) d = writes done d).
    { intros d. rewrite Hwr. now rewrite andb_false_r, orb_false_r. }
    constructor.
    + intros d Hd. rewrite Hwr' in Hd. destruct (H1 d Hd) as [Hl Hr]. destruct (Nat.eq_dec d0 d) as [<-|Hne].
      * rewrite cupd_same. cbn. split; [exact Hl|]. intros j [<-|Hj]; [reflexivity|now apply Hr].
      * rewrite cupd_other by congruence. now split.
    + intros d Hd. rewrite Hwr' in Hd. destruct (H2 d Hd) as [Hl Hr]. rewrite Hto.
      destruct (Nat.eq_dec d0 d) as [<-|Hne].
      * rewrite cupd_same, Nat.eqb_refl, orb_true_r. cbn. split; [exact Hl|]. intros j. rewrite Hr. intuition.
      * rewrite cupd_other by congruence. apply Nat.eqb_neq in Hne. rewrite Hne, orb_false_r. now split.
    + intros j Hj. apply in_app_or in Hj. destruct Hj as [Hj|Hj].
      * destruct (H3 j Hj) as (Hne & d & Hd & Hc). split; [exact Hne|]. exists d. rewrite Hto, Hwr', Hd. cbn.
        split; [reflexivity|exact Hc].
      * apply in_others in Hj. destruct Hj as [Hj Hne]. apply in_opt_list in Hj. split; [exact Hne|].
        exists d0. rewrite Hto, Nat.eqb_refl, orb_true_r. split; [reflexivity|]. right.
        destruct (writes done d0) eqn:Ew.
        -- destruct (H1 d0 Ew) as [Hl _]. congruence.
        -- destruct (H2 d0 Ew) as [Hl _]. congruence.
    + intros d Hd w Hw Hne. rewrite Hto in Hd. apply in_or_app.
      destruct (touches done d) eqn:Et; [left; eapply H4; eauto|].
      cbn in Hd. apply Nat.eqb_eq in Hd. subst d0. right.
      assert (Ew : writes done d = false).
      { destruct (writes done d) eqn:E; [|reflexivity]. apply writes_touches in E. congruence. }
      destruct (H2 d Ew) as [Hl _]. apply in_others. split; [|exact Hne]. apply in_opt_list. congruence.
    + intros d Hd j Hj Hne. rewrite Hwr' in Hd. apply in_or_app. left. eapply H5; eauto.
Qed.

Lemma mid_fold : forall rest done cs ds, Mid done cs ds ->
  Mid (done ++ rest) (fst (fold_left (acc_step k) rest (cs, ds))) (snd (fold_left (acc_step k) rest (cs, ds))).
Proof.
  induction rest as [|a rest IH]; intros done cs ds H; cbn [fold_left].
  - now rewrite app_nil_r.
  - replace (done ++ a :: rest) with ((done ++ [a]) ++ rest) by now rewrite <- app_assoc.
    pose proof (mid_step done cs ds a H) as Hs.
    destruct (acc_step k (cs, ds) a) as [cs' ds'] eqn:E. cbn [fst snd] in Hs. now apply IH.
Qed.

Lemma mid_insert t : Mid t (fst (insert_task k t cs0)) (snd (insert_task k t cs0)).
Proof. unfold insert_task. exact (mid_fold t [] cs0 [] mid_nil). Qed.
End Flows.

(* ---- invariant of the chains after the insertion of tasks 0 .. k-1 ---- *)
Section Chains.
Variable p : prog.
Notation accs j d := (touches (task_at p j) d = true).
Notation wr j d := (writes (task_at p j) d = true).

Record CI (k : nat) (cs : cstate) : Prop := {
  I1 : forall d w, lw (cs d) = Some w -> w < k /\ wr w d /\ (forall j, w < j < k -> writes (task_at p j) d = false);
  I2 : forall d, lw (cs d) = None -> forall j, j < k -> writes (task_at p j) d = false;
  I3 : forall d j, In j (rds (cs d)) -> j < k /\ accs j d /\ (forall w, lw (cs d) = Some w -> w <= j);
  I4 : forall d j, j < k -> accs j d -> In j (rds (cs d)) \/ (exists w, lw (cs d) = Some w /\ j <= w) }.

Lemma ci_init : CI 0 chain0.
Proof. constructor; cbn; intros; try discriminate; try lia; tauto. Qed.

Lemma ci_step k cs : CI k cs -> CI (S k) (fst (insert_task k (task_at p k) cs)).
Proof.
  intros [J1 J2 J3 J4]. pose proof (mid_insert k cs (task_at p k)) as [H1 H2 _ _ _].
  set (t := task_at p k) in *. set (cs' := fst (insert_task k t cs)) in *.
  constructor.
  - intros d w Hw. destruct (writes t d) eqn:Ew.
    + destruct (H1 d Ew) as [Hl _]. assert (w = k) by congruence. subst w.
      split; [lia|]. split; [exact Ew|]. intros j Hj. lia.
    + destruct (H2 d Ew) as [Hl _]. rewrite Hl in Hw. destruct (J1 d w Hw) as (Hlt & Hww & Hno).
      split; [lia|]. split; [exact Hww|]. intros j Hj. destruct (Nat.eq_dec j k) as [->|Hne]; [exact Ew|].
      apply Hno. lia.
  - intros d Hn j Hj. destruct (writes t d) eqn:Ew.
    + destruct (H1 d Ew) as [Hl _]. congruence.
    + destruct (H2 d Ew) as [Hl _]. rewrite Hl in Hn. destruct (Nat.eq_dec j k) as [->|Hne]; [exact Ew|].
      apply J2; [exact Hn|lia].
  - intros d j Hj. destruct (writes t d) eqn:Ew.
    + destruct (H1 d Ew) as [Hl Hr]. apply Hr in Hj. subst j. split; [lia|]. split; [now apply writes_touches|].
      intros w Hw. assert (w = k) by congruence. lia.
    + destruct (H2 d Ew) as [Hl Hr]. apply Hr in Hj. destruct Hj as [[-> Ht]|Hj].
      * split; [lia|]. split; [exact Ht|]. intros w Hw. rewrite Hl in Hw. destruct (J1 d w Hw) as (Hlt & _). lia.
      * destruct (J3 d j Hj) as (Hlt & Ha & Hle). split; [lia|]. split; [exact Ha|]. intros w Hw. apply Hle. congruence.
  - intros d j Hj Ha. destruct (writes t d) eqn:Ew.
    + destruct (H1 d Ew) as [Hl _]. right. exists k. split; [exact Hl|lia].
    + destruct (H2 d Ew) as [Hl Hr]. destruct (Nat.eq_dec j k) as [->|Hne].
      * left. apply Hr. left. split; [reflexivity|exact Ha].
      * destruct (J4 d j) as [Hin|(w & Hw & Hle)]; [lia|exact Ha| |].
        -- left. apply Hr. now right.
        -- right. exists w. split; [congruence|exact Hle].
Qed.

(* the k-th dependency list is what insert_task computes from the chains of tasks 0..k-1 *)
Lemma build_nth : forall p' pre cs, p = pre ++ p' -> CI (length pre) cs ->
  forall i, i < length p' ->
  exists cs0, CI (length pre + i) cs0 /\
    nth i (build (length pre) p' cs) [] = snd (insert_task (length pre + i) (task_at p (length pre + i)) cs0).
Proof.
  induction p' as [|t p' IH]; intros pre cs Hp Hci i Hi; [cbn in Hi; lia|].
  assert (Ht : task_at p (length pre) = t).
  { rewrite Hp. unfold task_at. rewrite app_nth2 by lia. now rewrite Nat.sub_diag. }
  cbn [build]. destruct i as [|i].
  - exists cs. rewrite Nat.add_0_r. split; [exact Hci|]. cbn [nth]. now rewrite Ht.
  - cbn [nth]. cbn [length] in Hi.
    destruct (IH (pre ++ [t]) (fst (insert_task (length pre) t cs))) with (i := i) as (cs0 & Hc & Hn).
    + now rewrite <- app_assoc.
    + rewrite app_length. cbn [length]. rewrite Nat.add_1_r. rewrite <- Ht. now apply ci_step.
    + lia.
    + rewrite app_length in Hc, Hn. cbn [length] in Hc, Hn.
      replace (length pre + 1 + i) with (length pre + S i) in Hc, Hn by lia.
      replace (length pre + 1) with (S (length pre)) in Hn by lia.
      exists cs0. split; [exact Hc|exact Hn].
Qed.

Lemma dep_fn_spec k : k < length p ->
  exists cs0, CI k cs0 /\ dep_fn p k = snd (insert_task k (task_at p k) cs0).
Proof.
  intros Hk. unfold dep_fn, deps_of.
  destruct (build_nth p [] chain0 eq_refl ci_init k Hk) as (cs0 & Hc & Hn).
  cbn [length] in Hc, Hn. rewrite Nat.add_0_l in Hc, Hn. eauto.
Qed.

Lemma build_length : forall p' k cs, length (build k p' cs) = length p'.
Proof. induction p' as [|t p' IH]; intros; cbn [build length]; [reflexivity|]. now rewrite IH. Qed.

Lemma dep_fn_out k : length p <= k -> dep_fn p k = [].
Proof. intros H. unfold dep_fn, deps_of. apply nth_overflow. now rewrite build_length. Qed.

(* every edge points backwards, to a task that conflicts *)
Theorem deps_sound k j : In j (dep_fn p k) -> j < k /\ conflict (task_at p j) (task_at p k).
Proof.
  intros Hj. destruct (Nat.lt_ge_cases k (length p)) as [Hk|Hk]; [|rewrite dep_fn_out in Hj by exact Hk; destruct Hj].
  destruct (dep_fn_spec k Hk) as (cs0 & [J1 _ J3 _] & Hd). rewrite Hd in Hj.
  pose proof (mid_insert k cs0 (task_at p k)) as [_ _ H3 _ _].
  destruct (H3 j Hj) as (Hne & d & Ht & [[Hr Hw]|Hl]).
  - destruct (J3 d j Hr) as (Hlt & Ha & _). split; [exact Hlt|]. exists d. repeat split; auto.
  - destruct (J1 d j Hl) as (Hlt & Hw & _). split; [exact Hlt|]. exists d. repeat split; auto.
    now apply writes_touches.
Qed.

(* every conflict of the insertion order is enforced by a path of edges *)
Theorem chain_edges_complete : forall k i, k < length p -> i < k ->
  conflict (task_at p i) (task_at p k) -> dpath (dep_fn p) i k.
Proof.
  induction k as [k IH] using lt_wf_ind. intros i Hk Hi (d & Hti & Htk & Hw).
  destruct (dep_fn_spec k Hk) as (cs0 & [J1 J2 J3 J4] & Hd).
  pose proof (mid_insert k cs0 (task_at p k)) as [_ _ _ H4 H5]. rewrite <- Hd in H4, H5.
  (* through the last writer w of d before k *)
  assert (Hvia : forall w, lw (cs0 d) = Some w -> i <= w -> dpath (dep_fn p) i k).
  { intros w Hw0 Hle. destruct (J1 d w Hw0) as (Hwk & Hww & _).
    assert (Hin : In w (dep_fn p k)) by (apply (H4 d Htk w Hw0); lia).
    destruct (Nat.eq_dec i w) as [->|Hne]; [now apply dp_edge|].
    apply dp_trans with w; [|exact Hin]. apply IH; try lia.
    exists d. repeat split; auto. now apply writes_touches. }
  destruct (writes (task_at p k) d) eqn:Ewk.
  - destruct (J4 d i Hi Hti) as [Hin|(w & Hw0 & Hle)]; [|now apply Hvia with w].
    apply dp_edge. apply (H5 d Ewk i Hin). lia.
  - destruct Hw as [Hwi|Hwk]; [|congruence].
    destruct (lw (cs0 d)) as [w|] eqn:El.
    + apply Hvia with w; [reflexivity|]. destruct (J1 d w El) as (_ & _ & Hno).
      destruct (Nat.le_gt_cases i w) as [Hle|Hgt]; [exact Hle|]. rewrite Hno in Hwi by lia. discriminate.
    + rewrite (J2 d El i Hi) in Hwi. discriminate.
Qed.
End Chains.
