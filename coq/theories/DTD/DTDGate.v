(* Flow-level model of the mechanism that realises "a writer waits for the readers
   since the last writer" in the DTD code, for sequences in which a task names a
   tile at most once:

   - tile->last_user (task ADDRESS, flow index, INPUT?, alive) and the flows chained
     behind the owner of the tile (DESC_OF pointers), parsec_insert_dtd_task;
   - the walk of a completing writer (parsec_dtd_ordering_correctly): the readers
     behind it are activated and counted (parsec_dtd_data_copy_reader_retain), up to and
     including the next writer; the tail is marked not alive; an access inserted on a
     chain that is not alive is activated at once;
   - data_lookup_of_dtd_task: a task begins when all its flows are activated and no
     copy it writes has readers (> 0: PARSEC_HOOK_RETURN_AGAIN);
   - task structs: allocated from a LIFO per task class (number of flows); a task
     without write flow returns its struct when it completes.

   [stale_fix = false] is the code as it is: in the "parent is not alive" branch
   `last_user.task == this_task` compares addresses, and a recycled struct is taken for
   an earlier read flow of the task being inserted, whose reader count is released.
   [stale_fix = true] adds the guard of notes/findings/C03-stale-last-user.patch.

   Simplifications: the fake first writer inserted before a first reader is taken as
   already complete; writer structs are never recycled; no window. *)
From Coq Require Import Arith List Bool ZArith.
From PV Require Import DTD.DTDDefs.
Import ListNotations.
Local Open Scope Z_scope.

Record tile := {
  t_lu    : option (nat * nat * bool);   (* last_user: address of the task, flow index, INPUT? *)
  t_alive : bool;                        (* last_user.alive *)
  t_chain : list tid;                    (* tasks whose flow on this tile is chained behind the owner, not yet activated *)
  t_rc    : Z }.                         (* data_copy->readers *)
Definition tile0 : tile := {| t_lu := None; t_alive := false; t_chain := []; t_rc := 0 |}.

Record gstate := {
  g_ins  : nat;
  g_st   : tid -> stat;
  g_act  : tid -> list datum;            (* data of the task whose flow is activated (data_in set, flow counted) *)
  g_tile : datum -> tile;
  g_addr : tid -> nat;
  g_free : nat -> list nat;              (* class (number of flows) -> freed structs, LIFO *)
  g_next : nat }.

Definition tupd (f : datum -> tile) (d : datum) (t : tile) : datum -> tile :=
  fun x => if Nat.eqb x d then t else f x.
Definition add_rc (f : datum -> tile) (d : datum) (z : Z) : datum -> tile :=
  let t := f d in tupd f d {| t_lu := t_lu t; t_alive := t_alive t; t_chain := t_chain t; t_rc := t_rc t + z |}.
Definition is_R (m : mode) : bool := match m with R => true | _ => false end.
Definition datum_of (t : task) (j : nat) : datum := fst (nth j t (0%nat, R)).
Definition mem_nat (x : nat) (l : list nat) : bool := existsb (Nat.eqb x) l.
(* access mode of a task on a datum (first flow naming it) *)
Definition mode_on (t : task) (d : datum) : mode :=
  match find (fun a => Nat.eqb (fst a) d) t with Some a => snd a | None => R end.

Section Gate.
Variable stale_fix : bool.
Variable p : prog.

(* one flow (index j, datum d, mode m) of task k whose struct is at address a *)
Definition ins_flow (k : tid) (a : nat) (tk : task) (s : (datum -> tile) * list datum) (jdm : nat * access)
  : (datum -> tile) * list datum :=
  let j := fst jdm in let d := fst (snd jdm) in let m := snd (snd jdm) in
  let tiles := fst s in let act := snd s in
  let T := tiles d in
  match t_lu T with
  | None =>
      (* first access of the tile: a reader gets the fake first writer, which completes and walks;
         a writer takes the copy of the collection *)
      (tupd tiles d {| t_lu := Some (a, j, is_R m); t_alive := negb (is_R m); t_chain := [];
                       t_rc := t_rc T + (if is_R m then 1 else 0) |}, d :: act)
  | Some (a', j', r') =>
      if t_alive T
      then (tupd tiles d {| t_lu := Some (a, j, is_R m); t_alive := true;
                            t_chain := t_chain T ++ [k]; t_rc := t_rc T |}, act)
      else
        (* "Have parent, but parent is not alive" *)
        let same := Nat.eqb a' a && (if stale_fix then (j' <? j)%nat && Nat.eqb (datum_of tk j') d else true) in
        let tiles1 := if same && r' && mem_nat (datum_of tk j') act then add_rc tiles (datum_of tk j') (-1) else tiles in
        let T1 := tiles1 d in
        (tupd tiles1 d {| t_lu := Some (a, j, is_R m); t_alive := negb (is_R m); t_chain := t_chain T1;
                          t_rc := t_rc T1 + (if is_R m then 1 else 0) |}, d :: act)
  end.

Fixpoint index_from {A} (i : nat) (l : list A) : list (nat * A) :=
  match l with [] => [] | x :: r => (i, x) :: index_from (S i) r end.

(* the walk of a completing writer over the flows chained behind it on tile d:
   (rest of the chain, readers activated, writer activated, tail reached) *)
Fixpoint walk (d : datum) (ch : list tid) : list tid * list tid * option tid * bool :=
  match ch with
  | [] => ([], [], None, true)                          (* tail reached: not alive any more *)
  | t :: r =>
      if is_R (mode_on (task_at p t) d)
      then let '(rest, rs, w, tail) := walk d r in (rest, t :: rs, w, tail)
      else (r, [], Some t, false)                        (* next owner found *)
  end.

Definition add_act (act : tid -> list datum) (d : datum) (l : list tid) : tid -> list datum :=
  fold_left (fun f t => fupd f t (d :: f t)) l act.

Definition end_flow (s : (datum -> tile) * (tid -> list datum)) (dm : access) :=
  let d := fst dm in
  let tiles := fst s in let T := tiles d in
  if is_R (snd dm) then (add_rc tiles d (-1), snd s)
  else
    let '(rest, rs, w, tail) := walk d (t_chain T) in
    (tupd tiles d {| t_lu := t_lu T; t_alive := if tail then false else t_alive T;
                     t_chain := rest; t_rc := t_rc T + Z.of_nat (length rs) |},
     add_act (snd s) d (rs ++ opt_list w)).

Definition has_write (t : task) : bool := existsb (fun a => is_write (snd a)) t.

Definition g_can_begin (s : gstate) (t : tid) : bool :=
  let tk := task_at p t in
  (t <? g_ins s)%nat && is_idle (g_st s t) && (length (g_act s t) =? length tk)%nat &&
  forallb (fun a => negb (is_write (snd a)) || (t_rc (g_tile s (fst a)) <=? 0)) tk.

Definition gstep (s : gstate) (e : event) : gstate :=
  match e with
  | Insert =>
      if (g_ins s <? length p)%nat then
        let k := g_ins s in let tk := task_at p k in let c := length tk in
        let afn := match g_free s c with
                   | x :: r => (x, fupd (g_free s) c r, g_next s)
                   | [] => (g_next s, g_free s, S (g_next s)) end in
        let r := fold_left (ins_flow k (fst (fst afn)) tk) (index_from 0 tk) (g_tile s, []) in
        {| g_ins := S k; g_st := g_st s; g_act := fupd (g_act s) k (snd r); g_tile := fst r;
           g_addr := fupd (g_addr s) k (fst (fst afn)); g_free := snd (fst afn); g_next := snd afn |}
      else s
  | Begin t =>
      if g_can_begin s t
      then {| g_ins := g_ins s; g_st := fupd (g_st s) t Running; g_act := g_act s; g_tile := g_tile s;
              g_addr := g_addr s; g_free := g_free s; g_next := g_next s |}
      else s
  | End t =>
      if is_running (g_st s t) then
        let tk := task_at p t in
        let r := fold_left end_flow tk (g_tile s, g_act s) in
        {| g_ins := g_ins s; g_st := fupd (g_st s) t Done; g_act := snd r; g_tile := fst r;
           g_addr := g_addr s;
           g_free := if has_write tk then g_free s
                     else fupd (g_free s) (length tk) (g_addr s t :: g_free s (length tk));
           g_next := g_next s |}
      else s
  end.

Definition ginit : gstate :=
  {| g_ins := 0; g_st := fun _ => Idle; g_act := fun _ => []; g_tile := fun _ => tile0;
     g_addr := fun _ => 0%nat; g_free := fun _ => []; g_next := 0 |}.
Definition grun (es : list event) : gstate := fold_left gstep es ginit.
End Gate.

(* the witness: T1 completes and is recycled as T2, whose flow on tile 0 finds the stale last user *)
Definition gate_witness_p : prog :=
  [[(0,RW);(1,RW)]; [(0,R);(1,R)]; [(2,RW);(0,R)]; [(2,R)]; [(2,R)]; [(2,RW)]]%nat.
Definition gate_witness_es : list event :=
  [Insert; Insert; Begin 0; End 0; Begin 1; End 1; Insert; Begin 2; End 2; Insert; Insert; Insert;
   Begin 3; Begin 4; Begin 5; End 3; Begin 5]%nat.
