(* The flow-level gate model with the guard of notes/findings/C03-stale-last-user.patch
   ([stale_fix = true]) refines the protocol engine: for every sequence in which no task
   names a tile twice and EVERY event list, a task begins only when every earlier
   conflicting task is done; hence every run of the gate model is a run of the engine of
   DTDDefs.v with "all earlier conflicting tasks" as dependencies, and the theorems of
   C03 / C04 transfer to the mechanism (reader counts, alive flag, chain walk). *)
From PV Require Import Base.Tac DTD.DTDDefs DTD.DTDSeq DTD.DTDChain DTD.DTDEngine DTD.DTDGate.
Local Open Scope nat_scope.

(* ---------- counting over 0..n-1 ---------- *)
Definition cnt (f : nat -> bool) (n : nat) : nat := length (filter f (seq 0 n)).
Lemma cnt_S f n : cnt f (S n) = cnt f n + (if f n then 1 else 0).
Proof. unfold cnt. rewrite seq_S, filter_app, app_length. cbn. destruct (f n); reflexivity. Qed.
Lemma cnt_ext f g n : (forall t, t < n -> f t = g t) -> cnt f n = cnt g n.
Proof.
  intros H. unfold cnt. f_equal. apply filter_ext_in. intros t Ht. apply in_seq in Ht. apply H. lia.
Qed.
Lemma cnt_flip_on f g n t : t < n -> f t = false -> g t = true -> (forall x, x <> t -> g x = f x) ->
  cnt g n = S (cnt f n).
Proof.
  induction n as [|n IH]; intros Ht Hf Hg Ho; [lia|]. rewrite !cnt_S.
  destruct (Nat.eq_dec t n) as [->|Hne].
  - rewrite Hf, Hg. rewrite (cnt_ext g f n); [lia|]. intros x Hx. apply Ho. lia.
  - rewrite (Ho n) by congruence. rewrite IH by (auto; lia). lia.
Qed.
Lemma cnt_flip_off f g n t : t < n -> f t = true -> g t = false -> (forall x, x <> t -> g x = f x) ->
  S (cnt g n) = cnt f n.
Proof. intros Ht Hf Hg Ho. symmetry. apply cnt_flip_on with t; auto. intros x Hx. symmetry. now apply Ho. Qed.
Lemma cnt_flip_many : forall rs f g n, NoDup rs -> (forall x, In x rs -> x < n /\ f x = false /\ g x = true) ->
  (forall x, ~ In x rs -> g x = f x) -> cnt g n = cnt f n + length rs.
Proof.
  induction rs as [|r rs IH]; intros f g n Hnd Hin Hout.
  - cbn. rewrite Nat.add_0_r. apply cnt_ext. intros t _. apply Hout. tauto.
  - inversion Hnd as [|? ? Hnr Hnd']; subst. cbn [length].
    set (h := fun x => if Nat.eqb x r then true else f x).
    destruct (Hin r (or_introl eq_refl)) as (Hrn & Hfr & Hgr).
    assert (Hh : cnt h n = S (cnt f n)).
    { apply cnt_flip_on with r; auto; unfold h.
      - now rewrite Nat.eqb_refl.
      - intros x Hx. apply Nat.eqb_neq in Hx. now rewrite Hx. }
    rewrite (IH h g n Hnd').
    + lia.
    + intros x Hx. destruct (Hin x (or_intror Hx)) as (Ha & Hb & Hc). repeat split; auto.
      unfold h. destruct (Nat.eqb x r) eqn:E; [apply Nat.eqb_eq in E; subst; contradiction|exact Hb].
    + intros x Hx. unfold h. destruct (Nat.eqb x r) eqn:E.
      * apply Nat.eqb_eq in E. subst. exact Hgr.
      * apply Hout. intros [->|Hi]; [now rewrite Nat.eqb_refl in E|contradiction].
Qed.

(* ---------- filters of seq are increasing ---------- *)
Lemma filter_seq_split f n l1 l2 a b : filter f (seq 0 n) = l1 ++ l2 -> In a l1 -> In b l2 -> a < b.
Proof.
  revert l1 l2. induction n as [|n IH]; intros l1 l2 H Ha Hb.
  - cbn in H. destruct l1; [destruct Ha|discriminate].
  - rewrite seq_S, filter_app in H. cbn in H. destruct (f n) eqn:E.
    + destruct (exists_last (l := l2)) as (l2' & x & ->).
      { intros ->. destruct Hb. }
      rewrite app_assoc in H. apply app_inj_tail in H. destruct H as [H <-].
      apply in_app_or in Hb. destruct Hb as [Hb|[<-|[]]].
      * now apply (IH l1 l2').
      * assert (In a (filter f (seq 0 n))) by (rewrite H; apply in_or_app; now left).
        apply filter_In in H0. destruct H0 as [H0 _]. apply in_seq in H0. lia.
    + rewrite app_nil_r in H. now apply (IH l1 l2).
Qed.
Lemma filter_seq_NoDup f n : NoDup (filter f (seq 0 n)).
Proof. apply NoDup_filter. apply seq_NoDup. Qed.
Lemma filter_filter {A} (f g : A -> bool) l : filter g (filter f l) = filter (fun x => f x && g x) l.
Proof. induction l as [|x l IH]; [reflexivity|]. cbn. destruct (f x); cbn; [destruct (g x)|]; now rewrite IH. Qed.
Lemma filter_nil_all {A} (f : A -> bool) l : filter f l = [] -> forall x, In x l -> f x = false.
Proof.
  induction l as [|y l IH]; intros H x Hx; [destruct Hx|]. cbn in H. destruct (f y) eqn:E; [discriminate|].
  destruct Hx as [<-|Hx]; auto.
Qed.
Lemma filter_none {A} (f : A -> bool) l : (forall x, In x l -> f x = false) -> filter f l = [].
Proof. induction l as [|y l IH]; intros H; [reflexivity|]. cbn. rewrite (H y (or_introl eq_refl)). apply IH. intros; apply H; now right. Qed.

(* ---------- tasks that name a tile at most once ---------- *)
Definition norep (p : prog) : Prop := forall k, NoDup (map fst (task_at p k)).
Lemma mem_nat_iff x l : mem_nat x l = true <-> In x l.
Proof. unfold mem_nat. rewrite existsb_exists. split.
  - intros (y & Hy & E). apply Nat.eqb_eq in E. now subst.
  - intros H. exists x. split; [exact H|apply Nat.eqb_refl]. Qed.
Lemma touches_iff t d : touches t d = true <-> In d (map fst t).
Proof. unfold touches. rewrite existsb_exists, in_map_iff. split.
  - intros (a & Ha & E). apply Nat.eqb_eq in E. eauto.
  - intros (a & E & Ha). exists a. split; [exact Ha|]. now apply Nat.eqb_eq. Qed.
Lemma mode_on_in t d m : NoDup (map fst t) -> In (d, m) t -> mode_on t d = m.
Proof.
  unfold mode_on. induction t as [|a t IH]; intros Hnd Hin; [destruct Hin|].
  cbn [find]. cbv beta. inversion Hnd as [|? ? Hn Hnd']; subst. destruct Hin as [->|Hin].
  - cbn. now rewrite Nat.eqb_refl.
  - match goal with |- context[if ?b then _ else _] => destruct b eqn:E end.
    + apply Nat.eqb_eq in E. exfalso. apply Hn. apply in_map_iff. exists (d, m). split; [cbn; symmetry; exact E|exact Hin].
    + now apply IH.
Qed.
Lemma writes_mode t d : NoDup (map fst t) -> writes t d = touches t d && negb (is_R (mode_on t d)).
Proof.
  intros Hnd. destruct (touches t d) eqn:Et; cbn.
  - apply touches_iff in Et. apply in_map_iff in Et. destruct Et as ((d', m) & E & Hin). cbn in E. subst d'.
    rewrite (mode_on_in t d m Hnd Hin). unfold writes. destruct m; cbn.
    + apply not_true_is_false. intros H. apply existsb_exists in H. destruct H as ((d2, m2) & H2 & E2).
      apply andb_true_iff in E2. destruct E2 as [E2 E3]. apply Nat.eqb_eq in E2. cbn in E2. subst d2.
      rewrite <- (mode_on_in t d m2 Hnd H2), (mode_on_in t d R Hnd Hin) in E3. discriminate.
    + apply existsb_exists. exists (d, W). split; [exact Hin|]. cbn. now rewrite Nat.eqb_refl.
    + apply existsb_exists. exists (d, RW). split; [exact Hin|]. cbn. now rewrite Nat.eqb_refl.
  - destruct (writes t d) eqn:Ew; [|reflexivity]. apply writes_touches in Ew. congruence.
Qed.

(* ---------- one flow at insertion, with the guard: the stale branch is dead ---------- *)
Local Open Scope Z_scope.
Definition flowF (k a j : nat) (m : mode) (T : tile) : tile * bool :=
  match t_lu T with
  | None => ({| t_lu := Some (a, j, is_R m); t_alive := negb (is_R m); t_chain := [];
                t_rc := t_rc T + (if is_R m then 1 else 0) |}, true)
  | Some _ =>
      if t_alive T
      then ({| t_lu := Some (a, j, is_R m); t_alive := true; t_chain := t_chain T ++ [k]; t_rc := t_rc T |}, false)
      else ({| t_lu := Some (a, j, is_R m); t_alive := negb (is_R m); t_chain := t_chain T;
               t_rc := t_rc T + (if is_R m then 1 else 0) |}, true)
  end.
Local Open Scope nat_scope.

Lemma tupd_same f d t : tupd f d t d = t.
Proof. unfold tupd. now rewrite Nat.eqb_refl. Qed.
Lemma tupd_other f d t x : x <> d -> tupd f d t x = f x.
Proof. unfold tupd. intros H. apply Nat.eqb_neq in H. now rewrite H. Qed.

Lemma nth_error_datum tk j d m : nth_error tk j = Some (d, m) -> datum_of tk j = d /\ j < length tk.
Proof.
  intros H. split.
  - unfold datum_of. rewrite (nth_error_nth tk j _ H). reflexivity.
  - apply nth_error_Some. congruence.
Qed.

Lemma ins_flow_fixed k a tk tiles act j d m : NoDup (map fst tk) -> nth_error tk j = Some (d, m) ->
  ins_flow true k a tk (tiles, act) (j, (d, m)) =
  (tupd tiles d (fst (flowF k a j m (tiles d))), if snd (flowF k a j m (tiles d)) then d :: act else act).
Proof.
  intros Hnd Hj. unfold ins_flow, flowF. cbn [fst snd].
  destruct (t_lu (tiles d)) as [[[a' j'] r']|]; [|reflexivity].
  destruct (t_alive (tiles d)); [reflexivity|].
  assert (Hs : Nat.eqb a' a && ((j' <? j) && Nat.eqb (datum_of tk j') d) = false).
  { destruct (Nat.eqb a' a); [|reflexivity]. rewrite andb_true_l. destruct (j' <? j) eqn:Elt; [|reflexivity].
    rewrite andb_true_l. apply Nat.ltb_lt in Elt. apply Nat.eqb_neq. intros Hd.
    destruct (nth_error_datum tk j d m Hj) as [Hdj Hlt].
    assert (Hnth : nth j' (map fst tk) 0 = nth j (map fst tk) 0).
    { change 0 with (fst (0, R)). rewrite !map_nth. unfold datum_of in Hd, Hdj.
      transitivity d; [exact Hd|symmetry; exact Hdj]. }
    rewrite NoDup_nth in Hnd. specialize (Hnd j' j). rewrite map_length in Hnd.
    specialize (Hnd ltac:(lia) Hlt Hnth). lia. }
  rewrite Hs. cbn. reflexivity.
Qed.

Lemma index_from_nth {A} (l : list A) : forall i0 i x, nth_error l i = Some x -> In (i0 + i, x) (index_from i0 l).
Proof.
  induction l as [|y l IH]; intros i0 i x H; [destruct i; discriminate|].
  destruct i as [|i]; cbn in H.
  - inversion H; subst. cbn. left. f_equal. lia.
  - cbn. right. replace (i0 + S i) with (S i0 + i) by lia. now apply IH.
Qed.

(* the whole insertion of task k (flows [rest], first index i0) *)
Lemma ins_fold k a tk : NoDup (map fst tk) -> forall rest i0 tiles act,
  (forall i x, nth_error rest i = Some x -> nth_error tk (i0 + i) = Some x) ->
  NoDup (map fst rest) ->
  let r := fold_left (ins_flow true k a tk) (index_from i0 rest) (tiles, act) in
  (forall d, ~ In d (map fst rest) -> fst r d = tiles d) /\
  (forall i d m, nth_error rest i = Some (d, m) -> fst r d = fst (flowF k a (i0 + i) m (tiles d))) /\
  (forall d, In d (snd r) <-> In d act \/
       exists i m, nth_error rest i = Some (d, m) /\ snd (flowF k a (i0 + i) m (tiles d)) = true) /\
  (NoDup act -> (forall d, In d act -> ~ In d (map fst rest)) -> NoDup (snd r)).
Proof.
  intros Hnd. induction rest as [|[d0 m0] rest IH]; intros i0 tiles act Hsub Hnr; cbn [index_from fold_left].
  - cbn. repeat split; auto.
    + intros i d m H. destruct i; discriminate.
    + intros [H|(i & m & H & _)]; [exact H|destruct i; discriminate].
  - assert (H0 : nth_error tk i0 = Some (d0, m0)).
    { specialize (Hsub 0 (d0, m0) eq_refl). now rewrite Nat.add_0_r in Hsub. }
    rewrite (ins_flow_fixed k a tk tiles act i0 d0 m0 Hnd H0).
    set (tiles1 := tupd tiles d0 (fst (flowF k a i0 m0 (tiles d0)))).
    set (act1 := if snd (flowF k a i0 m0 (tiles d0)) then d0 :: act else act).
    cbn [map fst] in Hnr. inversion Hnr as [|? ? Hn0 Hnr']; subst.
    destruct (IH (S i0) tiles1 act1) as (Ha & Hb & Hc & Hd); [|exact Hnr'|].
    { intros i x Hx. replace (S i0 + i) with (i0 + S i) by lia. now apply Hsub. }
    assert (Ht1 : forall d, d <> d0 -> tiles1 d = tiles d) by (intros d Hd'; unfold tiles1; now apply tupd_other).
    repeat split.
    + intros d Hd'. rewrite Ha; [apply Ht1; intros ->; apply Hd'; now left|intros H; apply Hd'; now right].
    + intros i d m Hi. destruct i as [|i]; cbn in Hi.
      * inversion Hi; subst. rewrite Ha by exact Hn0. unfold tiles1. rewrite tupd_same. now rewrite Nat.add_0_r.
      * rewrite (Hb i d m Hi). replace (S i0 + i) with (i0 + S i) by lia.
        rewrite Ht1; [reflexivity|]. intros ->. apply Hn0. apply in_map_iff. exists (d0, m).
        split; [reflexivity|]. now apply nth_error_In with i.
    + intros Hin. apply Hc in Hin. destruct Hin as [Hin|(i & m & Hi & Hs)].
      * unfold act1 in Hin. destruct (snd (flowF k a i0 m0 (tiles d0))) eqn:E; [|now left].
        destruct Hin as [<-|Hin]; [|now left]. right. exists 0, m0. rewrite Nat.add_0_r. now split.
      * right. exists (S i), m. cbn. split; [exact Hi|]. replace (i0 + S i) with (S i0 + i) by lia.
        rewrite <- Ht1; [exact Hs|]. intros ->. apply Hn0. apply in_map_iff. exists (d0, m).
        split; [reflexivity|]. now apply nth_error_In with i.
    + intros [Hin|(i & m & Hi & Hs)]; apply Hc.
      * left. unfold act1. destruct (snd (flowF k a i0 m0 (tiles d0))); [now right|exact Hin].
      * destruct i as [|i]; cbn in Hi.
        -- inversion Hi; subst. rewrite Nat.add_0_r in Hs. left. unfold act1. rewrite Hs. now left.
        -- right. exists i, m. split; [exact Hi|]. replace (S i0 + i) with (i0 + S i) by lia.
           rewrite Ht1; [exact Hs|]. intros ->. apply Hn0. apply in_map_iff. exists (d0, m).
           split; [reflexivity|]. now apply nth_error_In with i.
    + intros Hna Hdis. apply Hd.
      * unfold act1. destruct (snd (flowF k a i0 m0 (tiles d0))); [|exact Hna].
        constructor; [|exact Hna]. intros Hin. apply (Hdis d0 Hin). now left.
      * intros d Hin. unfold act1 in Hin. destruct (snd (flowF k a i0 m0 (tiles d0))).
        -- destruct Hin as [<-|Hin]; [exact Hn0|]. intros H. apply (Hdis d Hin). now right.
        -- intros H. apply (Hdis d Hin). now right.
Qed.

(* ---------- the walk and the activations it makes ---------- *)
Section Walk.
Variable p : prog.
Lemma walk_spec d : forall ch rest rs w tail, walk p d ch = (rest, rs, w, tail) ->
  ch = rs ++ opt_list w ++ rest /\
  (forall x, In x rs -> is_R (mode_on (task_at p x) d) = true) /\
  (forall x, w = Some x -> is_R (mode_on (task_at p x) d) = false) /\
  (tail = true <-> w = None) /\ (w = None -> rest = []).
Proof.
  induction ch as [|t ch IH]; intros rest rs w tail H; cbn [walk] in H.
  - inversion H; subst. cbn. repeat split; auto; try discriminate; tauto.
  - destruct (is_R (mode_on (task_at p t) d)) eqn:E.
    + destruct (walk p d ch) as [[[rest' rs'] w'] tail'] eqn:Ew. inversion H; subst.
      destruct (IH rest rs' w tail eq_refl) as (H1 & H2 & H3 & H4 & H5).
      repeat split; auto.
      * cbn. now rewrite H1.
      * intros x [<-|Hx]; auto.
      * apply H4.
      * apply H4.
    + inversion H; subst. cbn. repeat split; auto; try discriminate; try tauto.
      * intros x Hx. inversion Hx; subst. exact E.
Qed.
End Walk.

Lemma add_act_in d : forall l act x d', In d' (add_act act d l x) <-> In d' (act x) \/ (d' = d /\ In x l).
Proof.
  induction l as [|t l IH]; intros act x d'; unfold add_act; cbn [fold_left].
  - cbn. tauto.
  - fold (add_act (fupd act t (d :: act t)) d l). rewrite IH. unfold fupd.
    destruct (Nat.eqb x t) eqn:E.
    + apply Nat.eqb_eq in E. subst. cbn. split; intros H; intuition (subst; auto).
    + apply Nat.eqb_neq in E. cbn. split; intros H; intuition (subst; auto). congruence.
Qed.
Lemma add_act_nodup d : forall l act x, NoDup l -> NoDup (act x) -> (In x l -> ~ In d (act x)) ->
  NoDup (add_act act d l x).
Proof.
  induction l as [|t l IH]; intros act x Hl Ha Hn; unfold add_act; cbn [fold_left]; [exact Ha|].
  fold (add_act (fupd act t (d :: act t)) d l). inversion Hl as [|? ? Hnt Hl']; subst.
  apply IH; [exact Hl'| |]; unfold fupd; destruct (Nat.eqb x t) eqn:E.
  - apply Nat.eqb_eq in E. subst. constructor; [|exact Ha]. apply Hn. now left.
  - exact Ha.
  - apply Nat.eqb_eq in E. subst. intros Hx. contradiction.
  - intros Hx. apply Hn. now right.
Qed.

(* ---------- the completion of a task: one flow, then all flows ---------- *)
Local Open Scope Z_scope.
Definition walked (p : prog) (d : datum) (T : tile) : tile * list tid :=
  let '(rst, rs, w, tail) := walk p d (t_chain T) in
  ({| t_lu := t_lu T; t_alive := if tail then false else t_alive T; t_chain := rst;
      t_rc := t_rc T + Z.of_nat (length rs) |}, rs ++ opt_list w).
Definition unread (T : tile) : tile :=
  {| t_lu := t_lu T; t_alive := t_alive T; t_chain := t_chain T; t_rc := t_rc T + (-1) |}.
Local Open Scope nat_scope.

Lemma end_flow_eq p tiles act d m :
  end_flow p (tiles, act) (d, m) =
  if is_R m then (tupd tiles d (unread (tiles d)), act)
  else (tupd tiles d (fst (walked p d (tiles d))), add_act act d (snd (walked p d (tiles d)))).
Proof.
  unfold end_flow, walked, add_rc, unread. cbn [fst snd]. destruct (is_R m); [reflexivity|].
  destruct (walk p d (t_chain (tiles d))) as [[[rst rs] w] tail]. reflexivity.
Qed.

Lemma end_fold p : forall rest tiles act, NoDup (map fst rest) ->
  let r := fold_left (end_flow p) rest (tiles, act) in
  (forall d, ~ In d (map fst rest) -> fst r d = tiles d /\ forall x, In d (snd r x) <-> In d (act x)) /\
  (forall d m, In (d, m) rest -> is_R m = true ->
      fst r d = unread (tiles d) /\ forall x, In d (snd r x) <-> In d (act x)) /\
  (forall d m, In (d, m) rest -> is_R m = false ->
      fst r d = fst (walked p d (tiles d)) /\
      forall x, In d (snd r x) <-> In d (act x) \/ In x (snd (walked p d (tiles d)))) /\
  ((forall x, NoDup (act x)) ->
   (forall d m, In (d, m) rest -> is_R m = false ->
      NoDup (snd (walked p d (tiles d))) /\ forall x, In x (snd (walked p d (tiles d))) -> ~ In d (act x)) ->
   forall x, NoDup (snd r x)).
Proof.
  induction rest as [|[d0 m0] rest IH]; intros tiles act Hnd; cbn [fold_left].
  - cbn. repeat split; try tauto; intros; try contradiction; auto.
  - cbn [map fst] in Hnd. inversion Hnd as [|? ? Hn0 Hnd']; subst.
    rewrite end_flow_eq.
    set (tiles1 := tupd tiles d0 (if is_R m0 then unread (tiles d0) else fst (walked p d0 (tiles d0)))).
    set (act1 := if is_R m0 then act else add_act act d0 (snd (walked p d0 (tiles d0)))).
    assert (Heq : (if is_R m0 then (tupd tiles d0 (unread (tiles d0)), act)
                   else (tupd tiles d0 (fst (walked p d0 (tiles d0))), add_act act d0 (snd (walked p d0 (tiles d0)))))
                  = (tiles1, act1)) by (unfold tiles1, act1; destruct (is_R m0); reflexivity).
    rewrite Heq. destruct (IH tiles1 act1 Hnd') as (Ha & Hb & Hc & Hd).
    assert (Ht1 : forall d, d <> d0 -> tiles1 d = tiles d) by (intros d Hd'; unfold tiles1; now apply tupd_other).
    assert (Ha1 : forall d x, d <> d0 -> (In d (act1 x) <-> In d (act x))).
    { intros d x Hd'. unfold act1. destruct (is_R m0); [tauto|]. rewrite add_act_in. intuition congruence. }
    assert (Hin0 : forall d m, In (d, m) rest -> d <> d0).
    { intros d m Hin ->. apply Hn0. apply in_map_iff. exists (d0, m). auto. }
    split; [|split; [|split]].
    + intros d Hnin.
      assert (Hd0 : d <> d0) by (intros ->; apply Hnin; now left).
      assert (Hdr : ~ In d (map fst rest)) by (intros H'; apply Hnin; now right).
      destruct (Ha d Hdr) as [Ha1' Ha2']. split; [rewrite Ha1'; now apply Ht1|].
      intros x. rewrite Ha2'. now apply Ha1.
    + intros d m [E|Hin] Hm.
      * inversion E; subst. destruct (Ha d Hn0) as [Ha1' Ha2']. split.
        -- rewrite Ha1'. unfold tiles1. now rewrite tupd_same, Hm.
        -- intros x. rewrite Ha2'. unfold act1. rewrite Hm. tauto.
      * assert (Hd0 : d <> d0) by (eapply Hin0; eauto).
        destruct (Hb d m Hin Hm) as [Hb1 Hb2]. split; [rewrite Hb1; now rewrite Ht1|].
        intros x. rewrite Hb2. now apply Ha1.
    + intros d m [E|Hin] Hm.
      * inversion E; subst. destruct (Ha d Hn0) as [Ha1' Ha2']. split.
        -- rewrite Ha1'. unfold tiles1. now rewrite tupd_same, Hm.
        -- intros x. rewrite Ha2'. unfold act1. rewrite Hm. rewrite add_act_in. intuition.
      * assert (Hd0 : d <> d0) by (eapply Hin0; eauto).
        destruct (Hc d m Hin Hm) as [Hc1 Hc2]. split; [rewrite Hc1; now rewrite Ht1|].
        intros x. rewrite Hc2. rewrite Ht1 by exact Hd0. rewrite (Ha1 d x Hd0). tauto.
    + intros Hna Hw x. apply Hd.
      * intros y. unfold act1. destruct (is_R m0) eqn:E0; [apply Hna|].
        destruct (Hw d0 m0 (or_introl eq_refl) E0) as [Hn1 Hn2].
        apply add_act_nodup; [exact Hn1|apply Hna|apply Hn2].
      * intros d m Hin Hm. assert (Hd0 : d <> d0) by (eapply Hin0; eauto). rewrite Ht1 by exact Hd0.
        destruct (Hw d m (or_intror Hin) Hm) as [Hn1 Hn2]. split; [exact Hn1|].
        intros y Hy Hiy. apply (Hn2 y Hy). now apply (Ha1 d y Hd0).
Qed.

(* ---------- the invariant ---------- *)
Section Inv.
Variable p : prog.
Hypothesis Hnr : norep p.
Notation T t := (task_at p t).
Definition tch (t : nat) (d : datum) : bool := touches (T t) d.
Definition rdo (t : nat) (d : datum) : bool := tch t d && is_R (mode_on (T t) d).
Definition wrt (t : nat) (d : datum) : bool := tch t d && negb (is_R (mode_on (T t) d)).
Definition actd (s : gstate) (t : nat) (d : datum) : bool := mem_nat d (g_act s t).
Definition rcf (s : gstate) (d : datum) (t : nat) : bool :=
  rdo t d && actd s t d && negb (is_done (g_st s t)).
Definition chf (s : gstate) (d : datum) (t : nat) : bool := tch t d && negb (actd s t d).

Record GI (s : gstate) : Prop := {
  I0 : g_ins s <= length p;
  I1 : forall t, g_st s t <> Idle -> t < g_ins s;
  I2 : forall t d, actd s t d = true -> t < g_ins s /\ tch t d = true;
  I2n : forall t, NoDup (g_act s t);
  I3 : forall t, g_st s t <> Idle -> forall d, tch t d = true -> actd s t d = true;
  IP : forall d t1 t2, t1 < t2 -> t2 < g_ins s -> tch t1 d = true -> tch t2 d = true ->
         actd s t2 d = true -> actd s t1 d = true;
  IAFT : forall d w x, w < x -> wrt w d = true -> tch x d = true -> actd s x d = true -> g_st s w = Done;
  IRC : forall d, t_rc (g_tile s d) = Z.of_nat (cnt (rcf s d) (g_ins s));
  ICH : forall d, t_chain (g_tile s d) = filter (chf s d) (seq 0 (g_ins s));
  IAL : forall d, t_alive (g_tile s d) = false ->
          t_chain (g_tile s d) = [] /\ forall w, w < g_ins s -> wrt w d = true -> g_st s w = Done;
  ILU : forall d, t_lu (g_tile s d) = None -> forall t, t < g_ins s -> tch t d = false;
  ISAFE : forall t i, g_st s t <> Idle -> i < t -> conflict (T i) (T t) -> g_st s i = Done }.

Lemma writes_wrt t d : writes (T t) d = wrt t d.
Proof. unfold wrt, tch. apply writes_mode. apply Hnr. Qed.
Lemma tch_not_wrt_rdo t d : tch t d = true -> wrt t d = false -> rdo t d = true.
Proof. unfold wrt, rdo. intros ->. cbn. now destruct (is_R (mode_on (T t) d)). Qed.

Lemma gi_init : GI ginit.
Proof.
  constructor; cbn; intros; try congruence; try lia; try discriminate.
  - constructor.
  - reflexivity.
  - split; [reflexivity|intros; lia].
Qed.

Lemma cnt_zero f n : cnt f n = 0 -> forall t, t < n -> f t = false.
Proof.
  unfold cnt. intros H t Ht. apply length_zero_iff_nil in H.
  apply (filter_nil_all f _ H). apply in_seq. lia.
Qed.

(* all flows activated <- the count of activated data equals the number of flows *)
Lemma all_activated s t : GI s -> length (g_act s t) = length (T t) ->
  forall d, tch t d = true -> actd s t d = true.
Proof.
  intros G Hl d Hd. apply mem_nat_iff. apply touches_iff in Hd.
  assert (Hincl : incl (map fst (T t)) (g_act s t)); [|now apply Hincl].
  apply NoDup_length_incl; [apply (I2n s G t)|rewrite map_length, Hl; apply le_n|].
  intros x Hx. apply mem_nat_iff in Hx. destruct (I2 s G t x Hx) as [_ Hx2]. now apply touches_iff.
Qed.

Lemma gi_begin s t : GI s -> g_can_begin p s t = true ->
  GI {| g_ins := g_ins s; g_st := fupd (g_st s) t Running; g_act := g_act s; g_tile := g_tile s;
        g_addr := g_addr s; g_free := g_free s; g_next := g_next s |}.
Proof.
  intros G Hb. unfold g_can_begin in Hb.
  apply andb_true_iff in Hb. destruct Hb as [Hb Hrc]. apply andb_true_iff in Hb. destruct Hb as [Hb Hlen].
  apply andb_true_iff in Hb. destruct Hb as [Hlt Hidle].
  apply Nat.ltb_lt in Hlt. apply is_idle_iff in Hidle. apply Nat.eqb_eq in Hlen.
  pose proof (all_activated s t G Hlen) as Hall.
  (* every earlier conflicting task is done *)
  assert (Hsafe : forall i, i < t -> conflict (T i) (T t) -> g_st s i = Done).
  { intros i Hi (d & Hti & Htt & Hw).
    destruct (wrt i d) eqn:Ewi.
    - apply (IAFT s G d i t Hi Ewi Htt). now apply Hall.
    - destruct Hw as [Hw|Hw]; [rewrite writes_wrt in Hw; congruence|].
      (* t writes d: no reader is counted on d *)
      assert (Hrd : rdo i d = true) by (now apply tch_not_wrt_rdo).
      assert (Hz : (t_rc (g_tile s d) <= 0)%Z).
      { unfold writes in Hw. apply existsb_exists in Hw. destruct Hw as ([da ma] & Ha & Hw).
        apply andb_true_iff in Hw. destruct Hw as [Hw1 Hw2]. apply Nat.eqb_eq in Hw1. cbn in Hw1, Hw2. subst da.
        rewrite forallb_forall in Hrc. specialize (Hrc (d, ma) Ha). cbn in Hrc. rewrite Hw2 in Hrc. cbn in Hrc.
        now apply Z.leb_le. }
      rewrite (IRC s G d) in Hz. assert (Hc0 : cnt (rcf s d) (g_ins s) = 0) by lia.
      pose proof (cnt_zero _ _ Hc0 i ltac:(lia)) as Hf. unfold rcf in Hf. rewrite Hrd in Hf.
      rewrite (IP s G d i t Hi Hlt Hti Htt (Hall d Htt)) in Hf. cbn in Hf.
      apply negb_false_iff in Hf. now apply is_done_iff. }
  assert (Hst : forall x, x <> t -> fupd (g_st s) t Running x = g_st s x) by (intros; now apply fupd_other).
  assert (Hdone : forall x, is_done (fupd (g_st s) t Running x) = is_done (g_st s x)).
  { intros x. destruct (Nat.eq_dec x t) as [->|Hne]; [rewrite fupd_same, Hidle; reflexivity|now rewrite Hst]. }
  assert (HD : forall x, g_st s x = Done -> fupd (g_st s) t Running x = Done).
  { intros x Hx. rewrite Hst; [exact Hx|]. intros ->. congruence. }
  constructor; cbn [g_ins g_st g_act g_tile].
  - apply (I0 s G).
  - intros x Hx. destruct (Nat.eq_dec x t) as [->|Hne]; [exact Hlt|]. rewrite Hst in Hx by exact Hne. now apply (I1 s G).
  - apply (I2 s G).
  - apply (I2n s G).
  - intros x Hx d Hd. destruct (Nat.eq_dec x t) as [->|Hne]; [now apply Hall|].
    rewrite Hst in Hx by exact Hne. now apply (I3 s G x Hx).
  - apply (IP s G).
  - intros d w x Hwx Hw Hx Ha. apply HD. now apply (IAFT s G d w x).
  - intros d. rewrite (IRC s G d). f_equal. apply cnt_ext. intros x _. unfold rcf, actd. cbn [g_act g_st].
    now rewrite Hdone.
  - apply (ICH s G).
  - intros d Hd. destruct (IAL s G d Hd) as [H1 H2]. split; [exact H1|]. intros w Hw Hww. apply HD. now apply H2.
  - apply (ILU s G).
  - intros x i Hx Hi Hc. apply HD. destruct (Nat.eq_dec x t) as [->|Hne]; [now apply Hsafe|].
    rewrite Hst in Hx by exact Hne. now apply (ISAFE s G x i).
Qed.

(* ---------- insertion ---------- *)
Definition activates (T : tile) : bool := match t_lu T with None => true | Some _ => negb (t_alive T) end.
Lemma snd_flowF k a j m T : snd (flowF k a j m T) = activates T.
Proof. unfold flowF, activates. destruct (t_lu T); [destruct (t_alive T)|]; reflexivity. Qed.

Lemma nodup_fst_unique (tk : task) d m1 m2 : NoDup (map fst tk) -> In (d, m1) tk -> In (d, m2) tk -> m1 = m2.
Proof. intros Hnd H1 H2. rewrite <- (mode_on_in tk d m1 Hnd H1). now apply mode_on_in. Qed.

Lemma insert_facts s a : let k := g_ins s in let tk := T k in
  let r := fold_left (ins_flow true k a tk) (index_from 0 tk) (g_tile s, []) in
  (forall d, tch k d = false -> fst r d = g_tile s d) /\
  (forall d, tch k d = true -> exists i, fst r d = fst (flowF k a i (mode_on tk d) (g_tile s d))) /\
  (forall d, In d (snd r) <-> tch k d = true /\ activates (g_tile s d) = true) /\
  NoDup (snd r).
Proof.
  intros k tk r.
  destruct (ins_fold k a tk (Hnr k) tk 0 (g_tile s) []) as (Fa & Fb & Fc & Fd); [auto|apply Hnr|].
  subst r. split; [|split; [|split]].
  - intros d Hd. apply Fa. intros Hin. apply touches_iff in Hin. unfold tch in Hd. fold tk in Hd. congruence.
  - intros d Hd. unfold tch in Hd. apply touches_iff in Hd. apply in_map_iff in Hd.
    destruct Hd as ((d', m) & E & Hin). cbn in E. subst d'.
    destruct (In_nth_error _ _ Hin) as (i & Hi). exists (0 + i).
    etransitivity; [exact (Fb i d m Hi)|]. fold tk. now rewrite (mode_on_in tk d m (Hnr k) Hin).
  - intros d. rewrite Fc. split.
    + intros [[]|(i & m & Hi & Hs)]. rewrite snd_flowF in Hs. split; [|exact Hs].
      unfold tch. apply touches_iff. apply in_map_iff. exists (d, m). split; [reflexivity|]. now apply nth_error_In with i.
    + intros [Hd Ha]. right. unfold tch in Hd. apply touches_iff in Hd. apply in_map_iff in Hd.
      destruct Hd as ((d', m) & E & Hin). cbn in E. subst d'. destruct (In_nth_error _ _ Hin) as (i & Hi).
      exists i, m. split; [exact Hi|]. now rewrite snd_flowF.
  - apply Fd; [constructor|intros d []].
Qed.

Lemma filter_seq_S f n : filter f (seq 0 (S n)) = filter f (seq 0 n) ++ (if f n then [n] else []).
Proof. rewrite seq_S, filter_app. cbn. now destruct (f n). Qed.

Lemma gi_insert s : GI s -> g_ins s < length p -> GI (gstep true p s Insert).
Proof.
  intros G Hlt. unfold gstep. apply Nat.ltb_lt in Hlt. rewrite Hlt. apply Nat.ltb_lt in Hlt.
  set (k := g_ins s). set (tk := T k).
  set (afn := match g_free s (length tk) with
              | x :: r => (x, fupd (g_free s) (length tk) r, g_next s)
              | [] => (g_next s, g_free s, S (g_next s)) end).
  set (a := fst (fst afn)).
  destruct (insert_facts s a) as (Fa & Fb & Fc & Fd). fold k tk in Fa, Fb, Fc, Fd.
  set (r := fold_left (ins_flow true k a tk) (index_from 0 tk) (g_tile s, [])) in *.
  set (s' := {| g_ins := S k; g_st := g_st s; g_act := fupd (g_act s) k (snd r); g_tile := fst r;
                g_addr := fupd (g_addr s) k a; g_free := snd (fst afn); g_next := snd afn |}).
  (* k is new: idle, nothing activated *)
  assert (Hkidle : g_st s k = Idle).
  { destruct (stat_dec (g_st s k) Idle) as [H|H]; [exact H|]. pose proof (I1 s G k H). unfold k in *. lia. }
  assert (Hact_old : forall x d, x <> k -> actd s' x d = actd s x d).
  { intros x d Hx. unfold actd, s'. cbn [g_act]. now rewrite fupd_other. }
  assert (Hact_k : forall d, actd s' k d = true <-> tch k d = true /\ activates (g_tile s d) = true).
  { intros d. unfold actd, s'. cbn [g_act]. rewrite fupd_same, mem_nat_iff. apply Fc. }
  assert (Hact_k_old : forall d, actd s k d = false).
  { intros d. destruct (actd s k d) eqn:E; [|reflexivity]. destruct (I2 s G k d E). unfold k in *. lia. }
  assert (Hlt_old : forall x, x < S k -> x <> k -> x < g_ins s) by (intros; unfold k in *; lia).
  (* per datum: the tile after the insertion *)
  assert (Htile : forall d,
     (tch k d = false /\ g_tile s' d = g_tile s d) \/
     (tch k d = true /\ exists i, g_tile s' d = fst (flowF k a i (mode_on tk d) (g_tile s d)))).
  { intros d. destruct (tch k d) eqn:E; [right|left]; (split; [reflexivity|]).
    - now apply Fb.
    - now apply Fa. }
  constructor.
  - cbn. lia.
  - intros t Ht. cbn in Ht |- *. pose proof (I1 s G t Ht). unfold k. lia.
  - intros t d Ha. cbn [g_ins s']. destruct (Nat.eq_dec t k) as [->|Hne].
    + apply Hact_k in Ha. split; [lia|tauto].
    + rewrite Hact_old in Ha by exact Hne. destruct (I2 s G t d Ha). split; [unfold k; lia|assumption].
  - intros t. cbn [g_act s']. destruct (Nat.eq_dec t k) as [->|Hne]; [now rewrite fupd_same|].
    rewrite fupd_other by exact Hne. apply (I2n s G).
  - intros t Ht d Hd. cbn [g_st s'] in Ht. assert (t <> k) by (intros ->; congruence).
    rewrite Hact_old by assumption. now apply (I3 s G t Ht).
  - (* prefix *)
    intros d t1 t2 H12 H2 Hc1 Hc2 Ha2. cbn [g_ins s'] in H2.
    assert (Ht1 : t1 <> k) by lia. rewrite Hact_old by exact Ht1.
    destruct (Nat.eq_dec t2 k) as [->|Hne].
    + apply Hact_k in Ha2. destruct Ha2 as [_ Hav]. unfold activates in Hav.
      destruct (t_lu (g_tile s d)) eqn:El.
      * apply negb_true_iff in Hav. destruct (IAL s G d Hav) as [Hch _]. rewrite (ICH s G d) in Hch.
        pose proof (filter_nil_all _ _ Hch t1 ltac:(apply in_seq; unfold k in *; lia)) as Hf.
        unfold chf in Hf. rewrite Hc1 in Hf. cbn in Hf. now apply negb_false_iff in Hf.
      * rewrite (ILU s G d El t1) in Hc1 by (unfold k in *; lia). discriminate.
    + rewrite Hact_old in Ha2 by exact Hne. apply (IP s G d t1 t2); auto; unfold k in *; lia.
  - (* after a writer *)
    intros d w x Hwx Hw Hx Ha. cbn [g_st s'].
    destruct (Nat.eq_dec x k) as [->|Hne].
    + apply Hact_k in Ha. destruct Ha as [_ Hav]. unfold activates in Hav.
      destruct (t_lu (g_tile s d)) eqn:El.
      * apply negb_true_iff in Hav. destruct (IAL s G d Hav) as [_ Hwd]. apply Hwd; [unfold k in *; lia|exact Hw].
      * unfold wrt in Hw. apply andb_true_iff in Hw. destruct Hw as [Hw _].
        rewrite (ILU s G d El w) in Hw by (unfold k in *; lia). discriminate.
    + rewrite Hact_old in Ha by exact Hne. now apply (IAFT s G d w x).
  - (* reader count *)
    intros d. change (g_ins s') with (S k). rewrite cnt_S.
    rewrite (cnt_ext (rcf s' d) (rcf s d) k).
    2:{ intros t Ht. unfold rcf. change (g_st s' t) with (g_st s t). rewrite Hact_old by lia. reflexivity. }
    assert (Hk : rcf s' d k = rdo k d && (if actd s' k d then true else false)).
    { unfold rcf. change (g_st s' k) with (g_st s k). rewrite Hkidle. cbn [is_done negb]. rewrite andb_true_r. now destruct (actd s' k d). }
    rewrite Hk. destruct (Htile d) as [[Hc Ht]|[Hc (i & Ht)]]; rewrite Ht.
    + unfold rdo. rewrite Hc. cbn. rewrite (IRC s G d). fold k. lia.
    + unfold rdo. rewrite Hc. cbn [andb]. fold tk. unfold flowF.
      destruct (actd s' k d) eqn:Ea.
      * apply Hact_k in Ea. destruct Ea as [_ Hav]. unfold activates in Hav.
        destruct (t_lu (g_tile s d)); [apply negb_true_iff in Hav; rewrite Hav|]; cbn [fst t_rc];
          rewrite (IRC s G d); fold k; destruct (is_R (mode_on tk d)); cbn; lia.
      * assert (Hav : activates (g_tile s d) = false).
        { destruct (activates (g_tile s d)) eqn:E; [|reflexivity].
          assert (actd s' k d = true) by (apply Hact_k; tauto). congruence. }
        unfold activates in Hav. destruct (t_lu (g_tile s d)); [|discriminate].
        apply negb_false_iff in Hav. rewrite Hav. cbn [fst t_rc]. rewrite (IRC s G d). fold k.
        rewrite andb_false_r. lia.
  - (* chain *)
    intros d. change (g_ins s') with (S k). rewrite filter_seq_S.
    assert (Hf : filter (chf s' d) (seq 0 k) = filter (chf s d) (seq 0 k)).
    { apply filter_ext_in. intros t Ht. apply in_seq in Ht. unfold chf. rewrite Hact_old by lia. reflexivity. }
    rewrite Hf.
    pose proof (ICH s G d) as Hch. fold k in Hch. rewrite <- Hch.
    destruct (Htile d) as [[Hc Ht]|[Hc (i & Ht)]]; rewrite Ht.
    + unfold chf. rewrite Hc. cbn. now rewrite app_nil_r.
    + unfold chf. rewrite Hc. cbn [andb]. unfold flowF.
      destruct (actd s' k d) eqn:Ea.
      * apply Hact_k in Ea. destruct Ea as [_ Hav]. unfold activates in Hav. cbn [negb]. rewrite app_nil_r.
        destruct (t_lu (g_tile s d)) eqn:El.
        -- apply negb_true_iff in Hav. rewrite Hav. reflexivity.
        -- cbn [fst t_chain]. rewrite (ICH s G d). symmetry. apply filter_none.
           intros t Ht'. apply in_seq in Ht'. unfold chf. rewrite (ILU s G d El t) by (unfold k in *; lia). reflexivity.
      * assert (Hav : activates (g_tile s d) = false).
        { destruct (activates (g_tile s d)) eqn:E; [|reflexivity].
          assert (actd s' k d = true) by (apply Hact_k; tauto). congruence. }
        unfold activates in Hav. destruct (t_lu (g_tile s d)); [|discriminate].
        apply negb_false_iff in Hav. rewrite Hav. reflexivity.
  - (* alive *)
    intros d Hal. cbn [g_ins s' g_st]. destruct (Htile d) as [[Hc Ht]|[Hc (i & Ht)]]; rewrite Ht in Hal |- *.
    + destruct (IAL s G d Hal) as [H1 H2]. split; [exact H1|]. intros w Hw Hww.
      destruct (Nat.eq_dec w k) as [->|Hne]; [unfold wrt in Hww; rewrite Hc in Hww; discriminate|].
      apply H2; [unfold k in *; lia|exact Hww].
    + unfold flowF in Hal |- *. fold tk in Hal |- *.
      assert (Hkw : forall w, w = k -> wrt w d = true -> is_R (mode_on tk d) = false).
      { intros w -> Hww. unfold wrt in Hww. apply andb_true_iff in Hww. destruct Hww as [_ Hww].
        now apply negb_true_iff in Hww. }
      destruct (t_lu (g_tile s d)) eqn:El.
      * destruct (t_alive (g_tile s d)) eqn:Eal; cbn [fst t_alive t_chain] in Hal |- *; [discriminate|].
        apply negb_false_iff in Hal. destruct (IAL s G d Eal) as [H1 H2]. split; [exact H1|].
        intros w Hw Hww. destruct (Nat.eq_dec w k) as [->|Hne].
        -- rewrite (Hkw k eq_refl Hww) in Hal. discriminate.
        -- apply H2; [unfold k in *; lia|exact Hww].
      * cbn [fst t_alive t_chain] in Hal |- *. apply negb_false_iff in Hal. split; [reflexivity|].
        intros w Hw Hww. destruct (Nat.eq_dec w k) as [->|Hne].
        -- rewrite (Hkw k eq_refl Hww) in Hal. discriminate.
        -- unfold wrt in Hww. apply andb_true_iff in Hww. destruct Hww as [Hww _].
           rewrite (ILU s G d El w) in Hww by (unfold k in *; lia). discriminate.
  - (* last user *)
    intros d Hlu t Ht. cbn [g_ins s'] in Ht. destruct (Htile d) as [[Hc Htl]|[Hc (i & Htl)]]; rewrite Htl in Hlu.
    + destruct (Nat.eq_dec t k) as [->|Hne]; [exact Hc|]. apply (ILU s G d Hlu). unfold k in *; lia.
    + unfold flowF in Hlu. destruct (t_lu (g_tile s d)); [destruct (t_alive (g_tile s d))|]; discriminate.
  - intros t i Ht Hi Hc. cbn [g_st s'] in *. now apply (ISAFE s G t i).
Qed.

(* ---------- completion ---------- *)
Lemma filter_remove_prefix (A B : list nat) : NoDup (A ++ B) ->
  filter (fun x => negb (mem_nat x A)) (A ++ B) = B.
Proof.
  intros Hnd. rewrite filter_app.
  rewrite (filter_none (fun x => negb (mem_nat x A)) A).
  2:{ intros x Hx. apply negb_false_iff. now apply mem_nat_iff. }
  cbn. apply filter_all_true. intros x Hx. apply negb_true_iff. apply not_true_is_false.
  intros Hm. apply mem_nat_iff in Hm. revert Hnd. clear - Hx Hm. induction A as [|a A IH]; [destruct Hm|].
  intros Hnd. inversion Hnd as [|? ? Hn Hnd']; subst. destruct Hm as [->|Hm].
  - apply Hn. apply in_or_app. now right.
  - now apply IH.
Qed.

Lemma NoDup_app_remove_r {A} (l1 l2 : list A) : NoDup (l1 ++ l2) -> NoDup l1.
Proof.
  induction l1 as [|x l1 IH]; intros H; [constructor|]. cbn in H. inversion H as [|? ? Hn Hnd]; subst.
  constructor; [|now apply IH]. intros Hx. apply Hn. apply in_or_app. now left.
Qed.

Lemma bool_iff_eq (a b : bool) : (a = true <-> b = true) -> a = b.
Proof. destruct a, b; intros [H1 H2]; auto; try (symmetry; now apply H1); now apply H2. Qed.

Lemma gi_end s t : GI s -> g_st s t = Running -> GI (gstep true p s (End t)).
Proof.
  intros G Hrun. unfold gstep. rewrite Hrun. cbn [is_running].
  set (tk := T t). set (r := fold_left (end_flow p) tk (g_tile s, g_act s)).
  set (s' := {| g_ins := g_ins s; g_st := fupd (g_st s) t Done; g_act := snd r; g_tile := fst r;
                g_addr := g_addr s;
                g_free := if has_write tk then g_free s
                          else fupd (g_free s) (length tk) (g_addr s t :: g_free s (length tk));
                g_next := g_next s |}).
  destruct (end_fold p tk (g_tile s) (g_act s) (Hnr t)) as (Ea & Eb & Ec & Ed). fold r in Ea, Eb, Ec, Ed.
  assert (Htn : g_st s t <> Idle) by congruence.
  assert (Htact : forall d, tch t d = true -> actd s t d = true) by (intros d Hd; now apply (I3 s G t Htn)).
  assert (HD : forall x, g_st s x = Done -> g_st s' x = Done).
  { intros x Hx. cbn [g_st s']. destruct (Nat.eq_dec x t) as [->|Hne]; [apply fupd_same|now rewrite fupd_other]. }
  assert (Hni : forall x, g_st s' x <> Idle -> g_st s x <> Idle).
  { intros x Hx. cbn [g_st s'] in Hx. destruct (Nat.eq_dec x t) as [->|Hne]; [exact Htn|now rewrite fupd_other in Hx]. }
  assert (Hst_o : forall x, x <> t -> g_st s' x = g_st s x) by (intros; cbn [g_st s']; now apply fupd_other).
  assert (Hst_t : g_st s' t = Done) by (cbn [g_st s']; apply fupd_same).
  (* the three shapes of what happens to a datum *)
  assert (Hcase : forall d,
    (tch t d = false /\ g_tile s' d = g_tile s d /\ (forall x, actd s' x d = actd s x d)) \/
    (rdo t d = true /\ g_tile s' d = unread (g_tile s d) /\ (forall x, actd s' x d = actd s x d)) \/
    (wrt t d = true /\ g_tile s' d = fst (walked p d (g_tile s d)) /\
       (forall x, actd s' x d = true <-> actd s x d = true \/ In x (snd (walked p d (g_tile s d)))))).
  { intros d. destruct (tch t d) eqn:Et.
    - unfold tch in Et. fold tk in Et. apply touches_iff in Et. apply in_map_iff in Et.
      destruct Et as ((d', m) & E & Hin). cbn in E. subst d'.
      pose proof (mode_on_in tk d m (Hnr t) Hin) as Hm.
      assert (Htd : tch t d = true).
      { unfold tch. fold tk. apply touches_iff. apply in_map_iff. exists (d, m). auto. }
      destruct (is_R m) eqn:Em.
      + right. left. destruct (Eb d m Hin Em) as [E1 E2]. split; [|split].
        * unfold rdo. rewrite Htd. fold tk. now rewrite Hm.
        * exact E1.
        * intros x. apply bool_iff_eq. unfold actd. rewrite !mem_nat_iff. apply E2.
      + right. right. destruct (Ec d m Hin Em) as [E1 E2]. split; [|split].
        * unfold wrt. rewrite Htd. fold tk. now rewrite Hm, Em.
        * exact E1.
        * intros x. unfold actd. rewrite !mem_nat_iff. apply E2.
    - left. assert (Hn : ~ In d (map fst tk)).
      { intros H. apply touches_iff in H. unfold tch in Et. fold tk in Et. congruence. }
      destruct (Ea d Hn) as [E1 E2]. split; [reflexivity|]. split; [exact E1|].
      intros x. apply bool_iff_eq. unfold actd. rewrite !mem_nat_iff. apply E2. }
  (* facts about a walk on d *)
  assert (Hwalk : forall d, wrt t d = true ->
    exists rst rs w tail, walk p d (t_chain (g_tile s d)) = (rst, rs, w, tail) /\
      filter (chf s d) (seq 0 (g_ins s)) = (rs ++ opt_list w) ++ rst /\
      fst (walked p d (g_tile s d)) =
        {| t_lu := t_lu (g_tile s d); t_alive := if tail then false else t_alive (g_tile s d);
           t_chain := rst; t_rc := (t_rc (g_tile s d) + Z.of_nat (length rs))%Z |} /\
      snd (walked p d (g_tile s d)) = rs ++ opt_list w /\
      (forall x, In x rs -> rdo x d = true) /\ (forall x, w = Some x -> wrt x d = true) /\
      (tail = true <-> w = None) /\ (w = None -> rst = []) /\
      (forall x, In x ((rs ++ opt_list w) ++ rst) -> x < g_ins s /\ tch x d = true /\ actd s x d = false)).
  { intros d Hw. destruct (walk p d (t_chain (g_tile s d))) as [[[rst rs] w] tail] eqn:Ew.
    destruct (walk_spec p d _ _ _ _ _ Ew) as (W1 & W2 & W3 & W4 & W5).
    exists rst, rs, w, tail. rewrite (ICH s G d) in W1.
    assert (Hin : forall x, In x ((rs ++ opt_list w) ++ rst) -> x < g_ins s /\ tch x d = true /\ actd s x d = false).
    { intros x Hx. rewrite <- app_assoc, <- W1 in Hx. apply filter_In in Hx. destruct Hx as [Hx1 Hx2].
      apply in_seq in Hx1. unfold chf in Hx2. apply andb_true_iff in Hx2. destruct Hx2 as [Hx2 Hx3].
      apply negb_true_iff in Hx3. repeat split; auto; lia. }
    split; [reflexivity|]. split; [now rewrite W1, app_assoc|]. unfold walked. rewrite Ew. cbn [fst snd].
    split; [reflexivity|]. split; [reflexivity|]. split; [|split; [|split; [exact W4|split; [exact W5|exact Hin]]]].
    - intros x Hx. unfold rdo. rewrite (proj1 (proj2 (Hin x ltac:(apply in_or_app; left; apply in_or_app; now left)))).
      cbn. now apply W2.
    - intros x Hx. unfold wrt. subst w.
      rewrite (proj1 (proj2 (Hin x ltac:(apply in_or_app; left; apply in_or_app; right; now left)))).
      cbn. now rewrite (W3 x eq_refl). }
  constructor.
  - apply (I0 s G).
  - intros x Hx. apply (I1 s G). now apply Hni.
  - (* I2 *)
    intros x d Ha. cbn [g_ins s'].
    destruct (Hcase d) as [(_ & _ & Hc)|[(_ & _ & Hc)|(Hw & _ & Hc)]].
    + rewrite Hc in Ha. now apply (I2 s G).
    + rewrite Hc in Ha. now apply (I2 s G).
    + apply Hc in Ha. destruct Ha as [Ha|Ha]; [now apply (I2 s G)|].
      destruct (Hwalk d Hw) as (rst & rs & w & tail & _ & _ & _ & Hs & _ & _ & _ & _ & Hin).
      rewrite Hs in Ha. destruct (Hin x ltac:(apply in_or_app; now left)) as (H1 & H2 & _). now split.
  - (* NoDup *)
    intros x. cbn [g_act s']. apply Ed; [apply (I2n s G)|].
    intros d m Hin Hm.
    assert (Hw : wrt t d = true).
    { unfold wrt, tch. fold tk. rewrite (mode_on_in tk d m (Hnr t) Hin), Hm. cbn. rewrite andb_true_r.
      apply touches_iff. apply in_map_iff. exists (d, m). auto. }
    destruct (Hwalk d Hw) as (rst & rs & w & tail & _ & Hf & _ & Hs & _ & _ & _ & _ & Hin').
    rewrite Hs. split.
    + pose proof (filter_seq_NoDup (chf s d) (g_ins s)) as Hnd. rewrite Hf in Hnd. now apply NoDup_app_remove_r in Hnd.
    + intros y Hy Hiy. destruct (Hin' y ltac:(apply in_or_app; now left)) as (_ & _ & Hna).
      unfold actd in Hna. apply mem_nat_iff in Hiy. congruence.
  - (* I3 *)
    intros x Hx d Hd. pose proof (I3 s G x (Hni x Hx) d Hd) as Ha.
    destruct (Hcase d) as [(_ & _ & Hc)|[(_ & _ & Hc)|(_ & _ & Hc)]]; try (now rewrite Hc).
    apply Hc. now left.
  - (* prefix *)
    intros d t1 t2 H12 H2 Hc1 Hc2 Ha2. cbn [g_ins s'] in H2.
    destruct (Hcase d) as [(_ & _ & Hc)|[(_ & _ & Hc)|(Hw & _ & Hc)]].
    + rewrite Hc in *. now apply (IP s G d t1 t2).
    + rewrite Hc in *. now apply (IP s G d t1 t2).
    + apply Hc. apply Hc in Ha2. destruct Ha2 as [Ha2|Ha2]; [left; now apply (IP s G d t1 t2)|].
      destruct (actd s t1 d) eqn:E1; [now left|]. right.
      destruct (Hwalk d Hw) as (rst & rs & w & tail & _ & Hf & _ & Hs & _ & _ & _ & _ & _).
      rewrite Hs in *.
      assert (Hin1 : In t1 (filter (chf s d) (seq 0 (g_ins s)))).
      { apply filter_In. split; [apply in_seq; lia|]. unfold chf. now rewrite Hc1, E1. }
      rewrite Hf in Hin1. apply in_app_or in Hin1. destruct Hin1 as [H|H]; [exact H|].
      pose proof (filter_seq_split _ _ _ _ t2 t1 Hf Ha2 H). lia.
  - (* after a writer *)
    intros d w0 x Hwx Hw0 Hx Ha.
    destruct (Hcase d) as [(_ & _ & Hc)|[(_ & _ & Hc)|(Hw & _ & Hc)]].
    + rewrite Hc in Ha. apply HD. now apply (IAFT s G d w0 x).
    + rewrite Hc in Ha. apply HD. now apply (IAFT s G d w0 x).
    + apply Hc in Ha. destruct Ha as [Ha|Ha]; [apply HD; now apply (IAFT s G d w0 x)|].
      destruct (Hwalk d Hw) as (rst & rs & w & tail & _ & Hf & _ & Hs & Hrs & Hww & _ & _ & Hin).
      rewrite Hs in Ha.
      assert (Htd : tch t d = true) by (unfold wrt in Hw; now apply andb_true_iff in Hw).
      destruct (Nat.lt_total w0 t) as [Hl|[->|Hg]]; [|exact Hst_t|].
      * apply HD. apply (IAFT s G d w0 t Hl Hw0 Htd). now apply Htact.
      * exfalso. assert (Hw0t : tch w0 d = true) by (unfold wrt in Hw0; now apply andb_true_iff in Hw0).
        destruct (actd s w0 d) eqn:E0.
        -- pose proof (IAFT s G d t w0 Hg Hw Hw0t E0). congruence.
        -- destruct (Hin x ltac:(apply in_or_app; now left)) as (Hxi & _ & _).
           assert (Hin0 : In w0 (filter (chf s d) (seq 0 (g_ins s)))).
           { apply filter_In. split; [apply in_seq; lia|]. unfold chf. now rewrite Hw0t, E0. }
           rewrite Hf in Hin0. apply in_app_or in Hin0. destruct Hin0 as [H|H].
           ++ apply in_app_or in H. destruct H as [H|H].
              ** pose proof (Hrs w0 H) as Hr. unfold rdo, wrt in *. rewrite Hw0t in *. cbn in *.
                 rewrite Hr in Hw0. discriminate.
              ** destruct w as [w|]; [|destruct H]. destruct H as [->|[]].
                 apply in_app_or in Ha. destruct Ha as [Ha|[->|[]]]; [|lia].
                 rewrite <- app_assoc in Hf. pose proof (filter_seq_split _ _ _ _ x w0 Hf Ha ltac:(now left)). lia.
           ++ pose proof (filter_seq_split _ _ _ _ x w0 Hf Ha H). lia.
  - (* reader count *)
    intros d. cbn [g_ins s'].
    destruct (Hcase d) as [(Ht & Htl & Hc)|[(Hr & Htl & Hc)|(Hw & Htl & Hc)]]; rewrite Htl.
    + rewrite (IRC s G d). f_equal. apply cnt_ext. intros x _. unfold rcf. rewrite Hc.
      destruct (Nat.eq_dec x t) as [->|Hne]; [unfold rdo; now rewrite Ht|now rewrite Hst_o].
    + unfold unread. cbn [t_rc]. rewrite (IRC s G d).
      assert (Htl' : t < g_ins s) by (now apply (I1 s G)).
      assert (Htd : tch t d = true) by (unfold rdo in Hr; now apply andb_true_iff in Hr).
      rewrite <- (cnt_flip_off (rcf s d) (rcf s' d) (g_ins s) t Htl').
      * lia.
      * unfold rcf. rewrite Hr, (Htact d Htd), Hrun. reflexivity.
      * unfold rcf. rewrite Hst_t. cbn. now rewrite andb_false_r.
      * intros x Hx. unfold rcf. now rewrite Hc, Hst_o.
    + destruct (Hwalk d Hw) as (rst & rs & w & tail & _ & Hf & Hfst & Hs & Hrs & Hww & _ & _ & Hin).
      rewrite Hfst. cbn [t_rc]. rewrite (IRC s G d). rewrite Hs in Hc.
      rewrite (cnt_flip_many rs (rcf s d) (rcf s' d) (g_ins s)).
      * now rewrite Nat2Z.inj_add.
      * pose proof (filter_seq_NoDup (chf s d) (g_ins s)) as Hnd. rewrite Hf in Hnd.
        apply NoDup_app_remove_r in Hnd. now apply NoDup_app_remove_r in Hnd.
      * intros x Hx. destruct (Hin x ltac:(apply in_or_app; left; apply in_or_app; now left)) as (H1 & H2 & H3).
        split; [exact H1|].
        assert (Hxa : actd s' x d = true) by (apply Hc; right; apply in_or_app; now left).
        assert (Hxt : x <> t) by (intros ->; rewrite Htact in H3; [discriminate|unfold wrt in Hw; now apply andb_true_iff in Hw]).
        unfold rcf. rewrite H3, (Hrs x Hx), Hxa, (Hst_o x Hxt). cbn [andb]. split; [reflexivity|].
        apply negb_true_iff.
        destruct (stat_dec (g_st s x) Idle) as [Hi|Hi]; [now rewrite Hi|].
        rewrite (I3 s G x Hi d H2) in H3. discriminate.
      * intros x Hx. unfold rcf.
        destruct (Nat.eq_dec x t) as [->|Hne].
        -- assert (rdo t d = false) as ->; [|reflexivity].
           unfold rdo, wrt in *. destruct (tch t d); [|reflexivity]. cbn in *. now apply negb_true_iff in Hw.
        -- rewrite Hst_o by exact Hne. destruct (rdo x d) eqn:Erx; [|reflexivity]. cbn [andb]. f_equal.
           apply bool_iff_eq. rewrite Hc. split; [|tauto]. intros [H|H]; [exact H|].
           apply in_app_or in H. destruct H as [H|H]; [contradiction|].
           destruct w as [w|]; [|destruct H]. destruct H as [->|[]].
           pose proof (Hww x eq_refl) as Hwx. unfold rdo, wrt in *. destruct (tch x d); [|discriminate].
           cbn in *. rewrite Erx in Hwx. discriminate.
  - (* chain *)
    intros d. cbn [g_ins s'].
    destruct (Hcase d) as [(Ht & Htl & Hc)|[(Hr & Htl & Hc)|(Hw & Htl & Hc)]]; rewrite Htl.
    + rewrite (ICH s G d). apply filter_ext. intros x. unfold chf. now rewrite Hc.
    + unfold unread. cbn [t_chain]. rewrite (ICH s G d). apply filter_ext. intros x. unfold chf. now rewrite Hc.
    + destruct (Hwalk d Hw) as (rst & rs & w & tail & _ & Hf & Hfst & Hs & _ & _ & _ & _ & _).
      rewrite Hfst. cbn [t_chain]. rewrite Hs in Hc.
      rewrite (filter_ext (chf s' d) (fun x => chf s d x && negb (mem_nat x (rs ++ opt_list w)))).
      * symmetry. rewrite <- (filter_filter (chf s d) (fun x => negb (mem_nat x (rs ++ opt_list w))) (seq 0 (g_ins s))).
        rewrite Hf. apply filter_remove_prefix.
        pose proof (filter_seq_NoDup (chf s d) (g_ins s)) as Hnd. rewrite Hf in Hnd. exact Hnd.
      * intros x. unfold chf. destruct (tch x d); [|reflexivity]. cbn [andb].
        destruct (actd s x d) eqn:E1.
        -- assert (actd s' x d = true) as -> by (apply Hc; now left). reflexivity.
        -- cbn [negb andb]. f_equal. apply bool_iff_eq. rewrite Hc, mem_nat_iff. intuition congruence.
  - (* alive *)
    intros d Hal. cbn [g_ins s'].
    destruct (Hcase d) as [(Ht & Htl & Hc)|[(Hr & Htl & Hc)|(Hw & Htl & Hc)]]; rewrite Htl in Hal |- *.
    + destruct (IAL s G d Hal) as [H1 H2]. split; [exact H1|]. intros; apply HD; now apply H2.
    + unfold unread in *. cbn [t_alive t_chain] in *. destruct (IAL s G d Hal) as [H1 H2]. split; [exact H1|].
      intros; apply HD; now apply H2.
    + destruct (Hwalk d Hw) as (rst & rs & w & tail & Ew & Hf & Hfst & Hs & Hrs & Hww & Htail & Hnone & Hin).
      rewrite Hfst in Hal |- *. cbn [t_alive t_chain] in *.
      assert (Htd : tch t d = true) by (unfold wrt in Hw; now apply andb_true_iff in Hw).
      destruct tail.
      * assert (w = None) by (now apply Htail). subst w. rewrite (Hnone eq_refl). split; [reflexivity|].
        intros w0 Hw0 Hww0. rewrite (Hnone eq_refl), app_nil_r in Hf. cbn in Hf. rewrite app_nil_r in Hf.
        assert (Hw0t : tch w0 d = true) by (unfold wrt in Hww0; now apply andb_true_iff in Hww0).
        destruct (Nat.lt_total w0 t) as [Hl|[->|Hg]]; [|exact Hst_t|].
        -- apply HD. apply (IAFT s G d w0 t Hl Hww0 Htd). now apply Htact.
        -- exfalso. destruct (actd s w0 d) eqn:E0.
           ++ pose proof (IAFT s G d t w0 Hg Hw Hw0t E0). congruence.
           ++ assert (Hin0 : In w0 (filter (chf s d) (seq 0 (g_ins s)))).
              { apply filter_In. split; [apply in_seq; lia|]. unfold chf. now rewrite Hw0t, E0. }
              rewrite Hf in Hin0. pose proof (Hrs w0 Hin0) as Hr. unfold rdo, wrt in *. rewrite Hw0t in *. cbn in *.
              rewrite Hr in Hww0. discriminate.
      * exfalso. destruct (IAL s G d Hal) as [H1 _]. rewrite H1 in Ew. cbn in Ew. inversion Ew.
  - (* last user *)
    intros d Hlu x Hx. cbn [g_ins s'] in Hx.
    destruct (Hcase d) as [(Ht & Htl & Hc)|[(Hr & Htl & Hc)|(Hw & Htl & Hc)]]; rewrite Htl in Hlu.
    + now apply (ILU s G d).
    + now apply (ILU s G d).
    + destruct (Hwalk d Hw) as (rst & rs & w & tail & _ & _ & Hfst & _). rewrite Hfst in Hlu. now apply (ILU s G d).
  - intros x i Hx Hi Hc. apply HD. apply (ISAFE s G x i); auto.
Qed.
End Inv.

(* ---------- every run ---------- *)
Section Refine.
Variable p : prog.
Hypothesis Hnr : norep p.

Lemma gi_step s e : GI p s -> GI p (gstep true p s e).
Proof.
  intros G. destruct e as [|t|t].
  - destruct (g_ins s <? length p) eqn:E.
    + apply gi_insert; [exact Hnr|exact G|now apply Nat.ltb_lt].
    + unfold gstep. now rewrite E.
  - unfold gstep. destruct (g_can_begin p s t) eqn:E; [|exact G]. now apply gi_begin.
  - destruct (stat_dec (g_st s t) Running) as [E|E].
    + now apply gi_end.
    + unfold gstep. destruct (g_st s t); try exact G. congruence.
Qed.

Lemma gi_run es : GI p (grun true p es).
Proof. unfold grun. apply fold_left_inv; [intros; now apply gi_step|apply gi_init]. Qed.

(* the mechanism lets a task begin only after every earlier conflicting task is done *)
Theorem gate_begun_after es t i :
  g_st (grun true p es) t <> Idle -> i < t -> conflict (task_at p i) (task_at p t) ->
  g_st (grun true p es) i = Done.
Proof. intros. eapply (ISAFE p _ (gi_run es)); eauto. Qed.

Theorem gate_exclusive es t1 t2 :
  g_st (grun true p es) t1 = Running -> g_st (grun true p es) t2 = Running -> t1 <> t2 ->
  ~ conflict (task_at p t1) (task_at p t2).
Proof.
  intros H1 H2 Hne Hc. destruct (Nat.lt_total t1 t2) as [Hl|[He|Hg]]; [|contradiction|].
  - assert (g_st (grun true p es) t1 = Done) by (apply (gate_begun_after es t2 t1); [congruence|exact Hl|exact Hc]).
    congruence.
  - assert (Hc' : conflict (task_at p t2) (task_at p t1)).
    { destruct Hc as (d & Ha & Hb & Hw). exists d. repeat split; auto. tauto. }
    assert (g_st (grun true p es) t2 = Done) by (apply (gate_begun_after es t1 t2); [congruence|exact Hg|exact Hc']).
    congruence.
Qed.

(* ---- refinement: a run of the gate model is a run of the protocol engine whose dependencies
        are all the earlier conflicting tasks ---- *)
Definition conf_dep (k : tid) : list tid :=
  filter (fun i => conflictb (task_at p i) (task_at p k)) (seq 0 k).

Lemma conflictb_iff t1 t2 : conflictb t1 t2 = true <-> conflict t1 t2.
Proof.
  unfold conflictb. rewrite existsb_exists. split.
  - intros (a & Ha & H). apply andb_true_iff in H. destruct H as [H1 H2]. apply orb_true_iff in H2.
    exists (fst a). split; [|split; [exact H1|exact H2]].
    unfold touches. apply existsb_exists. exists a. split; [exact Ha|apply Nat.eqb_refl].
  - intros (d & H1 & H2 & H3). unfold touches in H1. apply existsb_exists in H1.
    destruct H1 as ([d' m] & Ha & E). apply Nat.eqb_eq in E. cbn in E. subst d'. exists (d, m). split; [exact Ha|].
    cbn [fst]. rewrite H2. cbn [andb]. apply orb_true_iff. exact H3.
Qed.
Lemma conf_dep_back k j : In j (conf_dep k) -> j < k.
Proof. unfold conf_dep. intros H. apply filter_In in H. destruct H as [H _]. apply in_seq in H. lia. Qed.
Lemma conf_dep_cover k i : k < length p -> i < k ->
  conflict (task_at p i) (task_at p k) -> dpath conf_dep i k.
Proof.
  intros _ Hi Hc. apply dp_edge. unfold conf_dep. apply filter_In. split; [apply in_seq; lia|].
  now apply conflictb_iff.
Qed.

Theorem gate_refines body m0 es :
  exists es', let a := run body p conf_dep no_window m0 es' in
    ins a = g_ins (grun true p es) /\ forall t, st a t = g_st (grun true p es) t.
Proof.
  induction es as [|e es IH] using rev_ind.
  - exists []. cbn. auto.
  - destruct IH as (es' & Hi & Hs). unfold grun. rewrite fold_left_app. cbn [fold_left].
    fold (grun true p es). set (g := grun true p es) in *. pose proof (gi_run es) as G. fold g in G.
    set (a := run body p conf_dep no_window m0 es') in *.
    assert (Hstep : forall e', run body p conf_dep no_window m0 (es' ++ [e']) = step body p conf_dep no_window a e').
    { intros e'. unfold run. now rewrite fold_left_app. }
    destruct e as [|t|t].
    + (* Insert *)
      destruct (g_ins g <? length p) eqn:E.
      * exists (es' ++ [Insert]). rewrite Hstep. unfold step, can_insert, no_window, gstep.
        rewrite Hi, E. cbn. split; [reflexivity|exact Hs].
      * exists es'. unfold gstep. rewrite E. split; [exact Hi|exact Hs].
    + (* Begin *)
      destruct (g_can_begin p g t) eqn:E.
      * exists (es' ++ [Begin t]). rewrite Hstep.
        pose proof (gi_begin p Hnr g t G E) as G'.
        assert (Hcb : can_begin conf_dep a t = true).
        { unfold can_begin. unfold g_can_begin in E.
          apply andb_true_iff in E. destruct E as [E _]. apply andb_true_iff in E. destruct E as [E _].
          apply andb_true_iff in E. destruct E as [E1 E2]. rewrite Hi, E1, Hs, E2. cbn.
          apply forallb_forall. intros j Hj. apply is_done_iff. rewrite Hs.
          pose proof (conf_dep_back t j Hj) as Hjt.
          assert (Hc : conflict (task_at p j) (task_at p t)).
          { unfold conf_dep in Hj. apply filter_In in Hj. now apply conflictb_iff. }
          pose proof (ISAFE p _ G' t j) as Hsafe. cbn [g_st] in Hsafe. rewrite fupd_same in Hsafe.
          specialize (Hsafe ltac:(discriminate) Hjt Hc). rewrite fupd_other in Hsafe by lia. exact Hsafe. }
        unfold step. rewrite Hcb. unfold gstep. rewrite E. cbn [ins st g_ins g_st].
        split; [exact Hi|]. intros x. unfold fupd. now rewrite Hs.
      * exists es'. unfold gstep. rewrite E. split; [exact Hi|exact Hs].
    + (* End *)
      destruct (is_running (g_st g t)) eqn:E.
      * exists (es' ++ [End t]). rewrite Hstep. unfold step, can_end. rewrite Hs, E. unfold gstep. rewrite E.
        cbn [ins st g_ins g_st]. split; [exact Hi|]. intros x. unfold fupd. now rewrite Hs.
      * exists es'. unfold gstep. rewrite E. split; [exact Hi|exact Hs].
Qed.
End Refine.

(* ---------- the code as it is: the witness of the stale last user ---------- *)
Fixpoint nodupb (l : list nat) : bool :=
  match l with [] => true | x :: r => negb (mem_nat x r) && nodupb r end.
Lemma nodupb_ok l : nodupb l = true -> NoDup l.
Proof.
  induction l as [|x l IH]; intros H; [constructor|]. cbn in H. apply andb_true_iff in H. destruct H as [H1 H2].
  constructor; [|now apply IH]. intros Hin. apply mem_nat_iff in Hin. rewrite Hin in H1. discriminate.
Qed.
Definition norepb (p : prog) : bool := forallb (fun t => nodupb (map fst t)) p.
Lemma norepb_ok p : norepb p = true -> norep p.
Proof.
  intros H k. unfold task_at. destruct (nth_in_or_default k p []) as [Hin|Hd]; [|rewrite Hd; constructor].
  unfold norepb in H. rewrite forallb_forall in H. apply nodupb_ok. now apply H.
Qed.

Theorem gate_unguarded_refuted : exists p es t1 t2, norep p /\ t1 <> t2 /\
  g_st (grun false p es) t1 = Running /\ g_st (grun false p es) t2 = Running /\
  conflict (task_at p t1) (task_at p t2).
Proof.
  exists gate_witness_p, gate_witness_es, 4, 5. split; [apply norepb_ok; reflexivity|].
  split; [discriminate|]. split; [vm_compute; reflexivity|]. split; [vm_compute; reflexivity|].
  apply conflictb_iff. vm_compute. reflexivity.
Qed.
