(* The DTD engine (dependencies built by insertion) instantiates the generic
   engine: C03 (observations = sequential execution, at most once, progress) and
   C04 (exclusion of conflicting accesses, maximal concurrency of readers). *)
From PV Require Import Base.Tac DTD.DTDDefs DTD.DTDSeq DTD.DTDChain DTD.DTDEngine.

Lemma dtd_back p k j : In j (dep_fn p k) -> j < k.
Proof. intros H. now destruct (deps_sound p k j H). Qed.
Lemma dtd_sound p k j : In j (dep_fn p k) -> conflict (task_at p j) (task_at p k).
Proof. intros H. now destruct (deps_sound p k j H). Qed.

Section DTD.
Variable body : tid -> list value -> value.
Variable p : prog.
Variable gate : nat -> nat -> bool.
Variable m0 : mem.
Notation drun := (dtd_run body p gate m0).

Theorem dtd_observations es :
  let s := drun es in
  (forall t i, obs s t = Some i -> t < length p /\ i = nth t (fst (seq_dtd body p m0)) []) /\
  (all_done p s = true -> forall d, memo s d = snd (seq_dtd body p m0) d).
Proof. apply dag_serialisable; [apply dtd_back|apply chain_edges_complete]. Qed.

Theorem dtd_runs_once es t :
  nruns (drun es) t <= 1 /\ (nruns (drun es) t = 1 <-> st (drun es) t <> Idle).
Proof. apply runs_at_most_once; [apply dtd_back|apply chain_edges_complete]. Qed.

Theorem dtd_exclusive es t1 t2 :
  st (drun es) t1 = Running -> st (drun es) t2 = Running -> t1 <> t2 ->
  ~ conflict (task_at p t1) (task_at p t2).
Proof. apply running_exclusive; [apply dtd_back|apply chain_edges_complete]. Qed.

(* per datum: a running writer of d excludes every other running task that touches d *)
Corollary dtd_exclusive_datum es d t1 t2 :
  st (drun es) t1 = Running -> st (drun es) t2 = Running -> t1 <> t2 ->
  writes (task_at p t1) d = true -> touches (task_at p t2) d = false.
Proof.
  intros H1 H2 Hne Hw. destruct (touches (task_at p t2) d) eqn:E; [|reflexivity].
  exfalso. apply (dtd_exclusive es t1 t2 H1 H2 Hne). exists d. repeat split; auto. now apply writes_touches.
Qed.

Theorem dtd_begin_waits es t i :
  can_begin (dep_fn p) (drun es) t = true -> i < t ->
  conflict (task_at p i) (task_at p t) -> st (drun es) i = Done.
Proof. apply begin_waits; [apply dtd_back|apply chain_edges_complete]. Qed.

Theorem dtd_begun_after es t i :
  st (drun es) t <> Idle -> i < t -> conflict (task_at p i) (task_at p t) -> st (drun es) i = Done.
Proof. apply begun_after_conflicts; [apply dtd_back|apply chain_edges_complete]. Qed.

Theorem dtd_concurrent_set es ts : NoDup ts ->
  (forall t, In t ts -> t < ins (drun es) /\ st (drun es) t = Idle /\
                        forall i, i < t -> conflict (task_at p i) (task_at p t) -> st (drun es) i = Done) ->
  forall t, In t ts -> st (drun (es ++ map Begin ts)) t = Running.
Proof. apply concurrent_set; [apply dtd_back|apply dtd_sound]. Qed.

Hypothesis Hgate : forall i, gate i i = true.

Theorem dtd_progress es :
  all_done p (drun es) = false -> exists e, enabled p (dep_fn p) gate (drun es) e = true.
Proof. apply progress; [apply dtd_back|apply chain_edges_complete|exact Hgate]. Qed.

Theorem dtd_stuck_means_done es :
  (forall e, enabled p (dep_fn p) gate (drun es) e = false) -> all_done p (drun es) = true.
Proof. apply stuck_means_done; [apply dtd_back|apply chain_edges_complete|exact Hgate]. Qed.

(* the schedule "insert k, begin k, end k" for k = 0, 1, ... is allowed and completes *)
Definition seq_sched (n : nat) : list event := flat_map (fun k => [Insert; Begin k; End k]) (seq 0 n).

Lemma triple_state s k : k < length p -> ins s = k ->
  (forall j, j < k -> st s j = Done) -> (forall j, k <= j -> st s j = Idle) ->
  let s' := fold_left (step body p (dep_fn p) gate) [Insert; Begin k; End k] s in
  ins s' = S k /\ (forall j, j < S k -> st s' j = Done) /\ (forall j, S k <= j -> st s' j = Idle).
Proof.
  intros Hk Hi Hd Hn. cbn [fold_left].
  assert (Hc1 : can_insert p gate s = true).
  { unfold can_insert. rewrite (count_done_all s) by (rewrite Hi; exact Hd). rewrite Hgate, andb_true_r.
    apply Nat.ltb_lt. lia. }
  assert (E1 : step body p (dep_fn p) gate s Insert =
               {| ins := S (ins s); st := st s; memo := memo s; obs := obs s; nruns := nruns s |}).
  { unfold step. now rewrite Hc1. }
  rewrite E1. set (s1 := {| ins := S (ins s); st := st s; memo := memo s; obs := obs s; nruns := nruns s |}).
  assert (Hc2 : can_begin (dep_fn p) s1 k = true).
  { unfold can_begin. cbn [ins st s1]. rewrite (Hn k) by lia. cbn [is_idle]. rewrite andb_true_r.
    apply andb_true_iff. split; [apply Nat.ltb_lt; lia|]. apply forallb_done.
    intros j Hj. apply Hd. now apply dtd_back in Hj. }
  assert (E2 : exists mm oo nn, step body p (dep_fn p) gate s1 (Begin k) =
               {| ins := S (ins s); st := fupd (st s) k Running; memo := mm; obs := oo; nruns := nn |}).
  { unfold step. rewrite Hc2. cbn [ins st s1]. eauto. }
  destruct E2 as (mm & oo & nn & E2). rewrite E2.
  unfold step, can_end. cbn [st]. rewrite fupd_same. cbn [is_running ins st].
  repeat split.
  - lia.
  - intros j Hj. destruct (Nat.eq_dec j k) as [->|Hne]; [apply fupd_same|].
    rewrite !fupd_other by exact Hne. apply Hd. lia.
  - intros j Hj. rewrite !fupd_other by lia. apply Hn. lia.
Qed.

Lemma seq_sched_state : forall k, k <= length p ->
  let s := drun (seq_sched k) in
  ins s = k /\ (forall j, j < k -> st s j = Done) /\ (forall j, k <= j -> st s j = Idle).
Proof.
  induction k as [|k IH]; intros Hk.
  - cbn. repeat split; intros; try reflexivity; lia.
  - destruct IH as (Hi & Hd & Hn); [lia|].
    unfold seq_sched. rewrite seq_S, flat_map_app. cbn [flat_map]. rewrite app_nil_r, Nat.add_0_l.
    unfold dtd_run, run. rewrite fold_left_app.
    apply triple_state; [lia|exact Hi|exact Hd|exact Hn].
Qed.

Theorem dtd_complete_run_exists : exists es, all_done p (drun es) = true.
Proof.
  exists (seq_sched (length p)). destruct (seq_sched_state (length p) (le_n _)) as (Hi & Hd & _).
  unfold all_done. rewrite Hi, Nat.eqb_refl. cbn. apply forallb_done. intros j Hj. apply in_seq in Hj. apply Hd. lia.
Qed.
End DTD.

Lemma window_gate_idle w th i : window_gate w th i i = true.
Proof.
  unfold window_gate. rewrite Nat.sub_diag. replace (th <? 0) with false by (symmetry; apply Nat.ltb_ge; lia).
  now rewrite andb_false_r.
Qed.

(* ---- readers between two writers can all run together ---- *)
Definition wrw_prog (d : datum) (n : nat) : prog := [(d, RW)] :: repeat [(d, R)] n ++ [[(d, RW)]].

Lemma nth_repeat_lt {A} (x d : A) : forall n k, k < n -> nth k (repeat x n) d = x.
Proof. induction n as [|n IH]; intros k Hk; [lia|]. destruct k as [|k]; [reflexivity|]. cbn. apply IH. lia. Qed.

Lemma wrw_length d n : length (wrw_prog d n) = n + 2.
Proof. unfold wrw_prog. cbn [length]. rewrite app_length, repeat_length. cbn. lia. Qed.
Lemma wrw_reader d n t : 1 <= t <= n -> task_at (wrw_prog d n) t = [(d, R)].
Proof.
  intros Ht. unfold task_at, wrw_prog. destruct t as [|t]; [lia|]. cbn [nth].
  rewrite app_nth1 by (rewrite repeat_length; lia). apply nth_repeat_lt. lia.
Qed.

Section Readers.
Variable body : tid -> list value -> value.
Variable m0 : mem.

Lemma inserts_state p dep : forall k s, ins s + k <= length p ->
  let s' := fold_left (step body p dep no_window) (repeat Insert k) s in
  ins s' = ins s + k /\ (forall x, st s' x = st s x).
Proof.
  induction k as [|k IH]; intros s Hk; cbn [repeat fold_left].
  - split; [lia|reflexivity].
  - assert (Hc : can_insert p no_window s = true).
    { unfold can_insert, no_window. rewrite andb_true_r. apply Nat.ltb_lt. lia. }
    assert (E : step body p dep no_window s Insert =
                {| ins := S (ins s); st := st s; memo := memo s; obs := obs s; nruns := nruns s |}).
    { unfold step. now rewrite Hc. }
    rewrite E. destruct (IH {| ins := S (ins s); st := st s; memo := memo s; obs := obs s; nruns := nruns s |}) as [Ha Hb].
    { cbn [ins]. lia. }
    cbn [ins st] in Ha, Hb. split; [lia|exact Hb].
Qed.

(* writer, n readers, writer on one datum: after the first writer has ended all n readers
   can be running at the same time (and the last writer cannot begin: C04_exclusive) *)
Theorem readers_run_together d n :
  exists es, let s := dtd_run body (wrw_prog d n) no_window m0 es in
    forall t, 1 <= t <= n -> st s t = Running.
Proof.
  set (p := wrw_prog d n).
  set (es0 := repeat Insert (n + 2) ++ [Begin 0; End 0]).
  exists (es0 ++ map Begin (seq 1 n)). intros s t Ht.
  (* the state after es0 *)
  assert (H0 : ins (dtd_run body p no_window m0 es0) = n + 2 /\
               st (dtd_run body p no_window m0 es0) 0 = Done /\
               forall x, x <> 0 -> st (dtd_run body p no_window m0 es0) x = Idle).
  { unfold es0, dtd_run, run. rewrite fold_left_app.
    destruct (inserts_state p (dep_fn p) (n + 2) (init m0)) as [Ha Hb].
    { cbn [ins init]. unfold p. rewrite wrw_length. lia. }
    set (s1 := fold_left (step body p (dep_fn p) no_window) (repeat Insert (n + 2)) (init m0)) in *.
    cbn [ins init] in Ha. cbn [st init] in Hb. cbn [fold_left].
    assert (Hc : can_begin (dep_fn p) s1 0 = true).
    { unfold can_begin. apply andb_true_iff. split; [apply andb_true_iff; split|].
      - apply Nat.ltb_lt. rewrite Ha. lia.
      - now rewrite Hb.
      - apply forallb_forall. intros j Hj. apply dtd_back in Hj. lia. }
    assert (E2 : exists mm oo nn, step body p (dep_fn p) no_window s1 (Begin 0) =
               {| ins := ins s1; st := fupd (st s1) 0 Running; memo := mm; obs := oo; nruns := nn |}).
    { unfold step. rewrite Hc. eauto. }
    destruct E2 as (mm & oo & nn & E2). rewrite E2.
    unfold step, can_end. cbn [st]. rewrite fupd_same. cbn [is_running ins st].
    split; [exact Ha|]. split; [apply fupd_same|]. intros x Hx. rewrite !fupd_other by exact Hx. apply Hb. }
  destruct H0 as (Hi & Hd & Hidle).
  apply (dtd_concurrent_set body p no_window m0 es0 (seq 1 n) (seq_NoDup n 1)); [|apply in_seq; lia].
  intros u Hu. apply in_seq in Hu. rewrite Hi. split; [lia|]. split; [apply Hidle; lia|].
  intros i Hiu Hc. destruct (Nat.eq_dec i 0) as [->|Hne]; [exact Hd|]. exfalso.
  destruct Hc as (x & Ha & Hb & Hw). unfold p in Ha, Hb, Hw.
  rewrite !wrw_reader in Hw by lia. cbn in Hw. rewrite !andb_false_r in Hw. cbn in Hw. destruct Hw; discriminate.
Qed.
End Readers.
