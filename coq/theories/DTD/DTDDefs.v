(* Executable model of the DTD (dynamic task discovery) interface
   (parsec/interfaces/dtd/insert_function.c, overlap_strategies.c), at the level
   of "who must finish before whom".  NO proofs here.

   An insertion sequence is a list of tasks; a task is the list of its data
   accesses in flow order (PASSED_BY_REF parameters of parsec_dtd_insert_task:
   tile + PARSEC_INPUT / PARSEC_OUTPUT / PARSEC_INOUT).  The same datum may
   appear several times in one task (parsec_insert_dtd_task has code for "the
   same data multiple times for the same task").

   - seq_dtd      : the reference — bodies executed one at a time in insertion order;
   - insert_task  : what one insertion does to the per-datum chain (tile->last_writer,
                    the readers chained behind it up to tile->last_user) and which
                    earlier tasks the new task has to wait for;
   - deps_of      : the dependencies of every task, folded over the insertion order;
   - step / run   : the execution engine: Insert (in order, gated by the sliding window),
                    Begin t (only when every dependency of t has ended), End t; any
                    number of tasks may be running. *)
From Coq Require Import Arith List Bool NArith.
Import ListNotations.

Inductive mode := R | W | RW.          (* PARSEC_INPUT | PARSEC_OUTPUT | PARSEC_INOUT *)
Definition datum := nat.
Definition tid := nat.                 (* position in the insertion sequence = task id *)
Definition value := N.
Definition access := (datum * mode)%type.
Definition task := list access.
Definition prog := list task.
Definition mem := datum -> value.

Definition is_read (m : mode) : bool := match m with W => false | _ => true end.
Definition is_write (m : mode) : bool := match m with R => false | _ => true end.
Definition touches (t : task) (d : datum) : bool := existsb (fun a => Nat.eqb (fst a) d) t.
Definition writes (t : task) (d : datum) : bool :=
  existsb (fun a => Nat.eqb (fst a) d && is_write (snd a)) t.
Definition task_at (p : prog) (k : tid) : task := nth k p [].

(* two tasks conflict when they share a datum that one of them writes *)
Definition conflict_on (t1 t2 : task) (d : datum) : Prop :=
  touches t1 d = true /\ touches t2 d = true /\ (writes t1 d = true \/ writes t2 d = true).
Definition conflict (t1 t2 : task) : Prop := exists d, conflict_on t1 t2 d.
Definition conflictb (t1 t2 : task) : bool :=
  existsb (fun a => touches t2 (fst a) && (writes t1 (fst a) || writes t2 (fst a))) t1.

(* ---- task bodies ------------------------------------------------------- *)
(* values a body reads: one per R / RW flow, in flow order (W flows are write-only) *)
Definition inputs (t : task) (m : mem) : list value :=
  map (fun a => m (fst a)) (filter (fun a => is_read (snd a)) t).
(* a body writes v to every W / RW flow *)
Definition write_back (t : task) (v : value) (m : mem) : mem :=
  fun d => if writes t d then v else m d.

Section Model.
Variable body : tid -> list value -> value.     (* deterministic body: value written = body id inputs *)

Definition exec_task (k : tid) (t : task) (m : mem) : mem :=
  write_back t (body k (inputs t m)) m.

(* ---- sequential reference ---------------------------------------------- *)
Fixpoint seq_run (k : tid) (p : prog) (m : mem) : list (list value) * mem :=
  match p with
  | [] => ([], m)
  | t :: p' => let r := seq_run (S k) p' (exec_task k t m) in (inputs t m :: fst r, snd r)
  end.
(* (inputs observed by every task, final data) *)
Definition seq_dtd (p : prog) (m0 : mem) : list (list value) * mem := seq_run 0 p m0.

(* memory before task k in the sequential execution *)
Fixpoint prefix_mem (p : prog) (m0 : mem) (k : nat) : mem :=
  match k with
  | O => m0
  | S j => exec_task j (task_at p j) (prefix_mem p m0 j)
  end.

(* ---- the per-datum chain built by insertion ----------------------------- *)
(* tile->last_writer and the readers inserted after it (the chain last_writer ->
   reader -> ... -> last_user of the tile) *)
Record chain := { lw : option tid; rds : list tid }.
Definition cstate := datum -> chain.
Definition chain0 : cstate := fun _ => {| lw := None; rds := [] |}.
Definition cupd (cs : cstate) (d : datum) (c : chain) : cstate :=
  fun x => if Nat.eqb x d then c else cs x.
Definition opt_list (o : option tid) : list tid := match o with Some x => [x] | None => [] end.
(* a flow whose predecessor on the tile is the task itself is satisfied at once
   ("last_user.task == this_task": satisfied_flow += 1) *)
Definition others (k : tid) (l : list tid) : list tid := filter (fun x => negb (Nat.eqb x k)) l.

(* one flow of task k:
   - read  : wait for the last writer (RAW); join the readers of the tile;
   - write : wait for every reader since the last writer (WAR: the writer is activated
             together with them and data_lookup_of_dtd_task returns AGAIN while the
             copy has readers) and for the last writer (WAW/RAW); become the last
             writer, the reader list restarts *)
Definition acc_step (k : tid) (st : cstate * list tid) (a : access) : cstate * list tid :=
  let c := fst st (fst a) in
  match snd a with
  | R => (cupd (fst st) (fst a) {| lw := lw c; rds := k :: rds c |},
          snd st ++ others k (opt_list (lw c)))
  | _ => (cupd (fst st) (fst a) {| lw := Some k; rds := [] |},
          snd st ++ others k (rds c ++ opt_list (lw c)))
  end.
Definition insert_task (k : tid) (t : task) (cs : cstate) : cstate * list tid :=
  fold_left (acc_step k) t (cs, []).
Fixpoint build (k : tid) (p : prog) (cs : cstate) : list (list tid) :=
  match p with
  | [] => []
  | t :: p' => let r := insert_task k t cs in snd r :: build (S k) p' (fst r)
  end.
Definition deps_of (p : prog) : list (list tid) := build 0 p chain0.
Definition dep_fn (p : prog) (k : tid) : list tid := nth k (deps_of p) [].

(* ---- execution engine ---------------------------------------------------- *)
Inductive stat := Idle | Running | Done.
Record state := { ins : nat;                          (* tasks inserted so far: 0 .. ins-1 *)
                  st : tid -> stat;
                  memo : mem;
                  obs : tid -> option (list value);    (* inputs seen by the body of a begun task *)
                  nruns : tid -> nat }.                (* how many times the body was started *)
Inductive event := Insert | Begin (t : tid) | End (t : tid).

Definition is_idle (x : stat) : bool := match x with Idle => true | _ => false end.
Definition is_running (x : stat) : bool := match x with Running => true | _ => false end.
Definition is_done (x : stat) : bool := match x with Done => true | _ => false end.
Definition fupd {A} (f : tid -> A) (t : tid) (v : A) : tid -> A :=
  fun x => if Nat.eqb x t then v else f x.
Definition count_done (s : state) : nat :=
  length (filter (fun j => is_done (st s j)) (seq 0 (ins s))).

Section Engine.
Variable p : prog.
Variable dep : tid -> list tid.              (* dependencies: dep_fn p for DTD *)
Variable gate : nat -> nat -> bool.          (* sliding window: may the (i+1)-th task be inserted
                                                when i are inserted and e of them have ended? *)

Definition init (m0 : mem) : state :=
  {| ins := 0; st := fun _ => Idle; memo := m0; obs := fun _ => None; nruns := fun _ => 0 |}.

Definition can_insert (s : state) : bool := (ins s <? length p) && gate (ins s) (count_done s).
Definition can_begin (s : state) (t : tid) : bool :=
  (t <? ins s) && is_idle (st s t) && forallb (fun j => is_done (st s j)) (dep t).
Definition can_end (s : state) (t : tid) : bool := is_running (st s t).
Definition enabled (s : state) (e : event) : bool :=
  match e with Insert => can_insert s | Begin t => can_begin s t | End t => can_end s t end.

(* an event that the protocol does not allow in the current state changes nothing *)
Definition step (s : state) (e : event) : state :=
  match e with
  | Insert =>
      if can_insert s
      then {| ins := S (ins s); st := st s; memo := memo s; obs := obs s; nruns := nruns s |}
      else s
  | Begin t =>
      if can_begin s t
      then {| ins := ins s; st := fupd (st s) t Running; memo := memo s;
              obs := fupd (obs s) t (Some (inputs (task_at p t) (memo s)));
              nruns := fupd (nruns s) t (S (nruns s t)) |}
      else s
  | End t =>
      if can_end s t
      then {| ins := ins s; st := fupd (st s) t Done;
              memo := write_back (task_at p t)
                        (body t (match obs s t with Some i => i | None => [] end)) (memo s);
              obs := obs s; nruns := nruns s |}
      else s
  end.
Definition run (m0 : mem) (es : list event) : state := fold_left step es (init m0).

Definition all_done (s : state) : bool :=
  (ins s =? length p) && forallb (fun j => is_done (st s j)) (seq 0 (length p)).
End Engine.

(* the DTD engine: dependencies as built by insertion *)
Definition dtd_run (p : prog) (gate : nat -> nat -> bool) (m0 : mem) (es : list event) : state :=
  run p (dep_fn p) gate m0 es.
End Model.

(* sliding window of parsec_dtd_record_local_task_inserted / parsec_execute_and_come_back
   once task_window_size has reached dtd_window_size: after every [window]-th insertion the
   inserting thread executes tasks until at most [threshold] inserted tasks are unfinished *)
Definition window_gate (window threshold : nat) (inserted ended : nat) : bool :=
  negb ((0 <? window) && (0 <? inserted) && (inserted mod window =? 0) && (threshold <? inserted - ended)).
Definition no_window (inserted ended : nat) : bool := true.

(* ---- the fixed body of the executable model (harness: Fval) -------------- *)
Local Open Scope N_scope.
Definition PMOD : N := 1000003.
Definition fbody (k : tid) (ins : list value) : value :=
  (fold_left (fun a v => (a * 31 + v + 7) mod PMOD) ins (N.of_nat k + 1) * 17 + 3) mod PMOD.
Definition mem0 : mem := fun d => 100 + N.of_nat d.

(* what the driver prints *)
Definition model_inputs (p : prog) : list (list value) := fst (seq_dtd fbody p mem0).
Definition model_final (p : prog) (ndata : nat) : list value :=
  map (snd (seq_dtd fbody p mem0)) (seq 0 ndata).
(* overlaps of conflicting tasks in [running]: 0 by C04 *)
Definition running_conflicts (p : prog) (s : state) : nat :=
  length (filter (fun ij => is_running (st s (fst ij)) && is_running (st s (snd ij)) &&
                            (fst ij <? snd ij)%nat && conflictb (task_at p (fst ij)) (task_at p (snd ij)))
                 (list_prod (seq 0 (length p)) (seq 0 (length p)))).
