(* The "hwloc" map (parsec_vpmap_init_from_hardware_affinity, model hw_loop in
   VpMapDefs.v): one VP per socket that receives a thread, no empty VP, exact
   thread total, threads of a VP on the cores of its socket. *)
From PV Require Import Base.Tac VpMap.VpMapDefs VpMap.VpMapProofs.
Local Open Scope Z_scope.

Definition zsum (l : list Z) : Z := fold_right Z.add 0 l.
Definition nthreads (vs : list (list thread)) : Z := fold_right (fun v a => Z.of_nat (length v) + a) 0 vs.
Definition on_cores (lo : Z) (k : nat) : list thread := map (fun c => mkt 1 0 (Fin [c])) (zseq lo k).

Lemma zsum_nonneg : forall l, Forall (fun n => 1 <= n) l -> 0 <= zsum l.
Proof. induction 1 as [|x l Hx _ IH]; cbn [zsum fold_right]; [lia|fold (zsum l); lia]. Qed.
Lemma zsum_cons : forall n l, zsum (n :: l) = n + zsum l.
Proof. reflexivity. Qed.
Lemma on_cores_length : forall lo k, length (on_cores lo k) = k.
Proof. intros. unfold on_cores. rewrite map_length. apply zseq_length. Qed.

(* everything about one run of the loop, with the core offset c *)
Lemma hw_loop_spec : forall sockets c left, Forall (fun n => 1 <= n) sockets -> 1 <= left ->
  let vs := fst (hw_loop sockets c left) in
  Forall (fun v => v <> []) vs /\
  nthreads vs = Z.min left (zsum sockets) /\
  (length vs <= length sockets)%nat /\
  (sockets <> [] -> (1 <= length vs)%nat /\
     zsum (firstn (length vs - 1) sockets) < Z.min left (zsum sockets) <= zsum (firstn (length vs) sockets)) /\
  (forall v ths, nth_error vs v = Some ths -> exists n, nth_error sockets v = Some n /\
     Z.of_nat (length ths) <= n /\ ths = on_cores (c + zsum (firstn v sockets)) (length ths)).
Proof.
  induction sockets as [|n rest IH]; intros c left Hs Hl; cbn [hw_loop].
  - cbn. split; [constructor|]. split; [lia|]. split; [lia|]. split; [intros E0; congruence|]. intros [|v] ths E0; discriminate.
  - inv Hs. pose proof (zsum_nonneg rest H2) as Hnn.
    destruct ((1 <=? left) && (left <=? n)) eqn:E.
    + cbn [fst]. fold (on_cores c (Z.to_nat left)).
      assert (Hlen : length (on_cores c (Z.to_nat left)) = Z.to_nat left) by apply on_cores_length.
      split; [constructor; auto; intros E0; rewrite E0 in Hlen; cbn in Hlen; lia|].
      split; [cbn [nthreads fold_right zsum]; rewrite Hlen; fold (zsum rest); lia|].
      split; [cbn; lia|].
      split; [intros _; cbn [length firstn zsum fold_right Nat.sub]; fold (zsum rest); lia|].
      intros [|v] ths Hn; cbn in Hn; [|destruct v; discriminate]. inv Hn.
      exists n. cbn [nth_error firstn zsum fold_right]. rewrite Hlen. split; auto. split; [lia|].
      f_equal. lia.
    + assert (Hgt : n < left) by lia.
      specialize (IH (c + n) (left - n) H2 ltac:(lia)).
      destruct (hw_loop rest (c + n) (left - n)) as [vs tot]. cbn [fst] in *.
      destruct IH as (I1 & I2 & I3 & I4 & I5).
      fold (on_cores c (Z.to_nat n)).
      assert (Hlen : length (on_cores c (Z.to_nat n)) = Z.to_nat n) by apply on_cores_length.
      split; [constructor; auto; intros E0; rewrite E0 in Hlen; cbn in Hlen; lia|].
      split; [cbn [nthreads fold_right zsum]; fold (nthreads vs); fold (zsum rest); rewrite Hlen, I2; lia|].
      split; [cbn; lia|].
      split.
      * intros _. cbn [length]. split; [lia|].
        destruct rest as [|m rest'].
        -- cbn in I3. destruct vs; [|cbn in I3; lia]. cbn. lia.
        -- destruct (I4 ltac:(discriminate)) as [J1 J2].
           replace (S (length vs) - 1)%nat with (S (length vs - 1)) by lia.
           rewrite !firstn_cons, !(zsum_cons n). lia.
      * intros [|v] ths Hn; cbn [nth_error] in Hn.
        -- inv Hn. exists n. cbn [nth_error firstn zsum fold_right]. rewrite Hlen. split; auto. split; [lia|].
           f_equal. lia.
        -- destruct (I5 v ths Hn) as (m & M1 & M2 & M3). exists m. cbn [nth_error]. split; auto. split; auto.
           rewrite M3 at 1. f_equal. cbn [firstn zsum fold_right]. fold (zsum (firstn v rest)). lia.
Qed.

(* the map: number of VPs = number of sockets that receive a thread, no VP is
   empty, the threads add up to the request (capped by the machine), VP v sits
   on the first cores of socket v *)
Theorem hwloc_map_spec : forall sockets R sing nb, sockets <> [] -> Forall (fun n => 1 <= n) sockets -> 1 <= nb ->
  exists vs tot, hwloc_map sockets R sing nb = Map (Z.of_nat (length vs)) tot vs /\
    Forall (fun v => v <> []) vs /\
    nthreads vs = Z.min nb (zsum sockets) /\
    (1 <= length vs <= length sockets)%nat /\
    zsum (firstn (length vs - 1) sockets) < Z.min nb (zsum sockets) <= zsum (firstn (length vs) sockets) /\
    (forall v ths, nth_error vs v = Some ths -> exists n, nth_error sockets v = Some n /\
       Z.of_nat (length ths) <= n /\
       ths = map (consolidate sing) (on_cores (zsum (firstn v sockets)) (length ths))).
Proof.
  intros sockets R sing nb Hne Hs Hnb. unfold hwloc_map.
  destruct sockets as [|n0 rest0] eqn:Es; [congruence|]. rewrite <- Es in *.
  pose proof (hw_loop_spec sockets 0 nb Hs Hnb) as H. cbn zeta in H.
  destruct (hw_loop sockets 0 nb) as [vs tot]. cbn [fst] in H.
  destruct H as (H1 & H2 & H3 & H4 & H5). destruct (H4 Hne) as [H6 H7].
  exists (map (map (consolidate sing)) vs), tot. rewrite map_length.
  split; auto.
  split.
  { apply Forall_forall. intros v Hv. apply in_map_iff in Hv. destruct Hv as (v0 & <- & Hin).
    rewrite Forall_forall in H1. specialize (H1 _ Hin). destruct v0; [congruence|discriminate]. }
  split.
  { rewrite <- H2. clear. induction vs as [|v vs IH]; cbn; auto. rewrite map_length. f_equal. exact IH. }
  split; [lia|]. split; auto.
  intros v ths Hn. rewrite nth_error_map in Hn. destruct (nth_error vs v) as [ths0|] eqn:E0; [|discriminate].
  inv Hn. destruct (H5 v ths0 E0) as (n & N1 & N2 & N3). exists n. rewrite map_length. split; auto. split; auto.
  f_equal. rewrite N3 at 1. f_equal.
Qed.
