(* Proofs about the three binding syntaxes of parse_binding_parameter
   (model in VpMapDefs.v): thread counts, and cores inside [0,R) for the
   range and list syntaxes. *)
From Coq Require Import Ascii.
From PV Require Import Base.Tac VpMap.VpMapDefs VpMap.VpMapProofs.
Local Open Scope Z_scope.

(* a thread description that can only lead to available cores: a finite
   (possibly empty) set of indexes below R, or no set at all (not bound) *)
Definition okt (R : Z) (t : thread) : Prop :=
  t_set t <> Full /\ Forall (fun x => 0 <= x < R) (elems (t_set t)).

Lemma okt_zero : forall R, okt R zero_thread.
Proof. intros R. split; [discriminate|constructor]. Qed.
Lemma okt_bound : forall R c, 0 <= c < R -> okt R (bound c).
Proof. intros R c H. split; [discriminate|]. cbn. constructor; auto. Qed.

Lemma in_range_true : forall R a, in_range R a = true -> 0 <= a < R.
Proof. intros R a H. unfold in_range in H. lia. Qed.

(* ---- hexadecimal mask ----------------------------------------------------- *)
Lemma mask_loop_length : forall n bits R prev, length (mask_loop n bits R prev) = n.
Proof. induction n; intros; cbn; auto. Qed.

(* ---- range ------------------------------------------------------------------ *)
Lemma combine_map_Forall : forall (P : thread -> Prop) (f : Z * thread -> thread) (l1 : list Z) (l2 : list thread),
  (forall i th, In th l2 -> P (f (i, th))) -> Forall P (map f (combine l1 l2)).
Proof.
  intros P f l1 l2 H. apply Forall_forall. intros x Hx. apply in_map_iff in Hx.
  destruct Hx as ([i th] & <- & Hin). apply H. eapply in_combine_r; eauto.
Qed.

Lemma range_loop_ok : forall fuel t nbth R start stop step where_ skip acc,
  0 <= start -> stop < R -> start <= where_ <= stop -> 0 <= step -> 0 <= skip ->
  Forall (okt R) acc -> Forall (okt R) (range_loop fuel t nbth R start stop step where_ skip acc).
Proof.
  induction fuel as [|f IH]; intros t nbth R start stop step where_ skip acc H0 H1 Hw Hs Hk Hacc; cbn [range_loop]; auto.
  destruct (nbth <=? t); auto.
  assert (Hacc1 : Forall (okt R) (set_nth (Z.to_nat t) (bound where_) acc)).
  { apply set_nth_Forall; auto. apply okt_bound. lia. }
  destruct (stop <? where_ + step) eqn:E1.
  - destruct (stop <? start + skip) eqn:E2; auto.
    destruct ((step <? skip + 1) && (t <? R - 1)).
    + apply combine_map_Forall. intros i th Hin. rewrite Forall_forall in Hacc1. specialize (Hacc1 _ Hin).
      destruct (t <? i); auto. destruct Hacc1 as [Ha Hb].
      destruct (i =? t + 1); split; cbn [t_set elems]; auto; try discriminate.
    + apply IH; auto; lia.
  - apply IH; auto; lia.
Qed.

Lemma range_loop_length : forall fuel t nbth R start stop step where_ skip acc,
  length (range_loop fuel t nbth R start stop step where_ skip acc) = length acc.
Proof.
  induction fuel as [|f IH]; intros; cbn [range_loop]; auto.
  destruct (nbth <=? t); auto.
  destruct (stop <? where_ + step).
  - destruct (stop <? start + skip); [apply set_nth_length|].
    destruct ((step <? skip + 1) && (t <? R - 1)).
    + rewrite map_length, combine_length, zseq_length, set_nth_length. lia.
    + rewrite IH. apply set_nth_length.
  - rewrite IH. apply set_nth_length.
Qed.

Lemma range_start_ok : forall R o, 1 <= R -> 0 <= range_start R o < R.
Proof.
  intros R o HR. unfold range_start.
  assert (H : forall s, 0 <= (let a := fst (strtol10 s) in if in_range R a then a else 0) < R).
  { intros s. cbn zeta. destruct (in_range R (fst (strtol10 s))) eqn:E; [apply in_range_true; auto|lia]. }
  destruct (match o with c :: _ => Ascii.eqb c ";" | [] => false end); [lia|apply H].
Qed.
Lemma range_stop_ok : forall R p, 1 <= R -> 0 <= fst (range_stop R p) < R.
Proof.
  intros R p HR. unfold range_stop. destruct p as [|c t]; [cbn; lia|].
  destruct (Ascii.eqb c ";"); [cbn; lia|].
  destruct (strtol10 (c :: t)) as [a p']. cbn [fst].
  destruct (in_range R a) eqn:E; [apply in_range_true; auto|lia].
Qed.
Lemma range_step_ok : forall R p2, 0 <= range_step R p2.
Proof.
  intros R p2. unfold range_step. destruct p2 as [[|x [|c t]]|]; try lia.
  cbn zeta. destruct (in_range R (fst (strtol10 (c :: t)))) eqn:E; [apply in_range_true in E|]; lia.
Qed.

Theorem range_in_range : forall R nbth b ths, 1 <= R -> bind_range R nbth b = BOk ths ->
  length ths = nbth /\ Forall (okt R) ths.
Proof.
  intros R nbth b ths HR H. unfold bind_range in H.
  pose proof (range_start_ok R b HR) as Hst.
  set (p := match after_char ";" b with Some p => p | None => [] end) in *.
  pose proof (range_stop_ok R p HR) as Hsp.
  destruct (range_stop R p) as [stop p2]. cbn [fst] in Hsp.
  pose proof (range_step_ok R p2) as Hse.
  remember (range_loop (S nbth) 0 _ _ _ _ _ _ _ _) as rl eqn:Erl in H. injection H as H. subst ths. rewrite Erl. split.
  - rewrite range_loop_length. apply repeat_length.
  - apply range_loop_ok; try lia.
    + destruct (stop <? range_start R b); lia.
    + destruct (stop <? range_start R b) eqn:E; lia.
    + apply Forall_forall. intros x Hx. apply repeat_spec in Hx. subst. apply okt_zero.
Qed.

(* ---- core list ---------------------------------------------------------------- *)
Definition tab_ok (R : Z) (tab : list Z) : Prop := Forall (fun c => c = -1 \/ 0 <= c < R) tab.

Lemma list_range_ok : forall n t R nbth cmp tab cmp' tab',
  0 <= t -> (n <> O -> t + Z.of_nat n <= R) -> tab_ok R tab ->
  list_range n t nbth cmp tab = Some (cmp', tab') -> tab_ok R tab' /\ length tab' = length tab.
Proof.
  induction n as [|k IH]; intros t R nbth cmp tab cmp' tab' Ht Hn Htab H; cbn [list_range] in H.
  - inv H. auto.
  - destruct (nbth <=? cmp)%nat; [discriminate|].
    assert (Hok : tab_ok R (set_nth cmp t tab)).
    { apply set_nth_Forall; auto. right. specialize (Hn ltac:(discriminate)). lia. }
    destruct (S cmp =? nbth)%nat.
    + inv H. split; auto. apply set_nth_length.
    + destruct (IH (t + 1) R nbth (S cmp) _ _ _ ltac:(lia) ltac:(intros; specialize (Hn ltac:(discriminate)); lia) Hok H) as [H1 H2].
      split; auto. rewrite H2. apply set_nth_length.
Qed.

Lemma list_loop_ok : forall fuel R nbth o cmp tab tab', tab_ok R tab ->
  list_loop fuel R nbth o cmp tab = Some tab' -> tab_ok R tab' /\ length tab' = length tab.
Proof.
  induction fuel as [|f IH]; intros R nbth o cmp tab tab' Htab H; cbn [list_loop] in H.
  - inv H. auto.
  - destruct o as [|c0 o0]; [inv H; auto|].
    destruct (nbth <=? cmp)%nat; [inv H; auto|].
    destruct (strtol10 (c0 :: o0)) as [arg o1].
    set (st := if in_range R arg then (S cmp, set_nth cmp arg tab) else (cmp, tab)) in *.
    assert (Hst : tab_ok R (snd st) /\ length (snd st) = length tab).
    { unfold st. destruct (in_range R arg) eqn:E; cbn [snd]; auto.
      split; [|apply set_nth_length]. apply set_nth_Forall; auto. right. apply in_range_true; auto. }
    destruct st as [cmp1 tab1]. cbn [snd] in Hst. destruct Hst as [Hok1 Hl1].
    destruct (list_item_range R nbth arg o1 cmp1 tab1) as [[cmp2 tab2]|] eqn:Er; [|discriminate].
    assert (Hr : tab_ok R tab2 /\ length tab2 = length tab).
    { unfold list_item_range in Er.
      destruct (match strpbrk_cd o1 with Some c => Ascii.eqb c "-" | None => false end).
      - apply list_range_ok with (R := R) in Er; auto; try lia.
        destruct Er as [Hx1 Hx2]. split; auto. lia.
      - inv Er. auto. }
    destruct Hr as [Hok2 Hl2].
    destruct (after_char "," o1) as [o2|].
    + destruct (IH R nbth o2 cmp2 tab2 tab' Hok2 H) as [H1 H2]. split; auto. lia.
    + inv H. auto.
Qed.

Theorem list_in_range : forall R nbth b ths, bind_list R nbth b = BOk ths ->
  length ths = nbth /\
  Forall (fun t => t_nbcores t = 1 /\ exists c, t_set t = Fin [c] /\ (0 <= c < R \/ c = unbound_index)) ths.
Proof.
  intros R nbth b ths H. unfold bind_list in H.
  destruct (list_loop (S (length b)) R nbth b 0 (repeat (-1) nbth)) as [tab|] eqn:E; [|discriminate].
  inv H. apply list_loop_ok in E.
  - destruct E as [Hok Hl]. split; [rewrite map_length, Hl; apply repeat_length|].
    apply Forall_forall. intros t Ht. apply in_map_iff in Ht. destruct Ht as (c & <- & Hc).
    unfold tab_ok in Hok. rewrite Forall_forall in Hok. specialize (Hok c Hc).
    cbn [bound t_nbcores t_set]. split; auto.
    destruct (c =? -1) eqn:Ec; eexists; (split; [reflexivity|]); [right; reflexivity|left; lia].
  - apply Forall_forall. intros x Hx. apply repeat_spec in Hx. left; auto.
Qed.

(* ---- all three: the number of threads described is the number requested --------- *)
Theorem binding_counts : forall R nbth b ths, parse_binding R nbth b = BOk ths -> length ths = nbth.
Proof.
  intros R nbth b ths H. unfold parse_binding in H.
  destruct (after_char "x" b) as [p|].
  - unfold bind_mask in H. destruct (strtoul16 p <? 1); [discriminate|].
    remember (mask_loop _ _ _ _) as ml eqn:Eml in H. injection H as H. subst ths. rewrite Eml. apply mask_loop_length.
  - destruct (has_char ";" b).
    + unfold bind_range in H. destruct (range_stop R _) as [stop p2].
      remember (range_loop (S nbth) 0 _ _ _ _ _ _ _ _) as rl eqn:Erl in H. injection H as H. subst ths. rewrite Erl.
      rewrite range_loop_length. apply repeat_length.
    + apply list_in_range in H. apply H.
Qed.
