(* Executable model of parsec/vpmap.c: parsec_vpmap_init (the dispatcher on
   the runtime_vpmap string), parsec_vpmap_init_from_flat, _from_parameters
   (rr:n:p:c), _from_file and the three binding syntaxes of
   parse_binding_parameter, over an abstract number R of binding resources
   (parsec_hwloc_nb_real_cores()).  No proofs here.

   A C string is a [list ascii] without the terminating NUL.  The model follows
   the code that exists (asserts are compiled out):
   - parsec_hwloc_get_ht() is 1 in this tree (the static hyperth_per_core is
     shadowed by a local in parsec_hwloc_init), so every "for ht < nbht" loop
     runs once and the ht field of a bound thread is -1;
   - the process is MPI rank 0 (MPI not initialised => rank stays 0);
   - the "hwloc" map is modelled separately (hwloc_map, end of the file) over the
     socket sizes hwloc reports; the dispatcher vpmap_init answers Unmodelled for it;
   - numbers in the inputs fit an int (no strtol/sscanf overflow). *)
From Coq Require Import ZArith List Bool Ascii.
Import ListNotations.
Local Open Scope char_scope.
Local Open Scope Z_scope.

Notation str := (list ascii) (only parsing).

(* ---- characters and C library pieces ----------------------------------- *)
Definition is_digit (c : ascii) : bool := let n := nat_of_ascii c in (48 <=? n)%nat && (n <=? 57)%nat.
Definition digit_val (c : ascii) : Z := Z.of_nat (nat_of_ascii c) - 48.
Definition is_space (c : ascii) : bool :=       (* isspace in the C locale *)
  let n := nat_of_ascii c in (n =? 32)%nat || ((9 <=? n)%nat && (n <=? 13)%nat).
Definition hex_val (c : ascii) : option Z :=
  let n := nat_of_ascii c in
  if (48 <=? n)%nat && (n <=? 57)%nat then Some (Z.of_nat n - 48)
  else if (97 <=? n)%nat && (n <=? 102)%nat then Some (Z.of_nat n - 87)
  else if (65 <=? n)%nat && (n <=? 70)%nat then Some (Z.of_nat n - 55)
  else None.
Definition is_octal (c : ascii) : bool := let n := nat_of_ascii c in (48 <=? n)%nat && (n <=? 55)%nat.

Fixpoint skip_spaces (s : str) : str :=
  match s with c :: t => if is_space c then skip_spaces t else s | [] => [] end.

(* digits of a base: value so far, returns (value, rest, number of digits) *)
Fixpoint digits10 (s : str) (acc : Z) (n : nat) : Z * str * nat :=
  match s with
  | c :: t => if is_digit c then digits10 t (10 * acc + digit_val c) (S n) else (acc, s, n)
  | [] => (acc, [], n)
  end.
Fixpoint digits16 (s : str) (acc : Z) (n : nat) : Z * str * nat :=
  match s with
  | c :: t => match hex_val c with Some v => digits16 t (16 * acc + v) (S n) | None => (acc, s, n) end
  | [] => (acc, [], n)
  end.
Fixpoint digits8 (s : str) (acc : Z) (n : nat) : Z * str * nat :=
  match s with
  | c :: t => if is_octal c then digits8 t (8 * acc + digit_val c) (S n) else (acc, s, n)
  | [] => (acc, [], n)
  end.

Definition sign_of (s : str) : Z * str :=
  match s with
  | "-" :: t => (-1, t)
  | "+" :: t => (1, t)
  | _ => (1, s)
  end.

(* strtol(s, &end, 10): (value, end); no digits => (0, s) *)
Definition strtol10 (s : str) : Z * str :=
  let '(sg, s1) := sign_of (skip_spaces s) in
  let '(v, rest, n) := digits10 s1 0 O in
  match n with O => (0, s) | _ => (sg * v, rest) end.

(* strtol(s, &end, 0): decimal, 0octal or 0xhex; no digits => (0, s) *)
Definition strtol0 (s : str) : Z * str :=
  let '(sg, s1) := sign_of (skip_spaces s) in
  match s1 with
  | "0" :: x :: h :: t =>
      if (Ascii.eqb x "x" || Ascii.eqb x "X") && (match hex_val h with Some _ => true | None => false end)
      then let '(v, rest, _) := digits16 (h :: t) 0 O in (sg * v, rest)
      else let '(v, rest, _) := digits8 s1 0 O in (sg * v, rest)
  | "0" :: _ => let '(v, rest, _) := digits8 s1 0 O in (sg * v, rest)
  | _ => let '(v, rest, n) := digits10 s1 0 O in
         match n with O => (0, s) | _ => (sg * v, rest) end
  end.

(* strtoul(s, NULL, 16) modulo 2^64 *)
Definition two64 : Z := 18446744073709551616.
Definition strtoul16 (s : str) : Z :=
  let '(sg, s1) := sign_of (skip_spaces s) in
  let s2 := match s1 with
            | "0" :: x :: h :: t =>
                if (Ascii.eqb x "x" || Ascii.eqb x "X") && (match hex_val h with Some _ => true | None => false end)
                then h :: t else s1
            | _ => s1
            end in
  let '(v, _, _) := digits16 s2 0 O in
  let v' := if two64 <=? v then two64 - 1 else v in
  (sg * v') mod two64.

(* one "%d" of sscanf: leading white space, sign, at least one digit *)
Definition scan_d (s : str) : option (Z * str) :=
  let '(sg, s1) := sign_of (skip_spaces s) in
  let '(v, rest, n) := digits10 s1 0 O in
  match n with O => None | _ => Some (sg * v, rest) end.

Fixpoint prefix (p s : str) : bool :=           (* !strncmp(s, p, strlen(p)) *)
  match p, s with
  | [], _ => true
  | a :: p', b :: s' => Ascii.eqb a b && prefix p' s'
  | _ :: _, [] => false
  end.
Fixpoint strchr (c : ascii) (s : str) : option str :=   (* suffix starting at the first c *)
  match s with
  | [] => None
  | a :: t => if Ascii.eqb a c then Some s else strchr c t
  end.
Definition has_char (c : ascii) (s : str) : bool := match strchr c s with Some _ => true | None => false end.
Definition after_char (c : ascii) (s : str) : option str :=
  match strchr c s with Some (_ :: t) => Some t | _ => None end.

Definition s_flat : str := ["f";"l";"a";"t"].
Definition s_hwloc : str := ["h";"w";"l";"o";"c"].
Definition s_file : str := ["f";"i";"l";"e";":"].
Definition s_rr : str := ["r";"r";":"].
Definition s_display : str := ["d";"i";"s";"p";"l";"a";"y"].
Definition s_null : str := ["(";"n";"u";"l";"l";")"].
Definition nl : ascii := "010".
Definition colon : ascii := ":".

(* ---- the map -------------------------------------------------------------- *)
(* a hwloc bitmap as the code builds them: NULL, a finite set, or everything from 0 *)
Inductive cpuset := Null | Fin (l : list Z) | Full.
Record thread := mkt { t_nbcores : Z; t_ht : Z; t_set : cpuset }.
Definition zero_thread : thread := mkt 0 0 Null.       (* calloc *)

Inductive outcome :=
| Crash                                  (* SIGSEGV / SIGFPE / abort *)
| Fatal                                  (* parsec_fatal: the process exits with status -6 *)
| Map (nbvp total : Z) (vps : list (list thread))   (* parsec_nbvp, parsec_nb_total_threads, defined VPs *)
| Unmodelled.                            (* "hwloc" *)

Fixpoint zseq (lo : Z) (n : nat) : list Z := match n with O => [] | S k => lo :: zseq (lo + 1) k end.

(* hwloc_bitmap_set_range(set, b, e) on an empty bitmap *)
Definition set_range (b e : Z) : cpuset := if e =? -1 then Full else Fin (zseq b (Z.to_nat (e - b + 1))).
(* hwloc_bitmap_singlify *)
Definition singlify (c : cpuset) : cpuset :=
  match c with
  | Full => Fin [0]
  | Fin (x :: l) => Fin [fold_left Z.min l x]
  | other => other
  end.
(* the consolidation loop of parsec_vpmap_init: NULL -> empty, late singlify *)
Definition consolidate (sing : Z) (t : thread) : thread :=
  let c := match t_set t with Null => Fin [] | c => c end in
  mkt (t_nbcores t) (t_ht t) (if 0 <? sing then singlify c else c).

(* parsec_vpmap_init_from_flat(nbthreads) *)
Definition flat_threads (R sing nbt : Z) : list thread :=
  let step := if sing =? -1 then 1 else R / nbt in
  map (fun id => mkt step 0 (set_range (id * step) ((id + 1) * step - 1))) (zseq 0 (Z.to_nat nbt)).
Definition flat (R sing nb : Z) : outcome :=
  let nbt := if nb =? -1 then R else nb in
  if nbt =? 0 then Crash                               (* nbcores / nbthreads *)
  else Map 1 nbt [map (consolidate sing) (flat_threads R sing nbt)].

(* ---- parse_binding_parameter(vp, nbth, binding) --------------------------- *)
Inductive bres := BOk (ths : list thread) | BFatal | BSmash.   (* abort (empty mask) / store past core_tab *)

Definition in_range (R a : Z) : bool := (a <? R) && (-1 <? a).
Definition bound (core : Z) : thread := mkt 1 (-1) (Fin [core]).
Fixpoint set_nth {A} (i : nat) (x : A) (l : list A) : list A :=
  match l, i with
  | [], _ => []
  | _ :: t, O => x :: t
  | y :: t, S j => y :: set_nth j x t
  end.

(* -- hexadecimal mask -- *)
Fixpoint bits_of (fuel : nat) (i : Z) (m : Z) : list Z :=      (* set bits, ascending *)
  match fuel with
  | O => []
  | S f => if m =? 0 then [] else (if Z.odd m then [i] else []) ++ bits_of f (i + 1) (m / 2)
  end.
Fixpoint next_bit (bits : list Z) (prev : Z) : Z :=           (* hwloc_bitmap_next *)
  match bits with [] => -1 | b :: t => if prev <? b then b else next_bit t prev end.
Fixpoint mask_loop (n : nat) (bits : list Z) (R prev : Z) : list thread :=
  match n with
  | O => []
  | S k =>
      let c0 := next_bit bits prev in
      let core := if (c0 =? -1) || (R <? c0) then next_bit bits (-1) else c0 in
      bound core :: mask_loop k bits R core
  end.
Definition bind_mask (R : Z) (nbth : nat) (after_x : str) : bres :=
  let mask := strtoul16 after_x in
  if mask <? 1 then BFatal else BOk (mask_loop nbth (bits_of 64 0 mask) R (-1)).

(* -- range start;end;step -- *)
(* one step of the binding loop; state: threads so far (reversed), where, skip;
   returns the final thread list *)
Fixpoint range_loop (fuel : nat) (t : Z) (nbth R start stop step where_ skip : Z) (acc : list thread) : list thread :=
  match fuel with
  | O => acc
  | S f =>
      if nbth <=? t then acc else
      let acc1 := set_nth (Z.to_nat t) (bound where_) acc in
      let w1 := where_ + step in
      if stop <? w1 then
        let w2 := start + skip in
        let skip2 := skip + 1 in
        if stop <? w2 then acc1                         (* break *)
        else if (step <? skip2) && (t <? R - 1) then
          (* "remaining threads are not bound": nbcores = 1 for th > t, and (ht == nbht == 1 here)
             threads[t+1] receives an empty cpuset and ht = -1 *)
          let acc2 := map (fun p => let '(i, th) := p in
                                    if t <? i then mkt 1 (if i =? t + 1 then -1 else t_ht th)
                                                       (if i =? t + 1 then Fin [] else t_set th)
                                    else th)
                          (combine (zseq 0 (length acc1)) acc1) in
          acc2
        else range_loop f (t + 1) nbth R start stop step w2 skip2 acc1
      else range_loop f (t + 1) nbth R start stop step w1 skip acc1
  end.
(* start: the number before the first ';' when there is one and it is a valid core *)
Definition range_start (R : Z) (option_ : str) : Z :=
  if match option_ with c :: _ => Ascii.eqb c ";" | [] => false end then 0
  else let a := fst (strtol10 option_) in if in_range R a then a else 0.
(* end, and the position left after looking for the ';' of the step (None = NULL) *)
Definition range_stop (R : Z) (p : str) : Z * option str :=
  match p with
  | [] => (R - 1, Some [])
  | c :: _ =>
      if Ascii.eqb c ";" then (R - 1, strchr ";" p)
      else let '(a, p') := strtol10 p in ((if in_range R a then a else R - 1), strchr ";" p')
  end.
(* if (NULL != position) position++;  then the step when something is left
   ("a;" leaves position on the NUL: the byte after it is read, a NUL in the caller's buffer) *)
Definition range_step (R : Z) (p2 : option str) : Z :=
  match p2 with
  | Some (_ :: c :: t) => let a := fst (strtol10 (c :: t)) in if in_range R a then a else 1
  | _ => 1
  end.
Definition bind_range (R : Z) (nbth : nat) (option_ : str) : bres :=
  let start := range_start R option_ in
  let p := match after_char ";" option_ with Some p => p | None => [] end in
  let '(stop, p2) := range_stop R p in
  let step := range_step R p2 in
  let stop' := if stop <? start then R - 1 else stop in
  BOk (range_loop (S nbth) 0 (Z.of_nat nbth) R start stop' step start 1 (repeat zero_thread nbth)).

(* -- core list a,b,c-d -- *)
Definition strpbrk_cd (s : str) : option ascii :=              (* first of ',' '-' in s *)
  (fix go (s : str) := match s with
                       | [] => None
                       | c :: t => if Ascii.eqb c "," || Ascii.eqb c "-" then Some c else go t
                       end) s.
(* for (t = lo; t <= hi; t++) { core_tab[cmp] = t; cmp++; if (cmp == nbth) break; } over the valid t only;
   None = a store at core_tab[nbth] or beyond *)
Fixpoint list_range (n : nat) (t : Z) (nbth : nat) (cmp : nat) (tab : list Z) : option (nat * list Z) :=
  match n with
  | O => Some (cmp, tab)
  | S k => if (nbth <=? cmp)%nat then None
           else let tab' := set_nth cmp t tab in
                if (S cmp =? nbth)%nat then Some (S cmp, tab') else list_range k (t + 1) nbth (S cmp) tab'
  end.
(* if (NULL != (position = strpbrk(option, ",-")) && position[0] == '-') { the range arg+1 .. next_arg } *)
Definition list_item_range (R : Z) (nbth : nat) (arg : Z) (o1 : str) (cmp1 : nat) (tab1 : list Z) : option (nat * list Z) :=
  if match strpbrk_cd o1 with Some c => Ascii.eqb c "-" | None => false end then
    let next_arg := fst (strtol10 (match after_char "-" o1 with Some p => p | None => [] end)) in
    let lo := Z.max (arg + 1) 0 in
    let hi := Z.min next_arg (R - 1) in
    list_range (Z.to_nat (hi - lo + 1)) lo nbth cmp1 tab1
  else Some (cmp1, tab1).
Fixpoint list_loop (fuel : nat) (R : Z) (nbth : nat) (option_ : str) (cmp : nat) (tab : list Z) : option (list Z) :=
  match fuel with
  | O => Some tab
  | S f =>
      match option_ with
      | [] => Some tab
      | _ =>
        if (nbth <=? cmp)%nat then Some tab else
        let '(arg, o1) := strtol10 option_ in
        let '(cmp1, tab1) := if in_range R arg then (S cmp, set_nth cmp arg tab) else (cmp, tab) in
        match list_item_range R nbth arg o1 cmp1 tab1 with
        | None => None
        | Some (cmp2, tab2) =>
            match after_char "," o1 with
            | Some o2 => list_loop f R nbth o2 cmp2 tab2
            | None => Some tab2
            end
        end
      end
  end.
Definition unbound_index : Z := 4294967295.                   (* hwloc_bitmap_set(set, (unsigned)-1) *)
Definition bind_list (R : Z) (nbth : nat) (option_ : str) : bres :=
  match list_loop (S (length option_)) R nbth option_ O (repeat (-1) nbth) with
  | None => BSmash
  | Some tab => BOk (map (fun c => bound (if c =? -1 then unbound_index else c)) tab)
  end.

Definition parse_binding (R : Z) (nbth : nat) (binding : str) : bres :=
  match after_char "x" binding with
  | Some p => bind_mask R nbth p
  | None => if has_char ";" binding then bind_range R nbth binding else bind_list R nbth binding
  end.

(* ---- parsec_vpmap_init_from_file ------------------------------------------- *)
(* getline: the lines of the file, each with its '\n' (the last one maybe without) *)
Fixpoint getlines_aux (s : str) (cur : str) : list str :=
  match s with
  | [] => match cur with [] => [] | _ => [rev cur] end
  | c :: t => if Ascii.eqb c nl then rev (c :: cur) :: getlines_aux t [] else getlines_aux t (c :: cur)
  end.
Definition getlines (s : str) : list str := getlines_aux s [].

(* first loop.  [rol] = offset of rest_of_line in the line buffer: None = the
   pointer was never assigned (a ':'-initial line uses it as it is: wild
   pointer), Some k = left there by the strtol of an earlier line (getline
   reuses the buffer: lines are shorter than its initial 120 bytes).
   Result: None = wild pointer passed to asprintf; Some (nbvp, local_vpmap). *)
Fixpoint phase1 (lines : list str) (nbvp : Z) (local_ : option str) (rol : option nat) : option (Z * option str) :=
  match lines with
  | [] => Some (nbvp, local_)
  | l :: t =>
      let starts_colon := match l with c :: _ => Ascii.eqb c colon | [] => false end in
      let accept (rol' : option nat) :=
        match rol' with
        | None => None
        | Some k =>
            let rest := skipn k l in
            (* if (NULL == local_vpmap) asprintf("%s\n%s", local_vpmap, rest) else strdup(rest)   [sic] *)
            let local' := match local_ with None => s_null ++ nl :: rest | Some _ => rest end in
            phase1 t (nbvp + 1) (Some local') rol'
        end in
      if has_char colon l && negb starts_colon then
        let '(tgt, rest) := strtol0 l in
        let k := (length l - length rest)%nat in
        if tgt =? 0 then accept (Some k) else phase1 t nbvp local_ (Some k)
      else if starts_colon then accept rol
      else phase1 t nbvp local_ rol
  end.

(* second loop: the pieces of local_vpmap between '\n'; piece number v
   initialises parsec_vpmap[v] iff it contains a ':' *)
Fixpoint split_nl_aux (s : str) (cur : str) : list str :=
  match s with
  | [] => [rev cur]
  | c :: t => if Ascii.eqb c nl then rev cur :: split_nl_aux t [] else split_nl_aux t (c :: cur)
  end.
Definition split_nl (s : str) : list str := split_nl_aux s [].

(* (int) strtod(th_arg): integer syntax only (assumption) *)
Definition strtod_int (s : str) : Z := fst (strtol10 s).

(* the pieces in order; piece number v initialises parsec_vpmap[v] iff it contains a ':'.
   A store at parsec_vpmap[v] with v >= nbvp overruns the malloc'd array (the next calloc
   finds the heap corrupted); an empty mask is a parsec_fatal. *)
Inductive p2 := P2Crash | P2Fatal | P2Ok (vps : list (option (list thread))).
Fixpoint phase2 (R : Z) (nbvp : nat) (pieces : list str) (v : nat) : p2 :=
  match pieces with
  | [] => P2Ok []
  | pc :: t =>
      let continue_ (x : option (list thread)) :=
        match phase2 R nbvp t (S v) with P2Ok l => P2Ok (x :: l) | other => other end in
      match after_char colon pc with
      | None => continue_ None
      | Some th_arg =>
          if (nbvp <=? v)%nat then P2Crash else
          let n := strtod_int th_arg in
          let nbth := Z.to_nat (if n <=? 0 then 1 else n) in
          match after_char colon th_arg with
          | None => continue_ (Some (repeat zero_thread nbth))
          | Some b => match parse_binding R nbth b with
                      | BOk ths => continue_ (Some ths)
                      | BFatal => P2Fatal
                      | BSmash => P2Crash
                      end
          end
      end
  end.

Definition is_some {A} (o : option A) : bool := match o with Some _ => true | None => false end.

Definition from_file (R sing : Z) (content : str) : outcome :=
  match phase1 (getlines content) 0 None None with
  | None => Crash                                       (* wild rest_of_line *)
  | Some (nbvp, local_) =>
      if nbvp =? 0 then Map 0 0 []                      (* from_flat(-1) refuses: parsec_nbvp is 0, not -1 *)
      else
        (* parsec_vpmap = malloc(nbvp * sizeof(vpmap_t)): not initialised *)
        let n := Z.to_nat nbvp in
        match phase2 R n (split_nl (match local_ with Some s => s | None => [] end)) O with
        | P2Crash => Crash
        | P2Fatal => Fatal
        | P2Ok vps =>
            (* the consolidation loop walks parsec_vpmap[0 .. nbvp-1]: all of them must have been written *)
            if (n <=? length vps)%nat && forallb is_some (firstn n vps)
            then let vs := map (fun o => match o with Some v => map (consolidate sing) v | None => [] end) (firstn n vps) in
                 Map nbvp (fold_right (fun v a => Z.of_nat (length v) + a) 0 vs) vs
            else Crash
        end
  end.

(* ---- parsec_vpmap_init(optarg, nb_cores) ----------------------------------- *)
(* sscanf(optarg, "rr:%d:%d:%d", &n, &p, &co) == 3 *)
Definition scan_rr (s : str) : option (Z * Z * Z) :=
  match scan_d (skipn 3 s) with
  | Some (n, colon_ :: s1) =>
      if Ascii.eqb colon_ colon then
        match scan_d s1 with
        | Some (p, colon2 :: s2) =>
            if Ascii.eqb colon2 colon then
              match scan_d s2 with Some (c, _) => Some (n, p, c) | None => None end
            else None
        | _ => None
        end
      else None
  | _ => None
  end.

(* which initialiser the string selects *)
Inductive choice := CFlat | CHwloc | CFile (name : str) | CRR (n p c : Z).
Definition strip_display (s : str) : str :=
  if prefix s_display s then match skipn 7 s with c :: t => if Ascii.eqb c colon then t else s | [] => s end else s.
Definition choose (spec : option str) : choice :=
  match spec with
  | None => CFlat
  | Some s0 =>
      let s := strip_display s0 in
      if prefix s_flat s then CFlat
      else if prefix s_hwloc s then CHwloc
      else if prefix s_file s then CFile (skipn 5 s)
      else if prefix s_rr s then match scan_rr s with Some (n, p, c) => CRR n p c | None => CFlat end
      else CFlat                                        (* warning, "Falling back to default!" *)
  end.

(* [file] = the contents of the file the spec names, None if it cannot be opened *)
Definition vpmap_init (spec : option str) (file : option str) (nb R sing : Z) : outcome :=
  match choose spec with
  | CFlat => flat R sing nb
  | CHwloc => Unmodelled
  | CFile _ => match file with
               | None => flat R sing nb                 (* fopen failed: warning, default binding *)
               | Some content => from_file R sing content
               end
  | CRR n p c =>
      (* parsec_nbvp = n; assert(0) is compiled out; parsec_vpmap stays NULL *)
      if n =? -1 then flat R sing nb                    (* -1 is "no map yet" *)
      else if 1 <=? n then Crash                        (* parsec_vpmap[0].cpuset = ... through NULL *)
      else Map n (n * p) []
  end.

(* ---- from the map to cores: parsec.c, parsec_find_core_by_idx /
   parsec_select_vpmap_thread_core / parsec_apply_vpmap_thread_locations ------
   The indexes of the VP map are relative to the cpuset the process is allowed
   to use ([allowed]: its cores in increasing order, context->cpuset_allowed_mask);
   parsec_hwloc_nb_real_cores() is the number of cores in that set. *)
(* the idx-th allowed core, -1 past the end; a negative index names a physical core *)
Definition find_core_by_idx (allowed : list Z) (idx : Z) : Z :=
  if idx <? 0 then - idx else nth (Z.to_nat idx) allowed (-1).
Definition zmem (x : Z) (l : list Z) : bool := existsb (Z.eqb x) l.
(* first allowed candidate that is not used yet, else the first allowed candidate, else -1 *)
Fixpoint select_core (allowed used cands : list Z) (first : Z) : Z :=
  match cands with
  | [] => first
  | w :: t =>
      let c := find_core_by_idx allowed w in
      if c <? 0 then select_core allowed used t first
      else if negb (zmem c used) then c
      else select_core allowed used t (if first <? 0 then c else first)
  end.
(* candidates of a thread in increasing order (an infinite mask is cut at R: past it no index has a core) *)
Definition thread_cands (R : Z) (t : thread) : list Z :=
  match t_set t with Fin l => l | Full => zseq 0 (Z.to_nat R) | Null => [] end.
Fixpoint apply_locations (allowed used : list Z) (R : Z) (ths : list thread) : list Z :=
  match ths with
  | [] => []
  | t :: r => let c := select_core allowed used (thread_cands R t) (-1) in
              c :: apply_locations allowed (if c <? 0 then used else c :: used) R r
  end.
(* parsec_init: nb_cores <= 0 or above the number of cores means all of them *)
Definition init_nb (R nb : Z) : Z := if nb <=? 0 then R else Z.min nb R.
(* the default (flat) map of a process restricted to [allowed]: the core every thread is bound to *)
Definition user_flat_bindings (allowed : list Z) (sing nb : Z) : option (list Z) :=
  let R := Z.of_nat (length allowed) in
  match flat R sing (init_nb R nb) with
  | Map _ _ [ths] => Some (apply_locations allowed [] R ths)
  | _ => None
  end.

(* ---- parsec_vpmap_init_from_hardware_affinity(nbthreads): the "hwloc" map ------
   [sockets] = number of cores of every object at the socket / NUMA level
   (parsec_hwloc_nb_cores_per_obj), in order; parsec_nbht = 1.  One virtual
   process per object, one thread per core in hwloc order; the thread that
   brings the count-down to 0 closes its VP (trimmed to the threads placed so
   far) and the map (parsec_nbvp = vp_id + 1).  Second component: the static
   counter parsec_nb_total_threads, which adds the full size of every visited
   object -- also of the trimmed one (no reader of that counter in the tree). *)
Fixpoint hw_loop (sockets : list Z) (core_id left : Z) : list (list thread) * Z :=
  match sockets with
  | [] => ([], 0)
  | n :: rest =>
      let mk := fun k => map (fun c => mkt 1 0 (Fin [c])) (zseq core_id (Z.to_nat k)) in
      if (1 <=? left) && (left <=? n) then ([mk left], n)
      else let '(vs, tot) := hw_loop rest (core_id + n) (left - n) in (mk n :: vs, n + tot)
  end.
Definition hwloc_map (sockets : list Z) (R sing nb : Z) : outcome :=
  match sockets with
  | [] => flat R sing nb                               (* parsec_nbvp <= 0: the flat map *)
  | _ => let '(vs, tot) := hw_loop sockets 0 nb in
         Map (Z.of_nat (length vs)) tot (map (map (consolidate sing)) vs)
  end.

(* the same with runtime_num_cores = numcores (<= 0: the allowed cores): the user may ask for more threads
   than allowed cores (oversubscription) *)
Definition over_nb (R nb numcores : Z) : Z :=
  let m := if numcores <=? 0 then R else numcores in
  if nb <=? 0 then m else Z.min nb m.
Definition user_flat_bindings_nc (allowed : list Z) (sing nb numcores : Z) : option (list Z) :=
  let R := Z.of_nat (length allowed) in
  match flat R sing (over_nb R nb numcores) with
  | Map _ _ [ths] => Some (apply_locations allowed [] R ths)
  | _ => None
  end.
