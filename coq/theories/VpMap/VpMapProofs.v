(* Proofs about the virtual-process map model (VpMapDefs.v): the flat map, the
   dispatcher, rr and file. *)
From Coq Require Import Ascii.
From PV Require Import Base.Tac VpMap.VpMapDefs.
Local Open Scope Z_scope.

(* ---------------------------------------------------------------------- *)
(* small list facts *)
Lemma zseq_length : forall n lo, length (zseq lo n) = n.
Proof. induction n; intros; cbn; auto. Qed.
Lemma zseq_In : forall n lo x, In x (zseq lo n) <-> lo <= x < lo + Z.of_nat n.
Proof.
  induction n as [|n IH]; intros lo x; cbn [zseq In].
  - lia.
  - rewrite IH. lia.
Qed.
Lemma nth_error_zseq : forall n lo i, (i < n)%nat -> nth_error (zseq lo n) i = Some (lo + Z.of_nat i).
Proof.
  induction n as [|n IH]; intros lo [|i] H; cbn; try lia.
  - f_equal. lia.
  - rewrite IH by lia. f_equal. lia.
Qed.
Lemma set_nth_length : forall {A} (l : list A) i x, length (set_nth i x l) = length l.
Proof. induction l as [|y l IH]; intros [|i] x; cbn; auto. Qed.
Lemma set_nth_Forall : forall {A} (P : A -> Prop) (l : list A) i x, Forall P l -> P x -> Forall P (set_nth i x l).
Proof.
  induction l as [|y l IH]; intros [|i] x Hl Hx; cbn; auto; inv Hl; constructor; auto.
Qed.
Lemma fold_min_le : forall l x, fold_left Z.min l x <= x /\ (In (fold_left Z.min l x) (x :: l)).
Proof.
  induction l as [|y l IH]; intros x; cbn [fold_left].
  - split; [lia|left; auto].
  - destruct (IH (Z.min x y)) as [H1 H2]. split; [lia|].
    destruct H2 as [H2|H2].
    + destruct (Z.min_spec x y) as [[_ E]|[_ E]]; [left|right; left]; congruence.
    + right; right; auto.
Qed.

(* ---------------------------------------------------------------------- *)
(* the flat map *)
Definition elems (c : cpuset) : list Z := match c with Fin l => l | _ => [] end.
Definition is_fin (c : cpuset) : Prop := match c with Fin _ => True | _ => False end.

(* thread number i of a flat map over R cores with nbt threads: its cores are a
   non-empty part of block i of width step *)
Definition flat_step (R sing nbt : Z) : Z := if sing =? -1 then 1 else R / nbt.

Lemma flat_thread_block : forall R sing nbt i, 1 <= nbt <= R -> 0 <= i < nbt ->
  let step := flat_step R sing nbt in
  let t := consolidate sing (mkt step 0 (set_range (i * step) ((i + 1) * step - 1))) in
  1 <= step /\ nbt * step <= R /\ t_ht t = 0 /\ is_fin (t_set t) /\ elems (t_set t) <> [] /\
  Forall (fun x => i * step <= x < (i + 1) * step) (elems (t_set t)).
Proof.
  intros R sing nbt i Hn Hi step t.
  assert (Hs : 1 <= step /\ nbt * step <= R).
  { unfold step, flat_step. destruct (sing =? -1); [lia|].
    split.
    - apply Z.div_le_lower_bound; lia.
    - apply Z.mul_div_le. lia. }
  destruct Hs as [Hs1 Hs2]. split; auto. split; auto.
  unfold t, consolidate, set_range. cbn [t_set t_ht t_nbcores].
  replace ((i + 1) * step - 1 =? -1) with false by nia.
  replace ((i + 1) * step - 1 - i * step + 1) with step by ring.
  assert (Hz : forall x, In x (zseq (i * step) (Z.to_nat step)) -> i * step <= x < (i + 1) * step).
  { intros x Hx. apply zseq_In in Hx. lia. }
  destruct (Z.to_nat step) as [|k] eqn:Ek; [lia|].
  cbn [zseq] in *. split; auto.
  destruct (0 <? sing).
  - cbn [singlify t_set elems is_fin]. split; auto. split; [discriminate|].
    constructor; auto. apply Hz.
    destruct (fold_min_le (zseq (i * step + 1) k) (i * step)) as [_ H]. exact H.
  - cbn [t_set elems is_fin]. split; auto. split; [discriminate|].
    apply Forall_forall. exact Hz.
Qed.

Theorem flat_map : forall R sing nb, 1 <= nb <= R ->
  exists ths, flat R sing nb = Map 1 nb [ths] /\ length ths = Z.to_nat nb /\
    let step := flat_step R sing nb in
    1 <= step /\ nb * step <= R /\
    forall i, 0 <= i < nb -> exists t, nth_error ths (Z.to_nat i) = Some t /\
      t_ht t = 0 /\ is_fin (t_set t) /\ elems (t_set t) <> [] /\
      Forall (fun x => i * step <= x < (i + 1) * step) (elems (t_set t)).
Proof.
  intros R sing nb Hn. unfold flat.
  replace (nb =? -1) with false by lia. replace (nb =? 0) with false by lia.
  eexists. split; [reflexivity|]. split.
  - unfold flat_threads. rewrite !map_length, zseq_length. auto.
  - cbn zeta. destruct (flat_thread_block R sing nb 0 Hn) as (H1 & H2 & _); [lia|].
    split; auto. split; auto. intros i Hi.
    unfold flat_threads. rewrite map_map.
    rewrite nth_error_map, nth_error_zseq by lia. cbn [option_map].
    eexists. split; [reflexivity|].
    replace (0 + Z.of_nat (Z.to_nat i)) with i by lia.
    fold (flat_step R sing nb).
    destruct (flat_thread_block R sing nb i Hn Hi) as (_ & _ & H3 & H4 & H5 & H6). auto.
Qed.

(* read off: every binding lies inside the available cores, and two threads never share a core *)
Corollary flat_bindings_in_range : forall R sing nb ths, 1 <= nb <= R -> flat R sing nb = Map 1 nb [ths] ->
  forall t x, In t ths -> In x (elems (t_set t)) -> 0 <= x < R.
Proof.
  intros R sing nb ths Hn Hf t x Ht Hx.
  destruct (flat_map R sing nb Hn) as (ths' & E & Hl & H1 & H2 & Hall). rewrite Hf in E. inv E.
  destruct (In_nth_error _ _ Ht) as [k Hk].
  assert (Hk' : (k < Z.to_nat nb)%nat) by (rewrite <- Hl; apply nth_error_Some; congruence).
  destruct (Hall (Z.of_nat k)) as (t' & Ht' & _ & _ & _ & HF); [lia|].
  rewrite Nat2Z.id, Hk in Ht'. inv Ht'. rewrite Forall_forall in HF. specialize (HF x Hx). nia.
Qed.
Corollary flat_bindings_disjoint : forall R sing nb ths, 1 <= nb <= R -> flat R sing nb = Map 1 nb [ths] ->
  forall i j ti tj x, nth_error ths i = Some ti -> nth_error ths j = Some tj ->
    In x (elems (t_set ti)) -> In x (elems (t_set tj)) -> i = j.
Proof.
  intros R sing nb ths Hn Hf i j ti tj x Hi Hj Hxi Hxj.
  destruct (flat_map R sing nb Hn) as (ths' & E & Hl & H1 & H2 & Hall). rewrite Hf in E. inv E.
  assert (Hi' : (i < Z.to_nat nb)%nat) by (rewrite <- Hl; apply nth_error_Some; congruence).
  assert (Hj' : (j < Z.to_nat nb)%nat) by (rewrite <- Hl; apply nth_error_Some; congruence).
  destruct (Hall (Z.of_nat i)) as (t1 & Ht1 & _ & _ & _ & HF1); [lia|].
  destruct (Hall (Z.of_nat j)) as (t2 & Ht2 & _ & _ & _ & HF2); [lia|].
  rewrite Nat2Z.id in Ht1, Ht2. rewrite Hi in Ht1. rewrite Hj in Ht2. inv Ht1. inv Ht2.
  rewrite Forall_forall in HF1, HF2. specialize (HF1 x Hxi). specialize (HF2 x Hxj).
  assert (Z.of_nat i = Z.of_nat j) by nia. lia.
Qed.

(* ---------------------------------------------------------------------- *)
(* the dispatcher *)
(* the documented syntaxes, after the optional display: prefix *)
Definition documented (s : list ascii) : bool :=
  let t := strip_display s in
  prefix s_flat t || prefix s_hwloc t || prefix s_file t ||
  (prefix s_rr t && match scan_rr t with Some _ => true | None => false end).

Theorem malformed_falls_back_to_flat : forall s file nb R sing, documented s = false ->
  vpmap_init (Some s) file nb R sing = vpmap_init None file nb R sing /\
  vpmap_init (Some s) file nb R sing = flat R sing nb.
Proof.
  intros s file nb R sing H. unfold documented in H. unfold vpmap_init, choose.
  destruct (prefix s_flat (strip_display s)); [discriminate|].
  destruct (prefix s_hwloc (strip_display s)); [discriminate|].
  destruct (prefix s_file (strip_display s)); [discriminate|].
  destruct (prefix s_rr (strip_display s)); auto.
  destruct (scan_rr (strip_display s)) as [[[n p] c]|]; [discriminate|]. auto.
Qed.

Theorem unreadable_file_falls_back_to_flat : forall s name nb R sing, choose (Some s) = CFile name ->
  vpmap_init (Some s) None nb R sing = flat R sing nb.
Proof. intros s name nb R sing H. unfold vpmap_init. rewrite H. auto. Qed.

Theorem flat_strings : forall s file nb R sing, prefix s_flat (strip_display s) = true ->
  vpmap_init (Some s) file nb R sing = flat R sing nb.
Proof. intros s file nb R sing H. unfold vpmap_init, choose. rewrite H. auto. Qed.

(* rr:n:p:c -- parsec_vpmap_init_from_parameters is a stub *)
Theorem rr_never_a_map : forall s n p c file nb R sing, choose (Some s) = CRR n p c ->
  (1 <= n -> vpmap_init (Some s) file nb R sing = Crash) /\
  (n <= 0 -> n <> -1 -> vpmap_init (Some s) file nb R sing = Map n (n * p) []) /\
  (n = -1 -> vpmap_init (Some s) file nb R sing = flat R sing nb).
Proof.
  intros s n p c file nb R sing H. unfold vpmap_init. rewrite H. repeat split; intros.
  - replace (n =? -1) with false by lia. replace (1 <=? n) with true by lia. auto.
  - replace (n =? -1) with false by lia. replace (1 <=? n) with false by lia. auto.
  - subst. auto.
Qed.

(* ---------------------------------------------------------------------- *)
(* map files *)
Definition no_nl (s : list ascii) : Prop := ~ In nl s.
(* a line as getline returns it *)
Definition line_shape (l : list ascii) : Prop := exists body, (l = body ++ [nl] \/ l = body) /\ no_nl body.

Lemma eqb_nl_false : forall c, Ascii.eqb c nl = false -> c <> nl.
Proof. intros c H E. subst. rewrite Ascii.eqb_refl in H. discriminate. Qed.

Lemma getlines_aux_shape : forall s cur, no_nl cur -> Forall line_shape (getlines_aux s cur).
Proof.
  induction s as [|c s IH]; intros cur Hc; cbn [getlines_aux].
  - destruct cur as [|x cur']; constructor; auto.
    exists (rev (x :: cur')). split; auto. intros H. apply in_rev in H. auto.
  - destruct (Ascii.eqb c nl) eqn:E.
    + apply Ascii.eqb_eq in E. subst. constructor.
      * exists (rev cur). cbn [rev]. split; auto. intros H. apply in_rev in H. auto.
      * apply IH. intros [].
    + apply IH. intros [H|H]; [apply (eqb_nl_false _ E); auto|auto].
Qed.
Lemma getlines_shape : forall s, Forall line_shape (getlines s).
Proof. intros. apply getlines_aux_shape. intros []. Qed.

Lemma skipn_shape : forall l k, line_shape l -> line_shape (skipn k l).
Proof.
  intros l k (body & Hl & Hb).
  destruct (Nat.le_gt_cases k (length body)) as [Hk|Hk].
  - exists (skipn k body). split.
    + destruct Hl as [-> | ->]; [left|right]; auto. rewrite skipn_app.
      replace (k - length body)%nat with O by lia. auto.
    + intros H. apply Hb. rewrite <- (firstn_skipn k body). apply in_or_app. auto.
  - exists []. split; [|intros []].
    destruct Hl as [-> | ->].
    + destruct (Nat.eq_dec k (S (length body))) as [->|Hne].
      * right. rewrite skipn_all2; auto. rewrite app_length. cbn. lia.
      * right. rewrite skipn_all2; auto. rewrite app_length. cbn. lia.
    + right. rewrite skipn_all2; auto. lia.
Qed.

Lemma split_nl_aux_no_nl : forall b cur, no_nl b -> split_nl_aux b cur = [rev cur ++ b].
Proof.
  induction b as [|c b IH]; intros cur Hb; cbn [split_nl_aux].
  - rewrite app_nil_r. auto.
  - destruct (Ascii.eqb c nl) eqn:E.
    + apply Ascii.eqb_eq in E. subst. exfalso. apply Hb. left; auto.
    + rewrite IH by (intros H; apply Hb; right; auto). cbn [rev]. rewrite <- app_assoc. auto.
Qed.
Lemma split_nl_aux_nl : forall b cur, no_nl b -> split_nl_aux (b ++ [nl]) cur = [rev cur ++ b; []].
Proof.
  induction b as [|c b IH]; intros cur Hb; cbn [split_nl_aux app].
  - rewrite Ascii.eqb_refl. rewrite app_nil_r. auto.
  - destruct (Ascii.eqb c nl) eqn:E.
    + apply Ascii.eqb_eq in E. subst. exfalso. apply Hb. left; auto.
    + rewrite IH by (intros H; apply Hb; right; auto). cbn [rev]. rewrite <- app_assoc. auto.
Qed.
Lemma split_nl_shape : forall l, line_shape l -> exists b, split_nl l = [b] \/ split_nl l = [b; []].
Proof.
  intros l (body & [-> | ->] & Hb); exists body; unfold split_nl.
  - right. rewrite split_nl_aux_nl; auto.
  - left. rewrite split_nl_aux_no_nl; auto.
Qed.

(* what the second loop leaves for a piece without ':' *)
Lemma phase2_shape : forall R n ps v vps, phase2 R n ps v = P2Ok vps ->
  Forall2 (fun pc o => after_char colon pc = None -> o = None) ps vps.
Proof.
  induction ps as [|pc ps IH]; intros v vps H; cbn [phase2] in H.
  - inv H. constructor.
  - destruct (after_char colon pc) as [th_arg|] eqn:Ea.
    + destruct (n <=? v)%nat; [discriminate|].
      destruct (after_char colon th_arg) as [b|].
      * destruct (parse_binding R _ b); try discriminate.
        destruct (phase2 R n ps (S v)) eqn:E; try discriminate. inv H.
        constructor; [intros; congruence|eauto].
      * destruct (phase2 R n ps (S v)) eqn:E; try discriminate. inv H.
        constructor; [intros; congruence|eauto].
    + destruct (phase2 R n ps (S v)) eqn:E; try discriminate. inv H.
      constructor; [auto|eauto].
Qed.

(* the local_vpmap string after the first loop *)
Definition local_inv (lines : list (list ascii)) (nbvp : Z) (local_ : option (list ascii)) : Prop :=
  (nbvp = 0 /\ local_ = None) \/
  (nbvp = 1 /\ exists rest, local_ = Some (s_null ++ nl :: rest)) \/
  (2 <= nbvp /\ exists l k, In l lines /\ local_ = Some (skipn k l)).

Lemma phase1_inv : forall all lines nbvp local_ rol n' loc',
  (forall l, In l lines -> In l all) -> local_inv all nbvp local_ ->
  phase1 lines nbvp local_ rol = Some (n', loc') -> local_inv all n' loc'.
Proof.
  intros all. induction lines as [|l t IH]; intros nbvp local_ rol n' loc' Hsub Hinv H; cbn [phase1] in H.
  - inv H. auto.
  - assert (Hsub' : forall x, In x t -> In x all) by (intros; apply Hsub; right; auto).
    assert (Hl : In l all) by (apply Hsub; left; auto).
    assert (Hacc : forall k, local_inv all (nbvp + 1)
               (Some match local_ with None => s_null ++ nl :: skipn k l | Some _ => skipn k l end)).
    { intros k. destruct Hinv as [(-> & ->)|[(-> & rest & ->)|(Hn & l0 & k0 & Hin & ->)]].
      - right; left. split; auto. eauto.
      - right; right. split; [lia|]. eauto.
      - right; right. split; [lia|]. eauto. }
    destruct (has_char colon l && negb match l with [] => false | c :: _ => Ascii.eqb c colon end).
    + destruct (strtol0 l) as [tgt rest]. destruct (tgt =? 0).
      * eapply IH; [exact Hsub'| |exact H]. apply Hacc; auto.
      * eapply IH; eauto.
    + destruct (match l with [] => false | c :: _ => Ascii.eqb c colon end).
      * destruct rol as [k|]; [|discriminate]. eapply IH; [exact Hsub'| |exact H]. apply Hacc; auto.
      * eapply IH; eauto.
Qed.

(* a readable map file never produces a map with a virtual process: the
   process dies (at least one line applied to it) or the map is empty *)
Theorem file_never_a_map : forall R sing content,
  from_file R sing content = Crash \/ from_file R sing content = Fatal \/ from_file R sing content = Map 0 0 [].
Proof.
  intros R sing content. unfold from_file.
  destruct (phase1 (getlines content) 0 None None) as [[nbvp local_]|] eqn:E1; [|auto].
  assert (Hinv : local_inv (getlines content) nbvp local_).
  { eapply phase1_inv; [| |exact E1]; auto. left; auto. }
  destruct Hinv as [(-> & ->)|[(-> & rest & ->)|(Hn & l & k & Hin & ->)]].
  - cbn. auto.
  - replace (1 =? 0) with false by lia.
    (* the first piece is "(null)": parsec_vpmap[0] is never written *)
    assert (Hs : split_nl (s_null ++ nl :: rest) = s_null :: split_nl rest) by reflexivity.
    rewrite Hs. cbn [phase2].
    replace (after_char colon s_null) with (@None (list ascii)) by reflexivity.
    destruct (phase2 R (Z.to_nat 1) (split_nl rest) 1) as [| |vps]; auto.
  - replace (nbvp =? 0) with false by lia.
    assert (Hsh : line_shape (skipn k l)).
    { apply skipn_shape. pose proof (getlines_shape content) as HF. rewrite Forall_forall in HF. auto. }
    destruct (split_nl_shape _ Hsh) as [b [Hs|Hs]]; rewrite Hs.
    + destruct (phase2 R (Z.to_nat nbvp) [b] 0) as [| |vps] eqn:E2; auto.
      apply phase2_shape in E2. inv E2. inv H3.
      replace (Z.to_nat nbvp <=? length [y])%nat with false; auto.
      symmetry. apply Nat.leb_gt. cbn. lia.
    + destruct (phase2 R (Z.to_nat nbvp) [b; []] 0) as [| |vps] eqn:E2; auto.
      apply phase2_shape in E2. inv E2. inv H3. inv H5.
      specialize (H2 eq_refl). subst.
      destruct (Z.to_nat nbvp) as [|[|[|m]]] eqn:En; try lia.
      * cbn. destruct (is_some y); auto.
      * cbn. auto.
Qed.

Theorem file_no_line_empty_map : forall R sing content,
  phase1 (getlines content) 0 None None = Some (0, None) -> from_file R sing content = Map 0 0 [].
Proof. intros R sing content H. unfold from_file. rewrite H. reflexivity. Qed.

(* ---------------------------------------------------------------------- *)
(* from the map to cores: every thread of a flat map is bound to a core of the
   cpuset the process is allowed to use, whatever the shape of that cpuset *)
Lemma find_core_in : forall allowed w, Forall (fun c => 0 <= c) allowed -> 0 <= w < Z.of_nat (length allowed) ->
  In (find_core_by_idx allowed w) allowed /\ 0 <= find_core_by_idx allowed w.
Proof.
  intros allowed w Hpos Hw. unfold find_core_by_idx. replace (w <? 0) with false by lia.
  assert (Hin : In (nth (Z.to_nat w) allowed (-1)) allowed) by (apply nth_In; lia).
  split; auto. rewrite Forall_forall in Hpos. auto.
Qed.

Lemma select_core_in : forall allowed used cands first, Forall (fun c => 0 <= c) allowed ->
  Forall (fun w => 0 <= w < Z.of_nat (length allowed)) cands ->
  (first = -1 \/ In first allowed) -> (cands <> [] \/ In first allowed) ->
  In (select_core allowed used cands first) allowed.
Proof.
  intros allowed used cands. induction cands as [|w t IH]; intros first Hpos Hc Hf Hne; cbn [select_core].
  - destruct Hne as [Hne|Hne]; [congruence|auto].
  - inv Hc. destruct (find_core_in allowed w Hpos H1) as [Hin Hge].
    replace (find_core_by_idx allowed w <? 0) with false by lia.
    destruct (negb (zmem (find_core_by_idx allowed w) used)); auto.
    apply IH; auto.
    + destruct (first <? 0) eqn:E; auto.
    + right. destruct (first <? 0) eqn:E; auto. destruct Hf as [->|Hf]; [discriminate|auto].
Qed.

Lemma apply_locations_in : forall allowed R ths used, Forall (fun c => 0 <= c) allowed -> R = Z.of_nat (length allowed) ->
  Forall (fun t => is_fin (t_set t) /\ elems (t_set t) <> [] /\ Forall (fun x => 0 <= x < R) (elems (t_set t))) ths ->
  length (apply_locations allowed used R ths) = length ths /\
  Forall (fun c => In c allowed) (apply_locations allowed used R ths).
Proof.
  intros allowed R ths. induction ths as [|t r IH]; intros used Hpos HR Hths; cbn [apply_locations].
  - split; auto.
  - inv Hths. destruct H1 as (Hfin & Hne & Hrange).
    destruct (IH (if select_core allowed used (thread_cands (Z.of_nat (length allowed)) t) (-1) <? 0 then used
                  else select_core allowed used (thread_cands (Z.of_nat (length allowed)) t) (-1) :: used) Hpos eq_refl H2) as [IH1 IH2].
    split; [cbn; rewrite IH1; auto|]. constructor; auto.
    unfold thread_cands. destruct (t_set t) as [|l|]; cbn in Hfin; try contradiction.
    apply select_core_in; auto.
Qed.

Theorem flat_bindings_inside_cpuset : forall allowed sing nb, allowed <> [] -> Forall (fun c => 0 <= c) allowed ->
  exists cores, user_flat_bindings allowed sing nb = Some cores /\
    length cores = Z.to_nat (init_nb (Z.of_nat (length allowed)) nb) /\
    Forall (fun c => In c allowed) cores.
Proof.
  intros allowed sing nb Hne Hpos. unfold user_flat_bindings.
  set (R := Z.of_nat (length allowed)).
  assert (HR : 1 <= R) by (unfold R; destruct allowed; [congruence|cbn [length]; lia]).
  assert (Hnb : 1 <= init_nb R nb <= R) by (unfold init_nb; destruct (nb <=? 0) eqn:E; lia).
  destruct (flat_map R sing (init_nb R nb) Hnb) as (ths & Hf & Hl & H1 & H2 & Hall). rewrite Hf.
  eexists. split; [reflexivity|].
  assert (Hths : Forall (fun t => is_fin (t_set t) /\ elems (t_set t) <> [] /\ Forall (fun x => 0 <= x < R) (elems (t_set t))) ths).
  { apply Forall_forall. intros t Ht. destruct (In_nth_error _ _ Ht) as [k Hk].
    assert (Hk' : (k < Z.to_nat (init_nb R nb))%nat) by (rewrite <- Hl; apply nth_error_Some; congruence).
    destruct (Hall (Z.of_nat k)) as (t' & Ht' & _ & Hfin & Hne' & HF); [lia|].
    rewrite Nat2Z.id, Hk in Ht'. inv Ht'. split; auto. split; auto.
    eapply Forall_impl; [|exact HF]. cbn. intros x Hx. nia. }
  destruct (apply_locations_in allowed R ths [] Hpos eq_refl Hths) as [A1 A2]. split; auto. lia.
Qed.

(* the oversubscription fallback of parsec_select_vpmap_thread_core: whatever the candidates (indexes >= 0
   relative to the allowed cpuset), the cores already used and the fallback remembered so far, the result
   is an allowed core or "not bound" -- never an index that was not translated *)
Lemma find_core_allowed_or_none : forall allowed w, 0 <= w ->
  find_core_by_idx allowed w = -1 \/ In (find_core_by_idx allowed w) allowed.
Proof.
  intros allowed w Hw. unfold find_core_by_idx. replace (w <? 0) with false by lia.
  destruct (nth_in_or_default (Z.to_nat w) allowed (-1)); auto.
Qed.
Theorem select_core_allowed_or_unbound : forall allowed used cands first,
  Forall (fun w => 0 <= w) cands -> (first = -1 \/ In first allowed) ->
  select_core allowed used cands first = -1 \/ In (select_core allowed used cands first) allowed.
Proof.
  intros allowed used cands. induction cands as [|w t IH]; intros first Hc Hf; cbn [select_core]; auto.
  inv Hc. destruct (find_core_by_idx allowed w <? 0) eqn:E; [apply IH; auto|].
  destruct (find_core_allowed_or_none allowed w H1) as [Hn|Hin]; [lia|].
  destruct (negb (zmem (find_core_by_idx allowed w) used)); auto.
  apply IH; auto. destruct (first <? 0); auto.
Qed.

Lemma apply_locations_allowed : forall allowed R ths used,
  Forall (fun t => Forall (fun w => 0 <= w) (thread_cands R t)) ths ->
  Forall (fun c => c = -1 \/ In c allowed) (apply_locations allowed used R ths).
Proof.
  intros allowed R ths. induction ths as [|t r IH]; intros used H; cbn [apply_locations]; constructor.
  - inv H. apply select_core_allowed_or_unbound; auto.
  - inv H. apply IH; auto.
Qed.

Lemma zseq_nonneg : forall n lo, 0 <= lo -> Forall (fun w => 0 <= w) (zseq lo n).
Proof. intros n lo H. apply Forall_forall. intros x Hx. apply zseq_In in Hx. lia. Qed.

(* every flat map, oversubscribed or not, on every cpuset: each thread ends on an allowed core or unbound *)
Theorem flat_bindings_never_escape : forall allowed sing nb numcores cores, 1 <= Z.of_nat (length allowed) ->
  user_flat_bindings_nc allowed sing nb numcores = Some cores ->
  Forall (fun c => c = -1 \/ In c allowed) cores.
Proof.
  intros allowed sing nb numcores cores HR H. unfold user_flat_bindings_nc, flat in H.
  set (R := Z.of_nat (length allowed)) in *.
  assert (Hn : 1 <= over_nb R nb numcores).
  { unfold over_nb. destruct (numcores <=? 0) eqn:E1; destruct (nb <=? 0) eqn:E2; lia. }
  set (n := over_nb R nb numcores) in *.
  replace (n =? -1) with false in H by lia. replace (n =? 0) with false in H by lia. inv H.
  apply apply_locations_allowed. apply Forall_forall. intros t Ht.
  apply in_map_iff in Ht. destruct Ht as (t0 & <- & Ht0).
  unfold flat_threads in Ht0. apply in_map_iff in Ht0. destruct Ht0 as (id & <- & Hid).
  apply zseq_In in Hid.
  set (step := if sing =? -1 then 1 else R / n).
  assert (Hstep : 0 <= step).
  { unfold step. destruct (sing =? -1); [lia|]. apply Z.div_pos; lia. }
  unfold thread_cands, consolidate, set_range. cbn [t_set].
  destruct ((id + 1) * step - 1 =? -1).
  - destruct (0 <? sing); cbn; [constructor; [lia|constructor]|apply zseq_nonneg; lia].
  - destruct (Z.to_nat ((id + 1) * step - 1 - id * step + 1)) as [|k] eqn:Ek; cbn [zseq].
    + destruct (0 <? sing); cbn; constructor.
    + assert (Hz : Forall (fun w => 0 <= w) (id * step :: zseq (id * step + 1) k)) by (apply (zseq_nonneg (S k)); nia).
      destruct (0 <? sing); cbn [singlify]; auto.
      constructor; [|constructor].
      destruct (fold_min_le (zseq (id * step + 1) k) (id * step)) as [_ Hin].
      rewrite Forall_forall in Hz. apply Hz. exact Hin.
Qed.
