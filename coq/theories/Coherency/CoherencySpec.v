(* Specification vocabulary of C26 over the model of CoherencyDefs.v:
   state predicates, caller contracts and the clauses of the property.
   Definitions only; proofs are in CoherencyProofs.v. *)
From Coq Require Import ZArith List Bool.
From PV Require Import Coherency.CoherencyDefs.
Import ListNotations.
Local Open Scope Z_scope.

(* ---- state predicates ---------------------------------------------------- *)
(* every OWNED copy sits on owner_device; hence at most one copy is OWNED *)
Definition one_owner (dt : data) : Prop :=
  forall i c, getc (copies dt) i = Some c -> cst c = OWNED -> owner dt = Z.of_nat i.
(* when the datum has an owner, every other copy is INVALID or SHARED *)
Definition others_shared (dt : data) : Prop :=
  0 <= owner dt -> forall i c, getc (copies dt) i = Some c -> Z.of_nat i <> owner dt ->
  cst c = INVALID \/ cst c = SHARED.
Definition Inv12 (dt : data) : Prop := one_owner dt /\ others_shared dt.

(* slot s holds a valid copy whose version is the greatest among the valid copies:
   "the newest version"; for the target of an access this is "up to date" *)
Definition newest_at (dt : data) (s : nat) : Prop :=
  exists cs_, getc (copies dt) s = Some cs_ /\ cst cs_ <> INVALID /\
  forall i c, getc (copies dt) i = Some c -> cst c <> INVALID -> ver c <= ver cs_.
Definition uptodate (dt : data) (d : nat) : Prop := newest_at dt d.

(* the invariant of histories of accesses ([b] bounds the version numbers) *)
Definition owner_newest (dt : data) : Prop := 0 <= owner dt -> newest_at dt (Z.to_nat (owner dt)).
Definition equal_when_unowned (dt : data) : Prop :=
  owner dt = -1 -> forall i j ci cj, getc (copies dt) i = Some ci -> cst ci <> INVALID ->
  getc (copies dt) j = Some cj -> cst cj <> INVALID -> ver ci = ver cj.
Definition vers_in (dt : data) (b : Z) : Prop :=
  forall i c, getc (copies dt) i = Some c -> 0 <= ver c <= b.
Definition J (dt : data) (b : Z) : Prop :=
  -1 <= owner dt /\ (length (copies dt) <= 128)%nat /\ Inv12 dt /\ owner_newest dt /\
  equal_when_unowned dt /\ vers_in dt b.
(* the owner's copy is still OWNED (no read-only access by the owner demoted it) *)
Definition owner_owned (dt : data) : Prop :=
  0 <= owner dt -> exists co, getc (copies dt) (Z.to_nat (owner dt)) = Some co /\ cst co = OWNED.

(* ---- histories of primitive operations ----------------------------------- *)
Fixpoint ok_along (P : data -> op -> Prop) (rs : rstate) (ops : list op) : Prop :=
  match ops with [] => True | o :: r => P (dat rs) o /\ ok_along P (fst (step rs o)) r end.
(* contract under which the one-owner invariant is kept: device numbers fit int8_t, and a write
   transfer is ended while its target is still owner_device (always true of
   parsec_data_transfer_ownership_to_copy, which runs start and end under the lock) *)
Definition pre_owner (dt : data) (o : op) : Prop :=
  match o with
  | OStart d _ | OXfer d _ => (d < 128)%nat
  | OEnd d m => mw m = true -> owner dt = Z.of_nat d
  | _ => True
  end.

(* readers: +1 by each start/transfer with the READ bit, -1 by each release *)
Definition reads_on (d : nat) (o : op) : Z :=
  match o with
  | OStart d' m | OXfer d' m => if Nat.eqb d' d && mr m then 1 else 0
  | _ => 0
  end.
Definition rels_on (d : nat) (o : op) : Z :=
  match o with ORel d' => if Nat.eqb d' d then 1 else 0 | _ => 0 end.
(* the protocol "start before release": a release happens only while a reader is pending *)
Fixpoint balanced (d : nat) (pending : Z) (ops : list op) : Prop :=
  match ops with
  | [] => True
  | o :: r => (rels_on d o = 1 -> 0 < pending) /\ balanced d (pending + reads_on d o - rels_on d o) r
  end.

(* ---- histories of accesses ------------------------------------------------ *)
Fixpoint tx_along (P : data -> tx -> Prop) (dt : data) (ts : list tx) : Prop :=
  match ts with [] => True | t :: r => P dt t /\ tx_along P (fst (tx_step dt t)) r end.
(* Q pre-state access post-state return-value, at every step of the history *)
Fixpoint tx_all (Q : data -> tx -> data -> Z -> Prop) (dt : data) (ts : list tx) : Prop :=
  match ts with
  | [] => True
  | t :: r => Q dt t (fst (tx_step dt t)) (snd (tx_step dt t)) /\ tx_all Q (fst (tx_step dt t)) r
  end.

(* hypotheses = the assertions of the two functions (data_transfer_status is not touched by
   start, so the assertion of end is evaluated on the state before the access) *)
Definition tx_asserts (dt : data) (t : tx) : Prop :=
  match t with
  | Acc d m => start_asserts dt d m = true /\ end_asserts dt d = true
  | Again => True
  end.
(* the restriction under which "transfer iff stale" is provable *)
Definition no_owner_readonly (dt : data) (t : tx) : Prop :=
  match t with
  | Acc d m => ~ (owner dt = Z.of_nat d /\ mr m = true /\ mw m = false)
  | Again => True
  end.

(* the clauses, per access *)
Definition transfer_only_if_stale (dt : data) (t : tx) (_ : data) (r : Z) : Prop :=
  match t with Acc d m => 0 <= r -> mr m = true /\ ~ uptodate dt d | Again => True end.
Definition transfer_if_stale (dt : data) (t : tx) (_ : data) (r : Z) : Prop :=
  match t with Acc d m => mr m = true -> ~ uptodate dt d -> 0 <= r | Again => True end.
Definition source_newest (dt : data) (t : tx) (_ : data) (r : Z) : Prop :=
  match t with Acc d m => 0 <= r -> newest_at dt (Z.to_nat r) | Again => True end.
Definition write_owns (dt : data) (t : tx) (dt' : data) (_ : Z) : Prop :=
  match t with
  | Acc d m => mw m = true ->
      owner dt' = Z.of_nat d /\
      (exists c', getc (copies dt') d = Some c' /\ cst c' = OWNED /\
         forall i c, i <> d -> getc (copies dt') i = Some c ->
           (cst c = INVALID \/ cst c = SHARED) /\ (cst c <> INVALID -> ver c < ver c'))
  | Again => True
  end.
