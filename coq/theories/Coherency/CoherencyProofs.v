(* Proofs for C26 (data copy ownership transfers, parsec/data.c) over the model of
   CoherencyDefs.v and the vocabulary of CoherencySpec.v. *)
From PV Require Import Base.Tac Coherency.CoherencyDefs Coherency.CoherencySpec.
Local Open Scope Z_scope.


(* ===== lists, scans ===== *)
(* ---------- lists ---------- *)
Lemma nth_error_mapi_from {A B} (f : nat -> A -> B) l : forall k i,
  nth_error (mapi_from f k l) i = option_map (f (k + i)%nat) (nth_error l i).
Proof.
  induction l as [|x l IH]; intros k i; destruct i; cbn [mapi_from nth_error option_map]; try reflexivity.
  - now rewrite Nat.add_0_r.
  - rewrite IH. now rewrite Nat.add_succ_r.
Qed.
Lemma length_mapi_from {A B} (f : nat -> A -> B) l : forall k, length (mapi_from f k l) = length l.
Proof. induction l; intros; cbn [mapi_from length]; auto. Qed.

Lemma getc_upd_each f cs i : getc (upd_each f cs) i = option_map (f i) (getc cs i).
Proof.
  unfold getc, upd_each. rewrite nth_error_mapi_from. cbn [Nat.add].
  destruct (nth_error cs i) as [[c|]|]; reflexivity.
Qed.
Lemma getc_upd_at d f cs i :
  getc (upd_at d f cs) i = option_map (fun c => if Nat.eqb i d then f c else c) (getc cs i).
Proof. unfold upd_at. now rewrite getc_upd_each. Qed.
Lemma length_upd_each f cs : length (upd_each f cs) = length cs.
Proof. apply length_mapi_from. Qed.
Lemma getc_lt cs i c : getc cs i = Some c -> (i < length cs)%nat.
Proof. unfold getc. intros H. apply nth_error_Some. destruct (nth_error cs i); congruence. Qed.

Lemma option_map_map {A B C} (f : A -> B) (g : B -> C) o :
  option_map g (option_map f o) = option_map (fun x => g (f x)) o.
Proof. destruct o; reflexivity. Qed.
Lemma option_map_ext' {A B} (f g : A -> B) o : (forall x, o = Some x -> f x = g x) -> option_map f o = option_map g o.
Proof. destruct o; cbn; intros H; [now rewrite H|reflexivity]. Qed.

Lemma sint8_small z : 0 <= z < 128 -> sint8 z = z.
Proof. intros H. unfold sint8. rewrite Z.mod_small by lia. destruct (z <? 128) eqn:E; lia. Qed.

(* ---------- the scans ---------- *)
Lemma scan_valid_spec l : forall k acc,
  (scan_valid k l acc = acc /\ forall i c, getc l i = Some c -> cst c = INVALID) \/
  (exists i c, scan_valid k l acc = Z.of_nat (k + i) /\ getc l i = Some c /\ cst c <> INVALID).
Proof.
  induction l as [|o l IH]; intros k acc; cbn [scan_valid].
  - left. split; [reflexivity|]. intros [|i] c H; discriminate.
  - destruct (IH (S k) (match o with Some c => if is_invalid (cst c) then acc else Z.of_nat k | None => acc end))
      as [[He Hall]|(i & c & He & Hg & Hv)].
    + destruct o as [c0|]; [destruct (is_invalid (cst c0)) eqn:E0|].
      * left. split; [exact He|]. intros [|i] c H; [|now apply (Hall i)].
        unfold getc in H; cbn in H. inversion H; subst. destruct (cst c); cbn in E0; congruence.
      * right. exists 0%nat, c0. rewrite Nat.add_0_r. repeat split; auto.
        destruct (cst c0); cbn in E0; congruence.
      * left. split; [exact He|]. intros [|i] c H; [discriminate|now apply (Hall i)].
    + right. exists (S i), c. rewrite Nat.add_succ_r. repeat split; auto.
Qed.

Lemma newer_owned_true cs v : newer_owned cs v = true <->
  exists i c, getc cs i = Some c /\ cst c = OWNED /\ v < ver c.
Proof.
  unfold newer_owned. rewrite existsb_exists. split.
  - intros (o & Hin & Ho). destruct o as [c|]; [|discriminate].
    apply andb_prop in Ho as [Ho Hv]. apply In_nth_error in Hin as [i Hi].
    exists i, c. unfold getc; rewrite Hi. repeat split; [|lia]. destruct (cst c); cbn in Ho; congruence.
  - intros (i & c & Hg & Ho & Hv). exists (Some c). split.
    + unfold getc in Hg. destruct (nth_error cs i) as [[c'|]|] eqn:E; try discriminate.
      inversion Hg; subst. eapply nth_error_In; eauto.
    + rewrite Ho. cbn. lia.
Qed.

Lemma max_valid_spec cs : forall dflt,
  dflt <= max_valid cs dflt /\
  (forall i c, getc cs i = Some c -> cst c <> INVALID -> ver c <= max_valid cs dflt) /\
  (max_valid cs dflt = dflt \/ exists i c, getc cs i = Some c /\ cst c <> INVALID /\ ver c = max_valid cs dflt).
Proof.
  unfold max_valid. induction cs as [|o cs IH]; intros dflt; cbn [fold_left].
  - split; [lia|]. split; [|now left]. intros [|i] c H; discriminate.
  - set (a := match o with Some x => if is_invalid (cst x) then dflt else Z.max dflt (ver x) | None => dflt end).
    destruct (IH a) as (H1 & H2 & H3).
    assert (Ha : dflt <= a) by (subst a; destruct o as [x|]; [destruct (is_invalid (cst x))|]; lia).
    split; [lia|]. split.
    + intros [|i] c Hg Hv; [|now apply (H2 i)].
      unfold getc in Hg; cbn in Hg. destruct o as [x|]; [|discriminate]. inversion Hg; subst x.
      subst a. destruct (cst c) eqn:E; cbn in *; try congruence; lia.
    + destruct H3 as [H3|(i & c & Hg & Hv & He)].
      * rewrite H3. subst a. destruct o as [x|]; [destruct (is_invalid (cst x)) eqn:E|]; auto.
        destruct (Z.max_spec dflt (ver x)) as [[? Hm]|[? Hm]]; rewrite Hm; auto.
        right. exists 0%nat, x. repeat split; auto. destruct (cst x); cbn in E; congruence.
      * right. exists (S i), c. auto.
Qed.

(* ===== pointwise description of start ===== *)
Definition unexcl (x : copy) : copy := if is_exclusive (cst x) then set_st x SHARED else x.
Lemma rd_body_false tv x : rd_body false tv x = unexcl x.
Proof. unfold rd_body, unexcl. destruct (cst x); reflexivity. Qed.

Lemma option_map_id' {A} (g : A -> A) o : (forall x, o = Some x -> x = g x) -> o = option_map g o.
Proof. destruct o; cbn; intros H; [now rewrite <- H|reflexivity]. Qed.

(* the copy in slot i after start, as a function of the copy before; [tro] = the target is OWNED
   and the access does not write, [tv] = the target's version *)
Definition post_start_gen (tro : bool) (tv : Z) (own_is_d : bool) (m : mode) (req : bool) (d i : nat) (x : copy) : copy :=
  if own_is_d then (if Nat.eqb i d && mr m then set_rdr x (rdr x + 1) else x)
  else
    let x1 := if mr m && negb (Nat.eqb i d) then rd_body tro tv x else x in
    let x2 := if mw m then (if is_invalid (cst x1) then x1 else set_st x1 SHARED) else x1 in
    if Nat.eqb i d
    then (let x3 := if mr m then set_rdr x2 (rdr x2 + 1) else x2 in if req then set_st x3 INVALID else x3)
    else x2.
Definition start_req (dt : data) (d : nat) (m : mode) (c : copy) : bool :=
  if owner dt =? Z.of_nat d then false else mr m && fst (classify (copies dt) c (owner dt)).
Definition start_src (dt : data) (c : copy) : Z := snd (classify (copies dt) c (owner dt)).
Definition start_own (dt : data) (d : nat) (m : mode) (c : copy) : Z :=
  if mw m then sint8 (Z.of_nat d)
  else if owner dt =? Z.of_nat d then owner dt
  else if mr m && (is_owned (cst c) && negb (mw m)) && other_valid d 0 (copies dt) then -1 else owner dt.

Lemma start_spec_gen dt d m c : getc (copies dt) d = Some c ->
  exists cs', start dt d m = (mkdata (start_own dt d m c) cs', if start_req dt d m c then start_src dt c else -1)
    /\ length cs' = length (copies dt)
    /\ forall i, getc cs' i = option_map (post_start_gen (is_owned (cst c) && negb (mw m)) (ver c)
                                            (owner dt =? Z.of_nat d) m (start_req dt d m c) d i) (getc (copies dt) i).
Proof.
  intros Hd. unfold start, start_req, start_src, start_own. rewrite Hd.
  destruct (owner dt =? Z.of_nat d) eqn:Eo.
  - unfold bookkeeping. eexists. split; [reflexivity|]. split.
    + destruct (mr m); [apply length_upd_each|reflexivity].
    + intros i. unfold post_start_gen. destruct (mr m).
      * rewrite getc_upd_at. apply option_map_ext'. intros x _. rewrite andb_true_r. reflexivity.
      * destruct (getc (copies dt) i); cbn; [rewrite andb_false_r|]; reflexivity.
  - destruct (classify (copies dt) c (owner dt)) as [req valid] eqn:Ec. cbn [fst snd].
    unfold after_read. unfold bookkeeping.
    destruct (mr m) eqn:Er, (mw m) eqn:Ew, req; cbn [andb negb]; rewrite ?andb_false_r; cbn [andb];
      (eexists; split; [reflexivity|]; split;
       [ unfold upd_at, write_loop, read_loop; rewrite ?length_upd_each; reflexivity
       | intros i; rewrite ?getc_upd_at; unfold write_loop, read_loop; rewrite ?getc_upd_each, ?getc_upd_at, ?getc_upd_each;
         rewrite ?option_map_map;
         first [apply option_map_ext' | apply option_map_id']; intros x _; unfold post_start_gen; rewrite ?Er, ?Ew;
         destruct (Nat.eqb i d); cbn [andb negb]; reflexivity ]).
Qed.

Definition post_start := post_start_gen false 0.

Lemma post_start_gen_false tv b m req d i x : post_start_gen false tv b m req d i x = post_start b m req d i x.
Proof. unfold post_start, post_start_gen. now rewrite !rd_body_false. Qed.

Lemma start_spec dt d m c : getc (copies dt) d = Some c ->
  (owner dt <> Z.of_nat d -> is_owned (cst c) && negb (mw m) = false) ->
  exists cs', start dt d m = (mkdata (if mw m then sint8 (Z.of_nat d) else owner dt) cs',
                              if start_req dt d m c then start_src dt c else -1)
    /\ length cs' = length (copies dt)
    /\ forall i, getc cs' i = option_map (post_start (owner dt =? Z.of_nat d) m (start_req dt d m c) d i) (getc (copies dt) i).
Proof.
  intros Hd Hno. destruct (start_spec_gen dt d m c Hd) as (cs' & Hs & Hl & Hg).
  exists cs'. split; [|split; [exact Hl|]].
  - rewrite Hs. f_equal. f_equal. unfold start_own. destruct (mw m); [reflexivity|].
    destruct (owner dt =? Z.of_nat d) eqn:Eo; [reflexivity|]. rewrite Hno by lia. now rewrite andb_false_r.
  - intros i. rewrite Hg. destruct (owner dt =? Z.of_nat d) eqn:Eo.
    + reflexivity.
    + rewrite Hno by lia. apply option_map_ext'. intros x _. apply post_start_gen_false.
Qed.

Lemma post_start_unfold b m req d i x : post_start b m req d i x =
  if b then (if Nat.eqb i d && mr m then set_rdr x (rdr x + 1) else x)
  else
    let x1 := if mr m && negb (Nat.eqb i d) then unexcl x else x in
    let x2 := if mw m then (if is_invalid (cst x1) then x1 else set_st x1 SHARED) else x1 in
    if Nat.eqb i d
    then (let x3 := if mr m then set_rdr x2 (rdr x2 + 1) else x2 in if req then set_st x3 INVALID else x3)
    else x2.
Proof. unfold post_start, post_start_gen. now rewrite !rd_body_false. Qed.

(* ===== the one-owner invariant through the primitive operations ===== *)
Lemma getc_some_map {f : copy -> copy} {cs cs' i c'} :
  getc cs' i = option_map f (getc cs i) -> getc cs' i = Some c' ->
  exists x, getc cs i = Some x /\ c' = f x.
Proof. intros H H'. rewrite H' in H. destruct (getc cs i) as [x|]; [|discriminate]. exists x. cbn in H. split; congruence. Qed.

Lemma one_owner_no_tro dt d m c : one_owner dt -> getc (copies dt) d = Some c ->
  owner dt <> Z.of_nat d -> is_owned (cst c) && negb (mw m) = false.
Proof. intros H1 Hd Hne. destruct (cst c) eqn:E; auto. exfalso. apply Hne. eapply H1; eauto. Qed.

Lemma start_Inv12 dt d m : Inv12 dt -> (d < 128)%nat -> Inv12 (fst (start dt d m)).
Proof.
  intros [H1 H2] Hd8. destruct (getc (copies dt) d) as [c|] eqn:Hd.
  2:{ unfold start. rewrite Hd. split; assumption. }
  destruct (start_spec dt d m c Hd (one_owner_no_tro dt d m c H1 Hd)) as (cs' & Hs & _ & Hg).
  rewrite Hs. cbn [fst]. rewrite sint8_small by lia.
  assert (Hnoown : owner dt <> Z.of_nat d -> cst c <> OWNED).
  { intros Hne Ho. apply Hne. eapply H1; eauto. }
  destruct (owner dt =? Z.of_nat d) eqn:Eo.
  - assert (Ho : owner dt = Z.of_nat d) by lia.
    assert (Hown : (if mw m then Z.of_nat d else owner dt) = owner dt) by (destruct (mw m); lia).
    split.
    + intros i c' Hi Hc'. cbn [owner copies] in *. rewrite Hown.
      destruct (getc_some_map (Hg i) Hi) as (x & Hx & ->).
      apply (H1 i x Hx). rewrite post_start_unfold in Hc'. destruct (Nat.eqb i d && mr m); exact Hc'.
    + intros Hge i c' Hi Hne. cbn [owner copies] in *. rewrite Hown in *.
      destruct (getc_some_map (Hg i) Hi) as (x & Hx & ->).
      rewrite post_start_unfold. destruct (Nat.eqb i d && mr m); cbn [cst set_rdr]; apply (H2 Hge i x Hx Hne).
  - assert (Hne : owner dt <> Z.of_nat d) by lia. specialize (Hnoown Hne).
    split.
    + intros i c' Hi Hc'. cbn [owner copies] in *.
      destruct (getc_some_map (Hg i) Hi) as (x & Hx & ->).
      destruct (Nat.eqb i d) eqn:Eid.
      * apply Nat.eqb_eq in Eid; subst i. rewrite Hd in Hx; inversion Hx; subst x.
        exfalso. rewrite post_start_unfold in Hc'; unfold unexcl in Hc'. rewrite Nat.eqb_refl in Hc'.
        destruct (mr m), (mw m), (start_req dt d m c), (cst c) eqn:Ec; cbn in Hc'; rewrite ?Ec in Hc'; cbn in Hc'; congruence.
      * rewrite post_start_unfold in Hc'; unfold unexcl in Hc'. rewrite Eid in Hc'.
        destruct (mw m) eqn:Ew.
        -- exfalso. destruct (mr m), (cst x) eqn:Ex; cbn in Hc'; rewrite ?Ex in Hc'; cbn in Hc'; congruence.
        -- apply (H1 i x Hx). destruct (mr m), (cst x) eqn:Ex; cbn in Hc'; rewrite ?Ex in Hc'; cbn in Hc'; congruence.
    + intros Hge i c' Hi Hni. cbn [owner copies] in *.
      destruct (getc_some_map (Hg i) Hi) as (x & Hx & ->).
      destruct (mw m) eqn:Ew.
      * assert (Eid : Nat.eqb i d = false) by (apply Nat.eqb_neq; intros ->; lia).
        rewrite post_start_unfold; unfold unexcl. rewrite Eid, Ew.
        destruct (mr m), (cst x) eqn:Ex; cbn; rewrite ?Ex; cbn; auto.
      * destruct (Nat.eqb i d) eqn:Eid.
        -- apply Nat.eqb_eq in Eid; subst i. rewrite Hd in Hx; inversion Hx; subst x.
           destruct (H2 Hge d c Hd Hni) as [Ec|Ec];
           rewrite post_start_unfold; unfold unexcl; rewrite Nat.eqb_refl, Ew;
           destruct (mr m), (start_req dt d m c); cbn; rewrite ?Ec; cbn; auto.
        -- destruct (H2 Hge i x Hx Hni) as [Ec|Ec];
           rewrite post_start_unfold; unfold unexcl; rewrite Eid, Ew;
           destruct (mr m); cbn; rewrite ?Ec; cbn; auto.
Qed.

Lemma endt_Inv12 dt d m : Inv12 dt -> (mw m = true -> owner dt = Z.of_nat d) -> Inv12 (endt dt d m).
Proof.
  intros [H1 H2] Hw. unfold endt. split.
  - intros i c' Hi Hc'. cbn [owner copies] in *. rewrite getc_upd_at in Hi.
    destruct (getc (copies dt) i) as [x|] eqn:Hx; [|discriminate]. cbn in Hi. inversion Hi; subst c'; clear Hi.
    destruct (Nat.eqb i d) eqn:Eid.
    + apply Nat.eqb_eq in Eid; subst i. destruct (mw m) eqn:Ew; [auto|].
      destruct (mr m); cbn in Hc'; [discriminate|]. eapply H1; eauto.
    + eapply H1; eauto.
  - intros Hge i c' Hi Hni. cbn [owner copies] in *. rewrite getc_upd_at in Hi.
    destruct (getc (copies dt) i) as [x|] eqn:Hx; [|discriminate]. cbn in Hi. inversion Hi; subst c'; clear Hi.
    destruct (Nat.eqb i d) eqn:Eid.
    + apply Nat.eqb_eq in Eid; subst i. destruct (mw m) eqn:Ew; [exfalso; apply Hni; symmetry; auto|].
      destruct (mr m); cbn; auto. eapply H2; eauto.
    + eapply H2; eauto.
Qed.

(* an update that leaves the coherency state of every copy and the owner alone *)
Lemma upd_at_Inv12 dt d f : (forall c, cst (f c) = cst c) -> Inv12 dt ->
  Inv12 (mkdata (owner dt) (upd_at d f (copies dt))).
Proof.
  intros Hf [H1 H2]. split.
  - intros i c' Hi Hc'. cbn [owner copies] in *. rewrite getc_upd_at in Hi.
    destruct (getc (copies dt) i) as [x|] eqn:Hx; [|discriminate]. cbn in Hi. inversion Hi; subst c'; clear Hi.
    apply (H1 i x Hx). destruct (Nat.eqb i d); [rewrite Hf in Hc'|]; auto.
  - intros Hge i c' Hi Hni. cbn [owner copies] in *. rewrite getc_upd_at in Hi.
    destruct (getc (copies dt) i) as [x|] eqn:Hx; [|discriminate]. cbn in Hi. inversion Hi; subst c'; clear Hi.
    destruct (Nat.eqb i d); [rewrite Hf|]; eapply H2; eauto.
Qed.

Lemma start_owner_w dt d m : (d < 128)%nat -> mw m = true -> getc (copies dt) d <> None ->
  owner (fst (start dt d m)) = Z.of_nat d.
Proof.
  intros Hd8 Hw Hd. unfold start. destruct (getc (copies dt) d) as [c|]; [|congruence].
  destruct (owner dt =? Z.of_nat d).
  - unfold bookkeeping. rewrite Hw. cbn. apply sint8_small; lia.
  - destruct (classify (copies dt) c (owner dt)) as [req valid]. destruct (after_read dt d m c) as [own1 cs1].
    unfold bookkeeping. rewrite Hw. destruct (if mr m then req else false); cbn; apply sint8_small; lia.
Qed.

Lemma step_Inv12 rs o : Inv12 (dat rs) -> pre_owner (dat rs) o -> Inv12 (dat (fst (step rs o))).
Proof.
  intros HI Hp. destruct o as [d m|d m|d m|d v|d|d|d|d|d k]; cbn [step pre_owner] in *.
  - pose proof (start_Inv12 (dat rs) d m HI Hp) as H. destruct (start (dat rs) d m); exact H.
  - cbn. apply endt_Inv12; auto.
  - unfold transfer. pose proof (start_Inv12 (dat rs) d m HI Hp) as H.
    destruct (getc (copies (dat rs)) d) as [c|] eqn:Hd.
    + pose proof (start_owner_w (dat rs) d m Hp) as Ho. rewrite Hd in Ho.
      destruct (start (dat rs) d m) as [dt1 r]. cbn [fst dat] in *. apply endt_Inv12; auto.
      intros Hw. apply Ho; [exact Hw|discriminate].
    + unfold start in *. rewrite Hd in *. cbn [fst dat] in *.
      unfold endt. destruct HI as [H1 H2]. split.
      * intros i c' Hi. cbn [owner copies] in *. rewrite getc_upd_at in Hi.
        destruct (getc (copies (dat rs)) i) as [x|] eqn:Hx; [|discriminate].
        destruct (Nat.eqb i d) eqn:Eid; [apply Nat.eqb_eq in Eid; subst; congruence|].
        cbn in Hi. inversion Hi; subst. eapply H1; eauto.
      * intros Hge i c' Hi. cbn [owner copies] in *. rewrite getc_upd_at in Hi.
        destruct (getc (copies (dat rs)) i) as [x|] eqn:Hx; [|discriminate].
        destruct (Nat.eqb i d) eqn:Eid; [apply Nat.eqb_eq in Eid; subst; congruence|].
        cbn in Hi. inversion Hi; subst. eapply H2; eauto.
  - cbn. apply upd_at_Inv12; auto.
  - cbn. apply upd_at_Inv12; auto.
  - cbn. destruct (0 <=? lookup d (lasts rs)); [|exact HI]. unfold pull.
    destruct (getc (copies (dat rs)) (Z.to_nat (lookup d (lasts rs)))); [|exact HI]. apply upd_at_Inv12; auto.
  - cbn. unfold bump. destruct (getc (copies (dat rs)) d); [|exact HI]. apply upd_at_Inv12; auto.
  - cbn. apply upd_at_Inv12; auto.
  - cbn. apply upd_at_Inv12; auto.
Qed.

Theorem run_Inv12 ops : forall rs, Inv12 (dat rs) -> ok_along pre_owner rs ops ->
  Forall (fun sv => Inv12 (dat (fst sv))) (run rs ops).
Proof.
  induction ops as [|o ops IH]; intros rs HI Hok; cbn [run]; [constructor|].
  destruct Hok as [Hp Hok]. pose proof (step_Inv12 rs o HI Hp) as H1.
  destruct (step rs o) as [rs1 v] eqn:Es. cbn [fst] in *. constructor; [exact H1|]. apply IH; auto.
Qed.

Lemma one_owner_unique dt i j ci cj : one_owner dt ->
  getc (copies dt) i = Some ci -> cst ci = OWNED -> getc (copies dt) j = Some cj -> cst cj = OWNED -> i = j.
Proof. intros H Hi Hci Hj Hcj. pose proof (H i ci Hi Hci). pose proof (H j cj Hj Hcj). lia. Qed.

(* ===== readers; effect of one start on the other copies ===== *)
(* ---------- readers ---------- *)
Lemma rd_body_rdr tro tv x : rdr (rd_body tro tv x) = rdr x.
Proof. unfold rd_body. destruct (is_invalid (cst x)); [reflexivity|].
  destruct tro; [destruct (ver x <? tv)|]; cbn;
  repeat match goal with |- context[if ?b then _ else _] => destruct b end; reflexivity. Qed.

Lemma post_start_gen_rdr tro tv b m req d i x :
  rdr (post_start_gen tro tv b m req d i x) = rdr x + (if Nat.eqb i d && mr m then 1 else 0).
Proof.
  unfold post_start_gen. destruct b.
  - destruct (Nat.eqb i d && mr m); cbn; lia.
  - destruct (Nat.eqb i d) eqn:Eid, (mr m) eqn:Er, (mw m) eqn:Ew, req; cbn [andb negb];
      repeat match goal with |- context[if ?b then _ else _] => destruct b end;
      cbn [rdr set_st set_rdr]; rewrite ?rd_body_rdr; lia.
Qed.

Lemma start_rdr dt d m d0 c0 : getc (copies dt) d0 = Some c0 ->
  exists c', getc (copies (fst (start dt d m))) d0 = Some c' /\
             rdr c' = rdr c0 + (if Nat.eqb d d0 && mr m then 1 else 0).
Proof.
  intros H0. destruct (getc (copies dt) d) as [c|] eqn:Hd.
  - destruct (start_spec_gen dt d m c Hd) as (cs' & Hs & _ & Hg). rewrite Hs. cbn [fst copies].
    rewrite Hg, H0. cbn [option_map]. eexists. split; [reflexivity|].
    rewrite post_start_gen_rdr. rewrite (Nat.eqb_sym d0 d). reflexivity.
  - unfold start. rewrite Hd. cbn [fst]. exists c0. split; [exact H0|].
    destruct (Nat.eqb d d0) eqn:E; [apply Nat.eqb_eq in E; subst; congruence|]. cbn. lia.
Qed.

Lemma getc_upd_at_some d f cs i c0 : getc cs i = Some c0 ->
  getc (upd_at d f cs) i = Some (if Nat.eqb i d then f c0 else c0).
Proof. intros H0. now rewrite getc_upd_at, H0. Qed.

Lemma endt_rdr dt d m d0 c0 : getc (copies dt) d0 = Some c0 ->
  exists c', getc (copies (endt dt d m)) d0 = Some c' /\ rdr c' = rdr c0.
Proof.
  intros H0. unfold endt. cbn [copies]. rewrite (getc_upd_at_some _ _ _ _ _ H0).
  eexists. split; [reflexivity|]. destruct (Nat.eqb d0 d), (mr m), (mw m); reflexivity.
Qed.

Ltac upd_rdr H0 := rewrite (getc_upd_at_some _ _ _ _ _ H0); eexists; split; [reflexivity|];
  match goal with |- context[Nat.eqb ?a ?b] => destruct (Nat.eqb a b) end; cbn; lia.

Lemma step_rdr rs o d0 c0 : getc (copies (dat rs)) d0 = Some c0 ->
  exists c', getc (copies (dat (fst (step rs o)))) d0 = Some c' /\
             rdr c' = rdr c0 + reads_on d0 o - rels_on d0 o.
Proof.
  intros H0. destruct o as [d m|d m|d m|d v|d|d|d|d|d k]; cbn [step reads_on rels_on].
  - destruct (start_rdr (dat rs) d m d0 c0 H0) as (c' & Hg & Hr).
    destruct (start (dat rs) d m) as [dt1 r]. cbn [fst dat] in *. exists c'. split; [exact Hg|]. lia.
  - cbn [fst dat]. destruct (endt_rdr (dat rs) d m d0 c0 H0) as (c' & Hg & Hr). exists c'. split; [exact Hg|]. lia.
  - unfold transfer. destruct (start_rdr (dat rs) d m d0 c0 H0) as (c1 & Hg1 & Hr1).
    destruct (start (dat rs) d m) as [dt1 r]. cbn [fst dat] in *.
    destruct (endt_rdr dt1 d m d0 c1 Hg1) as (c' & Hg & Hr). exists c'. split; [exact Hg|]. lia.
  - cbn [fst dat]. unfold setv. cbn [copies]. upd_rdr H0.
  - cbn [fst dat]. unfold incv. cbn [copies]. upd_rdr H0.
  - cbn [fst dat]. destruct (0 <=? lookup d (lasts rs)); [|exists c0; split; [exact H0|lia]].
    unfold pull. destruct (getc (copies (dat rs)) (Z.to_nat (lookup d (lasts rs)))) as [sc|]; [|exists c0; split; [exact H0|lia]].
    cbn [copies]. upd_rdr H0.
  - cbn [fst dat]. unfold bump. destruct (getc (copies (dat rs)) d) as [c|]; [|exists c0; split; [exact H0|lia]].
    unfold setv. cbn [copies]. upd_rdr H0.
  - cbn [fst dat]. unfold release. cbn [copies]. rewrite (Nat.eqb_sym d d0). upd_rdr H0.
  - cbn [fst dat]. unfold setx. cbn [copies]. upd_rdr H0.
Qed.

Definition net_reads (d : nat) (ops : list op) : Z :=
  fold_right (fun o a => reads_on d o - rels_on d o + a) 0 ops.

Theorem readers_exact d ops : forall rs c0, getc (copies (dat rs)) d = Some c0 ->
  exists c, getc (copies (dat (final rs ops))) d = Some c /\ rdr c = rdr c0 + net_reads d ops.
Proof.
  induction ops as [|o ops IH]; intros rs c0 H0; cbn [final net_reads fold_right].
  - exists c0. split; [exact H0|lia].
  - destruct (step_rdr rs o d c0 H0) as (c1 & Hg1 & Hr1).
    destruct (IH _ c1 Hg1) as (c & Hg & Hr). exists c. split; [exact Hg|]. unfold net_reads in Hr. lia.
Qed.

Lemma rels_on_range d o : rels_on d o = 0 \/ rels_on d o = 1.
Proof. destruct o; cbn; auto. destruct (Nat.eqb d0 d); auto. Qed.
Lemma reads_on_range d o : 0 <= reads_on d o.
Proof. destruct o; cbn; try lia; destruct (Nat.eqb d0 d && mr m); lia. Qed.

Theorem readers_nonneg d ops : forall rs c0, getc (copies (dat rs)) d = Some c0 -> 0 <= rdr c0 ->
  balanced d (rdr c0) ops ->
  Forall (fun sv => exists c, getc (copies (dat (fst sv))) d = Some c /\ 0 <= rdr c) (run rs ops).
Proof.
  induction ops as [|o ops IH]; intros rs c0 H0 Hpos Hb; cbn [run]; [constructor|].
  destruct Hb as [Hrel Hb]. destruct (step_rdr rs o d c0 H0) as (c1 & Hg1 & Hr1).
  destruct (step rs o) as [rs1 v]. cbn [fst] in *.
  assert (Hpos1 : 0 <= rdr c1).
  { pose proof (reads_on_range d o). destruct (rels_on_range d o) as [E|E]; [lia|]. specialize (Hrel E). lia. }
  constructor.
  - exists c1. auto.
  - apply (IH rs1 c1 Hg1 Hpos1). rewrite Hr1. exact Hb.
Qed.

(* ---------- effect of a start with the WRITE bit on the other copies ---------- *)
Theorem start_write_effect dt d m c : getc (copies dt) d = Some c -> (d < 128)%nat -> mw m = true ->
  owner (fst (start dt d m)) = Z.of_nat d /\
  forall i x, i <> d -> getc (copies dt) i = Some x ->
    exists x', getc (copies (fst (start dt d m))) i = Some x' /\
      ver x' = ver x /\ rdr x' = rdr x /\ xfer x' = xfer x /\
      cst x' = if owner dt =? Z.of_nat d then cst x
               else if is_invalid (cst x) then INVALID else SHARED.
Proof.
  intros Hd Hd8 Hw. split; [apply start_owner_w; auto; congruence|].
  assert (Hno : owner dt <> Z.of_nat d -> is_owned (cst c) && negb (mw m) = false) by (intros _; rewrite Hw; apply andb_false_r).
  destruct (start_spec dt d m c Hd Hno) as (cs' & Hs & _ & Hg). rewrite Hs. cbn [fst copies].
  intros i x Hne Hx. rewrite Hg, Hx. cbn [option_map]. eexists. split; [reflexivity|].
  rewrite post_start_unfold. assert (Eid : Nat.eqb i d = false) by (now apply Nat.eqb_neq).
  rewrite Eid, Hw. unfold unexcl. destruct (owner dt =? Z.of_nat d); cbn [andb].
  - auto.
  - destruct (mr m), (cst x) eqn:Ex; cbn; rewrite ?Ex; cbn; auto.
Qed.

(* after the locked entry point with the WRITE bit the target is OWNED *)
Theorem transfer_write_owned dt d m c : getc (copies dt) d = Some c -> (d < 128)%nat -> mw m = true ->
  owner (fst (transfer dt d m)) = Z.of_nat d /\
  exists c', getc (copies (fst (transfer dt d m))) d = Some c' /\ cst c' = OWNED.
Proof.
  intros Hd Hd8 Hw. unfold transfer.
  pose proof (start_owner_w dt d m Hd8 Hw) as Ho. rewrite Hd in Ho.
  destruct (start_rdr dt d m d c Hd) as (c1 & Hg1 & _).
  destruct (start dt d m) as [dt1 r]. cbn [fst] in *. split; [apply Ho; discriminate|].
  unfold endt. cbn [copies]. rewrite getc_upd_at, Hg1, Nat.eqb_refl, Hw. cbn. eexists; split; reflexivity.
Qed.

(* a start without the WRITE bit on a copy that is not OWNED only demotes EXCLUSIVE copies *)
Theorem start_read_effect dt d m c : getc (copies dt) d = Some c -> mw m = false ->
  (owner dt <> Z.of_nat d -> cst c <> OWNED) ->
  owner (fst (start dt d m)) = owner dt /\
  forall i x, i <> d -> getc (copies dt) i = Some x ->
    exists x', getc (copies (fst (start dt d m))) i = Some x' /\
      ver x' = ver x /\ rdr x' = rdr x /\ xfer x' = xfer x /\
      cst x' = if negb (owner dt =? Z.of_nat d) && mr m && is_exclusive (cst x) then SHARED else cst x.
Proof.
  intros Hd Hw Hno0.
  assert (Hno : owner dt <> Z.of_nat d -> is_owned (cst c) && negb (mw m) = false).
  { intros Hne. specialize (Hno0 Hne). destruct (cst c); cbn; auto; congruence. }
  destruct (start_spec dt d m c Hd Hno) as (cs' & Hs & _ & Hg). rewrite Hs. cbn [fst copies owner]. rewrite Hw.
  split; [reflexivity|].
  intros i x Hne Hx. rewrite Hg, Hx. cbn [option_map]. eexists. split; [reflexivity|].
  rewrite post_start_unfold. assert (Eid : Nat.eqb i d = false) by (now apply Nat.eqb_neq).
  rewrite Eid, Hw. unfold unexcl. destruct (owner dt =? Z.of_nat d); cbn [andb negb].
  - auto.
  - destruct (mr m), (cst x) eqn:Ex; cbn; rewrite ?Ex; cbn; auto.
Qed.

(* ===== pointwise description of one access ===== *)
Lemma unexcl_ver x : ver (unexcl x) = ver x.
Proof. unfold unexcl. destruct (is_exclusive (cst x)); reflexivity. Qed.
Lemma post_start_ver b m req d i x : ver (post_start b m req d i x) = ver x.
Proof.
  rewrite post_start_unfold. destruct b.
  - destruct (Nat.eqb i d && mr m); reflexivity.
  - destruct (Nat.eqb i d), (mr m), (mw m), req; cbn [andb negb];
      repeat match goal with |- context[if ?b then _ else _] => destruct b end;
      cbn [ver set_st set_rdr]; rewrite ?unexcl_ver; reflexivity.
Qed.
Lemma post_start_xfer b m req d i x : xfer (post_start b m req d i x) = xfer x.
Proof.
  rewrite post_start_unfold. unfold unexcl. destruct b.
  - destruct (Nat.eqb i d && mr m); reflexivity.
  - destruct (Nat.eqb i d), (mr m), (mw m), req; cbn [andb negb];
      repeat match goal with |- context[if ?b then _ else _] => destruct b end; reflexivity.
Qed.
(* coherency state of a copy other than the target after start *)
Lemma post_start_cst_other b m req d i x : i <> d ->
  cst (post_start b m req d i x) =
    if b then cst x
    else if mw m then (if is_invalid (cst x) then INVALID else SHARED)
    else if mr m then (if is_exclusive (cst x) then SHARED else cst x) else cst x.
Proof.
  intros Hne. rewrite post_start_unfold. assert (E : Nat.eqb i d = false) by (now apply Nat.eqb_neq). rewrite E.
  unfold unexcl. destruct b; [reflexivity|]. cbn [andb negb].
  destruct (mr m), (mw m), (cst x) eqn:Ex; cbn; rewrite ?Ex; cbn; rewrite ?Ex; reflexivity.
Qed.

Lemma set_ver_same c : set_ver c (ver c) = c.
Proof. destruct c; reflexivity. Qed.

Definition acc_ret (dt : data) (d : nat) (m : mode) (c : copy) : Z :=
  if start_req dt d m c then start_src dt c else -1.
(* the version the target holds once the requested transfer (if any) completed *)
Definition acc_vp (dt : data) (d : nat) (m : mode) (c : copy) : Z :=
  if 0 <=? acc_ret dt d m c
  then match getc (copies dt) (Z.to_nat (acc_ret dt d m c)) with Some sc => ver sc | None => ver c end
  else ver c.

Lemma access_view dt d m c : getc (copies dt) d = Some c ->
  (owner dt <> Z.of_nat d -> is_owned (cst c) && negb (mw m) = false) ->
  exists cs' vd,
    access dt d m = (mkdata (if mw m then sint8 (Z.of_nat d) else owner dt) cs', acc_ret dt d m c) /\
    length cs' = length (copies dt) /\
    (forall i, i <> d -> getc cs' i =
       option_map (post_start (owner dt =? Z.of_nat d) m (start_req dt d m c) d i) (getc (copies dt) i)) /\
    getc cs' d = Some (mkcopy (if mw m then OWNED else if mr m then SHARED else cst c) vd
                              (rdr c + (if mr m then 1 else 0)) (xfer c)) /\
    (mw m = false -> vd = acc_vp dt d m c) /\
    (mw m = true -> exists M, vd = (M + 1) mod two32 /\ acc_vp dt d m c <= M /\
       (forall i x', i <> d -> getc cs' i = Some x' -> cst x' <> INVALID -> ver x' <= M) /\
       (M = acc_vp dt d m c \/ exists i x', i <> d /\ getc cs' i = Some x' /\ cst x' <> INVALID /\ ver x' = M)).
Proof.
  intros Hd Hno. destruct (start_spec dt d m c Hd Hno) as (cs1 & Hs & Hl1 & Hg1).
  unfold access. rewrite Hs. fold (acc_ret dt d m c).
  set (own' := if mw m then sint8 (Z.of_nat d) else owner dt).
  set (b := owner dt =? Z.of_nat d) in *. set (req := start_req dt d m c) in *.
  set (r := acc_ret dt d m c).
  (* state after the pull *)
  set (c1 := post_start b m req d d c).
  assert (Hc1 : getc cs1 d = Some c1) by (rewrite Hg1, Hd; reflexivity).
  set (vp := acc_vp dt d m c).
  assert (Hpull : exists cs2, (if 0 <=? r then pull (mkdata own' cs1) d (Z.to_nat r) else mkdata own' cs1) = mkdata own' cs2
            /\ length cs2 = length cs1
            /\ (forall i, i <> d -> getc cs2 i = getc cs1 i) /\ getc cs2 d = Some (set_ver c1 vp)).
  { unfold vp, acc_vp. fold r. destruct (0 <=? r) eqn:Er.
    - unfold pull. cbn [copies owner]. rewrite Hg1.
      destruct (getc (copies dt) (Z.to_nat r)) as [sc|] eqn:Hsc; cbn [option_map].
      + rewrite post_start_ver. eexists. split; [reflexivity|]. split; [apply length_upd_each|]. split.
        * intros i Hne. rewrite getc_upd_at. assert (E : Nat.eqb i d = false) by (now apply Nat.eqb_neq). rewrite E.
          destruct (getc cs1 i); reflexivity.
        * rewrite getc_upd_at, Hc1, Nat.eqb_refl. reflexivity.
      + exists cs1. split; [reflexivity|]. split; [reflexivity|]. split; [auto|].
        rewrite Hc1. f_equal. replace (ver c) with (ver c1) by apply post_start_ver. now rewrite set_ver_same.
    - exists cs1. split; [reflexivity|]. split; [reflexivity|]. split; [auto|].
      rewrite Hc1. f_equal. replace (ver c) with (ver c1) by apply post_start_ver. now rewrite set_ver_same. }
  destruct Hpull as (cs2 & -> & Hl2 & Hg2 & Hd2).
  (* after end *)
  set (st' := if mw m then OWNED else if mr m then SHARED else cst c).
  set (c3 := mkcopy st' vp (rdr c + (if mr m then 1 else 0)) (xfer c)).
  assert (Hend : exists cs3, endt (mkdata own' cs2) d m = mkdata own' cs3 /\ length cs3 = length cs2
            /\ (forall i, i <> d -> getc cs3 i = getc cs2 i) /\ getc cs3 d = Some c3).
  { unfold endt. cbn [owner copies]. eexists. split; [reflexivity|]. split; [apply length_upd_each|]. split.
    - intros i Hne. rewrite getc_upd_at. assert (E : Nat.eqb i d = false) by (now apply Nat.eqb_neq). rewrite E.
      destruct (getc cs2 i); reflexivity.
    - rewrite getc_upd_at, Hd2, Nat.eqb_refl. cbn [option_map]. f_equal. unfold c3, st', c1.
      rewrite post_start_unfold, Nat.eqb_refl. unfold unexcl, b. cbn [andb negb].
      assert (Hreq : req = true -> mr m = true).
      { unfold req, start_req. destruct (owner dt =? Z.of_nat d); [discriminate|]. destruct (mr m); [reflexivity|discriminate]. }
      destruct (owner dt =? Z.of_nat d), (mr m), (mw m), req; cbn;
        try (specialize (Hreq eq_refl); discriminate);
        repeat match goal with |- context[if ?b then _ else _] => destruct b end;
        unfold set_st, set_ver, set_rdr; cbn; f_equal; lia. }
  destruct Hend as (cs3 & -> & Hl3 & Hg3 & Hd3).
  assert (Hoth : forall i, i <> d -> getc cs3 i = option_map (post_start b m req d i) (getc (copies dt) i)).
  { intros i Hne. rewrite Hg3, Hg2, Hg1 by auto. reflexivity. }
  destruct (mw m) eqn:Ew.
  - unfold bump. cbn [copies]. rewrite Hd3. unfold setv. cbn [owner copies].
    set (M := max_valid cs3 (ver c3)).
    exists (upd_at d (fun c0 => set_ver c0 ((M + 1) mod two32)) cs3), ((M + 1) mod two32).
    split; [reflexivity|]. split; [unfold upd_at; rewrite length_upd_each; lia|]. split; [|split; [|split; [discriminate|]]].
    + intros i Hne. rewrite getc_upd_at. assert (E : Nat.eqb i d = false) by (now apply Nat.eqb_neq). rewrite E.
      rewrite <- Hoth by auto. destruct (getc cs3 i); reflexivity.
    + rewrite getc_upd_at, Hd3, Nat.eqb_refl. reflexivity.
    + intros _. exists M. split; [reflexivity|].
      assert (Hoth' : forall i, i <> d -> getc (upd_at d (fun c0 => set_ver c0 ((M + 1) mod two32)) cs3) i = getc cs3 i).
      { intros i Hne. rewrite getc_upd_at. assert (E : Nat.eqb i d = false) by (now apply Nat.eqb_neq). rewrite E.
        destruct (getc cs3 i); reflexivity. }
      destruct (max_valid_spec cs3 (ver c3)) as (H1 & H2 & H3). fold M in H1, H2, H3. cbn [ver c3] in *.
      split; [exact H1|]. split.
      * intros i x' Hne Hx' Hv. rewrite Hoth' in Hx' by auto. eapply H2; eauto.
      * destruct H3 as [H3|(i & x' & Hx' & Hv & He)]; [left; exact H3|].
        destruct (Nat.eq_dec i d) as [->|Hne].
        -- left. rewrite Hd3 in Hx'. inversion Hx'; subst x'. cbn in He. lia.
        -- right. exists i, x'. rewrite Hoth' by auto. auto.
  - exists cs3, vp. split; [reflexivity|]. split; [lia|]. split; [exact Hoth|]. split; [exact Hd3|].
    split; [reflexivity|discriminate].
Qed.

(* ===== the returned source under the invariant J ===== *)
(* ---------- what the assertions give ---------- *)
Lemma asserts_attached dt d m : start_asserts dt d m = true -> exists c, getc (copies dt) d = Some c.
Proof. unfold start_asserts. destruct (getc (copies dt) d) as [c|]; [eauto|discriminate]. Qed.

Lemma asserts_src dt d m c : start_asserts dt d m = true -> getc (copies dt) d = Some c ->
  start_req dt d m c = true -> start_src dt c <> -1.
Proof.
  unfold start_asserts, start_req, start_src. intros Ha Hd. rewrite Hd in Ha.
  destruct (owner dt =? Z.of_nat d); [discriminate|].
  destruct (classify (copies dt) c (owner dt)) as [req valid]. destruct (after_read dt d m c) as [own1 cs1].
  cbn [fst snd]. intros Hr.
  repeat (apply andb_prop in Ha as [Ha ?]).
  destruct (mr m); [|discriminate]. cbn in Hr. subst req. lia.
Qed.

(* ---------- the return value under the invariant ---------- *)
Lemma classify_cases dt c :
  (cst c = INVALID /\ fst (classify (copies dt) c (owner dt)) = true /\
     start_src dt c = (if owner dt =? -1 then scan_valid 0 (copies dt) (owner dt) else owner dt)) \/
  (cst c = SHARED /\ fst (classify (copies dt) c (owner dt)) = newer_owned (copies dt) (ver c) /\ start_src dt c = owner dt) \/
  ((cst c = EXCLUSIVE \/ cst c = OWNED) /\ fst (classify (copies dt) c (owner dt)) = false).
Proof. unfold start_src, classify. destruct (cst c); cbn; auto. Qed.

Lemma ret_nonneg_inv dt d m c : 0 <= acc_ret dt d m c ->
  owner dt <> Z.of_nat d /\ mr m = true /\ fst (classify (copies dt) c (owner dt)) = true /\
  acc_ret dt d m c = start_src dt c.
Proof.
  unfold acc_ret, start_req. destruct (owner dt =? Z.of_nat d) eqn:E; [lia|].
  destruct (mr m); cbn [andb]; [|lia]. destruct (fst (classify (copies dt) c (owner dt))); [|lia].
  intros _. repeat split; auto. lia.
Qed.

Lemma transfer_sound dt d m c : getc (copies dt) d = Some c -> 0 <= acc_ret dt d m c ->
  mr m = true /\ ~ uptodate dt d.
Proof.
  intros Hd Hr. destruct (ret_nonneg_inv dt d m c Hr) as (Hne & Hm & Hreq & _). split; [exact Hm|].
  intros (c' & Hc' & Hv & Hmax). rewrite Hd in Hc'. inversion Hc'; subst c'.
  destruct (classify_cases dt c) as [(Hs & _)|[(Hs & He & _)|(Hs & He)]].
  - contradiction.
  - rewrite He in Hreq. apply newer_owned_true in Hreq as (i & x & Hx & Hox & Hlt).
    assert (ver x <= ver c) by (apply (Hmax i x Hx); congruence). lia.
  - congruence.
Qed.

Lemma transfer_source dt b d m c : J dt b -> getc (copies dt) d = Some c -> 0 <= acc_ret dt d m c ->
  newest_at dt (Z.to_nat (acc_ret dt d m c)).
Proof.
  intros (Ho & Hl & [H1 H2] & H3 & H4 & Hv) Hd Hr.
  destruct (ret_nonneg_inv dt d m c Hr) as (Hne & Hm & Hreq & He). rewrite He in *.
  destruct (classify_cases dt c) as [(Hs & _ & Hsrc)|[(Hs & Hq & Hsrc)|(Hs & Hq)]].
  - rewrite Hsrc in *. destruct (owner dt =? -1) eqn:Eo.
    + assert (Hm1 : owner dt = -1) by lia.
      destruct (scan_valid_spec (copies dt) 0 (owner dt)) as [[Hsv _]|(i & x & Hsv & Hx & Hvx)]; [lia|].
      rewrite Hsv. cbn [Nat.add]. rewrite Nat2Z.id. exists x. repeat split; auto.
      intros j y Hy Hvy. rewrite (H4 Hm1 j i y x Hy Hvy Hx Hvx). lia.
    + apply H3. lia.
  - rewrite Hsrc in *. apply H3. exact Hr.
  - congruence.
Qed.

Lemma newest_dec_lt dt s cs_ c i : newest_at dt s -> getc (copies dt) s = Some cs_ ->
  getc (copies dt) i = Some c -> cst c <> INVALID -> ver c <= ver cs_.
Proof. intros (x & Hx & _ & Hmax) Hs Hi Hv. rewrite Hs in Hx; inversion Hx; subst x. eauto. Qed.

Lemma transfer_complete dt b d m c : J dt b -> owner_owned dt -> getc (copies dt) d = Some c ->
  (start_req dt d m c = true -> start_src dt c <> -1) ->
  mr m = true -> ~ uptodate dt d -> 0 <= acc_ret dt d m c.
Proof.
  intros (Ho & Hl & [H1 H2] & H3 & H4 & Hv) Hoo Hd Ha7 Hm Hnu.
  unfold acc_ret. unfold start_req in *. destruct (owner dt =? Z.of_nat d) eqn:Eo.
  { exfalso. apply Hnu. assert (E : owner dt = Z.of_nat d) by lia.
    unfold uptodate. replace d with (Z.to_nat (owner dt)) by lia. apply H3. lia. }
  rewrite Hm in *. cbn [andb] in *.
  assert (Hsrc_range : fst (classify (copies dt) c (owner dt)) = true -> 0 <= start_src dt c).
  { intros Hq. specialize (Ha7 Hq).
    destruct (classify_cases dt c) as [(Hs & _ & Hsrc)|[(Hs & _ & Hsrc)|(Hs & Hq')]]; [| |congruence].
    - rewrite Hsrc in *. destruct (owner dt =? -1) eqn:E1; [|lia].
      destruct (scan_valid_spec (copies dt) 0 (owner dt)) as [[Hsv _]|(i & x & Hsv & _)]; lia.
    - lia. }
  destruct (fst (classify (copies dt) c (owner dt))) eqn:Hq; [auto|]. exfalso.
  destruct (classify_cases dt c) as [(Hs & Hq' & _)|[(Hs & Hq' & _)|(Hs & _)]].
  - congruence.
  - (* SHARED target, no newer OWNED copy: then it is up to date *)
    apply Hnu. exists c. split; [exact Hd|]. split; [congruence|]. intros i x Hx Hvx.
    destruct (Z_le_gt_dec 0 (owner dt)) as [Hge|Hlt].
    + destruct (Hoo Hge) as (co & Hco & Hcoo). destruct (H3 Hge) as (co' & Hco' & _ & Hmax).
      rewrite Hco in Hco'; inversion Hco'; subst co'.
      destruct (Z_le_gt_dec (ver co) (ver c)) as [Hle|Hgt]; [specialize (Hmax i x Hx Hvx); lia|].
      exfalso. rewrite Hq' in Hq. assert (newer_owned (copies dt) (ver c) = true); [|congruence].
      apply newer_owned_true. exists (Z.to_nat (owner dt)), co. repeat split; auto; lia.
    + assert (Hm1 : owner dt = -1) by lia.
      rewrite (H4 Hm1 i d x c Hx Hvx Hd); [lia|congruence].
  - destruct Hs as [Hs|Hs].
    + (* EXCLUSIVE target: no owner, all valid copies equal *)
      apply Hnu. exists c. split; [exact Hd|]. split; [congruence|]. intros i x Hx Hvx.
      destruct (Z_le_gt_dec 0 (owner dt)) as [Hge|Hlt].
      * destruct (H2 Hge d c Hd) as [E|E]; [lia|congruence|congruence].
      * assert (Hm1 : owner dt = -1) by lia. rewrite (H4 Hm1 i d x c Hx Hvx Hd); [lia|congruence].
    + assert (owner dt = Z.of_nat d) by (eapply H1; eauto). lia.
Qed.

(* ===== J through accesses ===== *)
Lemma two32_pos : 0 < two32. Proof. unfold two32; lia. Qed.

Lemma J_no_tro dt b d m c : J dt b -> getc (copies dt) d = Some c ->
  owner dt <> Z.of_nat d -> is_owned (cst c) && negb (mw m) = false.
Proof. intros (_ & _ & [H1 _] & _) Hd. eapply one_owner_no_tro; eauto. Qed.

Lemma J_dev_small dt b d c : J dt b -> getc (copies dt) d = Some c -> (d < 128)%nat.
Proof. intros (_ & Hl & _) Hd. apply getc_lt in Hd. lia. Qed.

(* Inv12 through one access, by composition of the primitive steps *)
Lemma access_Inv12 dt d m c : Inv12 dt -> getc (copies dt) d = Some c -> (d < 128)%nat ->
  Inv12 (fst (access dt d m)).
Proof.
  intros HI Hd Hd8. unfold access.
  pose proof (start_Inv12 dt d m HI Hd8) as H1.
  pose proof (start_owner_w dt d m Hd8) as Ho. rewrite Hd in Ho.
  destruct (start dt d m) as [dt1 r]. cbn [fst] in *.
  set (dt2 := if 0 <=? r then pull dt1 d (Z.to_nat r) else dt1).
  assert (H2 : Inv12 dt2 /\ owner dt2 = owner dt1).
  { unfold dt2. destruct (0 <=? r); [|auto]. unfold pull. destruct (getc (copies dt1) (Z.to_nat r)); [|auto].
    split; [apply upd_at_Inv12; auto|reflexivity]. }
  destruct H2 as [H2 Ho2].
  assert (H3 : Inv12 (endt dt2 d m)).
  { apply endt_Inv12; auto. intros Hw. rewrite Ho2. apply Ho; [exact Hw|discriminate]. }
  destruct (mw m); [|exact H3]. unfold bump. destruct (getc (copies (endt dt2 d m)) d); [|exact H3].
  unfold setv. apply upd_at_Inv12; auto.
Qed.

(* every valid copy after a non-writing access carries the version of a copy that was valid before *)
Lemma post_valid_origin dt b d m c cs' vd :
  J dt b -> getc (copies dt) d = Some c -> mw m = false ->
  (start_req dt d m c = true -> start_src dt c <> -1) ->
  (forall i, i <> d -> getc cs' i =
     option_map (post_start (owner dt =? Z.of_nat d) m (start_req dt d m c) d i) (getc (copies dt) i)) ->
  getc cs' d = Some (mkcopy (if mr m then SHARED else cst c) vd (rdr c + (if mr m then 1 else 0)) (xfer c)) ->
  vd = acc_vp dt d m c ->
  forall i x', getc cs' i = Some x' -> cst x' <> INVALID ->
  exists j xj, getc (copies dt) j = Some xj /\ cst xj <> INVALID /\ ver xj = ver x'.
Proof.
  intros HJ Hd Hw Ha7 Hoth Hcd Hvd i x' Hx' Hv.
  destruct (Nat.eq_dec i d) as [->|Hne].
  - rewrite Hcd in Hx'. inversion Hx'; subst x'; clear Hx'. cbn [cst ver] in *.
    rewrite Hvd. unfold acc_vp. destruct (0 <=? acc_ret dt d m c) eqn:Er.
    + destruct (transfer_source dt b d m c HJ Hd ltac:(lia)) as (sc & Hsc & Hvs & _).
      rewrite Hsc. exists (Z.to_nat (acc_ret dt d m c)), sc. auto.
    + exists d, c. split; [exact Hd|]. split; [|reflexivity].
      intros Hc. destruct (mr m) eqn:Em; [|congruence].
      (* an INVALID target read by a device that is not the owner always gets a source *)
      destruct HJ as (Ho & Hl & [H1 H2] & H3 & H4 & Hvi).
      assert (Hreq : start_req dt d m c = true).
      { unfold start_req. destruct (owner dt =? Z.of_nat d) eqn:Eo.
        - exfalso. assert (E : owner dt = Z.of_nat d) by lia.
          destruct (H3 ltac:(lia)) as (co & Hco & Hvo & _). rewrite E, Nat2Z.id, Hd in Hco. congruence.
        - rewrite Em. destruct (classify_cases dt c) as [(_ & -> & _)|[(E & _)|([E|E] & _)]]; [reflexivity|congruence..]. }
      specialize (Ha7 Hreq). unfold acc_ret in Er. rewrite Hreq in Er.
      destruct (classify_cases dt c) as [(_ & _ & Hsrc)|[(E & _)|([E|E] & _)]]; [|congruence..].
      rewrite Hsrc in *. destruct (owner dt =? -1) eqn:E1; [|lia].
      destruct (scan_valid_spec (copies dt) 0 (owner dt)) as [[Hsv _]|(k & x & Hsv & _)]; lia.
  - destruct (getc_some_map (Hoth i Hne) Hx') as (x & Hx & ->).
    exists i, x. split; [exact Hx|]. rewrite post_start_ver. split; [|reflexivity].
    rewrite post_start_cst_other in Hv by auto. rewrite Hw in Hv.
    destruct (owner dt =? Z.of_nat d); [exact Hv|]. destruct (mr m); [|exact Hv].
    destruct (cst x); cbn in Hv; congruence.
Qed.

Lemma access_J dt b d m c : J dt b -> getc (copies dt) d = Some c -> b + 1 < two32 ->
  (start_req dt d m c = true -> start_src dt c <> -1) ->
  J (fst (access dt d m)) (b + 1).
Proof.
  intros HJ Hd Hb Ha7.
  pose proof (J_dev_small dt b d c HJ Hd) as Hd8.
  pose proof (access_Inv12 dt d m c ltac:(apply HJ) Hd Hd8) as HI'.
  destruct (access_view dt d m c Hd (J_no_tro dt b d m c HJ Hd)) as (cs' & vd & Hacc & Hl' & Hoth & Hcd & Hvr & Hvw).
  rewrite Hacc in *. cbn [fst] in *. rewrite sint8_small in * by lia.
  pose proof HJ as (Ho & Hl & [H1 H2] & H3 & H4 & Hv).
  (* versions of the copies other than the target are unchanged *)
  assert (Hover : forall i x', i <> d -> getc cs' i = Some x' ->
            exists x, getc (copies dt) i = Some x /\ ver x' = ver x).
  { intros i x' Hne Hx'. destruct (getc_some_map (Hoth i Hne) Hx') as (x & Hx & ->).
    exists x. split; [exact Hx|apply post_start_ver]. }
  assert (Hvp : 0 <= acc_vp dt d m c <= b).
  { unfold acc_vp. destruct (0 <=? acc_ret dt d m c); [|apply (Hv d c Hd)].
    destruct (getc (copies dt) (Z.to_nat (acc_ret dt d m c))) as [sc|] eqn:Hsc; [apply (Hv _ sc Hsc)|apply (Hv d c Hd)]. }
  split; [destruct (mw m); cbn; lia|]. split; [cbn [copies]; lia|]. split; [exact HI'|].
  destruct (mw m) eqn:Ew.
  - (* the access writes: the target becomes the owner with a version above every valid one *)
    destruct (Hvw eq_refl) as (M & HvdM & HvpM & HMmax & HMwit).
    assert (HMb : M <= b).
    { destruct HMwit as [->|(i & x' & Hne & Hx' & _ & <-)]; [lia|].
      destruct (Hover i x' Hne Hx') as (x & Hx & ->). apply (Hv i x Hx). }
    assert (Hvd : vd = M + 1) by (rewrite HvdM; apply Z.mod_small; lia).
    split; [|split].
    + intros _. unfold newest_at. cbn [owner copies]. rewrite Nat2Z.id. eexists. split; [exact Hcd|]. split; [cbn; discriminate|].
      intros i x' Hx' Hvx'. cbn [ver]. destruct (Nat.eq_dec i d) as [->|Hne].
      * rewrite Hcd in Hx'. inversion Hx'; subst x'. cbn. lia.
      * specialize (HMmax i x' Hne Hx' Hvx'). lia.
    + intros Hm1. cbn [owner] in Hm1. lia.
    + intros i x' Hx'. cbn [copies] in Hx'. destruct (Nat.eq_dec i d) as [->|Hne].
      * rewrite Hcd in Hx'. inversion Hx'; subst x'. cbn. lia.
      * destruct (Hover i x' Hne Hx') as (x & Hx & ->). pose proof (Hv i x Hx). lia.
  - specialize (Hvr eq_refl).
    pose proof (post_valid_origin dt b d m c cs' vd HJ Hd Ew Ha7 Hoth Hcd Hvr) as Horig.
    cbn [owner copies] in *.
    split; [|split].
    + (* the owner is unchanged and still holds the newest version *)
      unfold owner_newest, newest_at. cbn [owner copies]. intros Hge. destruct (H3 Hge) as (co & Hco & Hvo & Hmax).
      assert (Hpost_o : exists co', getc cs' (Z.to_nat (owner dt)) = Some co' /\ cst co' <> INVALID /\ ver co' = ver co).
      { assert (Eo' : Z.to_nat (owner dt) = d -> (owner dt =? Z.of_nat d) = true) by (intros <-; apply Z.eqb_eq; lia).
        destruct (Nat.eq_dec (Z.to_nat (owner dt)) d) as [E|Hne].
        - specialize (Eo' E). rewrite E in *. rewrite Hd in Hco. inversion Hco; subst co. eexists. split; [exact Hcd|]. cbn [cst ver].
          split; [destruct (mr m); [discriminate|exact Hvo]|].
          rewrite Hvr. unfold acc_vp, acc_ret, start_req.
          rewrite Eo'. cbn. reflexivity.
        - rewrite (Hoth _ Hne), Hco. cbn [option_map]. eexists. split; [reflexivity|].
          rewrite post_start_ver. split; [|reflexivity].
          rewrite post_start_cst_other by auto. rewrite Ew.
          destruct (owner dt =? Z.of_nat d); [exact Hvo|]. destruct (mr m); [|exact Hvo].
          destruct (cst co); cbn; congruence. }
      destruct Hpost_o as (co' & Hco' & Hvo' & Hveq). exists co'. split; [exact Hco'|]. split; [exact Hvo'|].
      intros i x' Hx' Hvx'. destruct (Horig i x' Hx' Hvx') as (j & xj & Hxj & Hvj & <-).
      rewrite Hveq. eapply Hmax; eauto.
    + unfold equal_when_unowned. cbn [owner copies]. intros Hm1 i j xi xj Hxi Hvi Hxj Hvj.
      destruct (Horig i xi Hxi Hvi) as (i0 & yi & Hyi & Hvyi & <-).
      destruct (Horig j xj Hxj Hvj) as (j0 & yj & Hyj & Hvyj & <-).
      eapply H4; eauto.
    + unfold vers_in. cbn [owner copies]. intros i x' Hx'. destruct (Nat.eq_dec i d) as [->|Hne].
      * rewrite Hcd in Hx'. inversion Hx'; subst x'. cbn [ver]. lia.
      * destruct (Hover i x' Hne Hx') as (x & Hx & ->). pose proof (Hv i x Hx). lia.
Qed.

Lemma access_write_owns dt b d m c : J dt b -> getc (copies dt) d = Some c -> b + 1 < two32 ->
  write_owns dt (Acc d m) (fst (access dt d m)) (snd (access dt d m)).
Proof.
  intros HJ Hd Hb Hw. cbn [write_owns].
  pose proof (J_dev_small dt b d c HJ Hd) as Hd8.
  destruct (access_view dt d m c Hd (J_no_tro dt b d m c HJ Hd)) as (cs' & vd & Hacc & Hl' & Hoth & Hcd & _ & Hvw).
  rewrite Hacc. cbn [fst snd owner copies]. rewrite Hw in *. rewrite sint8_small by lia.
  split; [reflexivity|]. eexists. split; [exact Hcd|]. split; [reflexivity|].
  destruct (Hvw eq_refl) as (M & HvdM & HvpM & HMmax & HMwit).
  destruct HJ as (Ho & Hl & [H1 H2] & H3 & H4 & Hv).
  assert (Hvp : 0 <= acc_vp dt d m c <= b).
  { unfold acc_vp. destruct (0 <=? acc_ret dt d m c); [|apply (Hv d c Hd)].
    destruct (getc (copies dt) (Z.to_nat (acc_ret dt d m c))) as [sc|] eqn:Hsc; [apply (Hv _ sc Hsc)|apply (Hv d c Hd)]. }
  assert (HMb : M <= b).
  { destruct HMwit as [->|(i & x' & Hne & Hx' & _ & <-)]; [lia|].
    destruct (getc_some_map (Hoth i Hne) Hx') as (x & Hx & ->). rewrite post_start_ver. apply (Hv i x Hx). }
  assert (Hvd : vd = M + 1) by (rewrite HvdM; apply Z.mod_small; lia).
  intros i x' Hne Hx'. split.
  - destruct (getc_some_map (Hoth i Hne) Hx') as (x & Hx & ->).
    rewrite post_start_cst_other by auto. rewrite Hw.
    destruct (owner dt =? Z.of_nat d) eqn:Eo.
    + apply (H2 ltac:(lia) i x Hx). lia.
    + destruct (is_invalid (cst x)); auto.
  - intros Hvx'. cbn [ver]. specialize (HMmax i x' Hne Hx' Hvx'). lia.
Qed.

(* one more bump by the owner *)
Lemma bump_J dt b d c : J dt b -> getc (copies dt) d = Some c -> owner dt = Z.of_nat d -> b + 1 < two32 ->
  J (bump dt d) (b + 1).
Proof.
  intros (Ho & Hl & HI & H3 & H4 & Hv) Hd Hod Hb. unfold bump. rewrite Hd. unfold setv.
  set (M := max_valid (copies dt) (ver c)).
  destruct (max_valid_spec (copies dt) (ver c)) as (Hm1 & Hm2 & Hm3). fold M in Hm1, Hm2, Hm3.
  assert (HMb : 0 <= M <= b).
  { pose proof (Hv d c Hd). destruct Hm3 as [->|(i & x & Hx & _ & <-)]; [lia|]. pose proof (Hv i x Hx). lia. }
  rewrite (Z.mod_small (M + 1)) by lia.
  split; [exact Ho|]. split; [cbn [copies]; unfold upd_at; rewrite length_upd_each; exact Hl|].
  split; [apply upd_at_Inv12; auto|]. cbn [owner copies]. split; [|split].
  - unfold owner_newest, newest_at. cbn [owner copies]. intros Hge. rewrite Hod, Nat2Z.id. rewrite getc_upd_at, Hd, Nat.eqb_refl. cbn [option_map].
    destruct (H3 Hge) as (co & Hco & Hvo & _). rewrite Hod, Nat2Z.id, Hd in Hco. inversion Hco; subst co.
    eexists. split; [reflexivity|]. split; [exact Hvo|]. cbn [ver set_ver].
    intros i x' Hx' Hvx'. rewrite getc_upd_at in Hx'. destruct (getc (copies dt) i) as [x|] eqn:Hx; [|discriminate].
    cbn in Hx'. inversion Hx'; subst x'; clear Hx'. destruct (Nat.eqb i d); [cbn; lia|].
    specialize (Hm2 i x Hx Hvx'). lia.
  - unfold equal_when_unowned. cbn [owner copies]. intros Hm. lia.
  - unfold vers_in. cbn [owner copies]. intros i x' Hx'. rewrite getc_upd_at in Hx'. destruct (getc (copies dt) i) as [x|] eqn:Hx; [|discriminate].
    cbn in Hx'. inversion Hx'; subst x'; clear Hx'. pose proof (Hv i x Hx). destruct (Nat.eqb i d); cbn; lia.
Qed.

Lemma J_mono dt b b' : J dt b -> b <= b' -> J dt b'.
Proof.
  intros (Ho & Hl & HI & H3 & H4 & Hv) Hle. split; [exact Ho|]. split; [exact Hl|]. split; [exact HI|].
  split; [exact H3|]. split; [exact H4|]. intros i c Hc. specialize (Hv i c Hc). lia.
Qed.

Lemma tx_step_J dt b t : J dt b -> b + 1 < two32 -> tx_asserts dt t -> J (fst (tx_step dt t)) (b + 1).
Proof.
  intros HJ Hb Ha. destruct t as [d m|]; cbn [tx_step fst].
  - destruct Ha as [Ha _]. destruct (asserts_attached dt d m Ha) as (c & Hd).
    apply (access_J dt b d m c HJ Hd Hb). apply asserts_src; auto.
  - destruct (0 <=? owner dt) eqn:Eo; [|eapply J_mono; eauto; lia].
    destruct (getc (copies dt) (Z.to_nat (owner dt))) as [c|] eqn:Hc; [|eapply J_mono; eauto; lia].
    destruct (is_owned (cst c)); [|eapply J_mono; eauto; lia].
    apply (bump_J dt b _ c HJ Hc); lia.
Qed.

(* ===== histories of accesses; constructors; witnesses ===== *)
(* ---------- the owner's copy stays OWNED unless the owner itself makes a read-only access ---------- *)
Lemma access_owner_owned dt b d m c : J dt b -> owner_owned dt -> getc (copies dt) d = Some c ->
  no_owner_readonly dt (Acc d m) -> owner_owned (fst (access dt d m)).
Proof.
  intros HJ Hoo Hd Hnr.
  pose proof (J_dev_small dt b d c HJ Hd) as Hd8.
  destruct (access_view dt d m c Hd (J_no_tro dt b d m c HJ Hd)) as (cs' & vd & Hacc & Hl' & Hoth & Hcd & _ & _).
  rewrite Hacc. cbn [fst]. rewrite sint8_small by lia. unfold owner_owned. cbn [owner copies].
  destruct (mw m) eqn:Ew.
  - intros _. rewrite Nat2Z.id. eexists. split; [exact Hcd|reflexivity].
  - intros Hge. destruct (Hoo Hge) as (co & Hco & Hcoo).
    destruct (Nat.eq_dec (Z.to_nat (owner dt)) d) as [E|Hne].
    + rewrite E in *. rewrite Hd in Hco. inversion Hco; subst co.
      eexists. split; [exact Hcd|]. cbn [cst]. destruct (mr m) eqn:Em; [|exact Hcoo].
      exfalso. apply Hnr. repeat split; auto. lia.
    + rewrite (Hoth _ Hne), Hco. cbn [option_map]. eexists. split; [reflexivity|].
      rewrite post_start_cst_other by auto. rewrite Ew, Hcoo.
      destruct (owner dt =? Z.of_nat d), (mr m); reflexivity.
Qed.

Lemma bump_owner_owned dt d : owner_owned dt -> owner_owned (bump dt d).
Proof.
  intros Hoo. unfold bump. destruct (getc (copies dt) d); [|exact Hoo]. unfold setv, owner_owned. cbn [owner copies].
  intros Hge. destruct (Hoo Hge) as (co & Hco & Hcoo). rewrite getc_upd_at, Hco. cbn [option_map].
  eexists. split; [reflexivity|]. destruct (Nat.eqb (Z.to_nat (owner dt)) d); exact Hcoo.
Qed.

Lemma tx_step_owner_owned dt b t : J dt b -> owner_owned dt -> tx_asserts dt t -> no_owner_readonly dt t ->
  owner_owned (fst (tx_step dt t)).
Proof.
  intros HJ Hoo Ha Hnr. destruct t as [d m|]; cbn [tx_step fst].
  - destruct Ha as [Ha _]. destruct (asserts_attached dt d m Ha) as (c & Hd). eapply access_owner_owned; eauto.
  - destruct (0 <=? owner dt); [|exact Hoo]. destruct (getc (copies dt) (Z.to_nat (owner dt))) as [c|]; [|exact Hoo].
    destruct (is_owned (cst c)); [|exact Hoo]. apply bump_owner_owned; auto.
Qed.

(* ---------- histories of accesses ---------- *)
Lemma access_ret dt d m c : getc (copies dt) d = Some c ->
  (owner dt <> Z.of_nat d -> is_owned (cst c) && negb (mw m) = false) ->
  snd (access dt d m) = acc_ret dt d m c.
Proof. intros Hd Hno. destruct (access_view dt d m c Hd Hno) as (cs' & vd & Hacc & _). now rewrite Hacc. Qed.

Definition step_clauses (dt : data) (t : tx) (dt' : data) (r : Z) : Prop :=
  transfer_only_if_stale dt t dt' r /\ source_newest dt t dt' r /\ write_owns dt t dt' r /\ Inv12 dt'.

Lemma tx_step_clauses dt b t : J dt b -> b + 1 < two32 -> tx_asserts dt t ->
  step_clauses dt t (fst (tx_step dt t)) (snd (tx_step dt t)).
Proof.
  intros HJ Hb Ha. pose proof (tx_step_J dt b t HJ Hb Ha) as HJ'.
  destruct t as [d m|].
  - destruct Ha as [Ha _]. destruct (asserts_attached dt d m Ha) as (c & Hd).
    cbn [tx_step] in *. pose proof (access_ret dt d m c Hd (J_no_tro dt b d m c HJ Hd)) as Hr.
    split; [|split; [|split]].
    + cbn. rewrite Hr. apply transfer_sound; auto.
    + cbn. rewrite Hr. eapply transfer_source; eauto.
    + eapply access_write_owns; eauto.
    + apply HJ'.
  - split; [exact I|]. split; [exact I|]. split; [exact I|]. apply HJ'.
Qed.

Theorem tx_invariant ts : forall dt b, J dt b -> b + Z.of_nat (length ts) < two32 ->
  tx_along tx_asserts dt ts -> J (tx_final dt ts) (b + Z.of_nat (length ts)).
Proof.
  induction ts as [|t ts IH]; intros dt b HJ Hb Ha; cbn [tx_final length].
  - eapply J_mono; eauto. cbn. lia.
  - destruct Ha as [Ha Hr]. cbn [length] in Hb.
    replace (b + Z.of_nat (S (length ts))) with ((b + 1) + Z.of_nat (length ts)) by lia.
    apply IH; [apply tx_step_J; auto; lia|lia|exact Hr].
Qed.

Theorem tx_clauses ts : forall dt b, J dt b -> b + Z.of_nat (length ts) < two32 ->
  tx_along tx_asserts dt ts -> tx_all step_clauses dt ts.
Proof.
  induction ts as [|t ts IH]; intros dt b HJ Hb Ha; cbn [tx_all]; [exact I|].
  destruct Ha as [Ha Hr]. cbn [length] in Hb. split.
  - apply (tx_step_clauses dt b t HJ); [lia|exact Ha].
  - apply (IH _ (b + 1)); [apply tx_step_J; auto; lia|lia|exact Hr].
Qed.

Theorem tx_complete_partial ts : forall dt b, J dt b -> owner_owned dt -> b + Z.of_nat (length ts) < two32 ->
  tx_along tx_asserts dt ts -> tx_along no_owner_readonly dt ts -> tx_all transfer_if_stale dt ts.
Proof.
  induction ts as [|t ts IH]; intros dt b HJ Hoo Hb Ha Hn; cbn [tx_all]; [exact I|].
  destruct Ha as [Ha Hr]. destruct Hn as [Hn Hnr]. cbn [length] in Hb. split.
  - destruct t as [d m|]; [|exact I]. destruct Ha as [Ha _]. destruct (asserts_attached dt d m Ha) as (c & Hd).
    cbn [transfer_if_stale tx_step]. rewrite (access_ret dt d m c Hd (J_no_tro dt b d m c HJ Hd)).
    intros Hm Hnu. eapply transfer_complete; eauto. apply asserts_src; auto.
  - apply (IH _ (b + 1)); [apply tx_step_J; auto; lia|eapply tx_step_owner_owned; eauto|lia|exact Hr|exact Hnr].
Qed.

(* ---------- the two constructors of data.c establish the invariant ---------- *)
Lemma getc_repeat x n i c : getc (repeat (Some x) n) i = Some c -> c = x.
Proof.
  unfold getc. destruct (nth_error (repeat (Some x) n) i) as [o|] eqn:E; [|discriminate].
  apply nth_error_In, repeat_spec in E. subst o. congruence.
Qed.

Lemma J_data_new n : (n <= 128)%nat -> J (data_new n) 0.
Proof.
  intros Hn. unfold data_new.
  assert (Hf : forall i c, getc (repeat (Some fresh_copy) n) i = Some c -> c = fresh_copy) by (intros; eapply getc_repeat; eauto).
  split; [cbn; lia|]. split; [cbn; rewrite repeat_length; exact Hn|]. split; [split|split; [|split]].
  - intros i c Hc Ho. cbn [copies] in Hc. rewrite (Hf i c Hc) in Ho. discriminate.
  - intros Hge. cbn in Hge. lia.
  - intros Hge. cbn in Hge. lia.
  - intros _ i j ci cj Hi Hvi. cbn [copies] in Hi. rewrite (Hf i ci Hi) in Hvi. cbn in Hvi. congruence.
  - intros i c Hc. cbn [copies] in Hc. rewrite (Hf i c Hc). cbn. lia.
Qed.

Lemma getc_data_create n i c : getc (copies (data_create n)) i = Some c ->
  (i = 0%nat /\ c = mkcopy OWNED 0 0 0) \/ (i <> 0%nat /\ c = fresh_copy).
Proof.
  unfold data_create. cbn [copies]. destruct i as [|i].
  - unfold getc. cbn. intros H; inversion H. auto.
  - intros H. right. split; [discriminate|]. unfold getc in H. cbn [nth_error] in H.
    eapply getc_repeat. unfold getc. exact H.
Qed.

Lemma J_data_create n : (1 <= n <= 128)%nat -> J (data_create n) 0 /\ owner_owned (data_create n).
Proof.
  intros Hn. split.
  - split; [cbn; lia|]. split; [unfold data_create; cbn [copies length]; rewrite repeat_length; lia|].
    split; [split|split; [|split]].
    + intros i c Hc Ho. destruct (getc_data_create n i c Hc) as [[-> _]|[_ ->]]; [reflexivity|discriminate].
    + intros _ i c Hc Hne. destruct (getc_data_create n i c Hc) as [[-> _]|[_ ->]]; [cbn in Hne; lia|left; reflexivity].
    + intros _. exists (mkcopy OWNED 0 0 0). split; [reflexivity|]. split; [discriminate|].
      intros i c Hc Hv. destruct (getc_data_create n i c Hc) as [[_ ->]|[_ ->]]; cbn; lia.
    + intros Hm. cbn in Hm. lia.
    + intros i c Hc. destruct (getc_data_create n i c Hc) as [[_ ->]|[_ ->]]; cbn; lia.
  - intros _. exists (mkcopy OWNED 0 0 0). split; reflexivity.
Qed.

Lemma constructors_J n : (1 <= n <= 128)%nat ->
  J (data_new n) 0 /\ J (data_create n) 0 /\ owner_owned (data_create n).
Proof. intros Hn. split; [apply J_data_new; lia|apply J_data_create; exact Hn]. Qed.

(* ---------- the failing history ---------- *)
Definition Rd := mkmode true false.
Definition Wr := mkmode false true.
Definition RW := mkmode true true.
Definition witness : list tx := [Acc 1 Wr; Acc 1 Rd; Acc 0 Rd].

Lemma witness_asserts : tx_along tx_asserts (data_create 2) witness.
Proof. vm_compute. repeat split. Qed.

Lemma witness_stale :
  let dt2 := tx_final (data_create 2) [Acc 1 Wr; Acc 1 Rd] in
  dt2 = mkdata 1 [Some (mkcopy SHARED 0 0 0); Some (mkcopy SHARED 1 1 0)] /\
  snd (tx_step dt2 (Acc 0 Rd)) = -1 /\ ~ uptodate dt2 0.
Proof.
  cbv zeta. assert (E : tx_final (data_create 2) [Acc 1 Wr; Acc 1 Rd]
              = mkdata 1 [Some (mkcopy SHARED 0 0 0); Some (mkcopy SHARED 1 1 0)]) by (vm_compute; reflexivity).
  rewrite E. split; [reflexivity|]. split; [vm_compute; reflexivity|].
  intros (c & Hc & _ & Hmax). unfold getc in Hc; cbn in Hc. inversion Hc; subst c.
  specialize (Hmax 1%nat (mkcopy SHARED 1 1 0) eq_refl ltac:(discriminate)). cbn in Hmax. lia.
Qed.

Theorem transfer_iff_stale_refuted :
  exists dt ts b, J dt b /\ owner_owned dt /\ b + Z.of_nat (length ts) < two32 /\
    tx_along tx_asserts dt ts /\ ~ tx_all transfer_if_stale dt ts.
Proof.
  exists (data_create 2), witness, 0. destruct (J_data_create 2 ltac:(lia)) as [HJ Hoo].
  split; [exact HJ|]. split; [exact Hoo|]. split; [unfold two32; cbn; lia|]. split; [exact witness_asserts|].
  intros Hall. destruct witness_stale as (E & Hr & Hnu). cbv zeta in *.
  unfold witness in Hall. cbn [tx_all] in Hall. destruct Hall as (_ & _ & H3 & _).
  change (fst (tx_step (fst (tx_step (data_create 2) (Acc 1 Wr))) (Acc 1 Rd)))
    with (tx_final (data_create 2) [Acc 1 Wr; Acc 1 Rd]) in H3.
  cbn [transfer_if_stale] in H3. specialize (H3 eq_refl Hnu). rewrite Hr in H3. lia.
Qed.

(* the split protocol is not protected by assertions: two properly bracketed write transfers
   that overlap leave two OWNED copies although every assertion of start and end holds *)
Definition overlap : list op := [OStart 0 Wr; OStart 1 Wr; OEnd 0 Wr; OEnd 1 Wr].
Lemma overlap_two_owners :
  let rs0 := mkrs (data_new 2) [] in
  dat (final rs0 overlap) = mkdata 1 [Some (mkcopy OWNED 0 0 0); Some (mkcopy OWNED 0 0 0)] /\
  start_asserts (data_new 2) 0 Wr = true /\
  start_asserts (dat (final rs0 [OStart 0 Wr])) 1 Wr = true /\
  end_asserts (dat (final rs0 [OStart 0 Wr; OStart 1 Wr])) 0 = true /\
  end_asserts (dat (final rs0 [OStart 0 Wr; OStart 1 Wr; OEnd 0 Wr])) 1 = true.
Proof. vm_compute. repeat split. Qed.

(* ===== order of transfer completion ===== *)
Lemma mapi_from_compose {A B C} (f : nat -> B -> C) (g : nat -> A -> B) l : forall k,
  mapi_from f k (mapi_from g k l) = mapi_from (fun i x => f i (g i x)) k l.
Proof. induction l as [|x l IH]; intros k; cbn [mapi_from]; [reflexivity|]. now rewrite IH. Qed.
Lemma mapi_from_ext {A B} (f g : nat -> A -> B) l : (forall i x, f i x = g i x) -> forall k,
  mapi_from f k l = mapi_from g k l.
Proof. intros H. induction l as [|x l IH]; intros k; cbn [mapi_from]; [reflexivity|]. now rewrite H, IH. Qed.
Lemma upd_at_compose d f g cs : upd_at d f (upd_at d g cs) = upd_at d (fun c => f (g c)) cs.
Proof.
  unfold upd_at, upd_each. rewrite mapi_from_compose. apply mapi_from_ext.
  intros i [x|]; cbn; [|reflexivity]. destruct (Nat.eqb i d); reflexivity.
Qed.
Lemma upd_at_ext d f g cs : (forall c, f c = g c) -> upd_at d f cs = upd_at d g cs.
Proof.
  intros H. unfold upd_at, upd_each. apply mapi_from_ext. intros i [x|]; cbn; [|reflexivity].
  destruct (Nat.eqb i d); [now rewrite H|reflexivity].
Qed.

(* completing the transfer before or after end_transfer gives the same state *)
Lemma pull_endt_comm dt d m s : endt (pull dt d s) d m = pull (endt dt d m) d s.
Proof.
  unfold pull at 2. unfold endt at 2. cbn [copies owner]. rewrite getc_upd_at.
  unfold pull. destruct (getc (copies dt) s) as [sc|] eqn:Hs; cbn [option_map].
  - unfold endt. cbn [owner copies]. f_equal. rewrite !upd_at_compose.
    apply upd_at_ext. intros c. destruct (Nat.eqb s d), (mr m), (mw m); reflexivity.
  - reflexivity.
Qed.

Theorem access_atomic_eq dt d m : access_atomic dt d m = access dt d m.
Proof.
  unfold access_atomic, access, transfer. destruct (start dt d m) as [dt1 r].
  destruct (0 <=? r); [rewrite pull_endt_comm|]; reflexivity.
Qed.
