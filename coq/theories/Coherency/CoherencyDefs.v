(* Executable model of the data-copy ownership protocol of parsec/data.c:
     parsec_data_start_transfer_ownership_to_copy   -> [start]
     parsec_data_end_transfer_ownership_to_copy     -> [endt]
     parsec_data_transfer_ownership_to_copy         -> [transfer]
   mirrored statement by statement, for a datum with any number of device
   slots (parsec_nb_devices = length of the list; a slot may be empty, i.e.
   device_copies[i] == NULL).  The build compiles assertions out (-DNDEBUG):
   the functions below say what the code does whether or not an assertion
   would have held, and the assertions are separate boolean functions
   ([start_asserts], [end_asserts]) used as hypotheses by the theorems.
   NO proofs in this file. *)
From Coq Require Import ZArith List Bool.
Import ListNotations.
Local Open Scope Z_scope.

(* parsec_data_coherency_t: the four values the code ever stores (data.h) *)
Inductive cstate := INVALID | OWNED | EXCLUSIVE | SHARED.
Definition is_invalid (s : cstate) := match s with INVALID => true | _ => false end.
Definition is_owned (s : cstate) := match s with OWNED => true | _ => false end.
Definition is_exclusive (s : cstate) := match s with EXCLUSIVE => true | _ => false end.
Definition is_shared (s : cstate) := match s with SHARED => true | _ => false end.

(* the fields of parsec_data_copy_t the protocol reads or writes:
   coherency_state, version (uint32_t), readers (int32_t),
   data_transfer_status (0 NOT_TRANSFER, 1 UNDER_TRANSFER, 2 COMPLETE_TRANSFER;
   only read by assertions) *)
Record copy := mkcopy { cst : cstate; ver : Z; rdr : Z; xfer : Z }.
Definition set_st (c : copy) (s : cstate) := mkcopy s (ver c) (rdr c) (xfer c).
Definition set_ver (c : copy) (v : Z) := mkcopy (cst c) v (rdr c) (xfer c).
Definition set_rdr (c : copy) (r : Z) := mkcopy (cst c) (ver c) r (xfer c).
Definition set_xfer (c : copy) (x : Z) := mkcopy (cst c) (ver c) (rdr c) x.

(* parsec_data_t: owner_device (int8_t, -1 = none) and device_copies[] *)
Record data := mkdata { owner : Z; copies : list (option copy) }.

(* access mode: PARSEC_FLOW_ACCESS_READ (1<<2) and PARSEC_FLOW_ACCESS_WRITE (1<<3) bits *)
Record mode := mkmode { mr : bool; mw : bool }.

Definition getc (cs : list (option copy)) (i : nat) : option copy :=
  match nth_error cs i with Some (Some c) => Some c | _ => None end.

(* for (i = 0; i < parsec_nb_devices; i++) { if (NULL == device_copies[i]) continue; copies[i] = f i copies[i] } *)
Fixpoint mapi_from {A B} (f : nat -> A -> B) (k : nat) (l : list A) : list B :=
  match l with [] => [] | x :: r => f k x :: mapi_from f (S k) r end.
Definition upd_each (f : nat -> copy -> copy) (cs : list (option copy)) : list (option copy) :=
  mapi_from (fun i o => option_map (f i) o) 0%nat cs.
Definition upd_at (d : nat) (f : copy -> copy) (cs : list (option copy)) : list (option copy) :=
  upd_each (fun i c => if Nat.eqb i d then f c else c) cs.

(* (int8_t)(uint8_t)device *)
Definition sint8 (z : Z) : Z := let u := z mod 256 in if u <? 128 then u else u - 256.
Definition two32 : Z := 4294967296.

(* ---- parsec_data_start_transfer_ownership_to_copy ---------------------- *)

(* case INVALID, -1 == valid_copy:
     for i: if NULL continue; if INVALID continue; valid_copy = i;   (the last one wins) *)
Fixpoint scan_valid (k : nat) (l : list (option copy)) (acc : Z) : Z :=
  match l with
  | [] => acc
  | o :: r => scan_valid (S k) r
                (match o with Some c => if is_invalid (cst c) then acc else Z.of_nat k | None => acc end)
  end.

(* case SHARED:
     for i: if NULL continue; if OWNED == state[i] && version[i] > copy->version: transfer_required = 1 *)
Definition newer_owned (cs : list (option copy)) (v : Z) : bool :=
  existsb (fun o => match o with Some c => is_owned (cst c) && (v <? ver c) | None => false end) cs.

(* the switch: (transfer_required, valid_copy) *)
Definition classify (cs : list (option copy)) (c : copy) (valid0 : Z) : bool * Z :=
  match cst c with
  | INVALID => (true, if valid0 =? -1 then scan_valid 0 cs valid0 else valid0)
  | SHARED => (newer_owned cs (ver c), valid0)
  | EXCLUSIVE => (false, valid0)
  | OWNED => (false, valid0)
  end.

(* body of the loop under `if (PARSEC_FLOW_ACCESS_READ & access_mode)` for one copy i != device, non NULL:
     if INVALID continue;
     if (OWNED == copy->coherency_state && !(WRITE & access_mode)) { if version[i] < copy->version: state[i] = INVALID; owner_device = -1; }
     if (EXCLUSIVE == state[i]) state[i] = SHARED;
   [tro] = OWNED == copy->coherency_state && !(WRITE & access_mode); [tv] = copy->version *)
Definition rd_body (tro : bool) (tv : Z) (x : copy) : copy :=
  if is_invalid (cst x) then x else
  let x1 := if tro then (if ver x <? tv then set_st x INVALID else x) else x in
  if is_exclusive (cst x1) then set_st x1 SHARED else x1.
Definition read_loop (d : nat) (tro : bool) (tv : Z) (cs : list (option copy)) : list (option copy) :=
  upd_each (fun i x => if Nat.eqb i d then x else rd_body tro tv x) cs.
(* does some iteration of that loop reach the body (a non-NULL, non-INVALID copy other than device)? *)
Fixpoint other_valid (d : nat) (k : nat) (l : list (option copy)) : bool :=
  match l with
  | [] => false
  | o :: r => (match o with Some x => negb (Nat.eqb k d) && negb (is_invalid (cst x)) | None => false end)
              || other_valid d (S k) r
  end.

(* loop under `if (PARSEC_FLOW_ACCESS_WRITE & access_mode)`: every non-NULL non-INVALID copy becomes SHARED *)
Definition write_loop (cs : list (option copy)) : list (option copy) :=
  upd_each (fun _ x => if is_invalid (cst x) then x else set_st x SHARED) cs.

(* label bookkeeping: and the tail of the function *)
Definition bookkeeping (own : Z) (cs : list (option copy)) (d : nat) (m : mode) (req : bool) (valid : Z) : data * Z :=
  let cs1 := if mr m then upd_at d (fun c => set_rdr c (rdr c + 1)) cs else cs in
  let own1 := if mw m then sint8 (Z.of_nat d) else own in
  if req then (mkdata own1 (upd_at d (fun c => set_st c INVALID) cs1), valid)
  else (mkdata own1 cs1, -1).

(* state of the copies and owner after the two loops (before bookkeeping), and the
   final transfer_required / valid_copy; only for valid_copy != device *)
Definition after_read (dt : data) (d : nat) (m : mode) (c : copy) : Z * list (option copy) :=
  if mr m then
    let tro := is_owned (cst c) && negb (mw m) in
    (if tro && other_valid d 0 (copies dt) then -1 else owner dt, read_loop d tro (ver c) (copies dt))
  else (owner dt, copies dt).

Definition start (dt : data) (d : nat) (m : mode) : data * Z :=
  match getc (copies dt) d with
  | None => (dt, -1)      (* C: NULL dereference; excluded by assert(NULL != copy) *)
  | Some c =>
      let valid0 := owner dt in
      if valid0 =? Z.of_nat d then bookkeeping (owner dt) (copies dt) d m false valid0
      else
        let '(req, valid) := classify (copies dt) c valid0 in
        let '(own1, cs1) := after_read dt d m c in
        let req1 := if mr m then req else false in
        let cs2 := if mw m then write_loop cs1 else cs1 in
        bookkeeping own1 cs2 d m req1 valid
  end.

(* ---- parsec_data_end_transfer_ownership_to_copy ------------------------- *)
Definition endt (dt : data) (d : nat) (m : mode) : data :=
  mkdata (owner dt)
    (upd_at d (fun c => let c1 := if mr m then set_st c SHARED else c in
                        if mw m then set_st c1 OWNED else c1) (copies dt)).

(* ---- parsec_data_transfer_ownership_to_copy (lock; start; end; unlock) -- *)
Definition transfer (dt : data) (d : nat) (m : mode) : data * Z :=
  let '(dt1, r) := start dt d m in (endt dt1 d m, r).

(* ---- the assertions of the two functions, evaluated where the code evaluates them *)
Definition all_copies (p : nat -> copy -> bool) (cs : list (option copy)) : bool :=
  forallb (fun b => b) (mapi_from (fun i o => match o with Some x => p i x | None => true end) 0%nat cs).

Definition start_asserts (dt : data) (d : nat) (m : mode) : bool :=
  match getc (copies dt) d with
  | None => false                                   (* assert( NULL != copy ) *)
  | Some c =>
      if owner dt =? Z.of_nat d then true
      else
        let '(req, valid) := classify (copies dt) c (owner dt) in
        let '(own1, cs1) := after_read dt d m c in
        let tro := is_owned (cst c) && negb (mw m) in
        (* case INVALID, -1 == valid_copy: assert( EXCLUSIVE == state[i] || SHARED == state[i] ) on non-INVALID copies *)
        (if is_invalid (cst c) && (owner dt =? -1)
         then all_copies (fun _ x => is_invalid (cst x) || is_exclusive (cst x) || is_shared (cst x)) (copies dt)
         else true)
        (* case SHARED: assert( (int)i == valid_copy ) for an OWNED copy with a greater version *)
        && (if is_shared (cst c)
            then all_copies (fun i x => negb (is_owned (cst x) && (ver c <? ver x)) || (Z.of_nat i =? owner dt)) (copies dt)
            else true)
        (* case OWNED: assert( device == data->owner_device ), reached only when owner_device != device *)
        && negb (is_owned (cst c))
        (* READ loop: assert(status[i] != UNDER_TRANSFER) on the copies found EXCLUSIVE *)
        && (if mr m
            then all_copies (fun i x => Nat.eqb i d || is_invalid (cst x)
                               || negb (is_exclusive (cst (if tro then (if ver x <? ver c then set_st x INVALID else x) else x)))
                               || negb (xfer x =? 1)) (copies dt)
            else true)
        (* WRITE loop: assert(status[i] != UNDER_TRANSFER) on every non-INVALID copy *)
        && (if mw m then all_copies (fun _ x => is_invalid (cst x) || negb (xfer x =? 1)) cs1 else true)
        (* assert( -1 != valid_copy ) when a transfer is required *)
        && (if (if mr m then req else false) then negb (valid =? -1) else true)
  end.

Definition end_asserts (dt : data) (d : nat) : bool :=
  match getc (copies dt) d with
  | None => false                                   (* assert( NULL != copy ) *)
  | Some c => negb (xfer c =? 1)                    (* assert(status != UNDER_TRANSFER) *)
  end.

(* ---- what the callers do to the same fields (device_gpu.c, jdf2c.c, DTD) -- *)
(* copy->version = v  (uint32_t) *)
Definition setv (dt : data) (d : nat) (v : Z) : data :=
  mkdata (owner dt) (upd_at d (fun c => set_ver c (v mod two32)) (copies dt)).
(* copy->version++  (jdf2c.c body prologue, DTD cpu submit) *)
Definition incv (dt : data) (d : nat) : data :=
  mkdata (owner dt) (upd_at d (fun c => set_ver c ((ver c + 1) mod two32)) (copies dt)).
(* gpu_elem->version = candidate->version  (device_gpu.c, completion of a transfer from copy s) *)
Definition pull (dt : data) (d s : nat) : data :=
  match getc (copies dt) s with
  | Some sc => mkdata (owner dt) (upd_at d (fun c => set_ver c (ver sc)) (copies dt))
  | None => dt
  end.
(* greatest version among the non-NULL non-INVALID copies, [dflt] when there is none *)
Definition max_valid (cs : list (option copy)) (dflt : Z) : Z :=
  fold_left (fun a o => match o with Some x => if is_invalid (cst x) then a else Z.max a (ver x) | None => a end) cs dflt.
Definition has_valid (cs : list (option copy)) : bool :=
  existsb (fun o => match o with Some x => negb (is_invalid (cst x)) | None => false end) cs.
(* a writer produces a version above every valid one: gpu_elem->version = candidate->version + 1
   where candidate holds the newest version (device_gpu.c) *)
Definition bump (dt : data) (d : nat) : data :=
  match getc (copies dt) d with
  | Some c => setv dt d (max_valid (copies dt) (ver c) + 1)
  | None => dt
  end.
(* release of a reader: atomic decrement of copy->readers (parsec_gpu_data_copy_release_reader,
   parsec_dtd_data_copy_reader_release) *)
Definition release (dt : data) (d : nat) : data :=
  mkdata (owner dt) (upd_at d (fun c => set_rdr c (rdr c - 1)) (copies dt)).
(* copy->data_transfer_status = k *)
Definition setx (dt : data) (d : nat) (k : Z) : data :=
  mkdata (owner dt) (upd_at d (fun c => set_xfer c k) (copies dt)).

(* ---- histories of primitive operations ---------------------------------- *)
Inductive op :=
| OStart (d : nat) (m : mode)     (* start_transfer_ownership_to_copy(data, d, m) *)
| OEnd (d : nat) (m : mode)       (* end_transfer_ownership_to_copy(data, d, m) *)
| OXfer (d : nat) (m : mode)      (* transfer_ownership_to_copy(data, d, m) *)
| OSetV (d : nat) (v : Z)         (* copies[d]->version = v *)
| OInc (d : nat)                  (* copies[d]->version++ *)
| OPull (d : nat)                 (* copies[d]->version = copies[s]->version, s = what the last start on d returned (if >= 0) *)
| OBump (d : nat)                 (* copies[d]->version = 1 + greatest valid version *)
| ORel (d : nat)                  (* copies[d]->readers-- *)
| OStat (d : nat) (k : Z).        (* copies[d]->data_transfer_status = k *)

(* run state: the datum and, per device, the value returned by the last start / transfer on it *)
Record rstate := mkrs { dat : data; lasts : list (nat * Z) }.
Fixpoint lookup (d : nat) (l : list (nat * Z)) : Z :=
  match l with [] => -1 | (k, v) :: r => if Nat.eqb k d then v else lookup d r end.

(* one operation; the second component is the function's return value (-1 for void operations) *)
Definition step (rs : rstate) (o : op) : rstate * Z :=
  match o with
  | OStart d m => let '(dt, r) := start (dat rs) d m in (mkrs dt ((d, r) :: lasts rs), r)
  | OXfer d m => let '(dt, r) := transfer (dat rs) d m in (mkrs dt ((d, r) :: lasts rs), r)
  | OEnd d m => (mkrs (endt (dat rs) d m) (lasts rs), -1)
  | OSetV d v => (mkrs (setv (dat rs) d v) (lasts rs), -1)
  | OInc d => (mkrs (incv (dat rs) d) (lasts rs), -1)
  | OPull d => let s := lookup d (lasts rs) in
               (mkrs (if 0 <=? s then pull (dat rs) d (Z.to_nat s) else dat rs) (lasts rs), -1)
  | OBump d => (mkrs (bump (dat rs) d) (lasts rs), -1)
  | ORel d => (mkrs (release (dat rs) d) (lasts rs), -1)
  | OStat d k => (mkrs (setx (dat rs) d k) (lasts rs), -1)
  end.

(* run a history; returns every intermediate (state after the op, return value) *)
Fixpoint run (rs : rstate) (ops : list op) : list (rstate * Z) :=
  match ops with
  | [] => []
  | o :: r => let '(rs1, v) := step rs o in (rs1, v) :: run rs1 r
  end.
Fixpoint final (rs : rstate) (ops : list op) : rstate :=
  match ops with [] => rs | o :: r => final (fst (step rs o)) r end.

(* ---- accesses as the callers perform them ------------------------------- *)
(* one access of a task to the datum on device d with mode m:
     r = start(d, m); if (r >= 0) version[d] = version[r]   (the transfer the function asked for)
     end(d, m); if (m & WRITE) version[d] = newest + 1       (the writer produces a new version)
   this is the order of device_gpu.c (stage_in, then the completion callback); calling
   transfer_ownership_to_copy and pulling afterwards gives the same state ([access_atomic]). *)
Definition access (dt : data) (d : nat) (m : mode) : data * Z :=
  let '(dt1, r) := start dt d m in
  let dt2 := if 0 <=? r then pull dt1 d (Z.to_nat r) else dt1 in
  let dt3 := endt dt2 d m in
  (if mw m then bump dt3 d else dt3, r).
Definition access_atomic (dt : data) (d : nat) (m : mode) : data * Z :=
  let '(dt1, r) := transfer dt d m in
  let dt2 := if 0 <=? r then pull dt1 d (Z.to_nat r) else dt1 in
  (if mw m then bump dt2 d else dt2, r).

(* an element of a history of accesses: (device, access mode), or one more version
   bump by the owner of the datum (a second write by the task that owns it) *)
Inductive tx := Acc (d : nat) (m : mode) | Again.
Definition tx_step (dt : data) (t : tx) : data * Z :=
  match t with
  | Acc d m => access dt d m
  | Again =>
      (match (if 0 <=? owner dt then getc (copies dt) (Z.to_nat (owner dt)) else None) with
       | Some c => if is_owned (cst c) then bump dt (Z.to_nat (owner dt)) else dt
       | None => dt
       end, -1)
  end.
Fixpoint tx_run (dt : data) (ts : list tx) : list (data * Z) :=
  match ts with [] => [] | t :: r => let '(dt1, v) := tx_step dt t in (dt1, v) :: tx_run dt1 r end.
Fixpoint tx_final (dt : data) (ts : list tx) : data :=
  match ts with [] => dt | t :: r => tx_final (fst (tx_step dt t)) r end.

(* ---- the two ways a datum is born (data.c) ------------------------------ *)
(* parsec_data_new + parsec_data_copy_new on every device: all INVALID, version 0, no owner *)
Definition fresh_copy := mkcopy INVALID 0 0 0.
Definition data_new (n : nat) : data := mkdata (-1) (repeat (Some fresh_copy) n).
(* parsec_data_create: device 0 holds an OWNED copy and owns the datum *)
Definition data_create (n : nat) : data :=
  mkdata 0 (Some (mkcopy OWNED 0 0 0) :: repeat (Some fresh_copy) (pred n)).
