(* C18 — the two programs on which the faithful model (and the real code, see
   notes/findings/C18-*.md) violates the property as stated, and what the repaired variant
   does on them.  Everything here is decided by computation on concrete programs. *)
From PV Require Import Base.Tac DType.DTypeDefs Reshape.ReshapeDefs.
Local Open Scope Z_scope.

Definition leaf : cls := {| c_R := 1; c_mod := false; c_in := InT 0 0 0 0; c_outs := []; c_in2 := None; c_bfirst := false |}.

(* one rank, 3 x 3 tiles of 4-byte elements:
     C0(k): RW A <- descA(k)   -> A C1(k) [type = LOWER_TILE]   -> A C2(k) [type = UPPER_TILE]
     C1(k): READ A <- A C0(k)          C2(k): READ A <- A C0(k)                                   *)
Definition P_stale (fixed : bool) : prog :=
  {| p_nranks := 1; p_mb := 3; p_esz := 4; p_nt := 1; p_owner := [0; 0; 0];
     p_cls := [ {| c_R := 1; c_mod := false; c_in := InD 0 0; c_outs := [OutE 1 2 0; OutE 2 3 0]; c_in2 := None; c_bfirst := false |}; leaf; leaf ];
     p_fixed := fixed |}.

(*   C0(k): RW A <- descA(k)   -> A C1(k) [type = LOWER_TILE]   -> A C2(k) [type = DEFAULT] *)
Definition P_crash (fixed : bool) : prog :=
  {| p_nranks := 1; p_mb := 3; p_esz := 4; p_nt := 1; p_owner := [0; 0; 0];
     p_cls := [ {| c_R := 1; c_mod := false; c_in := InD 0 0; c_outs := [OutE 1 2 0; OutE 2 1 0]; c_in2 := None; c_bfirst := false |}; leaf; leaf ];
     p_fixed := fixed |}.

(* the copy and the content instance (c, k, r) saw at body entry *)
Definition body_of (s : st) (c k r : Z) : option (nat * Z * tile) :=
  match find (fun e => match e with EBody c' k' r' _ _ _ => (c' =? c) && (k' =? k) && (r' =? r) | _ => false end) (evs s) with
  | Some (EBody _ _ _ cp d t) => Some (cp, d, t)
  | _ => None
  end.

(* bytes of layout l on which two tiles differ *)
Definition diff_on (l : list Z) (a b : tile) : list Z := filter (fun o => negb (rd a o =? rd b o)) l.

Definition upper3 := shape_layout 4 3 3.

(* (error code, copy and type seen by C0, C1, C2, bytes of layout l1 on which C1's tile differs from
   C0's, bytes of l2 on which C2's tile differs from C0's) *)
Definition summary (P : prog) (l1 l2 : list Z) :=
  let s := run P in
  match body_of s 0 0 0, body_of s 1 0 0, body_of s 2 0 0 with
  | Some (c0, d0, t0), Some (c1, d1, t1), Some (c2, d2, t2) =>
      (err s, [(c0, d0); (c1, d1); (c2, d2)], diff_on l1 t1 t0, diff_on l2 t2 t0)
  | _, _, _ => (err s, [], [], [])
  end.

Definition lower3 := shape_layout 4 3 2.

(* as it is: C2, fed through [type = UPPER_TILE], receives the copy converted for C1 (copy 3 of type
   LOWER): the strictly upper elements (bytes 12..15, 24..31) are not the producer's *)
Lemma stale_run :
  summary (P_stale false) lower3 upper3 =
  (0, [(O, 1); (3%nat, 2); (3%nat, 2)], [], [12; 13; 14; 15; 24; 25; 26; 27; 28; 29; 30; 31]).
Proof. vm_compute. reflexivity. Qed.

(* repaired: C2 gets its own UPPER copy with the producer's upper triangle *)
Lemma stale_run_fixed :
  summary (P_stale true) lower3 upper3 = (0, [(O, 1); (3%nat, 2); (4%nat, 3)], [], []).
Proof. vm_compute. reflexivity. Qed.

(* as it is: the promise of C1 is triggered with a NULL execution stream (SIGSEGV in the real code) *)
Lemma crash_run : err (run (P_crash false)) = 1.
Proof. vm_compute. reflexivity. Qed.

(* repaired: C1 gets a LOWER copy, C2 the producer's copy itself *)
Lemma crash_run_fixed :
  summary (P_crash true) lower3 (shape_layout 4 3 1) = (0, [(O, 1); (3%nat, 2); (O, 1)], [], []).
Proof. vm_compute. reflexivity. Qed.
