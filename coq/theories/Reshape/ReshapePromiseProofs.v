(* C18 — proofs about reshape promises (datacopy futures): a promise is fulfilled at most once, a
   fulfilment only ADDS a copy (no existing copy is touched), consumers that request the same
   shape from a promise share one copy and one conversion, and no conversion happens when the
   requested shape is the shape of the produced copy. *)
From PV Require Import Base.Tac DType.DTypeDefs Reshape.ReshapeDefs.
Local Open Scope Z_scope.

(* ------------------------------------------------------------ lists *)
Lemma length_lset {A} (l : list A) n x : length (lset l n x) = length l.
Proof. revert n; induction l as [|y l IH]; intros [|n]; cbn; auto. Qed.

Lemma nth_lset_same {A} (l : list A) n x d : (n < length l)%nat -> nth n (lset l n x) d = x.
Proof. revert n; induction l as [|y l IH]; intros [|n] H; cbn in *; try lia; auto. apply IH; lia. Qed.

Lemma nth_lset_other {A} (l : list A) n m x d : n <> m -> nth m (lset l n x) d = nth m l d.
Proof. revert n m; induction l as [|y l IH]; intros [|n] [|m] H; cbn; auto; try lia. Qed.

Lemma nth_app_l {A} (l l' : list A) n d : (n < length l)%nat -> nth n (l ++ l') d = nth n l d.
Proof. intros; apply app_nth1; auto. Qed.

Lemma nth_app_new {A} (l : list A) x d : nth (length l) (l ++ [x]) d = x.
Proof. rewrite app_nth2 by lia. rewrite Nat.sub_diag. reflexivity. Qed.

(* ------------------------------------------- "only adds copies" *)
(* s' has the copies of s, unchanged, possibly followed by new ones *)
Definition ext (s s' : st) : Prop := exists l, copies s' = copies s ++ l.

Lemma ext_refl s : ext s s.
Proof. exists []. rewrite app_nil_r. reflexivity. Qed.

Lemma ext_trans a b c : ext a b -> ext b c -> ext a c.
Proof. intros [l1 H1] [l2 H2]. exists (l1 ++ l2). rewrite H2, H1, app_assoc. reflexivity. Qed.

Lemma ext_getc s s' i : ext s s' -> (i < length (copies s))%nat -> getc s' i = getc s i.
Proof. intros [l H] Hi. unfold getc. rewrite H. apply app_nth1; auto. Qed.

Lemma ext_same_copies s s' : copies s' = copies s -> ext s s'.
Proof. intros H. exists []. rewrite app_nil_r. exact H. Qed.

Lemma ext_set_err s e : ext s (set_err s e).
Proof. apply ext_same_copies. reflexivity. Qed.

Lemma ext_setf s i f : ext s (setf s i f).
Proof. apply ext_same_copies. reflexivity. Qed.

Lemma ext_add_fut s f : ext s (add_fut s f).
Proof. apply ext_same_copies. reflexivity. Qed.

Lemma ext_repo_set s k f : ext s (repo_set s k f).
Proof. apply ext_same_copies. reflexivity. Qed.

Lemma ext_repo_del s k : ext s (repo_del s k).
Proof. apply ext_same_copies. reflexivity. Qed.

Lemma get_internal_ext E s f b : ext s (fst (get_internal E s f b)).
Proof.
  unfold get_internal. destruct (f_val (getf s f)); cbn [fst]; [apply ext_refl|].
  destruct (negb b); cbn [fst]; [apply ext_set_err|].
  destruct (negb (sendrecv_ok _ _)); cbn [fst]; [apply ext_set_err|].
  eexists. cbn. reflexivity.
Qed.

Lemma find_nested_ext E l : forall s s0 s1 r, find_nested E s l s0 s1 = Some r -> ext s (fst r).
Proof.
  induction l as [|n l IH]; intros s s0 s1 r H; cbn in H; [discriminate|].
  destruct (get_internal E s n true) as [s' d] eqn:Hg.
  assert (He : ext s s') by (pose proof (get_internal_ext E s n true) as X; rewrite Hg in X; exact X).
  destruct d as [c|].
  - destruct (match_spec _ _ s0 s1).
    + inv H. exact He.
    + eapply ext_trans; [exact He|]. eapply IH; eauto.
  - inv H. exact He.
Qed.

Lemma get_spec_ext E s f s0 s1 : ext s (fst (get_spec E s f s0 s1)).
Proof.
  unfold get_spec. destruct (match_spec _ _ s0 s1); [apply get_internal_ext|].
  destruct (find_nested E s (f_nested (getf s f)) s0 s1) as [r|] eqn:Hf.
  - eapply find_nested_ext; eauto.
  - eapply ext_trans; [|apply get_internal_ext].
    eapply ext_trans; [apply ext_add_fut|apply ext_setf].
Qed.

(* T3: obtaining a copy through a promise never alters a copy that already exists (the
   producer's, another consumer's, a tile of the collection) *)
Lemma get_from_dep_ext E s f ti : ext s (fst (get_from_dep E s f ti)).
Proof. unfold get_from_dep. destruct (f_guard _); [apply get_internal_ext|apply get_spec_ext]. Qed.

Lemma get_from_dep_untouched E s f ti i :
  (i < length (copies s))%nat -> getc (fst (get_from_dep E s f ti)) i = getc s i.
Proof. intros Hi. apply ext_getc; [apply get_from_dep_ext|exact Hi]. Qed.

Lemma new_promise_ext s X rank b src cnt dst : ext s (fst (new_promise s X rank b src cnt dst)).
Proof. unfold new_promise. cbn [fst]. apply ext_add_fut. Qed.

Lemma create_ext E fx s pk sk X rank cur b src cnt dst : ext s (fst (create E fx s pk sk X rank cur b src cnt dst)).
Proof.
  unfold create.
  assert (Huse : forall s k cur, ext s (fst (match cur with
      | Some f => (repo_set s k f, Some f)
      | None => let '(s1, f) := new_promise s X rank b src cnt dst in (repo_set s1 k f, Some f) end))).
  { intros s0 k [f|]; cbn [fst]; [apply ext_repo_set|].
    destruct (new_promise s0 X rank b src cnt dst) as [s1 f] eqn:Hn. cbn [fst].
    eapply ext_trans; [|apply ext_repo_set].
    pose proof (new_promise_ext s0 X rank b src cnt dst) as H. rewrite Hn in H. exact H. }
  destruct (repo_get s pk) as [pf|]; [|apply Huse].
  destruct (negb b); [apply Huse|].
  destruct (if fx then (s, f_val (getf s pf)) else get_internal E s pf false) as [s1 d] eqn:Hd.
  assert (He : ext s s1).
  { destruct fx; [inv Hd; apply ext_refl|].
    pose proof (get_internal_ext E s pf false) as H. rewrite Hd in H. exact H. }
  destruct (match d with Some c => Nat.eqb c X | None => false end).
  - cbn [fst]. eapply ext_trans; [exact He|apply ext_repo_set].
  - eapply ext_trans; [exact He|apply (Huse s1 sk None)].
Qed.

Lemma setup_local_ext E fx s pk sk X rank cur to : ext s (fst (setup_local E fx s pk sk X rank cur to)).
Proof. unfold setup_local. apply create_ext. Qed.

Lemma getf_setf_same s i F : (i < length (futs s))%nat -> getf (setf s i F) i = F.
Proof. intros H. unfold getf, setf. cbn. apply nth_lset_same. exact H. Qed.
Lemma getf_setf_other s i g F : i <> g -> getf (setf s i F) g = getf s g.
Proof. intros H. unfold getf, setf. cbn. apply nth_lset_other. exact H. Qed.
Lemma length_futs_setf s i F : length (futs (setf s i F)) = length (futs s).
Proof. unfold setf. cbn. apply length_lset. Qed.

Lemma setup_local_untouched E fx s pk sk X rank cur to i :
  (i < length (copies s))%nat -> getc (fst (setup_local E fx s pk sk X rank cur to)) i = getc s i.
Proof. intros Hi. apply ext_getc; [apply setup_local_ext|exact Hi]. Qed.

(* ------------------------------------------- fulfilled at most once *)
Lemma get_internal_done E s f b c : f_val (getf s f) = Some c -> get_internal E s f b = (s, Some c).
Proof. intros H. unfold get_internal. rewrite H. reflexivity. Qed.

(* what a fulfilment does: exactly one new copy of the destination type, holding the conversion of
   the promise's input copy into a fresh tile; one conversion event; the promise now tracks it *)
Lemma get_internal_fulfil E s f :
  f_val (getf s f) = None -> (f < length (futs s))%nat ->
  sendrecv_ok (lay E (f_src (getf s f)) (f_cnt (getf s f))) (lay E (f_dst (getf s f)) 1) = true ->
  let F := getf s f in
  let id := length (copies s) in
  let s' := fst (get_internal E s f true) in
  snd (get_internal E s f true) = Some id /\
  copies s' = copies s ++ [{| cp_dtt := f_dst F; cp_rank := f_rank F;
                              cp_data := convert (lay E (f_src F) (f_cnt F)) (lay E (f_dst F) 1)
                                                 (cp_data (getc s (f_in F))) (e_fresh E) |}] /\
  evs s' = EConv (f_in F) (f_src F) (f_cnt F) id (f_dst F) :: evs s /\
  f_val (getf s' f) = Some id /\
  (forall g, g <> f -> getf s' g = getf s g) /\
  length (futs s') = length (futs s) /\ repo s' = repo s /\ err s' = err s.
Proof.
  intros Hv Hf Hok F id s'. subst s' F id. unfold get_internal. rewrite Hv, Hok. cbn [negb fst snd].
  repeat split; auto.
  - unfold getf, setf. cbn. rewrite nth_lset_same by exact Hf. reflexivity.
  - intros g Hg. unfold getf, setf. cbn. apply nth_lset_other. auto.
  - unfold setf. cbn. apply length_lset.
Qed.

(* the second request to the same promise finds it completed: same copy, no event, same state *)
Lemma get_internal_idem E s f s1 c b :
  (f < length (futs s))%nat -> get_internal E s f true = (s1, Some c) -> get_internal E s1 f b = (s1, Some c).
Proof.
  intros Hf H. apply get_internal_done.
  unfold get_internal in H. destruct (f_val (getf s f)) as [c0|] eqn:Hv.
  - inv H. exact Hv.
  - cbn [negb] in H. destruct (negb (sendrecv_ok _ _)); [inv H|]. inv H.
    unfold getf, setf. cbn. rewrite nth_lset_same by exact Hf. reflexivity.
Qed.

(* number of conversions recorded *)
Definition nconv (s : st) : nat := length (filter (fun e => match e with EConv _ _ _ _ _ => true | _ => false end) (evs s)).

Lemma get_internal_nconv E s f b : (nconv (fst (get_internal E s f b)) <= nconv s + 1)%nat.
Proof.
  unfold get_internal. destruct (f_val (getf s f)); cbn [fst]; [lia|].
  destruct (negb b); cbn [fst]; [unfold nconv; cbn; lia|].
  destruct (negb (sendrecv_ok _ _)); cbn [fst]; unfold nconv; cbn; lia.
Qed.

(* ------------------------------------ nested promises: one per requested shape *)
(* every nested promise of f is a distinct, existing, completed promise (true in the sequential
   model after every request: a nested promise is triggered by the request that creates it) *)
Definition nested_done (s : st) (f : nat) : Prop :=
  forall n, In n (f_nested (getf s f)) -> (n < length (futs s))%nat /\ n <> f /\ f_val (getf s n) <> None.

Lemma find_nested_done E s l s0 s1 :
  (forall n, In n l -> f_val (getf s n) <> None) ->
  find_nested E s l s0 s1 =
  match find (fun n => match_spec (f_m0 (getf s n)) (f_m1 (getf s n)) s0 s1) l with
  | Some n => Some (s, f_val (getf s n))
  | None => None
  end.
Proof.
  induction l as [|n l IH]; intros H; cbn; [reflexivity|].
  destruct (f_val (getf s n)) as [c|] eqn:Hv; [|exfalso; eapply H; [left; reflexivity|exact Hv]].
  rewrite (get_internal_done E s n true c Hv).
  destruct (match_spec _ _ s0 s1); [rewrite Hv; reflexivity|].
  apply IH. intros m Hm. apply H. right. exact Hm.
Qed.

Lemma match_spec_refl s0 s1 : match_spec s0 s1 s0 s1 = true.
Proof. unfold match_spec. rewrite !Z.eqb_refl. reflexivity. Qed.

Lemma find_ext' {A} (p q : A -> bool) l : (forall x, In x l -> p x = q x) -> find p l = find q l.
Proof. induction l as [|y l IH]; cbn; intros H; [reflexivity|]. rewrite (H y) by auto. destruct (q y); auto. Qed.

Lemma find_app_none {A} (p : A -> bool) l x : find p l = None -> find p (l ++ [x]) = if p x then Some x else None.
Proof. induction l as [|y l IH]; cbn; intros H; [reflexivity|]. destruct (p y); [discriminate|auto]. Qed.

(* T4: a request (s0, s1) to promise f that returns copy c leaves the promise in a state where the
   same request returns the same copy c without any further conversion, and the first request
   itself performed at most one conversion *)
Lemma get_spec_shared E s f s0 s1 s' c :
  (f < length (futs s))%nat -> nested_done s f ->
  get_spec E s f s0 s1 = (s', Some c) ->
  get_spec E s' f s0 s1 = (s', Some c) /\ nested_done s' f /\ (nconv s' <= nconv s + 1)%nat /\
  (f < length (futs s'))%nat.
Proof.
  intros Hf Hnd H. unfold get_spec in H.
  destruct (match_spec (f_m0 (getf s f)) (f_m1 (getf s f)) s0 s1) eqn:Hm.
  - (* the promise itself has the requested shape *)
    assert (Hi := get_internal_idem E s f s' c true Hf H).
    assert (Hn : (nconv s' <= nconv s + 1)%nat) by (pose proof (get_internal_nconv E s f true) as X; rewrite H in X; exact X).
    unfold get_internal in H. destruct (f_val (getf s f)) as [c0|] eqn:Hv.
    + inv H. split; [unfold get_spec; rewrite Hm; exact Hi|]. auto.
    + cbn [negb] in H. destruct (negb (sendrecv_ok _ _)); [inv H|]. inv H.
      match goal with |- context[get_spec E (setf ?S0 f ?V) f s0 s1] => set (sx := S0) in *; set (Vx := V) in * end.
      assert (Hfx : (f < length (futs sx))%nat) by exact Hf.
      assert (Hsame : forall g, g <> f -> getf (setf sx f Vx) g = getf s g).
      { intros g Hg. rewrite getf_setf_other by auto. reflexivity. }
      assert (Hself : getf (setf sx f Vx) f = Vx) by (apply getf_setf_same; exact Hfx).
      split; [|split; [|split]].
      * unfold get_spec. rewrite Hself. subst Vx. cbn [f_m0 f_m1 fut_val]. rewrite Hm. exact Hi.
      * intros n Hn'. rewrite Hself in Hn'. subst Vx. cbn [f_nested fut_val] in Hn'.
        destruct (Hnd n Hn') as [H1 [H2 H3]]. rewrite length_futs_setf.
        split; [exact H1|]. split; [exact H2|]. rewrite Hsame by exact H2. exact H3.
      * exact Hn.
      * rewrite length_futs_setf. exact Hf.
  - (* another shape: look among the nested promises *)
    rewrite find_nested_done in H by (intros n Hn; apply (Hnd n Hn)).
    destruct (find (fun n => match_spec (f_m0 (getf s n)) (f_m1 (getf s n)) s0 s1) (f_nested (getf s f))) as [n|] eqn:Hfind.
    + (* an existing nested promise has it *)
      inv H. split; [|split; [exact Hnd|split; [lia|exact Hf]]].
      unfold get_spec. rewrite Hm. rewrite find_nested_done by (intros m Hm'; apply (Hnd m Hm')).
      rewrite Hfind. congruence.
    + (* a new nested promise is created and fulfilled *)
      set (n := length (futs s)) in *.
      set (N := {| f_in := f_in (getf s f); f_m0 := s0; f_m1 := s1; f_src := f_src (getf s f); f_cnt := f_cnt (getf s f);
                   f_dst := s1; f_val := None; f_nested := []; f_guard := false; f_rank := f_rank (getf s f) |}) in *.
      set (sa := add_fut s N) in *.
      set (sb := setf sa f (fut_nested (getf sa f) (f_nested (getf s f) ++ [n]))) in *.
      assert (Hfa : getf sa f = getf s f) by (unfold getf, sa, add_fut; cbn; apply app_nth1; exact Hf).
      assert (Hlen_b : length (futs sb) = S n).
      { unfold sb, setf, sa, add_fut. cbn. rewrite length_lset, app_length. cbn. lia. }
      assert (Hnf : n <> f) by (unfold n; lia).
      assert (HbN : getf sb n = N).
      { unfold getf, sb, setf. cbn [futs with_futs]. rewrite nth_lset_other by auto.
        unfold sa, add_fut. cbn [futs with_futs]. apply nth_app_new. }
      assert (Hbf : getf sb f = fut_nested (getf s f) (f_nested (getf s f) ++ [n])).
      { unfold getf at 1, sb, setf. cbn [futs with_futs]. rewrite nth_lset_same.
        - rewrite Hfa. reflexivity.
        - unfold sa, add_fut. cbn. rewrite app_length. lia. }
      assert (Hbg : forall g, g <> f -> (g < n)%nat -> getf sb g = getf s g).
      { intros g Hg Hlt. unfold getf, sb, setf. cbn [futs with_futs]. rewrite nth_lset_other by auto.
        unfold sa, add_fut. cbn. apply app_nth1. exact Hlt. }
      assert (Hn1 : (nconv s' <= nconv sb + 1)%nat) by (pose proof (get_internal_nconv E sb n true) as X; rewrite H in X; exact X).
      assert (Hnb : nconv sb = nconv s) by reflexivity.
      assert (Hi := get_internal_idem E sb n s' c true ltac:(lia) H).
      (* the state after the fulfilment *)
      unfold get_internal in H. rewrite HbN in H. cbn [f_val N negb] in H.
      destruct (negb (sendrecv_ok _ _)); [inv H|]. inv H.
      match goal with |- context[setf ?S0 n ?V] => set (s2 := S0) in *; set (V2 := V) in * end.
      assert (H2n : getf (setf s2 n V2) n = V2).
      { apply getf_setf_same. change (n < length (futs sb))%nat. rewrite Hlen_b. lia. }
      assert (H2g : forall g, g <> n -> getf (setf s2 n V2) g = getf sb g).
      { intros g Hg. rewrite getf_setf_other by auto. reflexivity. }
      assert (H2len : length (futs (setf s2 n V2)) = S n).
      { rewrite length_futs_setf. change (length (futs sb) = S n). exact Hlen_b. }
      assert (Hnd' : nested_done (setf s2 n V2) f).
      { intros m Hm'. rewrite (H2g f) in Hm' by auto. rewrite Hbf in Hm'. cbn [f_nested fut_nested] in Hm'.
        rewrite H2len. apply in_app_or in Hm'. destruct Hm' as [Hm'|[<-|[]]].
        - destruct (Hnd m Hm') as [H1 [H2 H3]]. split; [unfold n; lia|]. split; [exact H2|].
          rewrite H2g by (unfold n; lia). rewrite Hbg by (auto; unfold n; lia). exact H3.
        - split; [lia|]. split; [exact Hnf|]. rewrite H2n. subst V2. cbn. discriminate. }
      split; [|split; [exact Hnd'|split; [lia|rewrite H2len; unfold n; lia]]].
      unfold get_spec. rewrite (H2g f) by auto. rewrite Hbf. cbn [f_m0 f_m1 f_nested fut_nested]. rewrite Hm.
      rewrite find_nested_done by (intros m Hm'; apply (Hnd' m); rewrite (H2g f) by auto; rewrite Hbf; exact Hm').
      assert (Hold : find (fun m => match_spec (f_m0 (getf (setf s2 n V2) m)) (f_m1 (getf (setf s2 n V2) m)) s0 s1)
                          (f_nested (getf s f)) = None).
      { rewrite <- Hfind. apply find_ext'. intros m Hm'. destruct (Hnd m Hm') as [H1 [H2 _]].
        rewrite H2g by (unfold n; lia). rewrite Hbg by (auto; unfold n; lia). reflexivity. }
      rewrite (find_app_none _ _ _ Hold). cbv beta. rewrite H2n.
      assert (HV : match_spec (f_m0 V2) (f_m1 V2) s0 s1 = true) by (subst V2; cbn; apply match_spec_refl).
      rewrite HV. rewrite H2n. subst V2. reflexivity.
Qed.

(* ------------------------------------ no conversion when the shapes are identical *)
(* T5: the producer's copy X has type d; the output dependency has no [type] or [type = d], the
   predecessor's repo entry is free, nothing is carried: the promise set up is already fulfilled
   with X itself, and a consumer without [type] or with [type = d] obtains X, with no conversion
   and no new copy *)
Lemma identical_shapes_no_conversion E fx s pk sk X rank to ti :
  let d := cp_dtt (getc s X) in
  repo_get s pk = None -> (to = 0 \/ to = d) -> (ti = 0 \/ ti = d) ->
  let '(s1, cur) := setup_local E fx s pk sk X rank None to in
  exists f, cur = Some f /\ repo_get s1 pk = Some f /\
    get_from_dep E s1 f ti = (s1, Some X) /\ copies s1 = copies s /\ evs s1 = evs s.
Proof.
  intros d Hfree Hto Hti. unfold setup_local. fold d.
  assert (Hful : ((to =? 0) || (to =? d)) = true) by (destruct Hto; subst; rewrite ?Z.eqb_refl, ?orb_true_r; reflexivity).
  rewrite Hful.
  replace (keep_cur fx s None d d) with (@None nat) by (unfold keep_cur; destruct fx; reflexivity).
  unfold create. rewrite Hfree. unfold new_promise. fold d. cbn [fst snd].
  exists (length (futs s)). split; [reflexivity|]. split.
  - unfold repo_get, repo_set. cbn.
    assert (Hk : key_eqb pk pk = true).
    { destruct pk as [[[[a b] c] e] g0]. cbn. rewrite !Z.eqb_refl. reflexivity. }
    rewrite Hk. reflexivity.
  - split; [|split; reflexivity].
    unfold get_from_dep.
    set (s1 := repo_set (add_fut s _) pk (length (futs s))).
    assert (Hg : getf s1 (length (futs s)) =
                 {| f_in := X; f_m0 := d; f_m1 := d; f_src := d; f_cnt := 1; f_dst := d;
                    f_val := Some X; f_nested := []; f_guard := false; f_rank := rank |}).
    { unfold getf, s1, repo_set, add_fut. cbn. apply nth_app_new. }
    rewrite Hg. cbn [f_guard]. unfold get_spec. rewrite Hg. cbn [f_m0 f_m1].
    assert (Hm : match_spec d d ti ti = true).
    { unfold match_spec. destruct Hti; subst; rewrite ?Z.eqb_refl, ?orb_true_r; reflexivity. }
    rewrite Hm. apply get_internal_done. rewrite Hg. reflexivity.
Qed.
