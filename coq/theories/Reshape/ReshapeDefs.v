(* C18 — typed PTG flows: executable model of PaRSEC's reshape machinery.  NO proofs here.

   What is mirrored (pinned tree):
     parsec/parsec_mpi_funnelled.c:parsec_mpi_sendrecv      -> [convert] = unpack with the destination
        type what was packed with the source type (MPI_Sendrecv on a private communicator: the k-th
        selected byte of the source goes to the k-th selected byte of the destination)
     parsec/remote_dep_mpi.c:parsec_local_reshape_cb / reshape_copy_allocate -> [get_internal]
        (a conversion always goes into a NEW arena copy; its other bytes are whatever the arena
        returned: the parameter [e_fresh], 0xEE-filled in the harness)
     parsec/class/parsec_datacopy_future.c get_or_trigger(_internal)      -> [get_internal] [get_spec]
     parsec/parsec_reshape.c  parsec_reshape_check_match_datatypes        -> [match_spec]
                              parsec_new_reshape_promise / parsec_setup_nested_future -> [new_promise] [get_spec]
                              parsec_create_reshape_promise                 -> [create]
                              parsec_set_up_reshape_promise                 -> [setup_local] [setup_recv_*]
                              parsec_get_copy_reshape_from_desc / _from_dep -> [from_desc] [get_from_dep]
     parsec/interfaces/ptg/ptg-compiler/jdf.c:jdf_reorder_dep_list_by_type -> [order_outs]
        (output deps grouped by local [type], the untyped group first; same (type, type_remote) =
        same dep_datatype_index = one message per remote rank)
     jdf2c.c: generated iterate_successors / release_deps / data_lookup / complete_hook -> [release]
        [run_task] [writeback]; NOTE data.data_future is set to NULL once per FLOW, not when the
        [type] of the output dependency changes: the future is carried ([cur]) from one successor
        to the next through all output dependencies of the flow.
     remote_dep_mpi.c: remote_dep_mpi_retrieve_datatype / remote_dep_release_incoming -> [recv]
        (receive type = [type_remote] of the first local successor, DEFAULT when absent; PACKED
        bytes when two local successors of the same message disagree).
   A datatype handle is a shape code: 0 = PARSEC_DATATYPE_NULL (no attribute), 1 FULL (the arena
   named DEFAULT, also the collection's default type), 2 LOWER, 3 UPPER (with diagonal), 4 LOWS,
   5 UPPS (without), 6 PARSEC_DATATYPE_PACKED.  parsec_type_match is handle equality.
   Layouts of 1..5 are [selected] of the types built by DType (C19) for an mb x mb tile of esz-byte
   elements; tiles are lists of bytes.
   The interpreter is sequential (classes in order, instances in order): a conversion completes
   when it is triggered, which is what a task observes after its data_lookup stopped returning
   AGAIN.  [p_fixed] selects the repaired variant (see notes/findings/C18-*.md): false = the code
   as it is. *)
From Coq Require Import ZArith List Bool.
From PV Require Import DType.DTypeDefs.
Import ListNotations.
Local Open Scope Z_scope.

(* ------------------------------------------------------------------ tiles *)
Definition tile := list Z.
Definition rd (t : tile) (o : Z) : Z := if o <? 0 then 0 else nth (Z.to_nat o) t 0.
Fixpoint upd_nat (t : tile) (n : nat) (v : Z) : tile :=
  match t with
  | [] => []
  | x :: r => match n with O => v :: r | S n' => x :: upd_nat r n' v end
  end.
Definition upd (t : tile) (o v : Z) : tile := if o <? 0 then t else upd_nat t (Z.to_nat o) v.
(* MPI_Pack(src, 1, type with selected bytes l) *)
Definition pack (l : list Z) (src : tile) : list Z := map (rd src) l.
(* MPI_Unpack(buf -> dst, 1, type with selected bytes l); stops with the shorter of the two *)
Fixpoint unpack (l buf : list Z) (dst : tile) : tile :=
  match l, buf with
  | o :: l', v :: buf' => unpack l' buf' (upd dst o v)
  | _, _ => dst
  end.
Definition convert (ls ld : list Z) (src dst : tile) : tile := unpack ld (pack ls src) dst.
(* MPI_Sendrecv with more data sent than the receive type takes is an MPI error (MPI_ERR_TRUNCATE,
   fatal: the communicator has the default error handler), EXCEPT that Open MPI 4.1 copies the prefix
   silently when the send type is one contiguous run (observed; implementation behaviour, not
   verified).  true = the call returns. *)
Fixpoint zlist_eqb (a b : list Z) : bool :=
  match a, b with
  | [], [] => true
  | x :: a', y :: b' => (x =? y) && zlist_eqb a' b'
  | _, _ => false
  end.
Definition contig (l : list Z) : bool :=
  match l with [] => true | a :: _ => zlist_eqb l (zseq a (Z.of_nat (length l))) end.
Definition sendrecv_ok (ls ld : list Z) : bool := (length ls <=? length ld)%nat || contig ls.

(* ----------------------------------------------------------------- shapes *)
Definition SH_FULL := 1.
Definition SH_PACKED := 6.
(* parsec_matrix_adt_define_rect(mb, mb, mb) / _lower(diag, mb) / _upper(diag, mb) *)
Definition shape_adt (esz mb s : Z) : res * Z :=
  if s =? 1 then adt_define 0 esz 0 mb mb mb
  else if s =? 2 then adt_define 2 esz 1 mb mb mb
  else if s =? 3 then adt_define 1 esz 1 mb mb mb
  else if s =? 4 then adt_define 2 esz 0 mb mb mb
  else adt_define 1 esz 0 mb mb mb.
Definition shape_layout (esz mb s : Z) : list Z :=
  if (s <=? 0) || (5 <? s) then [] else
  match fst (shape_adt esz mb s) with Ok t => selected t | Err _ => [] end.

Definition FILL := 238.   (* 0xEE: what the harness' arena hook writes into a new chunk *)
Record env := { e_bytes : Z; e_lay : list (list Z); e_fresh : tile }.
Definition mk_env (esz mb : Z) : env :=
  {| e_bytes := mb * mb * esz;
     e_lay := map (shape_layout esz mb) (zseq 0 6);
     e_fresh := repeat FILL (Z.to_nat (mb * mb * esz)) |}.
(* selected bytes of cnt elements of handle s (cnt > 1 only for PACKED = bytes) *)
Definition lay (E : env) (s cnt : Z) : list Z :=
  if s =? SH_PACKED then zseq 0 cnt else nth (Z.to_nat s) (e_lay E) [].

(* ------------------------------------------------------------------ state *)
Record copy := { cp_dtt : Z; cp_rank : Z; cp_data : tile }.
(* a datacopy future used as reshape promise *)
Record fut := { f_in : nat;              (* future_in_data->data: the copy a conversion reads *)
                f_m0 : Z; f_m1 : Z;      (* cb_match_data_in[0..1] *)
                f_src : Z; f_cnt : Z; f_dst : Z;   (* future_in_data->local: src type, src count, dst type *)
                f_val : option nat;      (* COMPLETED + tracked_data *)
                f_nested : list nat;
                f_guard : bool;          (* remote_recv_guard *)
                f_rank : Z }.
Definition key := (Z * Z * Z * Z * Z)%type.  (* rank, class, k, r, flow index: one slot of a repo entry *)
Inductive ev :=
| EConv (src : nat) (sty scnt : Z) (dst : nat) (dty : Z)
| EBody (c k r : Z) (cp : nat) (dtt : Z) (data : tile)      (* flow A at body entry *)
| EBody2 (c k r : Z) (cp : nat) (dtt : Z) (data : tile).    (* second data flow B at body entry *)
Record st := { copies : list copy; futs : list fut; repo : list (key * nat); evs : list ev; err : Z }.

Definition dcopy : copy := {| cp_dtt := 0; cp_rank := 0; cp_data := [] |}.
Definition dfut : fut := {| f_in := O; f_m0 := 0; f_m1 := 0; f_src := 0; f_cnt := 0; f_dst := 0;
                            f_val := None; f_nested := []; f_guard := false; f_rank := 0 |}.
Definition getc (s : st) (i : nat) : copy := nth i (copies s) dcopy.
Definition getf (s : st) (i : nat) : fut := nth i (futs s) dfut.
Fixpoint lset {A} (l : list A) (n : nat) (x : A) : list A :=
  match l with
  | [] => []
  | y :: r => match n with O => x :: r | S n' => y :: lset r n' x end
  end.
Definition with_copies (s : st) c := {| copies := c; futs := futs s; repo := repo s; evs := evs s; err := err s |}.
Definition with_futs (s : st) f := {| copies := copies s; futs := f; repo := repo s; evs := evs s; err := err s |}.
Definition with_repo (s : st) r := {| copies := copies s; futs := futs s; repo := r; evs := evs s; err := err s |}.
Definition add_ev (s : st) e := {| copies := copies s; futs := futs s; repo := repo s; evs := e :: evs s; err := err s |}.
Definition set_err (s : st) e := {| copies := copies s; futs := futs s; repo := repo s; evs := evs s;
                                    err := if err s =? 0 then e else err s |}.
Definition add_copy (s : st) (c : copy) : st := with_copies s (copies s ++ [c]).
Definition setc_data (s : st) (i : nat) (d : tile) : st :=
  with_copies s (lset (copies s) i {| cp_dtt := cp_dtt (getc s i); cp_rank := cp_rank (getc s i); cp_data := d |}).
Definition add_fut (s : st) (f : fut) : st := with_futs s (futs s ++ [f]).
Definition setf (s : st) (i : nat) (f : fut) : st := with_futs s (lset (futs s) i f).
Definition fut_val (F : fut) v := {| f_in := f_in F; f_m0 := f_m0 F; f_m1 := f_m1 F; f_src := f_src F; f_cnt := f_cnt F;
   f_dst := f_dst F; f_val := v; f_nested := f_nested F; f_guard := f_guard F; f_rank := f_rank F |}.
Definition fut_nested (F : fut) n := {| f_in := f_in F; f_m0 := f_m0 F; f_m1 := f_m1 F; f_src := f_src F; f_cnt := f_cnt F;
   f_dst := f_dst F; f_val := f_val F; f_nested := n; f_guard := f_guard F; f_rank := f_rank F |}.
Definition fut_guard (F : fut) g := {| f_in := f_in F; f_m0 := f_m0 F; f_m1 := f_m1 F; f_src := f_src F; f_cnt := f_cnt F;
   f_dst := f_dst F; f_val := f_val F; f_nested := f_nested F; f_guard := g; f_rank := f_rank F |}.

Definition key_eqb (a b : key) : bool :=
  let '(a1, a2, a3, a4, a5) := a in let '(b1, b2, b3, b4, b5) := b in
  (a1 =? b1) && (a2 =? b2) && (a3 =? b3) && (a4 =? b4) && (a5 =? b5).
Fixpoint assoc (l : list (key * nat)) (k : key) : option nat :=
  match l with [] => None | (k', v) :: r => if key_eqb k' k then Some v else assoc r k end.
Definition repo_get (s : st) (k : key) : option nat := assoc (repo s) k.
Definition repo_del (s : st) (k : key) : st := with_repo s (filter (fun kv => negb (key_eqb (fst kv) k)) (repo s)).
Definition repo_set (s : st) (k : key) (f : nat) : st :=
  with_repo s ((k, f) :: filter (fun kv => negb (key_eqb (fst kv) k)) (repo s)).

(* -------------------------------------------------------------- futures *)
(* parsec_datacopy_future_get_or_trigger_internal: return the tracked copy, or run the fulfil
   callback parsec_local_reshape_cb once (new arena copy of the destination type, conversion
   from the future's input copy).  The callback dereferences es: has_es = false is the call
   parsec_future_get_or_trigger(f, NULL, NULL, NULL, NULL) of parsec_create_reshape_promise. *)
Definition get_internal (E : env) (s : st) (f : nat) (has_es : bool) : st * option nat :=
  let F := getf s f in
  match f_val F with
  | Some c => (s, Some c)
  | None =>
      if negb has_es then (set_err s 1, None) else
      if negb (sendrecv_ok (lay E (f_src F) (f_cnt F)) (lay E (f_dst F) 1)) then (set_err s 1, None) else
      let data := convert (lay E (f_src F) (f_cnt F)) (lay E (f_dst F) 1) (cp_data (getc s (f_in F))) (e_fresh E) in
      let id := length (copies s) in
      let s1 := add_copy s {| cp_dtt := f_dst F; cp_rank := f_rank F; cp_data := data |} in
      let s2 := add_ev s1 (EConv (f_in F) (f_src F) (f_cnt F) id (f_dst F)) in
      (setf s2 f (fut_val F (Some id)), Some id)
  end.

(* parsec_reshape_check_match_datatypes(match data, requested local src/dst) *)
Definition match_spec (m0 m1 s0 s1 : Z) : bool := ((m0 =? s0) && (m1 =? s1)) || ((s0 =? 0) && (s1 =? 0)).

(* the loop over nested_futures of get_or_trigger: Some = the value returned from inside the loop *)
Fixpoint find_nested (E : env) (s : st) (l : list nat) (s0 s1 : Z) : option (st * option nat) :=
  match l with
  | [] => None
  | n :: l' =>
      let '(s', d) := get_internal E s n true in
      match d with
      | None => Some (s', None)
      | Some _ => if match_spec (f_m0 (getf s' n)) (f_m1 (getf s' n)) s0 s1 then Some (s', d)
                  else find_nested E s' l' s0 s1
      end
  end.

(* parsec_datacopy_future_get_or_trigger(f, parsec_setup_nested_future, spec (s0, s1)) *)
Definition get_spec (E : env) (s : st) (f : nat) (s0 s1 : Z) : st * option nat :=
  let F := getf s f in
  if match_spec (f_m0 F) (f_m1 F) s0 s1 then get_internal E s f true
  else match find_nested E s (f_nested F) s0 s1 with
       | Some r => r
       | None =>
           let n := length (futs s) in
           let N := {| f_in := f_in F; f_m0 := s0; f_m1 := s1; f_src := f_src F; f_cnt := f_cnt F; f_dst := s1;
                       f_val := None; f_nested := []; f_guard := false; f_rank := f_rank F |} in
           let s1' := add_fut s N in
           let s2 := setf s1' f (fut_nested (getf s1' f) (f_nested F ++ [n])) in
           get_internal E s2 n true
       end.

(* parsec_get_copy_reshape_from_dep: ti = [type] of the consumer's input dependency (0: none) *)
Definition get_from_dep (E : env) (s : st) (f : nat) (ti : Z) : st * option nat :=
  if f_guard (getf s f) then get_internal E s f true else get_spec E s f ti ti.

(* parsec_new_reshape_promise *)
Definition new_promise (s : st) (X : nat) (rank : Z) (fulfilled : bool) (src cnt dst : Z) : st * nat :=
  let d := cp_dtt (getc s X) in
  let F := if fulfilled
           then {| f_in := X; f_m0 := d; f_m1 := d; f_src := d; f_cnt := cnt; f_dst := d;
                   f_val := Some X; f_nested := []; f_guard := false; f_rank := rank |}
           else {| f_in := X; f_m0 := src; f_m1 := dst; f_src := src; f_cnt := cnt; f_dst := dst;
                   f_val := None; f_nested := []; f_guard := false; f_rank := rank |} in
  (add_fut s F, length (futs s)).

(* parsec_create_reshape_promise.  pk: entry of the (possibly fake) predecessor, sk: entry of the
   successor, cur: data->data_future on entry; returns data->data_future on exit. *)
Definition create (E : env) (fixed : bool) (s : st) (pk sk : key) (X : nat) (rank : Z)
           (cur : option nat) (fulfilled : bool) (src cnt dst : Z) : st * option nat :=
  let use (s : st) (k : key) (cur : option nat) :=
      match cur with
      | Some f => (repo_set s k f, Some f)
      | None => let '(s1, f) := new_promise s X rank fulfilled src cnt dst in (repo_set s1 k f, Some f)
      end in
  match repo_get s pk with
  | None => use s pk cur
  | Some pf =>
      if negb fulfilled then use s sk cur
      else
        let '(s1, d) := if fixed then (s, f_val (getf s pf)) else get_internal E s pf false in
        let same := match d with Some c => Nat.eqb c X | None => false end in
        if same then (repo_set s1 pk pf, Some pf) else use s1 sk None
  end.

(* repaired variant only: a carried future is reused only when it tracks the wanted reshaping *)
Definition keep_cur (fixed : bool) (s : st) (cur : option nat) (m0 m1 : Z) : option nat :=
  if fixed then
    match cur with
    | Some f => if (f_m0 (getf s f) =? m0) && (f_m1 (getf s f) =? m1) then cur else None
    | None => None
    end
  else cur.

(* parsec_set_up_reshape_promise, PARSEC_ACTION_RESHAPE_ON_RELEASE, local successor;
   to = [type] of the output dependency *)
Definition setup_local (E : env) (fixed : bool) (s : st) (pk sk : key) (X : nat) (rank : Z)
           (cur : option nat) (to : Z) : st * option nat :=
  let d := cp_dtt (getc s X) in
  let fulfilled := (to =? 0) || (to =? d) in
  let m := if fulfilled then d else to in
  create E fixed s pk sk X rank (keep_cur fixed s cur m m) fulfilled to 1 to.

Definition set_guard (s : st) (cur : option nat) : st :=
  match cur with Some f => setf s f (fut_guard (getf s f) true) | None => s end.

(* ... PARSEC_ACTION_RESHAPE_REMOTE_ON_RELEASE, data received with the successors' type *)
Definition setup_recv_plain (E : env) (fixed : bool) (s : st) (pk sk : key) (X : nat) (rank : Z)
           (cur : option nat) : st * option nat :=
  let d := cp_dtt (getc s X) in
  let '(s1, cur') := create E fixed s pk sk X rank (keep_cur fixed s cur d d) true d 1 d in
  (set_guard s1 cur', cur').
(* ... data received as PACKED bytes; rty = receive type of this successor *)
Definition setup_recv_packed (E : env) (fixed : bool) (s : st) (pk sk : key) (X : nat) (rank : Z)
           (cur : option nat) (rty : Z) : st * option nat :=
  let cnt := Z.of_nat (length (lay E rty 1)) in
  let cur1 := match cur with
              | Some f => if match_spec (f_m0 (getf s f)) (f_m1 (getf s f)) SH_PACKED rty then cur else None
              | None => None
              end in
  let '(s1, cur') := create E fixed s pk sk X rank cur1 false SH_PACKED cnt rty in
  (set_guard s1 cur', cur').

(* parsec_get_copy_reshape_from_desc (+ _inline): A <- descA(..) [type = ty type_data = td] *)
Definition from_desc (E : env) (s : st) (X : nat) (rank ty td : Z) : st * option nat :=
  let d := cp_dtt (getc s X) in
  let src := if td =? 0 then d else td in
  let dst := if ty =? 0 then td else ty in
  if ((ty =? 0) && (td =? 0)) || (dst =? d) then (s, Some X)
  else let '(s1, f) := new_promise s X rank false src 1 dst in get_internal E s1 f true.

(* ---------------------------------------------------------------- programs *)
Inductive input := InD (ty td : Z) | InT (p sh ti tri : Z).
(* OutE: A -> A Cq(..) ; OutF: A -> B Cq(..) (feeds the SECOND data flow of class q) ; OutM: A -> descA(..) *)
Inductive output := OutE (q to tro : Z) | OutF (q to tro : Z) | OutM (ty td : Z).
(* c_in2: optional second data flow  READ B <- A Cp(..)  (never an InD, no outputs); c_bfirst: B is
   declared before A in the JDF.  Control flows (gates) carry no data and are not in the model. *)
Record cls := { c_R : Z; c_mod : bool; c_in : input; c_outs : list output; c_in2 : option input; c_bfirst : bool }.
Record prog := { p_nranks : Z; p_mb : Z; p_esz : Z; p_nt : Z; p_owner : list Z; p_cls : list cls; p_fixed : bool }.

Definition dcls : cls := {| c_R := 1; c_mod := false; c_in := InD 0 0; c_outs := []; c_in2 := None; c_bfirst := false |}.
(* jdf_flatten_function: data flows with an output dependency are numbered first, then the others, in
   declaration order *)
Definition fidx_A (C : cls) : Z :=
  match c_in2 C with
  | None => 0
  | Some _ => if c_bfirst C && match c_outs C with [] => true | _ => false end then 1 else 0
  end.
Definition fidx_B (C : cls) : Z := 1 - fidx_A C.
Definition pcls (P : prog) (c : Z) : cls := nth (Z.to_nat c) (p_cls P) dcls.
Definition base (P : prog) (c : Z) : Z :=
  fold_right Z.add 0 (map (fun C => p_nt P * c_R C) (firstn (Z.to_nat c) (p_cls P))).
Definition tile_of (P : prog) (c k r : Z) : Z := base P c + k * c_R (pcls P c) + r.
Definition rank_of_tile (P : prog) (t : Z) : Z := (nth (Z.to_nat t) (p_owner P) 0) mod (p_nranks P).

(* jdf_reorder_dep_list_by_type on the output dependencies *)
Definition out_lt (o : output) : Z := match o with OutE _ to _ => to | OutF _ to _ => to | OutM ty _ => ty end.
Fixpoint group_lt (fuel : nat) (l : list output) : list output :=
  match fuel with
  | O => l
  | S fu => match l with
            | [] => []
            | d :: r => d :: filter (fun x => out_lt x =? out_lt d) r
                          ++ group_lt fu (filter (fun x => negb (out_lt x =? out_lt d)) r)
            end
  end.
Definition order_outs (l : list output) : list output :=
  filter (fun x => out_lt x =? 0) l ++ group_lt (length l) (filter (fun x => negb (out_lt x =? 0)) l).

Record succ := { s_q : Z; s_k : Z; s_r : Z; s_fl : Z; s_to : Z; s_tro : Z; s_ti : Z; s_tri : Z; s_rank : Z }.
(* the successors of instance (c, k, 0) in the order of the generated iterate_successors *)
Definition succs (P : prog) (c k : Z) : list succ :=
  let mk (q fl to tro : Z) (i : input) :=
    match i with
    | InT _ sh ti tri =>
        let kq := (k + p_nt P - sh) mod (p_nt P) in
        map (fun r => {| s_q := q; s_k := kq; s_r := r; s_fl := fl; s_to := to; s_tro := tro; s_ti := ti; s_tri := tri;
                         s_rank := rank_of_tile P (tile_of P q kq r) |}) (zseq 0 (c_R (pcls P q)))
    | InD _ _ => []
    end in
  flat_map (fun o =>
    match o with
    | OutM _ _ => []
    | OutE q to tro => mk q (fidx_A (pcls P q)) to tro (c_in (pcls P q))
    | OutF q to tro => match c_in2 (pcls P q) with Some i => mk q (fidx_B (pcls P q)) to tro i | None => [] end
    end) (order_outs (c_outs (pcls P c))).

Definition same_msg (a b : succ) : bool := (s_to a =? s_to b) && (s_tro a =? s_tro b).
Fixpoint groups (fuel : nat) (l : list succ) : list (list succ) :=
  match fuel with
  | O => []
  | S fu => match l with
            | [] => []
            | u :: r => (u :: filter (same_msg u) r) :: groups fu (filter (fun x => negb (same_msg u x)) r)
            end
  end.

Definition rty (u : succ) : Z := if s_tri u =? 0 then SH_FULL else s_tri u.

(* one message (one dep_datatype_index) of instance (c, k, 0), copy X, to rank q; L = its successors there *)
Definition recv (E : env) (P : prog) (s : st) (c k : Z) (X : nat) (q : Z) (L : list succ) : st :=
  match L with
  | [] => s
  | u0 :: L' =>
      let d := cp_dtt (getc s X) in
      let sty := if s_tro u0 =? 0 then d else s_tro u0 in          (* remote.src_datatype *)
      let payload := pack (lay E sty 1) (cp_data (getc s X)) in
      let n := length payload in
      if negb (forallb (fun u => Nat.eqb (length (lay E (rty u) 1)) n) L) then set_err s 3 else
      let pk := (q, c, k, 0, 0) in
      let packed := negb (forallb (fun u => rty u =? rty u0) L') in
      let id := length (copies s) in
      if packed then
        let s1 := add_copy s {| cp_dtt := SH_PACKED; cp_rank := q; cp_data := payload |} in
        fst (fold_left (fun sc u => setup_recv_packed E (p_fixed P) (fst sc) pk (q, s_q u, s_k u, s_r u, s_fl u) id q (snd sc) (rty u))
                       L (s1, None))
      else
        let s1 := add_copy s {| cp_dtt := rty u0; cp_rank := q; cp_data := unpack (lay E (rty u0) 1) payload (e_fresh E) |} in
        fst (fold_left (fun sc u => setup_recv_plain E (p_fixed P) (fst sc) pk (q, s_q u, s_k u, s_r u, s_fl u) id q (snd sc))
                       L (s1, None))
  end.

(* release_deps of instance (c, k, r) on rank rho with output copy X *)
Definition release (E : env) (P : prog) (s : st) (c k r rho : Z) (X : nat) : st :=
  let pk := (rho, c, k, r, 0) in
  let S := succs P c k in
  let s1 := fst (fold_left (fun sc u =>
                   if s_rank u =? rho
                   then setup_local E (p_fixed P) (fst sc) pk (rho, s_q u, s_k u, s_r u, s_fl u) X rho (snd sc) (s_to u)
                   else sc) S (s, None)) in
  fold_left (fun s q =>
     if q =? rho then s else
     let L := filter (fun u => s_rank u =? q) S in
     fold_left (fun s g => recv E P s c k X q g) (groups (length L) L) s)
   (zseq 0 (p_nranks P)) s1.

(* A -> descA(own tile) [type = ty type_data = td] in the complete hook *)
Definition writeback (E : env) (s : st) (C : cls) (t : nat) (X : nat) : st :=
  match find (fun o => match o with OutM _ _ => true | _ => false end) (c_outs C) with
  | Some (OutM ty td) =>
      if Nat.eqb X t then s else
      let cp := getc s X in
      let T := getc s t in
      let src := if ty =? 0 then cp_dtt cp else ty in
      let dst := if td =? 0 then cp_dtt T else td in
      if negb (sendrecv_ok (lay E src 1) (lay E dst 1)) then set_err s 1 else
      add_ev (setc_data s t (convert (lay E src 1) (lay E dst 1) (cp_data cp) (cp_data T))) (EConv X src 1 t dst)
  | _ => s
  end.

(* data_lookup of one input flow (flow index fl) of instance (c, k, r) on rank rho *)
Definition lookup_in (E : env) (P : prog) (s : st) (rho c k r fl : Z) (t : Z) (i : input) : st * option nat :=
  let me := (rho, c, k, r, fl) in
  match i with
  | InD ty td => from_desc E s (Z.to_nat t) rho ty td
  | InT p sh ti tri =>
      match repo_get s me with
      | Some f => let '(s', d) := get_from_dep E s f ti in (repo_del s' me, d)
      | None => match repo_get s (rho, p, (k + sh) mod (p_nt P), 0, 0) with
                | Some f => get_from_dep E s f ti
                | None => (set_err s 2, None)
                end
      end
  end.

Definition run_task (E : env) (P : prog) (s : st) (c k r : Z) : st :=
  if negb (err s =? 0) then s else
  let C := pcls P c in
  let t := tile_of P c k r in
  let rho := rank_of_tile P t in
  let '(s1, ocp) := lookup_in E P s rho c k r (fidx_A C) t (c_in C) in
  match ocp with
  | None => set_err s1 2
  | Some X =>
      let '(s1b, ok2, e2) :=
        match c_in2 C with
        | None => (s1, true, None)
        | Some i2 => let '(sb, ob) := lookup_in E P s1 rho c k r (fidx_B C) t i2 in
                     match ob with
                     | Some Y => (sb, true, Some (EBody2 c k r Y (cp_dtt (getc sb Y)) (cp_data (getc sb Y))))
                     | None => (sb, false, None)
                     end
        end in
      if negb ok2 then set_err s1b 2 else
      let cp := getc s1b X in
      let s2 := add_ev s1b (EBody c k r X (cp_dtt cp) (cp_data cp)) in
      let s2b := match e2 with Some e => add_ev s2 e | None => s2 end in
      let s3 := if c_mod C then setc_data s2b X (map (Z.lxor (c + 1)) (cp_data cp)) else s2b in
      let s4 := writeback E s3 C (Z.to_nat t) X in
      release E P s4 c k r rho X
  end.

Definition init_byte (t b : Z) : Z := (37 * t + 11 * b + 5) mod 256.
Definition init (E : env) (P : prog) : st :=
  {| copies := map (fun t => {| cp_dtt := SH_FULL; cp_rank := rank_of_tile P t;
                                cp_data := map (init_byte t) (zseq 0 (e_bytes E)) |})
                   (zseq 0 (Z.of_nat (length (p_owner P))));
     futs := []; repo := []; evs := []; err := 0 |}.

Definition instances (P : prog) : list (Z * Z * Z) :=
  flat_map (fun c => flat_map (fun k => map (fun r => (c, k, r)) (zseq 0 (c_R (pcls P c)))) (zseq 0 (p_nt P)))
           (zseq 0 (Z.of_nat (length (p_cls P)))).

Definition run (P : prog) : st :=
  let E := mk_env (p_esz P) (p_mb P) in
  fold_left (fun s i => let '(c, k, r) := i in run_task E P s c k r) (instances P) (init E P).

(* ------------------------------------------------- the property's vocabulary *)
(* the conversion the documentation (CHANGELOG.ptg.md) promises to a LOCAL consumer whose
   producer's copy has type d, output dependency [type = to], input dependency [type = ti]:
   None = the producer's copy itself, Some (p, u) = a new copy, packed with p, unpacked with u *)
Definition expected_local (d to ti : Z) : option (Z * Z) :=
  let p := if (to =? 0) || (to =? d) then d else to in
  let u := if ti =? 0 then p else ti in
  if (p =? d) && (u =? d) then None else Some (p, u).
