(* C18 — one producer, any number of local consumers served by ONE reshape promise (all output
   dependencies towards this rank carry the same [type], or there is a single one): every
   consumer, whatever [type] its input dependency declares and in whatever order the consumers
   run, obtains exactly what the documentation promises (CHANGELOG.ptg.md): the producer's copy
   itself when no conversion is declared, otherwise a NEW copy holding
   convert (layout of pack type) (layout of unpack type) producer's data, fresh tile.
   This is the situation in which the code as it is (p_fixed = false) satisfies the property;
   the proof covers both variants. *)
From PV Require Import Base.Tac DType.DTypeDefs Reshape.ReshapeDefs Reshape.ReshapePromiseProofs.
Local Open Scope Z_scope.

Section Fanout.
Variable E : env.
Variables f X n0 : nat.        (* the promise, the producer's copy, number of copies when the promise was made *)
Variable xdata : tile.         (* the producer's data *)
Variables d t : Z.             (* type of the producer's copy; type of the promise: d, or the output [type] *)

(* c is a copy made after the promise, of type u, holding the conversion (pack p, unpack u) *)
Definition good (s : st) (c : nat) (p u : Z) : Prop :=
  (n0 <= c < length (copies s))%nat /\ cp_dtt (getc s c) = u /\
  cp_data (getc s c) = convert (lay E p 1) (lay E u 1) xdata (e_fresh E).

Record PS (s : st) : Prop := {
  ps_f : (f < length (futs s))%nat;
  ps_X : (X < n0)%nat;
  ps_n0 : (n0 <= length (copies s))%nat;
  ps_xd : cp_data (getc s X) = xdata;
  ps_xt : cp_dtt (getc s X) = d;
  ps_in : f_in (getf s f) = X;
  ps_m0 : f_m0 (getf s f) = t;
  ps_m1 : f_m1 (getf s f) = t;
  ps_src : f_src (getf s f) = t;
  ps_dst : f_dst (getf s f) = t;
  ps_cnt : f_cnt (getf s f) = 1;
  ps_g : f_guard (getf s f) = false;
  ps_val : forall c, f_val (getf s f) = Some c -> if t =? d then c = X else good s c t t;
  ps_ful : t = d -> f_val (getf s f) = Some X;
  ps_nest : forall n, In n (f_nested (getf s f)) ->
     (n < length (futs s))%nat /\ n <> f /\ f_m0 (getf s n) = f_m1 (getf s n) /\
     exists c, f_val (getf s n) = Some c /\ good s c t (f_m1 (getf s n))
}.

Lemma good_ext s s' c p u : ext s s' -> good s c p u -> good s' c p u.
Proof.
  intros He [[H1 H2] [H3 H4]]. destruct He as [l Hl]. unfold good.
  assert (Hg : getc s' c = getc s c) by (unfold getc; rewrite Hl; apply app_nth1; exact H2).
  rewrite Hg. split; [|auto]. rewrite Hl, app_length. lia.
Qed.

(* what a consumer must obtain, by cases on its input [type] ti *)
Definition delivered (s : st) (c : nat) (ti : Z) : Prop :=
  if (ti =? 0) || (ti =? t) then (if t =? d then c = X else good s c t t) else good s c t ti.

Lemma getc_add_ev s e i : getc (add_ev s e) i = getc s i.
Proof. reflexivity. Qed.

(* state after a fulfilment, in the vocabulary of this section *)
Lemma fulfil_state s g s' c :
  f_val (getf s g) = None -> (g < length (futs s))%nat -> (X < length (copies s))%nat ->
  f_in (getf s g) = X -> f_cnt (getf s g) = 1 -> cp_data (getc s X) = xdata -> (n0 <= length (copies s))%nat ->
  get_internal E s g true = (s', Some c) ->
  ext s s' /\ good s' c (f_src (getf s g)) (f_dst (getf s g)) /\
  getf s' g = fut_val (getf s g) (Some c) /\ (forall h, h <> g -> getf s' h = getf s h) /\
  length (futs s') = length (futs s).
Proof.
  intros Hv Hg HX Hin Hcnt Hxd Hn0 H.
  assert (Hok : sendrecv_ok (lay E (f_src (getf s g)) (f_cnt (getf s g))) (lay E (f_dst (getf s g)) 1) = true).
  { unfold get_internal in H. rewrite Hv in H. cbn [negb] in H.
    destruct (sendrecv_ok _ _); [reflexivity|]. cbn [negb] in H. discriminate H. }
  pose proof (get_internal_fulfil E s g Hv Hg Hok) as HF. cbv zeta in HF. rewrite H in HF. cbn [fst snd] in HF.
  destruct HF as [Hc [Hcp [_ [Hval [Hoth [Hlen _]]]]]]. injection Hc as Hc. subst c.
  split; [exists [{| cp_dtt := f_dst (getf s g); cp_rank := f_rank (getf s g);
                     cp_data := convert (lay E (f_src (getf s g)) (f_cnt (getf s g))) (lay E (f_dst (getf s g)) 1)
                                  (cp_data (getc s (f_in (getf s g)))) (e_fresh E) |}]; exact Hcp|].
  split.
  - unfold good. rewrite Hcp, app_length. cbn [length]. split; [lia|].
    unfold getc. rewrite Hcp, nth_app_new. cbn [cp_dtt cp_data]. split; [reflexivity|].
    rewrite Hin, Hcnt. fold (getc s X). rewrite Hxd. reflexivity.
  - split; [|split; [exact Hoth|exact Hlen]].
    pose proof H as H0. unfold get_internal in H0. rewrite Hv, Hok in H0. cbn [negb] in H0.
    apply (f_equal fst) in H0. cbn [fst] in H0. rewrite <- H0. apply getf_setf_same. exact Hg.
Qed.

Lemma fut_val_fields F v :
  f_in (fut_val F v) = f_in F /\ f_m0 (fut_val F v) = f_m0 F /\ f_m1 (fut_val F v) = f_m1 F /\
  f_src (fut_val F v) = f_src F /\ f_dst (fut_val F v) = f_dst F /\ f_cnt (fut_val F v) = f_cnt F /\
  f_guard (fut_val F v) = f_guard F /\ f_nested (fut_val F v) = f_nested F /\ f_val (fut_val F v) = v.
Proof. repeat split. Qed.

Lemma match_tt ti : match_spec t t ti ti = (ti =? 0) || (ti =? t).
Proof. unfold match_spec. rewrite (Z.eqb_sym t ti). destruct (ti =? t), (ti =? 0); reflexivity. Qed.

(* one consumer: its request preserves the invariant and delivers the documented copy *)
Lemma consumer_step s ti s' c :
  PS s -> get_from_dep E s f ti = (s', Some c) -> PS s' /\ delivered s' c ti /\ ext s s'.
Proof.
  intros P H. unfold get_from_dep in H. rewrite (ps_g s P) in H. unfold get_spec in H.
  rewrite (ps_m0 s P), (ps_m1 s P), match_tt in H. unfold delivered.
  assert (HXl : (X < length (copies s))%nat) by (pose proof (ps_X s P); pose proof (ps_n0 s P); lia).
  destruct ((ti =? 0) || (ti =? t)) eqn:Hm.
  - (* the promise itself is what the consumer asks for *)
    destruct (f_val (getf s f)) as [c0|] eqn:Hv.
    + rewrite (get_internal_done E s f true c0 Hv) in H. injection H as Hs Hc. subst s' c0.
      split; [exact P|]. split; [apply (ps_val s P); exact Hv|apply ext_refl].
    + assert (Htd : t <> d) by (intros Heq; rewrite (ps_ful s P Heq) in Hv; discriminate).
      destruct (fulfil_state s f s' c Hv (ps_f s P) HXl (ps_in s P) (ps_cnt s P) (ps_xd s P) (ps_n0 s P) H)
        as [He [Hg [Hself [Hoth Hlen]]]].
      rewrite (ps_src s P), (ps_dst s P) in Hg.
      destruct (fut_val_fields (getf s f) (Some c)) as [F1 [F2 [F3 [F4 [F5 [F6 [F7 [F8 F9]]]]]]]].
      assert (Hneq : (t =? d) = false) by lia. rewrite Hneq.
      split; [|split; [exact Hg|exact He]].
      constructor; try rewrite Hself; try rewrite F1; try rewrite F2; try rewrite F3; try rewrite F4; try rewrite F5;
        try rewrite F6; try rewrite F7; try apply P.
      * rewrite Hlen. apply P.
      * destruct He as [l Hl]. rewrite Hl, app_length. pose proof (ps_n0 s P). lia.
      * rewrite (ext_getc s s' X He HXl). apply P.
      * rewrite (ext_getc s s' X He HXl). apply P.
      * intros c1 Hc1. rewrite F9 in Hc1. injection Hc1 as Hc1. subst c1. rewrite Hneq. exact Hg.
      * intros Heq. contradiction.
      * intros n Hn. rewrite F8 in Hn. destruct (ps_nest s P n Hn) as [H1 [H2 [H3 [cn [H4 H5]]]]].
        rewrite Hlen, (Hoth n H2). split; [exact H1|]. split; [exact H2|]. split; [exact H3|].
        exists cn. split; [exact H4|]. eapply good_ext; eauto.
  - (* another shape: the nested promises *)
    assert (Hti0 : ti <> 0) by lia. assert (Htit : ti <> t) by lia.
    rewrite find_nested_done in H.
    2:{ intros n Hn. destruct (ps_nest s P n Hn) as [_ [_ [_ [cn [Hcn _]]]]]. rewrite Hcn. discriminate. }
    destruct (find (fun n => match_spec (f_m0 (getf s n)) (f_m1 (getf s n)) ti ti) (f_nested (getf s f))) as [n|] eqn:Hfind.
    + injection H as Hs H2. subst s'. apply find_some in Hfind. destruct Hfind as [Hn Hmt].
      destruct (ps_nest s P n Hn) as [_ [_ [H3 [cn [H4 H5]]]]].
      rewrite H3 in Hmt. unfold match_spec in Hmt.
      assert (Hm1 : f_m1 (getf s n) = ti) by lia.
      split; [exact P|]. split; [|apply ext_refl].
      rewrite H4 in H2. injection H2 as H2. subst cn. rewrite Hm1 in H5. exact H5.
    + set (n := length (futs s)) in *.
      set (N := {| f_in := f_in (getf s f); f_m0 := ti; f_m1 := ti; f_src := f_src (getf s f); f_cnt := f_cnt (getf s f);
                   f_dst := ti; f_val := None; f_nested := []; f_guard := false; f_rank := f_rank (getf s f) |}) in *.
      set (sa := add_fut s N) in *.
      set (sb := setf sa f (fut_nested (getf sa f) (f_nested (getf s f) ++ [n]))) in *.
      pose proof (ps_f s P) as Hf.
      assert (Hnf : n <> f) by (unfold n; lia).
      assert (Hfa : getf sa f = getf s f) by (unfold getf, sa, add_fut; cbn; apply app_nth1; exact Hf).
      assert (Hlen_b : length (futs sb) = S n).
      { unfold sb. rewrite length_futs_setf. unfold sa, add_fut. cbn. rewrite app_length. cbn. lia. }
      assert (HbN : getf sb n = N).
      { unfold sb. rewrite getf_setf_other by auto. unfold getf, sa, add_fut. cbn. apply nth_app_new. }
      assert (Hbf : getf sb f = fut_nested (getf s f) (f_nested (getf s f) ++ [n])).
      { unfold sb. rewrite getf_setf_same; [rewrite Hfa; reflexivity|].
        unfold sa, add_fut. cbn. rewrite app_length. lia. }
      assert (Hbg : forall g, g <> f -> (g < n)%nat -> getf sb g = getf s g).
      { intros g Hg Hlt. unfold sb. rewrite getf_setf_other by auto. unfold getf, sa, add_fut. cbn. apply app_nth1. exact Hlt. }
      assert (Hcb : copies sb = copies s) by reflexivity.
      assert (Hgc : forall i, getc sb i = getc s i) by reflexivity.
      assert (HvN : f_val (getf sb n) = None) by (rewrite HbN; reflexivity).
      destruct (fulfil_state sb n s' c HvN ltac:(lia) ltac:(rewrite Hcb; exact HXl)
                  ltac:(rewrite HbN; cbn; apply P) ltac:(rewrite HbN; cbn; apply P)
                  ltac:(rewrite Hgc; apply P) ltac:(rewrite Hcb; apply P) H)
        as [He [Hg [Hself [Hoth Hlen]]]].
      rewrite HbN in Hg. cbn [f_src f_dst N] in Hg. rewrite (ps_src s P) in Hg.
      assert (Hes : ext s s') by (destruct He as [l Hl]; exists l; rewrite Hl, Hcb; reflexivity).
      split; [|split; [exact Hg|exact Hes]].
      assert (Hsf : getf s' f = getf sb f) by (apply Hoth; auto).
      constructor; try rewrite Hsf; try rewrite Hbf; cbn [f_in f_m0 f_m1 f_src f_dst f_cnt f_guard f_val f_nested fut_nested];
        try apply P.
      * rewrite Hlen, Hlen_b. unfold n. lia.
      * destruct Hes as [l Hl]. rewrite Hl, app_length. pose proof (ps_n0 s P). lia.
      * rewrite (ext_getc s s' X Hes HXl). apply P.
      * rewrite (ext_getc s s' X Hes HXl). apply P.
      * intros c1 Hc1. pose proof (ps_val s P c1 Hc1) as Hv1. destruct (t =? d); [exact Hv1|]. eapply good_ext; eauto.
      * intros m Hm'. rewrite Hlen, Hlen_b. apply in_app_or in Hm'. destruct Hm' as [Hm'|[<-|[]]].
        -- destruct (ps_nest s P m Hm') as [H1 [H2 [H3 [cm [H4 H5]]]]].
           assert (Hmn : m <> n) by (unfold n; lia).
           rewrite (Hoth m Hmn), (Hbg m H2 H1).
           split; [unfold n; lia|]. split; [exact H2|]. split; [exact H3|].
           exists cm. split; [exact H4|]. eapply good_ext; eauto.
        -- split; [lia|]. split; [exact Hnf|]. rewrite Hself, HbN. cbn. split; [reflexivity|].
           exists c. split; [reflexivity|exact Hg].
Qed.

(* any number of consumers, any input types, any order *)
Fixpoint consume (s : st) (tis : list Z) : st * list (option nat) :=
  match tis with
  | [] => (s, [])
  | ti :: r => let '(s1, c) := get_from_dep E s f ti in
               let '(s2, cs) := consume s1 r in (s2, c :: cs)
  end.

Lemma consumers_all s tis s' cs :
  PS s -> consume s tis = (s', cs) -> Forall (fun c => c <> None) cs ->
  PS s' /\ ext s s' /\
  Forall2 (fun ti oc => exists c, oc = Some c /\ delivered s' c ti) tis cs.
Proof.
  revert s s' cs; induction tis as [|ti r IH]; intros s s' cs P H Hall; cbn in H.
  - injection H as Hs Hc. subst s' cs. split; [exact P|]. split; [apply ext_refl|constructor].
  - destruct (get_from_dep E s f ti) as [s1 oc] eqn:H1. destruct (consume s1 r) as [s2 cs2] eqn:H2. injection H as Hs Hc. subst s' cs.
    apply Forall_cons_iff in Hall. destruct Hall as [Hoc H4]. destruct oc as [c|]; [|congruence].
    destruct (consumer_step s ti s1 c P H1) as [P1 [D1 E1]].
    destruct (IH s1 s2 cs2 P1 H2 H4) as [P2 [E2 F2]].
    split; [exact P2|]. split; [eapply ext_trans; eauto|].
    constructor; [|exact F2]. exists c. split; [reflexivity|].
    unfold delivered in *. destruct ((ti =? 0) || (ti =? t)); [destruct (t =? d); [exact D1|]|]; eapply good_ext; eauto.
Qed.

End Fanout.

(* the promise a producer sets up for its first local successor satisfies the invariant *)
Lemma setup_first_PS E fx s pk sk X rank to :
  (X < length (copies s))%nat -> repo_get s pk = None ->
  let d := cp_dtt (getc s X) in
  let t := if (to =? 0) || (to =? d) then d else to in
  let '(s1, cur) := setup_local E fx s pk sk X rank None to in
  cur = Some (length (futs s)) /\ repo_get s1 pk = Some (length (futs s)) /\
  PS E (length (futs s)) X (length (copies s)) (cp_data (getc s X)) d t s1 /\ evs s1 = evs s.
Proof.
  intros HX Hfree d t. unfold setup_local. fold d.
  replace (keep_cur fx s None _ _) with (@None nat) by (unfold keep_cur; destruct fx; reflexivity).
  unfold create. rewrite Hfree. unfold new_promise. fold d. cbn [fst snd].
  split; [reflexivity|]. split.
  { unfold repo_get, repo_set. cbn.
    assert (Hk : key_eqb pk pk = true) by (destruct pk as [[[[a b] c] e] g0]; cbn; rewrite !Z.eqb_refl; reflexivity).
    rewrite Hk. reflexivity. }
  split; [|reflexivity].
  set (F := if (to =? 0) || (to =? d) then _ else _).
  set (s1 := repo_set (add_fut s F) pk (length (futs s))).
  assert (Hg : getf s1 (length (futs s)) = F) by (unfold getf, s1, repo_set, add_fut; cbn; apply nth_app_new).
  assert (Hc : forall i, getc s1 i = getc s i) by reflexivity.
  assert (Hl : length (futs s1) = S (length (futs s))).
  { unfold s1, repo_set, add_fut. cbn. rewrite app_length. cbn. lia. }
  assert (Hcs : copies s1 = copies s) by reflexivity.
  subst t. destruct ((to =? 0) || (to =? d)) eqn:Hful; subst F.
  - constructor; rewrite ?Hg, ?Hc, ?Hl, ?Hcs; cbn [f_in f_m0 f_m1 f_src f_dst f_cnt f_guard f_val f_nested];
      try reflexivity; try lia; try exact HX.
    + intros c Hc'. injection Hc' as Hc'. subst c. rewrite Z.eqb_refl. reflexivity.
    + intros n [].
  - assert (Hne : to <> d) by lia.
    constructor; rewrite ?Hg, ?Hc, ?Hl, ?Hcs; cbn [f_in f_m0 f_m1 f_src f_dst f_cnt f_guard f_val f_nested];
      try reflexivity; try lia; try exact HX.
    + intros c Hc'. discriminate Hc'.
    + intros n [].
Qed.

(* a further local successor through an output dependency of the same [type] is handed the same
   promise (in its own repo entry or in the predecessor's), and nothing else changes *)
Lemma setup_next_same E fx s pk sk X rank to g :
  let d := cp_dtt (getc s X) in
  let t := if (to =? 0) || (to =? d) then d else to in
  repo_get s pk = Some g -> f_m0 (getf s g) = t -> f_m1 (getf s g) = t ->
  (t = d -> f_val (getf s g) = Some X) ->
  let '(s1, cur) := setup_local E fx s pk sk X rank (Some g) to in
  cur = Some g /\ copies s1 = copies s /\ futs s1 = futs s /\ evs s1 = evs s /\ err s1 = err s /\
  (repo_get s1 sk = Some g \/ repo s1 = repo (repo_set s pk g)).
Proof.
  intros d t Hpk Hm0 Hm1 Hful. unfold setup_local. fold d.
  assert (Hkeep : keep_cur fx s (Some g) t t = Some g).
  { unfold keep_cur. destruct fx; [|reflexivity]. rewrite Hm0, Hm1, !Z.eqb_refl. reflexivity. }
  subst t. destruct ((to =? 0) || (to =? d)) eqn:Hf.
  - rewrite Hkeep. unfold create. rewrite Hpk. cbn [negb].
    rewrite (Hful eq_refl).
    assert (Hgi : get_internal E s g false = (s, Some X)) by (apply get_internal_done; apply Hful; reflexivity).
    rewrite Hgi. replace (if fx then (s, Some X) else (s, Some X)) with (s, Some X) by (destruct fx; reflexivity).
    rewrite Nat.eqb_refl. repeat split; auto.
  - rewrite Hkeep. unfold create. rewrite Hpk. cbn [negb].
    repeat split; auto. left. unfold repo_get, repo_set. cbn.
    assert (Hk : key_eqb sk sk = true) by (destruct sk as [[[[a b] c] e] g0]; cbn; rewrite !Z.eqb_refl; reflexivity).
    rewrite Hk. reflexivity.
Qed.

(* the copy a consumer must observe according to the documentation, for the producer's copy X (type d,
   data xdata) existing in a state with n0 copies *)
Definition documented (E : env) (s : st) (X n0 : nat) (xdata : tile) (c : nat) (e : option (Z * Z)) : Prop :=
  match e with
  | None => c = X
  | Some (p, u) => (n0 <= c < length (copies s))%nat /\ cp_dtt (getc s c) = u /\
                   cp_data (getc s c) = convert (lay E p 1) (lay E u 1) xdata (e_fresh E)
  end.

Lemma delivered_documented E X n0 xdata d to s c ti :
  let t := if (to =? 0) || (to =? d) then d else to in
  delivered E X n0 xdata d t s c ti -> documented E s X n0 xdata c (expected_local d to ti).
Proof.
  intros t. unfold delivered, expected_local, documented, good. fold t.
  destruct (ti =? 0) eqn:H0; cbn [orb].
  - destruct (t =? d) eqn:Htd; cbn [andb]; rewrite ?Htd; auto.
  - destruct (ti =? t) eqn:Ht.
    + assert (ti = t) by lia. subst ti. destruct (t =? d) eqn:Htd; cbn [andb]; rewrite ?Htd; auto.
    + destruct ((t =? d) && (ti =? d)) eqn:Hb; [lia|auto].
Qed.

Lemma Forall2_impl' {A B} (P Q : A -> B -> Prop) l l' :
  (forall a b, P a b -> Q a b) -> Forall2 P l l' -> Forall2 Q l l'.
Proof. intros H F. induction F; constructor; auto. Qed.

(* ONE producer, any number of local consumers behind one promise: each obtains what is documented;
   every copy that existed before is unchanged *)
Lemma uniform_fanout E fx s pk sk X rank to tis s1 cur s2 cs :
  (X < length (copies s))%nat -> repo_get s pk = None ->
  setup_local E fx s pk sk X rank None to = (s1, cur) ->
  consume E (length (futs s)) s1 tis = (s2, cs) -> Forall (fun c => c <> None) cs ->
  Forall2 (fun ti oc => exists c, oc = Some c /\
             documented E s2 X (length (copies s)) (cp_data (getc s X)) c (expected_local (cp_dtt (getc s X)) to ti)) tis cs
  /\ (forall i, (i < length (copies s))%nat -> getc s2 i = getc s i).
Proof.
  intros HX Hfree Hs1 Hcons Hall.
  pose proof (setup_first_PS E fx s pk sk X rank to HX Hfree) as H. cbv zeta in H. rewrite Hs1 in H.
  destruct H as [_ [_ [P _]]].
  destruct (consumers_all E _ _ _ _ _ _ s1 tis s2 cs P Hcons Hall) as [P2 [He F2]].
  split.
  - eapply Forall2_impl'; [|exact F2]. intros ti oc [c [Hc Hd]]. exists c. split; [exact Hc|].
    apply delivered_documented. exact Hd.
  - intros i Hi. rewrite (ext_getc s1 s2 i He).
    + pose proof (setup_local_ext E fx s pk sk X rank None to) as H1. rewrite Hs1 in H1. cbn [fst] in H1.
      apply ext_getc; auto.
    + pose proof (setup_local_ext E fx s pk sk X rank None to) as H1. rewrite Hs1 in H1. cbn [fst] in H1.
      destruct H1 as [l Hl]. rewrite Hl, app_length. lia.
Qed.
