(* C18 — proofs about the conversion itself: pack with the source type, unpack with the
   destination type, for every tile, every pair of layouts; then for the layouts of the
   FULL / LOWER / UPPER / LOWS / UPPS arena datatypes of every tile size (through C19). *)
From PV Require Import Base.Tac DType.DTypeDefs DType.DTypeProofs Reshape.ReshapeDefs.
Local Open Scope Z_scope.

(* ------------------------------------------------------------ cells *)
Lemma length_upd_nat t n v : length (upd_nat t n v) = length t.
Proof. revert n; induction t as [|x t IH]; intros [|n]; cbn; auto. Qed.

Lemma length_upd t o v : length (upd t o v) = length t.
Proof. unfold upd. destruct (o <? 0); auto using length_upd_nat. Qed.

Lemma nth_upd_nat_same t n v d : (n < length t)%nat -> nth n (upd_nat t n v) d = v.
Proof. revert n; induction t as [|x t IH]; intros [|n] H; cbn in *; try lia; auto. apply IH; lia. Qed.

Lemma nth_upd_nat_other t n m v d : n <> m -> nth m (upd_nat t n v) d = nth m t d.
Proof. revert n m; induction t as [|x t IH]; intros [|n] [|m] H; cbn; auto; try lia. Qed.

Lemma rd_upd_same t o v : 0 <= o < Z.of_nat (length t) -> rd (upd t o v) o = v.
Proof.
  intros H. unfold rd, upd. destruct (o <? 0) eqn:E; [lia|].
  apply nth_upd_nat_same. lia.
Qed.

Lemma rd_upd_other t o o' v : o <> o' -> rd (upd t o v) o' = rd t o'.
Proof.
  intros H. unfold rd, upd. destruct (o' <? 0) eqn:E'; [reflexivity|].
  destruct (o <? 0) eqn:E; [reflexivity|].
  apply nth_upd_nat_other. lia.
Qed.

(* ------------------------------------------------------- pack / unpack *)
Lemma firstn_In' {A} n (l : list A) x : In x (firstn n l) -> In x l.
Proof. revert n; induction l as [|y l IH]; intros [|n] H; cbn in *; auto; try tauto. destruct H; eauto. Qed.

Lemma length_unpack l buf dst : length (unpack l buf dst) = length dst.
Proof.
  revert buf dst; induction l as [|o l IH]; intros [|v buf] dst; cbn; auto.
  rewrite IH. apply length_upd.
Qed.

Lemma length_convert ls ld src dst : length (convert ls ld src dst) = length dst.
Proof. apply length_unpack. Qed.

Lemma length_pack l src : length (pack l src) = length l.
Proof. apply map_length. Qed.

(* bytes outside the part of the destination type that receives data keep their value *)
Lemma unpack_other l buf dst b :
  ~ In b (firstn (length buf) l) -> rd (unpack l buf dst) b = rd dst b.
Proof.
  revert buf dst; induction l as [|o l IH]; intros [|v buf] dst Hn; cbn in *; auto.
  rewrite IH by tauto. apply rd_upd_other. tauto.
Qed.

(* the k-th selected byte of the destination receives the k-th packed byte *)
Lemma unpack_selected l buf dst k :
  NoDup l -> (forall o, In o l -> 0 <= o < Z.of_nat (length dst)) ->
  (k < length l)%nat -> (k < length buf)%nat ->
  rd (unpack l buf dst) (nth k l 0) = nth k buf 0.
Proof.
  revert buf dst k; induction l as [|o l IH]; intros [|v buf] dst k Hnd Hr Hk Hb; cbn in *; try lia.
  inv Hnd. destruct k as [|k].
  - rewrite unpack_other.
    + apply rd_upd_same. apply Hr; auto.
    + intros Hin. apply H1. eapply firstn_In'; eauto.
  - apply IH; auto; try lia.
    intros o' Ho'. rewrite length_upd. apply Hr; auto.
Qed.

Lemma nth_pack l src k : (k < length l)%nat -> nth k (pack l src) 0 = rd src (nth k l 0).
Proof.
  intros H. unfold pack. rewrite (nth_indep _ 0 (rd src 0)) by (rewrite map_length; lia).
  apply map_nth.
Qed.

(* T1 (general form): the k-th selected byte of the consumer's copy is the k-th selected byte of
   the producer's copy, for every k both types have *)
Lemma convert_selected ls ld src dst k :
  NoDup ld -> (forall o, In o ld -> 0 <= o < Z.of_nat (length dst)) ->
  (k < length ls)%nat -> (k < length ld)%nat ->
  rd (convert ls ld src dst) (nth k ld 0) = rd src (nth k ls 0).
Proof.
  intros Hnd Hr Hks Hkd. unfold convert.
  rewrite unpack_selected; auto; [|rewrite length_pack; lia].
  apply nth_pack; auto.
Qed.

(* T2 (general form): every other byte of the destination tile is unchanged *)
Lemma convert_other ls ld src dst b :
  ~ In b (firstn (length ls) ld) -> rd (convert ls ld src dst) b = rd dst b.
Proof. intros H. unfold convert. apply unpack_other. rewrite length_pack. exact H. Qed.

(* same type on both sides: positions are preserved *)
Lemma convert_same_selected l src dst b :
  NoDup l -> (forall o, In o l -> 0 <= o < Z.of_nat (length dst)) ->
  In b l -> rd (convert l l src dst) b = rd src b.
Proof.
  intros Hnd Hr Hb. destruct (In_nth _ _ 0 Hb) as [k [Hk <-]].
  apply convert_selected; auto.
Qed.

Lemma convert_same_other l src dst b : ~ In b l -> rd (convert l l src dst) b = rd dst b.
Proof. intros H. apply convert_other. rewrite firstn_all. exact H. Qed.

(* what a receiver gets from a sender is the same conversion: unpack of the packed bytes *)
Lemma convert_is_unpack_pack ls ld src dst : convert ls ld src dst = unpack ld (pack ls src) dst.
Proof. reflexivity. Qed.

(* ------------------------------------------------------------ shapes *)
(* the region of the tile a shape code names, in the vocabulary of C19 *)
Definition shape_uplo (s : Z) : Z :=
  if (s =? 2) || (s =? 4) then PARSEC_MATRIX_LOWER else if (s =? 3) || (s =? 5) then PARSEC_MATRIX_UPPER else PARSEC_MATRIX_FULL.
Definition shape_diag (s : Z) : Z := if (s =? 2) || (s =? 3) then 1 else 0.
Definition in_shape (s i j : Z) : bool := region (shape_uplo s) (shape_diag s) i j.

Lemma shape_layout_spec esz mb s :
  0 < esz -> 1 <= mb -> mb * mb * esz < 2 ^ 31 -> 1 <= s <= 5 ->
  shape_layout esz mb s = elems esz (region_enum (in_shape s) mb mb mb).
Proof.
  intros Hsz Hmb Hov Hs. unfold shape_layout.
  replace ((s <=? 0) || (5 <? s)) with false by lia.
  assert (Hc : s = 1 \/ s = 2 \/ s = 3 \/ s = 4 \/ s = 5) by lia.
  unfold shape_adt, in_shape, shape_uplo, shape_diag.
  destruct Hc as [-> | [-> | [-> | [-> | ->]]]]; cbn [Z.eqb Pos.eqb orb].
  - destruct (adt_spec 0 esz 0 mb mb mb Hsz Hmb Hmb ltac:(lia) Hov Hov ltac:(lia)) as [t [Ht [Hsel _]]].
    rewrite Ht. cbn [fst]. rewrite Hsel. reflexivity.
  - destruct (adt_spec 2 esz 1 mb mb mb Hsz Hmb Hmb ltac:(lia) Hov Hov ltac:(lia)) as [t [Ht [Hsel _]]].
    rewrite Ht. cbn [fst]. rewrite Hsel. reflexivity.
  - destruct (adt_spec 1 esz 1 mb mb mb Hsz Hmb Hmb ltac:(lia) Hov Hov ltac:(lia)) as [t [Ht [Hsel _]]].
    rewrite Ht. cbn [fst]. rewrite Hsel. reflexivity.
  - destruct (adt_spec 2 esz 0 mb mb mb Hsz Hmb Hmb ltac:(lia) Hov Hov ltac:(lia)) as [t [Ht [Hsel _]]].
    rewrite Ht. cbn [fst]. rewrite Hsel. reflexivity.
  - destruct (adt_spec 1 esz 0 mb mb mb Hsz Hmb Hmb ltac:(lia) Hov Hov ltac:(lia)) as [t [Ht [Hsel _]]].
    rewrite Ht. cbn [fst]. rewrite Hsel. reflexivity.
Qed.

Lemma shape_layout_NoDup esz mb s :
  0 < esz -> 1 <= mb -> mb * mb * esz < 2 ^ 31 -> 1 <= s <= 5 -> NoDup (shape_layout esz mb s).
Proof.
  intros. rewrite shape_layout_spec by auto. apply elems_NoDup; auto. apply region_enum_NoDup. lia.
Qed.

(* byte b belongs to the layout iff it is a byte of an element (i, j) of the shape *)
Lemma shape_layout_In esz mb s b :
  0 < esz -> 1 <= mb -> mb * mb * esz < 2 ^ 31 -> 1 <= s <= 5 ->
  (In b (shape_layout esz mb s) <->
   exists i j, 0 <= i < mb /\ 0 <= j < mb /\ in_shape s i j = true /\
               (i + j * mb) * esz <= b < (i + j * mb + 1) * esz).
Proof.
  intros Hsz Hmb Hov Hs. rewrite shape_layout_spec by auto. rewrite elems_In by auto. split.
  - intros [e [He Hb]]. apply region_enum_In in He. destruct He as [i [j [Hi [Hj [HP ->]]]]].
    exists i, j. auto.
  - intros [i [j [Hi [Hj [HP Hb]]]]]. exists (i + j * mb). split; auto.
    apply region_enum_In. exists i, j. auto.
Qed.

Lemma shape_layout_range esz mb s b :
  0 < esz -> 1 <= mb -> mb * mb * esz < 2 ^ 31 -> 1 <= s <= 5 ->
  In b (shape_layout esz mb s) -> 0 <= b < mb * mb * esz.
Proof.
  intros Hsz Hmb Hov Hs Hb. apply shape_layout_In in Hb; auto.
  destruct Hb as [i [j [Hi [Hj [_ Hb]]]]].
  assert (He : 0 <= i + j * mb <= mb * mb - 1) by nia.
  assert (H1 : (i + j * mb + 1) * esz <= mb * mb * esz) by (apply Z.mul_le_mono_nonneg_r; lia).
  assert (H0 : 0 <= (i + j * mb) * esz) by (apply Z.mul_nonneg_nonneg; lia).
  lia.
Qed.

(* T1 + T2 for the arena datatypes, every tile size, same shape on both sides: element (i, j) of
   the consumer's copy is the producer's element when (i, j) belongs to the shape, and the
   destination tile's own element otherwise (byte by byte, d = byte of the element) *)
Lemma shape_convert_same esz mb s src dst i j d :
  0 < esz -> 1 <= mb -> mb * mb * esz < 2 ^ 31 -> 1 <= s <= 5 ->
  Z.of_nat (length dst) = mb * mb * esz ->
  0 <= i < mb -> 0 <= j < mb -> 0 <= d < esz ->
  let l := shape_layout esz mb s in
  let b := (i + j * mb) * esz + d in
  rd (convert l l src dst) b = if in_shape s i j then rd src b else rd dst b.
Proof.
  intros Hsz Hmb Hov Hs Hlen Hi Hj Hd l b. subst l b.
  destruct (in_shape s i j) eqn:HP.
  - apply convert_same_selected.
    + apply shape_layout_NoDup; auto.
    + intros o Ho. rewrite Hlen. eapply shape_layout_range; eauto.
    + apply shape_layout_In; auto. exists i, j. repeat split; auto; lia.
  - apply convert_same_other. intros Hin. apply shape_layout_In in Hin; auto.
    destruct Hin as [i' [j' [Hi' [Hj' [HP' Hb]]]]].
    assert (i' + j' * mb = i + j * mb) by nia.
    assert (j' = j) by nia. assert (i' = i) by nia. subst. congruence.
Qed.

(* different shapes: the k-th byte in type order of the destination shape receives the k-th byte in
   type order of the source shape (MPI type-signature semantics: "pack t1, unpack t2"), the
   rest of the destination tile is unchanged *)
Lemma shape_convert_kth esz mb s1 s2 src dst k :
  0 < esz -> 1 <= mb -> mb * mb * esz < 2 ^ 31 -> 1 <= s1 <= 5 -> 1 <= s2 <= 5 ->
  Z.of_nat (length dst) = mb * mb * esz ->
  let l1 := shape_layout esz mb s1 in
  let l2 := shape_layout esz mb s2 in
  (k < length l1)%nat -> (k < length l2)%nat ->
  rd (convert l1 l2 src dst) (nth k l2 0) = rd src (nth k l1 0).
Proof.
  intros Hsz Hmb Hov Hs1 Hs2 Hlen l1 l2 Hk1 Hk2. apply convert_selected; auto.
  - apply shape_layout_NoDup; auto.
  - intros o Ho. rewrite Hlen. eapply shape_layout_range; eauto.
Qed.

Lemma shape_convert_rest esz mb s1 s2 src dst b :
  let l1 := shape_layout esz mb s1 in
  let l2 := shape_layout esz mb s2 in
  ~ In b (firstn (length l1) l2) -> rd (convert l1 l2 src dst) b = rd dst b.
Proof. intros l1 l2. apply convert_other. Qed.
