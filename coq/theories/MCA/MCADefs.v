(* Executable model of PaRSEC's run-time (MCA) parameter system:
     parsec/utils/mca_param.c          registration, synonyms, override, lookup
     parsec/utils/mca_parse_paramfile.c  save_value (list of values read from files)
     parsec/utils/mca_param_cmd_line.c + the loop of parsec_init  (--mca / --gmca)
   No proofs here.

   A C string is a [list ascii]; a [char *] that may be NULL is an [option].
   The environment is modelled on the variables PARSEC_MCA_<name> only and is
   keyed by <name> (the prefix is a constant of the code).  Values of int /
   size_t parameters that come from the environment or a file go through
   strtol(s, NULL, 0) / strtoll(s, NULL, 0): the model covers canonical decimal
   strings (optional '-', digits, no leading zero) whose value fits a long;
   the casts to int / size_t are modelled (wrap).  Octal/hex prefixes, leading
   blanks and saturation of strtol are NOT modelled.  The "~/" expansion that
   param_lookup applies to string values is NOT modelled (values never
   contain "~/").  Indices equal to the number of registered parameters make
   the C code read one element past its array (the checks are `index > size`):
   NOT modelled, the model reports not-found there.
   The deprecated flags only select warnings (show_help); they are not
   modelled.  malloc/strdup/asprintf never fail. *)
From Coq Require Import List Ascii ZArith Bool.
Import ListNotations.
Local Open Scope Z_scope.

Notation str := (list ascii) (only parsing).

Fixpoint str_eqb (a b : str) : bool :=      (* 0 == strcmp(a, b) *)
  match a, b with
  | [], [] => true
  | x :: a', y :: b' => Ascii.eqb x y && str_eqb a' b'
  | _, _ => false
  end.

(* (NULL == a && NULL == b) || (NULL != a && NULL != b && 0 == strcmp(a, b)) *)
Definition ostr_eqb (a b : option str) : bool :=
  match a, b with
  | None, None => true
  | Some x, Some y => str_eqb x y
  | _, _ => false
  end.

(* ---- values -------------------------------------------------------------- *)
Inductive ptype := TInt | TSizet | TString.
Definition ptype_eqb (a b : ptype) : bool :=
  match a, b with TInt, TInt | TSizet, TSizet | TString, TString => true | _, _ => false end.

(* parsec_mca_param_storage_t together with the type that selects the member *)
Inductive value := VInt (z : Z) | VSizet (z : Z) | VStr (s : option str).
Definition type_of (v : value) : ptype :=
  match v with VInt _ => TInt | VSizet _ => TSizet | VStr _ => TString end.

(* parsec_mca_param_source_t *)
Inductive source := SDefault | SEnv | SFile | SOverride.

Definition digit_of (c : ascii) : option Z :=
  let n := Z.of_N (N_of_ascii c) in
  if (48 <=? n) && (n <=? 57) then Some (n - 48) else None.
Fixpoint parse_digits (acc : Z) (s : str) : Z :=
  match s with
  | [] => acc
  | c :: t => match digit_of c with Some d => parse_digits (acc * 10 + d) t | None => acc end
  end.
Definition minus_sign : ascii := "-"%char.
Definition parse_dec (s : str) : Z :=
  match s with
  | c :: t => if Ascii.eqb c minus_sign then - parse_digits 0 t else parse_digits 0 s
  | [] => 0
  end.
Definition wrap_int (z : Z) : Z := (z + 2147483648) mod 4294967296 - 2147483648.   (* (int)(long) *)
Definition wrap_sizet (z : Z) : Z := z mod 18446744073709551616.                    (* (size_t)(long long) *)

(* the conversions of lookup_env / lookup_file; [None] is a file line "name =" (NULL value) *)
Definition conv (t : ptype) (s : option str) : value :=
  match t with
  | TInt => VInt (match s with Some s => wrap_int (parse_dec s) | None => 0 end)
  | TSizet => VSizet (match s with Some s => wrap_sizet (parse_dec s) | None => 0 end)
  | TString => VStr s
  end.

(* ---- parsec_mca_param_t --------------------------------------------------- *)
Record param := mkParam {
  p_type : ptype;
  p_tname : option str;            (* mbp_type_name  (component name is always NULL with the *_name API) *)
  p_pname : option str;            (* mbp_param_name *)
  p_full : str;                    (* mbp_full_name; env var = PARSEC_MCA_ ++ full *)
  p_syns : list str;               (* si_full_name of mbp_synonyms, in list order *)
  p_internal : bool;
  p_ro : bool;                     (* mbp_read_only *)
  p_default : value;
  p_file : option (value * nat);   (* mbp_file_value_set / mbp_file_value / mbp_source_file (index of the file) *)
  p_over : option value            (* mbp_override_value_set / mbp_override_value *)
}.

Definition set_default (d : value) (p : param) : param :=
  mkParam (p_type p) (p_tname p) (p_pname p) (p_full p) (p_syns p) (p_internal p) (p_ro p) d (p_file p) (p_over p).
Definition set_file (f : option (value * nat)) (p : param) : param :=
  mkParam (p_type p) (p_tname p) (p_pname p) (p_full p) (p_syns p) (p_internal p) (p_ro p) (p_default p) f (p_over p).
Definition set_over (o : option value) (p : param) : param :=
  mkParam (p_type p) (p_tname p) (p_pname p) (p_full p) (p_syns p) (p_internal p) (p_ro p) (p_default p) (p_file p) o.
Definition add_syn (n : str) (p : param) : param :=      (* parsec_list_append(mbp_synonyms, si) *)
  mkParam (p_type p) (p_tname p) (p_pname p) (p_full p) (p_syns p ++ [n]) (p_internal p) (p_ro p) (p_default p) (p_file p) (p_over p).

(* parsec_mca_param_file_value_t *)
Record fentry := mkF { f_name : str; f_val : option str; f_file : nat }.

Record state := mkState {
  st_params : list param;          (* mca_params (value array) *)
  st_files : list fentry;          (* parsec_mca_param_file_values *)
  st_env : list (str * str)        (* the PARSEC_MCA_* part of environ, keyed without the prefix *)
}.

(* names under which a parameter is searched: the real name, then the synonyms in list order *)
Definition names (p : param) : list str := p_full p :: p_syns p.

Definition underscore : ascii := "_"%char.
(* "Build up the full name" of param_register / syn_register (component NULL) *)
Definition full_name (tn pn : option str) : str :=
  let t := match tn with Some t => t | None => [] end in
  match pn with
  | None => t
  | Some p => match t with [] => p | _ :: _ => t ++ underscore :: p end
  end.

Fixpoint upd_nth {A} (l : list A) (i : nat) (f : A -> A) : list A :=
  match l, i with
  | [], _ => []
  | x :: t, O => f x :: t
  | x :: t, S i' => x :: upd_nth t i' f
  end.

Fixpoint find_idx {A} (f : A -> bool) (l : list A) : option nat :=
  match l with
  | [] => None
  | x :: t => if f x then Some O else option_map S (find_idx f t)
  end.

(* array[index] for an int index that passed the bound checks; index = size is not modelled *)
Definition get_param (ps : list param) (idx : Z) : option param :=
  if idx <? 0 then None else nth_error ps (Z.to_nat idx).

(* ---- environment ----------------------------------------------------------- *)
Fixpoint env_get (e : list (str * str)) (n : str) : option str :=     (* getenv *)
  match e with
  | [] => None
  | (k, v) :: t => if str_eqb n k then Some v else env_get t n
  end.
Definition env_unset (e : list (str * str)) (n : str) : list (str * str) :=
  filter (fun kv => negb (str_eqb n (fst kv))) e.
Definition env_set (e : list (str * str)) (n v : str) : list (str * str) :=   (* putenv / setenv(overwrite) *)
  (n, v) :: env_unset e n.

Fixpoint first_some {A B} (f : A -> option B) (l : list A) : option B :=
  match l with
  | [] => None
  | x :: t => match f x with Some y => Some y | None => first_some f t end
  end.

(* lookup_env: the primary name, then "NULL == env" guards the walk over the synonyms *)
Definition lookup_env (e : list (str * str)) (p : param) : option value :=
  match first_some (env_get e) (names p) with
  | Some s => Some (conv (p_type p) (Some s))
  | None => None
  end.

(* ---- values read from files ------------------------------------------------ *)
(* the test of lookup_file on one list entry: real name, else any synonym *)
Definition matches (p : param) (n : str) : bool := existsb (str_eqb n) (names p).

(* first entry satisfying f, and the list without it (parsec_list_nolock_remove) *)
Fixpoint take_first (f : fentry -> bool) (l : list fentry) : option (fentry * list fentry) :=
  match l with
  | [] => None
  | x :: t => if f x then Some (x, t)
              else match take_first f t with
                   | Some (y, r) => Some (y, x :: r)
                   | None => None
                   end
  end.

(* save_value: replace the value of an entry of the same name (the entry keeps its place), else append *)
Fixpoint save_value (fi : nat) (fl : list fentry) (n : str) (v : option str) : list fentry :=
  match fl with
  | [] => [mkF n v fi]
  | fe :: t => if str_eqb n (f_name fe) then mkF (f_name fe) v fi :: t else fe :: save_value fi t n v
  end.
Definition read_file (fl : list fentry) (fi : nat) (lines : list (str * option str)) : list fentry :=
  fold_left (fun fl l => save_value fi fl (fst l) (snd l)) lines fl.
Fixpoint number_from {A} (k : nat) (l : list A) : list (nat * A) :=
  match l with [] => [] | x :: t => (k, x) :: number_from (S k) t end.
(* read_files: for (i = count - 1; i >= 0; --i) parsec_mca_parse_paramfile(files[i]) *)
Definition read_files (fl : list fentry) (files : list (list (str * option str))) : list fentry :=
  fold_left (fun fl f => read_file fl (fst f) (snd f)) (rev (number_from O files)) fl.

(* ---- param_lookup ------------------------------------------------------------ *)
Inductive lres :=
| LNotFound                                              (* false *)
| LFound (v : value) (s : source) (file : option nat)    (* true; file = *source_file when the source is a file *)
| LCrash.                                                (* never produced any more (was: strdup(NULL) in lookup_override) *)

Definition is_null_str (v : value) : bool := match v with VStr None => true | _ => false end.

Inductive stage := StNone | StVal (v : value) (s : source) (file : option nat) | StCrash.

(* lookup_override(..) || lookup_env(..) || lookup_file(..), with the side effects of lookup_file *)
Definition lookup_stages (st : state) (i : nat) (p : param) : state * stage :=
  match p_over p with
  | Some v => (st, StVal v SOverride None)    (* a NULL string override is returned as NULL *)
  | None =>
    match lookup_env (st_env st) p with
    | Some v => (st, StVal v SEnv None)
    | None =>
      match p_file p with
      | Some (v, fi) => (st, StVal v SFile (Some fi))
      | None =>
        match take_first (fun fe => matches p (f_name fe)) (st_files st) with
        | Some (fe, rest) =>
            let v := conv (p_type p) (f_val fe) in
            (mkState (upd_nth (st_params st) i (set_file (Some (v, f_file fe)))) rest (st_env st),
             StVal v SFile (Some (f_file fe)))
        | None => (st, StNone)
        end
      end
    end
  end.

Definition param_lookup (st : state) (idx : Z) : state * lres :=
  match get_param (st_params st) idx with
  | None => (st, LNotFound)
  | Some p =>
    let (st', r) := lookup_stages st (Z.to_nat idx) p in
    (st', match r with
          | StCrash => LCrash
          | StVal v s f => if p_ro p then LFound (p_default p) SDefault None else LFound v s f
          | StNone => LFound (p_default p) SDefault None
          end)
  end.

(* ---- param_register through parsec_mca_param_reg_{int,sizet,string}_name ------ *)
Definition ERR_VALUE_OUT_OF_BOUNDS : Z := -8.
Definition ERR_BAD_PARAM : Z := -4.
Definition ERR_GENERIC : Z := -1.

(* cur: current_value != NULL (the int and size_t entry points always look the value up) *)
Definition reg (st : state) (ty : ptype) (tn pn : option str) (internal ro : bool) (d : value) (cur : bool)
  : state * Z * option lres :=
  let cur := match ty with TString => cur | _ => true end in
  let full := full_name tn pn in
  let ps := st_params st in
  match find_idx (fun p => str_eqb full (p_full p)) ps with
  | Some i =>
    match nth_error ps i with
    | Some p0 =>
      if ptype_eqb (p_type p0) ty then
        (* same type: only the default is replaced (flags and names of the first registration stay) *)
        let st1 := mkState (upd_nth ps i (set_default d)) (st_files st) (st_env st) in
        if cur then let (st2, r) := param_lookup st1 (Z.of_nat i) in (st2, Z.of_nat i, Some r)
        else (st1, Z.of_nat i, None)
      else (st, ERR_VALUE_OUT_OF_BOUNDS, None)
    | None => (st, ERR_GENERIC, None)     (* unreachable *)
    end
  | None =>
    let p := mkParam ty tn pn full [] internal ro d None None in
    let st1 := mkState (ps ++ [p]) (st_files st) (st_env st) in
    let i := Z.of_nat (length ps) in
    if cur then let (st2, r) := param_lookup st1 i in (st2, i, Some r)
    else (st1, i, None)
  end.

(* syn_register through parsec_mca_param_reg_syn_name *)
Definition reg_syn (st : state) (idx : Z) (tn pn : option str) : state * Z :=
  match get_param (st_params st) idx with
  | None => (st, ERR_BAD_PARAM)
  | Some _ => (mkState (upd_nth (st_params st) (Z.to_nat idx) (add_syn (full_name tn pn))) (st_files st) (st_env st), 0)
  end.

(* parsec_mca_param_unset *)
Definition unset (st : state) (idx : Z) : state * Z :=
  match get_param (st_params st) idx with
  | None => (st, ERR_GENERIC)
  | Some _ => (mkState (upd_nth (st_params st) (Z.to_nat idx) (set_over None)) (st_files st) (st_env st), 0)
  end.

(* parsec_mca_param_set_{int,sizet,string}: unset, then param_set_override; always PARSEC_SUCCESS.
   Calling the entry point of another type writes another member of the union: not modelled (no change). *)
Definition set_value (st : state) (idx : Z) (v : value) : state * Z :=
  match get_param (st_params st) idx with
  | None => (st, 0)
  | Some p =>
    if ptype_eqb (p_type p) (type_of v)
    then (mkState (upd_nth (st_params st) (Z.to_nat idx) (set_over (Some v))) (st_files st) (st_env st), 0)
    else (st, 0)
  end.

(* parsec_mca_param_find(type, NULL, param) *)
Definition mca_find (st : state) (tn pn : option str) : Z :=
  match find_idx (fun p => ostr_eqb tn (p_tname p) && ostr_eqb pn (p_pname p)) (st_params st) with
  | Some i => Z.of_nat i
  | None => -1
  end.

(* ---- --mca / --gmca --------------------------------------------------------------- *)
Definition comma : ascii := ","%char.
(* process_arg on the parallel arrays params / values *)
Fixpoint process_arg (acc : list (str * str)) (n v : str) : list (str * str) :=
  match acc with
  | [] => [(n, v)]
  | (n', v') :: t => if str_eqb n n' then (n', v' ++ comma :: v) :: t else (n', v') :: process_arg t n v
  end.
Definition collect (args : list (str * str)) : list (str * str) :=
  fold_left (fun acc a => process_arg acc (fst a) (snd a)) args [].
(* add_to_env, resp. the loop of parsec_init over the context environment *)
Definition add_to_env (kvs : list (str * str)) (e : list (str * str)) : list (str * str) :=
  fold_left (fun e kv => env_set e (fst kv) (snd kv)) kvs e.
(* args in command-line order; true = --gmca.  parsec_mca_cmd_line_process_args puts the --gmca
   values into environ; the --mca values go to the context environment that parsec_init copies
   into environ afterwards. *)
Definition process_cmdline (args : list (bool * (str * str))) (e : list (str * str)) : list (str * str) :=
  let mca := map snd (filter (fun a => negb (fst a)) args) in
  let gmca := map snd (filter (fun a => fst a) args) in
  add_to_env (collect mca) (add_to_env (collect gmca) e).

(* ---- init / recache ---------------------------------------------------------------- *)
Definition files_tn : str := ["m"; "c"; "a"]%char.
Definition files_pn : str := ["p"; "a"; "r"; "a"; "m"; "_"; "f"; "i"; "l"; "e"; "s"]%char.

(* parsec_mca_param_recache_files: (re-)register mca_param_files, read the files it names.
   [files] are the contents of those files, in the order of the path list. *)
Definition recache (st : state) (files : list (list (str * option str))) : state :=
  let '(st1, _, _) := reg st TString (Some files_tn) (Some files_pn) false false (VStr (Some [])) true in
  mkState (st_params st1) (read_files (st_files st1) files) (st_env st1).

Definition init (env : list (str * str)) (files : list (list (str * option str))) : state :=
  recache (mkState [] [] env) files.

(* ---- histories ---------------------------------------------------------------------- *)
Inductive op :=
| OReg (ty : ptype) (tn pn : option str) (internal ro : bool) (d : value) (cur : bool)
| OSyn (idx : Z) (tn pn : option str)
| OSet (idx : Z) (v : value)
| OUnset (idx : Z)
| OSetenv (n v : str)
| OUnsetenv (n : str)
| OCmdline (args : list (bool * (str * str)))
| OLookup (idx : Z)
| ORecache (files : list (list (str * option str))).

Definition step (st : state) (o : op) : state :=
  match o with
  | OReg ty tn pn internal ro d cur => fst (fst (reg st ty tn pn internal ro d cur))
  | OSyn idx tn pn => fst (reg_syn st idx tn pn)
  | OSet idx v => fst (set_value st idx v)
  | OUnset idx => fst (unset st idx)
  | OSetenv n v => mkState (st_params st) (st_files st) (env_set (st_env st) n v)
  | OUnsetenv n => mkState (st_params st) (st_files st) (env_unset (st_env st) n)
  | OCmdline args => mkState (st_params st) (st_files st) (process_cmdline args (st_env st))
  | OLookup idx => fst (param_lookup st idx)
  | ORecache files => recache st files
  end.
Definition run (st : state) (ops : list op) : state := fold_left step ops st.
Definition is_recache (o : op) : bool := match o with ORecache _ => true | _ => false end.
