(* Facts about histories of the MCA parameter system: what the file stage of a lookup
   returns after any sequence of registrations, synonym registrations, set/unset,
   environment changes, command lines and lookups, in terms of the list of values read
   from the files at initialisation; and which value that list holds for a name. *)
From PV Require Import Base.Tac MCA.MCADefs MCA.MCAProofs.
From Coq Require Import Ascii Relations.
Local Open Scope Z_scope.

(* ---- a parameter only grows ------------------------------------------------------ *)
Definition pext (q q' : param) : Prop :=
  p_type q' = p_type q /\ (exists extra, names q' = names q ++ extra) /\ (p_file q <> None -> p_file q' = p_file q).

Lemma pext_refl : forall q, pext q q.
Proof. intros q. split; [reflexivity|]. split; [exists []; symmetry; apply app_nil_r|reflexivity]. Qed.

Lemma pext_matches : forall q q' n, pext q q' -> matches q n = true -> matches q' n = true.
Proof.
  intros q q' n [_ [[extra He] _]] H. unfold matches in *. rewrite He, existsb_app, H. reflexivity.
Qed.

(* the atomic state changes every operation is made of *)
Inductive prim : state -> state -> Prop :=
| prim_upd st i f :
    (forall q, pext q (f q) /\ p_file (f q) = p_file q) ->
    prim st (mkState (upd_nth (st_params st) i f) (st_files st) (st_env st))
| prim_new st p :
    p_file p = None ->
    prim st (mkState (st_params st ++ [p]) (st_files st) (st_env st))
| prim_cache st i p fe rest :
    nth_error (st_params st) i = Some p -> p_file p = None ->
    take_first (fun fe => matches p (f_name fe)) (st_files st) = Some (fe, rest) ->
    prim st (mkState (upd_nth (st_params st) i (set_file (Some (conv (p_type p) (f_val fe), f_file fe))))
                     rest (st_env st))
| prim_env st e : prim st (mkState (st_params st) (st_files st) e).

Notation prims := (clos_refl_trans state prim).

Lemma state_eta : forall st, mkState (st_params st) (st_files st) (st_env st) = st.
Proof. intros [a b c]. reflexivity. Qed.

Lemma lookup_prims : forall st idx, prims st (fst (param_lookup st idx)).
Proof.
  intros st idx. unfold param_lookup.
  destruct (get_param (st_params st) idx) as [p|] eqn:Hg; [|apply rt_refl].
  unfold lookup_stages.
  destruct (p_over p); [apply rt_refl|].
  destruct (lookup_env (st_env st) p); [apply rt_refl|].
  destruct (p_file p) as [[v fi]|] eqn:Hf; [apply rt_refl|].
  destruct (take_first (fun fe => matches p (f_name fe)) (st_files st)) as [[fe rest]|] eqn:Ht; [|apply rt_refl].
  cbn [fst]. apply rt_step. apply prim_cache; try assumption.
  unfold get_param in Hg. destruct (idx <? 0); [discriminate|exact Hg].
Qed.

Lemma upd_default_ok : forall d q, pext q (set_default d q) /\ p_file (set_default d q) = p_file q.
Proof. intros d q. split; [|reflexivity]. split; [reflexivity|]. split; [exists []; symmetry; apply app_nil_r|reflexivity]. Qed.
Lemma upd_over_ok : forall o q, pext q (set_over o q) /\ p_file (set_over o q) = p_file q.
Proof. intros o q. split; [|reflexivity]. split; [reflexivity|]. split; [exists []; symmetry; apply app_nil_r|reflexivity]. Qed.
Lemma upd_syn_ok : forall n q, pext q (add_syn n q) /\ p_file (add_syn n q) = p_file q.
Proof.
  intros n q. split; [|reflexivity]. split; [reflexivity|]. split; [|reflexivity].
  exists [n]. reflexivity.
Qed.

Lemma reg_prims : forall st ty tn pn internal ro d cur, prims st (fst (fst (reg st ty tn pn internal ro d cur))).
Proof.
  intros st ty tn pn internal ro d cur. unfold reg.
  destruct (find_idx (fun p => str_eqb (full_name tn pn) (p_full p)) (st_params st)) as [i|].
  - destruct (nth_error (st_params st) i) as [p0|]; [|apply rt_refl].
    destruct (ptype_eqb (p_type p0) ty); [|apply rt_refl].
    set (st1 := mkState (upd_nth (st_params st) i (set_default d)) (st_files st) (st_env st)).
    assert (H1 : prims st st1) by (apply rt_step, prim_upd, upd_default_ok).
    destruct (match ty with TString => cur | _ => true end).
    + destruct (param_lookup st1 (Z.of_nat i)) as [st2 r] eqn:Hl. cbn [fst].
      eapply rt_trans; [exact H1|]. pose proof (lookup_prims st1 (Z.of_nat i)) as H2. rewrite Hl in H2. exact H2.
    + exact H1.
  - set (p := mkParam ty tn pn (full_name tn pn) [] internal ro d None None).
    set (st1 := mkState (st_params st ++ [p]) (st_files st) (st_env st)).
    assert (H1 : prims st st1) by (apply rt_step, prim_new; reflexivity).
    destruct (match ty with TString => cur | _ => true end).
    + destruct (param_lookup st1 (Z.of_nat (length (st_params st)))) as [st2 r] eqn:Hl. cbn [fst].
      eapply rt_trans; [exact H1|].
      pose proof (lookup_prims st1 (Z.of_nat (length (st_params st)))) as H2. rewrite Hl in H2. exact H2.
    + exact H1.
Qed.

Lemma step_prims : forall st o, is_recache o = false -> prims st (step st o).
Proof.
  intros st o Ho. destruct o; cbn [step]; try discriminate.
  - apply reg_prims.
  - unfold reg_syn. destruct (get_param (st_params st) idx); [|apply rt_refl].
    cbn [fst]. apply rt_step, prim_upd, upd_syn_ok.
  - unfold set_value. destruct (get_param (st_params st) idx) as [p|]; [|apply rt_refl].
    destruct (ptype_eqb (p_type p) (type_of v)); [|apply rt_refl].
    cbn [fst]. apply rt_step, prim_upd, upd_over_ok.
  - unfold unset. destruct (get_param (st_params st) idx); [|apply rt_refl].
    cbn [fst]. apply rt_step, prim_upd, upd_over_ok.
  - apply rt_step, prim_env.
  - apply rt_step, prim_env.
  - apply rt_step, prim_env.
  - apply lookup_prims.
Qed.

Definition no_recache (ops : list op) : bool := forallb (fun o => negb (is_recache o)) ops.

Lemma run_prims : forall ops st, no_recache ops = true -> prims st (run st ops).
Proof.
  induction ops as [|o ops IH]; intros st H; cbn in *; [apply rt_refl|].
  apply andb_true_iff in H as [Ho Hr].
  assert (Ho' : is_recache o = false) by (destruct (is_recache o); [discriminate|reflexivity]).
  eapply rt_trans; [apply step_prims; exact Ho'|].
  apply IH. exact Hr.
Qed.

(* ---- growth of the table ------------------------------------------------------------ *)
Definition ext (st st' : state) : Prop :=
  forall j q, nth_error (st_params st) j = Some q ->
    exists q', nth_error (st_params st') j = Some q' /\ pext q q'.

Lemma nth_error_upd_nth_inv : forall {A} (l : list A) i f y,
  nth_error (upd_nth l i f) i = Some y -> exists x, nth_error l i = Some x /\ y = f x.
Proof.
  induction l as [|z l IH]; intros [|i] f y H; cbn in *; try discriminate.
  - inv H. exists z. auto.
  - apply IH. exact H.
Qed.

Lemma prim_ext : forall st st', prim st st' -> ext st st'.
Proof.
  intros st st' H. destruct H as [st i f Hf | st p Hp | st i p fe rest Hn Hf Ht | st e]; intros j q Hj; cbn [st_params].
  - destruct (Nat.eq_dec i j) as [E|E].
    + subst j. exists (f q). split; [apply nth_error_upd_nth_same; exact Hj|apply Hf].
    + exists q. split; [rewrite nth_error_upd_nth_other by exact E; exact Hj|apply pext_refl].
  - exists q. split; [|apply pext_refl]. rewrite nth_error_app1; [exact Hj|].
    apply nth_error_Some. congruence.
  - destruct (Nat.eq_dec i j) as [E|E].
    + subst j. assert (q = p) by congruence. subst q.
      eexists. split; [apply nth_error_upd_nth_same; exact Hn|].
      split; [reflexivity|]. split; [exists []; symmetry; apply app_nil_r|]. intros Hc. contradiction.
    + exists q. split; [rewrite nth_error_upd_nth_other by exact E; exact Hj|apply pext_refl].
  - exists q. split; [exact Hj|apply pext_refl].
Qed.

(* no two parameters share a name (real name or synonym) *)
Definition disjoint (st : state) : Prop :=
  forall i j p q, i <> j -> nth_error (st_params st) i = Some p -> nth_error (st_params st) j = Some q -> pdisj p q.

Lemma ext_disjoint : forall st st', ext st st' -> disjoint st' -> disjoint st.
Proof.
  intros st st' He Hd i j p q Hij Hi Hj n Hp Hq.
  destruct (He _ _ Hi) as [p' [Hi' Hpe]]. destruct (He _ _ Hj) as [q' [Hj' Hqe]].
  eapply (Hd i j p' q' Hij Hi' Hj' n); eapply pext_matches; eauto.
Qed.

(* entries of the file-value list that some parameter has taken *)
Definition consumed (st : state) (x : fentry) : Prop :=
  exists j q, nth_error (st_params st) j = Some q /\ p_file q <> None /\ matches q (f_name x) = true.

Lemma ext_consumed : forall st st' x, ext st st' -> consumed st x -> consumed st' x.
Proof.
  intros st st' x He [j [q [Hj [Hf Hm]]]]. destruct (He _ _ Hj) as [q' [Hj' Hpe]].
  exists j, q'. split; [exact Hj'|]. split.
  - destruct Hpe as [_ [_ Hk]]. rewrite (Hk Hf). exact Hf.
  - eapply pext_matches; eauto.
Qed.

(* l' is l without some entries that satisfy P *)
Inductive subl (P : fentry -> Prop) : list fentry -> list fentry -> Prop :=
| subl_nil : subl P [] []
| subl_keep x l l' : subl P l l' -> subl P (x :: l) (x :: l')
| subl_drop x l l' : P x -> subl P l l' -> subl P (x :: l) l'.

Lemma subl_refl : forall P l, subl P l l.
Proof. induction l; constructor; assumption. Qed.

Lemma subl_weaken : forall (P Q : fentry -> Prop) l l', (forall x, P x -> Q x) -> subl P l l' -> subl Q l l'.
Proof. intros P Q l l' H S. induction S; constructor; auto. Qed.

Lemma subl_take_first : forall P f l l' x rest,
  subl P l l' -> take_first f l' = Some (x, rest) -> P x -> subl P l rest.
Proof.
  intros P f l l' x rest S. revert x rest. induction S as [|y l l' S IH|y l l' Hy S IH]; intros x rest Ht Hx.
  - discriminate.
  - cbn in Ht. destruct (f y).
    + inv Ht. apply subl_drop; assumption.
    + destruct (take_first f l') as [[z r]|] eqn:E; [|discriminate]. inv Ht.
      apply subl_keep. eapply IH; eauto.
  - apply subl_drop; [exact Hy|]. eapply IH; eauto.
Qed.

Lemma subl_find : forall P g l l', subl P l l' -> (forall x, P x -> g x = false) -> find g l' = find g l.
Proof.
  intros P g l l' S Hg. induction S as [|y l l' S IH|y l l' Hy S IH]; cbn.
  - reflexivity.
  - destruct (g y); [reflexivity|exact IH].
  - rewrite (Hg y Hy). exact IH.
Qed.

(* ---- the invariant ---------------------------------------------------------------------- *)
(* a cached file value is the first entry of the initial list F0 that carries one of the names the
   parameter had when the value was cached (a prefix of the names it has now) *)
Definition cached_ok (F0 : list fentry) (p : param) : Prop :=
  forall v fi, p_file p = Some (v, fi) ->
    exists k fe, (k <= length (names p))%nat /\
      find (fun fe => existsb (str_eqb (f_name fe)) (firstn k (names p))) F0 = Some fe /\
      v = conv (p_type p) (f_val fe) /\ fi = f_file fe.

Record Inv (F0 : list fentry) (st : state) : Prop := {
  inv_files : subl (consumed st) F0 (st_files st);
  inv_cached : forall j p, nth_error (st_params st) j = Some p -> cached_ok F0 p
}.

Lemma cached_ok_pext : forall F0 q q', pext q q' -> p_file q' = p_file q -> cached_ok F0 q -> cached_ok F0 q'.
Proof.
  intros F0 q q' [Ht [[extra He] _]] Hf Hc v fi Hv. rewrite Hf in Hv.
  destruct (Hc v fi Hv) as [k [fe [Hk [Hfind [Hval Hfi]]]]].
  exists k, fe. rewrite He, Ht. split; [rewrite app_length; lia|].
  split; [|auto]. rewrite firstn_app. replace (k - length (names q))%nat with O by lia.
  cbn [firstn]. rewrite app_nil_r. exact Hfind.
Qed.

(* what an uncached parameter finds in the current list is what it finds in the initial list *)
Lemma uncached_find : forall F0 st i p,
  Inv F0 st -> disjoint st -> nth_error (st_params st) i = Some p -> p_file p = None ->
  find (fun fe => matches p (f_name fe)) (st_files st) = find (fun fe => matches p (f_name fe)) F0.
Proof.
  intros F0 st i p HI Hd Hn Hf. eapply subl_find; [apply (inv_files _ _ HI)|].
  intros x [j [q [Hj [Hq Hm]]]]. cbn beta.
  destruct (matches p (f_name x)) eqn:E; [|reflexivity]. exfalso.
  destruct (Nat.eq_dec j i) as [Eji|Eji].
  - subst j. assert (q = p) by congruence. subst q. contradiction.
  - exact (Hd j i q p Eji Hj Hn (f_name x) Hm E).
Qed.

Lemma prim_inv : forall F0 st st', Inv F0 st -> disjoint st -> prim st st' -> Inv F0 st'.
Proof.
  intros F0 st st' HI Hd Hp. pose proof (prim_ext _ _ Hp) as He.
  destruct Hp as [st i f Hf | st p Hp | st i p fe rest Hn Hf Ht | st e].
  - split; cbn [st_files st_params].
    + eapply subl_weaken; [|apply (inv_files _ _ HI)]. intros x. apply ext_consumed. exact He.
    + intros j p Hj. destruct (Nat.eq_dec i j) as [E|E].
      * subst j. apply nth_error_upd_nth_inv in Hj as [q [Hq Hp]]. subst p.
        destruct (Hf q) as [Hpe Hfile]. eapply cached_ok_pext; eauto. eapply (inv_cached _ _ HI); eauto.
      * rewrite nth_error_upd_nth_other in Hj by exact E. eapply (inv_cached _ _ HI); eauto.
  - split; cbn [st_files st_params].
    + eapply subl_weaken; [|apply (inv_files _ _ HI)]. intros x. apply ext_consumed. exact He.
    + intros j q Hj. destruct (Nat.lt_ge_cases j (length (st_params st))) as [Hl|Hl].
      * rewrite nth_error_app1 in Hj by exact Hl. eapply (inv_cached _ _ HI); eauto.
      * rewrite nth_error_app2 in Hj by exact Hl.
        destruct (j - length (st_params st))%nat as [|k]; cbn in Hj.
        -- inv Hj. intros v fi Hv. congruence.
        -- destruct k; discriminate.
  - pose proof (uncached_find _ _ _ _ HI Hd Hn Hf) as Hfind.
    split; cbn [st_files st_params].
    + eapply subl_take_first; [|exact Ht|].
      * eapply subl_weaken; [|apply (inv_files _ _ HI)]. intros x. apply ext_consumed. exact He.
      * exists i. eexists. split; [cbn [st_params]; apply nth_error_upd_nth_same; exact Hn|].
        split; [cbn; discriminate|].
        apply take_first_find in Ht. apply find_some in Ht. apply Ht.
    + intros j q Hj. destruct (Nat.eq_dec i j) as [E|E].
      * subst j. apply nth_error_upd_nth_inv in Hj as [q0 [Hq0 Hq]]. assert (q0 = p) by congruence. subst q0 q.
        intros v fi Hv. cbn in Hv. inv Hv.
        exists (length (names p)), fe. split; [cbn; lia|]. split; [|split; reflexivity].
        change (names (set_file (Some (conv (p_type p) (f_val fe), f_file fe)) p)) with (names p).
        rewrite firstn_all. apply take_first_find in Ht. rewrite Hfind in Ht. exact Ht.
      * rewrite nth_error_upd_nth_other in Hj by exact E. eapply (inv_cached _ _ HI); eauto.
  - split; cbn [st_files st_params].
    + eapply subl_weaken; [|apply (inv_files _ _ HI)]. intros x. apply ext_consumed. exact He.
    + apply (inv_cached _ _ HI).
Qed.

Lemma prims_inv : forall F0 st0 st, Inv F0 st0 -> prims st0 st -> disjoint st -> Inv F0 st.
Proof.
  intros F0 st0 st HI Hp. apply clos_rt_rtn1 in Hp.
  induction Hp as [|y z Hyz Hp IH]; intros Hd; [exact HI|].
  assert (Hdy : disjoint y) by (eapply ext_disjoint; [apply prim_ext; exact Hyz|exact Hd]).
  eapply prim_inv; [apply IH; exact Hdy|exact Hdy|exact Hyz].
Qed.

(* ---- the initial state ---------------------------------------------------------------------- *)
Lemma init_shape : forall env files,
  exists p, st_params (init env files) = [p] /\ p_file p = None /\
            st_files (init env files) = read_files [] files.
Proof.
  intros env files. unfold init, recache, reg. cbn [st_params find_idx].
  cbn [app length Z.of_nat]. unfold param_lookup. cbn [st_params get_param Z.ltb Z.compare Z.to_nat nth_error].
  unfold lookup_stages. cbn [p_over st_env].
  match goal with |- context[lookup_env env ?p] => destruct (lookup_env env p) end.
  - eexists. cbn. split; [reflexivity|]. split; reflexivity.
  - cbn [p_file st_files take_first]. eexists. cbn. split; [reflexivity|]. split; reflexivity.
Qed.

Lemma init_inv : forall env files, Inv (st_files (init env files)) (init env files).
Proof.
  intros env files. destruct (init_shape env files) as [p [Hp [Hf _]]]. split.
  - apply subl_refl.
  - intros j q Hj. rewrite Hp in Hj. destruct j as [|[|j]]; cbn in Hj; try discriminate.
    inv Hj. intros v fi Hv. congruence.
Qed.

Lemma run_inv : forall env files ops,
  no_recache ops = true -> disjoint (run (init env files) ops) ->
  Inv (st_files (init env files)) (run (init env files) ops).
Proof.
  intros env files ops Hn Hd. eapply prims_inv; [apply init_inv|apply run_prims; exact Hn|exact Hd].
Qed.

(* ---- the file stage after any history --------------------------------------------------------- *)
Lemma get_param_nth : forall ps idx p, get_param ps idx = Some p -> nth_error ps (Z.to_nat idx) = Some p.
Proof. intros ps idx p H. unfold get_param in H. destruct (idx <? 0); [discriminate|exact H]. Qed.

Lemma history_uncached : forall env files ops idx p,
  no_recache ops = true -> disjoint (run (init env files) ops) ->
  get_param (st_params (run (init env files) ops)) idx = Some p -> p_file p = None ->
  file_src (run (init env files) ops) p =
    match find (fun fe => matches p (f_name fe)) (read_files [] files) with
    | Some fe => Some (conv (p_type p) (f_val fe), f_file fe)
    | None => None
    end.
Proof.
  intros env files ops idx p Hn Hd Hg Hf. unfold file_src. rewrite Hf.
  rewrite (uncached_find _ _ _ _ (run_inv env files ops Hn Hd) Hd (get_param_nth _ _ _ Hg) Hf).
  destruct (init_shape env files) as [p0 [_ [_ HF]]]. rewrite HF. reflexivity.
Qed.

Lemma history_cached : forall env files ops idx p v fi,
  no_recache ops = true -> disjoint (run (init env files) ops) ->
  get_param (st_params (run (init env files) ops)) idx = Some p -> p_file p = Some (v, fi) ->
  exists k fe, (k <= length (names p))%nat /\
    find (fun fe => existsb (str_eqb (f_name fe)) (firstn k (names p))) (read_files [] files) = Some fe /\
    v = conv (p_type p) (f_val fe) /\ fi = f_file fe.
Proof.
  intros env files ops idx p v fi Hn Hd Hg Hf.
  pose proof (inv_cached _ _ (run_inv env files ops Hn Hd) _ _ (get_param_nth _ _ _ Hg) v fi Hf) as H.
  destruct (init_shape env files) as [p0 [_ [_ HF]]]. rewrite HF in H. exact H.
Qed.

Lemma find_ext : forall {A} (f g : A -> bool) l, (forall x, f x = g x) -> find f l = find g l.
Proof. intros A f g l H. induction l as [|x l IH]; cbn; [reflexivity|]. rewrite H, IH. reflexivity. Qed.

Lemma find_none_all : forall {A} (f : A -> bool) l, (forall x, f x = false) -> find f l = None.
Proof. intros A f l H. induction l as [|x l IH]; cbn; [reflexivity|]. rewrite H. exact IH. Qed.

(* a parameter without synonyms: the file stage is the entry of the initial list under its name,
   whatever happened before *)
Lemma history_no_synonyms : forall env files ops idx p,
  no_recache ops = true -> disjoint (run (init env files) ops) ->
  get_param (st_params (run (init env files) ops)) idx = Some p -> p_syns p = [] ->
  file_src (run (init env files) ops) p =
    match find (fun fe => str_eqb (f_name fe) (p_full p)) (read_files [] files) with
    | Some fe => Some (conv (p_type p) (f_val fe), f_file fe)
    | None => None
    end.
Proof.
  intros env files ops idx p Hn Hd Hg Hs.
  assert (Hm : forall fe : fentry, matches p (f_name fe) = str_eqb (f_name fe) (p_full p)).
  { intros fe. unfold matches, names. rewrite Hs. cbn. apply orb_false_r. }
  destruct (p_file p) as [[v fi]|] eqn:Hf.
  - destruct (history_cached env files ops idx p v fi Hn Hd Hg Hf) as [k [fe [Hk [Hfind [Hv Hfi]]]]].
    unfold file_src. rewrite Hf. unfold names in Hfind, Hk. rewrite Hs in Hfind, Hk. cbn in Hk.
    destruct k as [|k].
    + cbn in Hfind. rewrite find_none_all in Hfind by reflexivity. discriminate.
    + cbn [firstn] in Hfind. replace (firstn k []) with (@nil (list ascii)) in Hfind by (destruct k; reflexivity).
      rewrite (find_ext _ (fun fe => str_eqb (f_name fe) (p_full p))) in Hfind.
      * rewrite Hfind. subst. reflexivity.
      * intros x. cbn. apply orb_false_r.
  - rewrite (history_uncached env files ops idx p Hn Hd Hg Hf).
    rewrite (find_ext _ _ _ Hm). reflexivity.
Qed.

(* ---- which value the initial list holds for a name -------------------------------------------- *)
Definition fl_get (fl : list fentry) (n : list ascii) : option (option (list ascii) * nat) :=
  match find (fun fe => str_eqb (f_name fe) n) fl with
  | Some fe => Some (f_val fe, f_file fe)
  | None => None
  end.

Lemma save_value_get : forall fi fl n v m,
  fl_get (save_value fi fl n v) m = if str_eqb n m then Some (v, fi) else fl_get fl m.
Proof.
  unfold fl_get. induction fl as [|fe fl IH]; intros n v m; cbn.
  - destruct (str_eqb n m); reflexivity.
  - destruct (str_eqb n (f_name fe)) eqn:E; cbn.
    + apply str_eqb_eq in E. rewrite <- E. destruct (str_eqb n m); reflexivity.
    + destruct (str_eqb (f_name fe) m) eqn:E2.
      * apply str_eqb_eq in E2. rewrite <- E2, E. reflexivity.
      * apply IH.
Qed.

(* the last line of a file that sets name n *)
Fixpoint last_assoc (n : list ascii) (lines : list (list ascii * option (list ascii))) : option (option (list ascii)) :=
  match lines with
  | [] => None
  | (k, v) :: t => match last_assoc n t with
                   | Some x => Some x
                   | None => if str_eqb k n then Some v else None
                   end
  end.

Lemma read_file_get : forall lines fl fi m,
  fl_get (read_file fl fi lines) m =
    match last_assoc m lines with Some v => Some (v, fi) | None => fl_get fl m end.
Proof.
  unfold read_file. induction lines as [|[k v] lines IH]; intros fl fi m; cbn [fold_left last_assoc]; [reflexivity|].
  rewrite IH. cbn [fst snd]. destruct (last_assoc m lines); [reflexivity|].
  rewrite save_value_get. destruct (str_eqb k m); reflexivity.
Qed.

(* the first file of the path list that sets name n, and the value of its last such line *)
Fixpoint first_file (n : list ascii) (k : nat) (files : list (list (list ascii * option (list ascii))))
  : option (option (list ascii) * nat) :=
  match files with
  | [] => None
  | f :: t => match last_assoc n f with Some v => Some (v, k) | None => first_file n (S k) t end
  end.

Lemma read_files_get_gen : forall files k fl m,
  fl_get (fold_left (fun fl f => read_file fl (fst f) (snd f)) (rev (number_from k files)) fl) m =
    match first_file m k files with Some x => Some x | None => fl_get fl m end.
Proof.
  induction files as [|f files IH]; intros k fl m; cbn [number_from rev first_file fold_left]; [reflexivity|].
  rewrite fold_left_app. cbn [fold_left fst snd]. rewrite read_file_get.
  destruct (last_assoc m f); [reflexivity|]. apply IH.
Qed.

(* files on the left of the path list take precedence; inside a file the last line wins *)
Lemma read_files_get : forall files m, fl_get (read_files [] files) m = first_file m O files.
Proof.
  intros files m. unfold read_files. rewrite read_files_get_gen.
  destruct (first_file m 0 files); reflexivity.
Qed.

(* ---- a decision procedure for [disjoint] (used by the examples) --------------------------------- *)
Definition pdisjb (p q : param) : bool := negb (existsb (fun n => matches q n) (names p)).

Lemma pdisjb_ok : forall p q, pdisjb p q = true -> pdisj p q.
Proof.
  intros p q H n Hp Hq. unfold pdisjb in H. apply negb_true_iff in H.
  unfold matches in Hp. apply existsb_exists in Hp as [m [Hm E]]. apply str_eqb_eq in E. subst m.
  assert (existsb (fun n => matches q n) (names p) = true).
  { apply existsb_exists. exists n. split; assumption. }
  congruence.
Qed.

Lemma pdisj_sym : forall p q, pdisj p q -> pdisj q p.
Proof. intros p q H n Hq Hp. exact (H n Hp Hq). Qed.

Fixpoint all_pairs_disj (l : list param) : bool :=
  match l with
  | [] => true
  | p :: t => forallb (pdisjb p) t && all_pairs_disj t
  end.

Lemma all_pairs_disj_ok : forall l i j p q,
  all_pairs_disj l = true -> i <> j -> nth_error l i = Some p -> nth_error l j = Some q -> pdisj p q.
Proof.
  induction l as [|x l IH]; intros i j p q H Hij Hi Hj; [destruct i; discriminate|].
  cbn in H. apply andb_true_iff in H as [Hx Hl]. rewrite forallb_forall in Hx.
  destruct i as [|i]; destruct j as [|j]; cbn in Hi, Hj.
  - congruence.
  - inv Hi. apply pdisjb_ok, Hx. eapply nth_error_In; eauto.
  - inv Hj. apply pdisj_sym, pdisjb_ok, Hx. eapply nth_error_In; eauto.
  - eapply (IH i j); eauto.
Qed.

Lemma disjointb_ok : forall st, all_pairs_disj (st_params st) = true -> disjoint st.
Proof. intros st H i j p q Hij Hi Hj. eapply all_pairs_disj_ok; eauto. Qed.
