(* Proofs about the model of the MCA parameter system (MCADefs.v):
   per-state facts (precedence formula, stability, non-interference, synonyms,
   read-only, not-found) and the --mca join law.  The facts that quantify over
   histories are in MCAHistProofs.v. *)
From PV Require Import Base.Tac MCA.MCADefs.
From Coq Require Import Ascii.
Local Open Scope Z_scope.

(* ---- strings -------------------------------------------------------------- *)
Lemma str_eqb_refl : forall a, str_eqb a a = true.
Proof. induction a as [|x a IH]; cbn; [reflexivity|]. rewrite Ascii.eqb_refl, IH. reflexivity. Qed.

Lemma str_eqb_eq : forall a b, str_eqb a b = true <-> a = b.
Proof.
  induction a as [|x a IH]; intros [|y b]; cbn; split; intros H; try reflexivity; try discriminate.
  - apply andb_true_iff in H as [Hx Hab]. apply Ascii.eqb_eq in Hx. apply IH in Hab. congruence.
  - inv H. rewrite Ascii.eqb_refl. cbn. apply IH. reflexivity.
Qed.

Lemma str_eqb_neq : forall a b, str_eqb a b = false <-> a <> b.
Proof.
  intros a b. split.
  - intros H E. apply str_eqb_eq in E. congruence.
  - intros H. destruct (str_eqb a b) eqn:E; [|reflexivity]. apply str_eqb_eq in E. contradiction.
Qed.

Lemma str_eqb_sym : forall a b, str_eqb a b = str_eqb b a.
Proof.
  intros a b. destruct (str_eqb a b) eqn:E.
  - apply str_eqb_eq in E. subst. symmetry. apply str_eqb_refl.
  - symmetry. apply str_eqb_neq. apply str_eqb_neq in E. congruence.
Qed.

(* ---- lists ------------------------------------------------------------------ *)
Lemma nth_error_upd_nth_same : forall {A} (l : list A) i f x,
  nth_error l i = Some x -> nth_error (upd_nth l i f) i = Some (f x).
Proof.
  induction l as [|y l IH]; intros [|i] f x H; cbn in *; try discriminate.
  - congruence.
  - apply IH. exact H.
Qed.

Lemma nth_error_upd_nth_other : forall {A} (l : list A) i j f,
  i <> j -> nth_error (upd_nth l i f) j = nth_error l j.
Proof.
  induction l as [|y l IH]; intros [|i] [|j] f H; cbn; try reflexivity.
  - contradiction.
  - apply IH. congruence.
Qed.

Lemma upd_nth_length : forall {A} (l : list A) i f, length (upd_nth l i f) = length l.
Proof. induction l as [|y l IH]; intros [|i] f; cbn; auto. Qed.

Lemma take_first_find : forall f l x r, take_first f l = Some (x, r) -> find f l = Some x.
Proof.
  induction l as [|y l IH]; intros x r H; cbn in *; [discriminate|].
  destruct (f y) eqn:Hf.
  - congruence.
  - destruct (take_first f l) as [[z q]|] eqn:Ht; [|discriminate]. inv H. eapply IH. reflexivity.
Qed.

Lemma take_first_none : forall f l, take_first f l = None -> find f l = None.
Proof.
  induction l as [|y l IH]; intros H; cbn in *; [reflexivity|].
  destruct (f y) eqn:Hf; [discriminate|].
  destruct (take_first f l) as [[z q]|] eqn:Ht; [discriminate|]. apply IH. reflexivity.
Qed.

Lemma find_take_first : forall f l x, find f l = Some x -> exists r, take_first f l = Some (x, r).
Proof.
  intros f l x H. destruct (take_first f l) as [[y r]|] eqn:Ht.
  - apply take_first_find in Ht. exists r. congruence.
  - apply take_first_none in Ht. congruence.
Qed.

(* removing an entry that g rejects does not change what g finds *)
Lemma take_first_find_other : forall f g l x r,
  take_first f l = Some (x, r) -> g x = false -> find g r = find g l.
Proof.
  induction l as [|y l IH]; intros x r H Hg; cbn in *; [discriminate|].
  destruct (f y) eqn:Hf.
  - inv H. rewrite Hg. reflexivity.
  - destruct (take_first f l) as [[z q]|] eqn:Ht; [|discriminate]. inv H. cbn.
    destruct (g y); [reflexivity|]. eapply IH; eauto.
Qed.

Lemma first_some_app : forall {A B} (f : A -> option B) l1 l2,
  first_some f (l1 ++ l2) = match first_some f l1 with Some y => Some y | None => first_some f l2 end.
Proof.
  induction l1 as [|x l1 IH]; intros l2; cbn; [reflexivity|].
  destruct (f x); [reflexivity|]. apply IH.
Qed.

Lemma first_some_none : forall {A B} (f : A -> option B) l,
  (forall x, In x l -> f x = None) -> first_some f l = None.
Proof.
  induction l as [|x l IH]; intros H; cbn; [reflexivity|].
  rewrite (H x (or_introl eq_refl)). apply IH. intros y Hy. apply H. right. exact Hy.
Qed.

Lemma first_some_ext : forall {A B} (f g : A -> option B) l,
  (forall x, In x l -> f x = g x) -> first_some f l = first_some g l.
Proof.
  induction l as [|x l IH]; intros H; cbn; [reflexivity|].
  rewrite (H x (or_introl eq_refl)). destruct (g x); [reflexivity|].
  apply IH. intros y Hy. apply H. right. exact Hy.
Qed.

(* ---- the environment ---------------------------------------------------------- *)
Lemma env_get_unset_same : forall e n, env_get (env_unset e n) n = None.
Proof.
  induction e as [|[k v] e IH]; intros n; cbn; [reflexivity|].
  destruct (str_eqb n k) eqn:E; cbn; [apply IH|]. rewrite E. apply IH.
Qed.

Lemma env_get_unset_other : forall e n m, n <> m -> env_get (env_unset e n) m = env_get e m.
Proof.
  induction e as [|[k v] e IH]; intros n m H; cbn; [reflexivity|].
  destruct (str_eqb n k) eqn:E; cbn.
  - apply str_eqb_eq in E. subst k.
    assert (Hm : str_eqb m n = false) by (apply str_eqb_neq; congruence).
    rewrite Hm. apply IH. exact H.
  - destruct (str_eqb m k); [reflexivity|]. apply IH. exact H.
Qed.

Lemma env_get_set_same : forall e n v, env_get (env_set e n v) n = Some v.
Proof. intros. unfold env_set. cbn. rewrite str_eqb_refl. reflexivity. Qed.

Lemma env_get_set_other : forall e n v m, n <> m -> env_get (env_set e n v) m = env_get e m.
Proof.
  intros e n v m H. unfold env_set. cbn.
  assert (Hm : str_eqb m n = false) by (apply str_eqb_neq; congruence).
  rewrite Hm. apply env_get_unset_other. exact H.
Qed.

(* a variable is identified by its exact name: setting n changes the binding of n and of no other
   name, in particular not of a name that n is a prefix of, or that is a prefix of n *)
Lemma env_get_set : forall e n v m,
  env_get (env_set e n v) m = if str_eqb m n then Some v else env_get e m.
Proof.
  intros e n v m. destruct (str_eqb m n) eqn:E.
  - apply str_eqb_eq in E. subst m. apply env_get_set_same.
  - apply env_get_set_other. apply str_eqb_neq in E. congruence.
Qed.

(* ---- the precedence formula ---------------------------------------------------- *)
(* what the file stage yields in a state: the value cached on the parameter, else the
   first entry of the list of file values whose name is the real name or a synonym *)
Definition file_src (st : state) (p : param) : option (value * nat) :=
  match p_file p with
  | Some vf => Some vf
  | None => match find (fun fe => matches p (f_name fe)) (st_files st) with
            | Some fe => Some (conv (p_type p) (f_val fe), f_file fe)
            | None => None
            end
  end.

Definition resolve (st : state) (p : param) : lres :=
  match p_over p with
  | Some v => if p_ro p then LFound (p_default p) SDefault None else LFound v SOverride None
  | None =>
    if p_ro p then LFound (p_default p) SDefault None else
    match lookup_env (st_env st) p with
    | Some v => LFound v SEnv None
    | None => match file_src st p with
              | Some (v, fi) => LFound v SFile (Some fi)
              | None => LFound (p_default p) SDefault None
              end
    end
  end.

Lemma lookup_resolve : forall st idx,
  snd (param_lookup st idx) =
  match get_param (st_params st) idx with None => LNotFound | Some p => resolve st p end.
Proof.
  intros st idx. unfold param_lookup. destruct (get_param (st_params st) idx) as [p|]; [|reflexivity].
  unfold lookup_stages, resolve, file_src.
  destruct (p_over p) as [v|].
  - cbn. destruct (p_ro p); reflexivity.
  - destruct (lookup_env (st_env st) p) as [v|].
    + cbn. destruct (p_ro p); reflexivity.
    + destruct (p_file p) as [[v fi]|].
      * cbn. destruct (p_ro p); reflexivity.
      * destruct (take_first (fun fe => matches p (f_name fe)) (st_files st)) as [[fe rest]|] eqn:Ht.
        -- apply take_first_find in Ht. rewrite Ht. cbn. destruct (p_ro p); reflexivity.
        -- apply take_first_none in Ht. rewrite Ht. cbn. destruct (p_ro p); reflexivity.
Qed.

(* the sources in the order param_lookup consults them *)
Definition sources (st : state) (p : param) : list (option (value * source * option nat)) :=
  [ option_map (fun v => (v, SOverride, None)) (p_over p);
    option_map (fun s => (conv (p_type p) (Some s), SEnv, None)) (first_some (env_get (st_env st)) (names p));
    option_map (fun vf => (fst vf, SFile, Some (snd vf))) (file_src st p);
    Some (p_default p, SDefault, None) ].

Definition found (x : option (value * source * option nat)) : lres :=
  match x with Some (v, s, f) => LFound v s f | None => LNotFound end.

Lemma lookup_precedence : forall st idx p,
  get_param (st_params st) idx = Some p ->
  snd (param_lookup st idx) =
    if p_ro p then LFound (p_default p) SDefault None
    else found (first_some (fun x => x) (sources st p)).
Proof.
  intros st idx p Hg. rewrite lookup_resolve, Hg. unfold resolve, sources, lookup_env.
  destruct (p_over p) as [v|] eqn:Ho.
  - destruct (p_ro p); reflexivity.
  - destruct (p_ro p); [reflexivity|]. cbn [first_some option_map].
    destruct (first_some (env_get (st_env st)) (names p)) as [s|]; [reflexivity|].
    destruct (file_src st p) as [[v fi]|]; reflexivity.
Qed.

(* ---- stability: a lookup can be repeated ------------------------------------------ *)
Lemma get_param_upd_same : forall ps idx f p,
  get_param ps idx = Some p -> get_param (upd_nth ps (Z.to_nat idx) f) idx = Some (f p).
Proof.
  intros ps idx f p H. unfold get_param in *. destruct (idx <? 0); [discriminate|].
  apply nth_error_upd_nth_same. exact H.
Qed.

Lemma get_param_upd_other : forall ps idx j f,
  0 <= idx -> 0 <= j -> idx <> j -> get_param (upd_nth ps (Z.to_nat idx) f) j = get_param ps j.
Proof.
  intros ps idx j f Hi Hj H. unfold get_param. destruct (j <? 0); [reflexivity|].
  apply nth_error_upd_nth_other. lia.
Qed.

Lemma get_param_nonneg : forall ps idx p, get_param ps idx = Some p -> 0 <= idx.
Proof. intros ps idx p H. unfold get_param in H. destruct (idx <? 0) eqn:E; [discriminate|lia]. Qed.

Lemma lookup_stable : forall st idx st' r,
  param_lookup st idx = (st', r) -> param_lookup st' idx = (st', r).
Proof.
  intros st idx st' r H. unfold param_lookup in H.
  destruct (get_param (st_params st) idx) as [p|] eqn:Hg.
  2:{ inv H. unfold param_lookup. rewrite Hg. reflexivity. }
  unfold lookup_stages in H.
  destruct (p_over p) as [v|] eqn:Ho.
  { inv H. unfold param_lookup. rewrite Hg. unfold lookup_stages. rewrite Ho. reflexivity. }
  destruct (lookup_env (st_env st) p) as [v|] eqn:He.
  { inv H. unfold param_lookup. rewrite Hg. unfold lookup_stages. rewrite Ho, He. reflexivity. }
  destruct (p_file p) as [[v fi]|] eqn:Hf.
  { inv H. unfold param_lookup. rewrite Hg. unfold lookup_stages. rewrite Ho, He, Hf. reflexivity. }
  destruct (take_first (fun fe => matches p (f_name fe)) (st_files st)) as [[fe rest]|] eqn:Ht.
  2:{ inv H. unfold param_lookup. rewrite Hg. unfold lookup_stages. rewrite Ho, He, Hf, Ht. reflexivity. }
  inv H. unfold param_lookup. cbn [st_params].
  rewrite (get_param_upd_same _ _ _ _ Hg). unfold lookup_stages. cbn [st_env st_files st_params].
  unfold set_file at 1. cbn [p_over]. rewrite Ho.
  assert (He' : lookup_env (st_env st) (set_file (Some (conv (p_type p) (f_val fe), f_file fe)) p) = None) by exact He.
  rewrite He'. cbn [set_file p_file p_ro p_default]. reflexivity.
Qed.

(* the result of a lookup does not depend on the lookups of the same parameter made before *)
Lemma lookup_twice : forall st idx,
  snd (param_lookup (fst (param_lookup st idx)) idx) = snd (param_lookup st idx).
Proof.
  intros st idx. destruct (param_lookup st idx) as [st' r] eqn:H. cbn.
  rewrite (lookup_stable _ _ _ _ H). reflexivity.
Qed.

(* ---- non-interference ---------------------------------------------------------------- *)
Lemma resolve_same_files_env : forall st st' p,
  st_files st' = st_files st -> st_env st' = st_env st -> resolve st' p = resolve st p.
Proof. intros st st' p Hf He. unfold resolve, file_src. rewrite Hf, He. reflexivity. Qed.

(* an override set or removed on one parameter is not seen by another *)
Lemma set_other : forall st idx v j, 0 <= idx -> 0 <= j -> idx <> j ->
  snd (param_lookup (fst (set_value st idx v)) j) = snd (param_lookup st j).
Proof.
  intros st idx v j Hi Hj H. rewrite !lookup_resolve. unfold set_value.
  destruct (get_param (st_params st) idx) as [p|]; [|reflexivity].
  destruct (ptype_eqb (p_type p) (type_of v)); [|reflexivity].
  cbn [fst st_params]. rewrite get_param_upd_other by assumption.
  destruct (get_param (st_params st) j); reflexivity.
Qed.

Lemma unset_other : forall st idx j, 0 <= idx -> 0 <= j -> idx <> j ->
  snd (param_lookup (fst (unset st idx)) j) = snd (param_lookup st j).
Proof.
  intros st idx j Hi Hj H. rewrite !lookup_resolve. unfold unset.
  destruct (get_param (st_params st) idx) as [p|]; [|reflexivity].
  cbn [fst st_params]. rewrite get_param_upd_other by assumption.
  destruct (get_param (st_params st) j); reflexivity.
Qed.

(* what set / unset do to the parameter itself *)
Lemma set_then_lookup : forall st idx p v,
  get_param (st_params st) idx = Some p -> type_of v = p_type p ->
  snd (param_lookup (fst (set_value st idx v)) idx) =
    if p_ro p then LFound (p_default p) SDefault None else LFound v SOverride None.
Proof.
  intros st idx p v Hg Ht. rewrite lookup_resolve. unfold set_value. rewrite Hg, Ht.
  assert (E : ptype_eqb (p_type p) (p_type p) = true) by (destruct (p_type p); reflexivity).
  rewrite E. cbn [fst st_params]. rewrite (get_param_upd_same _ _ _ _ Hg).
  unfold resolve. cbn [set_over p_over p_ro p_default]. reflexivity.
Qed.

Lemma unset_then_lookup : forall st idx p,
  get_param (st_params st) idx = Some p ->
  snd (param_lookup (fst (unset st idx)) idx) = resolve st (set_over None p).
Proof.
  intros st idx p Hg. rewrite lookup_resolve. unfold unset. rewrite Hg.
  cbn [fst st_params]. rewrite (get_param_upd_same _ _ _ _ Hg). reflexivity.
Qed.

Definition pdisj (p q : param) : Prop := forall n, matches p n = true -> matches q n = true -> False.

(* a lookup of one parameter (which may consume an entry of the file-value list) does not
   change the value of a parameter that shares no name with it *)
Lemma lookup_other : forall st i j pi pj,
  get_param (st_params st) i = Some pi -> get_param (st_params st) j = Some pj -> i <> j ->
  pdisj pi pj ->
  snd (param_lookup (fst (param_lookup st i)) j) = snd (param_lookup st j).
Proof.
  intros st i j pi pj Hi Hj Hij Hd.
  pose proof (get_param_nonneg _ _ _ Hi) as Hi0. pose proof (get_param_nonneg _ _ _ Hj) as Hj0.
  rewrite (lookup_resolve st j), Hj. unfold param_lookup at 2. rewrite Hi. unfold lookup_stages.
  destruct (p_over pi); [cbn; rewrite lookup_resolve, Hj; reflexivity|].
  destruct (lookup_env (st_env st) pi); [cbn; rewrite lookup_resolve, Hj; reflexivity|].
  destruct (p_file pi) as [[v fi]|]; [cbn; rewrite lookup_resolve, Hj; reflexivity|].
  destruct (take_first (fun fe => matches pi (f_name fe)) (st_files st)) as [[fe rest]|] eqn:Ht;
    [|cbn; rewrite lookup_resolve, Hj; reflexivity].
  cbn [fst]. rewrite lookup_resolve. cbn [st_params]. rewrite get_param_upd_other by assumption. rewrite Hj.
  unfold resolve, file_src. cbn [st_env st_files].
  assert (Hm : matches pj (f_name fe) = false).
  { destruct (matches pj (f_name fe)) eqn:E; [|reflexivity]. exfalso. eapply Hd; [|exact E].
    apply take_first_find in Ht. apply find_some in Ht. apply Ht. }
  rewrite (take_first_find_other _ (fun fe0 => matches pj (f_name fe0)) _ _ _ Ht Hm). reflexivity.
Qed.

Lemma matches_false_names : forall p n, matches p n = false -> forall m, In m (names p) -> n <> m.
Proof.
  intros p n H m Hm E. subst m. unfold matches in H.
  assert (existsb (str_eqb n) (names p) = true).
  { apply existsb_exists. exists n. split; [exact Hm|apply str_eqb_refl]. }
  congruence.
Qed.

(* an environment variable that is not a name of the parameter is not seen by it *)
Lemma setenv_other : forall st idx p n v,
  get_param (st_params st) idx = Some p -> matches p n = false ->
  snd (param_lookup (mkState (st_params st) (st_files st) (env_set (st_env st) n v)) idx)
  = snd (param_lookup st idx).
Proof.
  intros st idx p n v Hg Hm. rewrite !lookup_resolve. cbn [st_params]. rewrite Hg.
  unfold resolve, file_src, lookup_env. cbn [st_env st_files].
  rewrite (first_some_ext (env_get (env_set (st_env st) n v)) (env_get (st_env st))); [reflexivity|].
  intros m Hin. apply env_get_set_other. eapply matches_false_names; eauto.
Qed.

Lemma unsetenv_other : forall st idx p n,
  get_param (st_params st) idx = Some p -> matches p n = false ->
  snd (param_lookup (mkState (st_params st) (st_files st) (env_unset (st_env st) n)) idx)
  = snd (param_lookup st idx).
Proof.
  intros st idx p n Hg Hm. rewrite !lookup_resolve. cbn [st_params]. rewrite Hg.
  unfold resolve, file_src, lookup_env. cbn [st_env st_files].
  rewrite (first_some_ext (env_get (env_unset (st_env st) n)) (env_get (st_env st))); [reflexivity|].
  intros m Hin. apply env_get_unset_other. eapply matches_false_names; eauto.
Qed.

(* ---- synonyms --------------------------------------------------------------------------- *)
(* an environment variable named after the real name or any synonym sets the parameter,
   provided no name that the code tries earlier is set *)
Lemma env_by_any_name : forall st idx p before n after s,
  get_param (st_params st) idx = Some p ->
  p_ro p = false -> p_over p = None ->
  names p = before ++ n :: after ->
  (forall m, In m before -> env_get (st_env st) m = None) ->
  env_get (st_env st) n = Some s ->
  snd (param_lookup st idx) = LFound (conv (p_type p) (Some s)) SEnv None.
Proof.
  intros st idx p before n after s Hg Hro Ho Hn Hb He.
  rewrite lookup_resolve, Hg. unfold resolve, lookup_env. rewrite Ho, Hro, Hn.
  rewrite first_some_app, (first_some_none _ _ Hb). cbn. rewrite He. reflexivity.
Qed.

(* a file value stored under the real name or any synonym sets the parameter (first entry of the list
   that carries one of the names), when no override and no environment variable exist *)
Lemma file_by_any_name : forall st idx p fe,
  get_param (st_params st) idx = Some p ->
  p_ro p = false -> p_over p = None -> p_file p = None ->
  first_some (env_get (st_env st)) (names p) = None ->
  find (fun fe => matches p (f_name fe)) (st_files st) = Some fe ->
  snd (param_lookup st idx) = LFound (conv (p_type p) (f_val fe)) SFile (Some (f_file fe)).
Proof.
  intros st idx p fe Hg Hro Ho Hf He Hfind.
  rewrite lookup_resolve, Hg. unfold resolve, lookup_env, file_src. rewrite Ho, Hro, He, Hf, Hfind. reflexivity.
Qed.

(* registering a synonym makes the parameter answer to the new name *)
Lemma reg_syn_names : forall st idx p tn pn,
  get_param (st_params st) idx = Some p ->
  exists p', get_param (st_params (fst (reg_syn st idx tn pn))) idx = Some p' /\
             names p' = names p ++ [full_name tn pn] /\
             p_type p' = p_type p /\ p_ro p' = p_ro p /\ p_over p' = p_over p /\
             p_file p' = p_file p /\ p_default p' = p_default p /\
             snd (reg_syn st idx tn pn) = 0.
Proof.
  intros st idx p tn pn Hg. unfold reg_syn. rewrite Hg. cbn [fst snd st_params].
  exists (add_syn (full_name tn pn) p). rewrite (get_param_upd_same _ _ _ _ Hg).
  repeat split.
Qed.

(* ---- read-only ------------------------------------------------------------------------------- *)
Lemma read_only_default : forall st idx p,
  get_param (st_params st) idx = Some p -> p_ro p = true ->
  snd (param_lookup st idx) = LFound (p_default p) SDefault None.
Proof.
  intros st idx p Hg Hro. rewrite (lookup_precedence _ _ _ Hg), Hro. reflexivity.
Qed.

(* ---- not found ---------------------------------------------------------------------------------- *)
Lemma lookup_out_of_range : forall st idx,
  idx < 0 \/ Z.of_nat (length (st_params st)) <= idx -> snd (param_lookup st idx) = LNotFound.
Proof.
  intros st idx H. rewrite lookup_resolve. unfold get_param.
  destruct (idx <? 0) eqn:E; [reflexivity|].
  assert (Hn : nth_error (st_params st) (Z.to_nat idx) = None) by (apply nth_error_None; lia).
  rewrite Hn. reflexivity.
Qed.

Lemma find_idx_none : forall {A} (f : A -> bool) l, (forall x, In x l -> f x = false) -> find_idx f l = None.
Proof.
  induction l as [|x l IH]; intros H; cbn; [reflexivity|].
  rewrite (H x (or_introl eq_refl)). rewrite IH; [reflexivity|]. intros y Hy. apply H. right. exact Hy.
Qed.

Lemma find_idx_some : forall {A} (f : A -> bool) l i,
  find_idx f l = Some i -> exists x, nth_error l i = Some x /\ f x = true.
Proof.
  induction l as [|x l IH]; intros i H; cbn in *; [discriminate|].
  destruct (f x) eqn:Hf.
  - inv H. exists x. split; [reflexivity|exact Hf].
  - destruct (find_idx f l) as [k|] eqn:Hk; [|discriminate]. inv H. cbn. apply IH. reflexivity.
Qed.

Lemma find_unknown : forall st tn pn,
  (forall p, In p (st_params st) -> ostr_eqb tn (p_tname p) && ostr_eqb pn (p_pname p) = false) ->
  mca_find st tn pn = -1 /\ snd (param_lookup st (mca_find st tn pn)) = LNotFound.
Proof.
  intros st tn pn H. unfold mca_find. rewrite (find_idx_none _ _ H). split; [reflexivity|].
  apply lookup_out_of_range. left. lia.
Qed.

Lemma find_known : forall st tn pn idx,
  mca_find st tn pn = idx -> 0 <= idx ->
  exists p, get_param (st_params st) idx = Some p /\ ostr_eqb tn (p_tname p) = true /\ ostr_eqb pn (p_pname p) = true.
Proof.
  intros st tn pn idx H Hi. unfold mca_find in H.
  destruct (find_idx _ (st_params st)) as [i|] eqn:Hf; [|lia].
  apply find_idx_some in Hf as [p [Hn Hp]]. apply andb_true_iff in Hp as [H1 H2].
  exists p. subst idx. unfold get_param.
  assert (E : (Z.of_nat i <? 0) = false) by lia. rewrite E, Nat2Z.id. auto.
Qed.

(* ---- --mca: the join law --------------------------------------------------------------------------- *)
Fixpoint assoc (n : list ascii) (l : list (list ascii * list ascii)) : option (list ascii) :=
  match l with
  | [] => None
  | (k, v) :: t => if str_eqb n k then Some v else assoc n t
  end.

(* v1,v2,...,vk *)
Fixpoint join (vs : list (list ascii)) : list ascii :=
  match vs with
  | [] => []
  | [v] => v
  | v :: t => v ++ comma :: join t
  end.

(* the values given for name n, in command-line order *)
Definition vals (n : list ascii) (args : list (list ascii * list ascii)) : list (list ascii) :=
  map snd (filter (fun a => str_eqb n (fst a)) args).

Lemma assoc_env_get : forall l n, assoc n l = env_get l n.
Proof. induction l as [|[k v] l IH]; intros n; cbn; [reflexivity|]. rewrite IH. reflexivity. Qed.

Lemma process_arg_assoc : forall acc n v m,
  assoc m (process_arg acc n v) =
    if str_eqb m n then Some (match assoc m acc with Some old => old ++ comma :: v | None => v end)
    else assoc m acc.
Proof.
  induction acc as [|[k w] acc IH]; intros n v m; cbn.
  - destruct (str_eqb m n); reflexivity.
  - destruct (str_eqb n k) eqn:Enk; cbn.
    + apply str_eqb_eq in Enk. subst k. destruct (str_eqb m n); reflexivity.
    + destruct (str_eqb m k) eqn:Emk.
      * apply str_eqb_eq in Emk. subst k.
        assert (E : str_eqb m n = false) by (rewrite str_eqb_sym; exact Enk). rewrite E. reflexivity.
      * apply IH.
Qed.

Lemma join_snoc : forall vs v, vs <> [] -> join (vs ++ [v]) = join vs ++ comma :: v.
Proof.
  induction vs as [|x vs IH]; intros v H; [contradiction|].
  destruct vs as [|y vs]; [reflexivity|].
  change (join ((x :: y :: vs) ++ [v])) with (x ++ comma :: join ((y :: vs) ++ [v])).
  rewrite IH by discriminate.
  change (join (x :: y :: vs)) with (x ++ comma :: join (y :: vs)).
  rewrite <- app_assoc. reflexivity.
Qed.

Lemma collect_gen : forall args acc m,
  assoc m (fold_left (fun acc a => process_arg acc (fst a) (snd a)) args acc) =
    match assoc m acc, vals m args with
    | None, [] => None
    | None, vs => Some (join vs)
    | Some old, vs => Some (join (old :: vs))
    end.
Proof.
  induction args as [|[n v] args IH]; intros acc m; cbn [fold_left].
  - unfold vals. cbn. destruct (assoc m acc); reflexivity.
  - rewrite IH, process_arg_assoc. unfold vals. cbn [filter fst snd].
    destruct (str_eqb m n) eqn:E; cbn [map].
    + fold (vals m args). destruct (assoc m acc) as [old|].
      * destruct (vals m args) as [|w ws]; [reflexivity|].
        change (join ((old ++ comma :: v) :: w :: ws)) with ((old ++ comma :: v) ++ comma :: join (w :: ws)).
        change (join (old :: v :: w :: ws)) with (old ++ comma :: (v ++ comma :: join (w :: ws))).
        rewrite <- app_assoc. reflexivity.
      * reflexivity.
    + fold (vals m args). reflexivity.
Qed.

(* the arrays built by process_arg: one entry per distinct name, holding all its values joined by commas *)
Lemma collect_join : forall args m,
  assoc m (collect args) = match vals m args with [] => None | vs => Some (join vs) end.
Proof. intros. unfold collect. rewrite collect_gen. reflexivity. Qed.

Lemma process_arg_keys : forall acc n v k,
  In k (map fst (process_arg acc n v)) <-> In k (map fst acc) \/ k = n.
Proof.
  induction acc as [|[a w] acc IH]; intros n v k; cbn.
  - split; [intros [H|[]]; right; congruence | intros [[]|H]; left; congruence].
  - destruct (str_eqb n a) eqn:E; cbn.
    + apply str_eqb_eq in E. subst a. split; [tauto|]. intros [[H|H]|H]; auto.
    + rewrite IH. tauto.
Qed.

Lemma process_arg_nodup : forall acc n v, NoDup (map fst acc) -> NoDup (map fst (process_arg acc n v)).
Proof.
  induction acc as [|[a w] acc IH]; intros n v H; cbn.
  - constructor; [intros []|constructor].
  - destruct (str_eqb n a) eqn:E; cbn.
    + exact H.
    + inv H. constructor; [|apply IH; assumption].
      intros Hin. apply process_arg_keys in Hin as [Hin|Hin]; [contradiction|].
      subst a. rewrite str_eqb_refl in E. discriminate.
Qed.

Lemma collect_nodup : forall args, NoDup (map fst (collect args)).
Proof.
  intros args. unfold collect.
  apply (fold_left_inv (fun acc a => process_arg acc (fst a) (snd a)) (fun acc => NoDup (map fst acc))).
  - intros a b H. apply process_arg_nodup. exact H.
  - constructor.
Qed.

Lemma assoc_not_in : forall l n, ~ In n (map fst l) -> assoc n l = None.
Proof.
  induction l as [|[k v] l IH]; intros n H; cbn; [reflexivity|].
  destruct (str_eqb n k) eqn:E.
  - apply str_eqb_eq in E. subst k. exfalso. apply H. left. reflexivity.
  - apply IH. intros Hin. apply H. right. exact Hin.
Qed.

Lemma add_to_env_get : forall kvs e n, NoDup (map fst kvs) ->
  env_get (add_to_env kvs e) n = match assoc n kvs with Some v => Some v | None => env_get e n end.
Proof.
  unfold add_to_env. induction kvs as [|[k v] kvs IH]; intros e n Hnd; cbn [fold_left]; [reflexivity|].
  inv Hnd. rewrite IH by assumption. cbn [assoc fst snd].
  destruct (str_eqb n k) eqn:E.
  - apply str_eqb_eq in E. subst k. rewrite (assoc_not_in _ _ H1). apply env_get_set_same.
  - destruct (assoc n kvs); [reflexivity|]. apply env_get_set_other.
    apply str_eqb_neq in E. congruence.
Qed.

(* add_to_env / the copy loop of parsec_init: the names that are not in the list keep their binding,
   whatever names are in the list *)
Lemma add_to_env_other : forall kvs e n,
  ~ In n (map fst kvs) -> env_get (add_to_env kvs e) n = env_get e n.
Proof.
  unfold add_to_env. induction kvs as [|[k v] kvs IH]; intros e n H; cbn [fold_left]; [reflexivity|].
  cbn in H. rewrite IH by tauto. cbn [fst snd]. apply env_get_set_other. intros E. apply H. left. exact E.
Qed.

(* a command line that does not name n leaves n alone *)
Lemma cmdline_other : forall args e n,
  (forall a, In a args -> fst (snd a) <> n) -> env_get (process_cmdline args e) n = env_get e n.
Proof.
  intros args e n H.
  assert (Hv : forall f, vals n (map snd (filter f args)) = []).
  { intros f. unfold vals. induction args as [|a args IH]; [reflexivity|]. cbn [filter].
    assert (Ha : str_eqb n (fst (snd a)) = false).
    { apply str_eqb_neq. intros E. apply (H a (or_introl eq_refl)). congruence. }
    assert (IH' : map snd (filter (fun a0 => str_eqb n (fst a0)) (map snd (filter f args))) = [])
      by (apply IH; intros b Hb; apply H; right; exact Hb).
    destruct (f a); [|exact IH']. cbn [map filter]. rewrite Ha. exact IH'. }
  unfold process_cmdline. rewrite !add_to_env_get by apply collect_nodup. rewrite !collect_join, !Hv. reflexivity.
Qed.

Definition mca_args (args : list (bool * (list ascii * list ascii))) := map snd (filter (fun a => negb (fst a)) args).
Definition gmca_args (args : list (bool * (list ascii * list ascii))) := map snd (filter (fun a => fst a) args).

(* the environment after the command line was processed *)
Lemma cmdline_env : forall args e n,
  env_get (process_cmdline args e) n =
    match vals n (mca_args args) with
    | (_ :: _) as vs => Some (join vs)
    | [] => match vals n (gmca_args args) with
            | (_ :: _) as vs => Some (join vs)
            | [] => env_get e n
            end
    end.
Proof.
  intros args e n. unfold process_cmdline. fold (mca_args args) (gmca_args args).
  rewrite !add_to_env_get by apply collect_nodup. rewrite !collect_join.
  destruct (vals n (mca_args args)); [|reflexivity].
  destruct (vals n (gmca_args args)); reflexivity.
Qed.
