(* Executable atomic-step model of the lock-free LIFO of parsec/class/lifo.h
   (the PARSEC_ATOMIC_HAS_ATOMIC_CAS_INT128 branch, which is the one the build uses),
   parsec_lifo.c (constructor) and the nolock variants.

   Shared state: the heap [nxt : item -> option item] (the list_next field of every
   item), the head [(hcnt, hitem)] = lifo_head.data.{guard.counter, item}.
   Every model thread runs a list of operations; a thread owns a private bag of
   items ([t_own]): pops add to it, pushes/chains take from it, so any operation
   list is a well-behaved client (an item is pushed only by the thread that holds it)
   and items are re-pushed after having been popped.

   One model step = the code between two scheduling points of the T-sched harness
   (harness/h_lifo.c): a yield before AND after every parsec_atomic_cas_ptr /
   parsec_atomic_cas_int128 (so a CAS is a step of its own), before parsec_atomic_rmb
   (it separates the plain read of the counter from the plain read of the item
   pointer) and between two operations of a thread.  Plain accesses belong to the
   segment that contains them:

     push / chain   A: next = head.item (plain); tail->list_next = next (plain)      Idle/PWr -> PCas
                    B: CAS_ptr(&head.item, next, ring)                               PCas -> PRet | PWr
                    C: success: return            failure: A again
     pop / try_pop  A: old.counter = head.counter (plain)                   [rmb]    Idle/PopRetry -> PopRd
                    B: item = head.item (plain); NULL -> return NULL;
                       otherwise read item->list_next (plain)                        PopRd -> PopCas | Idle
                    C: CAS_128(&head, (old.counter,item), (old.counter+1,next))      PopCas -> PRet | PopRetry
                    D: success: item->list_next = NULL (plain); return item
                       failure: try_pop: return NULL; pop: A again
     is_empty       one segment (plain read of head.item)

   The history [hist] (newest event first) records, for every operation, its
   invocation, its linearisation point (the successful CAS; the NULL read of an
   empty pop; the read of is_empty; the failed CAS of a try_pop) with the value
   the implementation is about to return, and its response. *)
From Coq Require Import ZArith List Bool Arith.
From PV Require Import Base.ListX.
Import ListNotations.

Definition item := nat.

Inductive op := OPush (j : nat) | OChain (n : nat) | OPop | OTryPop | OEmpty.
Inductive res := RPushed (xs : list item) | RItem (x : item) | RNull | REmpty (b : bool).
(* what happens at a linearisation point, as seen by the implementation *)
Inductive act := APush (xs : list item) | APop (r : option item) | ATryFail | AEmpty (b : bool).
Inductive event := EInv (t : nat) (o : op) | ELin (t : nat) (a : act) | ERes (t : nat) (r : res).

Definition res_of (a : act) : res :=
  match a with
  | APush xs => RPushed xs
  | APop (Some x) => RItem x
  | APop None => RNull
  | ATryFail => RNull
  | AEmpty b => REmpty b
  end.

Inductive pc :=
  | Idle
  | PWr (xs : list item)                                           (* push/chain: CAS failed, about to re-read the head *)
  | PCas (xs : list item) (h : option item)                        (* push/chain about to CAS; h = the head it read *)
  | PopRd (try : bool) (k : Z)                                     (* counter read, about to read the item *)
  | PopCas (try : bool) (k : Z) (it : item) (nx : option item)     (* about to CAS128 *)
  | PopRetry                                                       (* pop: CAS failed, about to re-read the counter *)
  | PRet (a : act).                                                (* linearised with a, about to return *)

Record thread := { t_pc : pc; t_ops : list op; t_own : list item; t_res : list res }.
Record cfg := { nxt : item -> option item; hcnt : Z; hitem : option item;
                thr : list thread; hist : list event }.

Definition set (f : item -> option item) (x : item) (v : option item) : item -> option item :=
  fun y => if Nat.eqb y x then v else f y.

(* the list_next fields of a ring x1..xm handed to push/chain, after tail->list_next = h *)
Fixpoint link (f : item -> option item) (xs : list item) (h : option item) : item -> option item :=
  match xs with
  | [] => f
  | x :: r => link (set f x (match r with [] => h | y :: _ => Some y end)) r h
  end.

Definition opt_eqb (a b : option item) : bool :=
  match a, b with
  | None, None => true
  | Some x, Some y => Nat.eqb x y
  | _, _ => false
  end.
Definition is_none (a : option item) : bool := match a with None => true | Some _ => false end.

Fixpoint remove_nth (j : nat) (l : list item) : list item :=
  match l with
  | [] => []
  | x :: r => match j with O => r | S j' => x :: remove_nth j' r end
  end.
(* push number j takes the j-th held item when there is one, the most recent otherwise *)
Definition pick (j : nat) (l : list item) : option (item * list item) :=
  match nth_error l j with
  | Some y => Some (y, remove_nth j l)
  | None => match l with [] => None | x :: r => Some (x, r) end
  end.

Definition mkth (p : pc) (ops : list op) (own : list item) (rs : list res) : thread :=
  {| t_pc := p; t_ops := ops; t_own := own; t_res := rs |}.

(* operation of thread t returns the value of its linearisation action a *)
Definition fin (th : thread) (own : list item) (a : act) : thread :=
  mkth Idle (t_ops th) own (res_of a :: t_res th).
Definition fin_ev (t : nat) (a : act) : list event := [ERes t (res_of a); ELin t a].

Local Open Scope Z_scope.

(* [uc] = the CAS of pop compares the counter (true in the code; false is the
   ABA-prone variant used for the refutation example) *)
Definition step (uc : bool) (c : cfg) (t : nat) : cfg :=
  match nth_error (thr c) t with
  | None => c
  | Some th =>
    let goto p evs := {| nxt := nxt c; hcnt := hcnt c; hitem := hitem c;
                         thr := upd (thr c) t (mkth p (t_ops th) (t_own th) (t_res th));
                         hist := evs ++ hist c |} in
    match t_pc th with
    | Idle =>
      match t_ops th with
      | [] => c
      | o :: ops =>
        let th0 := mkth Idle ops (t_own th) (t_res th) in
        let whole a := {| nxt := nxt c; hcnt := hcnt c; hitem := hitem c;
                          thr := upd (thr c) t (fin th0 (t_own th) a);
                          hist := fin_ev t a ++ EInv t o :: hist c |} in
        let start xs own' :=
                    {| nxt := link (nxt c) xs (hitem c); hcnt := hcnt c; hitem := hitem c;
                       thr := upd (thr c) t (mkth (PCas xs (hitem c)) ops own' (t_res th));
                       hist := EInv t o :: hist c |} in
        let rd try := {| nxt := nxt c; hcnt := hcnt c; hitem := hitem c;
                       thr := upd (thr c) t (mkth (PopRd try (hcnt c)) ops (t_own th) (t_res th));
                       hist := EInv t o :: hist c |} in
        match o with
        | OPush j => match pick j (t_own th) with
                     | None => whole (APush [])                 (* nothing to push *)
                     | Some (x, own') => start [x] own'
                     end
        | OChain n => match firstn n (t_own th) with
                      | [] => whole (APush [])
                      | xs => start xs (skipn n (t_own th))
                      end
        | OPop => rd false
        | OTryPop => rd true
        | OEmpty => whole (AEmpty (is_none (hitem c)))
        end
      end
    | PWr xs =>                                   (* next = head.item; tail->list_next = next *)
        {| nxt := set (nxt c) (last xs O) (hitem c); hcnt := hcnt c; hitem := hitem c;
           thr := upd (thr c) t (mkth (PCas xs (hitem c)) (t_ops th) (t_own th) (t_res th));
           hist := hist c |}
    | PCas xs h =>                                (* parsec_atomic_cas_ptr(&head.item, next, ring) *)
      if opt_eqb (hitem c) h
      then {| nxt := nxt c; hcnt := hcnt c; hitem := hd_error xs;
              thr := upd (thr c) t (mkth (PRet (APush xs)) (t_ops th) (t_own th) (t_res th));
              hist := ELin t (APush xs) :: hist c |}
      else goto (PWr xs) []
    | PopRd try k =>                              (* item = head.item; NULL ? ; item->list_next *)
      match hitem c with
      | None => {| nxt := nxt c; hcnt := hcnt c; hitem := hitem c;
                   thr := upd (thr c) t (fin th (t_own th) (APop None));
                   hist := fin_ev t (APop None) ++ hist c |}
      | Some it => goto (PopCas try k it (nxt c it)) []
      end
    | PopCas try k it nx =>                       (* parsec_atomic_cas_int128 on (counter, item) *)
      if (if uc then k =? hcnt c else true) && opt_eqb (hitem c) (Some it)
      then {| nxt := nxt c; hcnt := k + 1; hitem := nx;
              thr := upd (thr c) t (mkth (PRet (APop (Some it))) (t_ops th) (t_own th) (t_res th));
              hist := ELin t (APop (Some it)) :: hist c |}
      else if try then goto (PRet ATryFail) [ELin t ATryFail]
      else goto PopRetry []
    | PopRetry => goto (PopRd false (hcnt c)) []  (* old.counter = head.counter *)
    | PRet a =>                                   (* after a successful pop: item->list_next = NULL; then return *)
      match a with
      | APop (Some it) =>
           {| nxt := set (nxt c) it None; hcnt := hcnt c; hitem := hitem c;
              thr := upd (thr c) t (fin th (it :: t_own th) a);
              hist := ERes t (res_of a) :: hist c |}
      | _ => {| nxt := nxt c; hcnt := hcnt c; hitem := hitem c;
                thr := upd (thr c) t (fin th (t_own th) a);
                hist := ERes t (res_of a) :: hist c |}
      end
    end
  end.

Definition run (uc : bool) (c : cfg) (sched : list nat) : cfg := fold_left (step uc) sched c.

(* ---- nolock variants (used on a quiescent LIFO: initial contents, final drain) ---- *)
Definition nl_chain (st : (item -> option item) * option item) (xs : list item) :=
  match xs with
  | [] => st
  | x :: _ => (link (fst st) xs (snd st), Some x)      (* tail->list_next = head.item; head.item = items *)
  end.
Definition nl_push st (x : item) := nl_chain st [x].    (* item->list_next = head.item; head.item = item *)
(* repeated parsec_lifo_nolock_pop while !parsec_lifo_nolock_is_empty *)
Fixpoint walk (fuel : nat) (f : item -> option item) (o : option item) : list item :=
  match fuel with
  | O => []
  | S n => match o with None => [] | Some x => x :: walk n f (f x) end
  end.

Definition mk_thread (p : list item * list op) : thread := mkth Idle (snd p) (fst p) [].
(* initial contents s0 (top first): [chained]: one nolock_chain of the whole ring,
   otherwise one nolock_push per item, bottom first *)
Definition init (chained : bool) (s0 : list item) (ths : list (list item * list op)) : cfg :=
  let e := (fun _ : item => @None item, @None item) in
  let st := if chained then nl_chain e s0 else fold_right (fun x st => nl_push st x) e s0 in
  {| nxt := fst st; hcnt := 0; hitem := snd st; thr := map mk_thread ths; hist := [] |}.

Definition t_done (th : thread) : bool :=
  match t_pc th, t_ops th with Idle, [] => true | _, _ => false end.

(* ---- the sequential stack the history is compared with ---- *)
Definition astep (s : list item) (a : act) : option (list item) :=
  match a with
  | APush xs => Some (xs ++ s)                                       (* a ring goes on top, in order *)
  | APop r => if opt_eqb r (hd_error s) then Some (tl s) else None   (* returns the top, NULL iff empty *)
  | ATryFail => Some s                                               (* try_pop may give up: no effect *)
  | AEmpty b => if Bool.eqb b (match s with [] => true | _ => false end) then Some s else None
  end.
(* replay of a history (newest first) from the initial contents: the abstract stack
   after it, None when some linearisation event is not what a stack would do *)
Fixpoint replay (s0 : list item) (h : list event) : option (list item) :=
  match h with
  | [] => Some s0
  | ELin _ a :: h' => match replay s0 h' with Some s => astep s a | None => None end
  | _ :: h' => replay s0 h'
  end.

(* items a thread holds: its bag, the ring it is pushing, the item it has just popped *)
Definition infl (p : pc) : list item :=
  match p with PCas xs _ => xs | PWr xs => xs | PRet (APop (Some it)) => [it] | _ => [] end.
Definition held (th : thread) : list item := t_own th ++ infl (t_pc th).
Definition held_all (c : cfg) : list item := concat (map held (thr c)).
