(* Consequences of the forward simulation (LifoProofs.v) for every run from an initial
   configuration, and the history-shape invariants (every response is preceded by the
   linearisation event of the same operation, with the same value, after its invocation). *)
From PV Require Import Base.Tac Base.ListX Lifo.LifoDefs Lifo.LifoHeap Lifo.LifoProofs.
From Coq Require Import Permutation.
Local Open Scope Z_scope.

Definition all_items (s0 : list item) (ths : list (list item * list op)) : list item :=
  s0 ++ concat (map fst ths).
(* what a drain with nolock_pop returns (the fuel is any bound on the number of items) *)
Definition contents (n : nat) (c : cfg) : list item := walk (S n) (nxt c) (hitem c).

(* ---- the initial configuration ---- *)
Lemma init_linked (ch : bool) s0 : NoDup s0 ->
  let e := (fun _ : item => @None item, @None item) in
  let st := if ch then nl_chain e s0 else fold_right (fun x st => nl_push st x) e s0 in
  linked (fst st) (snd st) s0.
Proof.
  intros Hnd e st. subst st. destruct ch.
  - destruct s0 as [|x r]; [reflexivity|]. unfold nl_chain. cbn [fst snd].
    apply (seg_link _ (x :: r) None Hnd). discriminate.
  - induction s0 as [|x r IH]; [reflexivity|].
    inversion Hnd as [|? ? Hx Hr]; subst. cbn [fold_right]. unfold nl_push at 1, nl_chain.
    cbn [fst snd link]. split; [reflexivity|]. rewrite set_same.
    apply (seg_ext (fst (fold_right (fun x st => nl_push st x) e r))); [|now apply IH].
    intros y Hy. apply set_other. intros ->. contradiction.
Qed.

Lemma held_all_init (ths : list (list item * list op)) :
  concat (map held (map mk_thread ths)) = concat (map fst ths).
Proof.
  induction ths as [|p r IH]; [reflexivity|]. cbn [map concat]. rewrite IH.
  unfold held, mk_thread, mkth. cbn. now rewrite app_nil_r.
Qed.

Lemma init_Inv ch s0 ths : NoDup (all_items s0 ths) ->
  Inv (all_items s0 ths) s0 (init ch s0 ths) s0.
Proof.
  intros Hnd. unfold init. constructor; cbn [nxt hcnt hitem thr hist].
  - reflexivity.
  - apply init_linked. now apply NoDup_app_remove_r in Hnd.
  - unfold held_all; cbn [thr]. now rewrite held_all_init.
  - intros t th Hth. destruct (nth_error_map_inv _ _ _ _ Hth) as (p & _ & <-). exact I.
Qed.

Lemma reach_Inv ch s0 ths sched : NoDup (all_items s0 ths) ->
  exists s, Inv (all_items s0 ths) s0 (run true (init ch s0 ths) sched) s.
Proof. intros Hnd. exact (run_Inv _ _ Hnd sched _ _ (init_Inv ch s0 ths Hnd)). Qed.

Lemma Inv_contents all0 s0 c s : NoDup all0 -> Inv all0 s0 c s -> contents (length all0) c = s.
Proof.
  intros Hnd HI. unfold contents. apply linked_walk; [exact (I_linked _ _ _ _ HI)|].
  pose proof (Permutation_length (I_perm _ _ _ _ HI)) as Hl. rewrite app_length in Hl. lia.
Qed.

(* ---- linearizability: the LP log is a stack history ending in the concrete contents ---- *)
Theorem lifo_linearizable ch s0 ths sched : NoDup (all_items s0 ths) ->
  let c := run true (init ch s0 ths) sched in
  replay s0 (hist c) = Some (contents (length (all_items s0 ths)) c).
Proof.
  intros Hnd c. destruct (reach_Inv ch s0 ths sched Hnd) as [s HI]. fold c in HI.
  rewrite (Inv_contents _ _ _ _ Hnd HI). exact (I_replay _ _ _ _ HI).
Qed.

Theorem lifo_conservation ch s0 ths sched : NoDup (all_items s0 ths) ->
  let c := run true (init ch s0 ths) sched in
  Permutation (contents (length (all_items s0 ths)) c ++ held_all c) (all_items s0 ths) /\
  NoDup (contents (length (all_items s0 ths)) c ++ held_all c).
Proof.
  intros Hnd c. destruct (reach_Inv ch s0 ths sched Hnd) as [s HI]. fold c in HI.
  rewrite (Inv_contents _ _ _ _ Hnd HI). pose proof (I_perm _ _ _ _ HI) as Hp.
  split; [exact Hp|]. apply (Permutation_NoDup (l := all_items s0 ths)); [now symmetry|assumption].
Qed.

(* one more step that linearises action [a] (alone, or together with the response of the same
   operation) transforms the concrete contents as the sequential stack does *)
Theorem lifo_lp_step ch s0 ths sched t a : NoDup (all_items s0 ths) ->
  let n := length (all_items s0 ths) in
  let c := run true (init ch s0 ths) sched in
  let c' := step true c t in
  hist c' = ELin t a :: hist c \/ hist c' = fin_ev t a ++ hist c ->
  astep (contents n c) a = Some (contents n c').
Proof.
  intros Hnd n c c' Hh.
  pose proof (lifo_linearizable ch s0 ths sched Hnd) as H1.
  pose proof (lifo_linearizable ch s0 ths (sched ++ [t]) Hnd) as H2.
  cbn zeta in H1, H2. unfold run in H2. rewrite fold_left_app in H2. cbn [fold_left] in H2.
  fold (run true (init ch s0 ths) sched) in H2. fold c in H1, H2. fold c' in H2. fold n in H1, H2.
  destruct Hh as [Hh|Hh]; rewrite Hh in H2; cbn [fin_ev app replay] in H2; rewrite H1 in H2; exact H2.
Qed.

Theorem lifo_chain_keeps_order ch s0 ths sched t xs : NoDup (all_items s0 ths) ->
  let n := length (all_items s0 ths) in
  let c := run true (init ch s0 ths) sched in
  let c' := step true c t in
  hist c' = ELin t (APush xs) :: hist c ->
  contents n c' = xs ++ contents n c.
Proof.
  intros Hnd n c c' Hh. pose proof (lifo_lp_step ch s0 ths sched t _ Hnd (or_introl Hh)) as H.
  cbn [astep] in H. now inversion H.
Qed.

Theorem lifo_pop_returns_top ch s0 ths sched t r : NoDup (all_items s0 ths) ->
  let n := length (all_items s0 ths) in
  let c := run true (init ch s0 ths) sched in
  let c' := step true c t in
  hist c' = ELin t (APop r) :: hist c \/ hist c' = fin_ev t (APop r) ++ hist c ->
  r = hd_error (contents n c) /\ contents n c' = tl (contents n c).
Proof.
  intros Hnd n c c' Hh. pose proof (lifo_lp_step ch s0 ths sched t _ Hnd Hh) as H.
  subst c' c n. cbn [astep] in H. destruct (opt_eqb r (hd_error (contents _ _))) eqn:E; [|discriminate].
  apply opt_eqb_eq in E. split; [assumption|]. now inversion H.
Qed.

(* ---- shape of one step, as far as events and results go ---- *)
Definition running (p : pc) : Prop := match p with Idle | PRet _ => False | _ => True end.
Inductive shape (t : nat) (th th' : thread) : list event -> Prop :=
  | S_start o : t_pc th = Idle -> running (t_pc th') -> t_res th' = t_res th -> shape t th th' [EInv t o]
  | S_inner : running (t_pc th) -> running (t_pc th') -> t_res th' = t_res th -> shape t th th' []
  | S_lin a : running (t_pc th) -> t_pc th' = PRet a -> t_res th' = t_res th -> shape t th th' [ELin t a]
  | S_ret a : t_pc th = PRet a -> t_pc th' = Idle -> t_res th' = res_of a :: t_res th ->
              shape t th th' [ERes t (res_of a)]
  | S_fin a : running (t_pc th) -> t_pc th' = Idle -> t_res th' = res_of a :: t_res th ->
              shape t th th' (fin_ev t a)
  | S_whole o a : t_pc th = Idle -> t_pc th' = Idle -> t_res th' = res_of a :: t_res th ->
              shape t th th' (fin_ev t a ++ [EInv t o]).

Lemma step_shape uc c t :
  step uc c t = c \/
  exists th th' evs, nth_error (thr c) t = Some th /\ thr (step uc c t) = upd (thr c) t th' /\
                     hist (step uc c t) = evs ++ hist c /\ shape t th th' evs.
Proof.
  unfold step. destruct (nth_error (thr c) t) as [th|] eqn:Hth; [|now left]. cbn zeta.
  destruct (t_pc th) as [|xs|xs h|try k|try k it nx| |a] eqn:Epc.
  - destruct (t_ops th) as [|o ops] eqn:Eops; [now left|]. right. exists th.
    destruct o as [j|n| | |].
    + destruct (pick j (t_own th)) as [[x own']|].
      * eexists _, [EInv t (OPush j)]. repeat split. apply S_start; cbn; auto.
      * eexists _, (fin_ev t (APush []) ++ [EInv t (OPush j)]). repeat split. now apply S_whole.
    + destruct (firstn n (t_own th)) as [|x r].
      * eexists _, (fin_ev t (APush []) ++ [EInv t (OChain n)]). repeat split. now apply S_whole.
      * eexists _, [EInv t (OChain n)]. repeat split. apply S_start; cbn; auto.
    + eexists _, [EInv t OPop]. repeat split. apply S_start; cbn; auto.
    + eexists _, [EInv t OTryPop]. repeat split. apply S_start; cbn; auto.
    + eexists _, (fin_ev t (AEmpty (is_none (hitem c))) ++ [EInv t OEmpty]). repeat split. now apply S_whole.
  - right. exists th. eexists _, []. repeat split. apply S_inner; rewrite ?Epc; cbn; auto.
  - right. exists th. destruct (opt_eqb (hitem c) h).
    + eexists _, [ELin t (APush xs)]. repeat split. apply (S_lin _ _ _ (APush xs)); rewrite ?Epc; cbn; auto.
    + eexists _, []. repeat split. apply S_inner; rewrite ?Epc; cbn; auto.
  - right. exists th. destruct (hitem c) as [it|].
    + eexists _, []. repeat split. apply S_inner; rewrite ?Epc; cbn; auto.
    + eexists _, (fin_ev t (APop None)). repeat split. apply S_fin; rewrite ?Epc; cbn; auto.
  - right. exists th. destruct ((if uc then k =? hcnt c else true) && opt_eqb (hitem c) (Some it)).
    + eexists _, [ELin t (APop (Some it))]. repeat split.
      apply (S_lin _ _ _ (APop (Some it))); rewrite ?Epc; cbn; auto.
    + destruct try.
      * eexists _, [ELin t ATryFail]. repeat split. apply (S_lin _ _ _ ATryFail); rewrite ?Epc; cbn; auto.
      * eexists _, []. repeat split. apply S_inner; rewrite ?Epc; cbn; auto.
  - right. exists th. eexists _, []. repeat split. apply S_inner; rewrite ?Epc; cbn; auto.
  - right. exists th. destruct a as [xs|[it|]| |b];
      (eexists _, [ERes t _]; repeat split; apply S_ret; rewrite ?Epc; cbn; auto).
Qed.

(* ---- per-thread projection of the history ---- *)
Definition ev_tid (e : event) : nat :=
  match e with EInv t _ => t | ELin t _ => t | ERes t _ => t end.
Definition proj (t : nat) (h : list event) : list event := filter (fun e => Nat.eqb (ev_tid e) t) h.
(* the values returned at the linearisation points of thread t, newest first *)
Fixpoint lin_res (t : nat) (h : list event) : list res :=
  match h with
  | [] => []
  | ELin u a :: h' => if Nat.eqb u t then res_of a :: lin_res t h' else lin_res t h'
  | _ :: h' => lin_res t h'
  end.
(* newest first: complete operations are triples response / linearisation point / invocation *)
Fixpoint triples (l : list event) : Prop :=
  match l with
  | [] => True
  | ERes _ r :: ELin _ a :: EInv _ _ :: l' => r = res_of a /\ triples l'
  | _ => False
  end.
(* ... possibly below one operation in progress, before or after its linearisation point *)
Definition thread_hist_ok (l : list event) : Prop :=
  triples l \/
  (exists t o l', l = EInv t o :: l' /\ triples l') \/
  (exists t a o l', l = ELin t a :: EInv t o :: l' /\ triples l').
(* value of a linearisation point whose response is still to come *)
Definition pending (p : pc) : list res := match p with PRet a => [res_of a] | _ => [] end.

Lemma shape_tid t th th' evs : shape t th th' evs -> forall e, In e evs -> ev_tid e = t.
Proof.
  intros H e He. destruct H; cbn in He; intuition (subst; reflexivity).
Qed.
Lemma proj_own t evs : (forall e, In e evs -> ev_tid e = t) -> proj t evs = evs.
Proof.
  induction evs as [|e r IH]; intros H; [reflexivity|]. cbn [proj filter].
  rewrite (H e) by now left. rewrite Nat.eqb_refl. f_equal. apply IH. intros; apply H. now right.
Qed.
Lemma proj_other t u evs : u <> t -> (forall e, In e evs -> ev_tid e = t) -> proj u evs = [].
Proof.
  intros Hne. induction evs as [|e r IH]; intros H; [reflexivity|]. cbn [proj filter].
  rewrite (H e) by now left. apply Nat.eqb_neq in Hne. rewrite Nat.eqb_sym in Hne. rewrite Hne.
  apply IH. intros; apply H. now right.
Qed.
Lemma lin_res_app t a b : lin_res t (a ++ b) = lin_res t a ++ lin_res t b.
Proof.
  induction a as [|e r IH]; [reflexivity|]. cbn [app lin_res]. destruct e as [u o|u x|u x]; try assumption.
  destruct (Nat.eqb u t); [cbn; now f_equal|assumption].
Qed.
Lemma lin_res_other t u evs : u <> t -> (forall e, In e evs -> ev_tid e = t) -> lin_res u evs = [].
Proof.
  intros Hne. induction evs as [|e r IH]; intros H; [reflexivity|].
  assert (He : ev_tid e = t) by (apply H; now left).
  assert (Hr : lin_res u r = []) by (apply IH; intros; apply H; now right).
  destruct e as [v o|v x|v x]; cbn in *; try assumption.
  subst v. apply Nat.eqb_neq in Hne. rewrite Nat.eqb_sym in Hne. now rewrite Hne.
Qed.

(* invariant on histories and results, for every thread *)
Definition th_hist_inv (t : nat) (th : thread) (h : list event) : Prop :=
  lin_res t h = pending (t_pc th) ++ t_res th /\
  match t_pc th with
  | Idle => triples (proj t h)
  | PRet a => exists o l', proj t h = ELin t a :: EInv t o :: l' /\ triples l'
  | _ => exists o l', proj t h = EInv t o :: l' /\ triples l'
  end.
Definition HistInv (c : cfg) : Prop :=
  (forall t th, nth_error (thr c) t = Some th -> th_hist_inv t th (hist c)) /\
  (forall t, nth_error (thr c) t = None -> proj t (hist c) = []).

Lemma running_inv t th h : running (t_pc th) -> th_hist_inv t th h ->
  lin_res t h = t_res th /\ exists o l', proj t h = EInv t o :: l' /\ triples l'.
Proof. unfold th_hist_inv. destruct (t_pc th); cbn; intros R [H1 H2]; try contradiction; now split. Qed.
Lemma running_intro t th h : running (t_pc th) ->
  lin_res t h = t_res th -> (exists o l', proj t h = EInv t o :: l' /\ triples l') -> th_hist_inv t th h.
Proof. unfold th_hist_inv. destruct (t_pc th); cbn; intros R H1 H2; try contradiction; now split. Qed.

Lemma step_HistInv uc c t : HistInv c -> HistInv (step uc c t).
Proof.
  intros [H1 H2]. destruct (step_shape uc c t) as [->|(th & th' & evs & Hth & Ethr & Ehist & Hsh)];
    [now split|].
  pose proof (shape_tid _ _ _ _ Hsh) as Htid.
  split.
  - intros u thu Hu. rewrite Ethr in Hu. rewrite Ehist.
    destruct (Nat.eq_dec u t) as [->|Hne].
    + rewrite (nth_upd_same _ _ _ _ Hth) in Hu. inversion Hu; subst thu. clear Hu.
      pose proof (H1 _ _ Hth) as Hi.
      assert (Hpj : proj t (evs ++ hist c) = evs ++ proj t (hist c)).
      { unfold proj. rewrite filter_app. fold (proj t evs) (proj t (hist c)). now rewrite (proj_own _ _ Htid). }
      destruct Hsh as [o Hp Hp' Hres|Hp Hp' Hres|a Hp Hp' Hres|a Hp Hp' Hres|a Hp Hp' Hres|o a Hp Hp' Hres].
      * unfold th_hist_inv in Hi. rewrite Hp in Hi. cbn in Hi. destruct Hi as [Hl Ht].
        apply running_intro; [assumption|rewrite lin_res_app; cbn; congruence|].
        rewrite Hpj. exists o, (proj t (hist c)). now split.
      * destruct (running_inv _ _ _ Hp Hi) as [Hl Ht].
        apply running_intro; [assumption|cbn; congruence|exact Ht].
      * destruct (running_inv _ _ _ Hp Hi) as [Hl (o & l' & El & Ht)].
        unfold th_hist_inv. rewrite Hp', Hpj, lin_res_app. cbn. rewrite Nat.eqb_refl.
        split; [cbn; congruence|]. exists o, l'. rewrite El. now split.
      * unfold th_hist_inv in Hi. rewrite Hp in Hi. cbn in Hi. destruct Hi as [Hl (o & l' & El & Ht)].
        unfold th_hist_inv. rewrite Hp', Hpj, lin_res_app. cbn. split; [congruence|].
        rewrite El. now split.
      * destruct (running_inv _ _ _ Hp Hi) as [Hl (o & l' & El & Ht)].
        unfold th_hist_inv. rewrite Hp', Hpj, lin_res_app. cbn. rewrite Nat.eqb_refl.
        split; [cbn; congruence|]. rewrite El. now split.
      * unfold th_hist_inv in Hi. rewrite Hp in Hi. cbn in Hi. destruct Hi as [Hl Ht].
        unfold th_hist_inv. rewrite Hp', Hpj, lin_res_app. cbn. rewrite Nat.eqb_refl.
        split; [cbn; congruence|]. now split.
    + rewrite (nth_upd_other _ _ _ _ _ Hth Hne) in Hu.
      pose proof (H1 _ _ Hu) as Hi. unfold th_hist_inv in *.
      unfold proj. rewrite filter_app. fold (proj u evs) (proj u (hist c)).
      rewrite (proj_other _ _ _ Hne Htid), lin_res_app, (lin_res_other _ _ _ Hne Htid). cbn [app].
      exact Hi.
  - intros u Hu. rewrite Ethr in Hu. rewrite Ehist.
    assert (Hne : u <> t).
    { intros ->. rewrite (nth_upd_same _ _ _ _ Hth) in Hu. discriminate. }
    rewrite (nth_upd_other _ _ _ _ _ Hth Hne) in Hu.
    unfold proj. rewrite filter_app. fold (proj u evs) (proj u (hist c)).
    rewrite (proj_other _ _ _ Hne Htid). cbn [app]. now apply H2.
Qed.

Lemma init_HistInv ch s0 ths : HistInv (init ch s0 ths).
Proof.
  split.
  - intros t th Hth. cbn [init thr] in Hth. destruct (nth_error_map_inv _ _ _ _ Hth) as (p & _ & <-).
    cbn. split; [reflexivity|exact I].
  - reflexivity.
Qed.

Lemma run_HistInv uc sched : forall c, HistInv c -> HistInv (run uc c sched).
Proof. intros c. apply fold_left_inv. intros a b. apply step_HistInv. Qed.

Theorem lifo_results ch s0 ths sched t th :
  let c := run true (init ch s0 ths) sched in
  nth_error (thr c) t = Some th -> lin_res t (hist c) = pending (t_pc th) ++ t_res th.
Proof.
  intros c Hth. destruct (run_HistInv true sched _ (init_HistInv ch s0 ths)) as [H1 _].
  now destruct (H1 _ _ Hth).
Qed.

Theorem lifo_lp_within ch s0 ths sched t :
  thread_hist_ok (proj t (hist (run true (init ch s0 ths) sched))).
Proof.
  destruct (run_HistInv true sched _ (init_HistInv ch s0 ths)) as [H1 H2].
  destruct (nth_error (thr (run true (init ch s0 ths) sched)) t) as [th|] eqn:Hth.
  - destruct (H1 _ _ Hth) as [_ Hi]. unfold thread_hist_ok.
    destruct (t_pc th); try (right; left; destruct Hi as (o & l' & E & Hl); now exists t, o, l').
    + now left.
    + right. right. destruct Hi as (o & l' & E & Hl). now exists t, a, o, l'.
  - left. rewrite (H2 _ Hth). exact I.
Qed.

(* ---- the ABA counter counts successful pops: it is bounded by the number of steps ---- *)
Lemma step_counter c t : hcnt c <= hcnt (step true c t) <= hcnt c + 1.
Proof.
  unfold step. destruct (nth_error (thr c) t) as [th|]; [|lia]. cbn zeta.
  destruct (t_pc th) as [|xs|xs h|try k|try k it nx| |a].
  - destruct (t_ops th) as [|o ops]; [lia|]. destruct o as [j|n| | |]; cbn [hcnt]; try lia.
    + destruct (pick j (t_own th)) as [[x own']|]; cbn [hcnt]; lia.
    + destruct (firstn n (t_own th)); cbn [hcnt]; lia.
  - cbn [hcnt]; lia.
  - destruct (opt_eqb (hitem c) h); cbn [hcnt]; lia.
  - destruct (hitem c); cbn [hcnt]; lia.
  - destruct (k =? hcnt c) eqn:E; cbn [andb].
    + apply Z.eqb_eq in E. destruct (opt_eqb (hitem c) (Some it)); [cbn [hcnt]; lia|].
      destruct try; cbn [hcnt]; lia.
    + destruct try; cbn [hcnt]; lia.
  - cbn [hcnt]; lia.
  - destruct a as [xs|[it|]| |b]; cbn [hcnt]; lia.
Qed.

Theorem lifo_counter_bound ch s0 ths sched :
  0 <= hcnt (run true (init ch s0 ths) sched) <= Z.of_nat (length sched).
Proof.
  assert (H : forall c, hcnt c <= hcnt (run true c sched) <= hcnt c + Z.of_nat (length sched)).
  { induction sched as [|t r IH]; intros c; [cbn; lia|].
    cbn [run fold_left length]. fold (run true (step true c t) r).
    pose proof (IH (step true c t)). pose proof (step_counter c t). lia. }
  specialize (H (init ch s0 ths)). cbn [init hcnt] in H. lia.
Qed.
