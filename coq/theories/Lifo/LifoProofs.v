(* Linearizability of the LIFO model by forward simulation.

   The abstract stack is the replay of the linearisation events of the history on a
   list; the invariant [Inv] relates it to the heap and the head; one step of any thread
   preserves it.  The counter is used in the [PopCas] case exactly as the code uses it:
   a pop whose counter still equals the head's counter has seen no successful pop since
   it read the item, so the item is still in the stack with the same successor. *)
From PV Require Import Base.Tac Base.ListX Lifo.LifoDefs Lifo.LifoHeap.
From Coq Require Import Permutation.
Local Open Scope Z_scope.

Lemma held_eq th : held th = t_own th ++ infl (t_pc th).
Proof. reflexivity. Qed.

(* what a thread suspended at [p] may rely on *)
Definition pc_ok (nx : item -> option item) (hc : Z) (s : list item) (p : pc) : Prop :=
  match p with
  | PWr xs => xs <> [] /\ exists h, seg nx (hd_error xs) xs h
  | PCas xs h => xs <> [] /\ seg nx (hd_error xs) xs h
  | PopRd _ k => k <= hc
  | PopCas _ k it nx' => k <= hc /\ (k = hc -> In it s /\ nx it = nx')
  | Idle | PopRetry | PRet _ => True
  end.

Lemma last_In (xs : list item) : xs <> [] -> In (last xs O) xs.
Proof.
  induction xs as [|x r IH]; [congruence|]. intros _. destruct r as [|y r']; [now left|].
  right. apply IH. discriminate.
Qed.

Section Inv.
Variable all0 : list item.
Variable s0 : list item.
Hypothesis all0_nodup : NoDup all0.

Record Inv (c : cfg) (s : list item) : Prop := {
  I_replay : replay s0 (hist c) = Some s;
  I_linked : linked (nxt c) (hitem c) s;
  I_perm : Permutation (s ++ held_all c) all0;
  I_pc : forall t th, nth_error (thr c) t = Some th -> pc_ok (nxt c) (hcnt c) s (t_pc th) }.

Lemma Inv_nodup c s t th : Inv c s -> nth_error (thr c) t = Some th -> NoDup (s ++ held th).
Proof.
  intros HI Hth. destruct (concat_split held (thr c) t th Hth) as (rest & Hp & _ & _).
  assert (Hnd : NoDup ((s ++ held th) ++ rest)).
  { apply (Permutation_NoDup (l := all0)); [|assumption].
    symmetry. rewrite <- (I_perm _ _ HI). unfold held_all. rewrite Hp. now rewrite app_assoc. }
  apply NoDup_app_remove_r in Hnd. exact Hnd.
Qed.

Lemma Inv_update c s t th nx' hc' hi' th' h' s' :
  Inv c s -> nth_error (thr c) t = Some th ->
  replay s0 h' = Some s' ->
  linked nx' hi' s' ->
  Permutation (s' ++ held th') (s ++ held th) ->
  pc_ok nx' hc' s' (t_pc th') ->
  (forall x, ~ In x (s ++ held th) -> nx' x = nxt c x) ->
  hcnt c <= hc' ->
  (hc' = hcnt c -> forall x, In x s -> In x s' /\ nx' x = nxt c x) ->
  Inv {| nxt := nx'; hcnt := hc'; hitem := hi'; thr := upd (thr c) t th'; hist := h' |} s'.
Proof.
  intros HI Hth Hrep Hlnk Hperm Hpc Hfr Hle Hsame.
  destruct (concat_split held (thr c) t th Hth) as (rest & Hp & Hp' & Hrest).
  assert (Hnd : NoDup ((s ++ held th) ++ rest)).
  { apply (Permutation_NoDup (l := all0)); [|assumption].
    symmetry. rewrite <- (I_perm _ _ HI). unfold held_all. rewrite Hp. now rewrite app_assoc. }
  constructor; cbn [nxt hcnt hitem thr hist].
  - exact Hrep.
  - exact Hlnk.
  - unfold held_all; cbn [thr]. rewrite Hp', app_assoc, Hperm.
    rewrite <- (I_perm _ _ HI). unfold held_all. rewrite Hp. now rewrite app_assoc.
  - intros u thu Hu. destruct (Nat.eq_dec u t) as [->|Hne].
    + rewrite (nth_upd_same _ _ _ _ Hth) in Hu. inversion Hu; subst. exact Hpc.
    + rewrite (nth_upd_other _ _ _ _ _ Hth Hne) in Hu.
      pose proof (I_pc _ _ HI _ _ Hu) as Hok. pose proof (Hrest _ _ Hne Hu) as Hin.
      assert (Hfr' : forall x, In x (infl (t_pc thu)) -> nx' x = nxt c x).
      { intros x Hx. apply Hfr. intros Hx'. apply (NoDup_app_disj _ _ x Hnd Hx'). apply Hin.
        rewrite held_eq. apply in_or_app. now right. }
      destruct (t_pc thu) as [|xs|xs h|try k|try k it nx| |a] eqn:Epc; cbn [pc_ok infl] in *.
      * exact I.
      * destruct Hok as [Hne' [h Hseg]]. split; [assumption|]. exists h.
        apply (seg_ext (nxt c)); assumption.
      * destruct Hok as [Hne' Hseg]. split; [assumption|].
        apply (seg_ext (nxt c)); assumption.
      * lia.
      * destruct Hok as [Hk Hok]. split; [lia|]. intros E.
        assert (E' : hc' = hcnt c) by lia. assert (E'' : k = hcnt c) by lia.
        destruct (Hok E'') as [Hit Hnx]. destruct (Hsame E' it Hit) as [Hit' Hnx'].
        split; [assumption|congruence].
      * exact I.
      * exact I.
Qed.

Lemma linked_empty_iff f o s : linked f o s ->
  is_none o = match s with [] => true | _ => false end.
Proof. destruct s as [|x r]; cbn; [intros ->|intros [-> _]]; reflexivity. Qed.

Lemma step_Inv c s t : Inv c s -> exists s', Inv (step true c t) s'.
Proof.
  intros HI. unfold step.
  destruct (nth_error (thr c) t) as [th|] eqn:Hth; [|now exists s].
  pose proof (Inv_nodup _ _ _ _ HI Hth) as Hnd.
  pose proof (I_pc _ _ HI _ _ Hth) as Hok.
  pose proof (I_replay _ _ HI) as Hrep. pose proof (I_linked _ _ HI) as Hlnk.
  rewrite held_eq in Hnd. cbn zeta.
  (* goals of Inv_update, in order: replay, linked, permutation, pc_ok, frame, counter, same-counter *)
  destruct (t_pc th) as [|xs|xs h|try k|try k it nx| |a] eqn:Epc; cbn [pc_ok infl] in *.
  - (* Idle: start the next operation *)
    destruct (t_ops th) as [|o ops] eqn:Eops; [now exists s|].
    assert (Hstart : forall xs own', xs <> [] -> Permutation (t_own th) (xs ++ own') ->
              Inv {| nxt := link (nxt c) xs (hitem c); hcnt := hcnt c; hitem := hitem c;
                thr := upd (thr c) t (mkth (PCas xs (hitem c)) ops own' (t_res th));
                hist := EInv t o :: hist c |} s).
    { intros xs own' Hne Hp.
      assert (Hnd' : NoDup (s ++ xs ++ own')).
      { apply (Permutation_NoDup (l := s ++ t_own th ++ [])); [|assumption].
        rewrite app_nil_r. now rewrite Hp. }
      assert (Hdis : forall x, In x s -> ~ In x xs).
      { intros x Hs Hx. apply (NoDup_app_disj _ _ x Hnd' Hs). apply in_or_app. now left. }
      apply (Inv_update c s t th _ _ _ _ _ s HI Hth).
      - cbn. exact Hrep.
      - apply (seg_ext (nxt c)); [|assumption]. intros x Hx. apply link_other. now apply Hdis.
      - rewrite !held_eq, Epc. cbn [t_own t_pc mkth infl]. rewrite app_nil_r, Hp.
        apply Permutation_app_head. apply Permutation_app_comm.
      - cbn [t_pc mkth pc_ok]. split; [assumption|]. apply seg_link; [|assumption].
        apply NoDup_app_remove_l in Hnd'. now apply NoDup_app_remove_r in Hnd'.
      - intros x Hx. apply link_other. intros Hx'. apply Hx. apply in_or_app. right.
        rewrite held_eq. apply in_or_app. left. rewrite Hp. apply in_or_app. now left.
      - lia.
      - intros _ x Hx. split; [assumption|]. apply link_other. now apply Hdis. }
    assert (Hrd : forall try, Inv {| nxt := nxt c; hcnt := hcnt c; hitem := hitem c;
                thr := upd (thr c) t (mkth (PopRd try (hcnt c)) ops (t_own th) (t_res th));
                hist := EInv t o :: hist c |} s).
    { intros try. apply (Inv_update c s t th _ _ _ _ _ s HI Hth).
      - cbn. exact Hrep.
      - exact Hlnk.
      - rewrite !held_eq, Epc. reflexivity.
      - cbn. lia.
      - reflexivity.
      - lia.
      - intros _ x Hx. now split. }
    assert (Hwhole : forall a, astep s a = Some s ->
              Inv {| nxt := nxt c; hcnt := hcnt c; hitem := hitem c;
                thr := upd (thr c) t (fin (mkth Idle ops (t_own th) (t_res th)) (t_own th) a);
                hist := fin_ev t a ++ EInv t o :: hist c |} s).
    { intros a Ha. apply (Inv_update c s t th _ _ _ _ _ s HI Hth).
      - cbn. now rewrite Hrep.
      - exact Hlnk.
      - rewrite !held_eq, Epc. reflexivity.
      - exact I.
      - reflexivity.
      - lia.
      - intros _ x Hx. now split. }
    exists s. destruct o as [j|n| | |].
    + destruct (pick j (t_own th)) as [[x own']|] eqn:Ep; [|now apply Hwhole].
      apply Hstart; [discriminate|]. now apply (pick_perm j).
    + destruct (firstn n (t_own th)) as [|x r] eqn:Ef; [now apply Hwhole|].
      apply Hstart; [discriminate|]. rewrite <- Ef. now rewrite firstn_skipn.
    + apply Hrd.
    + apply Hrd.
    + apply Hwhole. cbn [astep]. rewrite (linked_empty_iff _ _ _ Hlnk). now rewrite eqb_reflx.
  - (* PWr: re-read the head, rewrite tail->list_next *)
    destruct Hok as [Hne [h Hseg]].
    assert (Hndx : NoDup xs).
    { apply NoDup_app_remove_l in Hnd. now apply NoDup_app_remove_l in Hnd. }
    assert (Hdis : forall x, In x s -> ~ In x xs).
    { intros x Hs Hx. apply (NoDup_app_disj _ _ x Hnd Hs). apply in_or_app. now right. }
    exists s. pose proof (last_In xs Hne) as Hl.
    apply (Inv_update c s t th _ _ _ _ _ s HI Hth).
    + exact Hrep.
    + apply (seg_ext (nxt c)); [|assumption]. intros x Hx. apply set_other.
      intros ->. now apply (Hdis _ Hx).
    + rewrite !held_eq, Epc. reflexivity.
    + cbn [t_pc mkth pc_ok]. split; [assumption|]. now apply (seg_set_last _ _ h).
    + intros x Hx. apply set_other. intros ->. apply Hx. apply in_or_app. right.
      rewrite held_eq, Epc. apply in_or_app. now right.
    + lia.
    + intros _ x Hx. split; [assumption|]. apply set_other. intros ->. now apply (Hdis _ Hx).
  - (* PCas: the CAS of push / chain *)
    destruct Hok as [Hne Hseg].
    destruct (opt_eqb (hitem c) h) eqn:Ecas.
    + apply opt_eqb_eq in Ecas. exists (xs ++ s).
      apply (Inv_update c s t th _ _ _ _ _ (xs ++ s) HI Hth).
      * cbn. now rewrite Hrep.
      * apply (seg_app _ _ _ h); [assumption|]. now rewrite <- Ecas.
      * rewrite !held_eq, Epc. cbn [mkth t_own t_pc infl]. rewrite app_nil_r.
        rewrite <- app_assoc. etransitivity; [apply Permutation_app_comm|]. now rewrite <- app_assoc.
      * exact I.
      * reflexivity.
      * lia.
      * intros _ x Hx. split; [apply in_or_app; now right|reflexivity].
    + exists s. apply (Inv_update c s t th _ _ _ _ _ s HI Hth).
      * exact Hrep.
      * exact Hlnk.
      * rewrite !held_eq, Epc. reflexivity.
      * cbn [t_pc mkth pc_ok]. split; [assumption|]. now exists h.
      * reflexivity.
      * lia.
      * intros _ x Hx. now split.
  - (* PopRd: read of the item pointer (and of its successor) *)
    destruct (hitem c) as [it|] eqn:Ehd; rewrite ?Ehd in Hlnk.
    + exists s. apply (Inv_update c s t th _ _ _ _ _ s HI Hth).
      * exact Hrep.
      * exact Hlnk.
      * rewrite !held_eq, Epc. reflexivity.
      * cbn [t_pc mkth pc_ok]. split; [assumption|]. intros _. split; [|reflexivity].
        destruct s as [|x r]; cbn in Hlnk; [discriminate|]. destruct Hlnk as [E _].
        inversion E. now left.
      * reflexivity.
      * lia.
      * intros _ x Hx. now split.
    + exists s. assert (Es : s = []).
      { destruct s as [|x r]; [reflexivity|]. cbn in Hlnk. destruct Hlnk as [E _]. discriminate. }
      apply (Inv_update c s t th _ _ _ _ _ s HI Hth).
      * cbn. rewrite Hrep, Es. reflexivity.
      * exact Hlnk.
      * rewrite !held_eq, Epc. reflexivity.
      * exact I.
      * reflexivity.
      * lia.
      * intros _ x Hx. now split.
  - (* PopCas: the 128-bit CAS; the counter decides *)
    destruct Hok as [Hk Hok].
    destruct ((k =? hcnt c) && opt_eqb (hitem c) (Some it)) eqn:Ecas.
    + apply andb_true_iff in Ecas. destruct Ecas as [Ek Ehd].
      apply Z.eqb_eq in Ek. apply opt_eqb_eq in Ehd.
      destruct (Hok Ek) as [_ Hnx].
      destruct s as [|x r]; cbn in Hlnk; [congruence|]. destruct Hlnk as [E Hlnk].
      assert (x = it) by congruence. subst x.
      exists r. apply (Inv_update c (it :: r) t th _ _ _ _ _ r HI Hth).
      * cbn. rewrite Hrep. cbn. now rewrite Nat.eqb_refl.
      * now rewrite <- Hnx.
      * rewrite !held_eq, Epc. cbn [mkth t_own t_pc infl]. rewrite !app_nil_r.
        rewrite app_assoc. etransitivity; [apply Permutation_app_comm|]. reflexivity.
      * exact I.
      * reflexivity.
      * lia.
      * intros E'. lia.
    + destruct try.
      * exists s. apply (Inv_update c s t th _ _ _ _ _ s HI Hth).
        -- cbn. now rewrite Hrep.
        -- exact Hlnk.
        -- rewrite !held_eq, Epc. reflexivity.
        -- exact I.
        -- reflexivity.
        -- lia.
        -- intros _ x Hx. now split.
      * exists s. apply (Inv_update c s t th _ _ _ _ _ s HI Hth).
        -- exact Hrep.
        -- exact Hlnk.
        -- rewrite !held_eq, Epc. reflexivity.
        -- exact I.
        -- reflexivity.
        -- lia.
        -- intros _ x Hx. now split.
  - (* PopRetry: re-read the counter *)
    exists s. apply (Inv_update c s t th _ _ _ _ _ s HI Hth).
    + exact Hrep.
    + exact Hlnk.
    + rewrite !held_eq, Epc. reflexivity.
    + cbn. lia.
    + reflexivity.
    + lia.
    + intros _ x Hx. now split.
  - (* PRet: item->list_next = NULL after a pop; return *)
    assert (Hplain : infl (PRet a) = [] ->
              Inv {| nxt := nxt c; hcnt := hcnt c; hitem := hitem c;
                thr := upd (thr c) t (fin th (t_own th) a);
                hist := ERes t (res_of a) :: hist c |} s).
    { intros Ei. apply (Inv_update c s t th _ _ _ _ _ s HI Hth).
      - exact Hrep.
      - exact Hlnk.
      - rewrite !held_eq, Epc, Ei. reflexivity.
      - exact I.
      - reflexivity.
      - lia.
      - intros _ x Hx. now split. }
    exists s. destruct a as [xs|[it|]| |b]; try (apply Hplain; reflexivity).
    cbn [infl] in Hnd.
    assert (Hit : ~ In it s).
    { intros Hs. apply (NoDup_app_disj _ _ it Hnd Hs). apply in_or_app. right. now left. }
    apply (Inv_update c s t th _ _ _ _ _ s HI Hth).
    + exact Hrep.
    + apply (seg_ext (nxt c)); [|assumption]. intros x Hx. apply set_other. intros ->. contradiction.
    + rewrite !held_eq, Epc. cbn [fin mkth t_own t_pc infl]. rewrite app_nil_r.
      apply Permutation_app_head. apply Permutation_cons_append.
    + exact I.
    + intros x Hx. apply set_other. intros ->. apply Hx. apply in_or_app. right.
      rewrite held_eq, Epc. apply in_or_app. right. now left.
    + lia.
    + intros _ x Hx. split; [assumption|]. apply set_other. intros ->. contradiction.
Qed.

Lemma run_Inv sched : forall c s, Inv c s -> exists s', Inv (run true c sched) s'.
Proof.
  induction sched as [|t r IH]; intros c s HI; [now exists s|].
  cbn [run fold_left]. destruct (step_Inv c s t HI) as [s1 H1]. exact (IH _ _ H1).
Qed.
End Inv.
