(* Heap lemmas for the LIFO model: list segments in [nxt], the writes of push/chain,
   the per-thread decomposition of the items held by threads. *)
From PV Require Import Base.Tac Base.ListX Lifo.LifoDefs.
From Coq Require Import Permutation.

(* ---- small facts on the executable helpers ---- *)
Lemma opt_eqb_eq a b : opt_eqb a b = true <-> a = b.
Proof.
  destruct a as [x|], b as [y|]; cbn; split; intros H; try congruence; try discriminate.
  - apply Nat.eqb_eq in H. congruence.
  - inversion H. apply Nat.eqb_refl.
Qed.
Lemma opt_eqb_refl a : opt_eqb a a = true.
Proof. now apply opt_eqb_eq. Qed.

Lemma set_same f x v : set f x v x = v.
Proof. unfold set. now rewrite Nat.eqb_refl. Qed.
Lemma set_other f x v y : y <> x -> set f x v y = f y.
Proof. intros H. unfold set. apply Nat.eqb_neq in H. now rewrite H. Qed.

Lemma link_other f xs h y : ~ In y xs -> link f xs h y = f y.
Proof.
  revert f. induction xs as [|x r IH]; intros f Hy; cbn [link]; [reflexivity|].
  rewrite IH by (intros ?; apply Hy; now right).
  apply set_other. intros ->. apply Hy. now left.
Qed.

(* ---- segments: o -> x1 -> ... -> xm -> h ---- *)
Fixpoint seg (f : item -> option item) (o : option item) (l : list item) (h : option item) : Prop :=
  match l with
  | [] => o = h
  | x :: r => o = Some x /\ seg f (f x) r h
  end.
Definition linked f o l := seg f o l None.

Lemma seg_ext f g o l h : (forall x, In x l -> g x = f x) -> seg f o l h -> seg g o l h.
Proof.
  revert o. induction l as [|x r IH]; intros o He Hs; cbn [seg] in *; [assumption|].
  destruct Hs as [-> Hs]. split; [reflexivity|].
  rewrite He by now left. apply IH; [|assumption]. intros y Hy. apply He. now right.
Qed.

Lemma seg_app f o a m b h : seg f o a m -> seg f m b h -> seg f o (a ++ b) h.
Proof.
  revert o. induction a as [|x r IH]; intros o Ha Hb; cbn [seg app] in *.
  - now subst.
  - destruct Ha as [-> Ha]. split; [reflexivity|]. now apply IH.
Qed.

Lemma seg_link f xs h : NoDup xs -> xs <> [] -> seg (link f xs h) (hd_error xs) xs h.
Proof.
  revert f. induction xs as [|x r IH]; intros f Hnd Hne; [congruence|].
  inversion Hnd as [|? ? Hx Hr]; subst. cbn [hd_error seg link]. split; [reflexivity|].
  rewrite link_other by assumption. rewrite set_same.
  destruct r as [|y r']; [cbn; reflexivity|].
  apply (IH (set f x (Some y))); [assumption|discriminate].
Qed.

Lemma seg_set_last f xs h h' : NoDup xs -> xs <> [] ->
  seg f (hd_error xs) xs h -> seg (set f (last xs O) h') (hd_error xs) xs h'.
Proof.
  induction xs as [|x r IH]; intros Hnd Hne Hs; [congruence|].
  inversion Hnd as [|? ? Hx Hr]; subst. cbn [hd_error seg] in *. destruct Hs as [_ Hs].
  split; [reflexivity|].
  destruct r as [|y r'].
  - cbn [last seg] in *. now rewrite set_same.
  - change (last (x :: y :: r') O) with (last (y :: r') O).
    assert (Hl : In (last (y :: r') O) (y :: r')).
    { clear. revert y. induction r' as [|z r'' IH]; intros y; [now left|].
      change (last (y :: z :: r'') O) with (last (z :: r'') O). right. apply IH. }
    rewrite set_other by (intros E; apply Hx; now rewrite E).
    cbn [seg] in Hs. destruct Hs as [Hy Hs]. rewrite Hy.
    apply IH; [assumption|discriminate|]. cbn [hd_error seg]. split; [reflexivity|exact Hs].
Qed.

Lemma linked_nil f o : linked f o [] <-> o = None.
Proof. reflexivity. Qed.

Lemma linked_walk f o l fuel : linked f o l -> (length l < fuel)%nat -> walk fuel f o = l.
Proof.
  unfold linked. revert o l. induction fuel as [|n IH]; intros o l Hl Hlen; [lia|].
  destruct l as [|x r]; cbn [seg] in Hl.
  - subst. reflexivity.
  - destruct Hl as [-> Hl]. cbn [walk]. f_equal. apply IH; [assumption|cbn in Hlen; lia].
Qed.

(* ---- choosing items from the bag ---- *)
Lemma remove_nth_perm j l y : nth_error l j = Some y -> Permutation l (y :: remove_nth j l).
Proof.
  revert j. induction l as [|x r IH]; intros [|j] H; cbn in *; try discriminate.
  - inversion H. reflexivity.
  - rewrite perm_swap. constructor. now apply IH.
Qed.
Lemma pick_perm j l x l' : pick j l = Some (x, l') -> Permutation l (x :: l').
Proof.
  unfold pick. destruct (nth_error l j) as [y|] eqn:E.
  - intros H. inversion H; subst. now apply remove_nth_perm.
  - destruct l as [|z r]; intros H; inversion H; subst. reflexivity.
Qed.

(* ---- the items held by one thread inside the items held by all ---- *)
Section Split.
Context {A B : Type} (f : A -> list B).
Lemma concat_split (l : list A) t th : nth_error l t = Some th ->
  exists rest,
    Permutation (concat (map f l)) (f th ++ rest) /\
    (forall th', Permutation (concat (map f (upd l t th'))) (f th' ++ rest)) /\
    (forall u thu, u <> t -> nth_error l u = Some thu -> incl (f thu) rest).
Proof.
  intros H.
  exists (concat (map f (firstn t l)) ++ concat (map f (skipn (S t) l))).
  assert (Hl : length (firstn t l) = t).
  { apply firstn_length_le. apply Nat.lt_le_incl. apply nth_error_Some. congruence. }
  split; [|split].
  - rewrite (split_nth l t th H) at 1. rewrite map_app, concat_app. cbn [map concat].
    rewrite app_assoc. rewrite (Permutation_app_comm (concat _) (f th)). now rewrite <- app_assoc.
  - intros th'. unfold upd. rewrite map_app, concat_app. cbn [map concat].
    rewrite app_assoc. rewrite (Permutation_app_comm (concat _) (f th')). now rewrite <- app_assoc.
  - intros u thu Hne Hu x Hx. apply in_or_app.
    rewrite (split_nth l t th H) in Hu.
    destruct (Nat.lt_ge_cases u t) as [Hlt|Hge].
    + left. rewrite nth_error_app1 in Hu by lia. apply nth_error_In in Hu.
      apply in_concat. exists (f thu). split; [now apply in_map|assumption].
    + right. rewrite nth_error_app2 in Hu by lia. rewrite Hl in Hu.
      destruct (u - t)%nat as [|k] eqn:E; [lia|]. cbn in Hu. apply nth_error_In in Hu.
      apply in_concat. exists (f thu). split; [now apply in_map|assumption].
Qed.
End Split.

Lemma NoDup_app_disj {A} (a b : list A) x : NoDup (a ++ b) -> In x a -> In x b -> False.
Proof.
  induction a as [|y a IH]; intros Hnd Ha Hb; [contradiction|].
  cbn in Hnd. inversion Hnd as [|? ? Hy Hr]; subst. destruct Ha as [->|Ha].
  - apply Hy. apply in_or_app. now right.
  - now apply IH.
Qed.
Lemma NoDup_app_remove_r {A} (a b : list A) : NoDup (a ++ b) -> NoDup a.
Proof.
  induction a as [|x a IH]; intros H; [constructor|].
  cbn in H. inversion H as [|? ? Hx Hr]; subst. constructor.
  - intros Hx'. apply Hx. apply in_or_app. now left.
  - now apply IH.
Qed.
Lemma NoDup_app_remove_l {A} (a b : list A) : NoDup (a ++ b) -> NoDup b.
Proof.
  induction a as [|x a IH]; intros H; [exact H|].
  cbn in H. inversion H; subst. now apply IH.
Qed.
