(* Executable model of the PaRSEC object system
     parsec/class/parsec_object.h, parsec/class/parsec_object.c
   (a) class descriptors and parsec_class_initialize: the two loops over the
       parent chain, the single malloc'ed array that holds the constructor
       array (base first, filled from its end) and the destructor array (derived
       first), both NULL terminated; parsec_obj_run_constructors/_destructors
       scanning the arrays up to the NULL sentinel.
   (b) the reference count: PARSEC_OBJ_RETAIN / PARSEC_OBJ_RELEASE are ONE atomic
       fetch-add each (parsec_obj_update); the release that gets 0 back calls
       obj_release = parsec_obj_destruct_and_free (destructor chain, then free).
       One model step = the code between two scheduling points of the harness
       (a yield sits in front of every atomic fetch-add).
   No proofs here. *)
From Coq Require Import ZArith List Bool.
From PV Require Import Base.ListX.
Import ListNotations.

(* ------------------------------------------------------------------ *)
(* (a) classes                                                          *)

Definition fid := nat.        (* identity of a constructor / destructor function *)

(* parsec_class_t as written by PARSEC_OBJ_CLASS_INSTANCE: cls_construct,
   cls_destruct (NULL = None), cls_parent (NULL only for the root) *)
Inductive cls :=
| Base (ctor dtor : option fid)
| Derived (ctor dtor : option fid) (parent : cls).

Definition c_ctor (k : cls) := match k with Base c _ => c | Derived c _ _ => c end.
Definition c_dtor (k : cls) := match k with Base _ d => d | Derived _ d _ => d end.
Definition c_parent (k : cls) := match k with Base _ _ => None | Derived _ _ p => Some p end.

(* specification side: the non-NULL functions along the parent chain, most derived first *)
Definition opt_list {A} (o : option A) : list A := match o with Some x => [x] | None => [] end.
Fixpoint ctors_of (k : cls) : list fid :=
  opt_list (c_ctor k) ++ match k with Base _ _ => [] | Derived _ _ p => ctors_of p end.
Fixpoint dtors_of (k : cls) : list fid :=
  opt_list (c_dtor k) ++ match k with Base _ _ => [] | Derived _ _ p => dtors_of p end.
Fixpoint depth_of (k : cls) : nat :=
  match k with Base _ _ => 1 | Derived _ _ p => S (depth_of p) end.

(* first loop of parsec_class_initialize:
     for (c = cls; c; c = c->cls_parent) { if ctor count++; if dtor count++; cls->cls_depth++; } *)
Fixpoint count_loop (k : cls) (nc nd depth : nat) : nat * nat * nat :=
  let nc' := match c_ctor k with Some _ => S nc | None => nc end in
  let nd' := match c_dtor k with Some _ => S nd | None => nd end in
  match k with
  | Base _ _ => (nc', nd', S depth)
  | Derived _ _ p => count_loop p nc' nd' (S depth)
  end.

(* second loop:  c = cls; for (i = 0; i < cls->cls_depth; i++) {
       if ctor { --cls_construct_array; *cls_construct_array = ctor; }
       if dtor { *cls_destruct_array = dtor; cls_destruct_array++; }
       c = c->cls_parent; }
   [cp] / [dp] are the two running pointers as offsets into the one allocation.
   (c = None inside the loop would be a NULL dereference; it cannot happen
   because the depth was counted on the same chain.) *)
Fixpoint fill (i : nat) (c : option cls) (arr : list (option fid)) (cp dp : nat)
  : list (option fid) * nat :=
  match i with
  | O => (arr, dp)
  | S i' =>
    match c with
    | None => (arr, dp)
    | Some k =>
      let '(arr1, cp1) := match c_ctor k with
                          | Some f => (upd arr (cp - 1) (Some f), cp - 1)
                          | None => (arr, cp) end in
      let '(arr2, dp1) := match c_dtor k with
                          | Some f => (upd arr1 dp (Some f), S dp)
                          | None => (arr1, dp) end in
      fill i' (c_parent k) arr2 cp1 dp1
    end
  end.

(* the initialised part of a class descriptor *)
Record icls := { i_depth : nat;                    (* cls_depth *)
                 i_arr : list (option fid);        (* the malloc'ed block *)
                 i_coff : nat;                     (* cls_construct_array - block *)
                 i_doff : nat }.                   (* cls_destruct_array  - block *)

(* [junk i] is the (arbitrary) content of cell i of the fresh malloc'ed block *)
Definition class_initialize (junk : nat -> option fid) (k : cls) : icls :=
  let '(nc, nd, depth) := count_loop k 0 0 0 in
  let arr0 := map junk (seq 0 (nc + nd + 2)) in
  let arr1 := upd arr0 nc None in                         (* *cls_construct_array = NULL *)
  let '(arr2, dp) := fill depth (Some k) arr1 nc (nc + 1) in
  let arr3 := upd arr2 dp None in                         (* *cls_destruct_array = NULL *)
  {| i_depth := depth; i_arr := arr3; i_coff := 0; i_doff := nc + 1 |}.

(* while (NULL != p[0]) { p[0](object); p++; } : the list of functions invoked, in order *)
Fixpoint scan (l : list (option fid)) : list fid :=
  match l with
  | Some f :: r => f :: scan r
  | _ => []
  end.
Definition run_constructors (ic : icls) : list fid := scan (skipn (i_coff ic) (i_arr ic)).
Definition run_destructors (ic : icls) : list fid := scan (skipn (i_doff ic) (i_arr ic)).

(* ------------------------------------------------------------------ *)
(* (b) the reference count under an arbitrary interleaving              *)

Local Open Scope Z_scope.

(* int32_t arithmetic of parsec_atomic_fetch_add_int32(...) + inc *)
Definition wrap32 (z : Z) : Z := (z + 2147483648) mod 4294967296 - 2147483648.

Inductive op := Retain | Release.
Definition op_inc (o : op) : Z := match o with Retain => 1 | Release => -1 end.

(* a thread: whether it has reached its first scheduling point, the number of
   references it holds (ghost bookkeeping, not in the C state) and the
   operations it still has to perform *)
Record thr := { t_started : bool; t_held : Z; t_ops : list op }.

(* what the instrumented implementation logs, in order *)
Inductive ev :=
| EUpd (t : nat) (v : Z)      (* thread t's parsec_obj_update returned v *)
| EDtor (f : fid)             (* a destructor ran *)
| EFree.                      (* free(object) *)

Record ocfg := { o_rc : Z;              (* obj_reference_count *)
                 o_destroys : Z;        (* calls of obj_release (destructor chain + free) *)
                 o_late : Z;            (* atomic updates performed on the object after it was destroyed *)
                 o_trace : list ev;     (* chronological *)
                 o_thr : list thr }.

Definition thr_done (th : thr) : bool :=
  t_started th && match t_ops th with [] => true | _ => false end.

(* [dt] = the destructor sequence of the object's class *)
Definition step (dt : list fid) (c : ocfg) (t : nat) : ocfg :=
  match nth_error (o_thr c) t with
  | None => c
  | Some th =>
    if negb (t_started th)
    then (* runs up to the yield in front of its first fetch-add (or to its end) *)
      {| o_rc := o_rc c; o_destroys := o_destroys c; o_late := o_late c; o_trace := o_trace c;
         o_thr := upd (o_thr c) t {| t_started := true; t_held := t_held th; t_ops := t_ops th |} |}
    else match t_ops th with
    | [] => c
    | o :: rest =>
      let v := wrap32 (o_rc c + op_inc o) in       (* fetch_add(&rc, inc) + inc *)
      let destroy := match o with Release => v =? 0 | Retain => false end in
      {| o_rc := v;
         o_destroys := if destroy then o_destroys c + 1 else o_destroys c;
         o_late := if 0 <? o_destroys c then o_late c + 1 else o_late c;
         o_trace := o_trace c ++ EUpd t v :: (if destroy then map EDtor dt ++ [EFree] else []);
         o_thr := upd (o_thr c) t {| t_started := true; t_held := t_held th + op_inc o; t_ops := rest |} |}
    end
  end.

Definition run (dt : list fid) (c : ocfg) (sched : list nat) : ocfg := fold_left (step dt) sched c.

Definition sumf (f : thr -> Z) (l : list thr) : Z := fold_right (fun th a => f th + a) 0 l.
Definition sumz (l : list Z) : Z := fold_right Z.add 0 l.

(* PARSEC_OBJ_NEW gives the creator one reference; it retains once per further
   reference it hands out before the threads start: the count starts at the
   number of distributed references.  [ths] = (held, ops) per thread. *)
Definition mk_thr (p : Z * list op) : thr := {| t_started := false; t_held := fst p; t_ops := snd p |}.
Definition init (ths : list (Z * list op)) : ocfg :=
  {| o_rc := sumf t_held (map mk_thr ths); o_destroys := 0; o_late := 0; o_trace := [];
     o_thr := map mk_thr ths |}.

(* the reference discipline: a thread retains or releases only while it holds a reference *)
Fixpoint disc (h : Z) (ops : list op) : bool :=
  match ops with
  | [] => 0 <=? h
  | o :: r => (1 <=? h) && disc (h + op_inc o) r
  end.
Definition disciplined (ths : list (Z * list op)) : Prop :=
  Forall (fun p => disc (fst p) (snd p) = true) ths.

Definition retains (ops : list op) : Z :=
  Z.of_nat (length (filter (fun o => match o with Retain => true | Release => false end) ops)).
(* no int32 overflow: references handed out + every retain that can ever happen *)
Definition bound (ths : list (Z * list op)) : Z :=
  sumf (fun th => t_held th + retains (t_ops th)) (map mk_thr ths).

(* observations derived from the trace *)
Definition dlog (tr : list ev) : list fid :=
  flat_map (fun e => match e with EDtor f => [f] | _ => [] end) tr.
Definition zeros (tr : list ev) : Z :=
  Z.of_nat (length (filter (fun e => match e with EUpd _ 0 => true | _ => false end) tr)).
Definition is_pos_upd (e : ev) : Prop := match e with EUpd _ v => 1 <= v | _ => False end.

(* whole object life: class initialisation at the first PARSEC_OBJ_NEW, constructors,
   then the concurrent phase *)
Definition obj_life (junk : nat -> option fid) (k : cls) (ths : list (Z * list op)) (sched : list nat)
  : list fid * ocfg :=
  let ic := class_initialize junk k in
  (run_constructors ic, run (run_destructors ic) (init ths) sched).

(* ------------------------------------------------------------------ *)
(* (c) first use: several threads create an object of the SAME not yet initialised
   class at about the same time.  parsec_obj_new reads cls_initialized (plain); when 0 it
   calls parsec_class_initialize: plain test again, parsec_atomic_lock(&class_lock), the
   re-test under the lock, the two loops (model (a)), cls_initialized = 1, save_class,
   parsec_atomic_unlock.  Then obj_reference_count = 1, the constructors, and the thread's
   own retain/release list on its own object.  Scheduling points (interpose.h): in front of
   the lock acquisition (a failed attempt is a stutter step), in front of the unlock, in
   front of every fetch-add.  [recheck = false] is the code WITHOUT the re-test under the
   lock (kept for the refuted witness only). *)
Inductive fpc := FStart | FLock | FUnlock | FOps.
Inductive fev := FCtor (f : fid) | FUpd (v : Z) | FDtor (f : fid) | FFree.
Record fthr := { f_pc : fpc; f_rc : Z; f_ops : list op; f_ev : list fev }.
Record kstate := { k_init : bool;              (* cls_initialized *)
                   k_tab : option icls;        (* cls_depth, the arrays; None = NULL *)
                   k_inits : Z;                (* how many times the arrays were built (num_classes) *)
                   k_lock : bool }.            (* class_lock *)
Record fcfg := { fc_k : kstate; fc_thr : list fthr }.

Definition tab_ctors (ks : kstate) : list fid :=
  match k_tab ks with Some ic => run_constructors ic | None => [] end.
Definition tab_dtors (ks : kstate) : list fid :=
  match k_tab ks with Some ic => run_destructors ic | None => [] end.
Definition fthr_done (th : fthr) : bool :=
  match f_pc th, f_ops th with FOps, [] => true | _, _ => false end.

Definition fstep (recheck : bool) (junk : nat -> option fid) (k : cls) (c : fcfg) (t : nat) : fcfg :=
  match nth_error (fc_thr c) t with
  | None => c
  | Some th =>
    let ks := fc_k c in
    match f_pc th with
    | FStart =>                              (* malloc; if (0 == cls->cls_initialized) ... *)
      if k_init ks
      then {| fc_k := ks;
              fc_thr := upd (fc_thr c) t {| f_pc := FOps; f_rc := 1; f_ops := f_ops th;
                                            f_ev := map FCtor (tab_ctors ks) |} |}
      else {| fc_k := ks;
              fc_thr := upd (fc_thr c) t {| f_pc := FLock; f_rc := f_rc th; f_ops := f_ops th; f_ev := f_ev th |} |}
    | FLock =>                               (* one attempt to take class_lock *)
      if k_lock ks then c
      else if recheck && k_init ks
      then {| fc_k := {| k_init := k_init ks; k_tab := k_tab ks; k_inits := k_inits ks; k_lock := true |};
              fc_thr := upd (fc_thr c) t {| f_pc := FUnlock; f_rc := f_rc th; f_ops := f_ops th; f_ev := f_ev th |} |}
      else {| fc_k := {| k_init := true; k_tab := Some (class_initialize junk k);
                         k_inits := k_inits ks + 1; k_lock := true |};
              fc_thr := upd (fc_thr c) t {| f_pc := FUnlock; f_rc := f_rc th; f_ops := f_ops th; f_ev := f_ev th |} |}
    | FUnlock =>                             (* unlock; obj_reference_count = 1; constructors *)
      {| fc_k := {| k_init := k_init ks; k_tab := k_tab ks; k_inits := k_inits ks; k_lock := false |};
         fc_thr := upd (fc_thr c) t {| f_pc := FOps; f_rc := 1; f_ops := f_ops th;
                                       f_ev := map FCtor (tab_ctors ks) |} |}
    | FOps =>
      match f_ops th with
      | [] => c
      | o :: rest =>
        let v := wrap32 (f_rc th + op_inc o) in
        let destroy := match o with Release => v =? 0 | Retain => false end in
        {| fc_k := ks;
           fc_thr := upd (fc_thr c) t
             {| f_pc := FOps; f_rc := v; f_ops := rest;
                f_ev := f_ev th ++ FUpd v :: (if destroy then map FDtor (tab_dtors ks) ++ [FFree] else []) |} |}
      end
    end
  end.

Definition finit (opss : list (list op)) : fcfg :=
  {| fc_k := {| k_init := false; k_tab := None; k_inits := 0; k_lock := false |};
     fc_thr := map (fun ops => {| f_pc := FStart; f_rc := 1; f_ops := ops; f_ev := [] |}) opss |}.
Definition frun (recheck : bool) junk k (c : fcfg) (sched : list nat) : fcfg :=
  fold_left (fstep recheck junk k) sched c.

(* each thread works on its own object: one reference from PARSEC_OBJ_NEW, a disciplined
   list that releases everything, no int32 overflow *)
Definition first_use_ok (opss : list (list op)) : Prop :=
  Forall (fun ops => disc 1 ops = true /\ 1 + retains ops < 2147483648 /\
                     1 + sumz (map op_inc ops) = 0) opss.
(* what a thread's log must look like *)
Definition life_running (k : cls) (e : list fev) : Prop :=
  exists us, e = map FCtor (rev (ctors_of k)) ++ map FUpd us /\ Forall (fun v => 1 <= v) us.
Definition life_complete (k : cls) (e : list fev) : Prop :=
  exists us, e = map FCtor (rev (ctors_of k)) ++ map FUpd us ++ FUpd 0 :: map FDtor (dtors_of k) ++ [FFree]
             /\ Forall (fun v => 1 <= v) us.
Definition is_unlock (th : fthr) : bool := match f_pc th with FUnlock => true | _ => false end.
