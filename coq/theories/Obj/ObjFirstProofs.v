(* First use of a class by several threads: for ANY number of threads, ANY per-thread
   operation lists and ANY schedule the constructor / destructor arrays are built exactly
   once (and are those of one sequential parsec_class_initialize), the class lock is held by
   at most one thread, and every thread's object lives a complete life: constructors base ->
   derived, updates, the release that reads 0, destructors derived -> base, free. *)
From PV Require Import Base.Tac Base.ListX Obj.ObjDefs Obj.ObjClassProofs Obj.ObjRefProofs.
Local Open Scope Z_scope.

Definition good (th : fthr) : Prop :=
  disc (f_rc th) (f_ops th) = true /\ f_rc th + retains (f_ops th) < 2147483648 /\
  f_rc th + sumz (map op_inc (f_ops th)) = 0.

Definition tinv (k : cls) (initd : bool) (th : fthr) : Prop :=
  match f_pc th with
  | FStart | FLock => f_ev th = [] /\ f_rc th = 1 /\ good th
  | FUnlock => f_ev th = [] /\ f_rc th = 1 /\ good th /\ initd = true
  | FOps => initd = true /\
            ((good th /\ 1 <= f_rc th /\ life_running k (f_ev th)) \/
             (f_rc th = 0 /\ f_ops th = [] /\ life_complete k (f_ev th)))
  end.

Definition kinv junk k (ks : kstate) : Prop :=
  (k_init ks = false -> k_tab ks = None /\ k_inits ks = 0) /\
  (k_init ks = true -> k_tab ks = Some (class_initialize junk k) /\ k_inits ks = 1).

Definition FInv junk k (c : fcfg) : Prop :=
  kinv junk k (fc_k c) /\
  cnt is_unlock (fc_thr c) = (if k_lock (fc_k c) then 1 else 0) /\
  Forall (tinv k (k_init (fc_k c))) (fc_thr c).

Lemma tinv_mono k th b : tinv k b th -> tinv k true th.
Proof. unfold tinv. destruct (f_pc th); intuition. Qed.

Lemma kinv_tabs junk k ks : kinv junk k ks -> k_init ks = true ->
  tab_ctors ks = rev (ctors_of k) /\ tab_dtors ks = dtors_of k.
Proof.
  intros (_ & H) Hi. destruct (H Hi) as (Ht & _). unfold tab_ctors, tab_dtors. rewrite Ht.
  split; [apply ctor_order|apply dtor_order].
Qed.

Lemma finv_step junk k c t : FInv junk k c -> FInv junk k (fstep true junk k c t).
Proof.
  intros HI. pose proof HI as (HK & HM & HT). unfold fstep.
  destruct (nth_error (fc_thr c) t) as [th|] eqn:E; [|exact HI].
  pose proof (Forall_nth _ _ _ _ HT E) as Hth. unfold tinv in Hth.
  destruct (f_pc th) eqn:Epc.
  - (* FStart *)
    destruct Hth as (Hev & Hrc & Hg).
    destruct (k_init (fc_k c)) eqn:Ei.
    + destruct (kinv_tabs _ _ _ HK Ei) as (Hc & _).
      unfold FInv; cbn [fc_k fc_thr]. split; [exact HK|]. split.
      * rewrite (cnt_upd _ _ _ _ _ E). unfold is_unlock at 2 3. rewrite Epc. cbn [f_pc]. lia.
      * rewrite Ei. eapply Forall_upd; [exact E| exact HT|].
        unfold tinv; cbn [f_pc f_rc f_ops f_ev]. split; [reflexivity|]. left.
        unfold good in *; cbn [f_rc f_ops]. rewrite Hrc in Hg. split; [exact Hg|]. split; [lia|].
        exists []. rewrite Hc. cbn [map]. rewrite app_nil_r. split; [reflexivity|constructor].
    + unfold FInv; cbn [fc_k fc_thr]. split; [exact HK|]. split.
      * rewrite (cnt_upd _ _ _ _ _ E). unfold is_unlock at 2 3. rewrite Epc. cbn [f_pc]. lia.
      * rewrite Ei. eapply Forall_upd; [exact E| exact HT|].
        unfold tinv; cbn [f_pc f_rc f_ops f_ev]. unfold good in *; cbn [f_rc f_ops]. auto.
  - (* FLock *)
    destruct Hth as (Hev & Hrc & Hg).
    destruct (k_lock (fc_k c)) eqn:El; [exact HI|].
    destruct (k_init (fc_k c)) eqn:Ei; cbn [andb].
    + unfold FInv; cbn [fc_k fc_thr k_init k_tab k_inits k_lock]. split.
      { unfold kinv in *; cbn [k_init k_tab k_inits]. rewrite Ei in HK. exact HK. }
      split.
      * rewrite (cnt_upd _ _ _ _ _ E). unfold is_unlock at 2 3. rewrite Epc. cbn [f_pc]. lia.
      * eapply Forall_upd; [exact E| exact HT|].
        unfold tinv; cbn [f_pc f_rc f_ops f_ev]. unfold good in *; cbn [f_rc f_ops]. auto.
    + destruct HK as (HK0 & _). destruct (HK0 Ei) as (_ & Hz).
      unfold FInv; cbn [fc_k fc_thr k_init k_tab k_inits k_lock]. split.
      { unfold kinv; cbn [k_init k_tab k_inits]. split; [discriminate|]. intros _. split; [reflexivity|lia]. }
      split.
      * rewrite (cnt_upd _ _ _ _ _ E). unfold is_unlock at 2 3. rewrite Epc. cbn [f_pc]. lia.
      * eapply Forall_upd; [exact E| |].
        { eapply Forall_impl; [|exact HT]. intros x Hx. eapply tinv_mono; exact Hx. }
        unfold tinv; cbn [f_pc f_rc f_ops f_ev]. unfold good in *; cbn [f_rc f_ops]. auto.
  - (* FUnlock *)
    destruct Hth as (Hev & Hrc & Hg & Hi).
    destruct (kinv_tabs _ _ _ HK Hi) as (Hc & _).
    assert (Hl : k_lock (fc_k c) = true).
    { destruct (k_lock (fc_k c)); [reflexivity|].
      pose proof (cnt_pos_of_nth is_unlock _ _ _ E) as Hp. unfold is_unlock in Hp at 1. rewrite Epc in Hp.
      specialize (Hp eq_refl). lia. }
    unfold FInv; cbn [fc_k fc_thr k_init k_tab k_inits k_lock]. split.
    { unfold kinv in *; cbn [k_init k_tab k_inits]. exact HK. }
    split.
    + rewrite (cnt_upd _ _ _ _ _ E). unfold is_unlock at 2 3. rewrite Epc. cbn [f_pc]. rewrite Hl in HM. lia.
    + eapply Forall_upd; [exact E| exact HT|].
      unfold tinv; cbn [f_pc f_rc f_ops f_ev]. split; [exact Hi|]. left.
      unfold good in *; cbn [f_rc f_ops]. rewrite Hrc in Hg. split; [exact Hg|]. split; [lia|].
      exists []. unfold tab_ctors in Hc. cbn [k_tab]. unfold tab_ctors. rewrite Hc. cbn [map]. rewrite app_nil_r.
      split; [reflexivity|constructor].
  - (* FOps *)
    destruct Hth as (Hi & Hlife).
    destruct (f_ops th) as [|o rest] eqn:Eo; [exact HI|].
    destruct Hlife as [((Hd & Hb & Hbal) & H1 & (us & Hev & Hus))|(_ & Hn & _)]; [|discriminate].
    rewrite Eo in Hd, Hb, Hbal.
    apply disc_cons in Hd. destruct Hd as (_ & Hd).
    destruct (kinv_tabs _ _ _ HK Hi) as (_ & Hdt).
    pose proof (retains_nonneg rest) as Hrn. rewrite retains_cons in Hb.
    assert (Hw : wrap32 (f_rc th + op_inc o) = f_rc th + op_inc o).
    { apply wrap32_id. destruct o; cbn [op_inc]; lia. }
    rewrite Hw.
    unfold FInv; cbn [fc_k fc_thr]. split; [exact HK|]. split.
    + rewrite (cnt_upd _ _ _ _ _ E). unfold is_unlock at 2 3. rewrite Epc. cbn [f_pc]. lia.
    + eapply Forall_upd; [exact E| exact HT|].
      unfold tinv; cbn [f_pc f_rc f_ops f_ev]. split; [exact Hi|].
      cbn [map sumz fold_right] in Hbal. fold (sumz (map op_inc rest)) in Hbal.
      destruct o; cbn [op_inc] in *.
      * (* retain *)
        left. unfold good; cbn [f_rc f_ops]. split; [repeat split; [exact Hd|lia|lia]|]. split; [lia|].
        exists (us ++ [f_rc th + 1]). rewrite Hev, map_app, <- app_assoc. cbn [map app].
        split; [reflexivity|]. apply Forall_app. split; [exact Hus|]. constructor; [lia|constructor].
      * (* release *)
        destruct (f_rc th + -1 =? 0) eqn:Ez.
        -- right. assert (Hr0 : f_rc th + -1 = 0) by lia. rewrite Hr0 in *.
           apply disc_zero in Hd. subst rest. split; [reflexivity|]. split; [reflexivity|].
           exists us. rewrite Hev, Hdt, <- app_assoc. split; [reflexivity|exact Hus].
        -- left. unfold good; cbn [f_rc f_ops]. split; [repeat split; [exact Hd|lia|lia]|]. split; [lia|].
           exists (us ++ [f_rc th + -1]). rewrite Hev, map_app, <- app_assoc. cbn [map app].
           split; [reflexivity|]. apply Forall_app. split; [exact Hus|]. constructor; [lia|constructor].
Qed.

Lemma cnt_map_false {A B} (g : A -> B) (f : B -> bool) l : (forall x, f (g x) = false) -> cnt f (map g l) = 0.
Proof. intros H. induction l as [|x l IH]; [reflexivity|]. cbn [map]. rewrite cnt_cons, H, IH. reflexivity. Qed.

Lemma finv_init junk k opss : first_use_ok opss -> FInv junk k (finit opss).
Proof.
  intros Hok. unfold FInv, finit; cbn [fc_k fc_thr k_init k_lock]. split; [|split].
  - unfold kinv; cbn. split; [auto|discriminate].
  - apply cnt_map_false. reflexivity.
  - apply Forall_map. eapply Forall_impl; [|exact Hok]. intros ops (Hd & Hb & Hs).
    unfold tinv, good; cbn [f_pc f_rc f_ops f_ev]. auto.
Qed.

Lemma finv_run junk k opss sched : first_use_ok opss -> FInv junk k (frun true junk k (finit opss) sched).
Proof.
  intros Hok. unfold frun. apply fold_left_inv.
  - intros a b Ha. apply finv_step; exact Ha.
  - apply finv_init; exact Hok.
Qed.

(* ---- statements ---- *)
Theorem first_use_init_once junk k opss sched : first_use_ok opss ->
  let ks := fc_k (frun true junk k (finit opss) sched) in
  0 <= k_inits ks <= 1 /\
  (k_init ks = true -> k_tab ks = Some (class_initialize junk k) /\ k_inits ks = 1 /\
                        tab_ctors ks = rev (ctors_of k) /\ tab_dtors ks = dtors_of k) /\
  (k_init ks = false -> k_tab ks = None /\ k_inits ks = 0).
Proof.
  intros Hok ks. destruct (finv_run junk k opss sched Hok) as (HK & _ & _). fold ks in HK.
  pose proof HK as (H0 & H1). split.
  - destruct (k_init ks); [destruct (H1 eq_refl)|destruct (H0 eq_refl)]; lia.
  - split; [|exact H0]. intros Hi. destruct (H1 Hi) as (? & ?). destruct (kinv_tabs _ _ _ HK Hi). auto.
Qed.

Theorem first_use_mutex junk k opss sched : first_use_ok opss ->
  let c := frun true junk k (finit opss) sched in
  cnt is_unlock (fc_thr c) = (if k_lock (fc_k c) then 1 else 0).
Proof. intros Hok c. destruct (finv_run junk k opss sched Hok) as (_ & HM & _). exact HM. Qed.

Theorem first_use_lives junk k opss sched t th : first_use_ok opss ->
  nth_error (fc_thr (frun true junk k (finit opss) sched)) t = Some th ->
  match f_pc th with
  | FOps => (1 <= f_rc th /\ life_running k (f_ev th)) \/
            (f_rc th = 0 /\ f_ops th = [] /\ life_complete k (f_ev th))
  | _ => f_ev th = []
  end.
Proof.
  intros Hok Hn. destruct (finv_run junk k opss sched Hok) as (_ & _ & HT).
  pose proof (Forall_nth _ _ _ _ HT Hn) as H. unfold tinv in H.
  destruct (f_pc th); tauto.
Qed.

Theorem first_use_finished junk k opss sched t th : first_use_ok opss ->
  nth_error (fc_thr (frun true junk k (finit opss) sched)) t = Some th ->
  fthr_done th = true -> life_complete k (f_ev th) /\ f_rc th = 0.
Proof.
  intros Hok Hn Hdone. destruct (finv_run junk k opss sched Hok) as (_ & _ & HT).
  pose proof (Forall_nth _ _ _ _ HT Hn) as H. unfold tinv in H. unfold fthr_done in Hdone.
  destruct (f_pc th); try discriminate.
  destruct (f_ops th) eqn:Eo; [|discriminate].
  destruct H as (_ & [((_ & _ & Hbal) & H1 & _)|(? & _ & ?)]); [|auto].
  rewrite Eo in Hbal. cbn in Hbal. lia.
Qed.

(* without the re-test under the lock the arrays are built twice: the block that another
   thread's constructor / destructor chain is walking is replaced by a fresh, unfilled one *)
Lemma no_recheck_twice :
  k_inits (fc_k (frun false (fun _ => None) (Derived (Some 1%nat) (Some 1%nat) (Base None None))
                      (finit [[Release]; [Release]]) [0;1;0;0;1;1]%nat)) = 2.
Proof. vm_compute. reflexivity. Qed.
