(* The reference count: for ANY number of threads, ANY retain/release lists that obey
   the reference discipline and ANY schedule, an invariant of the atomic-step
   model gives: the count equals the number of references held and never goes
   negative; at most one release observes 0; that release is the last atomic
   update ever performed on the object; the destructor chain and free run exactly
   once, right after it; nothing touches the object afterwards. *)
From PV Require Import Base.Tac Base.ListX Obj.ObjDefs Obj.ObjClassProofs.
Local Open Scope Z_scope.

(* ---- arithmetic ---- *)
Lemma wrap32_id z : -2147483648 <= z < 2147483648 -> wrap32 z = z.
Proof. intros H. unfold wrap32. rewrite Z.mod_small; lia. Qed.

(* ---- sums over the thread list ---- *)
Lemma sumf_app f a b : sumf f (a ++ b) = sumf f a + sumf f b.
Proof. unfold sumf. induction a as [|x a IH]; cbn [app fold_right]; lia. Qed.
Lemma sumf_cons f x l : sumf f (x :: l) = f x + sumf f l.
Proof. reflexivity. Qed.

Lemma sumf_upd f l t p q : nth_error l t = Some p ->
  sumf f (upd l t q) = sumf f l - f p + f q.
Proof.
  intros H. unfold upd. rewrite (split_nth l t p H) at 3.
  rewrite !sumf_app, !sumf_cons. lia.
Qed.

Lemma sumf_le f g l : (forall x, f x <= g x) -> sumf f l <= sumf g l.
Proof. intros H. induction l as [|x l IH]; [cbn; lia|]. rewrite !sumf_cons. specialize (H x). lia. Qed.

Lemma sumf_zero_all f l : Forall (fun x => 0 <= f x) l -> sumf f l = 0 -> Forall (fun x => f x = 0) l.
Proof.
  induction 1 as [|x l Hx Hl IH]; intros Hs; [constructor|].
  rewrite sumf_cons in Hs.
  assert (0 <= sumf f l).
  { clear -Hl. induction Hl as [|y l Hy _ IH]; [cbn; lia|]. rewrite sumf_cons. lia. }
  constructor; [lia|]. apply IH. lia.
Qed.

Lemma Forall_nth {A} (P : A -> Prop) l t p : Forall P l -> nth_error l t = Some p -> P p.
Proof. intros HF Hn. rewrite Forall_forall in HF. apply HF. eapply nth_error_In; eauto. Qed.

Lemma Forall_upd {A} (P : A -> Prop) l t p q : nth_error l t = Some p ->
  Forall P l -> P q -> Forall P (upd l t q).
Proof.
  intros Hn HF Hq. unfold upd. rewrite (split_nth l t p Hn) in HF.
  apply Forall_app in HF. destruct HF as (H1 & H2). inversion H2; subst.
  apply Forall_app. split; [assumption|]. constructor; assumption.
Qed.

(* ---- the discipline ---- *)
Definition tok (th : thr) : Prop := disc (t_held th) (t_ops th) = true.
Definition pot (th : thr) : Z := t_held th + retains (t_ops th).
Definition fin (th : thr) : Z := t_held th + sumz (map op_inc (t_ops th)).

Lemma disc_held h ops : disc h ops = true -> 0 <= h.
Proof. destruct ops as [|o r]; cbn [disc]; intros H; [lia|]. apply andb_prop in H. lia. Qed.
Lemma disc_cons h o r : disc h (o :: r) = true -> 1 <= h /\ disc (h + op_inc o) r = true.
Proof. cbn [disc]. intros H. apply andb_prop in H. destruct H. split; [lia|assumption]. Qed.
Lemma disc_zero ops : disc 0 ops = true -> ops = [].
Proof. destruct ops as [|o r]; [reflexivity|]. intros H. apply disc_cons in H. lia. Qed.

Lemma retains_nonneg ops : 0 <= retains ops. Proof. unfold retains. lia. Qed.
Lemma retains_cons o r : retains (o :: r) = (match o with Retain => 1 | Release => 0 end) + retains r.
Proof. unfold retains. destruct o; cbn [filter length]; lia. Qed.

(* ---- traces ---- *)
Lemma zeros_app a b : zeros (a ++ b) = zeros a + zeros b.
Proof. unfold zeros. rewrite filter_app, app_length. lia. Qed.
Lemma dlog_app a b : dlog (a ++ b) = dlog a ++ dlog b.
Proof. unfold dlog. apply flat_map_app. Qed.
Lemma pos_zeros l : Forall is_pos_upd l -> zeros l = 0.
Proof.
  induction 1 as [|e l He _ IH]; [reflexivity|].
  change (e :: l) with ([e] ++ l). rewrite zeros_app, IH.
  destruct e as [t v| |]; cbn in He; try contradiction.
  unfold zeros. cbn [filter]. destruct v; cbn [length]; lia.
Qed.
Lemma pos_dlog l : Forall is_pos_upd l -> dlog l = [].
Proof.
  induction 1 as [|e l He _ IH]; [reflexivity|].
  change (e :: l) with ([e] ++ l). rewrite dlog_app, IH.
  destruct e as [t v| |]; cbn in He; try contradiction. reflexivity.
Qed.
Lemma dlog_dtors dt : dlog (map EDtor dt) = dt.
Proof. induction dt as [|f dt IH]; [reflexivity|]. cbn [map]. change (EDtor f :: map EDtor dt) with ([EDtor f] ++ map EDtor dt).
  rewrite dlog_app, IH. reflexivity. Qed.
Lemma zeros_dtors dt : zeros (map EDtor dt) = 0.
Proof. induction dt as [|f dt IH]; [reflexivity|]. cbn [map]. change (EDtor f :: map EDtor dt) with ([EDtor f] ++ map EDtor dt).
  rewrite zeros_app, IH. reflexivity. Qed.

(* the shape of the trace of a destroyed object *)
Definition final_trace (dt : list fid) (tr : list ev) : Prop :=
  exists pre t, tr = pre ++ EUpd t 0 :: map EDtor dt ++ [EFree] /\ Forall is_pos_upd pre.

Lemma final_zeros dt tr : final_trace dt tr -> zeros tr = 1.
Proof.
  intros (pre & t & -> & Hp). rewrite zeros_app, (pos_zeros _ Hp).
  change (EUpd t 0 :: map EDtor dt ++ [EFree]) with ([EUpd t 0] ++ map EDtor dt ++ [EFree]).
  rewrite !zeros_app, zeros_dtors. reflexivity.
Qed.
Lemma final_dlog dt tr : final_trace dt tr -> dlog tr = dt.
Proof.
  intros (pre & t & -> & Hp). rewrite dlog_app, (pos_dlog _ Hp).
  change (EUpd t 0 :: map EDtor dt ++ [EFree]) with ([EUpd t 0] ++ map EDtor dt ++ [EFree]).
  rewrite !dlog_app, dlog_dtors. cbn. apply app_nil_r.
Qed.

(* ---- the invariant ---- *)
Definition live (c : ocfg) : Prop :=
  o_destroys c = 0 /\ o_rc c = sumf t_held (o_thr c) /\ 1 <= o_rc c /\ Forall is_pos_upd (o_trace c).
Definition dead (dt : list fid) (c : ocfg) : Prop :=
  o_destroys c = 1 /\ o_rc c = 0 /\ sumf t_held (o_thr c) = 0 /\ final_trace dt (o_trace c).
Definition Inv (dt : list fid) (B : Z) (c : ocfg) : Prop :=
  Forall tok (o_thr c) /\ sumf pot (o_thr c) <= B /\ o_late c = 0 /\ (live c \/ dead dt c).

Lemma held_zero_when_dead l t th : Forall tok l -> sumf t_held l = 0 -> nth_error l t = Some th ->
  t_held th = 0 /\ t_ops th = [].
Proof.
  intros Htok Hs Hn.
  assert (Hnn : Forall (fun x => 0 <= t_held x) l).
  { eapply Forall_impl; [|exact Htok]. intros x Hx. eapply disc_held; exact Hx. }
  pose proof (Forall_nth _ _ _ _ (sumf_zero_all _ _ Hnn Hs) Hn) as Hz. cbn beta in Hz.
  split; [exact Hz|]. pose proof (Forall_nth _ _ _ _ Htok Hn) as Ht. unfold tok in Ht.
  rewrite Hz in Ht. apply disc_zero. exact Ht.
Qed.

Lemma inv_step dt B c t : B < 2147483648 -> Inv dt B c -> Inv dt B (step dt c t).
Proof.
  intros HB (Htok & Hpot & Hlate & Hld). unfold step.
  destruct (nth_error (o_thr c) t) as [th|] eqn:E; [|repeat split; assumption].
  pose proof (Forall_nth _ _ _ _ Htok E) as Hth. unfold tok in Hth.
  destruct (t_started th) eqn:Est; cbn [negb].
  2:{ (* first scheduling point: nothing shared changes *)
    set (th' := {| t_started := true; t_held := t_held th; t_ops := t_ops th |}).
    assert (Hh : sumf t_held (upd (o_thr c) t th') = sumf t_held (o_thr c))
      by (rewrite (sumf_upd _ _ _ _ _ E); cbn; lia).
    assert (Hp : sumf pot (upd (o_thr c) t th') = sumf pot (o_thr c))
      by (rewrite (sumf_upd _ _ _ _ _ E); unfold pot; cbn; lia).
    unfold Inv, live, dead; cbn [o_rc o_destroys o_late o_trace o_thr]. rewrite Hh, Hp.
    split; [|split; [assumption|split; [assumption|exact Hld]]].
    eapply Forall_upd; eauto. }
  destruct (t_ops th) as [|o rest] eqn:Eops; [repeat split; assumption|].
  apply disc_cons in Hth. destruct Hth as (Hheld & Hrest).
  destruct Hld as [(Hd & Hrc & Hrc1 & Htr)|(Hd & Hrc & Hs & Htr)].
  2:{ (* a destroyed object: nobody holds a reference, so nobody has an operation left *)
    destruct (held_zero_when_dead _ _ _ Htok Hs E) as (Hz & Ho). congruence. }
  set (th' := {| t_started := true; t_held := t_held th + op_inc o; t_ops := rest |}).
  assert (Hh : sumf t_held (upd (o_thr c) t th') = sumf t_held (o_thr c) + op_inc o)
    by (rewrite (sumf_upd _ _ _ _ _ E); cbn; lia).
  assert (Hp : sumf pot (upd (o_thr c) t th') <= sumf pot (o_thr c)).
  { rewrite (sumf_upd _ _ _ _ _ E). unfold pot, th'. cbn [t_held t_ops]. rewrite Eops, retains_cons.
    destruct o; cbn [op_inc]; lia. }
  assert (Hle : sumf t_held (upd (o_thr c) t th') <= sumf pot (upd (o_thr c) t th')).
  { apply sumf_le. intros x. unfold pot. pose proof (retains_nonneg (t_ops x)). lia. }
  assert (Htok' : Forall tok (upd (o_thr c) t th')) by (eapply Forall_upd; eauto).
  assert (Hheld_le : t_held th <= sumf t_held (o_thr c)).
  { assert (Hnn : Forall (fun x => 0 <= t_held x) (upd (o_thr c) t {| t_started := true; t_held := 0; t_ops := [] |})).
    { eapply Forall_upd; [exact E| |cbn; lia].
      eapply Forall_impl; [|exact Htok]. intros x Hx. eapply disc_held; exact Hx. }
    assert (0 <= sumf t_held (upd (o_thr c) t {| t_started := true; t_held := 0; t_ops := [] |})).
    { clear -Hnn. induction Hnn as [|y l Hy _ IH]; [cbn; lia|]. rewrite sumf_cons. lia. }
    rewrite (sumf_upd _ _ _ _ _ E) in H. cbn [t_held] in H. lia. }
  assert (Hw : wrap32 (o_rc c + op_inc o) = o_rc c + op_inc o).
  { apply wrap32_id. destruct o; cbn [op_inc] in *; lia. }
  rewrite Hw, Hd. change (0 <? 0) with false. cbv iota.
  unfold Inv, live, dead; cbn [o_rc o_destroys o_late o_trace o_thr].
  split; [exact Htok'|]. split; [lia|]. split; [exact Hlate|].
  destruct o; cbn [op_inc] in *.
  - (* retain *)
    left. rewrite app_nil_r || idtac.
    repeat split; try lia.
    apply Forall_app. split; [exact Htr|]. constructor; [cbn; lia|constructor].
  - (* release *)
    destruct (o_rc c + -1 =? 0) eqn:Ez.
    + right. repeat split; try lia.
      exists (o_trace c), t. split; [|exact Htr].
      replace (o_rc c + -1) with 0 by lia. reflexivity.
    + left. repeat split; try lia.
      apply Forall_app. split; [exact Htr|]. constructor; [cbn; lia|constructor].
Qed.

Lemma inv_init dt ths : disciplined ths -> 1 <= sumf t_held (map mk_thr ths) ->
  Inv dt (bound ths) (init ths).
Proof.
  intros Hd H1. unfold Inv, init; cbn [o_rc o_destroys o_late o_trace o_thr].
  split; [|split; [|split; [reflexivity|]]].
  - unfold disciplined in Hd. apply Forall_map. eapply Forall_impl; [|exact Hd].
    intros p Hp. unfold tok, mk_thr; cbn. exact Hp.
  - unfold bound, pot. lia.
  - left. unfold live; cbn. repeat split; try lia. constructor.
Qed.

Lemma inv_run dt ths sched : disciplined ths -> 1 <= sumf t_held (map mk_thr ths) ->
  bound ths < 2147483648 -> Inv dt (bound ths) (run dt (init ths) sched).
Proof.
  intros Hd H1 HB. unfold run. apply fold_left_inv.
  - intros a b Ha. apply inv_step; assumption.
  - apply inv_init; assumption.
Qed.

(* ---- consequences, for every reachable configuration ---- *)
Section Reach.
Variables (dt : list fid) (ths : list (Z * list op)) (sched : list nat).
Hypothesis Hdisc : disciplined ths.
Hypothesis Hone : 1 <= sumf t_held (map mk_thr ths).
Hypothesis Hbound : bound ths < 2147483648.
Let c := run dt (init ths) sched.

Lemma reach_inv : Inv dt (bound ths) c.
Proof. apply inv_run; assumption. Qed.

Theorem count_is_refs_held : o_rc c = sumf t_held (o_thr c) /\ 0 <= o_rc c.
Proof. destruct reach_inv as (_ & _ & _ & [(? & ? & ? & ?)|(? & ? & ? & ?)]); lia. Qed.

Theorem destroyed_at_most_once :
  0 <= o_destroys c <= 1 /\ zeros (o_trace c) = o_destroys c /\
  dlog (o_trace c) = (if o_destroys c =? 1 then dt else []).
Proof.
  destruct reach_inv as (_ & _ & _ & [(Hd & _ & _ & Htr)|(Hd & _ & _ & Htr)]); rewrite Hd.
  - rewrite (pos_zeros _ Htr), (pos_dlog _ Htr). cbn. repeat split; lia.
  - rewrite (final_zeros _ _ Htr), (final_dlog _ _ Htr). cbn. repeat split; lia.
Qed.

Theorem zero_is_last : o_destroys c = 1 ->
  final_trace dt (o_trace c) /\ o_rc c = 0 /\
  Forall (fun th => t_held th = 0 /\ t_ops th = []) (o_thr c).
Proof.
  intros H1. destruct reach_inv as (Htok & _ & _ & [(Hd & _)|(Hd & Hrc & Hs & Htr)]); [lia|].
  repeat split; try assumption.
  apply Forall_forall. intros th Hin. apply In_nth_error in Hin. destruct Hin as (t & Hn).
  eapply held_zero_when_dead; eauto.
Qed.

Theorem live_trace_positive : o_destroys c = 0 -> Forall is_pos_upd (o_trace c) /\ 1 <= o_rc c.
Proof. intros H0. destruct reach_inv as (_ & _ & _ & [(_ & _ & ? & ?)|(Hd & _)]); [auto|lia]. Qed.

Theorem no_touch_after_destroy : o_late c = 0.
Proof. destruct reach_inv as (_ & _ & ? & _). assumption. Qed.

Theorem destroyed_iff_no_reference_left : o_destroys c = 1 <-> sumf t_held (o_thr c) = 0.
Proof. destruct reach_inv as (_ & _ & _ & [(? & ? & ? & ?)|(? & ? & ? & ?)]); split; lia. Qed.
End Reach.

(* after the destroying release nothing ever changes again, whatever is scheduled *)
Lemma dead_step dt B c t : Inv dt B c -> o_destroys c = 1 ->
  o_trace (step dt c t) = o_trace c /\ o_rc (step dt c t) = o_rc c /\
  o_destroys (step dt c t) = 1 /\ o_late (step dt c t) = o_late c.
Proof.
  intros (Htok & _ & _ & [(Hd & _)|(Hd & Hrc & Hs & Htr)]) H1; [lia|]. unfold step.
  destruct (nth_error (o_thr c) t) as [th|] eqn:E; [|auto].
  destruct (held_zero_when_dead _ _ _ Htok Hs E) as (_ & Ho). rewrite Ho.
  destruct (t_started th); cbn [negb o_trace o_rc o_destroys o_late]; auto.
Qed.

Theorem nothing_after_destroy dt ths s1 s2 : disciplined ths ->
  1 <= sumf t_held (map mk_thr ths) -> bound ths < 2147483648 ->
  o_destroys (run dt (init ths) s1) = 1 ->
  o_trace (run dt (init ths) (s1 ++ s2)) = o_trace (run dt (init ths) s1) /\
  o_rc (run dt (init ths) (s1 ++ s2)) = 0 /\ o_destroys (run dt (init ths) (s1 ++ s2)) = 1.
Proof.
  intros Hd H1 HB Hdead. unfold run. rewrite fold_left_app.
  pose proof (inv_run dt ths s1 Hd H1 HB) as HI. unfold run in HI, Hdead.
  assert (Hrc0 : o_rc (fold_left (step dt) s1 (init ths)) = 0).
  { destruct HI as (_ & _ & _ & [(? & _)|(_ & ? & _)]); [lia|assumption]. }
  revert HI Hdead Hrc0. generalize (fold_left (step dt) s1 (init ths)) as c0.
  induction s2 as [|t s2 IH]; intros c0 HI Hdead Hrc0; cbn [fold_left]; [auto|].
  destruct (dead_step dt _ c0 t HI Hdead) as (Ht & Hr & Hdd & _).
  destruct (IH (step dt c0 t)) as (IH1 & IH2 & IH3); [apply inv_step; assumption|assumption|lia|].
  rewrite IH1. auto.
Qed.

(* ---- completion: every reference released <-> destroyed ---- *)
Lemma fin_step dt c t : sumf fin (o_thr (step dt c t)) = sumf fin (o_thr c).
Proof.
  unfold step. destruct (nth_error (o_thr c) t) as [th|] eqn:E; [|reflexivity].
  destruct (t_started th); cbn [negb].
  2:{ cbn [o_thr]. rewrite (sumf_upd _ _ _ _ _ E). unfold fin; cbn [t_held t_ops]. lia. }
  destruct (t_ops th) as [|o rest] eqn:Eo; [reflexivity|].
  cbn [o_thr]. rewrite (sumf_upd _ _ _ _ _ E). unfold fin; cbn [t_held t_ops]. rewrite Eo.
  cbn [map sumz fold_right]. fold (sumz (map op_inc rest)). lia.
Qed.
Lemma fin_run dt c sched : sumf fin (o_thr (run dt c sched)) = sumf fin (o_thr c).
Proof. revert c. induction sched as [|t s IH]; intros c; [reflexivity|].
  cbn [run fold_left]. fold (run dt (step dt c t) s). rewrite IH. apply fin_step. Qed.

Definition all_ops_done (c : ocfg) : Prop := Forall (fun th => t_ops th = []) (o_thr c).
(* every reference handed out or retained is released by somebody's list *)
Definition balanced (ths : list (Z * list op)) : Prop := sumf fin (map mk_thr ths) = 0.

Lemma sumf_ext_Forall f g l : Forall (fun x => f x = g x) l -> sumf f l = sumf g l.
Proof. induction 1 as [|x l Hx _ IH]; [reflexivity|]. rewrite !sumf_cons. lia. Qed.

Theorem all_released_destroyed_once dt ths sched : disciplined ths ->
  1 <= sumf t_held (map mk_thr ths) -> bound ths < 2147483648 -> balanced ths ->
  all_ops_done (run dt (init ths) sched) ->
  o_destroys (run dt (init ths) sched) = 1 /\ zeros (o_trace (run dt (init ths) sched)) = 1 /\
  dlog (o_trace (run dt (init ths) sched)) = dt /\ final_trace dt (o_trace (run dt (init ths) sched)).
Proof.
  intros Hd H1 HB Hbal Hdone.
  assert (Hs : sumf t_held (o_thr (run dt (init ths) sched)) = 0).
  { rewrite <- Hbal. change (map mk_thr ths) with (o_thr (init ths)).
    rewrite <- (fin_run dt (init ths) sched). apply sumf_ext_Forall.
    eapply Forall_impl; [|exact Hdone]. intros th Ho. unfold fin. rewrite Ho. cbn. lia. }
  apply (destroyed_iff_no_reference_left dt ths sched Hd H1 HB) in Hs.
  destruct (destroyed_at_most_once dt ths sched Hd H1 HB) as (_ & Hz & Hl). rewrite Hs in Hz, Hl.
  destruct (zero_is_last dt ths sched Hd H1 HB Hs) as (Hf & _).
  cbn in Hl. auto.
Qed.

(* a reference that nobody releases keeps the object alive for ever *)
Theorem leaked_never_destroyed dt ths sched : disciplined ths ->
  1 <= sumf t_held (map mk_thr ths) -> bound ths < 2147483648 ->
  sumf fin (map mk_thr ths) <> 0 ->
  o_destroys (run dt (init ths) sched) = 0 /\ dlog (o_trace (run dt (init ths) sched)) = [].
Proof.
  intros Hd H1 HB Hnb.
  destruct (destroyed_at_most_once dt ths sched Hd H1 HB) as (Hr & _ & Hl).
  assert (Hn1 : o_destroys (run dt (init ths) sched) <> 1).
  { intros H. destruct (zero_is_last dt ths sched Hd H1 HB H) as (_ & _ & Hall).
    apply Hnb. change (map mk_thr ths) with (o_thr (init ths)).
    rewrite <- (fin_run dt (init ths) sched).
    rewrite (sumf_ext_Forall fin (fun _ => 0)).
    - clear. induction (o_thr _) as [|x l IH]; [reflexivity|]. rewrite sumf_cons. lia.
    - eapply Forall_impl; [|exact Hall]. intros th (Hh & Ho). unfold fin. rewrite Hh, Ho. reflexivity. }
  assert (H0 : o_destroys (run dt (init ths) sched) = 0) by lia.
  rewrite H0 in Hl. cbn in Hl. auto.
Qed.

(* ---- the whole life of an object of any class ---- *)
Theorem whole_life junk k ths sched : disciplined ths ->
  1 <= sumf t_held (map mk_thr ths) -> bound ths < 2147483648 -> balanced ths ->
  all_ops_done (snd (obj_life junk k ths sched)) ->
  fst (obj_life junk k ths sched) = rev (ctors_of k) /\
  final_trace (dtors_of k) (o_trace (snd (obj_life junk k ths sched))) /\
  dlog (o_trace (snd (obj_life junk k ths sched))) = dtors_of k /\
  zeros (o_trace (snd (obj_life junk k ths sched))) = 1 /\
  o_destroys (snd (obj_life junk k ths sched)) = 1 /\
  o_late (snd (obj_life junk k ths sched)) = 0 /\
  o_rc (snd (obj_life junk k ths sched)) = 0.
Proof.
  unfold obj_life; cbn [fst snd]. rewrite ctor_order, dtor_order.
  intros Hd H1 HB Hbal Hdone.
  destruct (all_released_destroyed_once (dtors_of k) ths sched Hd H1 HB Hbal Hdone) as (Hdes & Hz & Hl & Hf).
  destruct (zero_is_last (dtors_of k) ths sched Hd H1 HB Hdes) as (_ & Hrc & _).
  pose proof (no_touch_after_destroy (dtors_of k) ths sched Hd H1 HB).
  repeat split; assumption.
Qed.

(* ---- without the discipline: a retain that races with the last release ---- *)
Definition race_ths : list (Z * list op) := [(1, [Release]); (0, [Retain; Release])].
Lemma race_good_order : let c := run [7%nat] (init race_ths) [0;1;1;0;1]%nat in
  o_destroys c = 1 /\ o_late c = 0 /\ dlog (o_trace c) = [7%nat].
Proof. vm_compute. auto. Qed.
Lemma race_bad_order : let c := run [7%nat] (init race_ths) [0;1;0;1;1]%nat in
  o_destroys c = 2 /\ o_late c = 2 /\ dlog (o_trace c) = [7%nat; 7%nat].
Proof. vm_compute. auto. Qed.
