(* parsec_class_initialize builds, for EVERY class chain (any depth, any pattern of
   NULL constructors / destructors, any content of the fresh allocation), the
   constructor array "base first" and the destructor array "derived first",
   each holding exactly the non-NULL functions of the chain once and a NULL
   sentinel; run_constructors / run_destructors therefore invoke exactly those. *)
From PV Require Import Base.Tac Base.ListX Obj.ObjDefs.

(* ---- list bookkeeping ---- *)
Ltac len := repeat (progress (rewrite ?app_length, ?map_length, ?rev_length; cbn [length])); lia.
Ltac nrm := repeat (progress (rewrite <- ?app_assoc; cbn [app])).
Lemma split_len {A} (l : list A) a b : length l = (a + b)%nat ->
  exists l1 l2, l = l1 ++ l2 /\ length l1 = a /\ length l2 = b.
Proof.
  intros H. exists (firstn a l), (skipn a l). split; [symmetry; apply firstn_skipn|].
  split; [apply firstn_length_le; lia | rewrite skipn_length; lia].
Qed.

Lemma split_last {A} (l : list A) n : length l = S n ->
  exists l1 x, l = l1 ++ [x] /\ length l1 = n.
Proof.
  intros H. destruct (split_len l n 1) as (l1 & l2 & E & H1 & H2); [lia|].
  destruct l2 as [|x [|y l2]]; cbn in H2; try lia. exists l1, x. auto.
Qed.

Lemma upd_mid {A} (a b : list A) x y : upd (a ++ x :: b) (length a) y = a ++ y :: b.
Proof.
  unfold upd. induction a as [|a0 a IH]; [reflexivity|].
  cbn [length app firstn skipn]. f_equal. exact IH.
Qed.

Lemma scan_some_none l r : scan (map Some l ++ None :: r) = l.
Proof. induction l as [|f l IH]; cbn [map app scan]; [reflexivity|]. now rewrite IH. Qed.

Lemma skipn_app_len {A} (a b : list A) n : n = length a -> skipn n (a ++ b) = b.
Proof. intros ->. rewrite skipn_app, skipn_all, Nat.sub_diag. reflexivity. Qed.

(* ---- first loop ---- *)
Lemma count_loop_spec k : forall nc nd d,
  count_loop k nc nd d =
  ((nc + length (ctors_of k))%nat, (nd + length (dtors_of k))%nat, (d + depth_of k)%nat).
Proof.
  induction k as [oc od|oc od p IH]; intros nc nd d; cbn [count_loop c_ctor c_dtor ctors_of dtors_of depth_of].
  - destruct oc, od; cbn [opt_list app length]; repeat (match goal with |- (_, _) = (_, _) => apply f_equal2 end); lia.
  - rewrite IH. destruct oc, od; cbn [opt_list app length]; repeat (match goal with |- (_, _) = (_, _) => apply f_equal2 end); lia.
Qed.

(* ---- one iteration of the second loop ---- *)
Lemma fill_iter k i J1 M U R a b :
  length J1 = (length (opt_list (c_ctor k)) + a)%nat ->
  length U = (length (opt_list (c_dtor k)) + b)%nat ->
  exists J1' U', length J1' = a /\ length U' = b /\
    let M' := map Some (opt_list (c_ctor k)) ++ M ++ map Some (opt_list (c_dtor k)) in
    fill (S i) (Some k) (J1 ++ M ++ U ++ R) (length J1) (length J1 + length M) =
    fill i (c_parent k) (J1' ++ M' ++ U' ++ R) (length J1') (length J1' + length M').
Proof.
  intros HJ HU. cbn [fill].
  destruct (c_ctor k) as [f|]; destruct (c_dtor k) as [g|]; cbn [opt_list length Nat.add map app] in *.
  - destruct (split_last J1 a HJ) as (J1' & j & -> & HJ').
    destruct U as [|u U']; [discriminate|]. cbn [length] in HU.
    exists J1', U'. repeat split; [assumption|lia|].
    rewrite app_length. cbn [length].
    replace (length J1' + 1 - 1)%nat with (length J1') by lia.
    rewrite <- app_assoc. cbn [app]. rewrite upd_mid.
    replace (J1' ++ Some f :: M ++ u :: U' ++ R) with ((J1' ++ Some f :: M) ++ u :: U' ++ R)
      by (rewrite <- app_assoc; reflexivity).
    replace (length J1' + 1 + length M)%nat with (length (J1' ++ Some f :: M))
      by (rewrite app_length; cbn [length]; lia).
    rewrite upd_mid.
    f_equal.
    + nrm. reflexivity.
    + len.
  - destruct (split_last J1 a HJ) as (J1' & j & -> & HJ').
    exists J1', U. repeat split; [assumption|lia|].
    rewrite app_length. cbn [length].
    replace (length J1' + 1 - 1)%nat with (length J1') by lia.
    rewrite <- app_assoc. cbn [app]. rewrite upd_mid.
    rewrite app_nil_r. f_equal. cbn [length]. lia.
  - destruct U as [|u U']; [discriminate|]. cbn [length] in HU.
    exists J1, U'. repeat split; [lia|lia|]. cbn [app].
    replace (J1 ++ M ++ u :: U' ++ R) with ((J1 ++ M) ++ u :: U' ++ R)
      by (rewrite <- app_assoc; reflexivity).
    replace (length J1 + length M)%nat with (length (J1 ++ M)) by (rewrite app_length; lia).
    rewrite upd_mid.
    f_equal.
    + nrm. reflexivity.
    + len.
  - exists J1, U. repeat split; [lia|lia|]. rewrite app_nil_r. reflexivity.
Qed.

(* ---- the whole second loop ---- *)
Lemma fill_spec k : forall J1 M U R,
  length J1 = length (ctors_of k) -> length U = length (dtors_of k) ->
  fill (depth_of k) (Some k) (J1 ++ M ++ U ++ R) (length J1) (length J1 + length M) =
  (map Some (rev (ctors_of k)) ++ M ++ map Some (dtors_of k) ++ R,
   (length J1 + length M + length (dtors_of k))%nat).
Proof.
  induction k as [oc od|oc od p IH]; intros J1 M U R HJ HU;
    cbn [depth_of ctors_of dtors_of c_ctor c_dtor] in *.
  - rewrite app_nil_r in HJ, HU.
    destruct (fill_iter (Base oc od) 0 J1 M U R 0 0) as (J1' & U' & HJ' & HU' & E);
      cbn [c_ctor c_dtor]; [lia|lia|].
    cbn zeta in E. rewrite E. cbn [fill c_ctor c_dtor].
    destruct J1'; [|discriminate]. destruct U'; [|discriminate].
    rewrite !app_nil_r. cbn [app length].
    f_equal.
    + destruct oc, od; cbn [opt_list map rev app]; rewrite <- ?app_assoc; reflexivity.
    + rewrite !app_length, !map_length. destruct oc, od; cbn [opt_list length] in *; lia.
  - rewrite app_length in HJ, HU.
    destruct (fill_iter (Derived oc od p) (depth_of p) J1 M U R (length (ctors_of p)) (length (dtors_of p)))
      as (J1' & U' & HJ' & HU' & E); cbn [c_ctor c_dtor]; [lia|lia|].
    cbn zeta in E. rewrite E. cbn [c_parent c_ctor c_dtor].
    rewrite (IH J1' _ U' R HJ' HU').
    f_equal.
    + rewrite rev_app_distr, !map_app. rewrite <- !app_assoc.
      destruct oc, od; cbn [opt_list map rev app]; rewrite <- ?app_assoc; reflexivity.
    + rewrite !app_length, !map_length. destruct oc, od; cbn [opt_list length] in *; lia.
Qed.

(* ---- parsec_class_initialize ---- *)
Lemma class_initialize_spec junk k :
  class_initialize junk k =
  {| i_depth := depth_of k;
     i_arr := map Some (rev (ctors_of k)) ++ None :: map Some (dtors_of k) ++ [None];
     i_coff := 0; i_doff := S (length (ctors_of k)) |}.
Proof.
  unfold class_initialize.
  rewrite count_loop_spec. cbn [Nat.add].
  set (nc := length (ctors_of k)). set (nd := length (dtors_of k)).
  set (arr0 := map junk (seq 0 (nc + nd + 2))).
  assert (Hlen : length arr0 = (nc + (1 + (nd + 1)))%nat).
  { unfold arr0. rewrite map_length, seq_length. lia. }
  destruct (split_len _ _ _ Hlen) as (J1 & T1 & E1 & HJ1 & HT1).
  destruct (split_len _ _ _ HT1) as (X & T2 & E2 & HX & HT2).
  destruct (split_len _ _ _ HT2) as (U & Y & E3 & HU & HY).
  destruct X as [|x [|? ?]]; cbn in HX; try lia.
  destruct Y as [|y [|? ?]]; cbn in HY; try lia.
  subst T2 T1. rewrite E1. cbn [app].
  rewrite <- HJ1. rewrite upd_mid.
  pose proof (fill_spec k J1 [None] U [y] HJ1 HU) as F. cbn [app length] in F.
  rewrite F.
  replace (map Some (rev (ctors_of k)) ++ None :: map Some (dtors_of k) ++ [y])
    with ((map Some (rev (ctors_of k)) ++ None :: map Some (dtors_of k)) ++ [y])
    by (rewrite <- app_assoc; reflexivity).
  replace (length J1 + 1 + length (dtors_of k))%nat
    with (length (map Some (rev (ctors_of k)) ++ None :: map Some (dtors_of k)))
    by (unfold nc in HJ1; len).
  rewrite upd_mid. rewrite <- app_assoc. cbn [app].
  f_equal. unfold nc in HJ1. lia.
Qed.

Theorem ctor_order junk k : run_constructors (class_initialize junk k) = rev (ctors_of k).
Proof.
  rewrite class_initialize_spec.
  unfold run_constructors; cbn [i_coff i_arr skipn]. apply scan_some_none.
Qed.

Theorem dtor_order junk k : run_destructors (class_initialize junk k) = dtors_of k.
Proof.
  rewrite class_initialize_spec.
  unfold run_destructors; cbn [i_doff i_arr].
  replace (map Some (rev (ctors_of k)) ++ None :: map Some (dtors_of k) ++ [None])
    with ((map Some (rev (ctors_of k)) ++ [None]) ++ map Some (dtors_of k) ++ [None])
    by (rewrite <- app_assoc; reflexivity).
  rewrite skipn_app_len by (rewrite app_length, map_length, rev_length; cbn [length]; lia).
  apply scan_some_none.
Qed.

Theorem depth_counted junk k : i_depth (class_initialize junk k) = depth_of k.
Proof. rewrite class_initialize_spec. reflexivity. Qed.

(* the block has exactly the allocated size and both arrays are NULL terminated inside it *)
Theorem arrays_in_block junk k :
  length (i_arr (class_initialize junk k)) = (length (ctors_of k) + length (dtors_of k) + 2)%nat /\
  nth_error (i_arr (class_initialize junk k)) (length (ctors_of k)) = Some None /\
  nth_error (i_arr (class_initialize junk k)) (length (ctors_of k) + length (dtors_of k) + 1) = Some None.
Proof.
  rewrite class_initialize_spec. cbn [i_arr].
  repeat split.
  - rewrite app_length. cbn [length]. rewrite app_length, !map_length, rev_length. cbn [length]. lia.
  - rewrite nth_error_app2 by (rewrite map_length, rev_length; lia).
    rewrite map_length, rev_length, Nat.sub_diag. reflexivity.
  - rewrite nth_error_app2 by (rewrite map_length, rev_length; lia).
    rewrite map_length, rev_length.
    replace (length (ctors_of k) + length (dtors_of k) + 1 - length (ctors_of k))%nat
      with (S (length (dtors_of k))) by lia.
    cbn [nth_error]. rewrite nth_error_app2 by (rewrite map_length; lia).
    rewrite map_length, Nat.sub_diag. reflexivity.
Qed.

(* "each exactly once" when the functions of the chain are pairwise distinct *)
Theorem dtor_each_once junk k f : NoDup (dtors_of k) ->
  count_occ Nat.eq_dec (run_destructors (class_initialize junk k)) f =
  if in_dec Nat.eq_dec f (dtors_of k) then 1%nat else 0%nat.
Proof.
  intros Hnd. rewrite dtor_order. destruct (in_dec Nat.eq_dec f (dtors_of k)) as [Hin|Hnin].
  - apply (proj1 (NoDup_count_occ' Nat.eq_dec _) Hnd). exact Hin.
  - apply count_occ_not_In. exact Hnin.
Qed.
Theorem ctor_each_once junk k f : NoDup (ctors_of k) ->
  count_occ Nat.eq_dec (run_constructors (class_initialize junk k)) f =
  if in_dec Nat.eq_dec f (ctors_of k) then 1%nat else 0%nat.
Proof.
  intros Hnd. rewrite ctor_order. destruct (in_dec Nat.eq_dec f (ctors_of k)) as [Hin|Hnin].
  - apply (proj1 (NoDup_count_occ' Nat.eq_dec _)); [apply NoDup_rev; exact Hnd|].
    apply in_rev in Hin. exact Hin.
  - apply count_occ_not_In. intros H. apply Hnin. apply in_rev. exact H.
Qed.
