(* C13 — executable model of the collective activation of remote dependencies:
   parsec/remote_dep.c (parsec_remote_dep_activate, the three child predicates,
   parsec_gather_collective_pattern / parsec_remote_dep_propagate), the bit
   mapping of parsec/remote_dep.h, and the per-peer payload selection of
   remote_dep_mpi.c:remote_dep_mpi_pack_dep.  No proofs in this file.

   Ranks, masks and 32-bit words are [N]; the idx / my_idx counters are C ints
   and are [Z] (my_idx = -1 means "I do not know my position yet").
   Assumptions (respected by the generator): nb_nodes < 2^31, ranks < nb_nodes,
   at most 32 outputs (the C masks are uint32_t), every output is a data
   output (a CONTROL output is never part of the packed sizes). *)
From PV Require Import Base.Tac.
From Coq Require Import NArith.
Local Open Scope N_scope.

(* ---- remote_dep.h: remote_dep_rank_to_bit / remote_dep_bit_to_rank -------- *)
(* uint32_t _rank = (rank + nb_nodes - root) % nb_nodes; bank = _rank / 32; bit = _rank % 32 *)
Definition rank_to_bit (n root rank : N) : N * N :=
  let r := (rank + n - root) mod n in (r / 32, r mod 32).
(* _rank = bank * 32 + bit; rank = (_rank + root) % nb_nodes *)
Definition bit_to_rank (n root bank bit : N) : N := (bank * 32 + bit + root) mod n.

(* ---- arrays of 32-bit words ------------------------------------------------ *)
Fixpoint upd (ws : list N) (b : nat) (v : N) : list N :=
  match ws, b with
  | [], _ => []
  | _ :: ws', O => v :: ws'
  | w :: ws', S b' => w :: upd ws' b' v
  end.
Definition getbit (ws : list N) (b i : N) : bool := N.testbit (nth (N.to_nat b) ws 0) i.
Definition setbit (ws : list N) (b i : N) : list N :=
  upd ws (N.to_nat b) (N.lor (nth (N.to_nat b) ws 0) (N.shiftl 1 i)).
(* (nb_nodes + 31) / 32 words per bit array *)
Definition nbanks (n : N) : nat := N.to_nat ((n + 31) / 32).
Definition zeros (n : N) : list N := repeat 0 (nbanks n).

(* ---- one output of a parsec_remote_deps_t: rank_bits and count_bits -------- *)
Record outp := { rank_bits : list N; count_bits : nat }.
Definition empty_out (n : N) : outp := {| rank_bits := zeros n; count_bits := 0 |}.

(* parsec_release_dep_fct (root) and parsec_gather_collective_pattern (relay):
   if( !(output->rank_bits[pos] & mask) ) { rank_bits[pos] |= mask; count_bits++; } *)
Definition add_rank (n root : N) (o : outp) (rank : N) : outp :=
  let '(b, i) := rank_to_bit n root rank in
  if getbit (rank_bits o) b i then o
  else {| rank_bits := setbit (rank_bits o) b i; count_bits := S (count_bits o) |}.
Definition mk_output (n root : N) (ranks : list N) : outp :=
  fold_left (add_rank n root) ranks (empty_out n).

(* ---- the enumeration of the participants of one output --------------------
   for( array_index = count = 0; count < count_bits; array_index++ ) {
     current_mask = rank_bits[array_index]; if( 0 == current_mask ) continue;
     for( bit_index = 0; current_mask != 0; bit_index++ ) {
       if( !(current_mask & (1 << bit_index)) ) continue;
       remote_dep_bit_to_rank(&rank, array_index, bit_index, root);
       current_mask ^= (1 << bit_index); count++;  ... } }                     *)
Definition enum_word (n root : N) (ai : nat) (w : N) : list N :=
  flat_map (fun bi => if N.testbit w (N.of_nat bi)
                      then [bit_to_rank n root (N.of_nat ai) (N.of_nat bi)] else [])
           (seq 0 32).
Fixpoint enum_banks (n root : N) (count : nat) (ai : nat) (ws : list N) : list N :=
  match count, ws with
  | O, _ => []
  | _, [] => []      (* the C would read past the array: excluded, count_bits = number of set bits *)
  | _, w :: ws' => let l := enum_word n root ai w in
                   l ++ enum_banks n root (count - length l) (S ai) ws'
  end.

(* ---- the child predicates (C ints) ----------------------------------------- *)
Local Open Scope Z_scope.
Definition star_child (me him : Z) : bool := me =? 0.
Definition chain_child (me him : Z) : bool :=
  if me =? -1 then false else him =? me + 1.
(* for(k = 31; k >= 0; k--) { mask = 1<<k; if(him & mask) { him ^= mask; break; } } *)
Fixpoint clear_top (k : nat) (him : Z) : Z :=
  match k with
  | O => him
  | S k' => if Z.testbit him (Z.of_nat k') then Z.lxor him (2 ^ Z.of_nat k') else clear_top k' him
  end.
Definition binomial_child (me him : Z) : bool :=
  if him =? 0 then false else if me =? -1 then false else clear_top 32 him =? me.

Inductive topo := Star | Chain | Binomial.
Definition child_fn (t : topo) : Z -> Z -> bool :=
  match t with Star => star_child | Chain => chain_child | Binomial => binomial_child end.
(* parsec_remote_dep_init: switch(runtime_comm_coll_bcast) 0 star, 1 chain, 2 binomial,
   default star; a DTD taskpool (code + 10 in the case files) always uses star *)
Definition topo_of_code (c : N) : topo :=
  if (10 <=? c)%N then Star
  else if (c =? 1)%N then Chain else if (c =? 2)%N then Binomial else Star.
Local Open Scope N_scope.

(* ---- parsec_remote_dep_activate --------------------------------------------- *)
(* remote_dep_is_forwarded / remote_dep_mark_forwarded on remote_dep_fw_mask *)
Definition is_forwarded (n root : N) (fw : list N) (rank : N) : bool :=
  let '(b, i) := rank_to_bit n root rank in getbit fw b i.
Definition mark_forwarded (n root : N) (fw : list N) (rank : N) : list N :=
  let '(b, i) := rank_to_bit n root rank in setbit fw b i.

Record lstate := { fw : list N; idx : Z; my_idx : Z; sent : list N }.

(* the body of the innermost loop for one participant [rank] of the current output *)
Definition visit (n root me : N) (child : Z -> Z -> bool) (st : lstate) (rank : N) : lstate :=
  if is_forwarded n root (fw st) rank then st                       (* already in the counting *)
  else
    let idx' := (idx st + 1)%Z in
    if (my_idx st =? -1)%Z then
      {| fw := mark_forwarded n root (fw st) rank; idx := idx';
         my_idx := if rank =? me then idx' else (-1)%Z; sent := sent st |}
    else
      {| fw := mark_forwarded n root (fw st) rank; idx := idx'; my_idx := my_idx st;
         sent := if child (my_idx st) idx' then sent st ++ [rank] else sent st |}.

(* one iteration of the loop over the outputs of the propagation mask *)
Definition do_output (n root me : N) (child : Z -> Z -> bool) (o : outp)
           (acc : list N * list N) : list N * list N :=
  let st := fold_left (visit n root me child)
                      (enum_banks n root (count_bits o) 0 (rank_bits o))
                      {| fw := fst acc; idx := 0%Z;
                         my_idx := if root =? me then 0%Z else (-1)%Z; sent := snd acc |} in
  (fw st, sent st).

(* for( i = 0; mask >> i; i++ ) if( (1U << i) & mask ) *)
Definition mask_bits (m : N) : list nat :=
  filter (fun i => N.testbit m (N.of_nat i)) (seq 0 (N.size_nat m)).

(* the ranks remote_dep_dequeue_send is called for, in order *)
Definition dests (n root me : N) (child : Z -> Z -> bool) (outs : list outp) (pmask : N) : list N :=
  snd (fold_left (fun acc i => do_output n root me child (nth i outs (empty_out n)) acc)
                 (mask_bits pmask)
                 (mark_forwarded n root (zeros n) root, [])).

(* remote_dep_mpi_pack_dep: the outputs whose size is announced to [peer]:
   k in outgoing_mask and peer's bit set in output[k].rank_bits *)
Definition pack_mask (n root : N) (outs : list outp) (omask peer : N) : N :=
  let '(b, i) := rank_to_bit n root peer in
  fold_left (fun acc k => if getbit (rank_bits (nth k outs (empty_out n))) b i
                          then N.setbit acc (N.of_nat k) else acc)
            (mask_bits omask) 0.

(* one activation message: sender, receiver, outputs announced, msg.output_mask *)
Record msg := { m_src : N; m_dst : N; m_ann : N; m_pm : N }.

Definition activate (n me root : N) (outs : list outp) (pmask omask : N)
           (child : Z -> Z -> bool) : list msg :=
  map (fun d => {| m_src := me; m_dst := d; m_ann := pack_mask n root outs omask d; m_pm := pmask |})
      (dests n root me child outs pmask).

(* ---- closing the propagation over the ranks ----------------------------------
   [sets]: one destination list per output (ranks of the successors).           *)
Definition mem (r : N) (l : list N) : bool := existsb (N.eqb r) l.
Definition nonroot (root : N) (s : list N) : list N := filter (fun r => negb (r =? root)) s.

(* root: parsec_release_dep_fct records remote successors only (dst_rank != src_rank)
   and sets outgoing_mask |= 1 << k for each of them *)
Definition root_outs (n root : N) (sets : list (list N)) : list outp :=
  map (fun s => mk_output n root (nonroot root s)) sets.
Definition has_remote (root : N) (s : list N) : bool := existsb (fun r => negb (r =? root)) s.
Definition root_mask (root : N) (sets : list (list N)) : N :=
  fold_left (fun acc k => if has_remote root (nth k sets []) then N.setbit acc (N.of_nat k) else acc)
            (seq 0 (length sets)) 0.
(* receiver: parsec_remote_dep_propagate iterates the successors of the outputs in
   msg.output_mask with parsec_gather_collective_pattern: every successor rank is a
   participant (the root too), outgoing_mask |= 1 << k when the successor is local *)
Definition relay_outs (n root : N) (sets : list (list N)) (pm : N) : list outp :=
  map (fun k => if N.testbit pm (N.of_nat k) then mk_output n root (nth k sets []) else empty_out n)
      (seq 0 (length sets)).
Definition relay_mask (me : N) (sets : list (list N)) (pm : N) : N :=
  fold_left (fun acc k => if N.testbit pm (N.of_nat k) && mem me (nth k sets [])
                          then N.setbit acc (N.of_nat k) else acc)
            (seq 0 (length sets)) 0.

Definition root_sends (n root : N) (sets : list (list N)) (child : Z -> Z -> bool) : list msg :=
  let rm := root_mask root sets in
  if rm =? 0 then []                     (* no remote successor: activate is not called *)
  else activate n root root (root_outs n root sets) rm rm child.
Definition relay_sends (n root : N) (sets : list (list N)) (child : Z -> Z -> bool) (m : msg) : list msg :=
  activate n (m_dst m) root (relay_outs n root sets (m_pm m)) (m_pm m)
           (relay_mask (m_dst m) sets (m_pm m)) child.

(* breadth first: every delivered activation is processed once by its receiver *)
Fixpoint rounds (n root : N) (sets : list (list N)) (child : Z -> Z -> bool)
         (fuel : nat) (frontier : list msg) : list (msg * list msg) * list msg :=
  match fuel with
  | O => ([], frontier)
  | S f => let recs := map (fun m => (m, relay_sends n root sets child m)) frontier in
           let '(log, rest) := rounds n root sets child f (flat_map snd recs) in
           (recs ++ log, rest)
  end.

(* (messages of the root, (activation received, messages it triggers) in processing
   order, messages left undelivered when the fuel nb_nodes runs out) *)
Definition propagate (n root : N) (sets : list (list N)) (child : Z -> Z -> bool)
  : list msg * list (msg * list msg) * list msg :=
  let rs := root_sends n root sets child in
  let '(log, rest) := rounds n root sets child (N.to_nat n) rs in
  (rs, log, rest).

Definition all_msgs (p : list msg * list (msg * list msg) * list msg) : list msg :=
  let '(rs, log, _) := p in rs ++ flat_map snd log.
Definition leftover (p : list msg * list (msg * list msg) * list msg) : list msg :=
  let '(_, _, rest) := p in rest.

(* ---- what C13 asks, on the message list of the closed propagation -------------- *)
Definition recv_count (r : N) (ms : list msg) : nat :=
  length (filter (fun m => m_dst m =? r) ms).
(* r consumes some output and is not the root *)
Definition is_dest (root : N) (sets : list (list N)) (r : N) : bool :=
  negb (r =? root) && existsb (mem r) sets.
(* every consumer of output k is activated by a message that announces k, and the
   sender of that message holds k (it is the root, or it consumes k itself) *)
Definition payload_ok (n root : N) (sets : list (list N)) (child : Z -> Z -> bool) : Prop :=
  forall m, In m (all_msgs (propagate n root sets child)) ->
  forall k, mem (m_dst m) (nth k sets []) = true ->
    N.testbit (m_ann m) (N.of_nat k) = true /\
    (m_src m = root \/ mem (m_src m) (nth k sets []) = true).
(* some destination of output k is activated by a message that does not announce k *)
Definition relay_lacks_output (n root : N) (sets : list (list N)) (child : Z -> Z -> bool) : bool :=
  existsb (fun m => existsb (fun k => mem (m_dst m) (nth k sets []) && negb (N.testbit (m_ann m) (N.of_nat k)))
                            (seq 0 (length sets)))
          (all_msgs (propagate n root sets child)).
(* the destination sets (root ignored) are pairwise equal or disjoint *)
Definition same_or_disjoint (root : N) (sets : list (list N)) : Prop :=
  forall j k,
    (forall x, x <> root -> mem x (nth j sets []) = mem x (nth k sets [])) \/
    (forall x, x <> root -> mem x (nth j sets []) = true -> mem x (nth k sets []) = false).
